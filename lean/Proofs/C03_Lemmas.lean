/-
  C03 — helper lemmas: sorted insertion and the table invariant (A), `dmag2` as a minimum over image
  shifts (B), the fixed-capacity rows refine the growing lists (C).
-/
import Atomman.C03
import Mathlib.Tactic.Ring
import Mathlib.Tactic.Linarith
import Mathlib.Data.List.Sort
import Mathlib.Algebra.Order.Field.Rat
import Mathlib.Data.Rat.Cast.Order

set_option linter.unusedSimpArgs false
set_option linter.unusedVariables false
set_option linter.unnecessarySeqFocus false

namespace Atomman.C03
open List

/-! ## A. sorted symmetric insertion -/


/-! ### sorted insertion -/

theorem mem_insBefore {v x : Nat} {l : List Nat} : x ∈ insBefore v l ↔ x = v ∨ x ∈ l := by
  induction l with
  | nil => simp [insBefore]
  | cons a l ih =>
    unfold insBefore
    split
    · simp
    · simp only [mem_cons, ih]; tauto

theorem length_insBefore {v : Nat} {l : List Nat} : (insBefore v l).length = l.length + 1 := by
  induction l with
  | nil => simp [insBefore]
  | cons a l ih =>
    unfold insBefore
    split <;> simp [ih]

theorem pairwise_insBefore {v : Nat} {l : List Nat} (h : l.Pairwise (· < ·)) (hv : v ∉ l) :
    (insBefore v l).Pairwise (· < ·) := by
  induction l with
  | nil => simp [insBefore]
  | cons a l ih =>
    unfold insBefore
    rw [pairwise_cons] at h
    split
    · rename_i hva
      refine pairwise_cons.2 ⟨?_, pairwise_cons.2 h⟩
      intro x hx
      rcases mem_cons.1 hx with rfl | hx
      · exact hva
      · exact lt_trans hva (h.1 x hx)
    · rename_i hva
      have hne : v ≠ a := fun e => hv (e ▸ mem_cons_self)
      have hav : a < v := by omega
      refine pairwise_cons.2 ⟨?_, ih h.2 (fun hm => hv (mem_cons_of_mem _ hm))⟩
      intro x hx
      rcases mem_insBefore.1 hx with rfl | hx
      · exact hav
      · exact h.1 x hx

theorem scanL_iff {v : Nat} {l : List Nat} (h : l.Pairwise (· < ·)) : scanL v l = true ↔ v ∉ l := by
  induction l with
  | nil => simp [scanL]
  | cons a l ih =>
    rw [pairwise_cons] at h
    unfold scanL
    split
    · rename_i e; subst e; simp
    · rename_i hne
      split
      · rename_i hva
        simp only [mem_cons, not_or, true_iff]
        refine ⟨fun e => hne e.symm, fun hm => ?_⟩
        have := h.1 v hm
        omega
      · rw [ih h.2]; simp only [mem_cons, not_or]
        constructor
        · intro hm; exact ⟨fun e => hne e.symm, hm⟩
        · intro hm; exact hm.2

/-! ### rows -/

/-- row `i` of a row table (`[]` outside). -/
abbrev rowOf (rows : Rows) (i : Nat) : List Nat := rows.getD i []

theorem rowOf_modify {rows : Rows} {u i : Nat} {f : List Nat → List Nat} (hu : u < rows.length) :
    rowOf (rows.modify u f) i = if i = u then f (rowOf rows i) else rowOf rows i := by
  unfold rowOf
  simp only [List.getD_eq_getElem?_getD, List.getElem?_modify]
  split
  · rename_i e; subst e
    simp [List.getElem?_eq_getElem hu]
  · rename_i e
    rw [if_neg (fun h => e h.symm)]
    simp

/-- the invariant of the neighbor table. -/
def Inv (n : Nat) (rows : Rows) : Prop :=
  rows.length = n ∧ ∀ i, i < n →
    (rowOf rows i).Pairwise (· < ·) ∧ ∀ j ∈ rowOf rows i, j < n ∧ j ≠ i ∧ i ∈ rowOf rows j

theorem length_insertPairL {rows : Rows} {u v : Nat} : (insertPairL rows u v).length = rows.length := by
  unfold insertPairL; split <;> simp

theorem rowOf_insertPairL_mem {n : Nat} {rows : Rows} {u v : Nat} (h : Inv n rows) (hu : u < n) (hv : v < n)
    (huv : u ≠ v) (i j : Nat) :
    j ∈ rowOf (insertPairL rows u v) i ↔ j ∈ rowOf rows i ∨ (i = u ∧ j = v) ∨ (i = v ∧ j = u) := by
  obtain ⟨hl, hI⟩ := h
  unfold insertPairL
  split
  · rename_i hs
    rw [rowOf_modify (by simp; omega), rowOf_modify (by omega)]
    by_cases hiv : i = v
    · subst hiv
      rw [if_pos rfl, if_neg (fun e => huv e.symm), mem_insBefore]
      constructor
      · rintro (rfl | h); · right; right; exact ⟨rfl, rfl⟩
        · left; exact h
      · rintro (h | ⟨e, _⟩ | ⟨_, rfl⟩)
        · right; exact h
        · exact absurd e.symm huv
        · left; rfl
    · rw [if_neg hiv]
      by_cases hiu : i = u
      · subst hiu
        rw [if_pos rfl, mem_insBefore]
        constructor
        · rintro (rfl | h); · right; left; exact ⟨rfl, rfl⟩
          · left; exact h
        · rintro (h | ⟨_, rfl⟩ | ⟨e, _⟩)
          · right; exact h
          · left; rfl
          · exact absurd e hiv
      · rw [if_neg hiu]
        constructor
        · intro h; left; exact h
        · rintro (h | ⟨e, _⟩ | ⟨e, _⟩)
          · exact h
          · exact absurd e hiu
          · exact absurd e hiv
  · rename_i hs
    have hvu : v ∈ rowOf rows u := by
      by_contra hc
      exact hs ((scanL_iff (hI u hu).1).2 hc)
    have huv' : u ∈ rowOf rows v := ((hI u hu).2 v hvu).2.2
    constructor
    · intro h; left; exact h
    · rintro (h | ⟨rfl, rfl⟩ | ⟨rfl, rfl⟩)
      · exact h
      · exact hvu
      · exact huv'

theorem rowOf_insertPairL_pairwise {n : Nat} {rows : Rows} {u v : Nat} (h : Inv n rows) (hu : u < n) (hv : v < n)
    (huv : u ≠ v) (i : Nat) (hi : i < n) : (rowOf (insertPairL rows u v) i).Pairwise (· < ·) := by
  obtain ⟨hl, hI⟩ := h
  unfold insertPairL
  split
  · rename_i hs
    have hvu : v ∉ rowOf rows u := (scanL_iff (hI u hu).1).1 hs
    have huv' : u ∉ rowOf rows v := fun hm => hvu ((hI v hv).2 u hm).2.2
    rw [rowOf_modify (by simp; omega), rowOf_modify (by omega)]
    by_cases hiv : i = v
    · subst hiv
      rw [if_pos rfl, if_neg (fun e => huv e.symm)]
      exact pairwise_insBefore (hI i hi).1 huv'
    · rw [if_neg hiv]
      by_cases hiu : i = u
      · subst hiu
        rw [if_pos rfl]
        exact pairwise_insBefore (hI i hi).1 hvu
      · rw [if_neg hiu]; exact (hI i hi).1
  · exact (hI i hi).1

/-- one insertion preserves the invariant. -/
theorem insertPairL_inv {n : Nat} {rows : Rows} {u v : Nat} (h : Inv n rows) (hu : u < n) (hv : v < n)
    (huv : u ≠ v) : Inv n (insertPairL rows u v) := by
  refine ⟨by rw [length_insertPairL]; exact h.1, fun i hi => ⟨rowOf_insertPairL_pairwise h hu hv huv i hi, ?_⟩⟩
  intro j hj
  rw [rowOf_insertPairL_mem h hu hv huv] at hj
  rw [rowOf_insertPairL_mem h hu hv huv]
  rcases hj with hj | ⟨rfl, rfl⟩ | ⟨rfl, rfl⟩
  · obtain ⟨a, b, c⟩ := (h.2 i hi).2 j hj
    exact ⟨a, b, Or.inl c⟩
  · exact ⟨hv, fun e => huv e.symm, Or.inr (Or.inr ⟨rfl, rfl⟩)⟩
  · exact ⟨hu, huv, Or.inr (Or.inl ⟨rfl, rfl⟩)⟩

theorem rowOf_replicate (n i : Nat) : rowOf (List.replicate n ([] : List Nat)) i = [] := by
  unfold rowOf
  simp only [List.getD_eq_getElem?_getD, List.getElem?_replicate]
  split <;> rfl

theorem inv_replicate (n : Nat) : Inv n (List.replicate n []) := by
  refine ⟨by simp, fun i hi => ?_⟩
  rw [rowOf_replicate]; simp

/-- folding from any table that satisfies the invariant. -/
theorem foldl_stepLW_spec (acc : Nat × Nat → Bool) (n : Nat) (hacc : ∀ uv, acc uv = true → uv.1 ≠ uv.2)
    (cs : List (Nat × Nat)) (hcs : ∀ uv ∈ cs, uv.1 < n ∧ uv.2 < n) (rows : Rows) (hI : Inv n rows) :
    Inv n (cs.foldl (stepLW acc) rows) ∧ ∀ i j, (j ∈ rowOf (cs.foldl (stepLW acc) rows) i ↔
      j ∈ rowOf rows i ∨ ∃ uv ∈ cs, acc uv = true ∧ (uv = (i, j) ∨ uv = (j, i))) := by
  induction cs generalizing rows with
  | nil => exact ⟨hI, fun i j => by simp⟩
  | cons uv cs ih =>
    have hcs' : ∀ uv ∈ cs, uv.1 < n ∧ uv.2 < n := fun x hx => hcs x (mem_cons_of_mem _ hx)
    have huvn := hcs uv mem_cons_self
    rw [foldl_cons]
    by_cases ha : acc uv = true
    · have hne := hacc uv ha
      have hI' : Inv n (stepLW acc rows uv) := by
        unfold stepLW; rw [if_pos ha]; exact insertPairL_inv hI huvn.1 huvn.2 hne
      obtain ⟨h1, h2⟩ := ih hcs' _ hI'
      refine ⟨h1, fun i j => ?_⟩
      rw [h2]
      have hstep : stepLW acc rows uv = insertPairL rows uv.1 uv.2 := by unfold stepLW; rw [if_pos ha]
      rw [hstep, rowOf_insertPairL_mem hI huvn.1 huvn.2 hne]
      constructor
      · rintro ((h | ⟨rfl, rfl⟩ | ⟨rfl, rfl⟩) | ⟨w, hw, hw2⟩)
        · left; exact h
        · right; exact ⟨uv, mem_cons_self, ha, Or.inl rfl⟩
        · right; exact ⟨uv, mem_cons_self, ha, Or.inr rfl⟩
        · right; exact ⟨w, mem_cons_of_mem _ hw, hw2⟩
      · rintro (h | ⟨w, hw, hw2, hw3⟩)
        · left; left; exact h
        · rcases mem_cons.1 hw with rfl | hw
          · left; right
            rcases hw3 with e | e
            · left; rw [e]; exact ⟨rfl, rfl⟩
            · right; rw [e]; exact ⟨rfl, rfl⟩
          · right; exact ⟨w, hw, hw2, hw3⟩
    · have hstep : stepLW acc rows uv = rows := by unfold stepLW; rw [if_neg ha]
      rw [hstep]
      obtain ⟨h1, h2⟩ := ih hcs' _ hI
      refine ⟨h1, fun i j => ?_⟩
      rw [h2]
      constructor
      · rintro (h | ⟨w, hw, hw2⟩)
        · left; exact h
        · right; exact ⟨w, mem_cons_of_mem _ hw, hw2⟩
      · rintro (h | ⟨w, hw, hw2, hw3⟩)
        · left; exact h
        · rcases mem_cons.1 hw with rfl | hw
          · exact absurd hw2 ha
          · right; exact ⟨w, hw, hw2, hw3⟩

/-- state after processing `cs`: invariant and exact membership. -/
theorem runLW_spec (acc : Nat × Nat → Bool) (n : Nat) (hacc : ∀ uv, acc uv = true → uv.1 ≠ uv.2)
    (cs : List (Nat × Nat)) (hcs : ∀ uv ∈ cs, uv.1 < n ∧ uv.2 < n) :
    Inv n (runLW acc n cs) ∧ ∀ i j, (j ∈ rowOf (runLW acc n cs) i ↔
      ∃ uv ∈ cs, acc uv = true ∧ (uv = (i, j) ∨ uv = (j, i))) := by
  obtain ⟨h1, h2⟩ := foldl_stepLW_spec acc n hacc cs hcs _ (inv_replicate n)
  refine ⟨h1, fun i j => ?_⟩
  unfold runLW
  rw [h2, rowOf_replicate]
  simp


/-! ## B. dmag2 -/


/-! ### dmag2 as a minimum over the image shifts -/

theorem foldl_min_lt_iff {α : Type} (f : α → ℚ) (l : List α) (m0 t : ℚ) :
    (l.foldl (fun m s => let t := f s; if t < m then t else m) m0 < t) ↔ (m0 < t ∨ ∃ s ∈ l, f s < t) := by
  induction l generalizing m0 with
  | nil => simp
  | cons a l ih =>
    rw [foldl_cons, ih]
    simp only [mem_cons, exists_eq_or_imp]
    by_cases h : f a < m0
    · simp only [h, if_true]
      constructor
      · rintro (h1 | h1)
        · right; left; exact h1
        · right; right; exact h1
      · rintro (h1 | h1 | h1)
        · left; linarith
        · left; exact h1
        · right; exact h1
    · simp only [h, if_false]
      constructor
      · rintro (h1 | h1)
        · left; exact h1
        · right; right; exact h1
      · rintro (h1 | h1 | h1)
        · left; exact h1
        · left; linarith
        · right; exact h1

/-- all shifts tried by `dmag2_c`, the identity included. -/
def allShifts (px py pz : Bool) : List (Int × Int × Int) := (0, 0, 0) :: imageShifts px py pz

theorem mem_pbcRange {p : Bool} {x : Int} : x ∈ pbcRange p ↔ (x = 0 ∨ (p = true ∧ (x = -1 ∨ x = 1))) := by
  cases p <;> simp [pbcRange]; omega

theorem mem_imageShifts {px py pz : Bool} {s : Int × Int × Int} :
    s ∈ imageShifts px py pz ↔ s.1 ∈ pbcRange px ∧ s.2.1 ∈ pbcRange py ∧ s.2.2 ∈ pbcRange pz ∧ s ≠ (0, 0, 0) := by
  obtain ⟨a, b, c⟩ := s
  simp only [imageShifts, mem_filter, mem_flatMap, mem_map, Prod.mk.injEq, Bool.not_eq_true', ne_eq]
  constructor
  · rintro ⟨⟨x, hx, y, hy, z, hz, rfl, rfl, rfl⟩, h⟩
    refine ⟨hx, hy, hz, ?_⟩
    intro ⟨e1, e2, e3⟩
    subst e1 e2 e3
    simp at h
  · rintro ⟨hx, hy, hz, h⟩
    refine ⟨⟨a, hx, b, hy, c, hz, rfl, rfl, rfl⟩, ?_⟩
    simp only [Bool.and_eq_false_imp, Bool.and_eq_true, beq_iff_eq, beq_eq_false_iff_ne, ne_eq, and_imp]
    intro e1 e2 e3
    exact h ⟨e1, e2, e3⟩

theorem mem_allShifts {px py pz : Bool} {s : Int × Int × Int} :
    s ∈ allShifts px py pz ↔ s.1 ∈ pbcRange px ∧ s.2.1 ∈ pbcRange py ∧ s.2.2 ∈ pbcRange pz := by
  unfold allShifts
  rw [mem_cons, mem_imageShifts]
  constructor
  · rintro (rfl | ⟨a, b, c, _⟩)
    · simp [mem_pbcRange]
    · exact ⟨a, b, c⟩
  · rintro ⟨a, b, c⟩
    by_cases h : s = (0, 0, 0)
    · left; exact h
    · right; exact ⟨a, b, c, h⟩

def negShift (s : Int × Int × Int) : Int × Int × Int := (-s.1, -s.2.1, -s.2.2)

theorem neg_mem_pbcRange {p : Bool} {x : Int} (h : x ∈ pbcRange p) : -x ∈ pbcRange p := by
  cases p
  · simp only [pbcRange, Bool.false_eq_true, if_false, mem_singleton] at h ⊢; omega
  · simp only [pbcRange, if_true, mem_cons, not_mem_nil, or_false] at h ⊢; omega

theorem negShift_mem {px py pz : Bool} {s : Int × Int × Int} (h : s ∈ allShifts px py pz) :
    negShift s ∈ allShifts px py pz := by
  rw [mem_allShifts] at h ⊢
  exact ⟨neg_mem_pbcRange h.1, neg_mem_pbcRange h.2.1, neg_mem_pbcRange h.2.2⟩

@[simp] theorem v3sub_x (a b : V3 ℚ) : (a - b).x = a.x - b.x := rfl
@[simp] theorem v3sub_y (a b : V3 ℚ) : (a - b).y = a.y - b.y := rfl
@[simp] theorem v3sub_z (a b : V3 ℚ) : (a - b).z = a.z - b.z := rfl

/-- squared length of the candidate `p1 - p0 + s·vects`. -/
def cand2 (vects : M3 ℚ) (p0 p1 : V3 ℚ) (s : Int × Int × Int) : ℚ := V3.normSq (shiftBy vects (p1 - p0) s)

theorem dmag2_lt_iff (vects : M3 ℚ) (px py pz : Bool) (p0 p1 : V3 ℚ) (t : ℚ) :
    dmag2 vects px py pz p0 p1 < t ↔ ∃ s ∈ allShifts px py pz, cand2 vects p0 p1 s < t := by
  unfold dmag2
  rw [foldl_min_lt_iff (fun s => V3.normSq (shiftBy vects (p1 - p0) s))]
  unfold allShifts
  simp only [mem_cons, exists_eq_or_imp]
  have : cand2 vects p0 p1 (0, 0, 0) = V3.normSq (p1 - p0) := by
    simp [cand2, shiftBy, V3.normSq, V3.dot]
  rw [this]
  rfl

theorem cand2_neg (vects : M3 ℚ) (p0 p1 : V3 ℚ) (s : Int × Int × Int) :
    cand2 vects p1 p0 (negShift s) = cand2 vects p0 p1 s := by
  simp only [cand2, V3.normSq, V3.dot, shiftBy, negShift, v3sub_x, v3sub_y, v3sub_z]
  push_cast
  ring

theorem dmag2_symm (vects : M3 ℚ) (px py pz : Bool) (p0 p1 : V3 ℚ) :
    dmag2 vects px py pz p0 p1 = dmag2 vects px py pz p1 p0 := by
  apply eq_of_forall_gt_iff
  intro t
  rw [dmag2_lt_iff, dmag2_lt_iff]
  constructor
  · rintro ⟨s, hs, h⟩
    exact ⟨negShift s, negShift_mem hs, by rw [cand2_neg]; exact h⟩
  · rintro ⟨s, hs, h⟩
    exact ⟨negShift s, negShift_mem hs, by rw [cand2_neg]; exact h⟩

/-- the distance test does not depend on the order of the two atoms. -/
theorem dist2_comm (S : Sys) (u v : Nat) : dist2 S u v = dist2 S v u := dmag2_symm _ _ _ _ _ _


/-! ## C. storage refinement -/


/-- position at which `insBefore` inserts. -/
def insPos (v : Nat) : List Nat → Nat
  | [] => 0
  | a :: l => if v < a then 0 else insPos v l + 1

theorem insPos_le (v : Nat) (l : List Nat) : insPos v l ≤ l.length := by
  induction l with
  | nil => simp [insPos]
  | cons a l ih => unfold insPos; split <;> simp; omega

theorem insBefore_eq (v : Nat) (l : List Nat) :
    insBefore v l = l.take (insPos v l) ++ v :: l.drop (insPos v l) := by
  induction l with
  | nil => simp [insBefore, insPos]
  | cons a l ih =>
    unfold insBefore insPos
    split
    · simp
    · simp [ih]

theorem drop_take_succ (r : List Nat) (j f : Nat) (h : j < r.length) :
    (r.drop j).take (f + 1) = r.getD j 0 :: (r.drop (j + 1)).take f := by
  rw [List.drop_eq_getElem_cons h, List.take_succ_cons]
  simp [List.getD_eq_getElem?_getD, List.getElem?_eq_getElem h]

theorem scanLoopA_spec (r : List Nat) (v : Nat) (f j : Nat) (h : j + f ≤ r.length) :
    (scanLoopA r v f j).1 = scanL v ((r.drop j).take f) ∧
    (scanL v ((r.drop j).take f) = true → (scanLoopA r v f j).2 = j + insPos v ((r.drop j).take f)) := by
  induction f generalizing j with
  | zero => simp [scanLoopA, scanL, insPos]
  | succ f ih =>
    rw [drop_take_succ r j f (by omega)]
    unfold scanLoopA scanL insPos
    simp only
    split
    · simp
    · split
      · simp
      · obtain ⟨h1, h2⟩ := ih (j + 1) (by omega)
        refine ⟨h1, fun hs => ?_⟩
        rw [h2 hs]; omega

theorem posLoopA_spec (r : List Nat) (u : Nat) (f j : Nat) (h : j + f ≤ r.length) :
    posLoopA r u f j = j + insPos u ((r.drop j).take f) := by
  induction f generalizing j with
  | zero => simp [posLoopA, insPos]
  | succ f ih =>
    rw [drop_take_succ r j f (by omega)]
    unfold posLoopA insPos
    split
    · simp
    · rw [ih (j + 1) (by omega)]; omega

theorem length_shiftLoop (uj j : Nat) (r : List Nat) : (shiftLoop uj j r).length = r.length := by
  induction j generalizing r with
  | zero => simp [shiftLoop]
  | succ j ih =>
    unfold shiftLoop
    split
    · rfl
    · rw [ih]; simp

theorem shiftLoop_getElem? (uj : Nat) (huj : 1 ≤ uj) (j : Nat) (r : List Nat) (hj : j < r.length) (k : Nat) :
    (shiftLoop uj j r)[k]? = if uj ≤ k ∧ k ≤ j then r[k - 1]? else r[k]? := by
  induction j generalizing r with
  | zero =>
    have : ¬ (uj ≤ k ∧ k ≤ 0) := by omega
    rw [if_neg this]; rfl
  | succ j ih =>
    unfold shiftLoop
    split
    · rename_i hlt
      have : ¬ (uj ≤ k ∧ k ≤ j + 1) := by omega
      simp [this]
    · rename_i hge
      rw [ih _ (by simp; omega)]
      simp only [List.getElem?_set]
      have hgj : r.getD j 0 = r[j]'(by omega) := by
        simp [List.getD_eq_getElem?_getD, List.getElem?_eq_getElem (show j < r.length by omega)]
      by_cases hk : uj ≤ k ∧ k ≤ j
      · rw [if_pos hk, if_pos (by omega : uj ≤ k ∧ k ≤ j + 1), if_neg (by omega)]
      · rw [if_neg hk]
        by_cases hk1 : k = j + 1
        · subst hk1
          rw [if_pos rfl, if_pos hj, if_pos (by omega : uj ≤ j + 1 ∧ j + 1 ≤ j + 1), hgj]
          simp
        · rw [if_neg (fun e => hk1 e.symm), if_neg (by omega)]

theorem coordOf_shift_set (r2 : List Nat) (c' uj v : Nat) (hlen : c' < r2.length) (h1 : 1 ≤ uj) :
    coordOf ((shiftLoop uj c' r2).set uj v) = coordOf r2 := by
  unfold coordOf
  simp only [List.getD_eq_getElem?_getD, List.getElem?_set]
  rw [if_neg (by omega), shiftLoop_getElem? uj h1 c' r2 hlen 0, if_neg (by omega)]

theorem absRow_shift_set (r2 : List Nat) (c' uj v : Nat) (h0 : coordOf r2 = c') (hlen : c' < r2.length)
    (h1 : 1 ≤ uj) (h2 : uj ≤ c') :
    absRow ((shiftLoop uj c' r2).set uj v)
      = ((r2.drop 1).take (c' - 1)).take (uj - 1) ++ v :: ((r2.drop 1).take (c' - 1)).drop (uj - 1) := by
  unfold absRow
  rw [coordOf_shift_set r2 c' uj v hlen h1, h0]
  apply List.ext_getElem?
  intro k
  simp only [List.getElem?_take, List.getElem?_drop, List.getElem?_set, length_shiftLoop,
    shiftLoop_getElem? uj h1 c' r2 hlen, List.getElem?_append, List.length_take, List.length_drop,
    List.getElem?_cons]
  grind

/-- well-formed capacity table: `natoms` rows of `maxneighbors + 1` columns, counts within capacity. -/
def WF (n : Nat) (st : ArrState) : Prop :=
  st.rows.length = n ∧ ∀ r ∈ st.rows, r.length = st.maxn + 1 ∧ coordOf r ≤ st.maxn

/-- `r'` extends `r` (length `M + 1`) to `M' + 1` columns keeping columns `0..M`. -/
def Ext (M M' : Nat) (r r' : List Nat) : Prop := r'.length = M' + 1 ∧ ∀ m, m ≤ M → r'[m]? = r[m]?

theorem Ext.absRow_eq {M M' : Nat} {r r' : List Nat} (h : Ext M M' r r') (hc : coordOf r ≤ M) (hM : M ≤ M')
    (hr : r.length = M + 1) : absRow r' = absRow r ∧ coordOf r' = coordOf r := by
  obtain ⟨h1, h2⟩ := h
  have hc' : coordOf r' = coordOf r := by
    unfold coordOf; simp only [List.getD_eq_getElem?_getD]; rw [h2 0 (by omega)]
  refine ⟨?_, hc'⟩
  unfold absRow
  rw [hc']
  apply List.ext_getElem?
  intro k
  simp only [List.getElem?_take, List.getElem?_drop]
  split
  · rw [h2 (1 + k) (by omega)]
  · rfl

theorem cells_ext {M M' : Nat} {r r' : List Nat} (h : Ext M M' r r') (c : Nat) (hc : c ≤ M) :
    (r'.drop 1).take c = (r.drop 1).take c := by
  apply List.ext_getElem?
  intro k
  simp only [List.getElem?_take, List.getElem?_drop]
  split
  · rw [h.2 (1 + k) (by omega)]
  · rfl

/-- the extension step: identity, or `growRows` of one row. -/
theorem ext_refl (M : Nat) (r : List Nat) (hr : r.length = M + 1) : Ext M M r r := ⟨hr, fun _ _ => rfl⟩

theorem ext_grow (M delta : Nat) (r : List Nat) (hr : r.length = M + 1) (f : Nat → Nat) :
    Ext M (M + delta) r (r.take (M + 1) ++ (List.range delta).map f) := by
  refine ⟨by simp [hr]; omega, fun m hm => ?_⟩
  rw [List.getElem?_append_left (by simp [hr]; omega), List.getElem?_take, if_pos (by omega)]

/-- "Extend system size if needed". -/
def growStep (junk : Nat → Nat → Nat) (M delta : Nat) (b : Bool) (rows1 : List (List Nat)) : ArrState :=
  if b = true then ⟨M + delta, growRows junk M delta rows1⟩ else ⟨M, rows1⟩

theorem insertPairA_eq (junk : Nat → Nat → Nat) (delta : Nat) (st : ArrState) (u v : Nat) :
    insertPairA junk delta st u v =
      (let ru := st.rows.getD u []
       let rv := st.rows.getD v []
       let cu := ru.getD 0 0
       let cv := rv.getD 0 0
       let uj := (scanLoopA ru v cu 1).2
       if (scanLoopA ru v cu 1).1 = true then
         let vj := posLoopA rv u cv 1
         let rows1 := (st.rows.modify u (·.set 0 (cu + 1))).modify v (·.set 0 (cv + 1))
         let st1 : ArrState := growStep junk st.maxn delta (decide (st.maxn < cu + 1) || decide (st.maxn < cv + 1)) rows1
         let rows2 := st1.rows.modify u (shiftLoop uj (cu + 1))
         let rows3 := rows2.modify v (shiftLoop vj (cv + 1))
         let rows4 := rows3.modify u (·.set uj v)
         let rows5 := rows4.modify v (·.set vj u)
         ⟨st1.maxn, rows5⟩
       else st) := by
  unfold insertPairA growStep
  rcases h : scanLoopA (st.rows.getD u []) v ((st.rows.getD u []).getD 0 0) 1 with ⟨new, uj⟩
  cases new <;> simp

theorem coordOf_eq_getElem? (r : List Nat) : coordOf r = r[0]?.getD 0 := by
  unfold coordOf; simp [List.getD_eq_getElem?_getD]

/-- the row that receives the new neighbour `x`. -/
theorem row_final {M M' : Nat} {r r2 : List Nat} (x : Nat) (hr : r.length = M + 1) (hc : coordOf r ≤ M)
    (hext : Ext M M' (r.set 0 (coordOf r + 1)) r2) (hM : coordOf r + 1 ≤ M') :
    let uj := 1 + insPos x (absRow r)
    let rf := (shiftLoop uj (coordOf r + 1) r2).set uj x
    rf.length = M' + 1 ∧ coordOf rf = coordOf r + 1 ∧ absRow rf = insBefore x (absRow r) := by
  intro uj rf
  have hpos : insPos x (absRow r) ≤ coordOf r := by
    have := insPos_le x (absRow r)
    have h2 : (absRow r).length ≤ coordOf r := by unfold absRow; simp
    omega
  have hc2 : coordOf r2 = coordOf r + 1 := by
    rw [coordOf_eq_getElem?, hext.2 0 (by omega)]
    simp [List.getElem?_set, hr]
  have hlen2 : coordOf r + 1 < r2.length := by rw [hext.1]; omega
  refine ⟨by simp [rf, length_shiftLoop, hext.1], ?_, ?_⟩
  · simp only [rf]; rw [coordOf_shift_set r2 _ uj x hlen2 (by omega), hc2]
  · simp only [rf]
    rw [absRow_shift_set r2 (coordOf r + 1) uj x hc2 hlen2 (by omega) (by omega)]
    have hcells : (r2.drop 1).take (coordOf r + 1 - 1) = absRow r := by
      rw [Nat.add_sub_cancel, cells_ext hext (coordOf r) hc]
      unfold absRow
      congr 1
      cases r with
      | nil => simp at hr
      | cons a t => simp
    rw [hcells, insBefore_eq]
    simp [uj]

theorem getD_of_lt {α : Type} (l : List α) (k : Nat) (d : α) (h : k < l.length) : l.getD k d = l[k] := by
  simp [List.getD_eq_getElem?_getD, List.getElem?_eq_getElem h]

theorem modify_chain {α : Type} (l : List α) (u v : Nat) (huv : u ≠ v) (f0u f0v f1u f1v f2u f2v : α → α)
    (G : Nat → α → α) (l1 : List α)
    (h1 : ∀ k, l1[k]? = (((l.modify u f0u).modify v f0v)[k]?).map (G k)) (k : Nat) :
    ((((l1.modify u f1u).modify v f1v).modify u f2u).modify v f2v)[k]? =
      (l[k]?).map (fun r => if k = u then f2u (f1u (G k (f0u r)))
        else if k = v then f2v (f1v (G k (f0v r))) else G k r) := by
  simp only [List.getElem?_modify, h1]
  by_cases hku : k = u
  · subst hku
    have : ¬ v = k := fun e => huv e.symm
    cases l[k]? <;> simp [this]
  · by_cases hkv : k = v
    · subst hkv
      have : ¬ u = k := fun e => hku e.symm
      cases l[k]? <;> simp [this, hku]
    · have h1 : ¬ u = k := fun e => hku e.symm
      have h2 : ¬ v = k := fun e => hkv e.symm
      cases l[k]? <;> simp [h1, h2, hku, hkv]

/-- both branches of "extend if needed" as a row-wise extension `G`. -/
theorem grow_cases (junk : Nat → Nat → Nat) (M delta : Nat) (b : Bool) (rows1 : List (List Nat)) :
    ∃ (G : Nat → List Nat → List Nat) (M' : Nat),
      (growStep junk M delta b rows1).maxn = M' ∧
      (∀ k, (growStep junk M delta b rows1).rows[k]? = (rows1[k]?).map (G k)) ∧
      (growStep junk M delta b rows1).rows.length = rows1.length ∧
      (∀ k r, r.length = M + 1 → Ext M M' r (G k r)) ∧ M ≤ M' ∧ (b = true → M + delta = M') := by
  unfold growStep
  cases b
  · refine ⟨fun _ r => r, M, rfl, fun k => by simp, rfl, fun k r hr => ext_refl M r hr, le_refl _, by simp⟩
  · refine ⟨fun k r => r.take (M + 1) ++ (List.range delta).map (fun i => junk k (M + 1 + i)), M + delta, rfl,
      fun k => ?_, by simp [growRows], fun k r hr => ext_grow M delta r hr _, by omega, fun _ => rfl⟩
    simp [growRows, List.getElem?_mapIdx]

theorem insertPairA_refines (junk : Nat → Nat → Nat) (delta : Nat) (hd : 1 ≤ delta) (n : Nat) (st : ArrState)
    (hwf : WF n st) (u v : Nat) (hu : u < n) (hv : v < n) (huv : u ≠ v) :
    WF n (insertPairA junk delta st u v) ∧
      absRows (insertPairA junk delta st u v).rows = insertPairL (absRows st.rows) u v := by
  obtain ⟨hlen, hrows⟩ := hwf
  have hu' : u < st.rows.length := by omega
  have hv' : v < st.rows.length := by omega
  obtain ⟨ru, hqu⟩ : ∃ ru, st.rows[u]? = some ru := ⟨_, List.getElem?_eq_getElem hu'⟩
  obtain ⟨rv, hqv⟩ : ∃ rv, st.rows[v]? = some rv := ⟨_, List.getElem?_eq_getElem hv'⟩
  obtain ⟨hlu, hcu⟩ := hrows _ (List.mem_of_getElem? hqu)
  obtain ⟨hlv, hcv⟩ := hrows _ (List.mem_of_getElem? hqv)
  have hgu : st.rows.getD u [] = ru := by simp [List.getD_eq_getElem?_getD, hqu]
  have hgv : st.rows.getD v [] = rv := by simp [List.getD_eq_getElem?_getD, hqv]
  have hau : (absRows st.rows).getD u [] = absRow ru := by
    simp [absRows, List.getD_eq_getElem?_getD, hqu]
  rw [insertPairA_eq]
  simp only [hgu, hgv]
  have hcu0 : ru.getD 0 0 = coordOf ru := rfl
  have hcv0 : rv.getD 0 0 = coordOf rv := rfl
  rw [hcu0, hcv0]
  obtain ⟨hs1, hs2⟩ := scanLoopA_spec ru v (coordOf ru) 1 (by omega)
  have hp := posLoopA_spec rv u (coordOf rv) 1 (by omega)
  have habs_u : (ru.drop 1).take (coordOf ru) = absRow ru := rfl
  have habs_v : (rv.drop 1).take (coordOf rv) = absRow rv := rfl
  rw [habs_u] at hs1 hs2
  rw [habs_v] at hp
  unfold insertPairL
  rw [hau]
  by_cases hnew : scanL v (absRow ru) = true
  · rw [if_pos (by rw [hs1]; exact hnew), if_pos hnew, hs2 hnew, hp]
    obtain ⟨G, M', hM', hG, hGlen, hGext, hMM', hgrow⟩ := grow_cases junk st.maxn delta
      (decide (st.maxn < coordOf ru + 1) || decide (st.maxn < coordOf rv + 1))
      ((st.rows.modify u fun x => x.set 0 (coordOf ru + 1)).modify v fun x => x.set 0 (coordOf rv + 1))
    have hcap : coordOf ru + 1 ≤ M' ∧ coordOf rv + 1 ≤ M' := by
      by_cases hb : (decide (st.maxn < coordOf ru + 1) || decide (st.maxn < coordOf rv + 1)) = true
      · have := hgrow hb; omega
      · simp only [Bool.or_eq_true, decide_eq_true_eq, not_or, not_lt] at hb; omega
    have hchain := modify_chain st.rows u v huv (fun x => x.set 0 (coordOf ru + 1))
      (fun x => x.set 0 (coordOf rv + 1)) (shiftLoop (1 + insPos v (absRow ru)) (coordOf ru + 1))
      (shiftLoop (1 + insPos u (absRow rv)) (coordOf rv + 1)) (fun x => x.set (1 + insPos v (absRow ru)) v)
      (fun x => x.set (1 + insPos u (absRow rv)) u) G _ hG
    generalize growStep junk st.maxn delta _ _ = st1 at *
    subst hM'
    -- facts about the three kinds of rows
    have hfu := row_final (M := st.maxn) (M' := st1.maxn) (r := ru) v hlu hcu
      (hGext u _ (by simp [hlu])) hcap.1
    have hfv := row_final (M := st.maxn) (M' := st1.maxn) (r := rv) u hlv hcv
      (hGext v _ (by simp [hlv])) hcap.2
    simp only at hfu hfv
    constructor
    · refine ⟨by simp [hlen, hGlen], fun r hr => ?_⟩
      obtain ⟨k, hk⟩ := List.mem_iff_getElem?.1 hr
      rw [hchain k] at hk
      obtain ⟨r0, hr0, rfl⟩ := Option.map_eq_some_iff.1 hk
      by_cases hku : k = u
      · subst hku
        rw [hqu] at hr0; cases hr0
        simp only [if_true]
        exact ⟨hfu.1, by rw [hfu.2.1]; exact hcap.1⟩
      · by_cases hkv : k = v
        · subst hkv
          rw [hqv] at hr0; cases hr0
          simp only [if_neg hku, if_true]
          exact ⟨hfv.1, by rw [hfv.2.1]; exact hcap.2⟩
        · simp only [if_neg hku, if_neg hkv]
          obtain ⟨hl0, hc0⟩ := hrows _ (List.mem_of_getElem? hr0)
          have he := hGext k r0 hl0
          exact ⟨he.1, by rw [(he.absRow_eq hc0 hMM' hl0).2]; omega⟩
    · apply List.ext_getElem?
      intro k
      simp only [absRows, List.getElem?_map, hchain k, List.getElem?_modify]
      by_cases hku : k = u
      · subst hku
        have : ¬ v = k := fun e => huv e.symm
        simp only [hqu, this, if_false, if_true, Option.map_some]
        rw [hfu.2.2]; rfl
      · by_cases hkv : k = v
        · subst hkv
          have : ¬ u = k := fun e => hku e.symm
          simp only [hqv, this, hku, if_false, if_true, Option.map_some]
          rw [hfv.2.2]; rfl
        · have h1 : ¬ u = k := fun e => hku e.symm
          have h2 : ¬ v = k := fun e => hkv e.symm
          simp only [h1, h2, hku, hkv, if_false]
          cases hr0 : st.rows[k]? with
          | none => simp
          | some r0 =>
            obtain ⟨hl0, hc0⟩ := hrows _ (List.mem_of_getElem? hr0)
            simp only [Option.map_some]
            rw [((hGext k r0 hl0).absRow_eq hc0 hMM' hl0).1]; rfl
  · rw [if_neg (by rw [hs1]; exact hnew), if_neg hnew]
    exact ⟨⟨hlen, hrows⟩, rfl⟩


end Atomman.C03
