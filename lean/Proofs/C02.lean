/-
  C02 — periodic separation: property theorems about the shared model `Atomman.dvect` /
  `Atomman.dmag2` (`Atomman/Dvect.lean`: the loops of dvect.pyx / dmag.pyx) and the wrappers in
  `Atomman/C02.lean`.  `K` is any linearly ordered field (ℚ, ℝ, …); integer shifts are
  unbounded (`Int`) wherever the statement says "every image".
-/
import Proofs.C02_Lemmas
import Proofs.C02_Source
import Atomman.C01

namespace Atomman.C02
open Atomman
set_option linter.unusedSectionVars false
set_option linter.unusedSimpArgs false

variable {K : Type} [Field K] [LinearOrder K] [IsStrictOrderedRing K]

/-! ### the result is a lattice image of the direct separation -/

/-- the separation returned is the direct one shifted by `n·vects` with every `nᵢ ∈ {-1,0,1}` and
    `nᵢ = 0` on non-periodic axes. -/
theorem dvect_is_image (vects : M3 K) (px py pz : Bool) (p0 p1 : V3 K) :
    ∃ n : Shift, n.admissible px py pz ∧
      dvect vects px py pz p0 p1 = (p1 - p0) + latticeVec vects n := by
  rcases fold_is_candidate vects (p1 - p0) (imageShifts px py pz) (p1 - p0) with h | ⟨s, hs, h⟩
  · refine ⟨(0, 0, 0), ?_, ?_⟩
    · simp [Shift.admissible, Shift.respects]
    · rw [← shiftBy_eq, shiftBy_zero]; exact h
  · exact ⟨s, ((mem_imageShifts px py pz s).mp hs).1, by rw [← shiftBy_eq]; exact h⟩

/-- … and it is not longer than any of the (at most 27) admissible candidates. -/
theorem dvect_min27 (vects : M3 K) (px py pz : Bool) (p0 p1 : V3 K) (n : Shift)
    (hn : n.admissible px py pz) :
    V3.normSq (dvect vects px py pz p0 p1) ≤ V3.normSq ((p1 - p0) + latticeVec vects n) := by
  rw [← shiftBy_eq]
  obtain ⟨h1, h2⟩ := fold_le vects (p1 - p0) (imageShifts px py pz) (p1 - p0)
  by_cases h0 : n = (0, 0, 0)
  · rw [h0, shiftBy_zero]; exact h1
  · exact h2 n ((mem_imageShifts px py pz n).mpr ⟨hn, h0⟩)

/-- the scalar periodic distance (squared, before the wrapper's `** 0.5`) is the squared length of
    the periodic separation vector. -/
theorem dmag2_eq_normsq_dvect (vects : M3 K) (px py pz : Bool) (p0 p1 : V3 K) :
    dmag2 vects px py pz p0 p1 = V3.normSq (dvect vects px py pz p0 p1) :=
  fold_dmag2 vects (p1 - p0) (imageShifts px py pz) (p1 - p0)

/-- the first shortest candidate wins: every candidate the loops visit *before* the returned one
    is strictly longer (this is what `<` rather than `<=` decides). -/
theorem dvect_first_shortest (vects : M3 K) (px py pz : Bool) (p0 p1 : V3 K) :
    ∃ pre s post, candidates px py pz = pre ++ s :: post ∧
      dvect vects px py pz p0 p1 = shiftBy vects (p1 - p0) s ∧
      ∀ t ∈ pre, V3.normSq (shiftBy vects (p1 - p0) s) < V3.normSq (shiftBy vects (p1 - p0) t) := by
  have h := fold_first vects (p1 - p0) (imageShifts px py pz) (0, 0, 0)
  rw [shiftBy_zero] at h
  exact h

/-- invariance under a common translation of both points. -/
theorem dvect_translate (vects : M3 K) (px py pz : Bool) (p0 p1 t : V3 K) :
    dvect vects px py pz (p0 + t) (p1 + t) = dvect vects px py pz p0 p1 := by
  have e : (p1 + t) - (p0 + t) = p1 - p0 := by
    ext <;> simp only [sub_x, sub_y, sub_z, add_x, add_y, add_z] <;> ring
  simp only [dvect, e]

theorem dmag2_translate (vects : M3 K) (px py pz : Bool) (p0 p1 t : V3 K) :
    dmag2 vects px py pz (p0 + t) (p1 + t) = dmag2 vects px py pz p0 p1 := by
  rw [dmag2_eq_normsq_dvect, dmag2_eq_normsq_dvect, dvect_translate]

/-! ### true nearest image -/

/-- **proven finite search radius**: an image `d + n·vects` that is not longer than `d` itself has
    `nᵢ² ≤ 4 |d|² |recipᵢ|²` on every axis (`d` arbitrary: applied by the oracle with `d` := the
    separation the code returned, so that the box to enumerate is small). -/
theorem search_radius_sound (b : Box K) (hdet : M3.det b.vects ≠ 0) (d : V3 K) (n : Shift)
    (hle : V3.normSq (d + latticeVec b.vects n) ≤ V3.normSq d) :
    ((n.1 : K))^2 ≤ 4 * V3.normSq d * V3.normSq b.recip.r0 ∧
    ((n.2.1 : K))^2 ≤ 4 * V3.normSq d * V3.normSq b.recip.r1 ∧
    ((n.2.2 : K))^2 ≤ 4 * V3.normSq d * V3.normSq b.recip.r2 := by
  rw [← shiftBy_eq] at hle
  obtain ⟨h0, h1, h2⟩ := image_comp b hdet d n
  exact ⟨comp_radius _ _ _ _ h0 hle, comp_radius _ _ _ _ h1 hle, comp_radius _ _ _ _ h2 hle⟩

/-- the radius relative to any reference image `m` (the form the Python oracle uses). -/
theorem search_radius_images (b : Box K) (hdet : M3.det b.vects ≠ 0) (d : V3 K) (m n : Shift)
    (hle : V3.normSq (d + latticeVec b.vects n) ≤ V3.normSq (d + latticeVec b.vects m)) :
    (((n.1 - m.1 : Int) : K))^2 ≤ 4 * V3.normSq (d + latticeVec b.vects m) * V3.normSq b.recip.r0 ∧
    (((n.2.1 - m.2.1 : Int) : K))^2 ≤ 4 * V3.normSq (d + latticeVec b.vects m) * V3.normSq b.recip.r1 ∧
    (((n.2.2 - m.2.2 : Int) : K))^2 ≤ 4 * V3.normSq (d + latticeVec b.vects m) * V3.normSq b.recip.r2 := by
  have e : d + latticeVec b.vects n
      = (d + latticeVec b.vects m) + latticeVec b.vects (n.1 - m.1, n.2.1 - m.2.1, n.2.2 - m.2.2) := by
    rw [← shiftBy_eq, ← shiftBy_eq, ← shiftBy_eq, shiftBy_shiftBy]
    congr 1
    ext <;> simp
  rw [e] at hle
  exact search_radius_sound b hdet _ _ hle

/-- two images shorter than half the smallest perpendicular width (over the periodic axes) are
    the same image: the short image is unique. `w2` is any lower bound of the squared widths
    `1/|recipᵢ|²` of the periodic axes. -/
theorem short_image_unique (b : Box K) (hdet : M3.det b.vects ≠ 0) (px py pz : Bool) (d : V3 K) (w2 : K)
    (hwx : px = true → w2 * V3.normSq b.recip.r0 ≤ 1)
    (hwy : py = true → w2 * V3.normSq b.recip.r1 ≤ 1)
    (hwz : pz = true → w2 * V3.normSq b.recip.r2 ≤ 1)
    (n m : Shift) (hn : n.respects px py pz) (hm : m.respects px py pz)
    (sn : 4 * V3.normSq (d + latticeVec b.vects n) < w2)
    (sm : 4 * V3.normSq (d + latticeVec b.vects m) < w2) : n = m := by
  rw [← shiftBy_eq] at sn sm
  obtain ⟨n0, n1, n2⟩ := image_comp b hdet d n
  obtain ⟨m0, m1, m2⟩ := image_comp b hdet d m
  obtain ⟨hn0, hn1, hn2⟩ := hn
  obtain ⟨hm0, hm1, hm2⟩ := hm
  have ex : n.1 = m.1 := by
    cases hpx : px
    · rw [hn0 hpx, hm0 hpx]
    · have := comp_unique _ _ _ w2 (n.1 - m.1) (by rw [n0, m0]; push_cast; ring) sn sm (hwx hpx)
      omega
  have ey : n.2.1 = m.2.1 := by
    cases hpy : py
    · rw [hn1 hpy, hm1 hpy]
    · have := comp_unique _ _ _ w2 (n.2.1 - m.2.1) (by rw [n1, m1]; push_cast; ring) sn sm (hwy hpy)
      omega
  have ez : n.2.2 = m.2.2 := by
    cases hpz : pz
    · rw [hn2 hpz, hm2 hpz]
    · have := comp_unique _ _ _ w2 (n.2.2 - m.2.2) (by rw [n2, m2]; push_cast; ring) sn sm (hwz hpz)
      omega
  exact Prod.ext ex (Prod.ext ey ez)

/-- a short image of the separation of two points *in the cell* is one of the 27 candidates. -/
theorem short_image_admissible (b : Box K) (hdet : M3.det b.vects ≠ 0) (px py pz : Bool) (p0 p1 : V3 K)
    (h0 : InCell b p0) (h1 : InCell b p1) (w2 : K)
    (hwx : px = true → w2 * V3.normSq b.recip.r0 ≤ 1)
    (hwy : py = true → w2 * V3.normSq b.recip.r1 ≤ 1)
    (hwz : pz = true → w2 * V3.normSq b.recip.r2 ≤ 1)
    (n : Shift) (hn : n.respects px py pz)
    (sn : 4 * V3.normSq ((p1 - p0) + latticeVec b.vects n) < w2) : n.admissible px py pz := by
  rw [← shiftBy_eq] at sn
  obtain ⟨n0, n1, n2⟩ := image_comp b hdet (p1 - p0) n
  obtain ⟨d0, d1, d2⟩ := incell_delta b p0 p1 h0 h1
  refine ⟨?_, ?_, ?_, hn⟩
  · cases hpx : px
    · right; left; exact hn.1 hpx
    · exact comp_small _ _ w2 _ _ n0 d0 sn (hwx hpx)
  · cases hpy : py
    · right; left; exact hn.2.1 hpy
    · exact comp_small _ _ w2 _ _ n1 d1 sn (hwy hpy)
  · cases hpz : pz
    · right; left; exact hn.2.2 hpz
    · exact comp_small _ _ w2 _ _ n2 d2 sn (hwz hpz)

/-- **tilted cells**: `det ≠ 0`, both points in the cell.  If *some* image `d + n·vects`
    (`n : ℤ³` unbounded, vanishing on non-periodic axes) is shorter than half the smallest
    perpendicular width `w` of the periodic axes (`4|·|² < w²`, `w² ≤ 1/|recipᵢ|²`), then that
    image is one of the 27 candidates, it *is* what `dvect` returns, and it is the true nearest
    image: no image for any `m : ℤ³` is shorter. -/
theorem tilted_true_nearest (b : Box K) (hdet : M3.det b.vects ≠ 0) (px py pz : Bool) (p0 p1 : V3 K)
    (h0 : InCell b p0) (h1 : InCell b p1) (w2 : K)
    (hwx : px = true → w2 * V3.normSq b.recip.r0 ≤ 1)
    (hwy : py = true → w2 * V3.normSq b.recip.r1 ≤ 1)
    (hwz : pz = true → w2 * V3.normSq b.recip.r2 ≤ 1)
    (n : Shift) (hn : n.respects px py pz)
    (sn : 4 * V3.normSq ((p1 - p0) + latticeVec b.vects n) < w2) :
    n.admissible px py pz ∧
    dvect b.vects px py pz p0 p1 = (p1 - p0) + latticeVec b.vects n ∧
    ∀ m : Shift, m.respects px py pz →
      V3.normSq (dvect b.vects px py pz p0 p1) ≤ V3.normSq ((p1 - p0) + latticeVec b.vects m) := by
  have hadm := short_image_admissible b hdet px py pz p0 p1 h0 h1 w2 hwx hwy hwz n hn sn
  obtain ⟨k, hk, hkeq⟩ := dvect_is_image b.vects px py pz p0 p1
  have hmin := dvect_min27 b.vects px py pz p0 p1 n hadm
  have hkn : k = n := by
    apply short_image_unique b hdet px py pz (p1 - p0) w2 hwx hwy hwz k n hk.2.2.2 hn _ sn
    rw [← hkeq]; linarith
  have heq : dvect b.vects px py pz p0 p1 = (p1 - p0) + latticeVec b.vects n := by rw [hkeq, hkn]
  refine ⟨hadm, heq, ?_⟩
  intro m hm
  by_contra hlt
  have hlt' := not_le.mp hlt
  rw [heq] at hlt'
  have : m = n := short_image_unique b hdet px py pz (p1 - p0) w2 hwx hwy hwz m n hm hn (by linarith) sn
  rw [this] at hlt'
  exact lt_irrefl _ hlt'

/-- the unshifted candidate. -/
theorem latticeVec_zero (V : M3 K) (d : V3 K) : d + latticeVec V (0, 0, 0) = d := by
  ext <;> simp [latticeVec, M3.vecMul]

/-- **when the straight difference is already the answer**: `det ≠ 0`; if the direct separation itself is shorter
    than half the smallest perpendicular width `w` of the periodic axes (`4|p1−p0|² < w²`, `w² ≤ 1/|recipᵢ|²`), then
    `dvect` returns it unchanged (no hypothesis on where the points are).  The bound is the perpendicular WIDTH, not
    the length of the cell edges: in a sheared cell a lattice combination such as `a+b` can be shorter than every
    edge, see the example at the end of this file. -/
theorem dvect_direct_of_short (b : Box K) (hdet : M3.det b.vects ≠ 0) (px py pz : Bool) (p0 p1 : V3 K) (w2 : K)
    (hwx : px = true → w2 * V3.normSq b.recip.r0 ≤ 1)
    (hwy : py = true → w2 * V3.normSq b.recip.r1 ≤ 1)
    (hwz : pz = true → w2 * V3.normSq b.recip.r2 ≤ 1)
    (hs : 4 * V3.normSq (p1 - p0) < w2) :
    dvect b.vects px py pz p0 p1 = p1 - p0 := by
  obtain ⟨k, hk, hkeq⟩ := dvect_is_image b.vects px py pz p0 p1
  have hz : Shift.admissible (0, 0, 0) px py pz :=
    ⟨Or.inr (Or.inl rfl), Or.inr (Or.inl rfl), Or.inr (Or.inl rfl), fun _ => rfl, fun _ => rfl, fun _ => rfl⟩
  have hmin := dvect_min27 b.vects px py pz p0 p1 (0, 0, 0) hz
  rw [latticeVec_zero] at hmin
  have hk0 : k = (0, 0, 0) := by
    apply short_image_unique b hdet px py pz (p1 - p0) w2 hwx hwy hwz k (0, 0, 0) hk.2.2.2 hz.2.2.2
    · rw [← hkeq]; linarith
    · rw [latticeVec_zero]; exact hs
  rw [hkeq, hk0, latticeVec_zero]

/-- `displacement` of an atom that moved less than half the smallest perpendicular width of the reference cell is the
    plain difference of its two positions — and only the width gives that guarantee. -/
theorem dispWith_direct_of_short (b : Box K) (hdet : M3.det b.vects ≠ 0) (px py pz : Bool) (p0 p1 : V3 K) (w2 : K)
    (hwx : px = true → w2 * V3.normSq b.recip.r0 ≤ 1)
    (hwy : py = true → w2 * V3.normSq b.recip.r1 ≤ 1)
    (hwz : pz = true → w2 * V3.normSq b.recip.r2 ≤ 1)
    (hs : 4 * V3.normSq (p1 - p0) < w2) :
    dispWith (some (b.vects, px, py, pz)) p0 p1 = dispWith none p0 p1 := by
  show dvect b.vects px py pz p0 p1 = p1 - p0
  exact dvect_direct_of_short b hdet px py pz p0 p1 w2 hwx hwy hwz hs

/-- the squared periodic distance is never negative (so its square root, the distance, always exists). -/
theorem dmag2_nonneg (vects : M3 K) (px py pz : Bool) (p0 p1 : V3 K) : 0 ≤ dmag2 vects px py pz p0 p1 := by
  rw [dmag2_eq_normsq_dvect]; exact normSq_nonneg _

theorem normSq_eq_zero (a : V3 K) (h : V3.normSq a = 0) : a = ⟨0, 0, 0⟩ := by
  have hx : a.x = 0 := by
    simp only [V3.normSq, V3.dot] at h
    nlinarith [mul_self_nonneg a.x, mul_self_nonneg a.y, mul_self_nonneg a.z]
  have hy : a.y = 0 := by
    simp only [V3.normSq, V3.dot] at h
    nlinarith [mul_self_nonneg a.x, mul_self_nonneg a.y, mul_self_nonneg a.z]
  have hz : a.z = 0 := by
    simp only [V3.normSq, V3.dot] at h
    nlinarith [mul_self_nonneg a.x, mul_self_nonneg a.y, mul_self_nonneg a.z]
  ext <;> assumption

/-- **periodic copies**: if `p1` is `p0` seen through the boundary — `p1 = p0 + n·vects` for one of the candidate
    shifts `n` (components in `{-1,0,1}`, zero on non-periodic axes) — then the periodic separation is the zero vector
    and the periodic distance is exactly `0`, whatever the cell (any tilt, any handedness, `det` may even vanish). -/
theorem dvect_periodic_copy (vects : M3 K) (px py pz : Bool) (p0 : V3 K) (n : Shift) (hn : n.admissible px py pz) :
    dvect vects px py pz p0 (p0 + latticeVec vects n) = ⟨0, 0, 0⟩ ∧
    dmag2 vects px py pz p0 (p0 + latticeVec vects n) = 0 := by
  have hneg : Shift.admissible (-n.1, -n.2.1, -n.2.2) px py pz := by
    obtain ⟨h1, h2, h3, r1, r2, r3⟩ := hn
    refine ⟨by show -n.1 = -1 ∨ -n.1 = 0 ∨ -n.1 = 1; omega, by show -n.2.1 = -1 ∨ -n.2.1 = 0 ∨ -n.2.1 = 1; omega,
      by show -n.2.2 = -1 ∨ -n.2.2 = 0 ∨ -n.2.2 = 1; omega, fun h => ?_, fun h => ?_, fun h => ?_⟩
    · show -n.1 = 0; rw [r1 h]; rfl
    · show -n.2.1 = 0; rw [r2 h]; rfl
    · show -n.2.2 = 0; rw [r3 h]; rfl
  have hmin := dvect_min27 vects px py pz p0 (p0 + latticeVec vects n) _ hneg
  have hz : V3.normSq ((p0 + latticeVec vects n - p0) + latticeVec vects (-n.1, -n.2.1, -n.2.2)) = 0 := by
    simp only [V3.normSq, V3.dot, latticeVec, M3.vecMul, add_x, add_y, add_z, sub_x, sub_y, sub_z]
    push_cast
    ring
  rw [hz] at hmin
  have h0 : V3.normSq (dvect vects px py pz p0 (p0 + latticeVec vects n)) = 0 :=
    le_antisymm hmin (normSq_nonneg _)
  exact ⟨normSq_eq_zero _ h0, by rw [dmag2_eq_normsq_dvect]; exact h0⟩

/-- **orthogonal cells, any orientation**: the three cell vectors are mutually orthogonal
    (`det ≠ 0`; not necessarily axis-aligned, right-handed or LAMMPS-normal), both points in the
    closed cell.  The returned separation is not longer than the image for **any** `n : ℤ³`
    (unbounded) vanishing on the non-periodic axes. -/
theorem ortho_true_nearest (b : Box K) (hdet : M3.det b.vects ≠ 0)
    (h01 : V3.dot b.vects.r0 b.vects.r1 = 0) (h02 : V3.dot b.vects.r0 b.vects.r2 = 0)
    (h12 : V3.dot b.vects.r1 b.vects.r2 = 0) (px py pz : Bool) (p0 p1 : V3 K)
    (h0 : InCell b p0) (h1 : InCell b p1) (n : Shift) (hn : n.respects px py pz) :
    V3.normSq (dvect b.vects px py pz p0 p1) ≤ V3.normSq ((p1 - p0) + latticeVec b.vects n) := by
  obtain ⟨⟨x1, x2⟩, ⟨y1, y2⟩, ⟨z1, z2⟩⟩ := incell_delta b p0 p1 h0 h1
  obtain ⟨mx, hmx, hmx0, hx⟩ := one_dim 1 _ one_pos x1 x2 n.1
  obtain ⟨my, hmy, hmy0, hy⟩ := one_dim 1 _ one_pos y1 y2 n.2.1
  obtain ⟨mz, hmz, hmz0, hz⟩ := one_dim 1 _ one_pos z1 z2 n.2.2
  have hadm : Shift.admissible (mx, my, mz) px py pz :=
    ⟨hmx, hmy, hmz, fun h => hmx0 (hn.1 h), fun h => hmy0 (hn.2.1 h), fun h => hmz0 (hn.2.2 h)⟩
  have hmin := dvect_min27 b.vects px py pz p0 p1 (mx, my, mz) hadm
  rw [← shiftBy_eq, image_decompose b hdet, normSq_ortho_comb _ h01 h02 h12] at hmin ⊢
  simp only [mul_one] at hx hy hz
  have n0 := normSq_nonneg b.vects.r0
  have n1 := normSq_nonneg b.vects.r1
  have n2 := normSq_nonneg b.vects.r2
  have := mul_le_mul_of_nonneg_right hx n0
  have := mul_le_mul_of_nonneg_right hy n1
  have := mul_le_mul_of_nonneg_right hz n2
  simp only at hmin ⊢
  linarith

/-- **orthogonal cells, axis-aligned form** (LAMMPS-normal orthorhombic box): diagonal positive cell, both points in the closed cell (`0 ≤ s ≤ 1`).
    The returned separation is not longer than the image for **any** `n : ℤ³` (unbounded) that
    vanishes on the non-periodic axes: it is a true nearest image. -/
theorem ortho_diag_true_nearest (b : Box K) (a bb c : K) (ha : 0 < a) (hb : 0 < bb) (hc : 0 < c)
    (hv : b.vects = ⟨⟨a, 0, 0⟩, ⟨0, bb, 0⟩, ⟨0, 0, c⟩⟩) (px py pz : Bool) (p0 p1 : V3 K)
    (h0 : InCell b p0) (h1 : InCell b p1) (n : Shift) (hn : n.respects px py pz) :
    V3.normSq (dvect b.vects px py pz p0 p1) ≤ V3.normSq ((p1 - p0) + latticeVec b.vects n) := by
  obtain ⟨⟨x1, x2⟩, ⟨y1, y2⟩, ⟨z1, z2⟩⟩ := ortho_delta b a bb c ha hb hc hv p0 p1 h0 h1
  obtain ⟨mx, hmx, hmx0, hx⟩ := one_dim a (p1 - p0).x ha x1 x2 n.1
  obtain ⟨my, hmy, hmy0, hy⟩ := one_dim bb (p1 - p0).y hb y1 y2 n.2.1
  obtain ⟨mz, hmz, hmz0, hz⟩ := one_dim c (p1 - p0).z hc z1 z2 n.2.2
  have hadm : Shift.admissible (mx, my, mz) px py pz :=
    ⟨hmx, hmy, hmz, fun h => hmx0 (hn.1 h), fun h => hmy0 (hn.2.1 h), fun h => hmz0 (hn.2.2 h)⟩
  have hmin := dvect_min27 b.vects px py pz p0 p1 (mx, my, mz) hadm
  have norm_img : ∀ s : Shift, V3.normSq ((p1 - p0) + latticeVec b.vects s)
      = ((p1 - p0).x + (s.1 : K) * a)^2 + ((p1 - p0).y + (s.2.1 : K) * bb)^2
        + ((p1 - p0).z + (s.2.2 : K) * c)^2 := by
    intro s
    rw [← shiftBy_eq, hv]
    simp only [V3.normSq, V3.dot, shiftBy]
    ring
  rw [norm_img] at hmin ⊢
  simp only at hmin
  linarith

/-! ### wrappers: broadcasting, squeeze-free array forms, displacement atom by atom -/

/-- one-to-many: a single reference point against `m` points. -/
theorem dvectArr_one_to_many (vects : M3 K) (px py pz : Bool) (a : V3 K) (bs : List (V3 K)) :
    dvectArr vects px py pz [a] bs = some (bs.map fun q => dvect vects px py pz a q) := by
  simp [dvectArr, broadcast, List.map_map, Function.comp_def]

/-- many-to-one. -/
theorem dvectArr_many_to_one (vects : M3 K) (px py pz : Bool) (as : List (V3 K)) (b : V3 K)
    (h : as.length ≠ 1) :
    dvectArr vects px py pz as [b] = some (as.map fun p => dvect vects px py pz p b) := by
  match as, h with
  | [], _ => simp [dvectArr, broadcast]
  | _ :: _ :: _, _ => simp [dvectArr, broadcast, List.map_map, Function.comp_def]

/-- many-to-many: equal lengths pair up index by index. -/
theorem dvectArr_many_to_many (vects : M3 K) (px py pz : Bool) (as bs : List (V3 K))
    (h : as.length = bs.length) :
    dvectArr vects px py pz as bs = some (List.zipWith (dvect vects px py pz) as bs) := by
  rcases as with _ | ⟨a, _ | ⟨a', as⟩⟩ <;> rcases bs with _ | ⟨b, _ | ⟨b', bs⟩⟩ <;>
    simp_all [dvectArr, broadcast, List.zipWith_map_left, List.zip_eq_zipWith, List.map_zipWith]

/-- rejected (ValueError) exactly when the lengths differ and neither is 1. -/
theorem dvectArr_none_iff (vects : M3 K) (px py pz : Bool) (as bs : List (V3 K)) :
    dvectArr vects px py pz as bs = none ↔ as.length ≠ bs.length ∧ as.length ≠ 1 ∧ bs.length ≠ 1 := by
  rcases as with _ | ⟨a, _ | ⟨a', as⟩⟩ <;> rcases bs with _ | ⟨b, _ | ⟨b', bs⟩⟩ <;>
    simp [dvectArr, broadcast]

/-- the scalar wrapper agrees with the vector wrapper entry by entry. -/
theorem dmag2Arr_eq (vects : M3 K) (px py pz : Bool) (as bs : List (V3 K)) :
    dmag2Arr vects px py pz as bs = (dvectArr vects px py pz as bs).map (List.map V3.normSq) := by
  simp only [dmag2Arr, dvectArr, Option.map_map]
  congr 1
  funext l
  simp only [Function.comp, List.map_map]
  congr 1
  funext pq
  exact dmag2_eq_normsq_dvect _ _ _ _ _ _

/-- `displacement` is the periodic separation atom by atom under the chosen reference cell. -/
theorem displacement_atomwise (s0 s1 : Sys K) (ref : String) (l : List (V3 K))
    (h : displacement s0 s1 ref = .ok l) :
    s0.pos.length = s1.pos.length ∧ l.length = s0.pos.length ∧
    ∃ rb, refBox s0 s1 ref = some rb ∧
      ∀ (i : Nat) (h0 : i < s0.pos.length) (h1 : i < s1.pos.length) (hl : i < l.length),
        l[i] = dispWith rb s0.pos[i] s1.pos[i] := by
  unfold displacement at h
  split at h
  · cases h
  · rename_i hlen
    have hlen' : s0.pos.length = s1.pos.length := by
      by_contra hc; exact hlen hc
    split at h
    · rename_i rb hrb
      injection h with h
      subst h
      refine ⟨hlen', by simp [hlen'], rb, hrb, ?_⟩
      intro i h0 h1 hl
      simp
    · cases h

theorem refBox_final (s0 s1 : Sys K) : refBox s0 s1 "final" = some (some (s1.vects, s1.px, s1.py, s1.pz)) := by
  simp [refBox]
theorem refBox_initial (s0 s1 : Sys K) : refBox s0 s1 "initial" = some (some (s0.vects, s0.px, s0.py, s0.pz)) := by
  simp [refBox]
theorem refBox_none (s0 s1 : Sys K) : refBox s0 s1 "None" = some none := by
  simp [refBox]

theorem dispWith_some (v : M3 K) (px py pz : Bool) (a b : V3 K) :
    dispWith (some (v, px, py, pz)) a b = dvect v px py pz a b := rfl
theorem dispWith_none (a b : V3 K) : dispWith (K := K) none a b = b - a := rfl


/-! ### rows of the wrappers and of `System.dvect/dmag`: every row is a clause-satisfying separation of a
    pair of selected points -/

theorem broadcast_mem {α : Type} (a b : List α) (l : List (α × α)) (h : broadcast a b = some l) :
    ∀ pq ∈ l, pq.1 ∈ a ∧ pq.2 ∈ b := by
  unfold broadcast at h
  split at h
  · injection h with h; subst h
    intro pq hpq
    simp only [List.mem_map] at hpq
    obtain ⟨y, hy, rfl⟩ := hpq
    exact ⟨by simp, hy⟩
  · injection h with h; subst h
    intro pq hpq
    simp only [List.mem_map] at hpq
    obtain ⟨x, hx, rfl⟩ := hpq
    exact ⟨hx, by simp⟩
  · split at h
    · injection h with h; subst h
      intro pq hpq
      exact ⟨(List.of_mem_zip hpq).1, (List.of_mem_zip hpq).2⟩
    · cases h

/-- whatever the broadcast shape (one-to-many, many-to-one, many-to-many): every row the wrapper returns is
    `dvect` of a point of `pos_0` and a point of `pos_1`, hence an admissible image of their direct separation
    and not longer than any of the 27 candidates. -/
theorem dvectArr_rows (vects : M3 K) (px py pz : Bool) (as bs rows : List (V3 K))
    (h : dvectArr vects px py pz as bs = some rows) :
    ∀ r ∈ rows, ∃ p0 ∈ as, ∃ p1 ∈ bs, r = dvect vects px py pz p0 p1 ∧
      (∃ n : Shift, n.admissible px py pz ∧ r = (p1 - p0) + latticeVec vects n) ∧
      ∀ m : Shift, m.admissible px py pz → V3.normSq r ≤ V3.normSq ((p1 - p0) + latticeVec vects m) := by
  unfold dvectArr at h
  cases hb : broadcast as bs with
  | none => rw [hb] at h; cases h
  | some l =>
    rw [hb] at h
    simp only [Option.map_some, Option.some.injEq] at h
    subst h
    intro r hr
    simp only [List.mem_map] at hr
    obtain ⟨pq, hpq, rfl⟩ := hr
    obtain ⟨h0, h1⟩ := broadcast_mem as bs l hb pq hpq
    exact ⟨pq.1, h0, pq.2, h1, rfl, dvect_is_image vects px py pz pq.1 pq.2,
      fun m hm => dvect_min27 vects px py pz pq.1 pq.2 m hm⟩

theorem selectBoth_ok (atoms : List (V3 K)) (s0 s1 : Sel K) (a b : List (V3 K))
    (h : selectBoth atoms s0 s1 = .ok (a, b)) : select atoms s0 = .ok a ∧ select atoms s1 = .ok b := by
  unfold selectBoth at h
  split at h
  · rename_i x y hx hy
    injection h with h
    simp only [Prod.mk.injEq] at h
    rw [hx, hy, h.1, h.2]
    exact ⟨rfl, rfl⟩
  · cases h
  · cases h
  · split at h
    · cases h
    · split at h <;> cases h

/-- `System.dvect`: an accepted call returns the wrapper's rows for the two selections, squeezed exactly when
    there is one row. -/
theorem sysDvect_rows (atoms : List (V3 K)) (vects : M3 K) (px py pz : Bool) (s0 s1 : Sel K) (sq : Bool)
    (rows : List (V3 K)) (h : sysDvect atoms vects px py pz s0 s1 = .ok (sq, rows)) :
    ∃ a b, select atoms s0 = .ok a ∧ select atoms s1 = .ok b ∧ dvectArr vects px py pz a b = some rows ∧
      sq = (rows.length == 1) := by
  unfold sysDvect at h
  cases hs : selectBoth atoms s0 s1 with
  | error e => rw [hs] at h; cases h
  | ok ab =>
    obtain ⟨a, b⟩ := ab
    rw [hs] at h
    simp only [bind, Except.bind] at h
    cases hd : dvectArr vects px py pz a b with
    | none => rw [hd] at h; cases h
    | some r =>
      rw [hd] at h
      simp only [pure, Except.pure, squeeze, Except.ok.injEq, Prod.mk.injEq] at h
      obtain ⟨h1, h2⟩ := h
      subst h2
      obtain ⟨ha, hb⟩ := selectBoth_ok atoms s0 s1 a b hs
      exact ⟨a, b, ha, hb, hd, h1.symm⟩

/-- `System.dmag` is `System.dvect` followed by the length, row by row, same squeeze, same refusals. -/
theorem sysDmag2_eq (atoms : List (V3 K)) (vects : M3 K) (px py pz : Bool) (s0 s1 : Sel K) :
    sysDmag2 atoms vects px py pz s0 s1 =
      (sysDvect atoms vects px py pz s0 s1).map fun r => (r.1, r.2.map V3.normSq) := by
  unfold sysDmag2 sysDvect
  cases hs : selectBoth atoms s0 s1 with
  | error e => rfl
  | ok ab =>
    obtain ⟨a, b⟩ := ab
    simp only [bind, Except.bind]
    rw [dmag2Arr_eq]
    cases hd : dvectArr vects px py pz a b with
    | none => rfl
    | some r => simp [pure, Except.pure, Except.map, squeeze]

/-- the documented refusals of `displacement`: different numbers of atoms (for EVERY `box_reference`, a
    one-atom system included — no broadcasting), and any `box_reference` other than the three keywords. -/
theorem displacement_refuses (s0 s1 : Sys K) (ref : String) :
    (s0.pos.length ≠ s1.pos.length → displacement s0 s1 ref = .error "value") ∧
    (ref ≠ "final" → ref ≠ "initial" → ref ≠ "None" → displacement s0 s1 ref = .error "value") := by
  constructor
  · intro h; simp [displacement, h]
  · intro h1 h2 h3
    unfold displacement
    split
    · rfl
    · simp [refBox, h1, h2, h3]



/-! ### API level: the public entry points with their argument handling (round 5)

  `dvectApi` / `dmag2Api` are the hand model of `atomman.dvect` / `atomman.dmag` as a caller sees them (array-likes of any
  rank, flags of any integer form); `Generated.DvectSource.dvectWrap` / `dmagWrap` / `displacement` / `sysDvect` are what
  the source says NOW (regenerated on every check) and are proved equal to the model in `Proofs/C02_Source.lean`.  The
  end-to-end theorems below are stated about the generated definitions. -/

theorem broadcast_isSome_iff {α : Type} (l0 l1 : List α) :
    (∃ r, broadcast l0 l1 = some r) ↔ (l0.length = 1 ∨ l1.length = 1 ∨ l0.length = l1.length) := by
  rcases l0 with _ | ⟨x, _ | ⟨x', t⟩⟩ <;> rcases l1 with _ | ⟨y, _ | ⟨y', t'⟩⟩ <;> simp [broadcast]

theorem broadcast_length {α : Type} (l0 l1 : List α) (l : List (α × α)) (h : broadcast l0 l1 = some l) :
    l.length = if l0.length = 1 then l1.length else l0.length := by
  rcases l0 with _ | ⟨x, _ | ⟨x', t⟩⟩ <;> rcases l1 with _ | ⟨y, _ | ⟨y', t'⟩⟩ <;> simp [broadcast] at h <;>
    (try obtain ⟨hl, h⟩ := h) <;> (try subst h) <;> simp <;> (try omega)

theorem apiFlags_isSome_iff (pbc : List Int) : (∃ f, apiFlags pbc = some f) ↔ 3 ≤ pbc.length := by
  rcases pbc with _ | ⟨a, _ | ⟨b, _ | ⟨c, t⟩⟩⟩ <;> simp [apiFlags]

/-- on accepted arguments the API model is the array-level model of the rows, under the truth values of the first three
    flags (further entries are never read). -/
theorem dvectApi_eq_arr (v : M3 K) (a b c : Int) (rest : List Int) (a0 a1 : PosArg K) (l0 l1 : List (V3 K))
    (h0 : a0.rowsOf = some l0) (h1 : a1.rowsOf = some l1) :
    dvectApi v (a :: b :: c :: rest) a0 a1 =
      match dvectArr v (a != 0) (b != 0) (c != 0) l0 l1 with
      | some r => .ok r
      | none => .error "value" := by
  cases a0 with
  | scalar => simp [PosArg.rowsOf] at h0
  | rank3 n => simp [PosArg.rowsOf] at h0
  | flat p =>
    simp only [PosArg.rowsOf, Option.some.injEq] at h0
    subst h0
    cases a1 with
    | scalar => simp [PosArg.rowsOf] at h1
    | rank3 n => simp [PosArg.rowsOf] at h1
    | flat q =>
      simp only [PosArg.rowsOf, Option.some.injEq] at h1
      subst h1
      simp [dvectApi, apiPairs, apiFlags, dvectArr, broadcast]
    | rows l =>
      simp only [PosArg.rowsOf, Option.some.injEq] at h1
      subst h1
      simp [dvectApi, apiPairs, apiFlags, dvectArr, broadcast]
  | rows l =>
    simp only [PosArg.rowsOf, Option.some.injEq] at h0
    subst h0
    cases a1 with
    | scalar => simp [PosArg.rowsOf] at h1
    | rank3 n => simp [PosArg.rowsOf] at h1
    | flat q =>
      simp only [PosArg.rowsOf, Option.some.injEq] at h1
      subst h1
      cases h : broadcast l [q] <;> simp [dvectApi, apiPairs, apiFlags, dvectArr, h]
    | rows l' =>
      simp only [PosArg.rowsOf, Option.some.injEq] at h1
      subst h1
      cases h : broadcast l l' <;> simp [dvectApi, apiPairs, apiFlags, dvectArr, h]

/-- ACCEPTANCE, exactly: `atomman.dvect` returns a value iff both arguments are a point or an `(n,3)` array (no 0-d value,
    no rank-3 array), the lengths are compatible (one of them 1, or equal) and `pbc` has at least three entries. -/
theorem dvectApi_ok_iff (v : M3 K) (pbc : List Int) (a0 a1 : PosArg K) :
    (∃ r, dvectApi v pbc a0 a1 = .ok r) ↔
      ∃ l0 l1, a0.rowsOf = some l0 ∧ a1.rowsOf = some l1 ∧
        (l0.length = 1 ∨ l1.length = 1 ∨ l0.length = l1.length) ∧ 3 ≤ pbc.length := by
  rcases pbc with _ | ⟨a, _ | ⟨b, _ | ⟨c, t⟩⟩⟩
  · cases a0 <;> cases a1 <;> simp [dvectApi, apiPairs, apiFlags] <;> (intros; split <;> simp)
  · cases a0 <;> cases a1 <;> simp [dvectApi, apiPairs, apiFlags] <;> (intros; split <;> simp)
  · cases a0 <;> cases a1 <;> simp [dvectApi, apiPairs, apiFlags] <;> (intros; split <;> simp)
  · cases h0 : a0.rowsOf with
    | none => cases a0 <;> cases a1 <;> simp_all [PosArg.rowsOf, dvectApi, apiPairs]
    | some l0 =>
      cases h1 : a1.rowsOf with
      | none => cases a0 <;> cases a1 <;> simp_all [PosArg.rowsOf, dvectApi, apiPairs]
      | some l1 =>
        rw [dvectApi_eq_arr v a b c t a0 a1 l0 l1 h0 h1]
        have hb := broadcast_isSome_iff l0 l1
        cases hbr : broadcast l0 l1 with
        | none =>
          have : ¬ (l0.length = 1 ∨ l1.length = 1 ∨ l0.length = l1.length) := by
            intro hc; obtain ⟨r, hr⟩ := hb.mpr hc; rw [hbr] at hr; cases hr
          simp [dvectArr, hbr, this]
        | some r =>
          have : l0.length = 1 ∨ l1.length = 1 ∨ l0.length = l1.length := hb.mp ⟨r, hbr⟩
          simp [dvectArr, hbr, this]

/-- REFUSAL CLASS: a TypeError is raised exactly for a 0-d argument (it wins over every ValueError: the rank checks come
    first in the wrapper). -/
theorem dvectApi_type_iff (v : M3 K) (pbc : List Int) (a0 a1 : PosArg K) :
    dvectApi v pbc a0 a1 = .error "type" ↔ (a0 = .scalar ∨ a1 = .scalar) := by
  cases a0 with
  | scalar => cases a1 <;> simp [dvectApi, apiPairs]
  | rank3 n => cases a1 <;> simp [dvectApi, apiPairs]
  | flat p =>
    cases a1 with
    | scalar => simp [dvectApi, apiPairs]
    | rank3 n => simp [dvectApi, apiPairs]
    | flat q => cases hf : apiFlags pbc <;> simp [dvectApi, apiPairs, hf]
    | rows l => cases hf : apiFlags pbc <;> simp [dvectApi, apiPairs, hf]
  | rows l =>
    cases a1 with
    | scalar => simp [dvectApi, apiPairs]
    | rank3 n => simp [dvectApi, apiPairs]
    | flat q => cases hb : broadcast l [q] <;> cases hf : apiFlags pbc <;> simp [dvectApi, apiPairs, hf, hb]
    | rows l' => cases hb : broadcast l l' <;> cases hf : apiFlags pbc <;> simp [dvectApi, apiPairs, hf, hb]

/-- independence of representation: a point handed over as a flat `(3,)` value and as a one-row `(1,3)` array are the same
    argument, on either side, for `dvect` and `dmag`. -/
theorem dvectApi_flat_eq_rows (v : M3 K) (pbc : List Int) (p : V3 K) (a : PosArg K) :
    dvectApi v pbc (.flat p) a = dvectApi v pbc (.rows [p]) a ∧ dvectApi v pbc a (.flat p) = dvectApi v pbc a (.rows [p]) ∧
    dmag2Api v pbc (.flat p) a = dmag2Api v pbc (.rows [p]) a ∧ dmag2Api v pbc a (.flat p) = dmag2Api v pbc a (.rows [p]) := by
  have h1 : apiPairs (.flat p) a = apiPairs (.rows [p]) a := by
    cases a <;> simp [apiPairs, broadcast]
  have h2 : apiPairs a (.flat p) = apiPairs a (.rows [p]) := by
    cases a with
    | scalar => rfl
    | rank3 n => rfl
    | flat q => simp [apiPairs, broadcast]
    | rows l => rfl
  simp [dvectApi, dmag2Api, h1, h2]

/-- REFUSAL CLASSES, complete: a refused call raises a TypeError or a ValueError — or `pbc` has fewer than three entries
    (an unchecked read in the real code, outside the model); with at least three flags a ValueError is raised exactly when no
    argument is 0-d and the call is not accepted. -/
theorem dvectApi_error_class (v : M3 K) (pbc : List Int) (a0 a1 : PosArg K) (e : String)
    (h : dvectApi v pbc a0 a1 = .error e) :
    e = "type" ∨ e = "value" ∨ (e = "undefined" ∧ pbc.length < 3) := by
  unfold dvectApi at h
  cases hp : apiPairs a0 a1 with
  | error e' =>
    rw [hp] at h
    simp only [Except.error.injEq] at h
    subst h
    cases a0 <;> cases a1 <;> simp [apiPairs] at hp <;> first
      | (left; exact hp.symm)
      | (right; left; exact hp.symm)
      | (right; left; revert hp; split <;> simp <;> intro hh <;> exact hh.symm)
  | ok l =>
    rw [hp] at h
    cases hf : apiFlags pbc with
    | some f => rw [hf] at h; cases h
    | none =>
      rw [hf] at h
      simp only [Except.error.injEq] at h
      right; right
      refine ⟨h.symm, ?_⟩
      rcases pbc with _ | ⟨a, _ | ⟨b, _ | ⟨c, t⟩⟩⟩ <;> simp [apiFlags] at hf ⊢

/-- REFUSAL CLASS ValueError, exactly (the second half of the sentence above, statement audit): with at least three
    flags a ValueError is raised iff no argument is 0-d and the call is not accepted. -/
theorem dvectApi_value_iff (v : M3 K) (pbc : List Int) (a0 a1 : PosArg K) (h3 : 3 ≤ pbc.length) :
    dvectApi v pbc a0 a1 = .error "value" ↔
      (a0 ≠ .scalar ∧ a1 ≠ .scalar ∧ ¬ ∃ r, dvectApi v pbc a0 a1 = .ok r) := by
  constructor
  · intro h
    refine ⟨?_, ?_, ?_⟩
    · intro hs
      have := (dvectApi_type_iff v pbc a0 a1).mpr (Or.inl hs)
      rw [h] at this; simp at this
    · intro hs
      have := (dvectApi_type_iff v pbc a0 a1).mpr (Or.inr hs)
      rw [h] at this; simp at this
    · rintro ⟨r, hr⟩; rw [h] at hr; cases hr
  · rintro ⟨h0, h1, hno⟩
    cases hd : dvectApi v pbc a0 a1 with
    | ok r => exact absurd ⟨r, hd⟩ hno
    | error e =>
      rcases dvectApi_error_class v pbc a0 a1 e hd with he | he | ⟨_, hlt⟩
      · subst he
        rcases (dvectApi_type_iff v pbc a0 a1).mp hd with hs | hs
        · exact absurd hs h0
        · exact absurd hs h1
      · rw [he]
      · omega

/-- non-vacuity of `dvectApi_value_iff` (both sides true: a rank-3 argument; both sides false: an accepted call). -/
example :
    let v : M3 ℚ := ⟨⟨4, 0, 0⟩, ⟨1, 4, 0⟩, ⟨1, 1, 4⟩⟩
    dvectApi v [1, 0, 1] (.rows [⟨0, 0, 0⟩, ⟨1, 0, 0⟩]) (.rank3 2) = .error "value" ∧
    dvectApi v [1, 0, 1] (.rows [⟨0, 0, 0⟩, ⟨1, 0, 0⟩]) (.rows [⟨0, 0, 0⟩, ⟨1, 0, 0⟩, ⟨2, 0, 0⟩]) = .error "value" ∧
    dvectApi v [1, 0] (.rows [⟨0, 0, 0⟩]) (.rows [⟨3, 0, 0⟩]) = .error "undefined" := by
  decide +kernel

/-- only the TRUTH VALUE of the first three flags matters: `1`, `2`, `-1`, `np.True_` are the same flag, entries beyond
    the third are never read. -/
theorem dvectApi_flag_forms (v : M3 K) (a b c a' b' c' : Int) (rest rest' : List Int) (a0 a1 : PosArg K)
    (ha : (a != 0) = (a' != 0)) (hb : (b != 0) = (b' != 0)) (hc : (c != 0) = (c' != 0)) :
    dvectApi v (a :: b :: c :: rest) a0 a1 = dvectApi v (a' :: b' :: c' :: rest') a0 a1 ∧
    dmag2Api v (a :: b :: c :: rest) a0 a1 = dmag2Api v (a' :: b' :: c' :: rest') a0 a1 := by
  simp [dvectApi, dmag2Api, apiFlags, ha, hb, hc]

/-- `atomman.dmag` squared is `atomman.dvect` row by row squared, with the same refusals — for every argument form. -/
theorem dmag2Api_eq (v : M3 K) (pbc : List Int) (a0 a1 : PosArg K) :
    dmag2Api v pbc a0 a1 = (dvectApi v pbc a0 a1).map (List.map V3.normSq) := by
  unfold dmag2Api dvectApi
  cases apiPairs a0 a1 with
  | error e => rfl
  | ok l =>
    cases apiFlags pbc with
    | none => rfl
    | some f =>
      obtain ⟨px, py, pz⟩ := f
      simp only [Except.map, List.map_map]
      congr 1
      apply List.map_congr_left
      intro pq _
      exact dmag2_eq_normsq_dvect _ _ _ _ _ _

open Atomman.Generated in
/-- END TO END, `atomman.dvect` as the source reads now: for every accepted call each returned row is the periodic
    separation of a point of `pos_0` and a point of `pos_1` under the truth values of `pbc[0..2]`: the direct separation
    shifted by whole cell vectors along periodic directions only, never longer than any of the 27 candidates. -/
theorem api_dvect_end_to_end (v : M3 K) (a b c : Int) (rest : List Int) (a0 a1 : PosArg K) (r : List (V3 K))
    (h : DvectSource.dvectWrap v (a :: b :: c :: rest) a0 a1 = .ok r) :
    ∃ l0 l1, a0.rowsOf = some l0 ∧ a1.rowsOf = some l1 ∧
      r.length = (if l0.length = 1 then l1.length else l0.length) ∧
      ∀ d ∈ r, ∃ p0 ∈ l0, ∃ p1 ∈ l1, d = dvect v (a != 0) (b != 0) (c != 0) p0 p1 ∧
        (∃ n : Shift, n.admissible (a != 0) (b != 0) (c != 0) ∧ d = (p1 - p0) + latticeVec v n) ∧
        ∀ m : Shift, m.admissible (a != 0) (b != 0) (c != 0) → V3.normSq d ≤ V3.normSq ((p1 - p0) + latticeVec v m) := by
  rw [Source.gen_dvectWrap_eq_model] at h
  obtain ⟨l0, l1, h0, h1, hlen, _⟩ := (dvectApi_ok_iff v _ a0 a1).mp ⟨r, h⟩
  refine ⟨l0, l1, h0, h1, ?_, ?_⟩
  · rw [dvectApi_eq_arr v a b c rest a0 a1 l0 l1 h0 h1] at h
    cases hb : broadcast l0 l1 with
    | none => simp [dvectArr, hb] at h
    | some l =>
      simp only [dvectArr, hb, Option.map_some, Except.ok.injEq] at h
      subst h
      simpa using broadcast_length l0 l1 l hb
  · rw [dvectApi_eq_arr v a b c rest a0 a1 l0 l1 h0 h1] at h
    cases hd : dvectArr v (a != 0) (b != 0) (c != 0) l0 l1 with
    | none => simp [hd] at h
    | some rows =>
      simp only [hd, Except.ok.injEq] at h
      subst h
      exact dvectArr_rows v _ _ _ l0 l1 rows hd

open Atomman.Generated in
/-- END TO END, `atomman.dmag` as the source reads now: the values (before `** 0.5`) are the squared lengths of the rows
    `atomman.dvect` returns for the same call, refusals included. -/
theorem api_dmag_end_to_end (v : M3 K) (a b c : Int) (rest : List Int) (a0 a1 : PosArg K) :
    DvectSource.dmagWrap v (a :: b :: c :: rest) a0 a1 =
      (DvectSource.dvectWrap v (a :: b :: c :: rest) a0 a1).map (List.map V3.normSq) := by
  rw [Source.gen_dmagWrap_eq_model, Source.gen_dvectWrap_eq_model, dmag2Api_eq]

/-- ACCEPTANCE of `displacement`, exactly: equal atom counts and one of the three references. -/
theorem displacement_ok_iff (s0 s1 : Sys K) (ref : String) :
    (∃ l, displacement s0 s1 ref = .ok l) ↔
      s0.pos.length = s1.pos.length ∧ (ref = "final" ∨ ref = "initial" ∨ ref = "None") := by
  unfold displacement refBox
  by_cases hn : s0.pos.length = s1.pos.length
  · by_cases h1 : ref = "final"
    · simp [hn, h1]
    · by_cases h2 : ref = "initial"
      · simp [hn, h1, h2]
      · by_cases h3 : ref = "None" <;> simp [hn, h1, h2, h3]
  · simp [hn]

open Atomman.Generated in
/-- END TO END, `atomman.displacement` as the source reads now (it goes through the WRAPPER `dvect`, broadcasting rule
    included): an accepted call returns one row per atom; with `'final'` / `'initial'` row `i` is the periodic separation of
    atom `i` of the two systems under the named system's cell and flags — an admissible image of the direct separation,
    not longer than any of the 27 candidates; with `None` the plain difference. A one-atom system is never broadcast. -/
theorem api_displacement_end_to_end (s0 s1 : Sys K) (ref : String) (l : List (V3 K))
    (h : DvectSource.displacement s0 s1 ref = .ok l) :
    s0.pos.length = s1.pos.length ∧ l.length = s0.pos.length ∧
    ∃ rb, refBox s0 s1 ref = some rb ∧
      ∀ (i : Nat) (h0 : i < s0.pos.length) (h1 : i < s1.pos.length) (hl : i < l.length),
        l[i] = dispWith rb s0.pos[i] s1.pos[i] ∧
        (rb = none → l[i] = s1.pos[i] - s0.pos[i]) ∧
        (∀ v px py pz, rb = some (v, px, py, pz) →
          (∃ n : Shift, n.admissible px py pz ∧ l[i] = (s1.pos[i] - s0.pos[i]) + latticeVec v n) ∧
          ∀ m : Shift, m.admissible px py pz →
            V3.normSq l[i] ≤ V3.normSq ((s1.pos[i] - s0.pos[i]) + latticeVec v m)) := by
  rw [Source.gen_displacement_eq_model] at h
  obtain ⟨hlen, hl, rb, hrb, hrows⟩ := displacement_atomwise s0 s1 ref l h
  refine ⟨hlen, hl, rb, hrb, ?_⟩
  intro i h0 h1 hli
  have hi := hrows i h0 h1 hli
  refine ⟨hi, ?_, ?_⟩
  · intro hnone; rw [hi, hnone]; rfl
  · intro v px py pz hsome
    rw [hi, hsome]
    exact ⟨dvect_is_image v px py pz _ _, fun m hm => dvect_min27 v px py pz _ _ m hm⟩

open Atomman.Generated in
/-- END TO END, `System.dvect` / `System.dmag` as the source reads now: the hand model's theorems (`sysDvect_rows`,
    `sysDmag2_eq`) are about the code. -/
theorem api_system_end_to_end (atoms : List (V3 K)) (v : M3 K) (px py pz : Bool) (s0 s1 : Sel K) :
    DvectSource.sysDvect atoms v px py pz s0 s1 = sysDvect atoms v px py pz s0 s1 ∧
    DvectSource.sysDmag atoms v px py pz s0 s1 =
      (DvectSource.sysDvect atoms v px py pz s0 s1).map (fun r => (r.1, r.2.map V3.normSq)) := by
  refine ⟨Source.gen_sysDvect_eq_model _ _ _ _ _ _ _, ?_⟩
  rw [Source.gen_sysDmag_eq_model, Source.gen_sysDvect_eq_model, sysDmag2_eq]

/-- the `System.pbc` setter accepts exactly three entries (anything else is the AssertionError) and stores their truth
    values. -/
theorem pbcSetter_ok_iff (value : List Int) :
    (∃ f, Atomman.Generated.DvectSource.pbcSetter value = some f) ↔ value.length = 3 := by
  rw [Source.gen_pbcSetter_eq_model]
  rcases value with _ | ⟨a, _ | ⟨b, _ | ⟨c, _ | ⟨d, t⟩⟩⟩⟩ <;> simp [pbcSetterArg]

/-- non-vacuity of the API theorems: a one-to-many call with a flat point, integer-valued flags `(2, 0, -1, 7)` (truth
    values `True, False, True`; the fourth entry is never read), and the refusals. -/
example :
    let v : M3 ℚ := ⟨⟨4, 0, 0⟩, ⟨1, 4, 0⟩, ⟨1, 1, 4⟩⟩
    dvectApi v [2, 0, -1, 7] (.flat ⟨0, 0, 0⟩) (.rows [⟨3, 0, 0⟩, ⟨0, 3, 0⟩]) = .ok [⟨-1, 0, 0⟩, ⟨0, 3, 0⟩] ∧
    dvectApi v [1, 0, 1] (.flat ⟨0, 0, 0⟩) (.rows [⟨3, 0, 0⟩, ⟨0, 3, 0⟩]) = .ok [⟨-1, 0, 0⟩, ⟨0, 3, 0⟩] ∧
    dvectApi v [1, 1, 1] .scalar (.rank3 2) = .error "type" ∧
    dvectApi v [1, 1, 1] (.rows [⟨0, 0, 0⟩]) (.rank3 2) = .error "value" ∧
    dvectApi v [1, 1, 1] (.rows [⟨0, 0, 0⟩, ⟨1, 0, 0⟩]) (.rows [⟨0, 0, 0⟩, ⟨1, 0, 0⟩, ⟨2, 0, 0⟩]) = .error "value" ∧
    Atomman.Generated.DvectSource.dvectWrap v [2, 0, -1, 7] (.flat ⟨0, 0, 0⟩) (.rows [⟨3, 0, 0⟩, ⟨0, 3, 0⟩])
      = .ok [⟨-1, 0, 0⟩, ⟨0, 3, 0⟩] ∧
    Atomman.Generated.DvectSource.displacement ⟨v, true, true, true, [⟨0, 0, 0⟩]⟩ ⟨v, false, false, false, [⟨3, 0, 0⟩]⟩ "initial"
      = .ok [⟨-1, 0, 0⟩] ∧
    Atomman.Generated.DvectSource.displacement ⟨v, true, true, true, [⟨0, 0, 0⟩]⟩
      ⟨v, false, false, false, [⟨3, 0, 0⟩, ⟨1, 1, 1⟩]⟩ "final" = .error "value" ∧
    Atomman.Generated.DvectSource.pbcSetter [2, 0, -1] = some (true, false, true) ∧
    Atomman.Generated.DvectSource.pbcSetter [1, 0] = none := by
  decide +kernel

open Atomman.Generated in
/-- LAST CLAUSE of the property, about the kernel AS THE SOURCE READS NOW (generated `dvectC`): for both points in the closed
    cell of a cell with mutually orthogonal vectors (any orientation / handedness), what `dvect_c` computes is not longer
    than the image through ANY integer shift along the periodic directions. -/
theorem source_true_nearest_ortho (b : Box K) (hdet : M3.det b.vects ≠ 0)
    (h01 : V3.dot b.vects.r0 b.vects.r1 = 0) (h02 : V3.dot b.vects.r0 b.vects.r2 = 0)
    (h12 : V3.dot b.vects.r1 b.vects.r2 = 0) (px py pz : Bool) (p0 p1 : V3 K)
    (h0 : InCell b p0) (h1 : InCell b p1) (n : Shift) (hn : n.respects px py pz) :
    V3.normSq (DvectSource.dvectC p0 p1 b.vects px py pz) ≤ V3.normSq ((p1 - p0) + latticeVec b.vects n) ∧
    DvectSource.dmag2C p0 p1 b.vects px py pz = V3.normSq (DvectSource.dvectC p0 p1 b.vects px py pz) := by
  rw [Source.gen_dvectC_eq_model, Source.gen_dmag2C_eq_model]
  exact ⟨ortho_true_nearest b hdet h01 h02 h12 px py pz p0 p1 h0 h1 n hn, dmag2_eq_normsq_dvect _ _ _ _ _ _⟩

open Atomman.Generated in
/-- … and for ANY cell with `det ≠ 0`: if some image (any integer shift along the periodic directions) is shorter than half
    the smallest perpendicular width of the periodic axes, the generated `dvectC` returns exactly that image, and it is the
    shortest over all integer shifts. -/
theorem source_true_nearest_tilted (b : Box K) (hdet : M3.det b.vects ≠ 0) (px py pz : Bool) (p0 p1 : V3 K)
    (h0 : InCell b p0) (h1 : InCell b p1) (w2 : K)
    (hwx : px = true → w2 * V3.normSq b.recip.r0 ≤ 1)
    (hwy : py = true → w2 * V3.normSq b.recip.r1 ≤ 1)
    (hwz : pz = true → w2 * V3.normSq b.recip.r2 ≤ 1)
    (n : Shift) (hn : n.respects px py pz)
    (sn : 4 * V3.normSq ((p1 - p0) + latticeVec b.vects n) < w2) :
    DvectSource.dvectC p0 p1 b.vects px py pz = (p1 - p0) + latticeVec b.vects n ∧
    ∀ m : Shift, m.respects px py pz →
      V3.normSq (DvectSource.dvectC p0 p1 b.vects px py pz) ≤ V3.normSq ((p1 - p0) + latticeVec b.vects m) := by
  rw [Source.gen_dvectC_eq_model]
  exact (tilted_true_nearest b hdet px py pz p0 p1 h0 h1 w2 hwx hwy hwz n hn sn).2

/-- non-vacuity: the generated kernels on the tilted example cell (boundary-crossing pair) and on the tie example. -/
example : Atomman.Generated.DvectSource.dvectC (⟨11/5, 1/2, 5⟩ : V3 ℚ) ⟨29/5, 1/2, 5⟩ ⟨⟨4, 0, 0⟩, ⟨1, 4, 0⟩, ⟨1, 1, 4⟩⟩ true true true
      = ⟨-2/5, 0, 0⟩ ∧
    Atomman.Generated.DvectSource.dmag2C (⟨11/5, 1/2, 5⟩ : V3 ℚ) ⟨29/5, 1/2, 5⟩ ⟨⟨4, 0, 0⟩, ⟨1, 4, 0⟩, ⟨1, 1, 4⟩⟩ true true true = 4/25 ∧
    Atomman.Generated.DvectSource.dvectC (⟨0, 0, 0⟩ : V3 ℚ) ⟨1, 1, 1⟩ ⟨⟨2, 0, 0⟩, ⟨0, 2, 0⟩, ⟨0, 0, 2⟩⟩ true true true = ⟨1, 1, 1⟩ ∧
    Atomman.Generated.DvectSource.dvectC (⟨11/5, 1/2, 5⟩ : V3 ℚ) ⟨29/5, 1/2, 5⟩ ⟨⟨4, 0, 0⟩, ⟨1, 4, 0⟩, ⟨1, 1, 4⟩⟩ false true true
      = ⟨18/5, 0, 0⟩ := by
  decide +kernel

/-! ### index dispatch of `System.dvect/dmag` -/

/-- a python int `0 ≤ i < natoms` selects atom `i`; `-natoms ≤ i < 0` selects atom `natoms + i`; anything else
    (a 0-d value reaches the wrapper) is a TypeError. -/
theorem select_idx (atoms : List (V3 K)) (i : Int) :
    (0 ≤ i → (h : i.toNat < atoms.length) → select atoms (.idx i) = .ok [atoms[i.toNat]]) ∧
    (i < 0 → -(atoms.length : Int) ≤ i → ∀ (h : (i + atoms.length).toNat < atoms.length),
        select atoms (.idx i) = .ok [atoms[(i + atoms.length).toNat]]) ∧
    ((atoms.length : Int) ≤ i ∨ i < -(atoms.length : Int) → select atoms (.idx i) = .error "type") := by
  refine ⟨?_, ?_, ?_⟩
  · intro h0 h
    have hi : i < (atoms.length : Int) := by omega
    simp [select, wrapIndex, h0, hi, List.getElem?_eq_getElem h]
  · intro hneg hlo h
    have h1 : ¬ (0 ≤ i ∧ i < (atoms.length : Int)) := by omega
    simp [select, wrapIndex, h1, hneg, hlo, List.getElem?_eq_getElem h]
  · intro h
    have h1 : ¬ (0 ≤ i ∧ i < (atoms.length : Int)) := by omega
    have h2 : ¬ (i < 0 ∧ -(atoms.length : Int) ≤ i) := by omega
    simp [select, wrapIndex, h1, h2]

/-- explicit float positions are taken as they are; an int 3-tuple is ONE position (too many indices for the
    position array); an integer (k,3) array all of whose entries are usable as indices IS an index (the call is
    then refused with ValueError: a 3-d array reaches the wrapper). -/
theorem select_positions (atoms : List (V3 K)) :
    (∀ l, select atoms (.pos l) = .ok l) ∧
    (∀ a b c : Int, select atoms (.tuple [a, b, c]) = .ok [⟨(a : K), (b : K), (c : K)⟩]) ∧
    (∀ rows ks, (rows.flatMap fun r => [r.1, r.2.1, r.2.2]).mapM (wrapIndex atoms.length) = some ks →
        select atoms (.ipos rows) = .error "value") := by
  refine ⟨fun _ => rfl, fun _ _ _ => rfl, ?_⟩
  intro rows ks h
  simp only [select, h]

/-! ### length scale: multiplying cell and points by any `c ≠ 0` multiplies the result by `c` -/

def scaleV (c : K) (a : V3 K) : V3 K := ⟨c * a.x, c * a.y, c * a.z⟩
def scaleM (c : K) (m : M3 K) : M3 K := ⟨scaleV c m.r0, scaleV c m.r1, scaleV c m.r2⟩

theorem normSq_scaleV (c : K) (a : V3 K) : V3.normSq (scaleV c a) = c ^ 2 * V3.normSq a := by
  simp only [V3.normSq, V3.dot, scaleV]; ring

theorem shiftBy_scale (c : K) (V : M3 K) (d : V3 K) (s : Shift) :
    shiftBy (scaleM c V) (scaleV c d) s = scaleV c (shiftBy V d s) := by
  ext <;> simp only [shiftBy, scaleM, scaleV] <;> ring

theorem fold_scale (c : K) (hc : c ≠ 0) (V : M3 K) (d0 : V3 K) (L : List Shift) (init : V3 K) :
    L.foldl (dvectStep (scaleM c V) (scaleV c d0)) (scaleV c init) = scaleV c (L.foldl (dvectStep V d0) init) := by
  induction L generalizing init with
  | nil => rfl
  | cons s L ih =>
    simp only [List.foldl_cons]
    have hstep : dvectStep (scaleM c V) (scaleV c d0) (scaleV c init) s = scaleV c (dvectStep V d0 init s) := by
      rw [dvectStep_eq, dvectStep_eq, shiftBy_scale, normSq_scaleV, normSq_scaleV]
      have hc2 : 0 < c ^ 2 := by positivity
      by_cases hlt : V3.normSq (shiftBy V d0 s) < V3.normSq init
      · rw [if_pos hlt, if_pos (mul_lt_mul_of_pos_left hlt hc2)]
      · rw [if_neg hlt, if_neg (fun h => hlt (lt_of_mul_lt_mul_left h hc2.le))]
    rw [hstep, ih]

/-- no absolute length enters: an ångström cell written in metres gives the same separation, in metres. -/
theorem dvect_scale (c : K) (hc : c ≠ 0) (vects : M3 K) (px py pz : Bool) (p0 p1 : V3 K) :
    dvect (scaleM c vects) px py pz (scaleV c p0) (scaleV c p1) = scaleV c (dvect vects px py pz p0 p1) := by
  have e : scaleV c p1 - scaleV c p0 = scaleV c (p1 - p0) := by
    ext <;> simp only [sub_x, sub_y, sub_z, scaleV] <;> ring
  simp only [dvect, e]
  exact fold_scale c hc vects (p1 - p0) _ (p1 - p0)

theorem dmag2_scale (c : K) (hc : c ≠ 0) (vects : M3 K) (px py pz : Bool) (p0 p1 : V3 K) :
    dmag2 (scaleM c vects) px py pz (scaleV c p0) (scaleV c p1) = c ^ 2 * dmag2 vects px py pz p0 p1 := by
  rw [dmag2_eq_normsq_dvect, dmag2_eq_normsq_dvect, dvect_scale c hc, normSq_scaleV]

/-! ### objects with state: a query reads what the objects hold NOW, whatever the history -/

namespace World

/-- `System.dvect` reads the System's current positions and flags and its Box's current vectors, nothing else. -/
theorem sysDvect_current (w : World K) (s : Nat) (v : Sys K) (hv : w.sysView s = some v) (s0 s1 : Sel K) :
    w.sysDvect s s0 s1 = C02.sysDvect v.pos v.vects v.px v.py v.pz s0 s1 ∧
    w.sysDmag2 s s0 s1 = C02.sysDmag2 v.pos v.vects v.px v.py v.pz s0 s1 := by
  simp [World.sysDvect, World.sysDmag2, hv]

/-- after ANY history of in-place changes (the statement holds for EVERY world `w'`, reachable or not: the history
    hypothesis is not needed), every row `System.dvect` returns is `dvect` of a point SELECTED by `sel0` and a point
    SELECTED by `sel1` from the positions the System holds now (statement audit: the two points used to be unconstrained
    existentials), an admissible image (flags as they are now) of their direct separation under the cell as it is
    now, not longer than any of the 27 candidates; the result is squeezed exactly when there is one row; and
    `System.dmag` returns the lengths of exactly these rows. -/
theorem sysDvect_history (w : World K) (ops : List (Op K)) (w' : World K) (_hrun : w.run ops = some w')
    (s : Nat) (s0 s1 : Sel K) (sq : Bool) (rows : List (V3 K)) (h : w'.sysDvect s s0 s1 = .ok (sq, rows)) :
    ∃ v, w'.sysView s = some v ∧
      w'.sysDmag2 s s0 s1 = .ok (sq, rows.map V3.normSq) ∧
      ∃ a b, select v.pos s0 = .ok a ∧ select v.pos s1 = .ok b ∧ sq = (rows.length == 1) ∧
      ∀ r ∈ rows, ∃ p0 ∈ a, ∃ p1 ∈ b, r = dvect v.vects v.px v.py v.pz p0 p1 ∧
        (∃ n : Shift, n.admissible v.px v.py v.pz ∧ r = (p1 - p0) + latticeVec v.vects n) ∧
        ∀ m : Shift, m.admissible v.px v.py v.pz → V3.normSq r ≤ V3.normSq ((p1 - p0) + latticeVec v.vects m) := by
  cases hv : w'.sysView s with
  | none => simp [World.sysDvect, hv] at h
  | some v =>
    obtain ⟨e1, e2⟩ := sysDvect_current w' s v hv s0 s1
    rw [e1] at h
    refine ⟨v, rfl, ?_, ?_⟩
    · rw [e2, sysDmag2_eq, h]; rfl
    · obtain ⟨a, b, ha, hb, hd, hsq⟩ := sysDvect_rows v.pos v.vects v.px v.py v.pz s0 s1 sq rows h
      refine ⟨a, b, ha, hb, hsq, ?_⟩
      intro r hr
      exact dvectArr_rows v.vects v.px v.py v.pz a b rows hd r hr

/-- the module-level scalar distance with a Box OBJECT is, at any time, the length of the module-level separation
    with the same object (no memory of an earlier call or an earlier cell). -/
theorem arrDmag2_history (w : World K) (ops : List (Op K)) (w' : World K) (_hrun : w.run ops = some w')
    (b : Nat) (px py pz : Bool) (as bs : List (V3 K)) :
    w'.arrDmag2 b px py pz as bs = (w'.arrDvect b px py pz as bs).map (List.map V3.normSq) := by
  unfold World.arrDmag2 World.arrDvect
  cases w'.boxes[b]? with
  | none => rfl
  | some bx =>
    simp only [dmag2Arr_eq]
    cases dvectArr bx.vects px py pz as bs <;> rfl

/-- `displacement` of two System objects is `displacement` of what they hold now. -/
theorem disp_history (w : World K) (ops : List (Op K)) (w' : World K) (_hrun : w.run ops = some w')
    (s0 s1 : Nat) (ref : String) (l : List (V3 K)) (h : w'.disp s0 s1 ref = .ok l) :
    ∃ a b, w'.sysView s0 = some a ∧ w'.sysView s1 = some b ∧ displacement a b ref = .ok l := by
  unfold World.disp at h
  cases ha : w'.sysView s0 with
  | none => simp [ha] at h
  | some a =>
    cases hb : w'.sysView s1 with
    | none => simp [ha, hb] at h
    | some b => simp only [ha, hb] at h; exact ⟨a, b, rfl, rfl, h⟩

open Atomman.Generated in
/-- after ANY history, `atomman.displacement(S0, S1, ref)` on the live objects is the `displacement` function AS THE SOURCE
    READS NOW (generated), applied to what the two objects hold at the time of the call. -/
theorem disp_source (w : World K) (ops : List (Op K)) (w' : World K) (_hrun : w.run ops = some w')
    (s0 s1 : Nat) (a b : Sys K) (ha : w'.sysView s0 = some a) (hb : w'.sysView s1 = some b) (ref : String) :
    w'.disp s0 s1 ref = DvectSource.displacement a b ref := by
  rw [Source.gen_displacement_eq_model]
  simp [World.disp, ha, hb]

open Atomman.Generated in
/-- after ANY history, `S.dvect(sel0, sel1)` / `S.dmag(sel0, sel1)` on the live object are the methods AS THE SOURCE READS NOW
    (generated), applied to the positions, cell and flags the object holds at the time of the call. -/
theorem sysDvect_source (w : World K) (ops : List (Op K)) (w' : World K) (_hrun : w.run ops = some w')
    (s : Nat) (v : Sys K) (hv : w'.sysView s = some v) (s0 s1 : Sel K) :
    w'.sysDvect s s0 s1 = DvectSource.sysDvect v.pos v.vects v.px v.py v.pz s0 s1 ∧
    w'.sysDmag2 s s0 s1 = DvectSource.sysDmag v.pos v.vects v.px v.py v.pz s0 s1 := by
  rw [Source.gen_sysDvect_eq_model, Source.gen_sysDmag_eq_model]
  simp [World.sysDvect, World.sysDmag2, hv]

theorem getElem?_setAt {α : Type} (l l' : List α) (i : Nat) (a : α) (h : setAt l i a = some l') :
    l'[i]? = some a ∧ (∀ j, j ≠ i → l'[j]? = l[j]?) ∧ l'.length = l.length := by
  unfold setAt at h
  split at h
  · rename_i hi
    injection h with h; subst h
    exact ⟨List.getElem?_set_self hi, fun j hj => List.getElem?_set_ne (Ne.symm hj), by simp⟩
  · cases h

/-- `system.pbc[k] = flag` (in place): the very next read by `System.dvect/dmag` sees the new flag on axis `k`,
    the other two flags, the cell and the positions as before. -/
theorem pbcEdit_read (w w' : World K) (s k : Nat) (f : Bool) (v : Sys K) (hv : w.sysView s = some v)
    (h : w.step (.pbcEdit s k f) = some w') :
    ∃ v', w'.sysView s = some v' ∧ v'.vects = v.vects ∧ v'.pos = v.pos ∧
      v'.px = (if k = 0 then f else v.px) ∧ v'.py = (if k = 1 then f else v.py) ∧ v'.pz = (if k = 2 then f else v.pz) := by
  simp only [World.step, Option.bind_eq_bind] at h
  cases hst : w.systems[s]? with
  | none => simp [hst] at h
  | some st =>
    simp only [hst, Option.bind_some] at h
    cases hf : st.setFlag k f with
    | none => simp [hf] at h
    | some st' =>
      simp only [hf, Option.bind_some] at h
      cases hss : setAt w.systems s st' with
      | none => simp [hss] at h
      | some ss =>
        simp only [hss, Option.bind_some, Option.pure_def, Option.some.injEq] at h
        subst h
        obtain ⟨hget, _, _⟩ := getElem?_setAt _ _ _ _ hss
        simp only [World.sysView, hst, Option.bind_eq_bind, Option.bind_some] at hv
        cases hb : w.boxes[st.box]? with
        | none => simp [hb] at hv
        | some bx =>
          simp only [hb, Option.bind_some, Option.pure_def, Option.some.injEq] at hv
          subst hv
          have hbox : st'.box = st.box ∧ st'.pos = st.pos ∧
              st'.px = (if k = 0 then f else st.px) ∧ st'.py = (if k = 1 then f else st.py) ∧
              st'.pz = (if k = 2 then f else st.pz) := by
            unfold SysSt.setFlag at hf
            split at hf <;> first | (injection hf with hf; subst hf; simp) | cases hf
          refine ⟨⟨bx.vects, st'.px, st'.py, st'.pz, st'.pos⟩, ?_, rfl, hbox.2.1, hbox.2.2.1, hbox.2.2.2.1, hbox.2.2.2.2⟩
          simp [World.sysView, hget, hbox.1, hb]

/-- `B.vects = v` on a Box object: EVERY System holding that object reads the new vectors at its next query
    (flags and positions untouched). -/
theorem boxVects_shared (w w' : World K) (b : Nat) (v : M3 K) (h : w.step (.boxVects b v) = some w')
    (t : Nat) (st : SysSt K) (ht : w.systems[t]? = some st) (hb : st.box = b) :
    w'.sysView t = some ⟨v, st.px, st.py, st.pz, st.pos⟩ := by
  simp only [World.step, Option.bind_eq_bind] at h
  cases ho : w.boxes[b]? with
  | none => simp [ho] at h
  | some old =>
    simp only [ho, Option.bind_some] at h
    cases hbs : setAt w.boxes b ⟨v, old.origin⟩ with
    | none => simp [hbs] at h
    | some bs =>
      simp only [hbs, Option.bind_some, Option.pure_def, Option.some.injEq] at h
      subst h
      obtain ⟨hget, _, _⟩ := getElem?_setAt _ _ _ _ hbs
      simp [World.sysView, ht, hb, hget]

/-- `S.box_set(vects=v, origin=o)` without `scale`: the Box object is changed in place, so every OTHER System
    holding the same Box reads the new vectors too, with its own positions and flags. -/
theorem sysBoxSet_shared (w w' : World K) (s : Nat) (v : M3 K) (o : V3 K)
    (h : w.step (.sysBoxSet s v o false) = some w')
    (st : SysSt K) (hs : w.systems[s]? = some st)
    (t : Nat) (st' : SysSt K) (ht : w.systems[t]? = some st') (hb : st'.box = st.box) :
    w'.sysView t = some ⟨v, st'.px, st'.py, st'.pz, st'.pos⟩ := by
  simp only [World.step, Option.bind_eq_bind, hs, Option.bind_some] at h
  cases ho : w.boxes[st.box]? with
  | none => simp [ho] at h
  | some old =>
    simp only [ho, Option.bind_some] at h
    cases hbs : setAt w.boxes st.box ⟨v, o⟩ with
    | none => simp [hbs] at h
    | some bs =>
      simp only [hbs, Option.bind_some, Bool.false_eq_true, if_false, Option.pure_def, Option.some.injEq] at h
      subst h
      obtain ⟨hget, _, _⟩ := getElem?_setAt _ _ _ _ hbs
      simp [World.sysView, ht, hb, hget]

end World

/-- the state theorems are not vacuous: a history with an in-place flag edit and a shared Box that is replaced,
    after which the query follows the new flags and the new cell. -/
example :
    let w0 : World ℚ := World.empty
    let ops : List (Op ℚ) := [.newBox ⟨⟨4, 0, 0⟩, ⟨0, 4, 0⟩, ⟨0, 0, 4⟩⟩ ⟨0, 0, 0⟩,
      .newSys 0 true true true [⟨0, 0, 0⟩, ⟨3, 0, 0⟩], .newSys 0 false false false [⟨1, 1, 1⟩]]
    (w0.run ops).map (fun w => w.sysDvect 0 (.idx 0) (.idx 1)) = some (.ok (true, [⟨-1, 0, 0⟩])) ∧
    (w0.run (ops ++ [.pbcEdit 0 0 false])).map (fun w => w.sysDvect 0 (.idx 0) (.idx 1)) = some (.ok (true, [⟨3, 0, 0⟩])) ∧
    (w0.run (ops ++ [.sysBoxSet 1 ⟨⟨2, 0, 0⟩, ⟨0, 4, 0⟩, ⟨0, 0, 4⟩⟩ ⟨0, 0, 0⟩ false])).map
      (fun w => w.sysDvect 0 (.idx 0) (.idx 1)) = some (.ok (true, [⟨1, 0, 0⟩])) := by
  decide +kernel

/-- a history for the example below: two Systems hold Box 0, then `B.vects = …`. -/
def auditOps : List (Op ℚ) := [.newBox ⟨⟨4, 0, 0⟩, ⟨0, 4, 0⟩, ⟨0, 0, 4⟩⟩ ⟨0, 0, 0⟩,
  .newSys 0 true true true [⟨0, 0, 0⟩, ⟨3, 0, 0⟩], .newSys 0 true false false [⟨0, 0, 0⟩, ⟨0, 3, 0⟩, ⟨3, 3, 0⟩],
  .boxVects 0 ⟨⟨2, 0, 0⟩, ⟨1, 5, 0⟩, ⟨0, 0, 4⟩⟩]

/-- `World.boxVects_shared` / `World.pbcEdit_read` are not vacuous: two Systems hold Box 0; `B.vects = …` is read by both at
    their next query, each with its own flags; an in-place flag edit of System 0 is not seen by System 1. -/
example :
    ((World.empty : World ℚ).run auditOps).map (fun w => w.sysDvect 0 (.idx 0) (.idx 1)) = some (.ok (true, [⟨1, 0, 0⟩])) ∧
    ((World.empty : World ℚ).run auditOps).map (fun w => w.sysDvect 1 (.idx 0) (.list [1, 2]))
      = some (.ok (false, [⟨0, 3, 0⟩, ⟨1, 3, 0⟩])) := by
  decide +kernel

example :
    ((World.empty : World ℚ).run (auditOps ++ [.pbcEdit 0 0 false])).map (fun w => w.sysDvect 1 (.idx 0) (.idx 2))
      = some (.ok (true, [⟨1, 3, 0⟩])) ∧
    ((World.empty : World ℚ).run (auditOps ++ [.pbcEdit 0 0 false])).map (fun w => w.sysDvect 0 (.idx 0) (.idx 1))
      = some (.ok (true, [⟨3, 0, 0⟩])) := by
  decide +kernel

/-! ### non-vacuity and sharpness (concrete rational instances) -/

/-- a tilted cell. -/
def exBox : Box ℚ := ⟨⟨⟨4, 0, 0⟩, ⟨1, 4, 0⟩, ⟨1, 1, 4⟩⟩, ⟨1, -2, 3⟩⟩
def exP0 : V3 ℚ := ⟨11/5, 1/2, 5⟩     -- s = (1/20, 1/2, 1/2)
def exP1 : V3 ℚ := ⟨29/5, 1/2, 5⟩     -- s = (19/20, 1/2, 1/2)

instance (b : Box ℚ) (p : V3 ℚ) : Decidable (InCell b p) := by unfold InCell; infer_instance

/-- the hypotheses of `tilted_true_nearest` are met by a pair whose nearest image crosses the cell
    boundary (`n = (-1,0,0)`), with `w² = 1`. -/
example : M3.det exBox.vects ≠ 0 ∧ InCell exBox exP0 ∧ InCell exBox exP1 ∧
    (1 : ℚ) * V3.normSq exBox.recip.r0 ≤ 1 ∧ (1 : ℚ) * V3.normSq exBox.recip.r1 ≤ 1 ∧
    (1 : ℚ) * V3.normSq exBox.recip.r2 ≤ 1 ∧
    4 * V3.normSq ((exP1 - exP0) + latticeVec exBox.vects (-1, 0, 0)) < 1 ∧
    dvect exBox.vects true true true exP0 exP1 = ⟨-2/5, 0, 0⟩ := by decide +kernel

/-- hypotheses of `ortho_true_nearest` / `ortho_diag_true_nearest`: points on opposite faces included. -/
example : InCell (⟨⟨⟨2, 0, 0⟩, ⟨0, 3, 0⟩, ⟨0, 0, 5⟩⟩, ⟨1, 1, 1⟩⟩ : Box ℚ) ⟨1, 5/2, 6⟩ ∧
    InCell (⟨⟨⟨2, 0, 0⟩, ⟨0, 3, 0⟩, ⟨0, 0, 5⟩⟩, ⟨1, 1, 1⟩⟩ : Box ℚ) ⟨3, 1, 1⟩ := by decide +kernel

/-- hypotheses of `ortho_true_nearest` for a rotated, left-handed orthogonal cell with a point on a face. -/
example :
    let b : Box ℚ := ⟨⟨⟨3, 4, 0⟩, ⟨4, -3, 0⟩, ⟨0, 0, 2⟩⟩, ⟨1, 0, -1⟩⟩
    M3.det b.vects ≠ 0 ∧ V3.dot b.vects.r0 b.vects.r1 = 0 ∧ V3.dot b.vects.r0 b.vects.r2 = 0 ∧
    V3.dot b.vects.r1 b.vects.r2 = 0 ∧ InCell b ⟨1, 0, -1⟩ ∧ InCell b ⟨8, 1, 1⟩ ∧ InCell b ⟨9/2, 1/2, 0⟩ := by
  decide +kernel

/-- sharpness: without the width hypothesis the claim is false.  In this strongly tilted cell both
    points are inside, yet the image with `n = (-2,0,0)` (not among the 27 candidates) is shorter
    than what the 27-candidate search returns. -/
example :
    let b : Box ℚ := ⟨⟨⟨1, 0, 0⟩, ⟨5/2, 1, 0⟩, ⟨0, 0, 1⟩⟩, ⟨0, 0, 0⟩⟩
    let p0 : V3 ℚ := ⟨0, 0, 0⟩
    let p1 : V3 ℚ := ⟨43/20, 1/2, 0⟩
    InCell b p0 ∧ InCell b p1 ∧
    V3.normSq ((p1 - p0) + latticeVec b.vects (-2, 0, 0)) < V3.normSq (dvect b.vects true true true p0 p1) := by
  decide +kernel

/-- the hypotheses of `dvect_direct_of_short` can be met (`w² = 36`, `|d|² = 6 < 9`), and they cannot be replaced by
    "shorter than half the shortest cell EDGE": in the sheared cell `a = (10,0,0)`, `b = (−8,6,0)`, `c = (0,0,10)` every
    edge has length 10, the move `d = (3/2, 4, 0)` has `|d|² = 73/4 < 25`, both positions are inside the cell, and yet
    the periodic separation is `d − a − b = (−1/2, −2, 0)` (squared length `17/4`), not `d`. -/
example :
    let b : Box ℚ := ⟨⟨⟨10, 0, 0⟩, ⟨-8, 6, 0⟩, ⟨0, 0, 10⟩⟩, ⟨1, -2, 1/2⟩⟩
    let p0 : V3 ℚ := ⟨6/5, -7/5, 11/2⟩
    let p1 : V3 ℚ := ⟨27/10, 13/5, 11/2⟩
    let q1 : V3 ℚ := ⟨16/5, -2/5, 13/2⟩
    M3.det b.vects ≠ 0 ∧ InCell b p0 ∧ InCell b p1 ∧
    (36 : ℚ) * V3.normSq b.recip.r0 ≤ 1 ∧ (36 : ℚ) * V3.normSq b.recip.r1 ≤ 1 ∧ (36 : ℚ) * V3.normSq b.recip.r2 ≤ 1 ∧
    4 * V3.normSq (q1 - p0) < 36 ∧ dvect b.vects true true true p0 q1 = q1 - p0 ∧
    V3.normSq b.vects.r0 = 100 ∧ V3.normSq b.vects.r1 = 100 ∧ V3.normSq b.vects.r2 = 100 ∧
    4 * V3.normSq (p1 - p0) < 100 ∧
    dvect b.vects true true true p0 p1 = ⟨-1/2, -2, 0⟩ ∧ dvect b.vects true true true p0 p1 ≠ p1 - p0 ∧
    dvect b.vects true true false p0 p1 = ⟨-1/2, -2, 0⟩ := by
  decide +kernel

/-- a decimal (4.05-type) tilted cell: the copy through `(1,-1,0)` is at separation exactly zero. -/
example : dvect (⟨⟨81/20, 0, 0⟩, ⟨81/200, 81/20, 0⟩, ⟨0, -81/100, 81/20⟩⟩ : M3 ℚ) true true false ⟨1/10, 1/5, 3/10⟩
    ((⟨1/10, 1/5, 3/10⟩ : V3 ℚ) + latticeVec (⟨⟨81/20, 0, 0⟩, ⟨81/200, 81/20, 0⟩, ⟨0, -81/100, 81/20⟩⟩ : M3 ℚ) (1, -1, 0)) = ⟨0, 0, 0⟩ := by
  decide +kernel

/-- tie-break: two candidates of equal length, the first in loop order is returned. -/
example : dvect (⟨⟨2, 0, 0⟩, ⟨0, 2, 0⟩, ⟨0, 0, 2⟩⟩ : M3 ℚ) true true true ⟨0, 0, 0⟩ ⟨1, 1, 1⟩ = ⟨1, 1, 1⟩ ∧
    dvect (⟨⟨2, 0, 0⟩, ⟨0, 2, 0⟩, ⟨0, 0, 2⟩⟩ : M3 ℚ) true true true ⟨1, 1, 1⟩ ⟨0, 0, 0⟩ = ⟨-1, -1, -1⟩ := by
  decide +kernel

/-! ### statement audit: further non-vacuity instances -/

/-- hypotheses of `search_radius_sound` / `search_radius_images` with a NON-zero shift: in the tilted example cell the
    image through `(-1,0,0)` is shorter than the direct separation (and than the image through `(1,0,0)`), and the
    conclusions hold with room to spare. -/
example :
    let d : V3 ℚ := exP1 - exP0
    M3.det exBox.vects ≠ 0 ∧
    V3.normSq (d + latticeVec exBox.vects (-1, 0, 0)) ≤ V3.normSq d ∧
    V3.normSq (d + latticeVec exBox.vects (-1, 0, 0)) ≤ V3.normSq (d + latticeVec exBox.vects (1, 0, 0)) ∧
    ((-1 : ℚ))^2 ≤ 4 * V3.normSq d * V3.normSq exBox.recip.r0 ∧
    ((-2 : ℚ))^2 ≤ 4 * V3.normSq (d + latticeVec exBox.vects (1, 0, 0)) * V3.normSq exBox.recip.r0 := by
  decide +kernel

/-- hypotheses of `short_image_unique` / `short_image_admissible` (mixed periodicity `x, z` periodic, `y` free; `w² = 1`):
    the shift `(-1,0,0)` respects the flags and its image is short; the shift `(-1,1,0)` does not respect them. -/
example :
    (1 : ℚ) * V3.normSq exBox.recip.r0 ≤ 1 ∧ (1 : ℚ) * V3.normSq exBox.recip.r2 ≤ 1 ∧
    Shift.respects (-1, 0, 0) true false true ∧ ¬ Shift.respects (-1, 1, 0) true false true ∧
    4 * V3.normSq ((exP1 - exP0) + latticeVec exBox.vects (-1, 0, 0)) < 1 ∧
    dvect exBox.vects true false true exP0 exP1 = (exP1 - exP0) + latticeVec exBox.vects (-1, 0, 0) := by
  refine ⟨by decide +kernel, by decide +kernel, ?_, ?_, by decide +kernel, by decide +kernel⟩
  · simp [Shift.respects]
  · simp [Shift.respects]

/-- `dvectArr_many_to_one` (three points against one), `dvectArr_many_to_many` (two against two), `dvectArr_none_iff`
    (two against three is refused), `displacement_atomwise` / `displacement_ok_iff` (two atoms, `'initial'`),
    `displacement_refuses` (unknown keyword). -/
example :
    let v : M3 ℚ := ⟨⟨4, 0, 0⟩, ⟨1, 4, 0⟩, ⟨1, 1, 4⟩⟩
    dvectArr v true true false [⟨0, 0, 0⟩, ⟨1, 0, 0⟩, ⟨0, 1, 0⟩] [⟨3, 0, 0⟩] = some [⟨-1, 0, 0⟩, ⟨2, 0, 0⟩, ⟨-1, -1, 0⟩] ∧
    dvectArr v true true false [⟨0, 0, 0⟩, ⟨1, 0, 0⟩] [⟨3, 0, 0⟩, ⟨1, 3, 0⟩] = some [⟨-1, 0, 0⟩, ⟨-1, -1, 0⟩] ∧
    dvectArr v true true false [⟨0, 0, 0⟩, ⟨1, 0, 0⟩] [⟨3, 0, 0⟩, ⟨1, 3, 0⟩, ⟨0, 0, 0⟩] = none ∧
    displacement ⟨v, true, true, true, [⟨0, 0, 0⟩, ⟨1, 0, 0⟩]⟩ ⟨v, false, false, false, [⟨3, 0, 0⟩, ⟨1, 3, 0⟩]⟩ "initial"
      = .ok [⟨-1, 0, 0⟩, ⟨-1, -1, 0⟩] ∧
    displacement ⟨v, true, true, true, [⟨0, 0, 0⟩, ⟨1, 0, 0⟩]⟩ ⟨v, false, false, false, [⟨3, 0, 0⟩, ⟨1, 3, 0⟩]⟩ "final"
      = .ok [⟨3, 0, 0⟩, ⟨0, 3, 0⟩] ∧
    displacement ⟨v, true, true, true, [⟨0, 0, 0⟩]⟩ ⟨v, false, false, false, [⟨3, 0, 0⟩]⟩ "Final" = .error "value" := by
  decide +kernel

/-- `select_idx` (a negative index that wraps, an index past the end), `select_positions` third clause (an integer
    `(1,3)` array all of whose entries are usable as indices of a three-atom system: taken as a fancy index, refused;
    with an entry out of range: taken as ONE position), and the hypotheses of `sysDvect_rows` / `World.sysDvect_history`
    with a two-row (unsqueezed) answer. -/
example :
    let atoms : List (V3 ℚ) := [⟨0, 0, 0⟩, ⟨3, 0, 0⟩, ⟨1, 1, 1⟩]
    let v : M3 ℚ := ⟨⟨4, 0, 0⟩, ⟨0, 4, 0⟩, ⟨0, 0, 4⟩⟩
    select atoms (.idx (-1)) = .ok [⟨1, 1, 1⟩] ∧ select atoms (.idx 3) = .error "type" ∧
    select atoms (.idx (-4)) = .error "type" ∧
    ([(2, 0, 1)].flatMap fun r : Int × Int × Int => [r.1, r.2.1, r.2.2]).mapM (wrapIndex atoms.length) = some [2, 0, 1] ∧
    select atoms (.ipos [(2, 0, 1)]) = .error "value" ∧
    select atoms (.ipos [(2, 0, 5)]) = .ok [⟨2, 0, 5⟩] ∧
    sysDvect atoms v true true true (.idx 0) (.list [1, 2]) = .ok (false, [⟨-1, 0, 0⟩, ⟨1, 1, 1⟩]) := by
  decide +kernel

/-! ### a condition on the CELL alone under which the 27 candidates contain the true nearest image -/

/-- how far a relative separation component can be brought towards zero by a candidate shift: `1/2` on a periodic
    axis (`[-1,1]` shifted by -1, 0 or 1), `1` on a non-periodic one (no shift). -/
def halfw (p : Bool) : K := if p then 1 / 2 else 1

/-- the **cover bound** of a cell: an upper bound, from the Gram matrix of the cell vectors alone, of the squared
    length of `t·vects` for every `t` with `|tᵢ| ≤ halfw pᵢ` — hence of the shortest of the 27 candidates for any
    two points of the cell.  All-periodic: `¼ (|a|² + |b|² + |c|² + 2|a·b| + 2|a·c| + 2|b·c|)`. -/
def coverBound (V : M3 K) (px py pz : Bool) : K :=
  halfw px * halfw px * V3.normSq V.r0 + halfw py * halfw py * V3.normSq V.r1 + halfw pz * halfw pz * V3.normSq V.r2
    + 2 * (halfw px * halfw py * |V3.dot V.r0 V.r1|) + 2 * (halfw px * halfw pz * |V3.dot V.r0 V.r2|)
    + 2 * (halfw py * halfw pz * |V3.dot V.r1 V.r2|)

theorem halfw_pos (p : Bool) : (0 : K) < halfw p := by
  cases p <;> simp [halfw]

theorem prod_le_abs (u v P hu hv : K) (h1 : |u| ≤ hu) (h2 : |v| ≤ hv) : u * v * P ≤ hu * hv * |P| := by
  have hu0 : 0 ≤ hu := le_trans (abs_nonneg u) h1
  calc u * v * P ≤ |u * v * P| := le_abs_self _
    _ = |u| * |v| * |P| := by rw [abs_mul, abs_mul]
    _ ≤ hu * hv * |P| :=
        mul_le_mul_of_nonneg_right (mul_le_mul h1 h2 (abs_nonneg _) hu0) (abs_nonneg _)

theorem sq_le_of_abs (u hu : K) (h1 : |u| ≤ hu) : u ^ 2 ≤ hu * hu := by
  have hu0 : 0 ≤ hu := le_trans (abs_nonneg u) h1
  have := mul_le_mul h1 h1 (abs_nonneg _) hu0
  rw [abs_mul_abs_self] at this
  rw [pow_two]; exact this

/-- the Gram bound: `|tᵢ| ≤ hᵢ` ⇒ `|t·V|² ≤ Σᵢⱼ hᵢ hⱼ |vᵢ·vⱼ|`. -/
theorem normSq_vecMul_le (V : M3 K) (t : V3 K) (hx hy hz : K)
    (h1 : |t.x| ≤ hx) (h2 : |t.y| ≤ hy) (h3 : |t.z| ≤ hz) :
    V3.normSq (M3.vecMul t V) ≤
      hx * hx * V3.normSq V.r0 + hy * hy * V3.normSq V.r1 + hz * hz * V3.normSq V.r2
        + 2 * (hx * hy * |V3.dot V.r0 V.r1|) + 2 * (hx * hz * |V3.dot V.r0 V.r2|)
        + 2 * (hy * hz * |V3.dot V.r1 V.r2|) := by
  have e : V3.normSq (M3.vecMul t V)
      = t.x^2 * V3.normSq V.r0 + t.y^2 * V3.normSq V.r1 + t.z^2 * V3.normSq V.r2
        + 2 * (t.x * t.y * V3.dot V.r0 V.r1) + 2 * (t.x * t.z * V3.dot V.r0 V.r2)
        + 2 * (t.y * t.z * V3.dot V.r1 V.r2) := by
    simp only [V3.normSq, V3.dot, M3.vecMul]; ring
  rw [e]
  have a1 := mul_le_mul_of_nonneg_right (sq_le_of_abs _ _ h1) (normSq_nonneg V.r0)
  have a2 := mul_le_mul_of_nonneg_right (sq_le_of_abs _ _ h2) (normSq_nonneg V.r1)
  have a3 := mul_le_mul_of_nonneg_right (sq_le_of_abs _ _ h3) (normSq_nonneg V.r2)
  have b1 := prod_le_abs t.x t.y (V3.dot V.r0 V.r1) hx hy h1 h2
  have b2 := prod_le_abs t.x t.z (V3.dot V.r0 V.r2) hx hz h1 h3
  have b3 := prod_le_abs t.y t.z (V3.dot V.r1 V.r2) hy hz h2 h3
  linarith

/-- a relative separation component in `[-1,1]` is brought into `[-1/2,1/2]` by a shift of -1, 0 or 1; on a
    non-periodic axis it stays where it is. -/
theorem reduce_comp (p : Bool) (δ : K) (hδ : -1 ≤ δ ∧ δ ≤ 1) :
    ∃ m : Int, (m = -1 ∨ m = 0 ∨ m = 1) ∧ (p = false → m = 0) ∧ |δ + (m : K)| ≤ halfw p := by
  cases p
  · refine ⟨0, Or.inr (Or.inl rfl), fun _ => rfl, ?_⟩
    simp only [halfw, Int.cast_zero, add_zero, Bool.false_eq_true, if_false]
    exact abs_le.mpr hδ
  · simp only [halfw, if_true]
    by_cases h1 : δ ≤ -(1/2)
    · refine ⟨1, Or.inr (Or.inr rfl), (fun h => absurd h (by decide)), ?_⟩
      rw [abs_le]; push_cast; constructor <;> linarith [hδ.1]
    · by_cases h2 : 1/2 ≤ δ
      · refine ⟨-1, Or.inl rfl, (fun h => absurd h (by decide)), ?_⟩
        rw [abs_le]; push_cast; constructor <;> linarith [hδ.2]
      · refine ⟨0, Or.inr (Or.inl rfl), (fun h => absurd h (by decide)), ?_⟩
        rw [abs_le]; push_cast; constructor <;> linarith

/-- an image not longer than `R2`, with `R2 |ρ|² < 1`, of a separation whose `ρ`-component lies in `[-1,1]` has
    shift -1, 0 or 1 along that axis. -/
theorem comp_small_cover (e ρ : V3 K) (R2 δ : K) (k : Int) (hk : V3.dot e ρ = δ + (k : K))
    (hδ : -1 ≤ δ ∧ δ ≤ 1) (he : V3.normSq e ≤ R2) (hw : R2 * V3.normSq ρ < 1) :
    k = -1 ∨ k = 0 ∨ k = 1 := by
  have c1 := cauchy_schwarz e ρ
  have hρ := normSq_nonneg ρ
  have h4 : V3.normSq e * V3.normSq ρ ≤ R2 * V3.normSq ρ := mul_le_mul_of_nonneg_right he hρ
  have hq : (δ + (k : K))^2 < 1 := by rw [← hk]; linarith
  have hlo : -2 < k := by
    by_contra h
    have h' : k ≤ -2 := by omega
    have : (k : K) ≤ -2 := by exact_mod_cast h'
    nlinarith
  have hhi : k < 2 := by
    by_contra h
    have h' : 2 ≤ k := by omega
    have : (2 : K) ≤ (k : K) := by exact_mod_cast h'
    nlinarith
  omega

/-- **the cell condition, general form**: `det ≠ 0`, both points in the closed cell.  Let `R2` bound the squared
    length of every combination `t·vects` with `|tᵢ| ≤ 1/2` on the periodic axes and `|tᵢ| ≤ 1` on the others.  If
    `R2 < wᵢ²` (`wᵢ` the perpendicular width, `wᵢ² = 1/|recipᵢ|²`) on every periodic axis, then what the 27-candidate
    search returns is the shortest image over ALL integer shifts `n : ℤ³` along the periodic directions — whatever the
    two points, near or far. -/
theorem cover_true_nearest (b : Box K) (hdet : M3.det b.vects ≠ 0) (px py pz : Bool) (R2 : K)
    (hcov : ∀ t : V3 K, |t.x| ≤ halfw px → |t.y| ≤ halfw py → |t.z| ≤ halfw pz →
      V3.normSq (M3.vecMul t b.vects) ≤ R2)
    (hwx : px = true → R2 * V3.normSq b.recip.r0 < 1)
    (hwy : py = true → R2 * V3.normSq b.recip.r1 < 1)
    (hwz : pz = true → R2 * V3.normSq b.recip.r2 < 1)
    (p0 p1 : V3 K) (h0 : InCell b p0) (h1 : InCell b p1) (n : Shift) (hn : n.respects px py pz) :
    V3.normSq (dvect b.vects px py pz p0 p1) ≤ V3.normSq ((p1 - p0) + latticeVec b.vects n) := by
  obtain ⟨d0, d1, d2⟩ := incell_delta b p0 p1 h0 h1
  obtain ⟨mx, hmx, hmx0, hx⟩ := reduce_comp px _ d0
  obtain ⟨my, hmy, hmy0, hy⟩ := reduce_comp py _ d1
  obtain ⟨mz, hmz, hmz0, hz⟩ := reduce_comp pz _ d2
  have hadm : Shift.admissible (mx, my, mz) px py pz := ⟨hmx, hmy, hmz, hmx0, hmy0, hmz0⟩
  have hmin := dvect_min27 b.vects px py pz p0 p1 (mx, my, mz) hadm
  have hR : V3.normSq (dvect b.vects px py pz p0 p1) ≤ R2 := by
    refine le_trans hmin ?_
    rw [← shiftBy_eq, image_decompose b hdet]
    exact hcov _ hx hy hz
  by_contra hlt
  have hlt' := not_le.mp hlt
  have he : V3.normSq (shiftBy b.vects (p1 - p0) n) ≤ R2 := by
    rw [shiftBy_eq]; exact le_of_lt (lt_of_lt_of_le hlt' hR)
  obtain ⟨n0, n1, n2⟩ := image_comp b hdet (p1 - p0) n
  have hnadm : n.admissible px py pz := by
    refine ⟨?_, ?_, ?_, hn⟩
    · cases hpx : px
      · right; left; exact hn.1 hpx
      · exact comp_small_cover _ _ R2 _ _ n0 d0 he (hwx hpx)
    · cases hpy : py
      · right; left; exact hn.2.1 hpy
      · exact comp_small_cover _ _ R2 _ _ n1 d1 he (hwy hpy)
    · cases hpz : pz
      · right; left; exact hn.2.2 hpz
      · exact comp_small_cover _ _ R2 _ _ n2 d2 he (hwz hpz)
  exact hlt (dvect_min27 b.vects px py pz p0 p1 n hnadm)

/-- **the cell condition, closed form** (LAST CLAUSE for general tilted cells, no hypothesis on the pair): if the
    cover bound of the cell — computed from the Gram matrix of its vectors, see `coverBound` — is below the squared
    perpendicular width of every periodic axis, the periodic separation of ANY two points of the closed cell is a true
    nearest image: not longer than the image through any `n : ℤ³` along the periodic directions. -/
theorem gram_true_nearest (b : Box K) (hdet : M3.det b.vects ≠ 0) (px py pz : Bool)
    (hwx : px = true → coverBound b.vects px py pz * V3.normSq b.recip.r0 < 1)
    (hwy : py = true → coverBound b.vects px py pz * V3.normSq b.recip.r1 < 1)
    (hwz : pz = true → coverBound b.vects px py pz * V3.normSq b.recip.r2 < 1)
    (p0 p1 : V3 K) (h0 : InCell b p0) (h1 : InCell b p1) (n : Shift) (hn : n.respects px py pz) :
    V3.normSq (dvect b.vects px py pz p0 p1) ≤ V3.normSq ((p1 - p0) + latticeVec b.vects n) ∧
    dmag2 b.vects px py pz p0 p1 ≤ V3.normSq ((p1 - p0) + latticeVec b.vects n) := by
  have h := cover_true_nearest b hdet px py pz (coverBound b.vects px py pz)
    (fun t h1 h2 h3 => normSq_vecMul_le b.vects t _ _ _ h1 h2 h3) hwx hwy hwz p0 p1 h0 h1 n hn
  exact ⟨h, by rw [dmag2_eq_normsq_dvect]; exact h⟩

open Atomman.Generated in
/-- the same about the kernels AS THE SOURCE READS NOW (generated `dvectC` / `dmag2C`). -/
theorem source_true_nearest_gram (b : Box K) (hdet : M3.det b.vects ≠ 0) (px py pz : Bool)
    (hwx : px = true → coverBound b.vects px py pz * V3.normSq b.recip.r0 < 1)
    (hwy : py = true → coverBound b.vects px py pz * V3.normSq b.recip.r1 < 1)
    (hwz : pz = true → coverBound b.vects px py pz * V3.normSq b.recip.r2 < 1)
    (p0 p1 : V3 K) (h0 : InCell b p0) (h1 : InCell b p1) (n : Shift) (hn : n.respects px py pz) :
    V3.normSq (DvectSource.dvectC p0 p1 b.vects px py pz) ≤ V3.normSq ((p1 - p0) + latticeVec b.vects n) ∧
    DvectSource.dmag2C p0 p1 b.vects px py pz ≤ V3.normSq ((p1 - p0) + latticeVec b.vects n) := by
  rw [Source.gen_dvectC_eq_model, Source.gen_dmag2C_eq_model]
  exact gram_true_nearest b hdet px py pz hwx hwy hwz p0 p1 h0 h1 n hn

/-- LAMMPS-normal cell whose tilt factors are within the LAMMPS limits (`|xy|, |xz| ≤ lx/2`, `|yz| ≤ ly/2`). -/
def withinTiltLimits (b : Box K) : Prop :=
  b.vects.r0.y = 0 ∧ b.vects.r0.z = 0 ∧ b.vects.r1.z = 0 ∧
  0 < b.vects.r0.x ∧ 0 < b.vects.r1.y ∧ 0 < b.vects.r2.z ∧
  2 * |b.vects.r1.x| ≤ b.vects.r0.x ∧ 2 * |b.vects.r2.x| ≤ b.vects.r0.x ∧ 2 * |b.vects.r2.y| ≤ b.vects.r1.y

instance (b : Box ℚ) : Decidable (withinTiltLimits b) := by unfold withinTiltLimits; infer_instance
instance (n : Shift) (px py pz : Bool) : Decidable (n.respects px py pz) := by unfold Shift.respects; infer_instance

/-- **the condition cannot be dropped, not even within the LAMMPS tilt limits**: the flat cell `a = (5,0,0)`,
    `b = (-1,1,0)`, `c = (0,0,1)` is LAMMPS-normal with `|xy| = 1 ≤ lx/2`; both points are strictly inside it
    (relative coordinates `(3/4,1/8,1/2)` and `(1/4,7/8,1/2)`); the 27-candidate search returns a separation of squared
    length `29/8`, while the image through `n = (0,-2,0)` — outside the search — has `25/8`.  (The cover bound of this
    cell is `17/2`, far above its squared width `25/26` along `b`.)  So a cell being "within the tilt limits" does NOT
    make the last clause of the property hold for every pair: a hypothesis such as that of `gram_true_nearest` (on the
    cell) or of `tilted_true_nearest` (on the pair) is needed. -/
theorem cell_condition_needed :
    let b : Box ℚ := ⟨⟨⟨5, 0, 0⟩, ⟨-1, 1, 0⟩, ⟨0, 0, 1⟩⟩, ⟨0, 0, 0⟩⟩
    let p0 : V3 ℚ := ⟨29/8, 1/8, 1/2⟩
    let p1 : V3 ℚ := ⟨3/8, 7/8, 1/2⟩
    withinTiltLimits b ∧ M3.det b.vects ≠ 0 ∧ InCell b p0 ∧ InCell b p1 ∧
    Shift.respects (0, -2, 0) true true true ∧
    V3.normSq (dvect b.vects true true true p0 p1) = 29/8 ∧
    V3.normSq ((p1 - p0) + latticeVec b.vects (0, -2, 0)) = 25/8 ∧
    V3.normSq ((p1 - p0) + latticeVec b.vects (0, -2, 0)) < V3.normSq (dvect b.vects true true true p0 p1) ∧
    ¬ (coverBound b.vects true true true * V3.normSq b.recip.r1 < 1) := by
  decide +kernel

/-- … and outside the tilt limits (strongly sheared, `xy = 5/2·lx`): `n = (-2,0,0)` beats the search. -/
theorem sheared_condition_needed :
    let b : Box ℚ := ⟨⟨⟨1, 0, 0⟩, ⟨5/2, 1, 0⟩, ⟨0, 0, 1⟩⟩, ⟨0, 0, 0⟩⟩
    let p0 : V3 ℚ := ⟨0, 0, 0⟩
    let p1 : V3 ℚ := ⟨43/20, 1/2, 0⟩
    M3.det b.vects ≠ 0 ∧ InCell b p0 ∧ InCell b p1 ∧ Shift.respects (-2, 0, 0) true true true ∧
    V3.normSq ((p1 - p0) + latticeVec b.vects (-2, 0, 0)) < V3.normSq (dvect b.vects true true true p0 p1) := by
  decide +kernel

/-- non-vacuity of `gram_true_nearest`: a tilted LAMMPS cell (`xy = lx/4`), all axes periodic, cover bound `57/4`
    below the squared widths `256/17`, `16`, `16`; a pair in the cell whose nearest image (`|·|² = 41/4`) is NOT
    shorter than half the smallest width (so `tilted_true_nearest` says nothing about it); and with the third axis
    non-periodic. -/
example :
    let b : Box ℚ := ⟨⟨⟨4, 0, 0⟩, ⟨1, 4, 0⟩, ⟨0, 0, 4⟩⟩, ⟨1, -2, 3⟩⟩
    M3.det b.vects ≠ 0 ∧ withinTiltLimits b ∧ coverBound b.vects true true true = 57/4 ∧
    coverBound b.vects true true true * V3.normSq b.recip.r0 < 1 ∧
    coverBound b.vects true true true * V3.normSq b.recip.r1 < 1 ∧
    coverBound b.vects true true true * V3.normSq b.recip.r2 < 1 ∧
    InCell b ⟨1, -2, 3⟩ ∧ InCell b ⟨7/2, 0, 5⟩ ∧
    V3.normSq (dvect b.vects true true true ⟨1, -2, 3⟩ ⟨7/2, 0, 5⟩) = 41/4 ∧
    ¬ (4 * V3.normSq (dvect b.vects true true true ⟨1, -2, 3⟩ ⟨7/2, 0, 5⟩) < 256/17) := by
  decide +kernel

/-! ### the `Box.vects` clean-up (C01's model of the setter statement) as the C02 driver applies it to every cell-defining
    operation of the `World` (`C02Drv.stored`) -/

/-- every entry of the cell is either exactly zero or larger (in absolute value) than `thr` times the largest entry. -/
def CleanStable (thr : K) (v : M3 K) : Prop :=
  ∀ x ∈ [v.r0.x, v.r0.y, v.r0.z, v.r1.x, v.r1.y, v.r1.z, v.r2.x, v.r2.y, v.r2.z],
    x = 0 ∨ thr * C01.maxAbs v < C01.absK x

theorem cleanEntry_noop (thr M x : K) (h : x = 0 ∨ thr * M < C01.absK x) : C01.cleanEntry thr M x = x := by
  unfold C01.cleanEntry
  split
  · rcases h with h | h
    · exact h.symm
    · exact absurd ‹_› (not_le.mpr h)
  · rfl

/-- **the `Box.vects` clean-up does nothing on a clean-stable cell** (C01's model of the setter statement, the one its
    `gen_cleanup_eq_model` ties to the source): what the `World` model stores for `B.vects = v`, `Box(vects=v)`,
    `B.set(...)`, `S.box_set(...)` is then what atomman stores. -/
theorem cleanVects_noop (thr : K) (v : M3 K) (h : CleanStable thr v) : C01.cleanVects thr v = v := by
  unfold CleanStable at h
  simp only [List.mem_cons, List.not_mem_nil, or_false, forall_eq_or_imp, forall_eq] at h
  obtain ⟨h1, h2, h3, h4, h5, h6, h7, h8, h9⟩ := h
  unfold C01.cleanVects C01.cleanV
  simp only [cleanEntry_noop _ _ _ h1, cleanEntry_noop _ _ _ h2, cleanEntry_noop _ _ _ h3, cleanEntry_noop _ _ _ h4,
    cleanEntry_noop _ _ _ h5, cleanEntry_noop _ _ _ h6, cleanEntry_noop _ _ _ h7, cleanEntry_noop _ _ _ h8,
    cleanEntry_noop _ _ _ h9]

/-- … and it is idempotent-free of surprises for the model: a tiny entry IS removed (non-vacuity of the hypothesis and of
    its failure: `1e-12`-type residue next to entries of order 4). -/
example : C01.cleanVects (1/1000000000 : ℚ) ⟨⟨4, 1/1000000000000, 0⟩, ⟨1, 4, 0⟩, ⟨0, 0, 4⟩⟩ = ⟨⟨4, 0, 0⟩, ⟨1, 4, 0⟩, ⟨0, 0, 4⟩⟩ ∧
    C01.cleanVects (1/1000000000 : ℚ) ⟨⟨4, 0, 0⟩, ⟨1, 4, 0⟩, ⟨0, 0, 4⟩⟩ = ⟨⟨4, 0, 0⟩, ⟨1, 4, 0⟩, ⟨0, 0, 4⟩⟩ := by
  decide +kernel

open Atomman.Generated in
/-- **the LAST CLAUSE of the property as one statement about the kernels AS THE SOURCE READS NOW**: both points in the closed
    cell (`det ≠ 0`), and EITHER the cell vectors are mutually orthogonal, OR the true nearest-image distance is below half
    the smallest perpendicular width of the periodic axes (some image `k : ℤ³` with `4|·|² < w²`, `w² ≤ 1/|recipᵢ|²`), OR —
    beyond the text — the cell meets the cover-bound condition.  Then what `dvect_c` returns is not longer than the image
    through ANY `n : ℤ³` along the periodic directions, it is itself such an image with `nᵢ ∈ {−1,0,1}`, and `dmag2_c` is its
    squared length. -/
theorem last_clause_end_to_end (b : Box K) (hdet : M3.det b.vects ≠ 0) (px py pz : Bool) (p0 p1 : V3 K)
    (h0 : InCell b p0) (h1 : InCell b p1)
    (hcase :
      (V3.dot b.vects.r0 b.vects.r1 = 0 ∧ V3.dot b.vects.r0 b.vects.r2 = 0 ∧ V3.dot b.vects.r1 b.vects.r2 = 0) ∨
      (∃ (w2 : K) (k : Shift), (px = true → w2 * V3.normSq b.recip.r0 ≤ 1) ∧ (py = true → w2 * V3.normSq b.recip.r1 ≤ 1) ∧
        (pz = true → w2 * V3.normSq b.recip.r2 ≤ 1) ∧ k.respects px py pz ∧
        4 * V3.normSq ((p1 - p0) + latticeVec b.vects k) < w2) ∨
      ((px = true → coverBound b.vects px py pz * V3.normSq b.recip.r0 < 1) ∧
       (py = true → coverBound b.vects px py pz * V3.normSq b.recip.r1 < 1) ∧
       (pz = true → coverBound b.vects px py pz * V3.normSq b.recip.r2 < 1))) :
    (∀ n : Shift, n.respects px py pz →
      V3.normSq (DvectSource.dvectC p0 p1 b.vects px py pz) ≤ V3.normSq ((p1 - p0) + latticeVec b.vects n)) ∧
    (∃ m : Shift, m.admissible px py pz ∧ DvectSource.dvectC p0 p1 b.vects px py pz = (p1 - p0) + latticeVec b.vects m) ∧
    DvectSource.dmag2C p0 p1 b.vects px py pz = V3.normSq (DvectSource.dvectC p0 p1 b.vects px py pz) := by
  rw [Source.gen_dvectC_eq_model, Source.gen_dmag2C_eq_model]
  refine ⟨?_, dvect_is_image b.vects px py pz p0 p1, dmag2_eq_normsq_dvect _ _ _ _ _ _⟩
  intro n hn
  rcases hcase with ⟨h01, h02, h12⟩ | ⟨w2, k, hwx, hwy, hwz, hk, hs⟩ | ⟨hwx, hwy, hwz⟩
  · exact ortho_true_nearest b hdet h01 h02 h12 px py pz p0 p1 h0 h1 n hn
  · exact (tilted_true_nearest b hdet px py pz p0 p1 h0 h1 w2 hwx hwy hwz k hk hs).2.2 n hn
  · exact (gram_true_nearest b hdet px py pz hwx hwy hwz p0 p1 h0 h1 n hn).1

namespace World

open Atomman.Generated in
/-- `S.box_set(vects=v, origin=o, scale=True)` AS THE SOURCE READS NOW (generated `sysBoxSet`): the Box object is changed in
    place; System `S` itself then holds the positions with the relative coordinates it had under the OLD cell, re-expressed
    under the new one; every OTHER System holding the same Box reads the new vectors with its Cartesian positions untouched
    (its relative coordinates change) — the asymmetry a caller of `box_set(scale=True)` on a shared Box has to know. -/
theorem sysBoxSet_scaled (w w' : World K) (s : Nat) (v : M3 K) (o : V3 K)
    (h : DvectSource.sysBoxSet w s v o true = some w')
    (st : SysSt K) (hs : w.systems[s]? = some st) (old : Box K) (ho : w.boxes[st.box]? = some old) :
    w'.sysView s = some ⟨v, st.px, st.py, st.pz, st.pos.map fun p => Box.relToCart ⟨v, o⟩ (old.cartToRel p)⟩ ∧
    ∀ (t : Nat) (st' : SysSt K), t ≠ s → w.systems[t]? = some st' → st'.box = st.box →
      w'.sysView t = some ⟨v, st'.px, st'.py, st'.pz, st'.pos⟩ := by
  rw [Source.gen_sysBoxSet_eq_model] at h
  simp only [World.step, Option.bind_eq_bind, hs, Option.bind_some, ho] at h
  cases hbs : setAt w.boxes st.box ⟨v, o⟩ with
  | none => simp [hbs] at h
  | some bs =>
    simp only [hbs, Option.bind_some, if_true] at h
    cases hss : setAt w.systems s { st with pos := st.pos.map fun p => Box.relToCart ⟨v, o⟩ (old.cartToRel p) } with
    | none => simp [hss] at h
    | some ss =>
      simp only [hss, Option.bind_some, Option.pure_def, Option.some.injEq] at h
      subst h
      obtain ⟨hget, _, _⟩ := getElem?_setAt _ _ _ _ hbs
      obtain ⟨hsget, hsother, _⟩ := getElem?_setAt _ _ _ _ hss
      refine ⟨by simp [World.sysView, hsget, hget], ?_⟩
      intro t st' hts ht hb
      simp [World.sysView, hsother t hts, ht, hb, hget]
end World

/-- non-vacuity of `World.sysBoxSet_scaled`: two Systems on one Box, the cell doubled through the first with `scale=True`:
    its atom moves from (1,1,1) to (2,2,2), the other System's atom stays at (2,2,2) (relative 1/2 → 1/4). -/
example :
    let w : World ℚ := ⟨[⟨⟨⟨4, 0, 0⟩, ⟨0, 4, 0⟩, ⟨0, 0, 4⟩⟩, ⟨0, 0, 0⟩⟩],
      [⟨0, true, true, true, [⟨1, 1, 1⟩]⟩, ⟨0, true, false, true, [⟨2, 2, 2⟩]⟩]⟩
    let w' := Atomman.Generated.DvectSource.sysBoxSet w 0 ⟨⟨8, 0, 0⟩, ⟨0, 8, 0⟩, ⟨0, 0, 8⟩⟩ ⟨0, 0, 0⟩ true
    (w'.bind fun x => (x.sysView 0).map (·.pos)) = some [⟨2, 2, 2⟩] ∧
    (w'.bind fun x => (x.sysView 1).map (·.pos)) = some [⟨2, 2, 2⟩] ∧
    (w'.bind fun x => (x.sysView 1).map (·.vects.r0)) = some ⟨8, 0, 0⟩ := by
  decide +kernel

/-! ### one periodic direction: the exact 1-D condition -/

/-- 1-D along a lattice vector `u` (`A = |d|²`, `D = d·u`, `U = |u|²`): if the projection of `d` on `u` is at most `3/2` of
    `|u|²` in absolute value, every integer shift along `u` is matched or beaten by one of -1, 0, 1. -/
theorem one_dim_proj (A D U : K) (hU : 0 ≤ U) (hσ : 2 * |D| ≤ 3 * U) (n : Int) :
    ∃ m : Int, (m = -1 ∨ m = 0 ∨ m = 1) ∧ (n = 0 → m = 0) ∧
      A + 2 * (m : K) * D + (m : K)^2 * U ≤ A + 2 * (n : K) * D + (n : K)^2 * U := by
  obtain ⟨h1, h2⟩ := abs_le.mp (show |D| ≤ 3 / 2 * U by linarith)
  rcases lt_trichotomy n 0 with h | h | h
  · -- n ≤ -1
    have hc : (n : K) ≤ -1 := by exact_mod_cast (show n ≤ -1 by omega)
    by_cases hp : 0 ≤ D
    · refine ⟨-1, Or.inl rfl, by omega, ?_⟩
      push_cast
      have hi : (0 : Int) ≤ (-1 - n) * (-2 - n) := by
        rcases (show n = -1 ∨ n ≤ -2 by omega) with h' | h'
        · rw [h']; decide
        · exact mul_nonneg (by omega) (by omega)
      have hiK : (0 : K) ≤ (-1 - (n:K)) * (-2 - (n:K)) := by exact_mod_cast hi
      nlinarith [mul_nonneg hiK hU, mul_nonneg (show (0:K) ≤ -1 - (n:K) by linarith) (show (0:K) ≤ 3 * U - 2 * D by linarith)]
    · refine ⟨0, Or.inr (Or.inl rfl), fun _ => rfl, ?_⟩
      push_cast
      have hneg : D < 0 := not_le.mp hp
      nlinarith [mul_nonneg (show (0:K) ≤ -(n:K) by linarith) (le_of_lt (neg_pos.mpr hneg)), mul_nonneg (sq_nonneg (n:K)) hU]
  · exact ⟨0, Or.inr (Or.inl rfl), fun _ => rfl, by rw [h]⟩
  · have hc : (1 : K) ≤ (n : K) := by exact_mod_cast (show 1 ≤ n by omega)
    by_cases hp : D ≤ 0
    · refine ⟨1, Or.inr (Or.inr rfl), by omega, ?_⟩
      push_cast
      have hi : (0 : Int) ≤ (n - 1) * (n - 2) := by
        rcases (show n = 1 ∨ 2 ≤ n by omega) with h' | h'
        · rw [h']; decide
        · exact mul_nonneg (by omega) (by omega)
      have hiK : (0 : K) ≤ ((n:K) - 1) * ((n:K) - 2) := by exact_mod_cast hi
      nlinarith [mul_nonneg hiK hU, mul_nonneg (show (0:K) ≤ (n:K) - 1 by linarith) (show (0:K) ≤ 3 * U + 2 * D by linarith)]
    · refine ⟨0, Or.inr (Or.inl rfl), fun _ => rfl, ?_⟩
      push_cast
      have hpos : 0 < D := not_le.mp hp
      nlinarith [mul_nonneg (show (0:K) ≤ (n:K) by linarith) (le_of_lt hpos), mul_nonneg (sq_nonneg (n:K)) hU]

theorem abs3_le (x y z P Q U : K) (hx : |x| ≤ 1) (hy : |y| ≤ 1) (hz : |z| ≤ 1) (hU : 0 ≤ U) :
    |x * U + y * P + z * Q| ≤ U + |P| + |Q| := by
  have a1 : |x * U| ≤ U := by
    rw [abs_mul, abs_of_nonneg hU]; exact mul_le_of_le_one_left hU hx
  have a2 : |y * P| ≤ |P| := by rw [abs_mul]; exact mul_le_of_le_one_left (abs_nonneg _) hy
  have a3 : |z * Q| ≤ |Q| := by rw [abs_mul]; exact mul_le_of_le_one_left (abs_nonneg _) hz
  calc |x * U + y * P + z * Q| ≤ |x * U + y * P| + |z * Q| := abs_add_le _ _
    _ ≤ |x * U| + |y * P| + |z * Q| := by linarith [abs_add_le (x * U) (y * P)]
    _ ≤ U + |P| + |Q| := by linarith

/-- **ONE periodic direction: the cell condition in closed form** (`det ≠ 0`, both points in the closed cell, exactly one
    flag set).  If the periodic cell vector `u` and the two others `v`, `w` satisfy `2(|u·v| + |u·w|) ≤ |u|²`, the result of
    the (three-candidate) search is the shortest image over ALL `n : ℤ` along `u`.  In LAMMPS terms for a periodic `a`:
    `|xy| + |xz| ≤ lx/2` — the SUM of the tilt factors, not each of them, has to stay within half the edge. -/
theorem one_axis_true_nearest (b : Box K) (hdet : M3.det b.vects ≠ 0) (px py pz : Bool) (p0 p1 : V3 K)
    (h0 : InCell b p0) (h1 : InCell b p1)
    (hone : (px = true ∧ py = false ∧ pz = false ∧
              2 * (|V3.dot b.vects.r0 b.vects.r1| + |V3.dot b.vects.r0 b.vects.r2|) ≤ V3.normSq b.vects.r0) ∨
            (px = false ∧ py = true ∧ pz = false ∧
              2 * (|V3.dot b.vects.r1 b.vects.r0| + |V3.dot b.vects.r1 b.vects.r2|) ≤ V3.normSq b.vects.r1) ∨
            (px = false ∧ py = false ∧ pz = true ∧
              2 * (|V3.dot b.vects.r2 b.vects.r0| + |V3.dot b.vects.r2 b.vects.r1|) ≤ V3.normSq b.vects.r2))
    (n : Shift) (hn : n.respects px py pz) :
    V3.normSq (dvect b.vects px py pz p0 p1) ≤ V3.normSq ((p1 - p0) + latticeVec b.vects n) := by
  obtain ⟨d0, d1, d2⟩ := incell_delta b p0 p1 h0 h1
  have hdec := decompose b hdet (p1 - p0)
  set sx := V3.dot (p1 - p0) b.recip.r0 with hsx
  set sy := V3.dot (p1 - p0) b.recip.r1 with hsy
  set sz := V3.dot (p1 - p0) b.recip.r2 with hsz
  have ax := abs_le.mpr d0
  have ay := abs_le.mpr d1
  have az := abs_le.mpr d2
  obtain ⟨n1, n2, n3⟩ := n
  rcases hone with ⟨hx, hy, hz, hc⟩ | ⟨hx, hy, hz, hc⟩ | ⟨hx, hy, hz, hc⟩
  · subst hx hy hz
    have e2 : n2 = 0 := hn.2.1 rfl
    have e3 : n3 = 0 := hn.2.2 rfl
    subst e2 e3
    have hD : V3.dot (p1 - p0) b.vects.r0
        = sx * V3.normSq b.vects.r0 + sy * V3.dot b.vects.r0 b.vects.r1 + sz * V3.dot b.vects.r0 b.vects.r2 := by
      conv_lhs => rw [hdec]
      simp only [V3.normSq, V3.dot, M3.vecMul]; ring
    have hb := abs3_le sx sy sz (V3.dot b.vects.r0 b.vects.r1) (V3.dot b.vects.r0 b.vects.r2) (V3.normSq b.vects.r0) ax ay az (normSq_nonneg b.vects.r0)
    rw [← hD] at hb
    obtain ⟨m, hm, hm0, hle⟩ := one_dim_proj (V3.normSq (p1 - p0)) (V3.dot (p1 - p0) b.vects.r0) (V3.normSq b.vects.r0)
      (normSq_nonneg _) (by linarith) n1
    have hadm : Shift.admissible (m, 0, 0) true false false :=
      ⟨hm, Or.inr (Or.inl rfl), Or.inr (Or.inl rfl), (fun h => absurd h (by decide)), fun _ => rfl, fun _ => rfl⟩
    have hmin := dvect_min27 b.vects true false false p0 p1 (m, 0, 0) hadm
    have e : ∀ k : Int, V3.normSq ((p1 - p0) + latticeVec b.vects (k, 0, 0))
        = V3.normSq (p1 - p0) + 2 * (k : K) * V3.dot (p1 - p0) b.vects.r0 + (k : K)^2 * V3.normSq b.vects.r0 := by
      intro k; simp only [V3.normSq, V3.dot, latticeVec, M3.vecMul, add_x, add_y, add_z]; push_cast; ring
    rw [e] at hmin ⊢
    linarith
  · subst hx hy hz
    have e1 : n1 = 0 := hn.1 rfl
    have e3 : n3 = 0 := hn.2.2 rfl
    subst e1 e3
    have hD : V3.dot (p1 - p0) b.vects.r1
        = sy * V3.normSq b.vects.r1 + sx * V3.dot b.vects.r1 b.vects.r0 + sz * V3.dot b.vects.r1 b.vects.r2 := by
      conv_lhs => rw [hdec]
      simp only [V3.normSq, V3.dot, M3.vecMul]; ring
    have hb := abs3_le sy sx sz (V3.dot b.vects.r1 b.vects.r0) (V3.dot b.vects.r1 b.vects.r2) (V3.normSq b.vects.r1) ay ax az (normSq_nonneg b.vects.r1)
    rw [← hD] at hb
    obtain ⟨m, hm, hm0, hle⟩ := one_dim_proj (V3.normSq (p1 - p0)) (V3.dot (p1 - p0) b.vects.r1) (V3.normSq b.vects.r1)
      (normSq_nonneg _) (by linarith) n2
    have hadm : Shift.admissible (0, m, 0) false true false :=
      ⟨Or.inr (Or.inl rfl), hm, Or.inr (Or.inl rfl), fun _ => rfl, (fun h => absurd h (by decide)), fun _ => rfl⟩
    have hmin := dvect_min27 b.vects false true false p0 p1 (0, m, 0) hadm
    have e : ∀ k : Int, V3.normSq ((p1 - p0) + latticeVec b.vects (0, k, 0))
        = V3.normSq (p1 - p0) + 2 * (k : K) * V3.dot (p1 - p0) b.vects.r1 + (k : K)^2 * V3.normSq b.vects.r1 := by
      intro k; simp only [V3.normSq, V3.dot, latticeVec, M3.vecMul, add_x, add_y, add_z]; push_cast; ring
    rw [e] at hmin ⊢
    linarith
  · subst hx hy hz
    have e1 : n1 = 0 := hn.1 rfl
    have e2 : n2 = 0 := hn.2.1 rfl
    subst e1 e2
    have hD : V3.dot (p1 - p0) b.vects.r2
        = sz * V3.normSq b.vects.r2 + sx * V3.dot b.vects.r2 b.vects.r0 + sy * V3.dot b.vects.r2 b.vects.r1 := by
      conv_lhs => rw [hdec]
      simp only [V3.normSq, V3.dot, M3.vecMul]; ring
    have hb := abs3_le sz sx sy (V3.dot b.vects.r2 b.vects.r0) (V3.dot b.vects.r2 b.vects.r1) (V3.normSq b.vects.r2) az ax ay (normSq_nonneg b.vects.r2)
    rw [← hD] at hb
    obtain ⟨m, hm, hm0, hle⟩ := one_dim_proj (V3.normSq (p1 - p0)) (V3.dot (p1 - p0) b.vects.r2) (V3.normSq b.vects.r2)
      (normSq_nonneg _) (by linarith) n3
    have hadm : Shift.admissible (0, 0, m) false false true :=
      ⟨Or.inr (Or.inl rfl), Or.inr (Or.inl rfl), hm, fun _ => rfl, fun _ => rfl, (fun h => absurd h (by decide))⟩
    have hmin := dvect_min27 b.vects false false true p0 p1 (0, 0, m) hadm
    have e : ∀ k : Int, V3.normSq ((p1 - p0) + latticeVec b.vects (0, 0, k))
        = V3.normSq (p1 - p0) + 2 * (k : K) * V3.dot (p1 - p0) b.vects.r2 + (k : K)^2 * V3.normSq b.vects.r2 := by
      intro k; simp only [V3.normSq, V3.dot, latticeVec, M3.vecMul, add_x, add_y, add_z]; push_cast; ring
    rw [e] at hmin ⊢
    linarith

/-- … and the bound is SHARP: `a = (4,0,0)`, `b = (1,4,0)`, `c = (3/2,0,4)` is within the LAMMPS tilt limits axis by axis
    (`|xy| = 1`, `|xz| = 3/2 ≤ 2`) but `|xy| + |xz| = 5/2 > lx/2`; only `a` periodic; both points in the cell; the search
    returns the image through `n = (-1,0,0)` (`|·|² = 153/4`), the one through `n = (-2,0,0)` has `137/4`. -/
theorem one_axis_condition_needed :
    let b : Box ℚ := ⟨⟨⟨4, 0, 0⟩, ⟨1, 4, 0⟩, ⟨3/2, 0, 4⟩⟩, ⟨0, 0, 0⟩⟩
    let p0 : V3 ℚ := ⟨0, 0, 0⟩
    let p1 : V3 ℚ := ⟨13/2, 4, 4⟩
    withinTiltLimits b ∧ M3.det b.vects ≠ 0 ∧ InCell b p0 ∧ InCell b p1 ∧
    ¬ (2 * (|V3.dot b.vects.r0 b.vects.r1| + |V3.dot b.vects.r0 b.vects.r2|) ≤ V3.normSq b.vects.r0) ∧
    Shift.respects (-2, 0, 0) true false false ∧
    V3.normSq ((p1 - p0) + latticeVec b.vects (-2, 0, 0)) < V3.normSq (dvect b.vects true false false p0 p1) := by
  decide +kernel

end Atomman.C02
