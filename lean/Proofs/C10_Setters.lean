/-
  C10_Setters — the near-zero clean-up of the `Box.vects` and `ElasticConstants.Cij` setters is idempotent: objects
  that were built through the setters satisfy the invariants the exact round-trip theorems assume.
-/
import Proofs.C10_Xml
namespace Atomman.C10
set_option linter.unusedSimpArgs false
set_option linter.unusedVariables false
set_option linter.unusedSectionVars false
variable {K : Type} [Field K] [LinearOrder K] [IsStrictOrderedRing K]

theorem absK_eq (x : K) : absK x = |x| := by
  unfold absK; split
  · rename_i h; exact (abs_of_neg h).symm
  · rename_i h; exact (abs_of_nonneg (not_lt.mp h)).symm

theorem maxK_eq (a b : K) : maxK a b = max a b := by
  unfold maxK; split
  · rename_i h; exact (max_eq_right (le_of_lt h)).symm
  · rename_i h; exact (max_eq_left (not_lt.mp h)).symm

theorem foldl_maxK_ge (l : List K) (a : K) : a ≤ l.foldl maxK a ∧ ∀ v ∈ l, v ≤ l.foldl maxK a := by
  induction l generalizing a with
  | nil => simp
  | cons x l ih =>
    simp only [List.foldl_cons, maxK_eq]
    obtain ⟨h1, h2⟩ := ih (max a x)
    refine ⟨le_trans (le_max_left a x) h1, ?_⟩
    intro v hv
    rcases List.mem_cons.mp hv with rfl | hv
    · exact le_trans (le_max_right a v) h1
    · exact h2 v hv

theorem foldl_maxK_mem (l : List K) (a : K) : l.foldl maxK a = a ∨ l.foldl maxK a ∈ l := by
  induction l generalizing a with
  | nil => simp
  | cons x l ih =>
    simp only [List.foldl_cons, maxK_eq]
    rcases ih (max a x) with h | h
    · rcases max_choice a x with h' | h'
      · left; rw [h, h']
      · right; rw [h, h']; simp
    · right; simp [h]

/-- second pass of the near-zero clean-up with the same reference magnitude changes nothing. -/
theorem zeroSmall_idem (eps mx : K) (heps : 0 ≤ eps) (l : List K) :
    zeroSmall eps mx (zeroSmall eps mx l) = zeroSmall eps mx l := by
  simp only [zeroSmall, List.map_map]
  apply List.map_congr_left
  intro v _
  simp only [Function.comp]
  by_cases h : eps < absK (v / mx)
  · simp [h]
  · have : ¬ eps < absK ((0 : K) / mx) := by simp [absK_eq, not_lt.mpr heps]
    simp [h, this]


theorem foldl_maxK_eq_of (l : List K) (a M : K) (h1 : a ≤ M) (h2 : ∀ v ∈ l, v ≤ M) (h3 : M = a ∨ M ∈ l) :
    l.foldl maxK a = M := by
  apply le_antisymm
  · rcases foldl_maxK_mem l a with h | h
    · rw [h]; exact h1
    · exact h2 _ h
  · obtain ⟨g1, g2⟩ := foldl_maxK_ge l a
    rcases h3 with rfl | h3
    · exact g1
    · exact g2 M h3

/-- the largest magnitude of a list is unchanged by zeroing the entries that are negligible against it. -/
theorem maxAbs_zeroSmall (eps : K) (heps : eps < 1) (l : List K) :
    ((zeroSmall eps ((l.map absK).foldl maxK 0) l).map absK).foldl maxK 0 = (l.map absK).foldl maxK 0 := by
  set mx := (l.map absK).foldl maxK 0 with hmx
  obtain ⟨g1, g2⟩ := foldl_maxK_ge (l.map absK) 0
  rw [← hmx] at g1 g2
  apply foldl_maxK_eq_of _ _ _ g1
  · intro w hw
    obtain ⟨c, hc, rfl⟩ := List.mem_map.mp hw
    simp only [zeroSmall] at hc
    obtain ⟨v, hv, rfl⟩ := List.mem_map.mp hc
    split
    · exact g2 _ (List.mem_map_of_mem hv)
    · simpa [absK_eq] using g1
  · rcases foldl_maxK_mem (l.map absK) 0 with h | h
    · left; rw [hmx, h]
    · rw [← hmx] at h
      by_cases h0 : mx = 0
      · left; exact h0
      · right
        obtain ⟨v, hv, hvm⟩ := List.mem_map.mp h
        refine List.mem_map.mpr ⟨v, ?_, hvm⟩
        simp only [zeroSmall]
        refine List.mem_map.mpr ⟨v, hv, ?_⟩
        have : absK (v / mx) = 1 := by
          rw [absK_eq, abs_div, ← absK_eq v, hvm, abs_of_nonneg g1, div_self h0]
        simp [this, heps]

theorem m3_toList_inj (a b : M3 K) (h : a.toList = b.toList) : a = b := by
  obtain ⟨⟨a1, a2, a3⟩, ⟨a4, a5, a6⟩, ⟨a7, a8, a9⟩⟩ := a
  obtain ⟨⟨b1, b2, b3⟩, ⟨b4, b5, b6⟩, ⟨b7, b8, b9⟩⟩ := b
  simp [M3.toList, V3.toList] at h
  simp [h]

def maxAbs9 (m : M3 K) : K := (m.toList.map absK).foldl maxK 0

theorem cleanVects_eq (eps : K) (m : M3 K) :
    cleanVects eps m = mapM3 (fun v => if eps < absK (v / maxAbs9 m) then v else 0) m ∧
    (cleanVects eps m).toList = zeroSmall eps (maxAbs9 m) m.toList := by
  obtain ⟨⟨a, b, c⟩, ⟨d, e, f⟩, ⟨g, h, i⟩⟩ := m
  constructor <;>
  simp [cleanVects, maxAbs9, M3.toList, V3.toList, zeroSmall, M3.ofList?, mapM3, V3.map]

/-- **the `vects` setter is idempotent** (`0 ≤ eps < 1`): a `Box`'s vectors, having gone through the setter, satisfy
    the invariant `cleanVects eps vects = vects` that the exact round-trip theorems assume. -/
theorem cleanVects_idem (eps : K) (h0 : 0 ≤ eps) (h1 : eps < 1) (m : M3 K) :
    cleanVects eps (cleanVects eps m) = cleanVects eps m := by
  obtain ⟨e1, e2⟩ := cleanVects_eq eps m
  obtain ⟨e3, e4⟩ := cleanVects_eq eps (cleanVects eps m)
  have hmx : maxAbs9 (cleanVects eps m) = maxAbs9 m := by
    unfold maxAbs9
    rw [e2]
    exact maxAbs_zeroSmall eps h1 m.toList
  apply m3_toList_inj
  rw [e4, hmx, e2, zeroSmall_idem eps _ h0]

theorem max_zeroSmall (eps : K) (heps : eps < 1) (x : K) (r : List K) (hpos : 0 < r.foldl maxK x) :
    (zeroSmall eps (r.foldl maxK x) r).foldl maxK (if eps < absK (x / r.foldl maxK x) then x else 0) = r.foldl maxK x := by
  set mx := r.foldl maxK x with hmx
  obtain ⟨g1, g2⟩ := foldl_maxK_ge r x
  rw [← hmx] at g1 g2
  have hself : (if eps < absK (mx / mx) then mx else 0) = mx := by
    simp [div_self (ne_of_gt hpos), absK_eq, heps]
  apply foldl_maxK_eq_of
  · split
    · exact g1
    · exact le_of_lt hpos
  · intro w hw
    simp only [zeroSmall] at hw
    obtain ⟨v, hv, rfl⟩ := List.mem_map.mp hw
    split
    · exact g2 v hv
    · exact le_of_lt hpos
  · rcases foldl_maxK_mem r x with h | h
    · left; rw [← hmx] at h; rw [← h, hself]
    · right
      rw [← hmx] at h
      simp only [zeroSmall]
      exact List.mem_map.mpr ⟨mx, h, hself⟩

/-- **the `Cij` setter is idempotent** (`0 ≤ eps < 1`): constants that went through the setter pass it unchanged —
    the invariant the exact ElasticConstants round trip assumes. -/
theorem cijSet_idem (eps atol rtol : K) (h0 : 0 ≤ eps) (h1 : eps < 1) (l c : List K)
    (h : cijSet eps atol rtol l = some c) : cijSet eps atol rtol c = some c := by
  cases l with
  | nil => simp [cijSet] at h
  | cons x r =>
    simp only [cijSet] at h
    split at h
    · cases h
    · rename_i hlen
      split at h
      · cases h
      · rename_i hpos
        simp only [not_not] at hpos
        split at h
        · rename_i hok
          simp only [Option.some.injEq] at h
          have hc : c = (if eps < absK (x / r.foldl maxK x) then x else 0) :: zeroSmall eps (r.foldl maxK x) r := by
            rw [← h]; simp [zeroSmall]
          have hmx := max_zeroSmall eps h1 x r hpos
          have hlen' : c.length = 36 := by rw [← h]; simpa [zeroSmall] using hlen
          have hidem : zeroSmall eps (r.foldl maxK x) c = c := by
            rw [← h]; exact zeroSmall_idem eps _ h0 _
          rw [hc] at hlen' hidem ⊢
          simp only [cijSet, hlen', hmx, hpos, hidem, ne_eq, not_true_eq_false, if_false, not_not, if_true]
          rw [← hc, ← h]
          simp only [hok, if_true]
        · cases h


theorem cijSet_length (eps atol rtol : K) (l c : List K) (h : cijSet eps atol rtol l = some c) : c.length = 36 := by
  cases l with
  | nil => simp [cijSet] at h
  | cons x r =>
    simp only [cijSet] at h
    split at h
    · cases h
    · rename_i hlen
      split at h
      · cases h
      · split at h
        · simp only [Option.some.injEq] at h
          rw [← h]; simpa [zeroSmall] using hlen
        · cases h
end Atomman.C10
