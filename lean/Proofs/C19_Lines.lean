/-
  C19 — from the text of a log to its lines (`splitLines`, Atomman/C19.lean): a line ends at `\n` and nowhere else.
  `str.splitlines()` would also break at `\x0b \x0c \x1c \x1d \x1e U+0085 U+2028 U+2029` (and at a lone `\r`); the byte
  stream `Log.read` iterates over, LAMMPS, and pandas do not, and neither does the model: the number of lines of a text
  is the number of its `\n` plus one, a text without `\n` is one line whatever else it holds, and a text written line by
  line is read back line by line.
-/
import Proofs.C19_Lemmas
set_option linter.unusedSimpArgs false
set_option linter.unusedVariables false
namespace Atomman.C19
open List

theorem splitOnChar_ne_nil (d : Char) (t : Str) : splitOnChar d t ≠ [] := by
  induction t with
  | nil => simp [splitOnChar]
  | cons c cs ih =>
    unfold splitOnChar
    split
    · simp
    · split <;> simp

/-- a text without the separator is one piece. -/
theorem splitOnChar_not_mem (d : Char) (t : Str) (h : d ∉ t) : splitOnChar d t = [t] := by
  induction t with
  | nil => simp [splitOnChar]
  | cons c cs ih =>
    have hc : c ≠ d := fun e => h (by simp [e])
    have hcs : d ∉ cs := fun e => h (by simp [e])
    unfold splitOnChar
    rw [ih hcs]
    simp [hc]

/-- the first separator ends the first piece. -/
theorem splitOnChar_append_sep (d : Char) (a b : Str) (h : d ∉ a) :
    splitOnChar d (a ++ d :: b) = a :: splitOnChar d b := by
  induction a with
  | nil =>
    simp only [List.nil_append]
    rw [splitOnChar]
    cases hb : splitOnChar d b with
    | nil => exact absurd hb (splitOnChar_ne_nil d b)
    | cons t ts => simp
  | cons c cs ih =>
    have hc : c ≠ d := fun e => h (by simp [e])
    have hcs : d ∉ cs := fun e => h (by simp [e])
    simp only [List.cons_append]
    rw [splitOnChar, ih hcs]
    simp [hc]

/-- one piece more than there are separators. -/
theorem splitOnChar_length (d : Char) (t : Str) : (splitOnChar d t).length = t.count d + 1 := by
  induction t with
  | nil => simp [splitOnChar]
  | cons c cs ih =>
    rw [splitOnChar]
    cases hb : splitOnChar d cs with
    | nil => exact absurd hb (splitOnChar_ne_nil d cs)
    | cons t ts =>
      rw [hb] at ih
      by_cases hc : c = d
      · subst hc; simp at ih ⊢; omega
      · have : (c == d) = false := by simp [hc]
        simp [this, List.count_cons, hc] at ih ⊢; omega

/-- **a line ends at `\n` and nowhere else**: the number of lines of a text is the number of its `\n` plus one — no other
    character (`\x0b \x0c \x1c \x1d \x1e U+0085 U+2028 U+2029`, a lone `\r`, …) starts a new line. -/
theorem splitLines_length (t : Str) : (splitLines t).length = t.count '\n' + 1 :=
  splitOnChar_length '\n' t

/-- a text without `\n` is ONE line, whatever else it holds. -/
theorem splitLines_one_line (t : Str) (h : '\n' ∉ t) : splitLines t = [t] :=
  splitOnChar_not_mem '\n' t h

/-- a text written line by line (no `\n` inside a line) is read back line by line; the lines keep every other character,
    in particular the `\r` of a `\r\n` ending. -/
theorem splitLines_joinLines (ls : List Str) (hne : ls ≠ []) (h : ∀ l ∈ ls, '\n' ∉ l) :
    splitLines (joinLines ls) = ls := by
  induction ls with
  | nil => exact absurd rfl hne
  | cons l rest ih =>
    cases rest with
    | nil => simpa [joinLines, splitLines] using splitOnChar_not_mem '\n' l (h l (by simp))
    | cons l' rest' =>
      have hl : '\n' ∉ l := h l (by simp)
      have := ih (by simp) (fun x hx => h x (by simp [hx]))
      simp only [joinLines, splitLines] at this ⊢
      rw [splitOnChar_append_sep '\n' l _ hl, this]

/-- `Log.read` of the text = the model's `readLog` of its lines. -/
theorem readText_joinLines (st : LogState) (app : Bool) (ls : List Str) (hne : ls ≠ []) (h : ∀ l ∈ ls, '\n' ∉ l) :
    readText st app (joinLines ls) = readLog st app ls := by
  simp only [readText, splitLines_joinLines ls hne h]

/-- the characters `str.splitlines()` breaks at do not break a line: an echoed comment with a form feed, a vertical tab,
    the separators `\x1c \x1d \x1e`, NEL, LINE SEPARATOR, PARAGRAPH SEPARATOR is one line, and it is not blank. -/
example : splitLines "# melt\x0c part 1\nStep Temp\n".toList = ["# melt\x0c part 1".toList, "Step Temp".toList, []] := by
  decide
example : splitLines "# a\x0bb\x1cc\x1dd\x1ee\u0085f g h".toList = ["# a\x0bb\x1cc\x1dd\x1ee\u0085f g h".toList] := by
  decide
example : splitLines "print \"x\u2028y\u2029z\"\nLoop".toList = ["print \"x\u2028y\u2029z\"".toList, "Loop".toList] := by
  decide
example : isBlank "# a\x0bb\x1cc\x1dd\x1ee\u0085f g h".toList = false := by decide
/-- `\r\n`: the `\r` stays on the line (white space there), a lone `\r` inside a line does not end it. -/
example : splitLines "Step Temp\r\n0 1.5\r\n".toList = ["Step Temp\r".toList, "0 1.5\r".toList, []] := by decide
example : splitWs "0 1.5\r".toList = ["0".toList, "1.5".toList] := by decide
example : splitLines "progress 10%\rprogress 20%".toList = ["progress 10%\rprogress 20%".toList] := by decide

end Atomman.C19
