/-
  C01 — the Box *object* (cell + lazily computed, cached reciprocal vectors) against the bare cell.

  `Atomman/C01.lean` models `atomman.Box` twice: `CBox` with `__reciprocal_vects` as the code has it
  (filled on first read, emptied by the `vects` setter through which every cell-defining setter goes,
  untouched by the `origin` setter) and the cache-free meaning of each call (`stepPlain`).  Here: the
  invariant "what is cached is the inverse-transpose of the current vectors" holds after every call,
  and therefore no interleaving of setters and reads can observe the cache (`obj_run_refines`).
  Purely structural: holds for every field `K`.
-/
import Proofs.C01_Lemmas
import Mathlib.Tactic.NormNum

namespace Atomman.C01
open Atomman
set_option linter.unusedSimpArgs false
set_option linter.unusedSectionVars false
set_option linter.unusedVariables false

variable {K : Type} [Field K] [LinearOrder K] [IsStrictOrderedRing K]

/-- the fresh object is coherent (nothing cached). -/
theorem fresh_coherent : (CBox.fresh : CBox K).Coherent := by
  intro r h; simp [CBox.fresh] at h

/-- a setter leaves a coherent object: everything that assigns `vects` empties the cache, and the
    `origin` setter does not touch the vectors. -/
theorem obj_set_coherent (thr : K) (c : CBox K) (hc : c.Coherent) (s : SetOp K) :
    (c.set thr s).1.Coherent := by
  unfold CBox.set
  cases hs : s.apply? thr c.box with
  | none => simpa using hc
  | some b' =>
    cases s with
    | attrOrigin o =>
      simp only [SetOp.apply?, Option.some.injEq] at hs
      subst hs
      intro r hr
      simpa [SetOp.writesVects, setOriginAttr, Box.recip] using hc r (by simpa [SetOp.writesVects] using hr)
    | _ => intro r hr; simp [SetOp.writesVects] at hr

/-- a read leaves a coherent object. -/
theorem obj_read_coherent (c : CBox K) (hc : c.Coherent) (r : ReadOp K) : (c.read r).1.Coherent := by
  have key : ∀ m c', c.recip? = some (m, c') → c'.Coherent := by
    intro m c' h
    unfold CBox.recip? at h
    cases hcache : c.cache with
    | some r0 =>
      simp only [hcache, Option.some.injEq, Prod.mk.injEq] at h
      rw [← h.2]; exact hc
    | none =>
      simp only [hcache] at h
      split at h
      · cases h
      · rename_i hdet
        simp only [Option.some.injEq, Prod.mk.injEq] at h
        rw [← h.2]
        intro r' hr'
        simp only [Option.some.injEq] at hr'
        exact ⟨hdet, hr'.symm⟩
  cases r with
  | recip =>
    unfold CBox.read
    cases h : c.recip? with
    | none => simpa using hc
    | some mc => obtain ⟨m, c'⟩ := mc; simpa using key m c' h
  | c2r p =>
    unfold CBox.read
    cases h : c.recip? with
    | none => simpa using hc
    | some mc => obtain ⟨m, c'⟩ := mc; simpa using key m c' h
  | r2c s => simpa [CBox.read] using hc
  | inside lam p incl => simpa [CBox.read] using hc
  | outside lam p incl => simpa [CBox.read] using hc

theorem obj_step_coherent (thr : K) (c : CBox K) (hc : c.Coherent) (op : Op K) :
    (c.step thr op).1.Coherent := by
  cases op with
  | set s => exact obj_set_coherent thr c hc s
  | read r => exact obj_read_coherent c hc r

/-- on a coherent object `reciprocal_vects` is the inverse-transpose of the current vectors, cached
    or not, and reading it does not change the cell. -/
theorem obj_recip_eq (c : CBox K) (hc : c.Coherent) :
    (c.box.vects.det = 0 → c.recip? = none) ∧
    (c.box.vects.det ≠ 0 → ∃ c', c.recip? = some (c.box.recip, c') ∧ c'.box = c.box) := by
  unfold CBox.recip?
  cases hcache : c.cache with
  | some r0 =>
    obtain ⟨hd, hr⟩ := hc r0 hcache
    exact ⟨fun h => absurd h hd, fun _ => ⟨c, by simp [hr], rfl⟩⟩
  | none =>
    refine ⟨fun h => by simp [h], fun h => ⟨⟨c.box, some c.box.recip⟩, by simp [h], rfl⟩⟩

/-- one call: the object with its cache and the bare cell report the same and stay the same cell. -/
theorem obj_step_refines (thr : K) (c : CBox K) (hc : c.Coherent) (op : Op K) :
    (c.step thr op).1.box = (stepPlain thr c.box op).1 ∧ (c.step thr op).2 = (stepPlain thr c.box op).2 := by
  cases op with
  | set s =>
    simp only [CBox.step, stepPlain, CBox.set]
    cases s.apply? thr c.box <;> simp
  | read r =>
    obtain ⟨h0, h1⟩ := obj_recip_eq c hc
    cases r with
    | recip =>
      simp only [CBox.step, stepPlain, CBox.read, ReadOp.eval]
      by_cases hd : c.box.vects.det = 0
      · simp [h0 hd, hd]
      · obtain ⟨c', hc', hb⟩ := h1 hd
        simp [hc', hd, hb]
    | c2r p =>
      simp only [CBox.step, stepPlain, CBox.read, ReadOp.eval]
      by_cases hd : c.box.vects.det = 0
      · simp [h0 hd, hd]
      · obtain ⟨c', hc', hb⟩ := h1 hd
        simp [hc', hd, hb, Box.cartToRel]
    | r2c s => simp [CBox.step, stepPlain, CBox.read, ReadOp.eval]
    | inside lam p incl => simp [CBox.step, stepPlain, CBox.read, ReadOp.eval]
    | outside lam p incl => simp [CBox.step, stepPlain, CBox.read, ReadOp.eval]

/-- every call sequence: what the object reports is what the bare cells report — the cache is never
    observable, however the setters and reads are interleaved. -/
theorem obj_run_refines (thr : K) (ops : List (Op K)) (c : CBox K) (hc : c.Coherent) :
    c.run thr ops = runPlain thr c.box ops := by
  induction ops generalizing c with
  | nil => rfl
  | cons op ops ih =>
    obtain ⟨hb, ho⟩ := obj_step_refines thr c hc op
    simp only [CBox.run, runPlain]
    rw [ho, ih _ (obj_step_coherent thr c hc op), hb]

/-- from `Box()` on. -/
theorem obj_run_refines_fresh (thr : K) (ops : List (Op K)) :
    (CBox.fresh : CBox K).run thr ops = runPlain thr (CBox.fresh : CBox K).box ops :=
  obj_run_refines thr ops _ fresh_coherent

/-- after any call sequence from `Box()`, whatever is cached is the inverse-transpose of the
    current vectors. -/
theorem obj_after_coherent (thr : K) (ops : List (Op K)) (c : CBox K) (hc : c.Coherent) :
    (c.after thr ops).Coherent := by
  induction ops generalizing c with
  | nil => exact hc
  | cons op ops ih => exact ih _ (obj_step_coherent thr c hc op)

/-- non-vacuity: a coherent object with a warm cache and a non-trivial cell. -/
example : ∃ c : CBox ℚ, c.Coherent ∧ c.cache ≠ none ∧ c.box.vects ≠ M3.one :=
  ⟨⟨⟨⟨⟨2, 0, 0⟩, ⟨1, 3, 0⟩, ⟨0, 1, 4⟩⟩, ⟨1, 2, 3⟩⟩, some (Box.recip ⟨⟨⟨2, 0, 0⟩, ⟨1, 3, 0⟩, ⟨0, 1, 4⟩⟩, ⟨1, 2, 3⟩⟩)⟩,
    by intro r h; simp only [Option.some.injEq] at h; exact ⟨by decide +kernel, h.symm⟩,
    by simp, by decide⟩

/-- the hypothesis is needed: an object whose cache survived a change of the vectors (what a setter
    that forgets — or, for a small change, declines — to drop the cache leaves behind) reports
    reciprocal vectors that are not those of its cell. -/
example : ∃ (c : CBox ℚ), ¬ c.Coherent ∧ (c.read .recip).2 ≠ (ReadOp.recip : ReadOp ℚ).eval c.box :=
  ⟨⟨⟨⟨⟨2, 0, 0⟩, ⟨0, 2, 0⟩, ⟨0, 0, 2⟩⟩, ⟨0, 0, 0⟩⟩, some M3.one⟩,
    by intro h; have := (h M3.one rfl).2; revert this; decide +kernel,
    by decide +kernel⟩

end Atomman.C01
