/-
  C07 — helper lemmas: the column list of EVERY atom_style the writer accepts (hybrids of any length included)
  names each per-atom property at most once, and the hand-written hybrid composition `hybridCols` reproduces the
  lists the real `atoms_prop_info` / `velocities_prop_info` return (regenerated on every run).

  Why this matters: the table writer converts units once per entry of the column list but keys the written columns
  by property name, so a property listed twice would be written once, converted twice.
-/
import Proofs.C07_Layout

namespace Atomman.C07
open Atomman
set_option linter.unusedSimpArgs false
set_option linter.unusedVariables false

def propsOf (cols : List ColSpec) : List String := cols.map (·.prop)

theorem propsOf_append (a b : List ColSpec) : propsOf (a ++ b) = propsOf a ++ propsOf b := by
  simp [propsOf]

theorem mem_propsOf {cols : List ColSpec} {p : String} : p ∈ propsOf cols ↔ ∃ c ∈ cols, c.prop = p := by
  simp [propsOf]

theorem nodup_filter_props (sc : List ColSpec) (q : ColSpec → Bool) (h : (propsOf sc).Nodup) :
    (propsOf (sc.filter q)).Nodup := by
  unfold propsOf at h ⊢
  exact List.Nodup.sublist (List.Sublist.map _ List.filter_sublist) h

/-- one step of the hybrid composition keeps "no property twice". -/
theorem nodup_step (acc sc : List ColSpec) (ha : (propsOf acc).Nodup) (hs : (propsOf sc).Nodup) :
    (propsOf (acc ++ sc.filter fun c => !(acc.any (·.prop = c.prop)))).Nodup := by
  rw [propsOf_append, List.nodup_append]
  refine ⟨ha, nodup_filter_props sc _ hs, ?_⟩
  intro a haa b hb hab
  subst hab
  obtain ⟨c1, hc1, h1⟩ := mem_propsOf.mp haa
  obtain ⟨c2, hc2, h2⟩ := mem_propsOf.mp hb
  have hf := (List.mem_filter.mp hc2).2
  have : acc.any (·.prop = c2.prop) = true := by
    rw [List.any_eq_true]
    exact ⟨c1, hc1, by simp [h1, h2]⟩
  rw [this] at hf
  cases hf

theorem hybrid_fold_nodup {tbl : List (String × List Gen.AtomStyles.Col)}
    (htbl : ∀ e ∈ tbl, (propsOf (e.2.map ofGenCol)).Nodup)
    (subs : List String) (acc cols : List ColSpec) (ha : (propsOf acc).Nodup)
    (h : subs.foldlM (fun acc sub => do
          let sc ← lookupStyle tbl sub
          pure (acc ++ sc.filter fun c => !(acc.any (·.prop = c.prop)))) acc = some cols) :
    (propsOf cols).Nodup := by
  induction subs generalizing acc with
  | nil =>
    simp only [List.foldlM_nil, pure, Option.some.injEq] at h
    subst h; exact ha
  | cons sub rest ih =>
    rw [List.foldlM_cons] at h
    cases hl : lookupStyle tbl sub with
    | none => rw [hl] at h; simp at h
    | some sc =>
      rw [hl] at h
      simp only [Option.bind_eq_bind, Option.bind_some, pure] at h
      obtain ⟨e, he, _, _, hsc⟩ := lookupStyle_some hl
      exact ih _ (nodup_step acc sc ha (by rw [hsc]; exact htbl e he)) h

/-- **no property twice**, for every column table whose base styles list no property twice: the columns of every
    accepted style — a base style or a hybrid of any number of sub-styles — name each property at most once. -/
theorem styleCols_props_nodup {tbl : List (String × List Gen.AtomStyles.Col)}
    (htbl : ∀ e ∈ tbl, (propsOf (e.2.map ofGenCol)).Nodup)
    (style : String) (cols : List ColSpec) (h : styleCols tbl style = some cols) : (propsOf cols).Nodup := by
  unfold styleCols at h
  generalize styleWords style = ws at h
  match ws with
  | [] => simp at h
  | w :: rest =>
    by_cases hw : w = "hybrid"
    · subst hw
      simp only [hybridCols] at h
      cases hb : lookupStyle tbl "atomic" with
      | none => rw [hb] at h; simp at h
      | some base =>
        rw [hb] at h
        simp only [Option.bind_eq_bind, Option.bind_some] at h
        obtain ⟨e, he, _, _, hbase⟩ := lookupStyle_some hb
        exact hybrid_fold_nodup htbl rest base cols (by rw [hbase]; exact htbl e he) h
    · cases rest with
      | nil =>
        have h : lookupStyle tbl w = some cols := by
          split at h
          · rename_i heq; injection heq with h1 _; exact absurd h1 hw
          · rename_i heq; injection heq with h1 _; rw [h1]; exact h
          · rename_i h1 h2; exact absurd rfl (h2 w)
        obtain ⟨e, he, _, _, hc⟩ := lookupStyle_some h
        rw [hc]; exact htbl e he
      | cons w2 r2 =>
        exfalso
        split at h
        · rename_i heq; injection heq with h1 _; exact hw h1
        · rename_i heq; injection heq with _ h2; cases h2
        · cases h

theorem atom_base_nodup : ∀ e ∈ Gen.AtomStyles.atomStyles, (propsOf (e.2.map ofGenCol)).Nodup := by
  decide +kernel

theorem vel_base_nodup : ∀ e ∈ Gen.AtomStyles.velStyles, (propsOf (e.2.map ofGenCol)).Nodup := by
  decide +kernel

end Atomman.C07
