/-
  C12 helper lemmas for covariance: rotating the whole problem (`C`, `m`, `n`, `b`, the modes' `A`, `L`, the field
  point) by a matrix `R` with `RᵀR = 1` rotates every intermediate quantity of the Stroh formalism.

  The 4-tensor rotation `rotC` is a nest of four single-index sums; the partial rotations `rotC1/2/3` name the
  inner levels so that each contraction with a rotated vector is one application of `orth_contract`
  (`Σᵢ (Rv)ᵢ (Σ_g R_ig X_g) = Σ_g v_g X_g`) and every `ring` call stays small.
-/
import Atomman.C12
import Mathlib.Tactic.Ring
import Mathlib.Tactic.LinearCombination
import Mathlib.Tactic.FinCases
import Mathlib.Algebra.Field.Basic
set_option linter.unusedSectionVars false
set_option linter.unusedSimpArgs false
set_option linter.unusedVariables false

namespace Atomman.C12
variable {F : Type} [Field F]

/-- `RᵀR = 1` -/
def Orth (R : Mat F) : Prop := ∀ a b, (sum3 fun i => R i a * R i b) = kron a b

theorem orth_entries {R : Mat F} (h : Orth R) :
    R 0 0 * R 0 0 + R 1 0 * R 1 0 + R 2 0 * R 2 0 = 1 ∧ R 0 1 * R 0 1 + R 1 1 * R 1 1 + R 2 1 * R 2 1 = 1
    ∧ R 0 2 * R 0 2 + R 1 2 * R 1 2 + R 2 2 * R 2 2 = 1 ∧ R 0 0 * R 0 1 + R 1 0 * R 1 1 + R 2 0 * R 2 1 = 0
    ∧ R 0 0 * R 0 2 + R 1 0 * R 1 2 + R 2 0 * R 2 2 = 0 ∧ R 0 1 * R 0 2 + R 1 1 * R 1 2 + R 2 1 * R 2 2 = 0 := by
  have h00 := h 0 0; have h11 := h 1 1; have h22 := h 2 2; have h01 := h 0 1; have h02 := h 0 2; have h12 := h 1 2
  simp [sum3, kron] at h00 h11 h22 h01 h02 h12
  exact ⟨h00, h11, h22, h01, h02, h12⟩

/-- contraction of a rotated vector with a rotated index: `Σᵢ (Rv)ᵢ (Σ_g R_ig X_g) = Σ_g v_g X_g`. -/
theorem orth_contract {R : Mat F} (h : Orth R) (v X : Vec F) :
    (sum3 fun i => rotVec R v i * sum3 fun g => R i g * X g) = sum3 fun g => v g * X g := by
  obtain ⟨h00, h11, h22, h01, h02, h12⟩ := orth_entries h
  simp only [sum3, rotVec, matVec]
  linear_combination (v 0 * X 0) * h00 + (v 1 * X 1) * h11 + (v 2 * X 2) * h22 + (v 0 * X 1 + v 1 * X 0) * h01
    + (v 0 * X 2 + v 2 * X 0) * h02 + (v 1 * X 2 + v 2 * X 1) * h12

theorem dot_rot {R : Mat F} (h : Orth R) (v w : Vec F) : dot (rotVec R v) (rotVec R w) = dot v w := by
  have := orth_contract h v w
  simpa [dot, rotVec, matVec] using this

/-! partial rotations of a 4-tensor (the nested sums of `rotC`, innermost first) -/
def rotC1 (R : Mat F) (C : Ten4 F) : Ten4 F := fun g h m l => sum3 fun n => R l n * C g h m n
def rotC2 (R : Mat F) (C : Ten4 F) : Ten4 F := fun g h k l => sum3 fun m => R k m * rotC1 R C g h m l
def rotC3 (R : Mat F) (C : Ten4 F) : Ten4 F := fun g j k l => sum3 fun h => R j h * rotC2 R C g h k l
theorem rotC_eq (R : Mat F) (C : Ten4 F) (i j k l : Fin 3) :
    rotC R C i j k l = sum3 fun g => R i g * rotC3 R C g j k l := rfl

/-- last index contracted with a rotated vector -/
theorem rotC1_contract {R : Mat F} (h : Orth R) (C : Ten4 F) (w : Vec F) (g h' m : Fin 3) :
    (sum3 fun l => rotC1 R C g h' m l * rotVec R w l) = sum3 fun n => C g h' m n * w n := by
  have := orth_contract h w (fun n => C g h' m n)
  simp only [sum3, rotC1] at this ⊢
  linear_combination this

/-- `einsum('i,ijkl,l')` of the rotated problem is the rotated matrix. -/
theorem contract_rot {R : Mat F} (h : Orth R) (C : Ten4 F) (a b : Vec F) (j k : Fin 3) :
    contract (rotVec R a) (rotC R C) (rotVec R b) j k = rotMat R (contract a C b) j k := by
  -- first index
  have A : ∀ l, (sum3 fun i => rotVec R a i * rotC R C i j k l) = sum3 fun g => a g * rotC3 R C g j k l := by
    intro l
    have := orth_contract h a (fun g => rotC3 R C g j k l)
    simpa [rotC_eq] using this
  -- last index
  have B : ∀ g, (sum3 fun l => rotC3 R C g j k l * rotVec R b l)
      = sum3 fun h' => R j h' * sum3 fun m => R k m * sum3 fun n => C g h' m n * b n := by
    intro g
    have c := rotC1_contract h C b g
    have c00 := c 0 0; have c01 := c 0 1; have c02 := c 0 2; have c10 := c 1 0; have c11 := c 1 1; have c12 := c 1 2
    have c20 := c 2 0; have c21 := c 2 1; have c22 := c 2 2
    simp only [sum3, rotC3, rotC2] at *
    linear_combination R j 0 * R k 0 * c00 + R j 0 * R k 1 * c01 + R j 0 * R k 2 * c02
      + R j 1 * R k 0 * c10 + R j 1 * R k 1 * c11 + R j 1 * R k 2 * c12
      + R j 2 * R k 0 * c20 + R j 2 * R k 1 * c21 + R j 2 * R k 2 * c22
  have A0 := A 0; have A1 := A 1; have A2 := A 2
  have B0 := B 0; have B1 := B 1; have B2 := B 2
  simp only [contract, rotMat, sum3] at *
  linear_combination rotVec R b 0 * A0 + rotVec R b 1 * A1 + rotVec R b 2 * A2 + a 0 * B0 + a 1 * B1 + a 2 * B2

/-! matrices and vectors -/
theorem rotVec_add (R : Mat F) (v w : Vec F) (i : Fin 3) :
    rotVec R (fun g => v g + w g) i = rotVec R v i + rotVec R w i := by
  simp only [rotVec, matVec, sum3]; ring
theorem rotVec_smul (R : Mat F) (c : F) (v : Vec F) (i : Fin 3) :
    rotVec R (fun g => c * v g) i = c * rotVec R v i := by
  simp only [rotVec, matVec, sum3]; ring

/-- `(R M Rᵀ)(R v) = R (M v)`, with the rotated matrix and vector given pointwise -/
theorem matVec_rot {R : Mat F} (h : Orth R) (M M' : Mat F) (v v' : Vec F)
    (hM : ∀ i j, M' i j = rotMat R M i j) (hv : ∀ i, v' i = rotVec R v i) (i : Fin 3) :
    matVec M' v' i = rotVec R (matVec M v) i := by
  have c0 := orth_contract h v (fun g => M 0 g)
  have c1 := orth_contract h v (fun g => M 1 g)
  have c2 := orth_contract h v (fun g => M 2 g)
  simp only [matVec, hM, hv, sum3, rotMat] at *
  simp only [rotVec, matVec, sum3] at *
  linear_combination R i 0 * c0 + R i 1 * c1 + R i 2 * c2

theorem rotMat_neg (R : Mat F) (M : Mat F) (i j : Fin 3) :
    -(rotMat R M i j) = rotMat R (fun a b => -(M a b)) i j := by
  simp only [rotMat, sum3]; ring
theorem rotMat_add (R : Mat F) (M N : Mat F) (i j : Fin 3) :
    rotMat R M i j + rotMat R N i j = rotMat R (fun a b => M a b + N a b) i j := by
  simp only [rotMat, sum3]; ring
theorem rotMat_smul (R : Mat F) (c : F) (M : Mat F) (i j : Fin 3) :
    c * rotMat R M i j = rotMat R (fun a b => c * M a b) i j := by
  simp only [rotMat, sum3]; ring

theorem matVec_matMul (M N : Mat F) (v : Vec F) (i : Fin 3) :
    matVec (matMul M N) v i = matVec M (matVec N v) i := by
  simp only [matVec, matMul, sum3]; ring

/-! the rotated problem -/
section setup
variable {R : Mat F} (h : Orth R) (s : Setup F)
include h

theorem mm_rot (i j : Fin 3) : (rotSetup R s).mm i j = rotMat R s.mm i j := contract_rot h s.C s.m s.m i j
theorem mn_rot (i j : Fin 3) : (rotSetup R s).mn i j = rotMat R s.mn i j := contract_rot h s.C s.m s.n i j
theorem nm_rot (i j : Fin 3) : (rotSetup R s).nm i j = rotMat R s.nm i j := contract_rot h s.C s.n s.m i j
theorem nn_rot (i j : Fin 3) : (rotSetup R s).nn i j = rotMat R s.nn i j := contract_rot h s.C s.n s.n i j

/-- the residual of the eigen equation of the rotated problem is the rotated residual (upper half). -/
theorem eigResTop_rot (nnInv : Mat F) (μ : Mode F) (i : Fin 3) :
    eigResTop (rotSetup R s) (rotMat R nnInv) (rotMode R μ) i = rotVec R (eigResTop s nnInv μ) i := by
  have hNB : ∀ i j, NB (rotMat R nnInv) i j = rotMat R (NB nnInv) i j := fun i j => rotMat_neg R nnInv i j
  have e1 : ∀ i, matVec (rotSetup R s).nm (rotMode R μ).A i = rotVec R (matVec s.nm μ.A) i :=
    matVec_rot h s.nm _ μ.A _ (nm_rot h s) (fun _ => rfl)
  have e2 : ∀ i, matVec (NB (rotMat R nnInv)) (matVec (rotSetup R s).nm (rotMode R μ).A) i
      = rotVec R (matVec (NB nnInv) (matVec s.nm μ.A)) i :=
    matVec_rot h (NB nnInv) _ (matVec s.nm μ.A) _ hNB e1
  have e3 : ∀ i, matVec (NB (rotMat R nnInv)) (rotMode R μ).L i = rotVec R (matVec (NB nnInv) μ.L) i :=
    matVec_rot h (NB nnInv) _ μ.L _ hNB (fun _ => rfl)
  simp only [eigResTop, NA, matVec_matMul, e2, e3]
  simp only [rotMode, rotVec, matVec, matMul, eigResTop, NA, sum3]
  ring

theorem eigResBot_rot (nnInv : Mat F) (μ : Mode F) (i : Fin 3) :
    eigResBot (rotSetup R s) (rotMat R nnInv) (rotMode R μ) i = rotVec R (eigResBot s nnInv μ) i := by
  have hNB : ∀ i j, NB (rotMat R nnInv) i j = rotMat R (NB nnInv) i j := fun i j => rotMat_neg R nnInv i j
  have e1 : ∀ i, matVec (rotSetup R s).nm (rotMode R μ).A i = rotVec R (matVec s.nm μ.A) i :=
    matVec_rot h s.nm _ μ.A _ (nm_rot h s) (fun _ => rfl)
  have e2 : ∀ i, matVec (NB (rotMat R nnInv)) (matVec (rotSetup R s).nm (rotMode R μ).A) i
      = rotVec R (matVec (NB nnInv) (matVec s.nm μ.A)) i :=
    matVec_rot h (NB nnInv) _ (matVec s.nm μ.A) _ hNB e1
  have e3 : ∀ i, matVec (NB (rotMat R nnInv)) (rotMode R μ).L i = rotVec R (matVec (NB nnInv) μ.L) i :=
    matVec_rot h (NB nnInv) _ μ.L _ hNB (fun _ => rfl)
  have e4 : ∀ i, matVec (rotSetup R s).mn (matVec (NB (rotMat R nnInv)) (matVec (rotSetup R s).nm (rotMode R μ).A)) i
      = rotVec R (matVec s.mn (matVec (NB nnInv) (matVec s.nm μ.A))) i :=
    matVec_rot h s.mn _ _ _ (mn_rot h s) e2
  have e5 : ∀ i, matVec (rotSetup R s).mn (matVec (NB (rotMat R nnInv)) (rotMode R μ).L) i
      = rotVec R (matVec s.mn (matVec (NB nnInv) μ.L)) i :=
    matVec_rot h s.mn _ _ _ (mn_rot h s) e3
  have e6 : ∀ i, matVec (rotSetup R s).mm (rotMode R μ).A i = rotVec R (matVec s.mm μ.A) i :=
    matVec_rot h s.mm _ μ.A _ (mm_rot h s) (fun _ => rfl)
  have split : ∀ (t : Setup F) (ni : Mat F) (ν : Mode F) (i : Fin 3), eigResBot t ni ν i
      = matVec t.mn (matVec (NB ni) (matVec t.nm ν.A)) i + matVec t.mm ν.A i
        + matVec t.mn (matVec (NB ni) ν.L) i - ν.p * ν.L i := by
    intro t ni ν i
    simp only [eigResBot, NC, ND, NA, matVec, matMul, sum3]; ring
  rw [split, e4, e5, e6]
  simp only [rotVec, matVec, sum3, split, rotMode]
  ring

theorem kOf_rot (μ : Mode F) : kOf (rotMode R μ) = kOf μ := by
  simp only [kOf, rotMode, dot_rot h]

theorem mpn_rot (μ : Mode F) (i : Fin 3) : mpn (rotSetup R s) (rotMode R μ) i = rotVec R (mpn s μ) i := by
  simp only [mpn, rotSetup, rotMode, rotVec, matVec, sum3]; ring

theorem eta_rot (μ : Mode F) (x : Vec F) : eta (rotSetup R s) (rotMode R μ) (rotVec R x) = eta s μ x := by
  simp only [eta, rotSetup, rotMode, dot_rot h]

theorem kLb_rot (μ : Fin 6 → Mode F) (k : Fin 6 → F) (a : Fin 6) :
    kLb (rotSetup R s) (fun a => rotMode R (μ a)) k a = kLb s μ k a := by
  simp only [kLb, rotSetup, rotMode, dot_rot h]

theorem dispCoef_rot (pi I : F) (μ : Fin 6 → Mode F) (k : Fin 6 → F) (a : Fin 6) (i : Fin 3) :
    dispCoef pi I (rotSetup R s) (fun a => rotMode R (μ a)) k a i = rotVec R (dispCoef pi I s μ k a) i := by
  simp only [dispCoef, kLb_rot h s μ k a]
  simp only [rotMode, rotVec, matVec, sum3, dispCoef]
  ring

theorem strainCoef_rot (pi I : F) (μ : Fin 6 → Mode F) (k : Fin 6 → F) (a : Fin 6) (i j : Fin 3) :
    strainCoef pi I (rotSetup R s) (fun a => rotMode R (μ a)) k a i j = rotMat R (strainCoef pi I s μ k a) i j := by
  simp only [strainCoef, kLb_rot h s μ k a, mpn_rot h s]
  simp only [rotMode, rotVec, matVec, rotMat, sum3, strainCoef]
  ring

/-- last two indices of the rotated tensor contracted with rotated vectors -/
theorem rotC2_contract (C : Ten4 F) (v w : Vec F) (g h' : Fin 3) :
    (sum3 fun k => sum3 fun l => rotC2 R C g h' k l * (rotVec R w l * rotVec R v k))
      = sum3 fun m => sum3 fun n => C g h' m n * (w n * v m) := by
  have c0 := rotC1_contract h C w g h' 0
  have c1 := rotC1_contract h C w g h' 1
  have c2 := rotC1_contract h C w g h' 2
  have d := orth_contract h v (fun m => sum3 fun n => C g h' m n * w n)
  simp only [sum3, rotC2] at *
  linear_combination d + (rotVec R v 0 * R 0 0 + rotVec R v 1 * R 1 0 + rotVec R v 2 * R 2 0) * c0
    + (rotVec R v 0 * R 0 1 + rotVec R v 1 * R 1 1 + rotVec R v 2 * R 2 1) * c1
    + (rotVec R v 0 * R 0 2 + rotVec R v 1 * R 1 2 + rotVec R v 2 * R 2 2) * c2

theorem stressCoef_rot (pi I : F) (μ : Fin 6 → Mode F) (k : Fin 6 → F) (a : Fin 6) (i j : Fin 3) :
    stressCoef pi I (rotSetup R s) (fun a => rotMode R (μ a)) k a i j = rotMat R (stressCoef pi I s μ k a) i j := by
  have c := rotC2_contract h s.C (μ a).A (mpn s (μ a))
  have c00 := c 0 0; have c01 := c 0 1; have c02 := c 0 2; have c10 := c 1 0; have c11 := c 1 1; have c12 := c 1 2
  have c20 := c 2 0; have c21 := c 2 1; have c22 := c 2 2
  have key : (sum3 fun k' => sum3 fun l => (rotSetup R s).C i j k' l
        * (mpn (rotSetup R s) (rotMode R (μ a)) l * (rotMode R (μ a)).A k'))
      = sum3 fun g => R i g * sum3 fun h' => R j h' * sum3 fun m => sum3 fun n => s.C g h' m n * (mpn s (μ a) n * (μ a).A m) := by
    simp only [mpn_rot h s]
    simp only [rotSetup, rotMode, rotC_eq, rotC3, sum3] at *
    linear_combination R i 0 * R j 0 * c00 + R i 0 * R j 1 * c01 + R i 0 * R j 2 * c02
      + R i 1 * R j 0 * c10 + R i 1 * R j 1 * c11 + R i 1 * R j 2 * c12
      + R i 2 * R j 0 * c20 + R i 2 * R j 1 * c21 + R i 2 * R j 2 * c22
  simp only [stressCoef, kLb_rot h s μ k a, key]
  simp only [rotMat, sum3, stressCoef]
  ring

theorem kTensor_rot (I : F) (μ : Fin 6 → Mode F) (k : Fin 6 → F) (i j : Fin 3) :
    kTensor I (fun a => rotMode R (μ a)) k i j = rotMat R (kTensor I μ k) i j := by
  simp only [kTensor, rotMode, rotVec, matVec, rotMat, sum3, sum6]
  ring
end setup
end Atomman.C12
