/-
  C03 — "Neighbor list lists exactly the pairs closer than the cutoff": property theorems about the model
  `Atomman/C03.lean` of `atomman/core/nlist.pyx` + `NeighborList.py` (exact over ℚ).

  Helper lemmas: Proofs/C03_Lemmas.lean (insertion, dmag2, storage), Proofs/C03_Geometry.lean (bins, sweep,
  superbox, ghosts), Proofs/C03_Text.lean (dump/load), Proofs/C03_Bins.lean (bin table with capacity), Proofs/C03_Scale.lean (scaled /
  translated systems), Proofs/C03_Mirror.lean (mirrored / re-spanned / reordered / renamed descriptions of one system).
-/
import Proofs.C03_Lemmas
import Proofs.C03_Geometry
import Proofs.C03_Text
import Proofs.C03_Bins
import Proofs.C03_Scale
import Proofs.C03_Mirror
import Proofs.C03_Source

set_option linter.unusedSimpArgs false
set_option linter.unusedVariables false
set_option linter.unusedTactic false
set_option linter.unreachableTactic false
set_option linter.unnecessarySeqFocus false

namespace Atomman.C03
open List

/-! ### the table invariant -/

/-- **insert_inv**: one symmetric insertion (`u ≠ v`, both atom indices) preserves the invariant
    `Inv n rows`: `n` rows, every row strictly ascending, every entry `j` of row `i` satisfies
    `j < n`, `j ≠ i`, `i ∈ row j`. -/
theorem insert_inv {n : Nat} {rows : Rows} {u v : Nat} (h : Inv n rows) (hu : u < n) (hv : v < n)
    (huv : u ≠ v) : Inv n (insertPairL rows u v) := insertPairL_inv h hu hv huv

/-- non-vacuity: a table satisfying `Inv`, and an insertion that changes it. -/
example : Inv 3 [[1], [0], []] ∧ insertPairL [[1], [0], []] 2 0 = [[1, 2], [0], [0]] := by
  refine ⟨⟨rfl, ?_⟩, by decide⟩
  intro i hi
  have : i = 0 ∨ i = 1 ∨ i = 2 := by omega
  rcases this with rfl | rfl | rfl <;> simp [rowOf]

theorem accept_ne (S : Sys) (c2 : ℚ) (uv : Nat × Nat) (h : accept S c2 uv = true) : uv.1 ≠ uv.2 := by
  unfold accept at h
  simp only [Bool.and_eq_true, bne_iff_ne, ne_eq] at h
  exact h.2

theorem strict_nodup {l : List Nat} (h : l.Pairwise (· < ·)) : l.Nodup :=
  h.imp (fun hab => Nat.ne_of_lt hab)

/-- **alg_inv**: the neighbor table computed by the algorithm (any cell, any positions, any cutoff) has one row
    per atom; every row is strictly ascending, hence free of duplicates; entries are atom indices, never the
    atom itself, and the table is symmetric. -/
theorem alg_inv (S : Sys) (cutoff : ℚ) :
    (nlistL S cutoff).length = S.natoms ∧ ∀ i, i < S.natoms →
      (rowOf (nlistL S cutoff) i).Pairwise (· < ·) ∧ (rowOf (nlistL S cutoff) i).Nodup ∧
      ∀ j ∈ rowOf (nlistL S cutoff) i, j < S.natoms ∧ j ≠ i ∧ i ∈ rowOf (nlistL S cutoff) j := by
  obtain ⟨⟨h1, h2⟩, _⟩ := runLW_spec (accept S (cutoff * cutoff)) S.natoms (accept_ne S _) (cands S cutoff)
    (cands_lt S cutoff)
  exact ⟨h1, fun i hi => ⟨(h2 i hi).1, strict_nodup (h2 i hi).1, (h2 i hi).2⟩⟩

/-- **alg_sound**: every listed pair is a pair of distinct atoms whose `dmag2` is below `cutoff²`. -/
theorem alg_sound (S : Sys) (cutoff : ℚ) (i j : Nat) (h : j ∈ rowOf (nlistL S cutoff) i) :
    j ≠ i ∧ dist2 S i j < cutoff * cutoff := by
  obtain ⟨_, hM⟩ := runLW_spec (accept S (cutoff * cutoff)) S.natoms (accept_ne S _) (cands S cutoff)
    (cands_lt S cutoff)
  obtain ⟨uv, _, hacc, huv⟩ := (hM i j).1 h
  unfold accept at hacc
  simp only [Bool.and_eq_true, decide_eq_true_eq, bne_iff_ne, ne_eq] at hacc
  rcases huv with rfl | rfl
  · exact ⟨fun e => hacc.2 e.symm, hacc.1⟩
  · exact ⟨hacc.2, by rw [dist2_comm]; exact hacc.1⟩

/-- the ascending filter of the compared pairs that pass the distance test. -/
def comparedFilter (S : Sys) (c2 : ℚ) (cs : List (Nat × Nat)) (i : Nat) : List Nat :=
  (List.range S.natoms).filter fun j =>
    decide (j ≠ i) && decide (dist2 S i j < c2) && (decide ((i, j) ∈ cs) || decide ((j, i) ∈ cs))

/-- **alg_eq_compared**: whatever sequence `cs` of index pairs is compared, row `i` of the result is the
    ascending, duplicate-free list of the `j ≠ i` with `dmag2 i j < c2` that were compared with `i` (in either
    order): the output is a function of the *set* of compared pairs. -/
theorem alg_eq_compared (S : Sys) (c2 : ℚ) (cs : List (Nat × Nat))
    (hcs : ∀ uv ∈ cs, uv.1 < S.natoms ∧ uv.2 < S.natoms) (i : Nat) (hi : i < S.natoms) :
    rowOf (runL S c2 cs) i = comparedFilter S c2 cs i := by
  obtain ⟨⟨_, h2⟩, hM⟩ := runLW_spec (accept S c2) S.natoms (accept_ne S _) cs hcs
  apply List.Pairwise.eq_of_mem_iff (r := (· < ·)) (h2 i hi).1
  · exact List.Pairwise.filter _ List.pairwise_lt_range
  · intro j
    unfold comparedFilter
    rw [hM i j]
    simp only [mem_filter, mem_range, Bool.and_eq_true, Bool.or_eq_true, decide_eq_true_eq]
    constructor
    · rintro ⟨uv, huv, hacc, e⟩
      unfold accept at hacc
      simp only [Bool.and_eq_true, decide_eq_true_eq, bne_iff_ne, ne_eq] at hacc
      rcases e with rfl | rfl
      · exact ⟨(hcs _ huv).2, ⟨fun e => hacc.2 e.symm, hacc.1⟩, Or.inl huv⟩
      · exact ⟨(hcs _ huv).1, ⟨hacc.2, by rw [dist2_comm]; exact hacc.1⟩, Or.inr huv⟩
    · rintro ⟨hj, ⟨hne, hd⟩, hmem | hmem⟩
      · refine ⟨(i, j), hmem, ?_, Or.inl rfl⟩
        unfold accept
        simp only [Bool.and_eq_true, decide_eq_true_eq, bne_iff_ne, ne_eq]
        exact ⟨hd, fun e => hne e.symm⟩
      · refine ⟨(j, i), hmem, ?_, Or.inr rfl⟩
        unfold accept
        simp only [Bool.and_eq_true, decide_eq_true_eq, bne_iff_ne, ne_eq]
        exact ⟨by rw [dist2_comm]; exact hd, hne⟩

theorem rows_eq_map_rowOf (rows : Rows) : rows = (List.range rows.length).map (rowOf rows) := by
  apply List.ext_getElem?
  intro k
  simp only [List.getElem?_map, List.getElem?_range]
  by_cases hk : k < rows.length
  · simp [hk, rowOf, List.getD_eq_getElem?_getD, List.getElem?_eq_getElem hk]
  · rw [List.getElem?_eq_none (by omega)]
    simp [hk]

/-- **alg_order_irrelevant**: two candidate sequences with the same set of pairs (any order, any
    multiplicity — e.g. another sweep order of the occupied bins) give the same table. -/
theorem alg_order_irrelevant (S : Sys) (c2 : ℚ) (cs cs' : List (Nat × Nat))
    (hcs : ∀ uv ∈ cs, uv.1 < S.natoms ∧ uv.2 < S.natoms) (h : ∀ uv, uv ∈ cs ↔ uv ∈ cs') :
    runL S c2 cs = runL S c2 cs' := by
  have hcs' : ∀ uv ∈ cs', uv.1 < S.natoms ∧ uv.2 < S.natoms := fun uv huv => hcs uv ((h uv).2 huv)
  have l1 := (runLW_spec (accept S c2) S.natoms (accept_ne S _) cs hcs).1.1
  have l2 := (runLW_spec (accept S c2) S.natoms (accept_ne S _) cs' hcs').1.1
  rw [rows_eq_map_rowOf (runL S c2 cs), rows_eq_map_rowOf (runL S c2 cs')]
  unfold runL at *
  rw [l1, l2]
  apply List.map_congr_left
  intro i hi
  have hi' := mem_range.1 hi
  have e1 := alg_eq_compared S c2 cs hcs i hi'
  have e2 := alg_eq_compared S c2 cs' hcs' i hi'
  unfold runL at e1 e2
  rw [e1, e2]
  unfold comparedFilter
  apply List.filter_congr
  intro j _
  simp only [h]

/-! ### storage -/

theorem initA_wf (junk : Nat → Nat → Nat) (n init : Nat) :
    WF n (initA junk n init) ∧ absRows (initA junk n init).rows = List.replicate n [] := by
  refine ⟨⟨by simp [initA], ?_⟩, ?_⟩
  · intro r hr
    simp only [initA, mem_map, mem_range] at hr
    obtain ⟨k, _, rfl⟩ := hr
    simp [coordOf, initA]
  · apply List.ext_getElem?
    intro k
    simp only [absRows, initA, List.getElem?_map, List.getElem?_range, List.getElem?_replicate]
    by_cases hk : k < n <;> simp [hk, absRow, coordOf]

theorem runAW_refines (junk : Nat → Nat → Nat) (init delta : Nat) (hd : 1 ≤ delta) (acc : Nat × Nat → Bool)
    (hacc : ∀ uv, acc uv = true → uv.1 ≠ uv.2) (n : Nat) (cs : List (Nat × Nat))
    (hcs : ∀ uv ∈ cs, uv.1 < n ∧ uv.2 < n) :
    WF n (runAW junk init delta acc n cs) ∧ absRows (runAW junk init delta acc n cs).rows = runLW acc n cs := by
  unfold runAW runLW
  obtain ⟨h1, h2⟩ := initA_wf junk n init
  rw [← h2]
  generalize initA junk n init = st at h1
  clear h2
  induction cs generalizing st with
  | nil => exact ⟨h1, rfl⟩
  | cons uv cs ih =>
    have huv := hcs uv mem_cons_self
    rw [foldl_cons, foldl_cons]
    have hstep : WF n (stepAW junk delta acc st uv) ∧
        absRows (stepAW junk delta acc st uv).rows = stepLW acc (absRows st.rows) uv := by
      unfold stepAW stepLW
      by_cases ha : acc uv = true
      · rw [if_pos ha, if_pos ha]
        exact insertPairA_refines junk delta hd n st h1 uv.1 uv.2 huv.1 huv.2 (hacc uv ha)
      · rw [if_neg ha, if_neg ha]; exact ⟨h1, rfl⟩
    obtain ⟨w, e⟩ := hstep
    rw [← e]
    exact ih (fun x hx => hcs x (mem_cons_of_mem _ hx)) _ w

/-- **storage_refines**: for every `initialsize`, every `deltasize ≥ 1` and whatever `np.empty` leaves in fresh
    cells (`junk`), the fixed-capacity array with growth as coded, read through `NeighborList.__getitem__`
    (`absRows`), equals the table built on growing lists. -/
theorem storage_refines (junk : Nat → Nat → Nat) (init delta : Nat) (hd : 1 ≤ delta) (S : Sys) (cutoff : ℚ) :
    absRows (nlistA junk init delta S cutoff).rows = nlistL S cutoff :=
  (runAW_refines junk init delta hd (accept S (cutoff * cutoff)) (accept_ne S _) S.natoms (cands S cutoff)
    (cands_lt S cutoff)).2

/-- **storage_coord**: in the returned array every row has `maxneighbors + 1` columns, and the reported
    coordination number `coord[i] = nlist[i,0]` equals the length of the list `NeighborList[i]`. -/
theorem storage_coord (junk : Nat → Nat → Nat) (init delta : Nat) (hd : 1 ≤ delta) (S : Sys) (cutoff : ℚ) :
    (nlistA junk init delta S cutoff).rows.length = S.natoms ∧
    ∀ r ∈ (nlistA junk init delta S cutoff).rows,
      r.length = (nlistA junk init delta S cutoff).maxn + 1 ∧ coordOf r = (absRow r).length := by
  obtain ⟨⟨h1, h2⟩, _⟩ := runAW_refines junk init delta hd (accept S (cutoff * cutoff)) (accept_ne S _) S.natoms
    (cands S cutoff) (cands_lt S cutoff)
  refine ⟨h1, fun r hr => ?_⟩
  obtain ⟨h3, h4⟩ := h2 r hr
  refine ⟨h3, ?_⟩
  unfold absRow
  simp only [List.length_take, List.length_drop]
  change coordOf r ≤ (nlistA junk init delta S cutoff).maxn at h4
  change r.length = (nlistA junk init delta S cutoff).maxn + 1 at h3
  omega

/-! ### geometry and completeness -/

/-- **adjacent_bins**: with bin edges `lo + k·c` (`c > 0`, any number of edges), two coordinates closer than
    `c` get bin indices that differ by at most one. -/
theorem adjacent_bins (lo c : ℚ) (n : Nat) (hc : 0 < c) (x y : ℚ) (h : |y - x| < c) :
    |binIdx lo c n y - binIdx lo c n x| ≤ 1 := binIdx_adjacent lo c n hc x y h

example : |((7 : ℚ) / 4) - 1| < 1 ∧ binIdx 0 1 5 (7 / 4) = 1 ∧ binIdx 0 1 5 1 = 1 := by
  refine ⟨by norm_num [abs_lt], by decide +kernel, by decide +kernel⟩

/-- **ghost_exists**: if atom `i` lies inside the cell, every periodic image (`s ≠ 0` an admissible shift) of
    any atom `j` whose squared distance to atom `i` is below `cutoff²` passes the strict superbox test and is
    appended as a ghost of `j`. -/
theorem ghost_exists (S : Sys) (cutoff : ℚ) (hc : 0 < cutoff) (i j : Nat) (hj : j < S.natoms)
    (hin : InsideCell S (S.posOf i)) (s : Int × Int × Int) (hs : s ∈ imageShifts S.px S.py S.pz)
    (hclose : cand2 S.vects (S.posOf i) (S.posOf j) s < cutoff * cutoff) :
    inSuper (mkGrid S cutoff) (ghostPos S s j) = true ∧
    (j, binOf (mkGrid S cutoff) (ghostPos S s j)) ∈ ghostEntries S (mkGrid S cutoff) :=
  ghost_kept S cutoff hc i j hj hin s hs hclose

/-- **compared_complete**: with every atom inside the cell and `cutoff > 0`, any two distinct atoms with
    `dmag2 < cutoff²` are compared by the sweep over the occupied bins (in one order or the other). -/
theorem compared_complete (S : Sys) (cutoff : ℚ) (hc : 0 < cutoff)
    (hin : ∀ i, i < S.natoms → InsideCell S (S.posOf i)) (i j : Nat) (hi : i < S.natoms) (hj : j < S.natoms)
    (hij : i ≠ j) (hd : dist2 S i j < cutoff * cutoff) :
    (i, j) ∈ cands S cutoff ∨ (j, i) ∈ cands S cutoff := cands_complete S cutoff hc hin i j hi hj hij hd

/-- **dist2_symm**: `dmag2` does not depend on the order of the two points. -/
theorem dist2_symm (S : Sys) (u v : Nat) : dist2 S u v = dist2 S v u := dist2_comm S u v

/-- **alg_complete** (full strength): for a system whose atoms all lie inside the cell and `cutoff > 0`, the list
    of atom `i` is exactly the specification: the ascending list of all `j ≠ i` with `dmag2 i j < cutoff²`. -/
theorem alg_complete (S : Sys) (cutoff : ℚ) (hc : 0 < cutoff)
    (hin : ∀ i, i < S.natoms → InsideCell S (S.posOf i)) (i : Nat) (hi : i < S.natoms) :
    rowOf (nlistL S cutoff) i = nlistSpec S cutoff i := by
  have h := alg_eq_compared S (cutoff * cutoff) (cands S cutoff) (cands_lt S cutoff) i hi
  unfold nlistL
  rw [h]
  unfold comparedFilter nlistSpec
  apply List.filter_congr
  intro j hj
  have hj' := mem_range.1 hj
  by_cases hne : j ≠ i
  · by_cases hd : dist2 S i j < cutoff * cutoff
    · have := compared_complete S cutoff hc hin i j hi hj' (fun e => hne e.symm) hd
      rcases this with h' | h' <;> simp [hne, hd, h']
    · simp [hd]
  · simp [hne]

/-- **nlistA_complete**: the same for what `NeighborList` returns from the capacity array, for every
    `initialsize`, `deltasize ≥ 1`: `NeighborList[i]` is the specification and `coord[i]` its length. -/
theorem nlistA_complete (junk : Nat → Nat → Nat) (init delta : Nat) (hd : 1 ≤ delta) (S : Sys) (cutoff : ℚ)
    (hc : 0 < cutoff) (hin : ∀ i, i < S.natoms → InsideCell S (S.posOf i)) (i : Nat) (hi : i < S.natoms) :
    absRow ((nlistA junk init delta S cutoff).rows.getD i []) = nlistSpec S cutoff i ∧
    coordOf ((nlistA junk init delta S cutoff).rows.getD i []) = (nlistSpec S cutoff i).length := by
  have h1 := storage_refines junk init delta hd S cutoff
  obtain ⟨hl, h2⟩ := storage_coord junk init delta hd S cutoff
  have h3 := alg_complete S cutoff hc hin i hi
  have hi' : i < (nlistA junk init delta S cutoff).rows.length := by omega
  have hrow : (nlistA junk init delta S cutoff).rows.getD i [] = (nlistA junk init delta S cutoff).rows[i] :=
    getD_of_lt _ _ _ hi'
  have habs : absRow ((nlistA junk init delta S cutoff).rows[i]) = rowOf (nlistL S cutoff) i := by
    rw [← h1]
    unfold rowOf absRows
    rw [getD_of_lt _ _ _ (by simp; omega)]
    simp
  rw [hrow, habs, h3]
  refine ⟨rfl, ?_⟩
  rw [(h2 _ (List.getElem_mem hi')).2, habs, h3]

/-- non-vacuity of the hypotheses of `alg_complete`, and a pair that is close only through a periodic image:
    cubic cell of side 4, atoms at x = 1/2 and x = 7/2, cutoff 3/2 (direct distance 3, image distance 1). -/
def exSys : Sys :=
  ⟨⟨⟨4, 0, 0⟩, ⟨0, 4, 0⟩, ⟨0, 0, 4⟩⟩, ⟨0, 0, 0⟩, true, true, true, [⟨1/2, 1/2, 1/2⟩, ⟨7/2, 1/2, 1/2⟩]⟩

example : (0 : ℚ) < 3 / 2 ∧ (∀ i, i < exSys.natoms → InsideCell exSys (exSys.posOf i)) ∧
    nlistSpec exSys (3 / 2) 0 = [1] := by
  refine ⟨by norm_num, ?_, by decide +kernel⟩
  intro i hi
  have : i = 0 ∨ i = 1 := by
    have : exSys.natoms = 2 := rfl
    omega
  rcases this with rfl | rfl
  · exact ⟨⟨1/8, 1/8, 1/8⟩, by norm_num, by norm_num, by norm_num, by norm_num, by norm_num, by norm_num,
      by simp [exSys, Sys.posOf]; norm_num⟩
  · exact ⟨⟨7/8, 1/8, 1/8⟩, by norm_num, by norm_num, by norm_num, by norm_num, by norm_num, by norm_num,
      by simp [exSys, Sys.posOf]; norm_num⟩

/-- the stored witness (corpus/C03/000…): a pair within the cutoff only through a periodic image whose ghost
    sits in a bin without real atoms (lost by the code before /repo commit 5f280bc). The model, which sweeps
    every occupied bin, lists it; the inputs are the exact rational values of the doubles. -/
def witSys : Sys :=
  ⟨⟨⟨(2427167740369581/562949953421312 : ℚ), 0, 0⟩, ⟨0, (6467962474385529/1125899906842624 : ℚ), 0⟩, ⟨0, 0, (1990236091110577/281474976710656 : ℚ)⟩⟩,
   ⟨(166474675184585/70368744177664 : ℚ), (1507007939526937/1125899906842624 : ℚ), (514300621904499/1125899906842624 : ℚ)⟩, true, true, true,
   [⟨(3223591773335033/1125899906842624 : ℚ), (1945874503438763/281474976710656 : ℚ), (8453806012516609/1125899906842624 : ℚ)⟩, ⟨(4700856993336123/1125899906842624 : ℚ), (7058136876690467/1125899906842624 : ℚ), (2327447334845759/1125899906842624 : ℚ)⟩]⟩
def witCut : ℚ := (5740257147792497/2251799813685248 : ℚ)
example : nlistL witSys witCut = [[1], [0]] := by decide +kernel
example : nlistSpec witSys witCut 0 = [1] := by decide +kernel

/-! ### the bin table with fixed capacity -/

/-- **bins_refine**: for every growth block that is `Sound` (the trigger fires before a row is full beyond its
    spare slots, every column in use is copied, the new array is wide enough), the bin read by the sweep from the
    capacity table `xyzbins` — `xyzbins[b, 1 .. xyzbins[b, 0]]` after filling all real atoms and ghosts in order,
    with any number of growths — is the list of the entries that fall in `b`, in fill order. -/
theorem bins_refine (P : BinParams) (s : Nat) (h : P.Sound s) (es : List (Nat × Idx)) (b : Idx) :
    membersA (fillBins P es) b = members es b := membersA_fillBins P s h es b

/-- **src_bins_sound**: the growth block as it stands in nlist.pyx (`Generated/NlistStorage.lean`: initial
    `maxatomsperbin`, array widths, trigger, copy loop bound, increment) is `Sound`. -/
theorem src_bins_sound : ∃ s, srcBinParams.Sound s := srcBinParams_sound

/-- non-vacuity / sharpness: a block that triggers one entry later AND copies one column less is not sound for
    any `s`, and indeed loses an atom: 3 entries in one bin with `maxatomsperbin = 2`. -/
def lossyParams : BinParams := ⟨2, (· + 1), fun c m => decide (m < c), (· + 11), (·), (· + 10)⟩
example : membersA (fillBins lossyParams [(5, (0, 0, 0)), (6, (0, 0, 0)), (7, (0, 0, 0))]) (0, 0, 0) = [5, 0, 7] ∧
    members [(5, ((0, 0, 0) : Idx)), (6, (0, 0, 0)), (7, (0, 0, 0))] (0, 0, 0) = [5, 6, 7] := by decide
example : membersA (fillBins srcBinParams ((List.range 95).map fun i => (i, ((1, 2, 3) : Idx)))) (1, 2, 3)
    = List.range 95 := by decide +kernel

/-- **cands_table_eq**: the pairs compared by the sweep when it reads the capacity table filled as coded are the
    pairs compared on list bins (same pairs, same order). -/
theorem cands_table_eq (S : Sys) (cutoff : ℚ) : candsA srcBinParams S cutoff = cands S cutoff := by
  obtain ⟨s, hs⟩ := src_bins_sound
  exact candsOfA_eq srcBinParams s hs _ _

/-- **nlistFull_complete**: the whole of `nlist` with both capacity tables as coded (bin table growing from
    `maxatomsperbin = 40`, per-atom rows growing from `initialsize` by `deltasize ≥ 1`): for atoms inside the cell
    and `cutoff > 0`, `NeighborList[i]` is the specification and `coord[i]` its length. -/
theorem nlistFull_complete (junk : Nat → Nat → Nat) (init delta : Nat) (hd : 1 ≤ delta) (S : Sys) (cutoff : ℚ)
    (hc : 0 < cutoff) (hin : ∀ i, i < S.natoms → InsideCell S (S.posOf i)) (i : Nat) (hi : i < S.natoms) :
    absRow ((nlistFull srcBinParams junk init delta S cutoff).rows.getD i []) = nlistSpec S cutoff i ∧
    coordOf ((nlistFull srcBinParams junk init delta S cutoff).rows.getD i []) = (nlistSpec S cutoff i).length := by
  have e : nlistFull srcBinParams junk init delta S cutoff = nlistA junk init delta S cutoff := by
    unfold nlistFull nlistA
    rw [cands_table_eq]
  rw [e]
  exact nlistA_complete junk init delta hd S cutoff hc hin i hi

/-- **nbr_growth_as_modelled**: the growth block of the per-atom array as it stands in nlist.pyx (generated) is
    the one `insertPairA` / `growRows` / `initA` implement (for which `storage_refines` is proved): start width
    `initialsize + 1`, trigger "one of the two incremented coordination numbers exceeds `maxneighbors`", new width
    `maxneighbors + deltasize + 1`, columns `0 .. maxneighbors` copied, `maxneighbors += deltasize`. -/
theorem nbr_growth_as_modelled (init cu cv m d : Nat) :
    Gen.nbrInit init = init ∧ Gen.nbrInitWidth m = m + 1 ∧
    Gen.nbrTrigger (cu + 1) (cv + 1) m = (decide (m < cu + 1) || decide (m < cv + 1)) ∧
    Gen.nbrNewWidth m d = m + 1 + d ∧ Gen.nbrCopyCols m = m + 1 ∧ Gen.nbrGrow m d = m + d := by
  refine ⟨?_, ?_, ?_, ?_, ?_, ?_⟩
  -- written so that any arithmetically equal form of the source expressions is accepted
  · simp only [Gen.nbrInit] <;> omega
  · simp only [Gen.nbrInitWidth] <;> omega
  · rw [Bool.eq_iff_iff]
    simp only [Gen.nbrTrigger, Bool.or_eq_true, Bool.and_eq_true, Bool.not_eq_true', decide_eq_true_eq,
      decide_eq_false_iff_not] <;> omega
  · simp only [Gen.nbrNewWidth] <;> omega
  · simp only [Gen.nbrCopyCols] <;> omega
  · simp only [Gen.nbrGrow] <;> omega

/-- **src_defaults_valid**: the default storage sizes standing in the source (`nlist` in nlist.pyx, `NeighborList.build`
    in NeighborList.py; regenerated on every run) are inside the quantifier of the property (`>= 1`): a call that leaves
    them out is covered by `storage_refines`.  (A default `deltasize = 0` would make the first growth a no-op and the next
    write land outside the array.) -/
theorem src_defaults_valid :
    1 ≤ Src.defInitialsize ∧ 1 ≤ Src.defDeltasize ∧ 1 ≤ Src.buildDefInitialsize ∧ 1 ≤ Src.buildDefDeltasize := by
  decide

/-- **nlistCall_complete** (end to end, every call form): whatever way the two storage sizes reach `nlist` — given by the
    caller (`deltasize ≥ 1`), left out in `NeighborList(system=, cutoff=)` / `System.neighborlist(cutoff=)` (defaults of
    `build`), left out in `nlist(system, cutoff)` (its own defaults) — for atoms inside the cell and `cutoff > 0` the
    returned object has `[i]` = the specification (ascending, exactly the `j ≠ i` below the cutoff) and `coord[i]` = its
    length; in particular two calls that differ only in how the sizes were given return the same lists. -/
theorem nlistCall_complete (junk : Nat → Nat → Nat) (a b : SizeArg) (hb : ∀ n, b = .given n → 1 ≤ n) (S : Sys)
    (cutoff : ℚ) (hc : 0 < cutoff) (hin : ∀ i, i < S.natoms → InsideCell S (S.posOf i)) (i : Nat) (hi : i < S.natoms) :
    absRow ((nlistCall junk a b S cutoff).rows.getD i []) = nlistSpec S cutoff i ∧
    coordOf ((nlistCall junk a b S cutoff).rows.getD i []) = (nlistSpec S cutoff i).length := by
  have hd : 1 ≤ deltasizeOf b := by
    cases b with
    | given n => exact hb n rfl
    | viaBuild => exact src_defaults_valid.2.2.2
    | viaNlist => exact src_defaults_valid.2.1
  exact nlistFull_complete junk (initialsizeOf a) (deltasizeOf b) hd S cutoff hc hin i hi

theorem nlistCall_form_irrelevant (junk junk' : Nat → Nat → Nat) (a b a' b' : SizeArg) (hb : ∀ n, b = .given n → 1 ≤ n)
    (hb' : ∀ n, b' = .given n → 1 ≤ n) (S : Sys) (cutoff : ℚ) (hc : 0 < cutoff)
    (hin : ∀ i, i < S.natoms → InsideCell S (S.posOf i)) (i : Nat) (hi : i < S.natoms) :
    absRow ((nlistCall junk a b S cutoff).rows.getD i []) = absRow ((nlistCall junk' a' b' S cutoff).rows.getD i []) := by
  rw [(nlistCall_complete junk a b hb S cutoff hc hin i hi).1, (nlistCall_complete junk' a' b' hb' S cutoff hc hin i hi).1]

example : (∀ n, SizeArg.viaBuild = .given n → 1 ≤ n) ∧ (∀ n, SizeArg.given 3 = .given n → 1 ≤ n) ∧
    absRows (nlistCall (fun _ _ => 7) .viaBuild .viaNlist exSys (3 / 2)).rows = [[1], [0]] ∧
    absRows (nlistCall (fun _ _ => 9) (.given 1) (.given 3) exSys (3 / 2)).rows = [[1], [0]] := by
  refine ⟨?_, ?_, by decide +kernel, by decide +kernel⟩
  · intro n h; cases h
  · intro n h; cases h; decide

/-- **sweep_loops_as_modelled**: the compared pairs of one bin, written with the loop indices of the source
    (`for u in range(len(shortlist)): for w, v in enumerate(range(u + 1, len(longlist)))`, `longlist` = `shortlist`
    followed by the members of the stencil bins), are the `binPairs` the theorems are about. -/
theorem sweep_loops_as_modelled (G : Grid) (es : List (Nat × Idx)) (b : Idx) :
    binPairs G es b = pairLoops (members es b) (stencilMembers G es b) := (pairsOf_eq_loops _ _).symm

/-! ### object level: no memory between calls -/

theorem finalState_query (S : Sys) (c : ℚ) (ops : List Op) :
    finalState S (Op.query c :: ops) = finalState S ops := rfl

/-- **answers_fresh**: whatever was done to the system before (moves, new boxes, new periodicity, earlier
    neighbor-list calls with any cutoff), the answer to a call is the neighbor list of the state the system has at
    that moment; earlier answers are not altered by appending the call. -/
theorem answers_fresh (S : Sys) (pre : List Op) (c : ℚ) :
    answers S (pre ++ [Op.query c]) = answers S pre ++ [nlistL (finalState S pre) c] := by
  induction pre generalizing S with
  | nil => simp [answers, finalState]
  | cons op pre ih =>
    cases op with
    | query c' => simp only [List.cons_append, answers, finalState_query, ih, List.cons_append]
    | setPos i p => simp only [List.cons_append, answers, ih]; rfl
    | setAll ps => simp only [List.cons_append, answers, ih]; rfl
    | setBox v o => simp only [List.cons_append, answers, ih]; rfl
    | setPbc a b c' => simp only [List.cons_append, answers, ih]; rfl

/-- **answers_history_independent**: two histories that lead to the same state get the same answer. -/
theorem answers_history_independent (S S' : Sys) (pre pre' : List Op) (c : ℚ)
    (h : finalState S pre = finalState S' pre') :
    (answers S (pre ++ [Op.query c])).getLast? = (answers S' (pre' ++ [Op.query c])).getLast? := by
  rw [answers_fresh, answers_fresh, h]
  simp

/-- **answers_complete**: if after the operations all atoms lie inside the (current) cell, the answer to the call
    is the specification evaluated on the current state. -/
theorem answers_complete (S : Sys) (pre : List Op) (c : ℚ) (hc : 0 < c)
    (hin : ∀ i, i < (finalState S pre).natoms → InsideCell (finalState S pre) ((finalState S pre).posOf i)) :
    ∃ rows, (answers S (pre ++ [Op.query c])).getLast? = some rows ∧
      ∀ i, i < (finalState S pre).natoms → rowOf rows i = nlistSpec (finalState S pre) c i := by
  refine ⟨nlistL (finalState S pre) c, by rw [answers_fresh]; simp, fun i hi => ?_⟩
  exact alg_complete _ c hc hin i hi

/-- a move between two calls changes the second answer: cubic cell of side 4, atom 1 moved from x = 7/2 (image
    distance 1 from atom 0) to x = 2 (distance 3/2, not below the cutoff 3/2). -/
example : answers exSys [.query (3 / 2), .setPos 1 ⟨2, 1/2, 1/2⟩, .query (3 / 2)] = [[[1], [0]], [[], []]] := by
  decide +kernel

/-! ### the unit of length and the position of the cell do not matter; a cutoff spanning the cell is no shortcut -/

/-- **spec_scale_invariant**: multiplying every length (cell vectors, origin, positions, cutoff) by `s ≠ 0` leaves the
    specification unchanged: the squared distances and the squared cutoff both pick up `s²`. -/
theorem spec_scale_invariant (s : ℚ) (hs : s ≠ 0) (S : Sys) (cutoff : ℚ) (i : Nat) :
    nlistSpec (scaleSys s S) (s * cutoff) i = nlistSpec S cutoff i := by
  unfold nlistSpec
  rw [scaleSys_natoms]
  apply List.filter_congr
  intro j _
  rw [dist2_scale s hs]
  have hk : (0 : ℚ) < s * s := mul_self_pos.2 hs
  have e : s * cutoff * (s * cutoff) = s * s * (cutoff * cutoff) := by ring
  have : (s * s * dist2 S i j < s * cutoff * (s * cutoff)) ↔ dist2 S i j < cutoff * cutoff := by
    rw [e]
    exact ⟨fun h => lt_of_mul_lt_mul_left h hk.le, fun h => mul_lt_mul_of_pos_left h hk⟩
  simp only [this]

/-- **nlist_scale_invariant**: for atoms inside the cell the lists computed by the algorithm (superbox, bins of the
    scaled cutoff, ghosts, sweep) are the same for the system measured in another unit of length (`s > 0`). -/
theorem nlist_scale_invariant (s : ℚ) (hs : 0 < s) (S : Sys) (cutoff : ℚ) (hc : 0 < cutoff)
    (hin : ∀ i, i < S.natoms → InsideCell S (S.posOf i)) (i : Nat) (hi : i < S.natoms) :
    rowOf (nlistL (scaleSys s S) (s * cutoff)) i = rowOf (nlistL S cutoff) i := by
  have hin' : ∀ k, k < (scaleSys s S).natoms → InsideCell (scaleSys s S) ((scaleSys s S).posOf k) := by
    intro k hk
    rw [scaleSys_posOf]
    exact insideCell_scale s S _ (hin k (by rwa [scaleSys_natoms] at hk))
  rw [alg_complete (scaleSys s S) (s * cutoff) (mul_pos hs hc) hin' i (by rw [scaleSys_natoms]; exact hi),
    alg_complete S cutoff hc hin i hi, spec_scale_invariant s hs.ne']

/-- **spec_translate_invariant**: moving the whole system (origin and atoms) by `t` leaves the specification
    unchanged ("any origin"). -/
theorem spec_translate_invariant (t : V3 ℚ) (S : Sys) (cutoff : ℚ) (i : Nat) (hi : i < S.natoms) :
    nlistSpec (translateSys t S) cutoff i = nlistSpec S cutoff i := by
  unfold nlistSpec
  rw [translateSys_natoms]
  apply List.filter_congr
  intro j hj
  rw [dist2_translate t S i j hi (mem_range.1 hj)]

/-- **nlist_translate_invariant**: for atoms inside the cell the computed lists do not depend on where the cell sits
    (the superbox and the bin edges move with it; the lists do not change). -/
theorem nlist_translate_invariant (t : V3 ℚ) (S : Sys) (cutoff : ℚ) (hc : 0 < cutoff)
    (hin : ∀ i, i < S.natoms → InsideCell S (S.posOf i)) (i : Nat) (hi : i < S.natoms) :
    rowOf (nlistL (translateSys t S) cutoff) i = rowOf (nlistL S cutoff) i := by
  have hin' : ∀ k, k < (translateSys t S).natoms → InsideCell (translateSys t S) ((translateSys t S).posOf k) := by
    intro k hk
    have hk' : k < S.natoms := by rwa [translateSys_natoms] at hk
    rw [translateSys_posOf t S k hk']
    exact insideCell_translate t S _ (hin k hk')
  rw [alg_complete (translateSys t S) cutoff hc hin' i (by rw [translateSys_natoms]; exact hi),
    alg_complete S cutoff hc hin i hi, spec_translate_invariant t S cutoff i hi]

/-! ### one system, many descriptions: signs of the cell vectors, their order, the names of the axes -/

/-- two systems with the same number of atoms and the same pairwise periodic distances have the same specification. -/
theorem spec_congr (S T : Sys) (hn : T.natoms = S.natoms) (hd : ∀ u v, dist2 T u v = dist2 S u v) (cutoff : ℚ) (i : Nat) :
    nlistSpec T cutoff i = nlistSpec S cutoff i := by
  unfold nlistSpec
  rw [hn]
  apply List.filter_congr
  intro j _
  rw [hd]

/-- ... and, when in both the atoms lie inside the cell, the same computed lists. -/
theorem nlist_congr (S T : Sys) (hn : T.natoms = S.natoms) (hd : ∀ u v, dist2 T u v = dist2 S u v) (cutoff : ℚ)
    (hc : 0 < cutoff) (hinS : ∀ i, i < S.natoms → InsideCell S (S.posOf i))
    (hinT : ∀ i, i < T.natoms → InsideCell T (T.posOf i)) (i : Nat) (hi : i < S.natoms) :
    rowOf (nlistL T cutoff) i = rowOf (nlistL S cutoff) i := by
  rw [alg_complete T cutoff hc hinT i (by rw [hn]; exact hi), alg_complete S cutoff hc hinS i hi,
    spec_congr S T hn hd]

/-- **spec_mirror_invariant**: reflecting the whole system through coordinate planes (every Cartesian component of
    the cell vectors, the origin and the positions multiplied by a sign `σ_j = ±1`) leaves the specification unchanged.
    `diag(5, 6, 7)` becomes `diag(5, 6, -7)` with the origin on the top face; a LAMMPS-form cell gets any sign pattern
    on its diagonal; an odd number of reflections makes a right-handed cell left-handed. -/
theorem spec_mirror_invariant (σ : V3 ℚ) (hσ : IsSign σ) (S : Sys) (cutoff : ℚ) (i : Nat) :
    nlistSpec (mirrorSys σ S) cutoff i = nlistSpec S cutoff i :=
  spec_congr S _ (mirrorSys_natoms σ S) (dist2_mirror σ hσ S) cutoff i

/-- **nlist_mirror_invariant**: for atoms inside the cell the lists the algorithm computes (superbox, bins, ghosts,
    sweep: all of them look different in the mirror) are the same for the reflected system. -/
theorem nlist_mirror_invariant (σ : V3 ℚ) (hσ : IsSign σ) (S : Sys) (cutoff : ℚ) (hc : 0 < cutoff)
    (hin : ∀ i, i < S.natoms → InsideCell S (S.posOf i)) (i : Nat) (hi : i < S.natoms) :
    rowOf (nlistL (mirrorSys σ S) cutoff) i = rowOf (nlistL S cutoff) i := by
  refine nlist_congr S _ (mirrorSys_natoms σ S) (dist2_mirror σ hσ S) cutoff hc hin ?_ i hi
  intro k hk
  rw [mirrorSys_posOf]
  exact insideCell_mirror σ S _ (hin k (by rwa [mirrorSys_natoms] at hk))

/-- **spec_farface_invariant**: the same cell spanned from the far face of any of its vectors (the flagged vectors
    negated, the origin moved onto their far faces, the atoms untouched) has the same specification: the 27 / 9 / 3
    candidate separations are the same set. -/
theorem spec_farface_invariant (f0 f1 f2 : Bool) (S : Sys) (cutoff : ℚ) (i : Nat) :
    nlistSpec (farFaceSys f0 f1 f2 S) cutoff i = nlistSpec S cutoff i :=
  spec_congr S _ (farFaceSys_natoms f0 f1 f2 S) (dist2_farFace f0 f1 f2 S) cutoff i

/-- **nlist_farface_invariant**: ... and, the atoms being inside the cell (they still are: relative coordinate `r`
    becomes `1 - r` along a negated vector), the same computed lists. -/
theorem nlist_farface_invariant (f0 f1 f2 : Bool) (S : Sys) (cutoff : ℚ) (hc : 0 < cutoff)
    (hin : ∀ i, i < S.natoms → InsideCell S (S.posOf i)) (i : Nat) (hi : i < S.natoms) :
    rowOf (nlistL (farFaceSys f0 f1 f2 S) cutoff) i = rowOf (nlistL S cutoff) i := by
  refine nlist_congr S _ (farFaceSys_natoms f0 f1 f2 S) (dist2_farFace f0 f1 f2 S) cutoff hc hin ?_ i hi
  intro k hk
  rw [farFaceSys_posOf]
  exact insideCell_farFace f0 f1 f2 S _ (hin k hk)

/-- **spec_reorder_invariant**: listing the cell vectors (with their periodicity flags) in another order — the two
    generators of all six orders: first two exchanged, all three rotated — leaves the specification unchanged. -/
theorem spec_reorder_invariant (S : Sys) (cutoff : ℚ) (i : Nat) :
    nlistSpec (swapVecSys S) cutoff i = nlistSpec S cutoff i ∧
    nlistSpec (cycleVecSys S) cutoff i = nlistSpec S cutoff i :=
  ⟨spec_congr S (swapVecSys S) rfl (dist2_swapVec S) cutoff i, spec_congr S (cycleVecSys S) rfl (dist2_cycleVec S) cutoff i⟩

/-- **nlist_reorder_invariant**: ... and, for atoms inside the cell, the computed lists. -/
theorem nlist_reorder_invariant (S : Sys) (cutoff : ℚ) (hc : 0 < cutoff)
    (hin : ∀ i, i < S.natoms → InsideCell S (S.posOf i)) (i : Nat) (hi : i < S.natoms) :
    rowOf (nlistL (swapVecSys S) cutoff) i = rowOf (nlistL S cutoff) i ∧
    rowOf (nlistL (cycleVecSys S) cutoff) i = rowOf (nlistL S cutoff) i := by
  constructor
  · exact nlist_congr S (swapVecSys S) rfl (dist2_swapVec S) cutoff hc hin
      (fun k hk => insideCell_swapVec S _ (hin k hk)) i hi
  · exact nlist_congr S (cycleVecSys S) rfl (dist2_cycleVec S) cutoff hc hin
      (fun k hk => insideCell_cycleVec S _ (hin k hk)) i hi

/-- **spec_axes_invariant**: renaming the Cartesian axes (generators: x and y exchanged — a reflection —, all three
    rotated) leaves the specification unchanged; with `spec_mirror_invariant` this covers all 48 signed
    permutations of the axes (an axis-aligned cell may have its one non-zero entry per row anywhere, with any sign). -/
theorem spec_axes_invariant (S : Sys) (cutoff : ℚ) (i : Nat) :
    nlistSpec (mapSys swapXY S) cutoff i = nlistSpec S cutoff i ∧
    nlistSpec (mapSys cycleXYZ S) cutoff i = nlistSpec S cutoff i :=
  ⟨spec_congr S _ (mapSys_natoms _ S) (dist2_swapXY S) cutoff i,
   spec_congr S _ (mapSys_natoms _ S) (dist2_cycleXYZ S) cutoff i⟩

/-- **nlist_axes_invariant**: ... and, for atoms inside the cell, the computed lists. -/
theorem nlist_axes_invariant (S : Sys) (cutoff : ℚ) (hc : 0 < cutoff)
    (hin : ∀ i, i < S.natoms → InsideCell S (S.posOf i)) (i : Nat) (hi : i < S.natoms) :
    rowOf (nlistL (mapSys swapXY S) cutoff) i = rowOf (nlistL S cutoff) i ∧
    rowOf (nlistL (mapSys cycleXYZ S) cutoff) i = rowOf (nlistL S cutoff) i := by
  constructor
  · refine nlist_congr S _ (mapSys_natoms _ S) (dist2_swapXY S) cutoff hc hin ?_ i hi
    intro k hk
    rw [mapSys_posOf swapXY rfl]
    exact insideCell_swapXY S _ (hin k (by rwa [mapSys_natoms] at hk))
  · refine nlist_congr S _ (mapSys_natoms _ S) (dist2_cycleXYZ S) cutoff hc hin ?_ i hi
    intro k hk
    rw [mapSys_posOf cycleXYZ rfl]
    exact insideCell_cycleXYZ S _ (hin k (by rwa [mapSys_natoms] at hk))

/-- the tester's cell: `diag(5, 6, -7)` with the origin on the top face is `diag(5, 6, 7)` seen in the mirror `z → -z`;
    two atoms 1 apart through the periodic face along the negative vector are neighbors (cutoff 3/2) in the
    specification and in the model, exactly as in the unmirrored cell. -/
def downSys : Sys :=
  ⟨⟨⟨5, 0, 0⟩, ⟨0, 6, 0⟩, ⟨0, 0, -7⟩⟩, ⟨1, 1, 7⟩, false, false, true, [⟨7/2, 4, 133/20⟩, ⟨7/2, 4, 13/20⟩]⟩

example : downSys = mirrorSys ⟨1, 1, -1⟩
      ⟨⟨⟨5, 0, 0⟩, ⟨0, 6, 0⟩, ⟨0, 0, 7⟩⟩, ⟨1, 1, -7⟩, false, false, true, [⟨7/2, 4, -133/20⟩, ⟨7/2, 4, -13/20⟩]⟩ := by
  simp only [downSys, mirrorSys, mulV, List.map]
  norm_num

example : IsSign ⟨1, 1, -1⟩ := by
  unfold IsSign
  norm_num

example : dist2 downSys 0 1 = 1 ∧ nlistSpec downSys (3/2) 0 = [1] ∧ nlistL downSys (3/2) = [[1], [0]] := by
  decide +kernel

/-- a cutoff longer than the Frobenius norm `√(|a|² + |b|² + |c|²)` of the cell matrix does NOT make every pair a
    neighbor: sheared cell `lx = ly = lz = 4, xy = 3`, no periodic direction, atoms at the two ends of the longest
    body diagonal (`|a + b + c|² = 81 > 64 = cutoff² > 57 = |a|² + |b|² + |c|²`) and one at the centre: the two ends
    are not neighbors, and the algorithm agrees. -/
def shearSys : Sys :=
  ⟨⟨⟨4, 0, 0⟩, ⟨3, 4, 0⟩, ⟨0, 0, 4⟩⟩, ⟨0, 0, 0⟩, false, false, false, [⟨0, 0, 0⟩, ⟨7/2, 2, 2⟩, ⟨7, 4, 4⟩]⟩

example : (4 * 4 + (3 * 3 + 4 * 4) + 4 * 4 : ℚ) < 8 * 8 ∧
    nlistSpec shearSys 8 0 = [1] ∧ nlistSpec shearSys 8 2 = [1] ∧ nlistL shearSys 8 = [[1], [0, 2], [1]] := by
  decide +kernel

/-! ### the source computes with the types, scalars and tests of the model (translator tie) -/

/-- **src_reals_double**: every real-valued variable of `nlist` and `dmag2_c` — the cutoff parameter, `cutoff2`, the
    bin size, the superbox, the bin edges, the position / box buffers, the distance buffers — is declared `double`
    (float64) in the source of this run; so is every other variable those two functions declare with a real C type.
    The theorems of this file are about exact reals, the idealisation of `double`; a narrower declared type (`float
    cutoff`: the effective cutoff becomes the single-precision rounding of the requested one) is outside it. -/
theorem src_reals_double :
    Gen.ty_nlist_cutoff = .double ∧
    Gen.ty_nlist_cutoff2 = .double ∧
    Gen.ty_nlist_binsize = .double ∧
    Gen.ty_nlist_corner = .double ∧
    Gen.ty_nlist_supermin = .double ∧
    Gen.ty_nlist_supermax = .double ∧
    Gen.ty_nlist_xbins = .double ∧
    Gen.ty_nlist_ybins = .double ∧
    Gen.ty_nlist_zbins = .double ∧
    Gen.ty_nlist_posv = .double ∧
    Gen.ty_nlist_vects = .double ∧
    Gen.ty_nlist_origin = .double ∧
    Gen.ty_nlist_newposv = .double ∧
    Gen.ty_nlist_ghostpos = .double ∧
    Gen.ty_nlist_upos = .double ∧
    Gen.ty_nlist_vpos = .double ∧
    Gen.ty_nlist_dmag2 = .double ∧
    Gen.ty_nlist_pos = .double ∧
    Gen.ty_dmag_pos_0 = .double ∧
    Gen.ty_dmag_pos_1 = .double ∧
    Gen.ty_dmag_bvects = .double ∧
    Gen.ty_dmag_mag2_test = .double ∧
    Gen.ty_dmag_d = .double ∧
    Gen.ty_dmag_mag2_dv = .double ∧
    Gen.ty_dmag_mag2_d = .double ∧
    (∀ t ∈ Gen.otherReals, t = Gen.CReal.double) := by decide

/-- **src_scalars_as_modelled**: the scalar expressions and tests standing in the source are the modelled ones:
    `cutoff2 = cutoff*cutoff` is what `nlistL` compares with, `binsize = cutoff` is the bin width of `mkGrid`,
    `if dmag2[w] < cutoff2: … if uindex != vindex:` is `accept` (strict), and the candidate loop of `dmag2_c` replaces
    its minimum on strict `<` (as `Atomman.dmag2`). -/
theorem src_scalars_as_modelled (S : Sys) (cutoff t m : ℚ) (uv : Nat × Nat) :
    nlistL S cutoff = runL S (Gen.cutoff2Of cutoff) (cands S cutoff) ∧
    (mkGrid S cutoff).c = Gen.binsizeOf cutoff ∧
    accept S (Gen.cutoff2Of cutoff) uv
      = (Gen.acceptTest (dist2 S uv.1 uv.2) (Gen.cutoff2Of cutoff) && Gen.distinctTest uv.1 uv.2) ∧
    Gen.minTest t m = decide (t < m) := by
  have h2 : Gen.cutoff2Of cutoff = cutoff * cutoff := by simp only [Gen.cutoff2Of] <;> ring
  refine ⟨?_, ?_, ?_, ?_⟩
  · rw [h2]; rfl
  · simp only [mkGrid, Gen.binsizeOf] <;> ring
  · rw [Bool.eq_iff_iff]
    simp only [accept, Gen.acceptTest, Gen.distinctTest, Bool.and_eq_true, decide_eq_true_eq, bne_iff_ne, ne_eq,
      gt_iff_lt, ge_iff_le]
  · rw [Bool.eq_iff_iff]
    simp only [Gen.minTest, decide_eq_true_eq, gt_iff_lt]

/-- **getitem_as_modelled**: `NeighborList.coord` / `NeighborList[i]` as they stand in NeighborList.py (column of the
    coordination number and first neighbor column regenerated from `build`; `__getitem__`, `__len__`, `coord`, `nlist`
    and the call of `nlist` pinned by the translator) are `coordOf` / `absRow`, for which `storage_coord` and
    `nlistFull_complete` are proved. -/
theorem getitem_as_modelled (row : List Nat) :
    coordOf row = row.getD Gen.coordCol 0 ∧ absRow row = (row.drop Gen.nbrFrom).take (row.getD Gen.coordCol 0) :=
  ⟨rfl, rfl⟩

/-! ### text round trip -/

/-- **dump_as_modelled**: the text `NeighborList.dump` writes according to the source of this run (header writes,
    `'%i' % i`, `' %i' % j` per neighbor, `'\n'`; `renderGen`, regenerated from NeighborList.py) is `render`. -/
theorem dump_as_modelled (rows : Rows) : renderGen rows = render rows := by
  have hl : ∀ (i : Nat) (row : List Nat),
      Gen.dumpIdx i ++ row.flatMap Gen.dumpNbr ++ Gen.dumpEol = renderLine i row ++ ['\n'] := by
    intro i row; rfl
  have hh : Gen.dumpHeader = header.flatMap (fun l => l ++ ['\n']) := by decide
  unfold renderGen render renderLines
  rw [List.flatMap_append, hh]
  congr 1
  rw [List.flatMap_def]
  congr 1
  apply List.ext_getElem?
  intro k
  simp only [List.getElem?_map, List.getElem?_mapIdx]
  cases rows[k]? <;> simp [hl]

/-- **nlist_text_roundtrip**: reading back what `dump` wrote gives the same lists
    (`load (dump rows) = rows`, hence the same coordination numbers). -/
theorem nlist_text_roundtrip (rows : Rows) : parse (render rows) = some rows := parse_render rows

example : parse (render [[1, 12], [0], [], [0]]) = some [[1, 12], [0], [], [0]] := parse_render _

/-- **src_dump_roundtrip**: what the `dump` of the source of this run writes is read back by `load` as the same lists,
    for every number of atoms and every index size (the separating blank is part of the neighbor format). -/
theorem src_dump_roundtrip (rows : Rows) : parse (renderGen rows) = some rows := by
  rw [dump_as_modelled]; exact parse_render rows

/-- six-digit indices: the source's format keeps them apart; a right-aligned fixed-width format without a separating
    blank (`'%6i'`, here through the generated `padLeft`) fuses them into one number on reading. -/
example :
    parse (renderGen ((List.replicate 100002 []).set 5 [99999, 100000, 100001]))
      = some ((List.replicate 100002 []).set 5 [99999, 100000, 100001]) ∧
    parseLine (Gen.padLeft 6 (Nat.toDigits 10 5) ++ Gen.padLeft 6 (Nat.toDigits 10 99999)
        ++ Gen.padLeft 6 (Nat.toDigits 10 100000) ++ Gen.padLeft 6 (Nat.toDigits 10 100001))
      = .entry 5 [99999100000100001] := by
  refine ⟨src_dump_roundtrip _, by decide +kernel⟩

/-! ### statement audit: what the driver executes is the model of the theorems; shape of the returned array -/

/-- the memoised distance of the driver (`distTable`: each `dist2 S j i`, `j < i`, evaluated once) is `dist2`. -/
theorem tableDist_eq (S : Sys) (u v : Nat) (hu : u < S.natoms) (hv : v < S.natoms) (huv : u ≠ v) :
    tableDist (distTable S) u v = dist2 S u v := by
  unfold tableDist distTable
  by_cases h : u < v
  · simp [h, hv, Array.getD]
  · have h' : v < u := by omega
    simp [h, h', hu, Array.getD]
    exact dist2_symm S v u

/-- **table_accept_as_modelled**: the acceptance test the driver runs (`tableAccept` on the memoised table) is `accept`, the
    test of the theorems, on every pair of atom indices. -/
theorem table_accept_as_modelled (S : Sys) (c2 : ℚ) (uv : Nat × Nat) (h1 : uv.1 < S.natoms) (h2 : uv.2 < S.natoms) :
    tableAccept (distTable S) c2 uv = accept S c2 uv := by
  unfold tableAccept accept
  by_cases e : uv.1 = uv.2
  · simp [e]
  · rw [tableDist_eq S uv.1 uv.2 h1 h2 e, Bool.and_comm]

theorem runLW_congr (acc acc' : Nat × Nat → Bool) (n : Nat) (cs : List (Nat × Nat)) (h : ∀ uv ∈ cs, acc uv = acc' uv) :
    runLW acc n cs = runLW acc' n cs := by
  unfold runLW
  generalize List.replicate n [] = rows
  induction cs generalizing rows with
  | nil => rfl
  | cons uv cs ih =>
    rw [foldl_cons, foldl_cons]
    have : stepLW acc rows uv = stepLW acc' rows uv := by unfold stepLW; rw [h uv mem_cons_self]
    rw [this]
    exact ih (fun x hx => h x (mem_cons_of_mem _ hx)) _

theorem runAW_congr (junk : Nat → Nat → Nat) (init delta : Nat) (acc acc' : Nat × Nat → Bool) (n : Nat) (cs : List (Nat × Nat))
    (h : ∀ uv ∈ cs, acc uv = acc' uv) : runAW junk init delta acc n cs = runAW junk init delta acc' n cs := by
  unfold runAW
  generalize initA junk n init = st
  induction cs generalizing st with
  | nil => rfl
  | cons uv cs ih =>
    rw [foldl_cons, foldl_cons]
    have : stepAW junk delta acc st uv = stepAW junk delta acc' st uv := by unfold stepAW; rw [h uv mem_cons_self]
    rw [this]
    exact ih (fun x hx => h x (mem_cons_of_mem _ hx)) _

/-- **driver_pipeline_as_modelled**: the computation of the driver's `nlist` request — pairs read from the capacity bin table
    filled as coded, acceptance from the memoised table, per-atom capacity rows with `initialsize` / `deltasize ≥ 1` and
    whatever `np.empty` leaves — is `nlistCall` of the theorems; read through `[i]` it gives the lists `nlistL`, with one row of
    width `maxneighbors + 1` per atom and `coord` = the list length. -/
theorem driver_pipeline_as_modelled (junk : Nat → Nat → Nat) (init delta : Nat) (hd : 1 ≤ delta) (S : Sys) (cutoff : ℚ) :
    runAW junk init delta (tableAccept (distTable S) (cutoff * cutoff)) S.natoms (candsA srcBinParams S cutoff)
      = nlistCall junk (.given init) (.given delta) S cutoff ∧
    absRows (nlistCall junk (.given init) (.given delta) S cutoff).rows = nlistL S cutoff := by
  have hcs : ∀ uv ∈ candsA srcBinParams S cutoff, uv.1 < S.natoms ∧ uv.2 < S.natoms := by
    rw [cands_table_eq]; exact fun uv h => cands_lt S cutoff uv h
  have e : nlistCall junk (.given init) (.given delta) S cutoff = nlistA junk init delta S cutoff := by
    unfold nlistCall nlistFull nlistA initialsizeOf deltasizeOf
    rw [cands_table_eq]
  refine ⟨?_, ?_⟩
  · unfold nlistCall nlistFull runA initialsizeOf deltasizeOf
    exact runAW_congr junk init delta _ _ _ _ (fun uv h => table_accept_as_modelled S _ uv (hcs uv h).1 (hcs uv h).2)
  · rw [e]; exact storage_refines junk init delta hd S cutoff

/-- **nlistCall_shape**: the array behind the returned `NeighborList`, for every call form: one row per atom, every row of width
    `maxneighbors + 1`, and `coord[i]` (column 0) is the length of `[i]`. -/
theorem nlistCall_shape (junk : Nat → Nat → Nat) (a b : SizeArg) (hb : ∀ n, b = .given n → 1 ≤ n) (S : Sys) (cutoff : ℚ) :
    (nlistCall junk a b S cutoff).rows.length = S.natoms ∧
    ∀ r ∈ (nlistCall junk a b S cutoff).rows,
      r.length = (nlistCall junk a b S cutoff).maxn + 1 ∧ coordOf r = (absRow r).length := by
  have hd : 1 ≤ deltasizeOf b := by
    cases b with
    | given n => exact hb n rfl
    | viaBuild => exact src_defaults_valid.2.2.2
    | viaNlist => exact src_defaults_valid.2.1
  have e : nlistCall junk a b S cutoff = nlistA junk (initialsizeOf a) (deltasizeOf b) S cutoff := by
    unfold nlistCall nlistFull nlistA
    rw [cands_table_eq]
  rw [e]
  exact storage_coord junk (initialsizeOf a) (deltasizeOf b) hd S cutoff

/-- the pair list of the driver's request is `candsA srcBinParams` by definition, and a size left out on the wire is the default
    standing in the source. -/
example (S : Sys) (cutoff : ℚ) : candsA srcBinParams S cutoff =
    (occupied (entries S (mkGrid S cutoff))).flatMap
      (binPairsA (mkGrid S cutoff) (fillBins srcBinParams (entries S (mkGrid S cutoff)))) := rfl
example (junk : Nat → Nat → Nat) (a b : SizeArg) (S : Sys) (cutoff : ℚ) :
    nlistCall junk a b S cutoff = nlistCall junk (.given (initialsizeOf a)) (.given (deltasizeOf b)) S cutoff := rfl


/-! ### statement audit: every hypothesis of the theorems above discharged on concrete systems -/

section audit_examples

/-- tilted cell, non-zero origin, periodic in the first and third direction only, three atoms (relative coordinates
    `(1/8, 1/8, 1/10)`, `(7/8, 1/8, 1/10)`, `(1/2, 1/2, 9/10)`); atoms 0 and 1 are 3 apart directly and 1 apart through the
    image along the first cell vector. -/
def audSys : Sys :=
  ⟨⟨⟨4, 0, 0⟩, ⟨1, 4, 0⟩, ⟨1/2, 1, 5⟩⟩, ⟨1, -2, 1/2⟩, true, false, true,
   [⟨67/40, -7/5, 1⟩, ⟨187/40, -7/5, 1⟩, ⟨79/20, 9/10, 5⟩]⟩

theorem audSys_inside : ∀ i, i < audSys.natoms → InsideCell audSys (audSys.posOf i) := by
  intro i hi
  have : i = 0 ∨ i = 1 ∨ i = 2 := by
    have : audSys.natoms = 3 := rfl
    omega
  rcases this with rfl | rfl | rfl
  · exact ⟨⟨1/8, 1/8, 1/10⟩, by norm_num, by norm_num, by norm_num, by norm_num, by norm_num, by norm_num,
      by simp [audSys, Sys.posOf]; norm_num⟩
  · exact ⟨⟨7/8, 1/8, 1/10⟩, by norm_num, by norm_num, by norm_num, by norm_num, by norm_num, by norm_num,
      by simp [audSys, Sys.posOf]; norm_num⟩
  · exact ⟨⟨1/2, 1/2, 9/10⟩, by norm_num, by norm_num, by norm_num, by norm_num, by norm_num, by norm_num,
      by simp [audSys, Sys.posOf]; norm_num⟩

example : nlistL audSys (3/2) = [[1], [0], []] ∧ nlistL audSys (5/2) = [[1, 2], [0, 2], [0, 1]] ∧ dist2 audSys 0 1 = 1 := by
  decide +kernel

example : Inv 3 (insertPairL [[1], [0], []] 2 0) :=
  insert_inv (n := 3) (rows := [[1], [0], []]) ⟨rfl, by
    intro i hi
    have : i = 0 ∨ i = 1 ∨ i = 2 := by omega
    rcases this with rfl | rfl | rfl <;> simp [rowOf]⟩ (by decide) (by decide) (by decide)
example : (1 : Nat) ≠ 0 ∧ dist2 audSys 0 1 < 3/2 * (3/2) := alg_sound audSys (3/2) 0 1 (by decide +kernel)
example : rowOf (runL audSys (9/4) [(0, 1), (2, 1), (1, 0), (0, 1)]) 0 = comparedFilter audSys (9/4) [(0, 1), (2, 1), (1, 0), (0, 1)] 0 :=
  alg_eq_compared audSys (9/4) _ (by decide) 0 (by decide)
example : runL audSys (25/4) [(0, 1), (2, 1), (0, 2)] = runL audSys (25/4) [(0, 2), (0, 1), (0, 1), (2, 1)] :=
  alg_order_irrelevant audSys (25/4) _ _ (by decide) (by intro uv; simp only [List.mem_cons, List.not_mem_nil, or_false]; tauto)
example := storage_refines (fun i k => 7 * i + k) 1 1 (le_refl 1) audSys (5/2)
example := storage_coord (fun i k => 7 * i + k) 1 1 (le_refl 1) audSys (5/2)
example : absRows (nlistA (fun i k => 7 * i + k) 1 1 audSys (5/2)).rows = [[1, 2], [0, 2], [0, 1]] ∧
    (nlistA (fun i k => 7 * i + k) 1 1 audSys (5/2)).maxn = 2 := by decide +kernel
/-- two points in neighbouring bins. -/
example : |binIdx 0 1 5 (5/4) - binIdx 0 1 5 (3/4)| ≤ 1 := adjacent_bins 0 1 5 (by norm_num) (3/4) (5/4) (by norm_num)
example : binIdx 0 1 5 (5/4) = 1 ∧ binIdx 0 1 5 (3/4) = 0 := by decide +kernel
/-- the image of atom 1 shifted by minus the first cell vector is close to atom 0 and is a ghost entry of the sweep. -/
example := ghost_exists audSys (3/2) (by norm_num) 0 1 (by decide) (audSys_inside 0 (by decide)) (-1, 0, 0) (by decide)
  (by decide +kernel)
example : (0, 1) ∈ cands audSys (3/2) ∨ (1, 0) ∈ cands audSys (3/2) :=
  compared_complete audSys (3/2) (by norm_num) audSys_inside 0 1 (by decide) (by decide) (by decide) (by decide +kernel)
example : rowOf (nlistL audSys (5/2)) 2 = nlistSpec audSys (5/2) 2 :=
  alg_complete audSys (5/2) (by norm_num) audSys_inside 2 (by decide)
example := nlistA_complete (fun i k => 7 * i + k) 1 1 (le_refl 1) audSys (5/2) (by norm_num) audSys_inside 2 (by decide)
example := nlistFull_complete (fun i k => 7 * i + k) 1 1 (le_refl 1) audSys (5/2) (by norm_num) audSys_inside 2 (by decide)
example := nlistCall_complete (fun i k => 7 * i + k) .viaNlist (.given 1) (by intro n h; cases h; decide) audSys (5/2) (by norm_num)
  audSys_inside 2 (by decide)
example := nlistCall_form_irrelevant (fun i k => 7 * i + k) (fun _ _ => 0) .viaNlist (.given 1) (.given 1) .viaBuild
  (by intro n h; cases h; decide) (by intro n h; cases h) audSys (5/2) (by norm_num) audSys_inside 2 (by decide)
example : ∀ b, membersA (fillBins srcBinParams (entries audSys (mkGrid audSys (3/2)))) b = members (entries audSys (mkGrid audSys (3/2))) b := by
  obtain ⟨s, h⟩ := src_bins_sound
  exact fun b => bins_refine srcBinParams s h _ b
/-- a history (move, new periodicity, an earlier call) ending in the state `audSys`. -/
example := answers_complete ⟨audSys.vects, audSys.origin, true, true, true, audSys.pos.set 2 ⟨0, 0, 0⟩⟩
  [.query 1, .setPos 2 ⟨79/20, 9/10, 5⟩, .setPbc true false true] (5/2) (by norm_num) audSys_inside
example := answers_history_independent ⟨audSys.vects, audSys.origin, true, true, true, audSys.pos.set 2 ⟨0, 0, 0⟩⟩ audSys
  [.query 1, .setPos 2 ⟨79/20, 9/10, 5⟩, .setPbc true false true] [] (5/2) rfl
example : rowOf (nlistL (scaleSys (3/2) audSys) (3/2 * (5/2))) 1 = rowOf (nlistL audSys (5/2)) 1 :=
  nlist_scale_invariant (3/2) (by norm_num) audSys (5/2) (by norm_num) audSys_inside 1 (by decide)
example : nlistSpec (translateSys ⟨1, -2, 1/3⟩ audSys) (5/2) 1 = nlistSpec audSys (5/2) 1 :=
  spec_translate_invariant ⟨1, -2, 1/3⟩ audSys (5/2) 1 (by decide)
example : rowOf (nlistL (translateSys ⟨1, -2, 1/3⟩ audSys) (5/2)) 1 = rowOf (nlistL audSys (5/2)) 1 :=
  nlist_translate_invariant ⟨1, -2, 1/3⟩ audSys (5/2) (by norm_num) audSys_inside 1 (by decide)
example : nlistSpec (mirrorSys ⟨-1, 1, -1⟩ audSys) (5/2) 1 = nlistSpec audSys (5/2) 1 :=
  spec_mirror_invariant ⟨-1, 1, -1⟩ (by unfold IsSign; norm_num) audSys (5/2) 1
example : rowOf (nlistL (mirrorSys ⟨-1, 1, -1⟩ audSys) (5/2)) 1 = rowOf (nlistL audSys (5/2)) 1 :=
  nlist_mirror_invariant ⟨-1, 1, -1⟩ (by unfold IsSign; norm_num) audSys (5/2) (by norm_num) audSys_inside 1 (by decide)
example := nlist_farface_invariant true false true audSys (5/2) (by norm_num) audSys_inside 1 (by decide)
example := nlist_reorder_invariant audSys (5/2) (by norm_num) audSys_inside 1 (by decide)
example := nlist_axes_invariant audSys (5/2) (by norm_num) audSys_inside 1 (by decide)
example : (mirrorSys ⟨-1, 1, -1⟩ audSys).vects.r2 = ⟨-1/2, 1, -5⟩ ∧ (farFaceSys true false true audSys).origin = ⟨11/2, -1, 11/2⟩ := by
  decide +kernel
/-- a scan that runs to the end of the filled part of a row: entries 1, 3 (columns 1, 2), new entry 5. -/
example : scanLoopA [2, 1, 3, 0] 5 2 1 = (true, 3) :=
  scan_exhausted [2, 1, 3, 0] 5 2 1 (by
    intro k h1 h2
    have : k = 1 ∨ k = 2 := by omega
    rcases this with rfl | rfl <;> decide)

/-- a negative factor (the specification only needs `s ≠ 0`). -/
example : nlistSpec (scaleSys (-2) audSys) (-2 * (5/2)) 1 = nlistSpec audSys (5/2) 1 :=
  spec_scale_invariant (-2) (by norm_num) audSys (5/2) 1
example := driver_pipeline_as_modelled (fun i k => 7 * i + k) 1 1 (le_refl 1) audSys (5/2)
example := nlistCall_shape (fun i k => 7 * i + k) .viaBuild (.given 1) (by intro n h; cases h; decide) audSys (5/2)
example : tableAccept (distTable audSys) (25/4) (2, 0) = accept audSys (25/4) (2, 0) :=
  table_accept_as_modelled audSys (25/4) (2, 0) (by decide) (by decide)
example : accept audSys (25/4) (2, 0) = true ∧ accept audSys (9/4) (2, 0) = false := by decide +kernel

end audit_examples

/-- **nlistCall_sizes_irrelevant**: "the result is independent of the initial and incremental storage sizes", without any
    condition on the system: for every cell, every position of the atoms (inside the cell or not), every cutoff, every way the
    two sizes are given or left out (`deltasize ≥ 1` when given) and whatever `np.empty` leaves in fresh cells, the lists read
    from the returned array are the lists `nlistL` built on growing lists, which do not mention the sizes. -/
theorem nlistCall_sizes_irrelevant (junk : Nat → Nat → Nat) (a b : SizeArg) (hb : ∀ n, b = .given n → 1 ≤ n) (S : Sys)
    (cutoff : ℚ) : absRows (nlistCall junk a b S cutoff).rows = nlistL S cutoff := by
  have hd : 1 ≤ deltasizeOf b := by
    cases b with
    | given n => exact hb n rfl
    | viaBuild => exact src_defaults_valid.2.2.2
    | viaNlist => exact src_defaults_valid.2.1
  have e : nlistCall junk a b S cutoff = nlistA junk (initialsizeOf a) (deltasizeOf b) S cutoff := by
    unfold nlistCall nlistFull nlistA
    rw [cands_table_eq]
  rw [e]
  exact storage_refines junk (initialsizeOf a) (deltasizeOf b) hd S cutoff

/-- an atom outside the cell (relative coordinate 3/2 along the first vector), no periodic direction: the lists are no longer
    the specification's business, but they still do not depend on the storage sizes. -/
example : absRows (nlistCall (fun i k => 7 * i + k) (.given 1) (.given 1)
      ⟨audSys.vects, audSys.origin, false, false, false, audSys.pos.set 1 ⟨267/40, -7/5, 1⟩⟩ (5/2)).rows =
    absRows (nlistCall (fun _ _ => 0) .viaBuild .viaNlist
      ⟨audSys.vects, audSys.origin, false, false, false, audSys.pos.set 1 ⟨267/40, -7/5, 1⟩⟩ (5/2)).rows := by
  rw [nlistCall_sizes_irrelevant _ _ _ (by intro n h; cases h; decide), nlistCall_sizes_irrelevant _ _ _ (by intro n h; cases h)]

/-- **nlistCall_structure**: the structural clauses for the object a call returns, in every call form and without any condition
    on the system: one list per atom; every list strictly ascending (sorted, free of duplicates), entries are atom indices
    other than the atom itself, and `j` in the list of `i` implies `i` in the list of `j`. -/
theorem nlistCall_structure (junk : Nat → Nat → Nat) (a b : SizeArg) (hb : ∀ n, b = .given n → 1 ≤ n) (S : Sys) (cutoff : ℚ) :
    (absRows (nlistCall junk a b S cutoff).rows).length = S.natoms ∧ ∀ i, i < S.natoms →
      (rowOf (absRows (nlistCall junk a b S cutoff).rows) i).Pairwise (· < ·) ∧
      (rowOf (absRows (nlistCall junk a b S cutoff).rows) i).Nodup ∧
      ∀ j ∈ rowOf (absRows (nlistCall junk a b S cutoff).rows) i,
        j < S.natoms ∧ j ≠ i ∧ i ∈ rowOf (absRows (nlistCall junk a b S cutoff).rows) j := by
  rw [nlistCall_sizes_irrelevant junk a b hb S cutoff]
  exact alg_inv S cutoff

example := nlistCall_structure (fun i k => 7 * i + k) .viaNlist (.given 1) (by intro n h; cases h; decide) audSys (5/2)

theorem ratAbs'_eq_abs (r : ℚ) : ratAbs' r = |r| := by
  unfold ratAbs'
  split_ifs with h
  · exact (abs_of_neg h).symm
  · exact (abs_of_nonneg (not_lt.mp h)).symm

/-- **nearCutoff_iff**: the cases the comparison with the real code exempts as "a distance within rounding of the cutoff" are
    exactly the systems with a pair of atoms `j < i` whose squared periodic distance is within `tol · cutoff²` of `cutoff²`. -/
theorem nearCutoff_iff (S : Sys) (cutoff tol : ℚ) :
    nearCutoff (distTable S) cutoff tol = true ↔
      ∃ i j, i < S.natoms ∧ j < i ∧ |dist2 S j i - cutoff * cutoff| ≤ tol * (cutoff * cutoff) := by
  unfold nearCutoff distTable
  simp only [List.any_toArray, List.any_map, List.any_eq_true, List.mem_range, Function.comp, decide_eq_true_eq,
    ratAbs'_eq_abs]
  constructor
  · rintro ⟨i, hi, j, hj, h⟩; exact ⟨i, j, hi, hj, h⟩
  · rintro ⟨i, j, hi, hj, h⟩; exact ⟨i, hi, j, hj, h⟩

example : nearCutoff (distTable audSys) 1 (1/1000) = true ∧ nearCutoff (distTable audSys) (3/2) (1/1000) = false := by
  decide +kernel

end Atomman.C03
