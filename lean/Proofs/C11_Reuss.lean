/-
  C11 — the compliance of the rotated stiffness is the rotated compliance tensor, hence the Reuss (and Hill)
  estimates are rotation invariant.  `S` is any two-sided 6x6 inverse (parameter of the model).
-/
import Proofs.C11_Crystal
import Proofs.C11_Iso

namespace Atomman.C11
open Atomman.Gen Matrix Kronecker
set_option linter.unusedSectionVars false
set_option linter.unusedSimpArgs false
set_option linter.unusedVariables false
set_option linter.unnecessarySeqFocus false
set_option linter.unusedTactic false
set_option linter.unreachableTactic false

variable {K : Type} [Field K] [CharZero K]

/-- the symmetric identity `½(δ_ik δ_jl + δ_il δ_jk)`. -/
def isymT : T4 K := (1 / 2 : K) • (p13 mone mone + p14 mone mone)

theorem isymT_apply (i j m n : Fin 3) :
    (isymT : T4 K) i j m n = ((if i = m ∧ j = n then 1 else 0) + (if i = n ∧ j = m then 1 else 0)) / 2 := by
  have e : ∀ (p q : Prop) [Decidable p] [Decidable q],
      (if p then (1 : K) else 0) * (if q then 1 else 0) = if p ∧ q then 1 else 0 := by
    intro p q _ _; by_cases hp : p <;> by_cases hq : q <;> simp [hp, hq]
  simp only [isymT, Pi.smul_apply, Pi.add_apply, smul_eq_mul, p13, p14, mone, e]
  ring

theorem rot_isymT (T : M33 K) (h : Orthogonal T) : rot T (isymT : T4 K) = isymT := by
  simp only [isymT, rot_add', rot_smul', rot_p13, rot_p14, conj_mone T h]

theorem toMat_mul (A B : T4 K) (i j m n : Fin 3) :
    (toMat A * toMat B) (i, j) (m, n) = ∑ k, ∑ l, A i j k l * B k l m n := by
  simp only [Matrix.mul_apply, Fintype.sum_prod_type, toMat]

/-- `C·S = 1` in tensor form. -/
theorem toMat_contraction (c s : M6 K) (hcs : ∀ a d : Fin 6, ∑ b, c a b * s b d = if a = d then 1 else 0) :
    toMat (cijklGet c) * toMat (sijklGet s) = toMat (isymT : T4 K) := by
  ext ⟨i, j⟩ ⟨m, n⟩
  rw [toMat_mul]
  have := contraction_of_inverse c s hcs i j m n
  simp only [sum3_eq] at this
  rw [this]
  simp only [toMat, isymT_apply]

/-- the rotated stiffness and the rotated compliance tensors still contract to the symmetric identity. -/
theorem rot_contraction (T : M33 K) (h : Orthogonal T) (C S : T4 K) (hCS : toMat C * toMat S = toMat (isymT : T4 K)) :
    toMat (rot T C) * toMat (rot T S) = toMat (isymT : T4 K) := by
  have e : toMat (rot T C) * toMat (rot T S) = kron T * (toMat C * toMat S) * (kron T)ᵀ := by
    rw [rot_toMat, rot_toMat]
    calc kron T * toMat C * (kron T)ᵀ * (kron T * toMat S * (kron T)ᵀ)
        = kron T * toMat C * ((kron T)ᵀ * kron T) * toMat S * (kron T)ᵀ := by simp only [Matrix.mul_assoc]
      _ = kron T * (toMat C * toMat S) * (kron T)ᵀ := by rw [h.kron_tr_mul, Matrix.mul_one]; simp only [Matrix.mul_assoc]
  rw [e, hCS, ← rot_toMat, rot_isymT T h]

theorem minor_right (C : T4 K) (h : MinorSymm C) (i j k l : Fin 3) :
    C i j (pairOf (voigt k l)).1 (pairOf (voigt k l)).2 = C i j k l := by
  rcases pairOf_voigt k l with h2 | h2 <;> rw [h2]
  exact ((h i j k l).2).symm

theorem minor_left (C : T4 K) (h : MinorSymm C) (i j k l : Fin 3) :
    C (pairOf (voigt i j)).1 (pairOf (voigt i j)).2 k l = C i j k l := by
  rcases pairOf_voigt i j with h2 | h2 <;> rw [h2]
  exact ((h i j k l).1).symm

/-- 6x6 product of a stiffness-type and a compliance-type matrix versus the double contraction. -/
theorem setRaw_mul (A B : T4 K) (hA : MinorSymm A) (hB : MinorSymm B) (a d : Fin 6) :
    ∑ b, cijklSetRaw A a b * sijklSetRaw B b d
      = (mult d : K) * (toMat A * toMat B) ((pairOf a).1, (pairOf a).2) ((pairOf d).1, (pairOf d).2) := by
  rw [toMat_mul]
  let F : Fin 6 → K := fun b => A (pairOf a).1 (pairOf a).2 (pairOf b).1 (pairOf b).2
      * B (pairOf b).1 (pairOf b).2 (pairOf d).1 (pairOf d).2
  have hF : ∀ k l : Fin 3, A (pairOf a).1 (pairOf a).2 k l * B k l (pairOf d).1 (pairOf d).2 = F (voigt k l) := by
    intro k l
    show _ = A _ _ _ _ * B _ _ _ _
    rw [minor_right A hA, minor_left B hB]
  have hsum : ∑ k, ∑ l, A (pairOf a).1 (pairOf a).2 k l * B k l (pairOf d).1 (pairOf d).2
      = ∑ k : Fin 3, ∑ l : Fin 3, F (voigt k l) :=
    Finset.sum_congr rfl fun k _ => Finset.sum_congr rfl fun l _ => hF k l
  rw [hsum, sum_pairs F, Finset.mul_sum]
  refine Finset.sum_congr rfl fun b _ => ?_
  rw [cijklSetRaw_eq, sijklSetRaw_eq]
  show _ = _ * (_ * (A _ _ _ _ * B _ _ _ _))
  push_cast; ring

/-- the 6x6 form of the rotated compliance tensor is a right inverse of the 6x6 form of the rotated stiffness. -/
theorem rotated_inverse (c s : M6 K) (hcs : ∀ a d : Fin 6, ∑ b, c a b * s b d = if a = d then 1 else 0)
    (T : M33 K) (h : Orthogonal T) (a d : Fin 6) :
    ∑ b, cijklSetRaw (rot T (cijklGet c)) a b * sijklSetRaw (rot T (sijklGet s)) b d = if a = d then 1 else 0 := by
  have hS : MinorSymm (sijklGet s) := by
    intro i j k l
    simp only [sijklGet_eq]
    exact ⟨by rw [voigt_symm i j], by rw [voigt_symm k l]⟩
  rw [setRaw_mul _ _ (rot_minor T (cijklGet_minor c)) (rot_minor T hS),
    rot_contraction T h _ _ (toMat_contraction c s hcs)]
  simp only [toMat, isymT_apply]
  have := congrArg (Nat.cast : ℕ → K) (delta_nat (pairOf a).1 (pairOf a).2 (pairOf d).1 (pairOf d).2)
  rw [voigt_pairOf, voigt_pairOf] at this
  push_cast at this
  have e : (mult d : K) * (((if (pairOf a).1 = (pairOf d).1 ∧ (pairOf a).2 = (pairOf d).2 then 1 else 0)
      + (if (pairOf a).1 = (pairOf d).2 ∧ (pairOf a).2 = (pairOf d).1 then 1 else 0)) / 2)
      = (if a = d then (2 : K) else 0) / 2 := by
    rw [this]; ring
  rw [e]
  split_ifs <;> norm_num

/-- a two-sided inverse of a symmetric matrix is symmetric. -/
theorem inverse_symm (c s : M6 K) (hc : Symm6 c)
    (hcs : ∀ a d : Fin 6, ∑ b, c a b * s b d = if a = d then 1 else 0)
    (hsc : ∀ a d : Fin 6, ∑ b, s a b * c b d = if a = d then 1 else 0) : Symm6 s := by
  have h1 : Matrix.of c * Matrix.of s = 1 := by
    ext a d; simp [Matrix.mul_apply, hcs a d, Matrix.one_apply]
  have hct : (Matrix.of c)ᵀ = Matrix.of c := by
    ext a d; simp [Matrix.transpose_apply, hc d a]
  have h3 : (Matrix.of s)ᵀ * Matrix.of c = 1 := by
    rw [← hct, ← Matrix.transpose_mul, h1, Matrix.transpose_one]
  have h4 : (Matrix.of s)ᵀ = Matrix.of s := by
    calc (Matrix.of s)ᵀ = (Matrix.of s)ᵀ * (Matrix.of c * Matrix.of s) := by rw [h1, Matrix.mul_one]
      _ = Matrix.of s := by rw [← Matrix.mul_assoc, h3, Matrix.one_mul]
  intro a b
  have := congrFun (congrFun h4 a) b
  simpa [Matrix.transpose_apply] using this.symm

theorem bulkReuss_eq_tr (S : T4 K) (hM : MajorSymm S) : bulkReuss (sijklSetRaw S) = 1 / tr1 S := by
  obtain ⟨p0, p1, p2, p3, p4, p5⟩ := pairOf_vals
  obtain ⟨m0, m1, m2, m3, m4, m5⟩ := mult_vals
  simp only [bulkReuss, sijklSetRaw_eq, tr1, sum3, p0, p1, p2, m0, m1, m2, Nat.cast_ofNat, Nat.cast_one, mul_one,
    one_mul]
  rw [hM 1 1 0 0, hM 2 2 0 0, hM 2 2 1 1]
  congr 1; ring

theorem shearReuss_eq_tr (S : T4 K) (hm : MinorSymm S) (hM : MajorSymm S) :
    shearReuss (sijklSetRaw S) = 15 / (6 * tr2 S - 2 * tr1 S) := by
  obtain ⟨p0, p1, p2, p3, p4, p5⟩ := pairOf_vals
  obtain ⟨m0, m1, m2, m3, m4, m5⟩ := mult_vals
  simp only [shearReuss, sijklSetRaw_eq, tr1, tr2, sum3, p0, p1, p2, p3, p4, p5, m0, m1, m2, m3, m4, m5,
    Nat.cast_ofNat, Nat.cast_one, mul_one, one_mul]
  have e1 : S 1 0 1 0 = S 0 1 0 1 := by rw [(hm 1 0 1 0).1, (hm 0 1 1 0).2]
  have e2 : S 2 0 2 0 = S 0 2 0 2 := by rw [(hm 2 0 2 0).1, (hm 0 2 2 0).2]
  have e3 : S 2 1 2 1 = S 1 2 1 2 := by rw [(hm 2 1 2 1).1, (hm 1 2 2 1).2]
  rw [hM 1 1 0 0, hM 2 2 0 0, hM 2 2 1 1, e1, e2, e3]
  congr 1; ring

/-- Reuss estimates of the rotated stiffness, computed with *any* two-sided inverse `s'` of the rotated 6x6,
    equal those of the original (symmetric `c` with two-sided inverse `s`, orthogonal `T`). -/
theorem reuss_rot (c s s' : M6 K) (hc : Symm6 c)
    (hcs : ∀ a d : Fin 6, ∑ b, c a b * s b d = if a = d then 1 else 0)
    (hsc : ∀ a d : Fin 6, ∑ b, s a b * c b d = if a = d then 1 else 0)
    (T : M33 K) (h : Orthogonal T)
    (hs' : ∀ a d : Fin 6, ∑ b, s' a b * cijklSetRaw (rot T (cijklGet c)) b d = if a = d then 1 else 0) :
    bulkReuss s' = bulkReuss s ∧ shearReuss s' = shearReuss s := by
  have hX : s' = sijklSetRaw (rot T (sijklGet s)) := inverse_unique _ _ _ hs' (rotated_inverse c s hcs T h)
  have hss : Symm6 s := inverse_symm c s hc hcs hsc
  have hSm : MinorSymm (sijklGet s) := by
    intro i j k l
    simp only [sijklGet_eq]
    exact ⟨by rw [voigt_symm i j], by rw [voigt_symm k l]⟩
  have hSM : MajorSymm (sijklGet s) := by
    intro i j k l
    simp only [sijklGet_eq]
    rw [hss (voigt i j) (voigt k l), Nat.mul_comm]
  have hrt : sijklSetRaw (sijklGet s) = s := by
    funext a b
    rw [sijklSetRaw_eq, sijklGet_eq, voigt_pairOf, voigt_pairOf]
    have := mult_ne_zero (K := K) a
    have := mult_ne_zero (K := K) b
    push_cast; field_simp
  rw [hX]
  constructor
  · rw [bulkReuss_eq_tr _ (rot_major T hSM), tr1_rot T h, ← bulkReuss_eq_tr _ hSM, hrt]
  · rw [shearReuss_eq_tr _ (rot_minor T hSm) (rot_major T hSM), tr1_rot T h, tr2_rot T h,
      ← shearReuss_eq_tr _ hSm hSM, hrt]

/-! ### the two pictures of Hooke's law -/

/-- Hooke's law in both pictures: `σ_ij = Σ_kl C_ijkl ε_kl` is `σ_a = Σ_b c_ab ε̂_b` with the engineering strains
    `ε̂_b = mult(b)·ε_b` (symmetric `ε`). -/
theorem hooke_voigt_aux (c : M6 K) (e : M33 K) (he : ∀ i j, e i j = e j i) (i j : Fin 3) :
    (sum3 fun k => sum3 fun l => cijklGet c i j k l * e k l)
      = ∑ b : Fin 6, c (voigt i j) b * ((mult b : K) * e (pairOf b).1 (pairOf b).2) := by
  simp only [sum3_eq, cijklGet_eq]
  have hF : ∀ k l : Fin 3, c (voigt i j) (voigt k l) * e k l
      = (fun b : Fin 6 => c (voigt i j) b * e (pairOf b).1 (pairOf b).2) (voigt k l) := by
    intro k l
    show _ = c _ _ * e _ _
    rcases pairOf_voigt k l with h | h <;> rw [h]
    exact congrArg _ (he k l)
  rw [Finset.sum_congr rfl fun k _ => Finset.sum_congr rfl fun l _ => hF k l,
    sum_pairs (fun b : Fin 6 => c (voigt i j) b * e (pairOf b).1 (pairOf b).2)]
  exact Finset.sum_congr rfl fun b _ => by ring

/-- the inverse law: `ε_ij = Σ_kl S_ijkl σ_kl` is `ε̂_a = Σ_b s_ab σ_b` (symmetric `σ`); this is what the
    `/2`, `/4` (getter) and `2.`, `4.` (setter) weights are for. -/
theorem hooke_inverse_voigt_aux (s : M6 K) (σ : M33 K) (hσ : ∀ i j, σ i j = σ j i) (i j : Fin 3) :
    (mult (voigt i j) : K) * (sum3 fun k => sum3 fun l => sijklGet s i j k l * σ k l) =
      ∑ b : Fin 6, s (voigt i j) b * σ (pairOf b).1 (pairOf b).2 := by
  simp only [sum3_eq, sijklGet_eq]
  have hF : ∀ k l : Fin 3, s (voigt i j) (voigt k l) / ((mult (voigt i j) * mult (voigt k l) : ℕ) : K) * σ k l
      = (fun b : Fin 6 => s (voigt i j) b / ((mult (voigt i j) * mult b : ℕ) : K) * σ (pairOf b).1 (pairOf b).2)
          (voigt k l) := by
    intro k l
    show _ = s _ _ / _ * σ _ _
    rcases pairOf_voigt k l with h | h <;> rw [h]
    exact congrArg _ (hσ k l)
  rw [Finset.sum_congr rfl fun k _ => Finset.sum_congr rfl fun l _ => hF k l,
    sum_pairs (fun b : Fin 6 => s (voigt i j) b / ((mult (voigt i j) * mult b : ℕ) : K) * σ (pairOf b).1 (pairOf b).2),
    Finset.mul_sum]
  refine Finset.sum_congr rfl fun b _ => ?_
  have h1 := mult_ne_zero (K := K) b
  have h2 := mult_ne_zero (K := K) (voigt i j)
  push_cast; field_simp

end Atomman.C11
