/-
  C10_System — helper lemmas for the System / ElasticConstants round trips:
  (n,3)-row maps, the 3x3 inverse on rows (box-scaled properties), lookups in the `atomic-system` node.
-/
import Proofs.C10_Lemmas
import Mathlib.Tactic.LinearCombination
namespace Atomman.C10
set_option linter.unusedSimpArgs false
set_option linter.unusedVariables false
variable {K : Type}

/-- total version of `mapRows3`. -/
def rowsMap (f : V3 K → V3 K) : List K → List K
  | x :: y :: z :: r => (f ⟨x, y, z⟩).toList ++ rowsMap f r
  | _ => []

theorem mapRows3_eq (f : V3 K → V3 K) : ∀ (n : Nat) (l : List K), l.length = 3 * n →
    mapRows3 f l = some (rowsMap f l) ∧ (rowsMap f l).length = l.length := by
  intro n
  induction n with
  | zero => intro l h; have : l = [] := List.length_eq_zero_iff.mp (by simpa using h); subst this; exact ⟨rfl, rfl⟩
  | succ n ih =>
    intro l h
    match l, h with
    | x :: y :: z :: r, h =>
      obtain ⟨h1, h2⟩ := ih r (by simp at h; omega)
      simp [mapRows3, rowsMap, h1, h2, V3.toList]

theorem rowsMap_comp (f g : V3 K → V3 K) : ∀ (n : Nat) (l : List K), l.length = 3 * n →
    rowsMap g (rowsMap f l) = rowsMap (fun v => g (f v)) l := by
  intro n
  induction n with
  | zero => intro l h; have : l = [] := List.length_eq_zero_iff.mp (by simpa using h); subst this; rfl
  | succ n ih =>
    intro l h
    match l, h with
    | x :: y :: z :: r, h =>
      simp [rowsMap, V3.toList, ih r (by simp at h; omega)]

theorem rowsMap_pointwise (f : V3 K → V3 K) (g : K → K) (hf : ∀ v, f v = v.map g) : ∀ (n : Nat) (l : List K), l.length = 3 * n →
    rowsMap f l = l.map g := by
  intro n
  induction n with
  | zero => intro l h; have : l = [] := List.length_eq_zero_iff.mp (by simpa using h); subst this; rfl
  | succ n ih =>
    intro l h
    match l, h with
    | x :: y :: z :: r, h =>
      simp [rowsMap, V3.toList, hf, V3.map, ih r (by simp at h; omega)]

theorem prodNat_last3 : ∀ (s : List Nat), s.getLast? = some 3 → ∃ n, prodNat s = 3 * n := by
  intro s
  induction s with
  | nil => intro h; simp at h
  | cons a s ih =>
    intro h
    cases s with
    | nil => simp at h; subst h; exact ⟨1, rfl⟩
    | cons b s =>
      rw [List.getLast?_cons_cons] at h
      obtain ⟨n, hn⟩ := ih h
      exact ⟨a * n, by rw [prodNat_cons, hn]; ring⟩

section field
variable [Field K]

theorem v3_add_def (a b : V3 K) : a + b = ⟨a.x + b.x, a.y + b.y, a.z + b.z⟩ := rfl
theorem v3_sub_def (a b : V3 K) : a - b = ⟨a.x - b.x, a.y - b.y, a.z - b.z⟩ := rfl

theorem rel_cart_scaled (m : M3 K) (o : V3 K) (r : K) (hdet : M3.det m ≠ 0) (p : V3 K) :
    Box.relToCart ⟨mapM3 (· * r) m, o.map (· * r)⟩ (Box.cartToRel ⟨m, o⟩ p) = p.map (· * r) := by
  obtain ⟨⟨a, b, c⟩, ⟨d, e, f⟩, ⟨g, h, i⟩⟩ := m
  obtain ⟨ox, oy, oz⟩ := o
  obtain ⟨px, py, pz⟩ := p
  simp only [M3.det, V3.dot, V3.cross] at hdet
  simp only [Box.relToCart, Box.cartToRel, Box.recip, M3.inv, M3.transpose, M3.mulVec, M3.vecMul, M3.det, V3.dot, V3.cross,
    mapM3, V3.map, v3_add_def, v3_sub_def, V3.mk.injEq]
  have hD := mul_inv_cancel₀ hdet
  simp only [div_eq_mul_inv]
  refine ⟨?_, ?_, ?_⟩
  · linear_combination (r * (px - ox)) * hD
  · linear_combination (r * (py - oy)) * hD
  · linear_combination (r * (pz - oz)) * hD

theorem scaleFn_eq_mul (fac1 fac2 : String → K) (units : Option String) :
    ∃ r : K, scaleFn fac1 fac2 units = (· * r) := by
  cases units with
  | none => exact ⟨1, by funext x; simp [scaleFn]⟩
  | some u => exact ⟨factor fac2 u / factor fac1 u, by funext x; simp [scaleFn]; ring⟩
end field

/-! ### lookups in the `atomic-system` node -/

theorem lookup_appendAll_ne (k k' : String) (l : List (DM K)) (h : k' ≠ k) : (appendAll k l).lookup k' = none := by
  have : (k' == k) = false := by simpa using h
  rcases l with _ | ⟨v, _ | ⟨w, vs⟩⟩ <;> simp [appendAll, List.lookup, this]

def DM.isList : DM K → Bool
  | .list _ => true
  | _ => false

theorem aslist_of_lookup (kv : List (String × DM K)) (k : String) (l : List (DM K))
    (h : kv.lookup k = (appendAll k l).lookup k) (hl : ∀ x ∈ l, x.isList = false) :
    (DM.node kv).aslist k = l := by
  simp only [DM.aslist, DM.get?, h]
  rcases l with _ | ⟨v, _ | ⟨w, vs⟩⟩
  · simp [appendAll, List.lookup]
  · have := hl v (by simp)
    cases v <;> simp_all [appendAll, List.lookup, DM.isList]
  · simp [appendAll, List.lookup]

theorem lookup_append' {α : Type} (l₁ l₂ : List (String × α)) (k : String) :
    (l₁ ++ l₂).lookup k = (l₁.lookup k).or (l₂.lookup k) := by
  induction l₁ with
  | nil => simp [List.lookup]
  | cons a l ih =>
    obtain ⟨k', v⟩ := a
    simp only [List.cons_append, List.lookup]
    cases h : (k == k') <;> simp [ih]


/-- the buffer seen as floats (`[]` for strings). -/
def Data.fltD [IntCast K] (d : Data K) : List K := (d.toFlt).getD []

/-- unit assignment of a `System.model` call: as for `Atoms.model`, and box-scaled storage is asked only
    for `(..., 3)` arrays. -/
def SysUnitsOk (a : AtomsM K) (un : String → Option String) : Prop :=
  UnitsOk a un ∧ ∀ p ∈ a.props, effUnit p.1 (un p.1) = some "scaled" → p.2.shape.getLast? = some 3

section field
variable [Field K]

theorem fltD_length (d : Data K) (h : ∀ l, d ≠ .str l) : d.fltD.length = d.length := by
  cases d with
  | flt l => rfl
  | int l => simp [Data.fltD, Data.toFlt, Data.length]
  | str l => exact absurd rfl (h l)

theorem rescale_scaled (fac1 fac2 : String → K) (d : Data K) (h : ∀ l, d ≠ .str l) :
    d.rescale fac1 fac2 (some "scaled") = .flt d.fltD := by
  cases d with
  | flt l => simp [Data.rescale, Data.fltD, Data.toFlt, scaleFn_some, factor]
  | int l => simp [Data.rescale, Data.fltD, Data.toFlt, scaleFn_some, factor]
  | str l => exact absurd rfl (h l)

theorem mapPositions_flt (f : V3 K → V3 K) (sh : List Nat) (L : List K) (h3 : sh.getLast? = some 3)
    (hlen : L.length = prodNat sh) :
    mapPositions f ⟨sh, .flt L⟩ = some ⟨sh, .flt (rowsMap f L)⟩ ∧ (rowsMap f L).length = prodNat sh := by
  obtain ⟨n, hn⟩ := prodNat_last3 sh h3
  obtain ⟨h1, h2⟩ := mapRows3_eq f n L (by rw [hlen, hn])
  exact ⟨by simp [mapPositions, h3, Data.toFlt, h1], by rw [h2, hlen]⟩

/-- what `System.model` stores for property `p` as the reader's `Atoms(model=…)` sees it: box-relative
    coordinates for `'scaled'`, the converted value otherwise. -/
def sysPropRel (fac1 fac2 : String → K) (un : String → Option String) (box : Box K) (p : String × Arr K) :
    String × Arr K :=
  if effUnit p.1 (un p.1) = some "scaled" then (p.1, ⟨p.2.shape, .flt (rowsMap box.cartToRel p.2.data.fltD)⟩)
  else propTwo fac1 fac2 un p

theorem sys_prop_two (fac1 fac2 : String → K) (s : SystemM K) (hw : s.atoms.Wf) (un : String → Option String)
    (hu : SysUnitsOk s.atoms un) (p : String × Arr K) (hp : p ∈ s.atoms.props) :
    ∃ t, sysPropModel fac1 s (p.1, un p.1) = some t ∧ propRead fac2 t = some (sysPropRel fac1 fac2 un s.box p) ∧
      (t.getStr? "name" = some p.1 ∧ ∃ d, t.get? "data" = some d ∧ d.getStr? "unit" = effUnit p.1 (un p.1)) := by
  by_cases hsc : effUnit p.1 (un p.1) = some "scaled"
  · obtain ⟨t, ht1, ht2, htn, d, htd, hdu⟩ := prop_two fac1 fac1 s.atoms hw un hu.1 p hp
    have hns : ∀ l, p.2.data ≠ .str l := by
      intro l hl
      have := hu.1.2 p hp l hl
      rw [hsc] at this; cases this
    have h3 := hu.2 p hp hsc
    obtain ⟨_, hlen, hne⟩ := hw.ok p hp
    have hv : valueUnit fac1 d = some ⟨p.2.shape, .flt p.2.data.fltD⟩ := by
      simp only [propRead, htn, htd, propTwo, hsc, rescale_scaled fac1 fac1 _ hns] at ht2
      cases hvu : valueUnit fac1 d with
      | none => simp [hvu] at ht2
      | some a => simpa [hvu] using ht2
    obtain ⟨hm1, hm2⟩ := mapPositions_flt s.box.cartToRel p.2.shape p.2.data.fltD h3 (by rw [fltD_length _ hns, hlen])
    obtain ⟨t', ht'1, ht'2⟩ := valueUnit_model_two fac1 fac2 (some "scaled")
      ⟨p.2.shape, .flt (rowsMap s.box.cartToRel p.2.data.fltD)⟩ (by simpa [Data.length] using hm2) hne (by intro l h; cases h)
    refine ⟨DM.node [("name", DM.leaf (Sc.str p.1)), ("data", t')], ?_, ?_, ?_⟩
    · simp only [sysPropModel, ht1, hsc, if_true, htd, hv, Option.bind_some, hm1, ht'1]
    · simp [propRead, DM.getStr?, DM.get?, List.lookup, ht'2, sysPropRel, hsc, rescale_scaled fac1 fac2 (Data.flt _) (by intro l h; cases h), Data.fltD, Data.toFlt]
    · refine ⟨by simp [DM.getStr?, DM.get?, List.lookup], t', by simp [DM.get?, List.lookup], ?_⟩
      rw [hsc]; exact ucModel_unit fac1 _ _ t' ht'1
  · obtain ⟨t, ht1, ht2, ht3⟩ := prop_two fac1 fac2 s.atoms hw un hu.1 p hp
    refine ⟨t, by simp only [sysPropModel, ht1, hsc, if_false], ?_, ht3⟩
    simp only [ht2, sysPropRel, hsc, if_false]

end field

theorem getStr_isList (t : DM K) (k s : String) (h : t.getStr? k = some s) : t.isList = false := by
  cases t <;> simp_all [DM.getStr?, DM.get?, DM.isList]

theorem forall2_right_mem {α β : Type} (R : α → β → Prop) (l : List α) (ys : List β) (h : List.Forall₂ R l ys)
    (y : β) (hy : y ∈ ys) : ∃ x ∈ l, R x y := by
  induction h with
  | nil => simp at hy
  | cons h1 _ ih =>
    rcases List.mem_cons.mp hy with rfl | hy'
    · exact ⟨_, by simp, h1⟩
    · obtain ⟨x, hx, hr⟩ := ih hy'
      exact ⟨x, by simp [hx], hr⟩

theorem scaled_filterMap (ps : List (DM K)) (props : List (String × Arr K)) (eff : String × Arr K → Option String)
    (hfa : List.Forall₂ (fun p t => t.getStr? "name" = some p.1 ∧ ∃ d, t.get? "data" = some d ∧ d.getStr? "unit" = eff p) props ps) :
    ps.filterMap (fun pm =>
      match pm.getStr? "name", pm.get? "data" with
      | some name, some d => if d.getStr? "unit" = some "scaled" then some name else none
      | _, _ => none) =
      props.filterMap (fun p => if eff p = some "scaled" then some p.1 else none) := by
  induction hfa with
  | nil => rfl
  | cons h _ ih =>
    obtain ⟨h1, d, h2, h3⟩ := h
    simp only [List.filterMap_cons, h1, h2, h3, ih]

theorem scaledNames_of (n : DM K) (ps : List (DM K)) (props : List (String × Arr K)) (eff : String × Arr K → Option String)
    (hfa : List.Forall₂ (fun p t => t.getStr? "name" = some p.1 ∧ ∃ d, t.get? "data" = some d ∧ d.getStr? "unit" = eff p) props ps) :
    scaledNames (DM.node (("natoms", n) :: appendAll "property" ps)) =
      props.filterMap (fun p => if eff p = some "scaled" then some p.1 else none) := by
  have hl : (DM.node (("natoms", n) :: appendAll "property" ps)).aslist "property" = ps := by
    apply aslist_of_lookup
    · simp [List.lookup]
    · intro x hx
      obtain ⟨p, _, hp⟩ := forall2_right_mem _ _ _ hfa x hx
      exact getStr_isList x _ _ hp.1
  simp only [scaledNames, hl]
  exact scaled_filterMap ps props eff hfa


theorem mapOpt_pbc (l : List Bool) : mapOpt (pbcOf? (K := K)) (l.map (fun b => DM.leaf (Sc.bool b))) = some l := by
  have := mapOpt_map_some (pbcOf? (K := K)) (fun t => match t with | DM.leaf (Sc.bool b) => b | _ => false)
    (l.map (fun b => DM.leaf (Sc.bool b))) (by intro x hx; obtain ⟨b, _, rfl⟩ := List.mem_map.mp hx; rfl)
  simpa [List.map_map, Function.comp_def] using this

theorem mapOpt_sym (l : List (Option String)) : mapOpt (symOf? (K := K)) (l.map symLeaf) = some l := by
  have := mapOpt_map_some (symOf? (K := K)) (fun t => match t with | DM.leaf (Sc.str s) => some s | _ => none)
    (l.map symLeaf) (by intro x hx; obtain ⟨b, _, rfl⟩ := List.mem_map.mp hx; cases b <;> rfl)
  rw [this, List.map_map]
  congr 1
  conv_rhs => rw [← List.map_id l]
  apply List.map_congr_left
  intro x _; cases x <;> rfl

theorem mapOpt_mass [IntCast K] (l : List (Option K)) : mapOpt (massOf? (K := K)) (l.map massLeaf) = some l := by
  have := mapOpt_map_some (massOf? (K := K)) (fun t => match t with | DM.leaf (Sc.flt s) => some s | _ => none)
    (l.map massLeaf) (by intro x hx; obtain ⟨b, _, rfl⟩ := List.mem_map.mp hx; cases b <;> rfl)
  rw [this, List.map_map]
  congr 1
  conv_rhs => rw [← List.map_id l]
  apply List.map_congr_left
  intro x _; cases x <;> rfl

theorem all_none_of_any {α : Type} (l : List (Option α)) (h : l.any Option.isSome = false) :
    l = List.replicate l.length none := by
  induction l with
  | nil => rfl
  | cons a l ih =>
    simp only [List.any_cons, Bool.or_eq_false_iff] at h
    cases a with
    | some x => simp at h
    | none => simp only [List.length_cons, List.replicate_succ]; rw [← ih h.2]

theorem symLeaf_isList (o : Option String) : (symLeaf o : DM K).isList = false := by cases o <;> rfl
theorem massLeaf_isList (o : Option K) : (massLeaf o : DM K).isList = false := by cases o <;> rfl

theorem foldl_max_ge (l : List Int) (i : Int) : i ≤ l.foldl max i := by
  induction l generalizing i with
  | nil => simp
  | cons a l ih => simp only [List.foldl_cons]; exact le_trans (le_max_left i a) (ih (max i a))

section field
variable [Field K]

theorem box_model_node (fac1 fac2 : String → K) (eps : K) [LT K] [DecidableLT K] (u : Option String) (b : Box K) :
    ∃ bm, boxModel fac1 u b = some (DM.node [("box", bm)]) ∧ ∀ kv : List (String × DM K), kv.lookup "box" = some bm →
      boxRead fac2 eps (DM.node kv) = some ⟨cleanVects eps (mapM3 (scaleFn fac1 fac2 u) b.vects), b.origin.map (scaleFn fac1 fac2 u)⟩ := by
  obtain ⟨ta, ha1, ha2⟩ := vec_two fac1 fac2 u b.vects.r0
  obtain ⟨tb, hb1, hb2⟩ := vec_two fac1 fac2 u b.vects.r1
  obtain ⟨tc, hc1, hc2⟩ := vec_two fac1 fac2 u b.vects.r2
  obtain ⟨tor, ho1, ho2⟩ := vec_two fac1 fac2 u b.origin
  refine ⟨DM.node [("avect", ta), ("bvect", tb), ("cvect", tc), ("origin", tor)],
    by simp only [boxModel, ha1, hb1, hc1, ho1], ?_⟩
  intro kv hkv
  simp [boxRead, DM.get?, hkv, List.lookup, ha2, hb2, hc2, ho2, mapM3]
end field

theorem sysnode_lookups (bm pl : DM K) (A B : List (DM K)) (am : DM K) :
    let M := [("box", bm), ("periodic-boundary-condition", pl)] ++ appendAll "atom-type-symbol" A
      ++ appendAll "atom-type-mass" B ++ [("atoms", am)]
    M.lookup "box" = some bm ∧ M.lookup "periodic-boundary-condition" = some pl ∧
    M.lookup "atom-type-symbol" = (appendAll "atom-type-symbol" A).lookup "atom-type-symbol" ∧
    M.lookup "atom-type-mass" = (appendAll "atom-type-mass" B).lookup "atom-type-mass" ∧
    M.lookup "atoms" = some am := by
  intro M
  have e1 : (appendAll "atom-type-symbol" A).lookup "atom-type-mass" = none := lookup_appendAll_ne _ _ _ (by decide)
  have e2 : (appendAll "atom-type-symbol" A).lookup "atoms" = none := lookup_appendAll_ne _ _ _ (by decide)
  have e3 : (appendAll "atom-type-mass" B).lookup "atom-type-symbol" = none := lookup_appendAll_ne _ _ _ (by decide)
  have e4 : (appendAll "atom-type-mass" B).lookup "atoms" = none := lookup_appendAll_ne _ _ _ (by decide)
  refine ⟨?_, ?_, ?_, ?_, ?_⟩ <;> simp [M, lookup_append', List.lookup, e1, e2, e3, e4]


/-- invariants of a `System`: those of its `Atoms`, three periodic flags, one symbol and one mass slot per atom
    type, at least `atoms.natypes` of them (`symbols` / `masses` setters pad with `None`). -/
structure SystemM.Wf (s : SystemM K) : Prop where
  atoms : s.atoms.Wf
  pbc : s.pbc.length = 3
  ntypes : ∃ nat, s.atoms.natypes = some nat ∧ nat ≤ s.symbols.length
  masses : s.masses.length = s.symbols.length

section field
variable [Field K]

/-- property `p` of the system that `System(model=…)` builds: a `'scaled'` property goes through
    `box.cartToRel` (writer's box) and `box'.relToCart` (reader's box). -/
def sysPropFinal (fac1 fac2 : String → K) (un : String → Option String) (box box' : Box K) (p : String × Arr K) :
    String × Arr K :=
  if effUnit p.1 (un p.1) = some "scaled" then
    (p.1, ⟨p.2.shape, .flt (rowsMap (fun v => box'.relToCart (box.cartToRel v)) p.2.data.fltD)⟩)
  else propTwo fac1 fac2 un p

theorem sysPropRel_fst (fac1 fac2 : String → K) (un : String → Option String) (box : Box K) (p : String × Arr K) :
    (sysPropRel fac1 fac2 un box p).1 = p.1 := by
  unfold sysPropRel; split <;> rfl

theorem sys_final_props (fac1 fac2 : String → K) (un : String → Option String) (box box' : Box K) (a : AtomsM K)
    (hw : a.Wf) (hu : SysUnitsOk a un) :
    mapOpt (fun e : String × Arr K =>
        if (a.props.filterMap (fun p => if effUnit p.1 (un p.1) = some "scaled" then some p.1 else none)).contains e.1
        then (mapPositions box'.relToCart e.2).map (fun x => (e.1, x)) else some e)
      (a.props.map (sysPropRel fac1 fac2 un box)) = some (a.props.map (sysPropFinal fac1 fac2 un box box')) := by
  rw [mapOpt_map]
  apply mapOpt_map_some
  intro p hp
  by_cases hsc : effUnit p.1 (un p.1) = some "scaled"
  · have hmem : (a.props.filterMap (fun p => if effUnit p.1 (un p.1) = some "scaled" then some p.1 else none)).contains p.1 = true := by
      rw [List.contains_iff_mem, List.mem_filterMap]
      exact ⟨p, hp, by simp [hsc]⟩
    have hns : ∀ l, p.2.data ≠ .str l := by
      intro l hl
      have := hu.1.2 p hp l hl
      rw [hsc] at this; cases this
    have h3 := hu.2 p hp hsc
    obtain ⟨_, hlen, hne⟩ := hw.ok p hp
    have hL : p.2.data.fltD.length = prodNat p.2.shape := by rw [fltD_length _ hns, hlen]
    obtain ⟨n, hn⟩ := prodNat_last3 p.2.shape h3
    obtain ⟨_, hm2⟩ := mapPositions_flt box.cartToRel p.2.shape p.2.data.fltD h3 hL
    obtain ⟨hm3, _⟩ := mapPositions_flt box'.relToCart p.2.shape (rowsMap box.cartToRel p.2.data.fltD) h3 hm2
    simp only [sysPropRel, sysPropFinal, hsc, if_true, hmem, hm3, Option.map_some,
      rowsMap_comp box.cartToRel box'.relToCart n p.2.data.fltD (by rw [hL, hn])]
  · have hmem : (a.props.filterMap (fun p => if effUnit p.1 (un p.1) = some "scaled" then some p.1 else none)).contains p.1 = false := by
      rw [Bool.eq_false_iff]
      intro h
      rw [List.contains_iff_mem, List.mem_filterMap] at h
      obtain ⟨q, _, hq⟩ := h
      by_cases hq' : effUnit q.1 (un q.1) = some "scaled"
      · simp only [hq', if_true, Option.some.injEq] at hq
        rw [hq] at hq'; exact hsc hq'
      · simp [hq'] at hq
    simp [sysPropRel, sysPropFinal, hsc, propTwo, hmem]

theorem system_model_two [LT K] [DecidableLT K] (fac1 fac2 : String → K) (eps : K) (boxUnit : Option String)
    (s : SystemM K) (hw : s.Wf) (un : String → Option String) (hu : SysUnitsOk s.atoms un) :
    ∃ t, systemModel fac1 boxUnit (s.atoms.props.map (fun p => (p.1, un p.1))) s = some t ∧
      systemRead fac2 eps t =
        (let box' : Box K := ⟨cleanVects eps (mapM3 (scaleFn fac1 fac2 boxUnit) s.box.vects),
            s.box.origin.map (scaleFn fac1 fac2 boxUnit)⟩
         some ⟨box', s.pbc, s.symbols, s.masses,
          ⟨s.atoms.natoms, s.atoms.props.map (sysPropFinal fac1 fac2 un s.box box')⟩⟩) := by
  obtain ⟨bm, hbm, hbr⟩ := box_model_node fac1 fac2 eps boxUnit s.box
  obtain ⟨ps, hps, hfa⟩ := mapOpt_exists (fun p : String × Arr K => sysPropModel fac1 s (p.1, un p.1))
    (fun p t => propRead fac2 t = some (sysPropRel fac1 fac2 un s.box p) ∧
      (t.getStr? "name" = some p.1 ∧ ∃ d, t.get? "data" = some d ∧ d.getStr? "unit" = effUnit p.1 (un p.1)))
    s.atoms.props (fun p hp => sys_prop_two fac1 fac2 s hw.atoms un hu p hp)
  obtain ⟨la, lp, rest, hprops, hla⟩ := hw.atoms.head
  have hlane := atype_nonempty s.atoms hw.atoms la _ rest hprops
  set masses : List (DM K) := if s.masses.any Option.isSome then s.masses.map massLeaf else [] with hmasses
  set am : DM K := DM.node (("natoms", DM.leaf (Sc.int s.atoms.natoms)) :: appendAll "property" ps) with ham
  set pl : DM K := DM.list (s.pbc.map (fun b => DM.leaf (Sc.bool b))) with hpl
  obtain ⟨l1, l2, l3, l4, l5⟩ := sysnode_lookups bm pl (s.symbols.map symLeaf) masses am
  set M := [("box", bm), ("periodic-boundary-condition", pl)] ++ appendAll "atom-type-symbol" (s.symbols.map symLeaf)
      ++ appendAll "atom-type-mass" masses ++ [("atoms", am)] with hM
  refine ⟨DM.node [("atomic-system", DM.node M)], by simp only [systemModel, hbm, mapOpt_map, hps]; rfl, ?_⟩
  -- the reader
  have hat : effUnit "atype" (un "atype") = none := by rw [hu.1.1]; rfl
  have hbox := hbr M l1
  have hatoms : atomsRead fac2 (DM.node M) = some ⟨s.atoms.natoms, s.atoms.props.map (sysPropRel fac1 fac2 un s.box)⟩ := by
    refine atomsRead_of fac2 _ s.atoms.natoms ps _ (by simp only [DM.get?, l5, ham])
      (List.forall₂_map_left_iff.mpr (hfa.imp (fun _ _ h => h.1))) la
      (sysPropRel fac1 fac2 un s.box ("pos", ⟨[s.atoms.natoms, 3], .flt lp⟩)).2.data.fltD
      (rest.map (sysPropRel fac1 fac2 un s.box)) ?_ hla hlane ?_ ?_
    · rw [hprops]
      simp only [List.map_cons, List.cons.injEq, and_true]
      refine ⟨by simp [sysPropRel, hat, propTwo, Data.rescale], ?_⟩
      unfold sysPropRel
      split <;> simp [propTwo, Data.rescale, Data.fltD, Data.toFlt]
    · have : (s.atoms.props.map (sysPropRel fac1 fac2 un s.box)).map Prod.fst = s.atoms.props.map Prod.fst := by
        simp [List.map_map, Function.comp_def, sysPropRel_fst]
      rw [this]; exact hw.atoms.nodup
    · intro p hp
      obtain ⟨q, hq, rfl⟩ := List.mem_map.mp hp
      have := (hw.atoms.ok q (by rw [hprops]; simp [hq])).1
      unfold sysPropRel; split <;> simpa [propTwo] using this
  obtain ⟨nat, hnat, hnle⟩ := hw.ntypes
  have hnat' : (⟨s.atoms.natoms, s.atoms.props.map (sysPropRel fac1 fac2 un s.box)⟩ : AtomsM K).natypes = some nat := by
    rw [← hnat]
    simp [AtomsM.natypes, hprops, List.lookup, sysPropRel, hat, propTwo, Data.rescale]
  have hsyms : (DM.node M).aslist "atom-type-symbol" = s.symbols.map symLeaf :=
    aslist_of_lookup M _ _ l3 (by intro x hx; obtain ⟨o, _, rfl⟩ := List.mem_map.mp hx; exact symLeaf_isList o)
  have hmass : (DM.node M).aslist "atom-type-mass" = masses :=
    aslist_of_lookup M _ _ l4 (by
      intro x hx
      rw [hmasses] at hx
      split at hx
      · obtain ⟨o, _, rfl⟩ := List.mem_map.mp hx; exact massLeaf_isList o
      · simp at hx)
  have hmassR : mapOpt massOf? masses = some (if s.masses.any Option.isSome then s.masses else []) := by
    rw [hmasses]; split
    · exact mapOpt_mass _
    · rfl
  have hsc : scaledNames am = s.atoms.props.filterMap
      (fun p => if effUnit p.1 (un p.1) = some "scaled" then some p.1 else none) :=
    scaledNames_of (DM.leaf (Sc.int s.atoms.natoms)) ps s.atoms.props (fun p => effUnit p.1 (un p.1))
      (hfa.imp (fun _ _ h => h.2))
  have hfinal := sys_final_props fac1 fac2 un s.box
    ⟨cleanVects eps (mapM3 (scaleFn fac1 fac2 boxUnit) s.box.vects), s.box.origin.map (scaleFn fac1 fac2 boxUnit)⟩
    s.atoms hw.atoms hu
  have hfill : fillNone s.symbols nat = s.symbols := by
    simp [fillNone, Nat.sub_eq_zero_of_le hnle]
  have hnatS : (if nat < s.symbols.length then s.symbols.length else nat) = s.symbols.length := by
    split <;> omega
  have hmfill : fillNone (if s.masses.any Option.isSome then s.masses else []) s.symbols.length = s.masses
      ∧ ¬ (s.symbols.length < (if s.masses.any Option.isSome then s.masses else []).length) := by
    split
    · exact ⟨by simp [fillNone, hw.masses], by rw [hw.masses]; omega⟩
    · rename_i h
      refine ⟨?_, by simp⟩
      have := all_none_of_any s.masses (by simpa using h)
      rw [hw.masses] at this
      simp [fillNone, ← this]
  have hT : (DM.node [("atomic-system", DM.node M)]).get? "atomic-system" = some (DM.node M) := by
    simp [DM.get?, List.lookup]
  have hg1 : (DM.node M).get? "periodic-boundary-condition" = some pl := by simp only [DM.get?, l2]
  have hg2 : (DM.node M).get? "atoms" = some am := by simp only [DM.get?, l5]
  simp only [systemRead, hT, hbox, hatoms, hg1, hg2, hpl, mapOpt_pbc, hsyms, mapOpt_sym, hmass, hmassR, hnat', hw.pbc,
    hfill, hnatS, hmfill.1, hmfill.2, hsc, hfinal, ne_eq, not_true_eq_false, if_false]
end field

end Atomman.C10
