/-
  C15 — point-defect insertion changes only the defect site and records the mapping.
  Theorems about the model `Atomman/C15.lean` (tied to atomman/defect/point.py by the correspondence
  run of harness/props/c15.py).
-/
import Proofs.C15_Lemmas
import Proofs.C15_Source
import Mathlib.Algebra.Order.Ring.Cast

namespace Atomman.C15
set_option linter.unusedSimpArgs false
set_option linter.unusedSectionVars false

section any
variable {K : Type} [Add K] [Sub K] [Mul K] [Zero K] [IntCast K] [LT K] [DecidableLT K] [DecidableEq K]

/-- **vacancy**: one atom fewer; the result is the input list with atom `i` erased (every other atom
    identical, original relative order); same cell. -/
theorem vacancy_spec (s s' : Sys K) (pos : Option (V3 K)) (ptd : Option Int) (scale : Bool) (atol : K)
    (h : vacancy s pos ptd scale atol = .ok s') :
    ∃ i, resolveSite s pos ptd scale atol = .ok i ∧ i < s.atoms.length ∧
      s'.atoms = s.atoms.eraseIdx i ∧
      s'.atoms.length + 1 = s.atoms.length ∧
      (∀ j, j < i → s'.atoms[j]? = s.atoms[j]?) ∧
      (∀ j, i ≤ j → s'.atoms[j]? = s.atoms[j + 1]?) ∧
      s'.old = some (oldColumn s ((List.range s.atoms.length).eraseIdx i)) := by
  unfold vacancy at h
  cases hr : resolveSite s pos ptd scale atol with
  | error e => simp [hr] at h
  | ok i =>
    have hi := resolveSite_lt s pos ptd scale atol i hr
    simp only [hr, vacancyAt] at h
    split at h
    · cases h
    · injection h with h
      subst h
      refine ⟨i, rfl, hi, ?_, ?_, ?_, ?_, ?_⟩
      · simp [gather_eraseIdx_range]
      · simp [gather_eraseIdx_range, List.length_eraseIdx, hi]; omega
      · intro j hj; simp [gather_eraseIdx_range, List.getElem?_eraseIdx, hj]
      · intro j hj; simp [gather_eraseIdx_range, List.getElem?_eraseIdx]; omega
      · simp

theorem interstitial_spec (s s' : Sys K) (pos : V3 K) (scale : Bool) (atol : K) (kw : Kw K)
    (h : interstitial s pos scale atol kw = .ok s') :
    siteMatches s (toCart s scale pos) atol = [] ∧
    ∃ a0, s.atoms[0]? = some a0 ∧
      s'.atoms = s.atoms ++ [{ atype := kw.atype.getD 1, pos := toCart s scale pos,
                               props := overrideProps s.keys a0.props kw.extra zerosLike }] ∧
      s'.atoms.length = s.atoms.length + 1 ∧
      (∀ j, j < s.atoms.length → s'.atoms[j]? = s.atoms[j]?) := by
  unfold interstitial at h
  simp only [] at h
  split at h
  · rename_i hm
    refine ⟨hm, ?_⟩
    unfold interstitialAt at h
    split at h
    · cases h
    · rename_i hne
      injection h with h
      subst h
      have hpos : 0 < s.atoms.length := by
        cases hl : s.atoms with
        | nil => simp [hl] at hne
        | cons a t => simp
      have ha0 : s.atoms[0]? = some s.atoms[0] := List.getElem?_eq_getElem hpos
      have hg : gather s.atoms (List.range s.atoms.length ++ [0]) = s.atoms ++ [s.atoms[0]] := by
        rw [gather_append, gather_range, gather_single s.atoms 0 _ ha0]
      refine ⟨s.atoms[0], ha0, ?_, ?_, ?_⟩
      · simp only [fixSym_atoms, hg, setLast_append_single]
      · simp only [fixSym_atoms, hg, setLast_append_single]; simp
      · intro j hj
        simp only [fixSym_atoms, hg, setLast_append_single]
        rw [List.getElem?_append_left hj]
  · cases h

theorem substitutional_spec (s s' : Sys K) (pos : Option (V3 K)) (ptd : Option Int) (scale : Bool) (atol : K)
    (kw : Kw K) (h : substitutional s pos ptd scale atol kw = .ok s') :
    ∃ i a, resolveSite s pos ptd scale atol = .ok i ∧ s.atoms[i]? = some a ∧ a.atype ≠ kw.atype.getD 1 ∧
      s'.atoms = s.atoms.eraseIdx i ++
        [{ a with atype := kw.atype.getD 1, props := overrideProps s.keys a.props kw.extra id }] ∧
      s'.atoms.length = s.atoms.length ∧
      (∀ j, j + 1 < s.atoms.length → s'.atoms[j]? = if j < i then s.atoms[j]? else s.atoms[j + 1]?) := by
  unfold substitutional at h
  cases hr : resolveSite s pos ptd scale atol with
  | error e => simp [hr] at h
  | ok i =>
    simp only [hr, substitutionalAt] at h
    split at h
    · cases h
    · rename_i a ha
      split at h
      · cases h
      · rename_i hne
        injection h with h
        subst h
        have hi : i < s.atoms.length := (List.getElem?_eq_some_iff.mp ha).1
        have hg : gather s.atoms ((List.range s.atoms.length).eraseIdx i ++ [i]) = s.atoms.eraseIdx i ++ [a] := by
          rw [gather_append, gather_eraseIdx_range, gather_single s.atoms i a ha]
        refine ⟨i, a, rfl, ha, hne, ?_, ?_, ?_⟩
        · simp only [fixSym_atoms, hg, setLast_append_single]
        · simp only [fixSym_atoms, hg, setLast_append_single]
          simp [List.length_eraseIdx, hi]; omega
        · intro j hj
          simp only [fixSym_atoms, hg, setLast_append_single]
          exact others_unchanged _ _ i j hj hi

theorem dumbbell_spec (s s' : Sys K) (pos : Option (V3 K)) (ptd : Option Int) (db : V3 K) (scale : Bool)
    (atol : K) (kw : Kw K) (h : dumbbell s pos ptd db scale atol kw = .ok s') :
    ∃ i a, resolveSite s pos ptd scale atol = .ok i ∧ s.atoms[i]? = some a ∧
      s'.atoms = s.atoms.eraseIdx i ++
        [{ a with pos := a.pos - dbCart s scale db },
         { atype := kw.atype.getD a.atype, pos := a.pos + dbCart s scale db,
           props := overrideProps s.keys a.props kw.extra id }] ∧
      s'.atoms.length = s.atoms.length + 1 ∧
      (∀ j, j + 1 < s.atoms.length → s'.atoms[j]? = if j < i then s.atoms[j]? else s.atoms[j + 1]?) := by
  unfold dumbbell at h
  cases hr : resolveSite s pos ptd scale atol with
  | error e => simp [hr] at h
  | ok i =>
    simp only [hr, dumbbellAt] at h
    split at h
    · cases h
    · rename_i a ha
      injection h with h
      subst h
      have hi : i < s.atoms.length := (List.getElem?_eq_some_iff.mp ha).1
      have hg : gather s.atoms ((List.range s.atoms.length).eraseIdx i ++ [i, i]) = s.atoms.eraseIdx i ++ [a, a] := by
        rw [gather_append, gather_eraseIdx_range]
        simp [gather, ha]
      have hl : ∀ (l : List (Atom K)) (x y : Atom K), l ++ [x, y] = (l ++ [x]) ++ [y] := by intros; simp
      refine ⟨i, a, rfl, ha, ?_, ?_, ?_⟩
      · simp only [fixSym_atoms, hg, setLast2_append_pair]
        rw [hl, setLast_append_single]; simp
      · simp only [fixSym_atoms, hg, setLast2_append_pair]
        rw [hl, setLast_append_single]
        simp [List.length_eraseIdx, hi]; omega
      · intro j hj
        simp only [fixSym_atoms, hg, setLast2_append_pair]
        rw [hl, setLast_append_single, List.append_assoc]
        exact others_unchanged _ _ i j hj hi

theorem interstitial_old (s s' : Sys K) (hwf : WF s) (pos : V3 K) (scale : Bool) (atol : K) (kw : Kw K)
    (h : interstitial s pos scale atol kw = .ok s') :
    ∃ v, s'.old = some (oldColumn s (List.range s.atoms.length) ++ [v]) ∧
      v = kw.oldId.getD (maxD (oldColumn s (List.range s.atoms.length ++ [0])) + 1) := by
  unfold interstitial at h
  simp only [] at h
  split at h
  · unfold interstitialAt at h
    split at h
    · cases h
    · rename_i hne
      injection h with h
      subst h
      have hpos : 0 < s.atoms.length := by
        cases hl : s.atoms with
        | nil => simp [hl] at hne
        | cons a t => simp
      obtain ⟨v0, hv0⟩ := oldAt_lt s hwf 0 hpos
      refine ⟨_, ?_, rfl⟩
      simp only [fixSym_old]
      rw [oldColumn_append, oldColumn_single s hwf 0 v0 hv0 hpos, setLast_append_single]
  · cases h

theorem substitutional_old (s s' : Sys K) (hwf : WF s) (pos : Option (V3 K)) (ptd : Option Int) (scale : Bool)
    (atol : K) (kw : Kw K) (h : substitutional s pos ptd scale atol kw = .ok s') :
    ∃ i v, resolveSite s pos ptd scale atol = .ok i ∧ oldAt s i = some v ∧
      s'.old = some (oldColumn s ((List.range s.atoms.length).eraseIdx i) ++ [kw.oldId.getD v]) := by
  unfold substitutional at h
  cases hr : resolveSite s pos ptd scale atol with
  | error e => simp [hr] at h
  | ok i =>
    have hi := resolveSite_lt s pos ptd scale atol i hr
    obtain ⟨v, hv⟩ := oldAt_lt s hwf i hi
    simp only [hr, substitutionalAt] at h
    split at h
    · cases h
    · split at h
      · cases h
      · injection h with h
        subst h
        refine ⟨i, v, rfl, hv, ?_⟩
        simp only [fixSym_old]
        rw [oldColumn_append, oldColumn_single s hwf i v hv hi, setLast_append_single]

theorem dumbbell_old (s s' : Sys K) (hwf : WF s) (pos : Option (V3 K)) (ptd : Option Int) (db : V3 K)
    (scale : Bool) (atol : K) (kw : Kw K) (h : dumbbell s pos ptd db scale atol kw = .ok s') :
    ∃ i v w, resolveSite s pos ptd scale atol = .ok i ∧ oldAt s i = some v ∧
      s'.old = some (oldColumn s ((List.range s.atoms.length).eraseIdx i) ++ [v, w]) ∧
      w = kw.oldId.getD (maxD (oldColumn s ((List.range s.atoms.length).eraseIdx i ++ [i, i])) + 1) := by
  unfold dumbbell at h
  cases hr : resolveSite s pos ptd scale atol with
  | error e => simp [hr] at h
  | ok i =>
    have hi := resolveSite_lt s pos ptd scale atol i hr
    obtain ⟨v, hv⟩ := oldAt_lt s hwf i hi
    simp only [hr, dumbbellAt] at h
    split at h
    · cases h
    · injection h with h
      subst h
      refine ⟨i, v, _, rfl, hv, ?_, rfl⟩
      simp only [fixSym_old]
      have h2 : ([i, i] : List Nat) = [i] ++ [i] := rfl
      rw [oldColumn_append, h2, oldColumn_append, oldColumn_single s hwf i v hv hi]
      have h3 : ∀ (l : List Int) (x y : Int), l ++ ([x] ++ [y]) = (l ++ [x]) ++ [y] := by intros; simp
      rw [h3, setLast_append_single]
      simp

/-- **old_id of one insertion.** For a well-formed input, the result always carries an `old_id`
    column with one entry per atom, and for every atom `j` of the result that *is* atom `k` of the
    input (`Op.prov`), the recorded old index is the input's (`old_id[k]` if the input had the
    property, `k` itself if it was created now). -/
theorem old_id_correct (s s' : Sys K) (op : Op K) (hwf : WF s) (h : op.apply s = .ok s') :
    WF s' ∧ s'.old.isSome ∧ (op.prov s).length = s'.atoms.length ∧
    ∀ j k, (op.prov s)[j]? = some (some k) → k < s.atoms.length ∧ oldAt s' j = oldAt s k := by
  cases op with
  | vac pos ptd scale atol =>
    obtain ⟨i, hr, hi, hat, hlen, _, _, hold⟩ := vacancy_spec s s' pos ptd scale atol h
    have hf := fun x hx => mem_front_lt s.atoms.length i x hx
    have hcl := oldColumn_length s hwf _ hf
    refine ⟨?_, by simp [hold], ?_, ?_⟩
    · simp only [WF, hold, hcl, hat]; simp [List.length_eraseIdx, hi]
    · simp [Op.prov, hr, hat, List.length_eraseIdx, hi]
    · intro j k hp
      simp only [Op.prov, hr] at hp
      have hj : j < ((List.range s.atoms.length).eraseIdx i).length := by
        by_contra hc
        rw [List.getElem?_eq_none (by simpa using hc)] at hp
        cases hp
      have := front_lookup s hwf _ hf [] [] j k hj (by simpa using hp)
      rw [oldAt_some s' _ hold]
      simpa using this
  | int pos scale atol kw =>
    obtain ⟨_, a0, _, hat, hlen, _⟩ := interstitial_spec s s' pos scale atol kw h
    obtain ⟨v, hold, _⟩ := interstitial_old s s' hwf pos scale atol kw h
    have hf : ∀ x ∈ List.range s.atoms.length, x < s.atoms.length := by intro x hx; simpa using hx
    have hcl := oldColumn_length s hwf _ hf
    refine ⟨?_, by simp [hold], ?_, ?_⟩
    · simp only [WF, hold, List.length_append, hcl, hlen]; simp
    · simp [Op.prov, hlen]
    · intro j k hp
      simp only [Op.prov] at hp
      have hj : j < (List.range s.atoms.length).length := by
        by_contra hc
        have hc' : (List.map some (List.range s.atoms.length)).length ≤ j := by simpa using hc
        rw [List.getElem?_append_right hc'] at hp
        cases hjj : j - (List.map some (List.range s.atoms.length)).length with
        | zero => rw [hjj] at hp; simp at hp
        | succ m => rw [hjj] at hp; simp at hp
      have := front_lookup s hwf _ hf [v] [none] j k hj hp
      rw [oldAt_some s' _ hold]
      exact this
  | sub pos ptd scale atol kw =>
    obtain ⟨i, a, hr, ha, _, hat, hlen, _⟩ := substitutional_spec s s' pos ptd scale atol kw h
    obtain ⟨i', v, hr', hv, hold⟩ := substitutional_old s s' hwf pos ptd scale atol kw h
    have hii : i' = i := by rw [hr] at hr'; injection hr' with h; exact h.symm
    subst hii
    have hi := resolveSite_lt s pos ptd scale atol i' hr
    have hf := fun x hx => mem_front_lt s.atoms.length i' x hx
    have hcl := oldColumn_length s hwf _ hf
    have hfl : ((List.range s.atoms.length).eraseIdx i').length = s.atoms.length - 1 := by
      simp [List.length_eraseIdx, hi]
    refine ⟨?_, by simp [hold], ?_, ?_⟩
    · simp only [WF, hold, List.length_append, hcl, hlen, hfl]; simp; omega
    · simp [Op.prov, hr, hlen, List.length_eraseIdx, hi]; omega
    · intro j k hp
      simp only [Op.prov, hr] at hp
      rw [oldAt_some s' _ hold]
      by_cases hj : j < ((List.range s.atoms.length).eraseIdx i').length
      · exact front_lookup s hwf _ hf _ _ j k hj hp
      · have hc' : (List.map some ((List.range s.atoms.length).eraseIdx i')).length ≤ j := by simpa using hj
        rw [List.getElem?_append_right hc'] at hp
        cases hjj : j - (List.map some ((List.range s.atoms.length).eraseIdx i')).length with
        | succ m => rw [hjj] at hp; simp at hp
        | zero =>
          rw [hjj] at hp
          simp only [List.getElem?_cons_zero] at hp
          cases hko : kw.oldId with
          | some o => simp [hko] at hp
          | none =>
            simp only [hko, Option.isSome_none] at hp
            have hk : k = i' := by simpa using hp.symm
            subst hk
            refine ⟨hi, ?_⟩
            have hjeq : j = (oldColumn s ((List.range s.atoms.length).eraseIdx k)).length := by
              rw [hcl]; simp at hjj hc'; omega
            rw [hjeq, List.getElem?_append_right (le_refl _)]
            simp [hv]
  | db pos ptd dbv scale atol kw =>
    obtain ⟨i, a, hr, ha, hat, hlen, _⟩ := dumbbell_spec s s' pos ptd dbv scale atol kw h
    obtain ⟨i', v, w, hr', hv, hold, _⟩ := dumbbell_old s s' hwf pos ptd dbv scale atol kw h
    have hii : i' = i := by rw [hr] at hr'; injection hr' with h; exact h.symm
    subst hii
    have hi := resolveSite_lt s pos ptd scale atol i' hr
    have hf := fun x hx => mem_front_lt s.atoms.length i' x hx
    have hcl := oldColumn_length s hwf _ hf
    have hfl : ((List.range s.atoms.length).eraseIdx i').length = s.atoms.length - 1 := by
      simp [List.length_eraseIdx, hi]
    refine ⟨?_, by simp [hold], ?_, ?_⟩
    · simp only [WF, hold, List.length_append, hcl, hlen, hfl]; simp; omega
    · simp [Op.prov, hr, hlen, List.length_eraseIdx, hi]; omega
    · intro j k hp
      simp only [Op.prov, hr] at hp
      rw [oldAt_some s' _ hold]
      by_cases hj : j < ((List.range s.atoms.length).eraseIdx i').length
      · exact front_lookup s hwf _ hf _ _ j k hj hp
      · have hc' : (List.map some ((List.range s.atoms.length).eraseIdx i')).length ≤ j := by simpa using hj
        rw [List.getElem?_append_right hc'] at hp
        cases hjj : j - (List.map some ((List.range s.atoms.length).eraseIdx i')).length with
        | succ m =>
          cases m with
          | zero => rw [hjj] at hp; simp at hp
          | succ m => rw [hjj] at hp; simp at hp
        | zero =>
          rw [hjj] at hp
          simp only [List.getElem?_cons_zero] at hp
          have hk : k = i' := by simpa using hp.symm
          subst hk
          refine ⟨hi, ?_⟩
          have hjeq : j = (oldColumn s ((List.range s.atoms.length).eraseIdx k)).length := by
            rw [hcl]; simp at hjj hc'; omega
          rw [hjeq, List.getElem?_append_right (le_refl _)]
          simp [hv]

/-- invariant of a history: `pv` maps every atom of the current system `s` that survives from the
    first system `s0` to its index there, and the recorded old index agrees. -/
def ProvInv (s0 s : Sys K) (pv : List (Option Nat)) : Prop :=
  WF s ∧ pv.length = s.atoms.length ∧
  ∀ j k, pv[j]? = some (some k) → k < s0.atoms.length ∧ oldAt s j = oldAt s0 k

theorem provInv_init (s0 : Sys K) (hwf : WF s0) : ProvInv s0 s0 (idProv s0) := by
  refine ⟨hwf, by simp [idProv], ?_⟩
  intro j k hp
  simp only [idProv, List.getElem?_map] at hp
  by_cases hj : j < s0.atoms.length
  · simp [List.getElem?_range hj] at hp
    subst hp
    exact ⟨hj, rfl⟩
  · rw [List.getElem?_eq_none (by simpa using hj)] at hp
    simp at hp

theorem provInv_step (s0 s s' : Sys K) (pv : List (Option Nat)) (op : Op K) (hinv : ProvInv s0 s pv)
    (h : op.apply s = .ok s') : ProvInv s0 s' (composeProv pv (op.prov s)) := by
  obtain ⟨hwf, hlen, hmap⟩ := hinv
  obtain ⟨hwf', _, hplen, hstep⟩ := old_id_correct s s' op hwf h
  refine ⟨hwf', by simp [composeProv, hplen], ?_⟩
  intro j k hp
  simp only [composeProv, List.getElem?_map] at hp
  cases ho : (op.prov s)[j]? with
  | none => simp [ho] at hp
  | some o =>
    cases o with
    | none => simp [ho] at hp
    | some m =>
      simp only [ho, Option.map_some, Option.bind_some] at hp
      have hpm : pv[m]? = some (some k) := by
        cases hq : pv[m]? with
        | none => simp [hq] at hp
        | some q => simp [hq] at hp; simp [hp]
      obtain ⟨_, h1⟩ := hstep j m ho
      obtain ⟨hk, h2⟩ := hmap m k hpm
      exact ⟨hk, h1.trans h2⟩

theorem provInv_run (s0 : Sys K) (ops : List (Op K)) (s : Sys K) (pv : List (Option Nat))
    (hinv : ProvInv s0 s pv) : ProvInv s0 (run s pv ops).1 (run s pv ops).2 := by
  induction ops generalizing s pv with
  | nil => simpa [run] using hinv
  | cons op rest ih =>
    simp only [run]
    cases h : op.apply s with
    | error e => simpa using ih s pv hinv
    | ok s' => simpa using ih s' _ (provInv_step s0 s s' pv op hinv h)

/-- **old_id composes.** After ANY history of insertions (refused ones leave the system as it was)
    started from a well-formed system `s0`, every atom `j` of the final system that is atom `k` of
    `s0` records `s0`'s old index of `k` (`old_id[k]` if `s0` already had the property, else `k`). -/
theorem old_id_composes (s0 : Sys K) (hwf : WF s0) (ops : List (Op K)) (j k : Nat)
    (hp : (run s0 (idProv s0) ops).2[j]? = some (some k)) :
    k < s0.atoms.length ∧ oldAt (run s0 (idProv s0) ops).1 j = oldAt s0 k :=
  (provInv_run s0 ops s0 (idProv s0) (provInv_init s0 hwf)).2.2 j k hp

theorem old_id_present (s s' : Sys K) (op : Op K) (h : op.apply s = .ok s') : s'.old.isSome := by
  cases op with
  | vac pos ptd scale atol =>
    obtain ⟨i, _, _, _, _, _, _, hold⟩ := vacancy_spec s s' pos ptd scale atol h
    simp [hold]
  | int pos scale atol kw =>
    simp only [Op.apply, interstitial] at h
    split at h
    · simp only [interstitialAt] at h
      split at h
      · cases h
      · injection h with h; subst h; simp
    · cases h
  | sub pos ptd scale atol kw =>
    simp only [Op.apply, substitutional] at h
    split at h
    · cases h
    · simp only [substitutionalAt] at h
      split at h
      · cases h
      · split at h
        · cases h
        · injection h with h; subst h; simp
  | db pos ptd dbv scale atol kw =>
    simp only [Op.apply, dumbbell] at h
    split at h
    · cases h
    · simp only [dumbbellAt] at h
      split at h
      · cases h
      · injection h with h; subst h; simp

theorem run_old (ops : List (Op K)) (s : Sys K) (pv : List (Option Nat)) :
    (run s pv ops).1 = s ∨ (run s pv ops).1.old.isSome := by
  induction ops generalizing s pv with
  | nil => left; rfl
  | cons op rest ih =>
    simp only [run]
    cases h : op.apply s with
    | error e => simpa using ih s pv
    | ok s' =>
      right
      rcases ih s' (composeProv pv (op.prov s)) with h1 | h1
      · simp only []; rw [h1]; exact old_id_present s s' op h
      · exact h1

/-- the case the property text speaks of: the first system has no `old_id`.  Then after any history
    either nothing was inserted, or the final system has an `old_id` column whose entry for every
    survivor is its index in the first system. -/
theorem old_id_composes_fresh (s0 : Sys K) (hno : s0.old = none) (ops : List (Op K)) :
    (run s0 (idProv s0) ops).1 = s0 ∨
    ∃ col, (run s0 (idProv s0) ops).1.old = some col ∧
      ∀ (j k : Nat), (run s0 (idProv s0) ops).2[j]? = some (some k) → k < s0.atoms.length ∧ col[j]? = some (k : Int) := by
  rcases run_old ops s0 (idProv s0) with h | h
  · left; exact h
  · right
    obtain ⟨col, hcol⟩ := Option.isSome_iff_exists.mp h
    refine ⟨col, hcol, ?_⟩
    intro j k hp
    obtain ⟨hk, ho⟩ := old_id_composes s0 (by simp [WF, hno]) ops j k hp
    refine ⟨hk, ?_⟩
    rw [oldAt_some _ col hcol] at ho
    rw [ho]
    simp [oldAt, hno, hk]

/-- index selection: `0 ≤ i < natoms` and `i - natoms` name the same atom. -/
theorem index_normalisation (s : Sys K) (i : Nat) (hi : i < s.atoms.length) (scale : Bool) (atol : K) :
    resolveSite s none (some (i : Int)) scale atol = .ok i := by
  simp [resolveSite, normIdx_nonneg _ _ hi]

theorem index_negative (s : Sys K) (i : Nat) (hi : i < s.atoms.length) (scale : Bool) (atol : K) :
    resolveSite s none (some ((i : Int) - (s.atoms.length : Int))) scale atol = .ok i := by
  simp [resolveSite, normIdx_neg _ _ hi]

/-! ### refusals -/

theorem refuse_index_out_of_range (s : Sys K) (k : Int) (scale : Bool) (atol : K)
    (h : k ≥ (s.atoms.length : Int) ∨ k < -(s.atoms.length : Int)) :
    resolveSite s none (some k) scale atol = .error .value := by
  simp [resolveSite, normIdx_out _ _ h]

theorem refuse_both_or_neither (s : Sys K) (p : V3 K) (k : Int) (scale : Bool) (atol : K) :
    resolveSite s (some p) (some k) scale atol = .error .value ∧
    resolveSite s none none scale atol = .error .value := by
  simp [resolveSite]

/-- absent site: no atom within the tolerance of `pos`. -/
theorem refuse_absent_site (s : Sys K) (p : V3 K) (scale : Bool) (atol : K)
    (h : ∀ (j : Nat) b, s.atoms[j]? = some b → within s (toCart s scale p) atol b = false) :
    resolveSite s (some p) none scale atol = .error .value := by
  have : siteMatches s (toCart s scale p) atol = [] := by
    apply filter_range_eq_nil
    intro j hj
    have hb : s.atoms[j]? = some s.atoms[j] := List.getElem?_eq_getElem hj
    simp [hb, h j _ hb]
  simp [resolveSite, this]

/-- ambiguous site: two different atoms within the tolerance of `pos`. -/
theorem refuse_ambiguous_site (s : Sys K) (p : V3 K) (scale : Bool) (atol : K) (i j : Nat) (a b : Atom K)
    (hij : i ≠ j) (ha : s.atoms[i]? = some a) (hb : s.atoms[j]? = some b)
    (hwa : within s (toCart s scale p) atol a = true) (hwb : within s (toCart s scale p) atol b = true) :
    resolveSite s (some p) none scale atol = .error .value := by
  have hi : i ∈ siteMatches s (toCart s scale p) atol := (mem_siteMatches _ _ _ _).mpr ⟨a, ha, hwa⟩
  have hj : j ∈ siteMatches s (toCart s scale p) atol := (mem_siteMatches _ _ _ _).mpr ⟨b, hb, hwb⟩
  unfold resolveSite
  simp only []
  split
  · rename_i k hk
    rw [hk] at hi hj
    simp at hi hj
    exact absurd (hi.trans hj.symm) hij
  · rfl

/-- occupied interstitial site: some atom within the tolerance of `pos`. -/
theorem refuse_occupied_interstitial (s : Sys K) (p : V3 K) (scale : Bool) (atol : K) (kw : Kw K) (i : Nat)
    (a : Atom K) (ha : s.atoms[i]? = some a) (hw : within s (toCart s scale p) atol a = true) :
    interstitial s p scale atol kw = .error .value := by
  have hi : i ∈ siteMatches s (toCart s scale p) atol := (mem_siteMatches _ _ _ _).mpr ⟨a, ha, hw⟩
  unfold interstitial
  simp only []
  split
  · rename_i hk
    rw [hk] at hi
    simp at hi
  · rfl

/-- **selection by position, completely:** `pos` resolves to atom `i` exactly when atom `i` is within
    the tolerance and no other atom is (absent and ambiguous sites are the two ways to fail). -/
theorem resolve_pos_iff_unique (s : Sys K) (p : V3 K) (scale : Bool) (atol : K) (i : Nat) :
    resolveSite s (some p) none scale atol = .ok i ↔
      (∃ a, s.atoms[i]? = some a ∧ within s (toCart s scale p) atol a = true) ∧
      ∀ j b, j ≠ i → s.atoms[j]? = some b → within s (toCart s scale p) atol b = false := by
  constructor
  · intro h
    have hm : siteMatches s (toCart s scale p) atol = [i] := by
      unfold resolveSite at h
      simp only [] at h
      split at h
      · rename_i k hk
        injection h with h
        subst h
        exact hk
      · cases h
    refine ⟨(mem_siteMatches _ _ _ i).mp (by rw [hm]; simp), ?_⟩
    intro j b hne hb
    cases hw : within s (toCart s scale p) atol b with
    | false => rfl
    | true =>
      have hj : j ∈ siteMatches s (toCart s scale p) atol := (mem_siteMatches _ _ _ j).mpr ⟨b, hb, hw⟩
      rw [hm] at hj
      simp at hj
      exact absurd hj hne
  · rintro ⟨⟨a, ha, hw⟩, hu⟩
    simp [resolveSite, site_unique s _ atol i a ha hw hu]

/-- **interstitial, completely:** in a non-empty system the insertion is accepted exactly when no atom
    is within the tolerance of the requested position. -/
theorem interstitial_ok_iff_free (s : Sys K) (p : V3 K) (scale : Bool) (atol : K) (kw : Kw K) (hne : s.atoms ≠ []) :
    (∃ s', interstitial s p scale atol kw = .ok s') ↔
      ∀ (j : Nat) b, s.atoms[j]? = some b → within s (toCart s scale p) atol b = false := by
  constructor
  · rintro ⟨s', h⟩ j b hb
    obtain ⟨hm, _⟩ := interstitial_spec s s' p scale atol kw h
    cases hw : within s (toCart s scale p) atol b with
    | false => rfl
    | true =>
      have hj : j ∈ siteMatches s (toCart s scale p) atol := (mem_siteMatches _ _ _ j).mpr ⟨b, hb, hw⟩
      rw [hm] at hj
      simp at hj
  · intro h
    have hm : siteMatches s (toCart s scale p) atol = [] := by
      apply filter_range_eq_nil
      intro j hj
      have hb : s.atoms[j]? = some s.atoms[j] := List.getElem?_eq_getElem hj
      simp [hb, h j _ hb]
    have he : s.atoms.isEmpty = false := by
      cases hl : s.atoms with
      | nil => exact absurd hl hne
      | cons a t => rfl
    simp [interstitial, hm, interstitialAt, he]

/-- substitution by the type the atom already has. -/
theorem refuse_same_type (s : Sys K) (pos : Option (V3 K)) (ptd : Option Int) (scale : Bool) (atol : K)
    (kw : Kw K) (i : Nat) (a : Atom K) (hr : resolveSite s pos ptd scale atol = .ok i)
    (ha : s.atoms[i]? = some a) (ht : a.atype = kw.atype.getD 1) :
    substitutional s pos ptd scale atol kw = .error .value := by
  simp [substitutional, hr, substitutionalAt, ha, ht]

/-- a refused site is refused by every generator that takes one. -/
theorem refusals_propagate (s : Sys K) (pos : Option (V3 K)) (ptd : Option Int) (scale : Bool) (atol : K)
    (e : Err) (hr : resolveSite s pos ptd scale atol = .error e) (kw : Kw K) (db : V3 K) :
    vacancy s pos ptd scale atol = .error e ∧
    substitutional s pos ptd scale atol kw = .error e ∧
    dumbbell s pos ptd db scale atol kw = .error e := by
  simp [vacancy, substitutional, dumbbell, hr]

/-- every insertion returns a system in the same cell with the same property keys. -/
theorem same_cell (s s' : Sys K) (op : Op K) (h : op.apply s = .ok s') :
    s'.box = s.box ∧ s'.pbc = s.pbc ∧ s'.keys = s.keys := by
  cases op with
  | vac pos ptd scale atol =>
    simp only [Op.apply, vacancy] at h
    split at h
    · cases h
    · simp only [vacancyAt] at h
      split at h
      · cases h
      · injection h with h; subst h; simp
  | int pos scale atol kw =>
    simp only [Op.apply, interstitial] at h
    split at h
    · simp only [interstitialAt] at h
      split at h
      · cases h
      · injection h with h; subst h; simp
    · cases h
  | sub pos ptd scale atol kw =>
    simp only [Op.apply, substitutional] at h
    split at h
    · cases h
    · simp only [substitutionalAt] at h
      split at h
      · cases h
      · split at h
        · cases h
        · injection h with h; subst h; simp
  | db pos ptd dbv scale atol kw =>
    simp only [Op.apply, dumbbell] at h
    split at h
    · cases h
    · simp only [dumbbellAt] at h
      split at h
      · cases h
      · injection h with h; subst h; simp

/-- the dispatcher routes to the four generators and asserts on arguments a defect type does not take. -/
theorem point_dispatch (s : Sys K) (pos : Option (V3 K)) (ptd : Option Int) (p d : V3 K) (scale : Bool)
    (atol : K) (kw : Kw K) :
    point s "v" pos ptd none scale atol {} = vacancy s pos ptd scale atol ∧
    point s "i" (some p) none none scale atol kw = interstitial s p scale atol kw ∧
    point s "s" pos ptd none scale atol kw = substitutional s pos ptd scale atol kw ∧
    point s "db" pos ptd (some d) scale atol kw = dumbbell s pos ptd d scale atol kw ∧
    point s "v" pos ptd (some d) scale atol kw = .error .assert ∧
    (kw.isEmpty = false → point s "v" pos ptd none scale atol kw = .error .assert) ∧
    point s "i" pos (some 0) none scale atol kw = .error .assert ∧
    point s "i" pos none (some d) scale atol kw = .error .assert ∧
    point s "s" pos ptd (some d) scale atol kw = .error .assert ∧
    (∀ t, t ≠ "v" → t ≠ "i" → t ≠ "s" → t ≠ "db" → point s t pos ptd none scale atol kw = .error .value) := by
  refine ⟨?_, ?_, ?_, ?_, ?_, ?_, ?_, ?_, ?_, ?_⟩
  · simp [point, Kw.isEmpty]
  · simp [point]
  · simp [point]
  · simp [point]
  · simp [point]
  · intro hk; simp [point, hk]
  · simp [point]
  · simp [point]
  · simp [point]
  · intro t h1 h2 h3 h4; simp [point, h1, h2, h3, h4]

/-! ### the tolerance argument, symbols and masses -/

/-- `guardAtype` lets every result through when the requested type is a valid one (or none is requested). -/
theorem guardAtype_ok (kw : Kw K) (r : Except Err (Sys K)) (h : kw.atypeOk = true) : guardAtype kw r = r := by
  cases r <;> simp [guardAtype, h]

/-- **`atol=None` and only `None` means the default.**  An explicit tolerance — `0`, negative, tiny —
    is used as given by every generator (for every request whose defect-atom type is a valid one;
    `refuse_bad_atype` covers the others). -/
theorem atol_resolution (d a : K) (s : Sys K) (pos : Option (V3 K)) (ptd : Option Int) (p db : V3 K) (scale : Bool)
    (kw : Kw K) (hk : kw.atypeOk = true) :
    vacancyC d s pos ptd scale none = vacancy s pos ptd scale d ∧
    vacancyC d s pos ptd scale (some a) = vacancy s pos ptd scale a ∧
    interstitialC d s p scale none kw = interstitial s p scale d kw ∧
    interstitialC d s p scale (some a) kw = interstitial s p scale a kw ∧
    substitutionalC d s pos ptd scale none kw = substitutional s pos ptd scale d kw ∧
    substitutionalC d s pos ptd scale (some a) kw = substitutional s pos ptd scale a kw ∧
    dumbbellC d s pos ptd db scale none kw = dumbbell s pos ptd db scale d kw ∧
    dumbbellC d s pos ptd db scale (some a) kw = dumbbell s pos ptd db scale a kw := by
  refine ⟨rfl, rfl, ?_, ?_, ?_, ?_, ?_, ?_⟩ <;>
    simp only [interstitialC, substitutionalC, dumbbellC, effAtol, guardAtype_ok _ _ hk]

/-- the default is resolved in ONE place: a call with `atol=None` is the call with the default given
    explicitly — for every generator and through the dispatcher, whatever the keywords. -/
theorem atol_none_is_default (d : K) (s : Sys K) (t : String) (pos : Option (V3 K)) (ptd : Option Int)
    (p dbv : V3 K) (db : Option (V3 K)) (scale : Bool) (kw : Kw K) :
    vacancyC d s pos ptd scale none = vacancyC d s pos ptd scale (some d) ∧
    interstitialC d s p scale none kw = interstitialC d s p scale (some d) kw ∧
    substitutionalC d s pos ptd scale none kw = substitutionalC d s pos ptd scale (some d) kw ∧
    dumbbellC d s pos ptd dbv scale none kw = dumbbellC d s pos ptd dbv scale (some d) kw ∧
    pointC d s t pos ptd db scale none kw = pointC d s t pos ptd db scale (some d) kw :=
  ⟨rfl, rfl, rfl, rfl, rfl⟩

/-- the dispatcher hands the tolerance on unchanged: through `point` the same default rule holds for
    every defect type. -/
theorem point_atol_passthrough (d : K) (s : Sys K) (t : String) (pos : Option (V3 K)) (ptd : Option Int)
    (db : Option (V3 K)) (scale : Bool) (atol : Option K) (kw : Kw K) (hk : kw.atypeOk = true) :
    pointC d s t pos ptd db scale atol kw = point s t pos ptd db scale (effAtol d atol) kw := by
  unfold pointC point vacancyC interstitialC substitutionalC dumbbellC
  simp only [guardAtype_ok _ _ hk]

/-- **a defect-atom type below 1 is refused** (`atype=0`, negative): by the three generators that take
    one and through the dispatcher — never a system that carries the invalid type, never a silent
    replacement by the default. -/
theorem refuse_bad_atype (d : K) (s : Sys K) (pos : Option (V3 K)) (ptd : Option Int) (p dbv : V3 K)
    (scale : Bool) (atol : Option K) (kw : Kw K) (t : Int) (ht : kw.atype = some t) (hlt : t < 1) :
    (interstitialC d s p scale atol kw).isOk = false ∧
    (substitutionalC d s pos ptd scale atol kw).isOk = false ∧
    (dumbbellC d s pos ptd dbv scale atol kw).isOk = false ∧
    (pointC d s "i" (some p) none none scale atol kw).isOk = false ∧
    (pointC d s "s" pos ptd none scale atol kw).isOk = false ∧
    (pointC d s "db" pos ptd (some dbv) scale atol kw).isOk = false := by
  have hk : kw.atypeOk = false := by simp [Kw.atypeOk, ht]; omega
  have hg : ∀ r : Except Err (Sys K), (guardAtype kw r).isOk = false := by
    intro r; cases r <;> simp [guardAtype, hk, Except.isOk, Except.toBool]
  refine ⟨hg _, hg _, hg _, ?_, ?_, ?_⟩
  · simp only [pointC, interstitialC]; simpa using hg _
  · simp only [pointC, substitutionalC]; simpa using hg _
  · simp only [pointC, dumbbellC]; simpa using hg _

/-- every accepted insertion builds its result as `System(box, pbc, atoms, symbols, masses)` of the
    input's symbols and masses. -/
theorem apply_fixSym (s s' : Sys K) (op : Op K) (h : op.apply s = .ok s') :
    ∃ t : Sys K, s' = fixSym t ∧ t.nsym = s.nsym ∧ t.masses = s.masses := by
  cases op with
  | vac pos ptd scale atol =>
    simp only [Op.apply, vacancy] at h
    split at h
    · cases h
    · simp only [vacancyAt] at h
      split at h
      · cases h
      · injection h with h; exact ⟨_, h.symm, rfl, rfl⟩
  | int pos scale atol kw =>
    simp only [Op.apply, interstitial] at h
    split at h
    · simp only [interstitialAt] at h
      split at h
      · cases h
      · injection h with h; exact ⟨_, h.symm, rfl, rfl⟩
    · cases h
  | sub pos ptd scale atol kw =>
    simp only [Op.apply, substitutional] at h
    split at h
    · cases h
    · simp only [substitutionalAt] at h
      split at h
      · cases h
      · split at h
        · cases h
        · injection h with h; exact ⟨_, h.symm, rfl, rfl⟩
  | db pos ptd dbv scale atol kw =>
    simp only [Op.apply, dumbbell] at h
    split at h
    · cases h
    · simp only [dumbbellAt] at h
      split at h
      · cases h
      · injection h with h; exact ⟨_, h.symm, rfl, rfl⟩

/-- **symbols and masses survive.** The result has at least the input's symbols, enough of them for
    every atom type present (a new type pads with `None`), and the input's per-type masses, entry by
    entry, padded with `None` up to the number of symbols. -/
theorem symbols_masses_kept (s s' : Sys K) (op : Op K) (h : op.apply s = .ok s') :
    s.nsym ≤ s'.nsym ∧ (maxAtype s'.atoms).toNat ≤ s'.nsym ∧
    s'.masses = padNone s.masses s'.nsym ∧
    (∀ i, i < s.masses.length → s'.masses[i]? = s.masses[i]?) := by
  obtain ⟨t, rfl, hn, hm⟩ := apply_fixSym s s' op h
  refine ⟨?_, ?_, ?_, ?_⟩
  · simp only [fixSym, hn]; exact Nat.le_max_left _ _
  · simp only [fixSym]; exact Nat.le_max_right _ _
  · simp only [fixSym, hm]
  · intro i hi
    simp only [fixSym, hm, padNone]
    rw [List.getElem?_append_left hi]

/-- The model is functional: a generator is a pure function of the input system, so the input is
    unchanged *by construction* (this theorem is `rfl` and says nothing about the implementation: hence
    `_partial`; it is listed for completeness of the property's clause list).  On the implementation the clause is checked by snapshot and
    shared-memory tests in `harness/props/c15.py`. -/
theorem input_unchanged_partial (s : Sys K) (op : Op K) :
    (fun t : Sys K => (op.apply t, t)) s = (op.apply s, s) := rfl

end any

section field
variable {K : Type} [Field K] [LinearOrder K] [IsStrictOrderedRing K]

/-- a position that is atom `a` seen through an adjacent periodic image (shift `(x,y,z)`, zero along
    non-periodic directions) is within every tolerance of `a` (distance exactly 0). -/
theorem site_of_image (s : Sys K) (a : Atom K) (cart : V3 K) (atol : K) (x y z : Int)
    (hx : x ∈ pbcRange s.pbc.1) (hy : y ∈ pbcRange s.pbc.2.1) (hz : z ∈ pbcRange s.pbc.2.2)
    (hp : cart = shiftBy s.box.vects a.pos (x, y, z)) : within s cart atol a = true := by
  have h0 : dist2 s cart a = 0 := by
    rw [hp]; exact dvect_image_zero s.box.vects _ _ _ a.pos x y z hx hy hz
  simp [within, h0]

/-- **selection by position ≡ selection by index.** If `pos` (Cartesian, or box-relative with
    `scale`) is atom `i` seen through an adjacent periodic image and no other atom is within `atol`
    of it, then `pos`, the index `i` and the negative index `i - natoms` resolve to the same site, and
    therefore every generator returns the same result for the three requests. -/
theorem pos_eq_index_selection (s : Sys K) (i : Nat) (a : Atom K) (p : V3 K) (scale : Bool) (atol : K)
    (x y z : Int) (ha : s.atoms[i]? = some a)
    (hx : x ∈ pbcRange s.pbc.1) (hy : y ∈ pbcRange s.pbc.2.1) (hz : z ∈ pbcRange s.pbc.2.2)
    (hp : toCart s scale p = shiftBy s.box.vects a.pos (x, y, z))
    (huniq : ∀ j b, j ≠ i → s.atoms[j]? = some b → within s (toCart s scale p) atol b = false) :
    resolveSite s (some p) none scale atol = .ok i ∧
    resolveSite s none (some (i : Int)) scale atol = .ok i ∧
    resolveSite s none (some ((i : Int) - (s.atoms.length : Int))) scale atol = .ok i ∧
    vacancy s (some p) none scale atol = vacancy s none (some (i : Int)) scale atol ∧
    (∀ kw, substitutional s (some p) none scale atol kw = substitutional s none (some (i : Int)) scale atol kw) ∧
    (∀ db kw, dumbbell s (some p) none db scale atol kw = dumbbell s none (some (i : Int)) db scale atol kw) := by
  have hi : i < s.atoms.length := (List.getElem?_eq_some_iff.mp ha).1
  have hw := site_of_image s a (toCart s scale p) atol x y z hx hy hz hp
  have h1 : resolveSite s (some p) none scale atol = .ok i := by
    simp [resolveSite, site_unique s _ atol i a ha hw huniq]
  have h2 := index_normalisation s i hi scale atol
  refine ⟨h1, h2, index_negative s i hi scale atol, ?_, ?_, ?_⟩
  · simp [vacancy, h1, h2]
  · intro kw; simp [substitutional, h1, h2]
  · intro db kw; simp [dumbbell, h1, h2]

/-- Cartesian position of the atom itself. -/
theorem pos_eq_index_cartesian (s : Sys K) (i : Nat) (a : Atom K) (atol : K) (ha : s.atoms[i]? = some a)
    (huniq : ∀ j b, j ≠ i → s.atoms[j]? = some b → within s a.pos atol b = false) :
    resolveSite s (some a.pos) none false atol = resolveSite s none (some (i : Int)) false atol := by
  have h0 : ∀ b, (0 : Int) ∈ pbcRange b := by intro b; cases b <;> simp [pbcRange]
  have hp : toCart s false a.pos = shiftBy s.box.vects a.pos (0, 0, 0) := by
    simp only [toCart, shiftBy, Int.cast_zero]
    ext <;> simp
  obtain ⟨h1, h2, _⟩ := pos_eq_index_selection s i a a.pos false atol 0 0 0 ha (h0 _) (h0 _) (h0 _) hp
    (by simpa [toCart] using huniq)
  rw [h1, h2]

/-- box-relative position: the relative coordinates `r` of the atom plus an integer image shift. -/
theorem pos_eq_index_relative (s : Sys K) (i : Nat) (a : Atom K) (r : V3 K) (atol : K) (x y z : Int)
    (ha : s.atoms[i]? = some a) (hr : s.box.relToCart r = a.pos)
    (hx : x ∈ pbcRange s.pbc.1) (hy : y ∈ pbcRange s.pbc.2.1) (hz : z ∈ pbcRange s.pbc.2.2)
    (huniq : ∀ j b, j ≠ i → s.atoms[j]? = some b →
      within s (s.box.relToCart ⟨r.x + x, r.y + y, r.z + z⟩) atol b = false) :
    resolveSite s (some ⟨r.x + x, r.y + y, r.z + z⟩) none true atol =
      resolveSite s none (some (i : Int)) true atol := by
  have hp : toCart s true ⟨r.x + x, r.y + y, r.z + z⟩ = shiftBy s.box.vects a.pos (x, y, z) := by
    rw [← hr]
    simp only [toCart, Box.relToCart, M3.vecMul, shiftBy, if_true]
    ext <;> simp only [v3_add_x, v3_add_y, v3_add_z] <;> ring
  obtain ⟨h1, h2, _⟩ := pos_eq_index_selection s i a _ true atol x y z ha hx hy hz hp
    (by simpa [toCart] using huniq)
  rw [h1, h2]

/-! ### the tolerance: closed ball, monotone, zero and negative tolerances are exact matches -/

theorem dist2_nonneg (s : Sys K) (p : V3 K) (a : Atom K) : 0 ≤ dist2 s p a := normSq_nonneg _

/-- `np.isclose(dist, 0, atol)` on squares: an exact hit, or a non-negative tolerance whose closed
    ball contains the position. -/
theorem within_iff (s : Sys K) (p : V3 K) (atol : K) (a : Atom K) :
    within s p atol a = true ↔ dist2 s p a = 0 ∨ (0 ≤ atol ∧ dist2 s p a ≤ atol * atol) := by
  simp only [within, Bool.or_eq_true, Bool.and_eq_true, decide_eq_true_eq, Bool.not_eq_true',
    decide_eq_false_iff_not, not_lt]

/-- the boundary belongs to the tolerance: `|d| = atol` is a match. -/
theorem within_tie (s : Sys K) (p : V3 K) (atol : K) (a : Atom K) (h0 : 0 ≤ atol)
    (h : dist2 s p a = atol * atol) : within s p atol a = true :=
  (within_iff s p atol a).mpr (Or.inr ⟨h0, le_of_eq h⟩)

/-- with `atol = 0` (or any negative tolerance) only an exact hit matches: no default sneaks in. -/
theorem within_zero_tol (s : Sys K) (p : V3 K) (atol : K) (a : Atom K) (h : atol ≤ 0) :
    within s p atol a = true ↔ dist2 s p a = 0 := by
  rw [within_iff]
  constructor
  · rintro (h0 | ⟨h1, h2⟩)
    · exact h0
    · have : atol = 0 := le_antisymm h h1
      subst this
      exact le_antisymm (by simpa using h2) (dist2_nonneg s p a)
  · intro h0; exact Or.inl h0

/-- a larger tolerance matches at least the same atoms. -/
theorem within_mono (s : Sys K) (p : V3 K) (t t' : K) (a : Atom K) (h0 : 0 ≤ t) (h : t ≤ t')
    (hw : within s p t a = true) : within s p t' a = true := by
  rw [within_iff] at hw ⊢
  rcases hw with h1 | ⟨_, h2⟩
  · exact Or.inl h1
  · exact Or.inr ⟨le_trans h0 h, le_trans h2 (mul_self_le_mul_self h0 h)⟩

/-- **zero tolerance refuses every position that is not exactly an atom** (the absent-site clause at
    the boundary value of the tolerance), for a direct call and through the dispatcher; and an
    interstitial there is not "occupied". -/
theorem zero_tol_offsite (d : K) (s : Sys K) (p : V3 K) (scale : Bool) (kw : Kw K) (db : V3 K)
    (h : ∀ (j : Nat) b, s.atoms[j]? = some b → dist2 s (toCart s scale p) b ≠ 0) :
    vacancyC d s (some p) none scale (some 0) = .error .value ∧
    substitutionalC d s (some p) none scale (some 0) kw = .error .value ∧
    dumbbellC d s (some p) none db scale (some 0) kw = .error .value ∧
    pointC d s "v" (some p) none none scale (some 0) {} = .error .value ∧
    interstitialC d s p scale (some 0) kw = guardAtype kw (interstitialAt s (toCart s scale p) kw) := by
  have hw : ∀ (j : Nat) b, s.atoms[j]? = some b → within s (toCart s scale p) 0 b = false := by
    intro j b hb
    cases hc : within s (toCart s scale p) 0 b with
    | false => rfl
    | true => exact absurd ((within_zero_tol s _ 0 b (le_refl _)).mp hc) (h j b hb)
  have hr := refuse_absent_site s p scale 0 hw
  have hm : siteMatches s (toCart s scale p) 0 = [] := by
    apply filter_range_eq_nil
    intro j hj
    have hb : s.atoms[j]? = some s.atoms[j] := List.getElem?_eq_getElem hj
    simp [hb, hw j _ hb]
  obtain ⟨h1, h2, h3⟩ := refusals_propagate s (some p) none scale 0 .value hr kw db
  refine ⟨h1, ?_, ?_, ?_, ?_⟩
  · simp [substitutionalC, effAtol, h2, guardAtype]
  · simp [dumbbellC, effAtol, h3, guardAtype]
  · rw [point_atol_passthrough _ _ _ _ _ _ _ _ _ (by rfl)]; simp [point, Kw.isEmpty, effAtol, h1]
  · simp [interstitialC, effAtol, interstitial, hm]

end field

/-! ### scales: the site search contains no absolute length -/

section scale
variable {K : Type} [Field K] [LinearOrder K] [IsStrictOrderedRing K]

/-- the cell vectors scaled by `c`. -/
def scaleM (c : K) (m : M3 K) : M3 K := ⟨V3.smul c m.r0, V3.smul c m.r1, V3.smul c m.r2⟩

/-- a system with every length (cell vectors, origin, atom positions) multiplied by `c`. -/
def Sys.scaled (c : K) (s : Sys K) : Sys K :=
  { s with box := ⟨scaleM c s.box.vects, V3.smul c s.box.origin⟩,
           atoms := s.atoms.map fun a => { a with pos := V3.smul c a.pos } }

theorem normSq_smul (c : K) (v : V3 K) : V3.normSq (V3.smul c v) = c * c * V3.normSq v := by
  simp only [V3.normSq, V3.dot, V3.smul]; ring

theorem shiftBy_scale (c : K) (m : M3 K) (d : V3 K) (sh : Int × Int × Int) :
    shiftBy (scaleM c m) (V3.smul c d) sh = V3.smul c (shiftBy m d sh) := by
  simp only [shiftBy, scaleM, V3.smul]
  ext <;> simp only [] <;> ring

theorem dvectStep_scale (c : K) (hc : 0 < c) (m : M3 K) (d0 d : V3 K) (sh : Int × Int × Int) :
    dvectStep (scaleM c m) (V3.smul c d0) (V3.smul c d) sh = V3.smul c (dvectStep m d0 d sh) := by
  have hcc : 0 < c * c := mul_pos hc hc
  simp only [dvectStep, shiftBy_scale, normSq_smul]
  by_cases h : V3.normSq (shiftBy m d0 sh) < V3.normSq d
  · rw [if_pos h, if_pos (mul_lt_mul_of_pos_left h hcc)]
  · rw [if_neg h, if_neg (fun h' => h (lt_of_mul_lt_mul_left h' (le_of_lt hcc)))]

theorem fold_scale (c : K) (hc : 0 < c) (m : M3 K) (d0 : V3 K) (l : List (Int × Int × Int)) (d : V3 K) :
    l.foldl (dvectStep (scaleM c m) (V3.smul c d0)) (V3.smul c d) = V3.smul c (l.foldl (dvectStep m d0) d) := by
  induction l generalizing d with
  | nil => rfl
  | cons sh t ih => simp only [List.foldl_cons, dvectStep_scale c hc, ih]

theorem dvect_scale (c : K) (hc : 0 < c) (m : M3 K) (px py pz : Bool) (p q : V3 K) :
    dvect (scaleM c m) px py pz (V3.smul c p) (V3.smul c q) = V3.smul c (dvect m px py pz p q) := by
  have hsub : V3.smul c q - V3.smul c p = V3.smul c (q - p) := by
    show V3.sub _ _ = V3.smul c (V3.sub q p)
    simp only [V3.sub, V3.smul]; ext <;> simp only [] <;> ring
  simp only [dvect, hsub, fold_scale c hc]

/-- **no hidden length in the site search**: with the cell, the atoms, the requested position and the
    tolerance all multiplied by the same `c > 0`, every atom is matched or not exactly as before. -/
theorem within_scale (c : K) (hc : 0 < c) (s : Sys K) (p : V3 K) (atol : K) (a : Atom K) :
    within (s.scaled c) (V3.smul c p) (c * atol) { a with pos := V3.smul c a.pos } = within s p atol a := by
  have hcc : 0 < c * c := mul_pos hc hc
  have hd : dist2 (s.scaled c) (V3.smul c p) { a with pos := V3.smul c a.pos } = c * c * dist2 s p a := by
    simp only [dist2, Sys.scaled, dvect_scale c hc, normSq_smul]
  have h1 : (c * c * dist2 s p a = 0) ↔ dist2 s p a = 0 := by
    constructor
    · intro h; rcases mul_eq_zero.mp h with h | h
      · exact absurd h (ne_of_gt hcc)
      · exact h
    · intro h; rw [h, mul_zero]
  have h2 : (c * atol < 0) ↔ atol < 0 := by
    constructor
    · intro h; by_contra hn; exact absurd h (not_lt.mpr (mul_nonneg (le_of_lt hc) (not_lt.mp hn)))
    · intro h; exact mul_neg_of_pos_of_neg hc h
  have h3 : (c * atol * (c * atol) < c * c * dist2 s p a) ↔ atol * atol < dist2 s p a := by
    have : c * atol * (c * atol) = c * c * (atol * atol) := by ring
    rw [this]
    constructor
    · intro h; exact lt_of_mul_lt_mul_left h (le_of_lt hcc)
    · intro h; exact mul_lt_mul_of_pos_left h hcc
  simp only [within, hd, h1, h2, h3]

theorem siteMatches_scale (c : K) (hc : 0 < c) (s : Sys K) (p : V3 K) (atol : K) :
    siteMatches (s.scaled c) (V3.smul c p) (c * atol) = siteMatches s p atol := by
  simp only [siteMatches]
  have hl : (s.scaled c).atoms.length = s.atoms.length := by simp [Sys.scaled]
  rw [hl]
  apply List.filter_congr
  intro i _
  have : (s.scaled c).atoms[i]? = (s.atoms[i]?).map fun a => { a with pos := V3.smul c a.pos } := by
    simp [Sys.scaled]
  rw [this]
  cases s.atoms[i]? with
  | none => rfl
  | some a => simp only [Option.map_some]; exact within_scale c hc s p atol a


theorem toCart_scaled_rel (c : K) (s : Sys K) (p : V3 K) :
    toCart (s.scaled c) true p = V3.smul c (toCart s true p) := by
  simp only [toCart, if_true, Sys.scaled, Box.relToCart, M3.vecMul, scaleM, V3.smul]
  ext <;> simp only [v3_add_x, v3_add_y, v3_add_z] <;> ring

/-- **the site search knows no absolute length.**  Multiply the cell, its origin, every atom position and
    the tolerance by the same `c > 0`: a Cartesian position multiplied by `c`, or the SAME box-relative
    position, resolves to the same site (or is refused alike), and an interstitial site is free or
    occupied alike.  (The only absolute length of `point.py` is the documented default tolerance, which
    enters through `effAtol` alone.) -/
theorem search_scale_invariant (c : K) (hc : 0 < c) (s : Sys K) (p : V3 K) (ptd : Option Int) (atol : K) :
    resolveSite (s.scaled c) (some (V3.smul c p)) ptd false (c * atol) = resolveSite s (some p) ptd false atol ∧
    resolveSite (s.scaled c) (some p) ptd true (c * atol) = resolveSite s (some p) ptd true atol ∧
    resolveSite (s.scaled c) none ptd false (c * atol) = resolveSite s none ptd false atol ∧
    siteMatches (s.scaled c) (toCart (s.scaled c) false (V3.smul c p)) (c * atol) = siteMatches s (toCart s false p) atol ∧
    siteMatches (s.scaled c) (toCart (s.scaled c) true p) (c * atol) = siteMatches s (toCart s true p) atol := by
  have hl : (s.scaled c).atoms.length = s.atoms.length := by simp [Sys.scaled]
  have h1 : siteMatches (s.scaled c) (toCart (s.scaled c) false (V3.smul c p)) (c * atol) =
      siteMatches s (toCart s false p) atol := by
    simpa [toCart] using siteMatches_scale c hc s p atol
  have h2 : siteMatches (s.scaled c) (toCart (s.scaled c) true p) (c * atol) =
      siteMatches s (toCart s true p) atol := by
    rw [toCart_scaled_rel]; exact siteMatches_scale c hc s _ atol
  refine ⟨?_, ?_, ?_, h1, h2⟩
  · cases ptd with
    | some k => rfl
    | none => simp only [resolveSite, h1]
  · cases ptd with
    | some k => rfl
    | none => simp only [resolveSite, h2]
  · cases ptd with
    | some k => simp only [resolveSite, hl]
    | none => rfl

end scale


/-! ### non-vacuity: concrete runs of the model at `K := Rat` -/

/-- cubic cell of edge 4 at origin (1,0,0), periodic along x and y only, two atoms, one extra property. -/
def exSys : Sys Rat :=
  { box := ⟨⟨⟨4, 0, 0⟩, ⟨0, 4, 0⟩, ⟨0, 0, 4⟩⟩, ⟨1, 0, 0⟩⟩, pbc := (true, true, false), nsym := 2,
    masses := [some 27, none], keys := ["charge"],
    atoms := [{ atype := 1, pos := ⟨1, 0, 0⟩, props := [[1/2]] }, { atype := 2, pos := ⟨3, 2, 2⟩, props := [[3/2]] }],
    old := none }

example : vacancy exSys none (some 0) false (1/100) =
    .ok { exSys with atoms := [{ atype := 2, pos := ⟨3, 2, 2⟩, props := [[3/2]] }], old := some [1] } := by decide +kernel
-- by position, through the periodic image one cell along -x, and box-relative through +y
example : vacancy exSys (some ⟨-3, 0, 0⟩) none false (1/100) = vacancy exSys none (some 0) false (1/100) := by decide +kernel
example : vacancy exSys (some ⟨0, 1, 0⟩) none true (1/100) = vacancy exSys none (some (-2)) false (1/100) := by decide +kernel
-- z is not periodic; two cells away is outside dvect's candidate set: refused
example : vacancy exSys (some ⟨1, 0, 4⟩) none false (1/100) = .error .value := by decide +kernel
example : vacancy exSys (some ⟨9, 0, 0⟩) none false (1/100) = .error .value := by decide +kernel
-- ambiguous (tolerance 3 reaches both atoms), out of range, occupied, same type
example : vacancy exSys (some ⟨2, 1, 1⟩) none false 3 = .error .value := by decide +kernel
example : vacancy exSys none (some 2) false (1/100) = .error .value := by decide +kernel
example : vacancy exSys none (some (-3)) false (1/100) = .error .value := by decide +kernel
example : interstitial exSys ⟨1, 0, 1/200⟩ false (1/100) {} = .error .value := by decide +kernel
example : substitutional exSys none (some 0) false (1/100) {} = .error .value := by decide +kernel
example : interstitial exSys ⟨1/4, 1/2, 1/2⟩ true (1/100) { atype := some 3 } =
    .ok { exSys with
          atoms := exSys.atoms ++ [{ atype := 3, pos := ⟨2, 2, 2⟩, props := [[0]] }],
          old := some [0, 1, 2], nsym := 3, masses := [some 27, none, none] } := by decide +kernel
example : dumbbell exSys none (some 0) ⟨1/8, 0, 0⟩ true (1/100) { extra := [("charge", [7])] } =
    .ok { exSys with
          atoms := [{ atype := 2, pos := ⟨3, 2, 2⟩, props := [[3/2]] },
                    { atype := 1, pos := ⟨1/2, 0, 0⟩, props := [[1/2]] },
                    { atype := 1, pos := ⟨3/2, 0, 0⟩, props := [[7]] }],
          old := some [1, 0, 2] } := by decide +kernel
-- a history: vacancy of atom 0, then an interstitial: the survivor still records index 1
example : (run exSys (idProv exSys) [.vac none (some 0) false (1/100), .int ⟨1/4, 1/4, 1/4⟩ true (1/100) {}]).2
    = [some 1, none] := by decide +kernel
example : (run exSys (idProv exSys) [.vac none (some 0) false (1/100), .int ⟨1/4, 1/4, 1/4⟩ true (1/100) {}]).1.old
    = some [1, 2] := by decide +kernel

-- the tolerance argument: atom 0 is at (1,0,0); the position 1/128 off it is found with the default
-- (None), refused with an explicit 0 and with 1/256, found with exactly 1/128 (tie) — directly and
-- through the dispatcher, also through the periodic image one cell along -x
example : vacancyC (1/100) exSys (some ⟨1 + 1/128, 0, 0⟩) none false none = vacancy exSys none (some 0) false 0 := by decide +kernel
example : vacancyC (1/100) exSys (some ⟨1 + 1/128, 0, 0⟩) none false (some 0) = .error .value := by decide +kernel
example : vacancyC (1/100) exSys (some ⟨1 + 1/128, 0, 0⟩) none false (some (1/256)) = .error .value := by decide +kernel
example : vacancyC (1/100) exSys (some ⟨1 + 1/128, 0, 0⟩) none false (some (1/128)) = vacancy exSys none (some 0) false 0 := by decide +kernel
example : pointC (1/100) exSys "v" (some ⟨-3 + 1/128, 0, 0⟩) none none false (some 0) {} = .error .value := by decide +kernel
example : pointC (1/100) exSys "v" (some ⟨-3 + 1/128, 0, 0⟩) none none false none {} = vacancy exSys none (some 0) false 0 := by decide +kernel
example : pointC (1/100) exSys "v" (some ⟨-3, 0, 0⟩) none none false (some 0) {} = vacancy exSys none (some 0) false 0 := by decide +kernel
example : interstitialC (1/100) exSys ⟨1 + 1/128, 0, 0⟩ false none {} = .error .value := by decide +kernel
example : (interstitialC (1/100) exSys ⟨1 + 1/128, 0, 0⟩ false (some 0) {}).isOk = true := by decide +kernel
-- a requested type below 1 is refused, whatever else is asked; a valid one goes through
example : interstitialC (1/100) exSys ⟨1/4, 1/2, 1/2⟩ true none { atype := some 0 } = .error .value := by decide +kernel
example : substitutionalC (1/100) exSys none (some 0) false none { atype := some (-1) } = .error .value := by decide +kernel
example : pointC (1/100) exSys "db" none (some 0) (some ⟨1/8, 0, 0⟩) true none { atype := some 0 } = .error .value := by decide +kernel
example : (interstitialC (1/100) exSys ⟨1/4, 1/2, 1/2⟩ true none { atype := some 3 }).isOk = true := by decide +kernel
example : ({ atype := some 3 } : Kw Rat).atypeOk = true ∧ ({} : Kw Rat).atypeOk = true := by decide
-- masses are handed on
example : (vacancy exSys none (some 0) false (1/100)).toOption.map (·.masses) = some [some 27, none] := by decide +kernel

/-- the hypotheses of `pos_eq_index_selection` are met by a concrete system: atom 0 of `exSys` seen
    through the image one cell along -x. -/
example : resolveSite exSys (some ⟨-3, 0, 0⟩) none false (1/100) = .ok 0 :=
  (pos_eq_index_selection exSys 0 { atype := 1, pos := ⟨1, 0, 0⟩, props := [[1/2]] } ⟨-3, 0, 0⟩ false (1/100)
    (-1) 0 0 (by decide +kernel) (by simp [exSys, pbcRange]) (by simp [exSys, pbcRange]) (by simp [exSys, pbcRange])
    (by decide +kernel)
    (by
      intro j b hne hb
      rcases j with _ | _ | j
      · exact absurd rfl hne
      · have : b = { atype := 2, pos := ⟨3, 2, 2⟩, props := [[3/2]] } := by
          simp [exSys] at hb; exact hb.symm
        subst this
        decide +kernel
      · simp [exSys] at hb)).1

-- non-vacuity: `exSys` in units 1024 times smaller; 1/128 off atom 0, tolerance tie / just below
example : resolveSite (exSys.scaled (1/1024)) (some (V3.smul (1/1024) ⟨1 + 1/128, 0, 0⟩)) none false ((1/1024) * (1/128)) = .ok 0 := by
  decide +kernel
example : resolveSite (exSys.scaled (1/1024)) (some (V3.smul (1/1024) ⟨1 + 1/128, 0, 0⟩)) none false ((1/1024) * (1/256)) = .error .value := by
  decide +kernel


/-! ## round 6: completeness (iff) of every refusal, end-to-end statements about the functions AS WRITTEN in
    point.py (`Generated/PointSource.lean`), keywords, histories -/

open Atomman.Generated



section any
variable {K : Type} [Add K] [Sub K] [Mul K] [Zero K] [IntCast K] [LT K] [DecidableLT K] [DecidableEq K]

/-- **selection by index, completely** (also negative indices): `ptd_id = k` names atom `i` exactly when
    `k = i` with `0 ≤ k < natoms`, or `k = i - natoms` with `-natoms ≤ k < 0`. -/
theorem resolve_index_iff (s : Sys K) (k : Int) (scale : Bool) (atol : K) (i : Nat) :
    resolveSite s none (some k) scale atol = .ok i ↔
      ((0 ≤ k ∧ k < (s.atoms.length : Int) ∧ (i : Int) = k) ∨
       (k < 0 ∧ 0 ≤ k + (s.atoms.length : Int) ∧ (i : Int) = k + (s.atoms.length : Int))) := by
  have key : normIdx s.atoms.length k = some i ↔
      ((0 ≤ k ∧ k < (s.atoms.length : Int) ∧ (i : Int) = k) ∨
       (k < 0 ∧ 0 ≤ k + (s.atoms.length : Int) ∧ (i : Int) = k + (s.atoms.length : Int))) := by
    unfold normIdx
    simp only []
    split <;> split <;> simp <;> omega
  simp only [resolveSite]
  cases hn : normIdx s.atoms.length k with
  | none =>
    rw [hn] at key
    constructor
    · intro h; cases h
    · intro h; exact absurd (key.mpr h) (by simp)
  | some j =>
    rw [hn] at key
    constructor
    · intro h; injection h with h; subst h; exact key.mp rfl
    · intro h; have := key.mpr h; injection this with this; subst this; rfl

/-- **an index is refused exactly when it is out of range** (`k ≥ natoms` or `k < -natoms`). -/
theorem refuse_index_iff (s : Sys K) (k : Int) (scale : Bool) (atol : K) :
    resolveSite s none (some k) scale atol = .error .value ↔
      (k ≥ (s.atoms.length : Int) ∨ k < -(s.atoms.length : Int)) := by
  constructor
  · intro h
    by_contra hc
    have hc' : ¬ (k ≥ (s.atoms.length : Int)) ∧ ¬ (k < -(s.atoms.length : Int)) := by
      constructor <;> (intro h'; exact hc (by first | exact Or.inl h' | exact Or.inr h'))
    by_cases hk : k < 0
    · have := (resolve_index_iff s k scale atol (k + (s.atoms.length : Int)).toNat).mpr
        (Or.inr ⟨hk, by omega, by omega⟩)
      rw [h] at this; cases this
    · have := (resolve_index_iff s k scale atol k.toNat).mpr (Or.inl ⟨by omega, by omega, by omega⟩)
      rw [h] at this; cases this
  · intro h
    simp [resolveSite, normIdx_out _ _ h]

/-- selection by index does not look at `scale` or at the tolerance. -/
theorem resolve_index_indep (s : Sys K) (k : Int) (sc sc' : Bool) (a a' : K) :
    resolveSite s none (some k) sc a = resolveSite s none (some k) sc' a' := rfl

/-- **`vacancy` refuses exactly when** the site is refused or the atom is the only one. -/
theorem vacancy_ok_iff (s : Sys K) (pos : Option (V3 K)) (ptd : Option Int) (scale : Bool) (atol : K) :
    (∃ s', vacancy s pos ptd scale atol = .ok s') ↔
      (∃ i, resolveSite s pos ptd scale atol = .ok i) ∧ 2 ≤ s.atoms.length := by
  unfold vacancy
  cases hr : resolveSite s pos ptd scale atol with
  | error e => simp
  | ok i =>
    have hi := resolveSite_lt s pos ptd scale atol i hr
    simp only [vacancyAt]
    have hl : ((List.range s.atoms.length).eraseIdx i).length = s.atoms.length - 1 := by
      simp [List.length_eraseIdx, hi]
    by_cases h2 : 2 ≤ s.atoms.length
    · have : ((List.range s.atoms.length).eraseIdx i).isEmpty = false := by
        cases hl' : (List.range s.atoms.length).eraseIdx i with
        | nil => rw [hl'] at hl; simp at hl; omega
        | cons a t => rfl
      simp [this, h2]
    · have : ((List.range s.atoms.length).eraseIdx i).isEmpty = true := by
        cases hl' : (List.range s.atoms.length).eraseIdx i with
        | nil => rfl
        | cons a t => rw [hl'] at hl; simp at hl; omega
      simp [this, h2]

/-- **`substitutional` refuses exactly when** the site is refused or the atom already has the requested type. -/
theorem substitutional_ok_iff (s : Sys K) (pos : Option (V3 K)) (ptd : Option Int) (scale : Bool) (atol : K)
    (kw : Kw K) :
    (∃ s', substitutional s pos ptd scale atol kw = .ok s') ↔
      ∃ i a, resolveSite s pos ptd scale atol = .ok i ∧ s.atoms[i]? = some a ∧ a.atype ≠ kw.atype.getD 1 := by
  unfold substitutional
  cases hr : resolveSite s pos ptd scale atol with
  | error e => simp
  | ok i =>
    have hi := resolveSite_lt s pos ptd scale atol i hr
    have ha : s.atoms[i]? = some s.atoms[i] := List.getElem?_eq_getElem hi
    simp only [substitutionalAt, ha]
    by_cases ht : s.atoms[i].atype = kw.atype.getD 1
    · simp [ht]
      intro x hx; rw [ha] at hx; injection hx with hx; subst hx; exact ht
    · simp [ht]
      exact ⟨_, ha, ht⟩

/-- **`dumbbell` refuses exactly when** the site is refused. -/
theorem dumbbell_ok_iff (s : Sys K) (pos : Option (V3 K)) (ptd : Option Int) (db : V3 K) (scale : Bool) (atol : K)
    (kw : Kw K) :
    (∃ s', dumbbell s pos ptd db scale atol kw = .ok s') ↔ ∃ i, resolveSite s pos ptd scale atol = .ok i := by
  unfold dumbbell
  cases hr : resolveSite s pos ptd scale atol with
  | error e => simp
  | ok i =>
    have hi := resolveSite_lt s pos ptd scale atol i hr
    have ha : s.atoms[i]? = some s.atoms[i] := List.getElem?_eq_getElem hi
    simp [dumbbellAt, ha]

/-- the closing guard lets a result through exactly when the requested type is admissible. -/
theorem guardAtype_ok_iff (kw : Kw K) (r : Except Err (Sys K)) (s' : Sys K) :
    guardAtype kw r = .ok s' ↔ r = .ok s' ∧ kw.atypeOk = true := by
  cases r with
  | error e => simp [guardAtype]
  | ok x =>
    cases hk : kw.atypeOk <;> simp [guardAtype, hk]

/-- the dispatcher at the level of the API (`atol` optional): routing and assertions. -/
theorem pointC_dispatch (d : K) (s : Sys K) (pos : Option (V3 K)) (ptd : Option Int) (p v : V3 K) (scale : Bool)
    (atol : Option K) (kw : Kw K) :
    pointC d s "v" pos ptd none scale atol {} = vacancyC d s pos ptd scale atol ∧
    pointC d s "i" (some p) none none scale atol kw = interstitialC d s p scale atol kw ∧
    pointC d s "s" pos ptd none scale atol kw = substitutionalC d s pos ptd scale atol kw ∧
    pointC d s "db" pos ptd (some v) scale atol kw = dumbbellC d s pos ptd v scale atol kw ∧
    pointC d s "v" pos ptd (some v) scale atol kw = .error .assert ∧
    (kw.isEmpty = false → pointC d s "v" pos ptd none scale atol kw = .error .assert) ∧
    pointC d s "i" pos (some 0) none scale atol kw = .error .assert ∧
    pointC d s "i" pos none (some v) scale atol kw = .error .assert ∧
    pointC d s "s" pos ptd (some v) scale atol kw = .error .assert ∧
    (∀ t, t ≠ "v" → t ≠ "i" → t ≠ "s" → t ≠ "db" → pointC d s t pos ptd none scale atol kw = .error .value) := by
  refine ⟨?_, ?_, ?_, ?_, ?_, ?_, ?_, ?_, ?_, ?_⟩
  · simp [pointC, Kw.isEmpty]
  · simp [pointC]
  · simp [pointC]
  · simp [pointC]
  · simp [pointC]
  · intro hk; simp [pointC, hk]
  · simp [pointC]
  · simp [pointC]
  · simp [pointC]
  · intro t h1 h2 h3 h4; simp [pointC, h1, h2, h3, h4]

end any

section field
variable {K : Type} [Field K] [LinearOrder K] [IsStrictOrderedRing K]

/-- **the tolerance test on squares is numpy's `isclose(dist, 0.0, atol=atol)`**: for the exact distance `r`
    (`r ≥ 0`, `r² = dist2`) and ANY `rtol`, `within` holds iff `r == 0` or `|r - 0| ≤ atol + rtol·|0|`. -/
theorem within_iff_isclose (s : Sys K) (p : V3 K) (atol : K) (a : Atom K) (r rtol : K) (hr : 0 ≤ r)
    (hrr : r * r = dist2 s p a) :
    within s p atol a = true ↔ (r = 0 ∨ |r - 0| ≤ atol + rtol * |(0 : K)|) := by
  have hw : within s p atol a = true ↔ dist2 s p a = 0 ∨ (0 ≤ atol ∧ dist2 s p a ≤ atol * atol) := by
    simp only [within, Bool.or_eq_true, Bool.and_eq_true, decide_eq_true_eq, Bool.not_eq_true',
      decide_eq_false_iff_not, not_lt]
  rw [hw, ← hrr]
  simp only [sub_zero, abs_zero, mul_zero, add_zero, abs_of_nonneg hr]
  constructor
  · rintro (h | ⟨h0, h1⟩)
    · left; exact mul_self_eq_zero.mp h
    · right
      by_contra hc
      have hlt : atol < r := not_le.mp hc
      have : atol * atol < r * r := mul_self_lt_mul_self h0 hlt
      exact absurd h1 (not_le.mpr this)
  · rintro (h | h)
    · left; rw [h, mul_zero]
    · right; exact ⟨le_trans hr h, mul_self_le_mul_self hr h⟩

end field



section any
variable {K : Type} [Add K] [Sub K] [Mul K] [Zero K] [IntCast K] [LT K] [DecidableLT K] [DecidableEq K]

/-! ### keywords: requested values, defaults, unknown keys, order -/

theorem overrideProps_getElem? (keys : List String) (cur : List (List K)) (kw : List (String × List K))
    (dflt : List K → List K) (j : Nat) (k : String) (v : List K) (hk : keys[j]? = some k) (hv : cur[j]? = some v) :
    (overrideProps keys cur kw dflt)[j]? = some ((kw.lookup k).getD (dflt v)) := by
  simp [overrideProps, List.getElem?_zipWith, hk, hv]

/-- `np.zeros_like`: same shape, every entry zero. -/
theorem zerosLike_spec (v : List K) : (zerosLike v).length = v.length ∧ ∀ x ∈ zerosLike v, x = 0 := by
  constructor
  · simp [zerosLike]
  · intro x hx; simp [zerosLike] at hx; exact hx.2

/-- a keyword that names no property of the system is ignored (what `kwargs.pop(prop, …)` over the
    system's own properties does). -/
theorem unknown_keyword_ignored (keys : List String) (cur : List (List K)) (kw : List (String × List K))
    (dflt : List K → List K) (k : String) (v : List K) (hk : k ∉ keys) :
    overrideProps keys cur ((k, v) :: kw) dflt = overrideProps keys cur kw dflt := by
  unfold overrideProps
  induction keys generalizing cur with
  | nil => simp
  | cons key t ih =>
    cases cur with
    | nil => simp
    | cons c ct =>
      have hne : key ≠ k := fun h => hk (by simp [h])
      have ht : k ∉ t := fun h => hk (by simp [h])
      simp only [List.zipWith_cons_cons, ih ct ht]
      have : (key == k) = false := beq_eq_false_iff_ne.mpr hne
      simp [List.lookup, this]

theorem lookup_perm (l l' : List (String × List K)) (k : String) (h : l.Perm l')
    (nd : (l.map Prod.fst).Nodup) : l.lookup k = l'.lookup k := by
  induction h with
  | nil => rfl
  | cons x _ ih =>
    have nd' : (List.map Prod.fst _).Nodup := (List.nodup_cons.mp (by simpa only [List.map_cons] using nd)).2
    simp only [List.lookup]
    split
    · rfl
    · exact ih nd'
  | swap x y l =>
    have hxy : y.1 ≠ x.1 := by
      intro h
      have h0 : (y.1 :: x.1 :: l.map Prod.fst).Nodup := by simpa only [List.map_cons] using nd
      have := (List.nodup_cons.mp h0).1
      exact this (by simp [h])
    simp only [List.lookup]
    by_cases h1 : k = x.1
    · by_cases h2 : k = y.1
      · exact absurd (h2.symm.trans h1) hxy
      · simp [h1, h2, hxy, Ne.symm hxy]
        subst h1
        simp [beq_eq_false_iff_ne.mpr (Ne.symm hxy)]
    · by_cases h2 : k = y.1
      · subst h2; simp [beq_eq_false_iff_ne.mpr h1]
      · simp [beq_eq_false_iff_ne.mpr h1, beq_eq_false_iff_ne.mpr h2]
  | trans h1 h2 ih1 ih2 =>
    have nd2 := (h1.map Prod.fst).nodup_iff.mp nd
    exact (ih1 nd).trans (ih2 nd2)

/-- `**kwargs` is a dictionary: with distinct keys the ORDER in which the keywords are written is irrelevant. -/
theorem keyword_order_irrelevant (keys : List String) (cur : List (List K)) (kw kw' : List (String × List K))
    (dflt : List K → List K) (h : kw.Perm kw') (nd : (kw.map Prod.fst).Nodup) :
    overrideProps keys cur kw dflt = overrideProps keys cur kw' dflt := by
  unfold overrideProps
  congr 1
  funext k v
  rw [lookup_perm kw kw' k h nd]

end any



section any
variable {K : Type} [Add K] [Sub K] [Mul K] [Zero K] [IntCast K] [LT K] [DecidableLT K] [DecidableEq K]

theorem guardAtype_ok_inv (kw : Kw K) (r : Except Err (Sys K)) (s' : Sys K) (h : guardAtype kw r = .ok s') :
    r = .ok s' ∧ kw.atypeOk = true := by
  cases r with
  | error e => simp [guardAtype] at h
  | ok x =>
    cases hk : kw.atypeOk <;> simp [guardAtype, hk] at h
    exact ⟨by rw [h], rfl⟩

/-- the net change in the number of atoms of each kind of insertion. -/
def Op.delta : Op K → Int
  | .vac .. => -1
  | .int .. => 1
  | .sub .. => 0
  | .db .. => 1

/-- **exactly the documented change in atom count**, for every accepted insertion. -/
theorem count_change (s s' : Sys K) (op : Op K) (h : op.apply s = .ok s') :
    (s'.atoms.length : Int) = (s.atoms.length : Int) + op.delta := by
  cases op with
  | vac pos ptd scale atol =>
    obtain ⟨i, _, _, _, hl, _⟩ := vacancy_spec s s' pos ptd scale atol h
    simp only [Op.delta]; omega
  | int pos scale atol kw =>
    obtain ⟨_, a0, _, _, hl, _⟩ := interstitial_spec s s' pos scale atol kw h
    simp only [Op.delta]; omega
  | sub pos ptd scale atol kw =>
    obtain ⟨i, a, _, _, _, _, hl, _⟩ := substitutional_spec s s' pos ptd scale atol kw h
    simp only [Op.delta]; omega
  | db pos ptd dbv scale atol kw =>
    obtain ⟨i, a, _, _, _, hl, _⟩ := dumbbell_spec s s' pos ptd dbv scale atol kw h
    simp only [Op.delta]; omega

/-- the accepted insertions of a history (a refused one leaves the system as it was). -/
def accepted (s : Sys K) : List (Op K) → List (Op K)
  | [] => []
  | op :: rest =>
    match op.apply s with
    | .error _ => accepted s rest
    | .ok s' => op :: accepted s' rest

/-- **atom count after ANY history**: the initial count plus the documented change of every accepted insertion. -/
theorem run_count (ops : List (Op K)) (s : Sys K) (pv : List (Option Nat)) :
    ((run s pv ops).1.atoms.length : Int) = (s.atoms.length : Int) + ((accepted s ops).map Op.delta).sum := by
  induction ops generalizing s pv with
  | nil => simp [run, accepted]
  | cons op rest ih =>
    simp only [run, accepted]
    cases h : op.apply s with
    | error e => simpa using ih s pv
    | ok s' =>
      simp only [List.map_cons, List.sum_cons]
      rw [ih s' _, count_change s s' op h]
      omega

/-- the cell and the property keys after ANY history are those of the first system. -/
theorem run_same_cell (ops : List (Op K)) (s : Sys K) (pv : List (Option Nat)) :
    (run s pv ops).1.box = s.box ∧ (run s pv ops).1.pbc = s.pbc ∧ (run s pv ops).1.keys = s.keys := by
  induction ops generalizing s pv with
  | nil => simp [run]
  | cons op rest ih =>
    simp only [run]
    cases h : op.apply s with
    | error e => simpa using ih s pv
    | ok s' =>
      obtain ⟨h1, h2, h3⟩ := same_cell s s' op h
      obtain ⟨g1, g2, g3⟩ := ih s' (composeProv pv (op.prov s))
      exact ⟨g1.trans h1, g2.trans h2, g3.trans h3⟩

/-- **the two spellings of an index give the same RESULT** (not only the same site), for every generator. -/
theorem index_forms_same_result (s : Sys K) (i : Nat) (hi : i < s.atoms.length) (scale : Bool) (atol : K)
    (db : V3 K) (kw : Kw K) :
    vacancy s none (some ((i : Int) - (s.atoms.length : Int))) scale atol = vacancy s none (some (i : Int)) scale atol ∧
    substitutional s none (some ((i : Int) - (s.atoms.length : Int))) scale atol kw
      = substitutional s none (some (i : Int)) scale atol kw ∧
    dumbbell s none (some ((i : Int) - (s.atoms.length : Int))) db scale atol kw
      = dumbbell s none (some (i : Int)) db scale atol kw := by
  have h1 := index_normalisation s i hi scale atol
  have h2 := index_negative s i hi scale atol
  simp [vacancy, substitutional, dumbbell, h1, h2]

/-! ### the defect atom(s) are last, with the requested position / type / property values -/

/-- **interstitial: the new atom is last**, at the requested position (Cartesian, or converted from box-relative),
    of the requested type (default 1); a requested property value is stored, an unrequested one is all zeros. -/
theorem interstitial_last (s s' : Sys K) (pos : V3 K) (scale : Bool) (atol : K) (kw : Kw K)
    (h : interstitial s pos scale atol kw = .ok s') :
    ∃ a, s'.atoms.getLast? = some a ∧ a.pos = toCart s scale pos ∧ a.atype = kw.atype.getD 1 ∧
      ∀ (j : Nat) k a0 v0, s.keys[j]? = some k → s.atoms[0]? = some a0 → a0.props[j]? = some v0 →
        a.props[j]? = some ((kw.extra.lookup k).getD (zerosLike v0)) := by
  obtain ⟨_, a0, ha0, hat, _, _⟩ := interstitial_spec s s' pos scale atol kw h
  refine ⟨{ atype := kw.atype.getD 1, pos := toCart s scale pos,
            props := overrideProps s.keys a0.props kw.extra zerosLike }, by rw [hat]; simp, rfl, rfl, ?_⟩
  intro j k a0' v0 hk ha0' hv
  rw [ha0] at ha0'; injection ha0' with ha0'; subst ha0'
  exact overrideProps_getElem? s.keys a0.props kw.extra zerosLike j k v0 hk hv

/-- **substitutional: the substituted atom is last**, where it was, with the requested type; a requested property
    value is stored, an unrequested one is unchanged. -/
theorem substitutional_last (s s' : Sys K) (pos : Option (V3 K)) (ptd : Option Int) (scale : Bool) (atol : K)
    (kw : Kw K) (h : substitutional s pos ptd scale atol kw = .ok s') :
    ∃ i a b, resolveSite s pos ptd scale atol = .ok i ∧ s.atoms[i]? = some a ∧ s'.atoms.getLast? = some b ∧
      b.pos = a.pos ∧ b.atype = kw.atype.getD 1 ∧
      ∀ (j : Nat) k v0, s.keys[j]? = some k → a.props[j]? = some v0 →
        b.props[j]? = some ((kw.extra.lookup k).getD v0) := by
  obtain ⟨i, a, hr, ha, _, hat, _, _⟩ := substitutional_spec s s' pos ptd scale atol kw h
  refine ⟨i, a, { a with atype := kw.atype.getD 1, props := overrideProps s.keys a.props kw.extra id }, hr, ha,
    by rw [hat]; simp, rfl, rfl, ?_⟩
  intro j k v0 hk hv
  exact overrideProps_getElem? s.keys a.props kw.extra id j k v0 hk hv

/-- **dumbbell: the two dumbbell atoms are last**: the site atom moved by `-db_vect` (otherwise unchanged) and the
    new atom at `+db_vect` with the requested type / property values (default: those of the site atom). -/
theorem dumbbell_last (s s' : Sys K) (pos : Option (V3 K)) (ptd : Option Int) (db : V3 K) (scale : Bool) (atol : K)
    (kw : Kw K) (h : dumbbell s pos ptd db scale atol kw = .ok s') :
    ∃ i a b c, resolveSite s pos ptd scale atol = .ok i ∧ s.atoms[i]? = some a ∧
      s'.atoms[s.atoms.length - 1]? = some b ∧ s'.atoms[s.atoms.length]? = some c ∧ s'.atoms.getLast? = some c ∧
      b = { a with pos := a.pos - dbCart s scale db } ∧
      c.pos = a.pos + dbCart s scale db ∧ c.atype = kw.atype.getD a.atype ∧
      ∀ (j : Nat) k v0, s.keys[j]? = some k → a.props[j]? = some v0 →
        c.props[j]? = some ((kw.extra.lookup k).getD v0) := by
  obtain ⟨i, a, hr, ha, hat, _, _⟩ := dumbbell_spec s s' pos ptd db scale atol kw h
  have hi : i < s.atoms.length := (List.getElem?_eq_some_iff.mp ha).1
  have hl : (s.atoms.eraseIdx i).length = s.atoms.length - 1 := by simp [List.length_eraseIdx, hi]
  refine ⟨i, a, { a with pos := a.pos - dbCart s scale db },
    { atype := kw.atype.getD a.atype, pos := a.pos + dbCart s scale db,
      props := overrideProps s.keys a.props kw.extra id }, hr, ha, ?_, ?_, by rw [hat]; simp, rfl, rfl, rfl, ?_⟩
  · rw [hat, List.getElem?_append_right (by omega)]; simp [hl]
  · rw [hat, List.getElem?_append_right (by omega)]
    have : s.atoms.length - (s.atoms.eraseIdx i).length = 1 := by omega
    simp [this]
  · intro j k v0 hk hv
    exact overrideProps_getElem? s.keys a.props kw.extra id j k v0 hk hv

/-- **an interstitial followed by the vacancy of the last atom gives back the atoms of the input**, in order. -/
theorem interstitial_vacancy_roundtrip (s s1 s2 : Sys K) (pos : V3 K) (scale : Bool) (atol atol' : K) (kw : Kw K)
    (h1 : interstitial s pos scale atol kw = .ok s1)
    (h2 : vacancy s1 none (some (-1)) false atol' = .ok s2) : s2.atoms = s.atoms := by
  obtain ⟨_, a0, _, hat, hl, _⟩ := interstitial_spec s s1 pos scale atol kw h1
  obtain ⟨i, hr, _, hat2, _⟩ := vacancy_spec s1 s2 none (some (-1)) false atol' h2
  have hn : s1.atoms.length = s.atoms.length + 1 := hl
  have := index_negative s1 s.atoms.length (by omega) false atol'
  have hcast : ((s.atoms.length : Int) - (s1.atoms.length : Int)) = -1 := by omega
  rw [hcast, hr] at this
  injection this with this
  subst this
  rw [hat2, hat, List.eraseIdx_append_of_length_le (le_refl _)]
  simp

end any



section any
variable {K : Type} [Add K] [Sub K] [Mul K] [Zero K] [IntCast K] [LT K] [DecidableLT K] [DecidableEq K]

/-! ### end to end: the functions AS WRITTEN in point.py (regenerated `PointSource.*`) -/

/-- an accepted call of `vacancy` as written is the model insertion `.vac` with the resolved tolerance. -/
theorem source_vacancy_is_op (d : K) (s s' : Sys K) (pos : Option (V3 K)) (ptd : Option Int) (scale : Bool)
    (atol : Option K) (h : PointSource.vacancy d s pos ptd scale atol = .ok s') :
    (Op.vac pos ptd scale (effAtol d atol)).apply s = .ok s' := by
  rw [gen_vacancy_eq_model] at h; exact h

theorem source_interstitial_is_op (d : K) (s s' : Sys K) (pos : V3 K) (scale : Bool) (atol : Option K) (kw : Kw K)
    (h : PointSource.interstitial d s pos scale atol kw = .ok s') :
    (Op.int pos scale (effAtol d atol) kw).apply s = .ok s' ∧ kw.atypeOk = true := by
  rw [gen_interstitial_eq_model] at h; exact guardAtype_ok_inv kw _ s' h

/-- `atype` is a named parameter of `substitutional` (default 1), every other keyword arrives in `**kwargs`. -/
theorem source_substitutional_is_op (d : K) (s s' : Sys K) (pos : Option (V3 K)) (ptd : Option Int) (scale : Bool)
    (atol : Option K) (kw : Kw K)
    (h : PointSource.substitutional d s pos ptd (kw.atype.getD 1) scale atol { kw with atype := none } = .ok s') :
    (Op.sub pos ptd scale (effAtol d atol) kw).apply s = .ok s' ∧ kw.atypeOk = true := by
  rw [gen_substitutional_eq_model] at h; exact guardAtype_ok_inv kw _ s' h

theorem source_dumbbell_is_op (d : K) (s s' : Sys K) (hv : ValidTypes s) (pos : Option (V3 K)) (ptd : Option Int)
    (db : V3 K) (scale : Bool) (atol : Option K) (kw : Kw K)
    (h : PointSource.dumbbell d s pos ptd db scale atol kw = .ok s') :
    (Op.db pos ptd db scale (effAtol d atol) kw).apply s = .ok s' ∧ kw.atypeOk = true := by
  rw [gen_dumbbell_eq_model d s hv] at h; exact guardAtype_ok_inv kw _ s' h

/-- **every accepted call of the dispatcher as written is one of the four model insertions**, with the tolerance
    resolved (`None` ↦ default) and every keyword handed on. -/
theorem source_point_is_op (d : K) (s s' : Sys K) (hv : ValidTypes s) (t : String) (pos : Option (V3 K))
    (ptd : Option Int) (db : Option (V3 K)) (scale : Bool) (atol : Option K) (kw : Kw K)
    (h : PointSource.point d s t pos ptd db scale atol kw = .ok s') :
    ∃ op : Op K, op.apply s = .ok s' ∧ kw.atypeOk = true ∧
      ((t = "v" ∧ op = .vac pos ptd scale (effAtol d atol) ∧ db = none ∧ kw.isEmpty = true) ∨
       (t = "i" ∧ ∃ p, pos = some p ∧ op = .int p scale (effAtol d atol) kw ∧ ptd = none ∧ db = none) ∨
       (t = "s" ∧ op = .sub pos ptd scale (effAtol d atol) kw ∧ db = none) ∨
       (t = "db" ∧ ∃ v, db = some v ∧ op = .db pos ptd v scale (effAtol d atol) kw)) := by
  rw [gen_point_eq_model d s hv] at h
  unfold pointC at h
  by_cases h1 : t = "v"
  · subst h1
    simp only [if_true] at h
    cases db with
    | some v => simp at h
    | none =>
      cases hk : kw.isEmpty with
      | false => simp [hk] at h
      | true =>
        simp [hk] at h
        have hok : kw.atypeOk = true := by
          cases kw with
          | mk a o e => cases a <;> simp_all [Kw.isEmpty, Kw.atypeOk]
        exact ⟨.vac pos ptd scale (effAtol d atol), h, hok, Or.inl ⟨rfl, rfl, rfl, rfl⟩⟩
  · by_cases h2 : t = "i"
    · subst h2
      simp only [h1, if_false, if_true] at h
      cases ptd with
      | some k => simp at h
      | none =>
        cases db with
        | some v => simp at h
        | none =>
          cases pos with
          | none => simp at h
          | some p =>
            simp at h
            obtain ⟨g1, g2⟩ := guardAtype_ok_inv kw _ s' h
            exact ⟨.int p scale (effAtol d atol) kw, g1, g2, Or.inr (Or.inl ⟨rfl, p, rfl, rfl, rfl, rfl⟩)⟩
    · by_cases h3 : t = "s"
      · subst h3
        simp only [h1, h2, if_false, if_true] at h
        cases db with
        | some v => simp at h
        | none =>
          simp at h
          obtain ⟨g1, g2⟩ := guardAtype_ok_inv kw _ s' h
          exact ⟨.sub pos ptd scale (effAtol d atol) kw, g1, g2, Or.inr (Or.inr (Or.inl ⟨rfl, rfl, rfl⟩))⟩
      · by_cases h4 : t = "db"
        · subst h4
          simp only [h1, h2, h3, if_false, if_true] at h
          cases db with
          | none => simp at h
          | some v =>
            simp at h
            obtain ⟨g1, g2⟩ := guardAtype_ok_inv kw _ s' h
            exact ⟨.db pos ptd v scale (effAtol d atol) kw, g1, g2, Or.inr (Or.inr (Or.inr ⟨rfl, v, rfl, rfl⟩))⟩
        · simp [h1, h2, h3, h4] at h

end any



section any
variable {K : Type} [Add K] [Sub K] [Mul K] [Zero K] [IntCast K] [LT K] [DecidableLT K] [DecidableEq K]

/-- refusal, end to end: `vacancy` AS WRITTEN accepts exactly when the site resolves (with `None` ↦ default
    tolerance) and the atom is not the only one. -/
theorem source_vacancy_ok_iff (d : K) (s : Sys K) (pos : Option (V3 K)) (ptd : Option Int) (scale : Bool)
    (atol : Option K) :
    (∃ s', PointSource.vacancy d s pos ptd scale atol = .ok s') ↔
      (∃ i, resolveSite s pos ptd scale (effAtol d atol) = .ok i) ∧ 2 ≤ s.atoms.length := by
  rw [gen_vacancy_eq_model]; exact vacancy_ok_iff s pos ptd scale (effAtol d atol)

/-- `interstitial` AS WRITTEN accepts exactly when no atom is within the tolerance and the requested type is ≥ 1. -/
theorem source_interstitial_ok_iff (d : K) (s : Sys K) (hne : s.atoms ≠ []) (p : V3 K) (scale : Bool)
    (atol : Option K) (kw : Kw K) :
    (∃ s', PointSource.interstitial d s p scale atol kw = .ok s') ↔
      (∀ (j : Nat) b, s.atoms[j]? = some b → within s (toCart s scale p) (effAtol d atol) b = false) ∧
      kw.atypeOk = true := by
  rw [gen_interstitial_eq_model]
  unfold interstitialC
  rw [← interstitial_ok_iff_free s p scale (effAtol d atol) kw hne]
  constructor
  · rintro ⟨s', h⟩
    obtain ⟨h1, h2⟩ := (guardAtype_ok_iff kw _ s').mp h
    exact ⟨⟨s', h1⟩, h2⟩
  · rintro ⟨⟨s', h1⟩, h2⟩
    exact ⟨s', (guardAtype_ok_iff kw _ s').mpr ⟨h1, h2⟩⟩

/-- `substitutional` AS WRITTEN accepts exactly when the site resolves, the atom has another type and the
    requested type is ≥ 1. -/
theorem source_substitutional_ok_iff (d : K) (s : Sys K) (pos : Option (V3 K)) (ptd : Option Int) (scale : Bool)
    (atol : Option K) (kw : Kw K) :
    (∃ s', PointSource.substitutional d s pos ptd (kw.atype.getD 1) scale atol { kw with atype := none } = .ok s') ↔
      (∃ i a, resolveSite s pos ptd scale (effAtol d atol) = .ok i ∧ s.atoms[i]? = some a ∧
        a.atype ≠ kw.atype.getD 1) ∧ kw.atypeOk = true := by
  rw [gen_substitutional_eq_model]
  unfold substitutionalC
  rw [← substitutional_ok_iff s pos ptd scale (effAtol d atol) kw]
  constructor
  · rintro ⟨s', h⟩
    obtain ⟨h1, h2⟩ := (guardAtype_ok_iff kw _ s').mp h
    exact ⟨⟨s', h1⟩, h2⟩
  · rintro ⟨⟨s', h1⟩, h2⟩
    exact ⟨s', (guardAtype_ok_iff kw _ s').mpr ⟨h1, h2⟩⟩

/-- `dumbbell` AS WRITTEN accepts exactly when the site resolves and the requested type is ≥ 1. -/
theorem source_dumbbell_ok_iff (d : K) (s : Sys K) (hv : ValidTypes s) (pos : Option (V3 K)) (ptd : Option Int)
    (db : V3 K) (scale : Bool) (atol : Option K) (kw : Kw K) :
    (∃ s', PointSource.dumbbell d s pos ptd db scale atol kw = .ok s') ↔
      (∃ i, resolveSite s pos ptd scale (effAtol d atol) = .ok i) ∧ kw.atypeOk = true := by
  rw [gen_dumbbell_eq_model d s hv]
  unfold dumbbellC
  rw [← dumbbell_ok_iff s pos ptd db scale (effAtol d atol) kw]
  constructor
  · rintro ⟨s', h⟩
    obtain ⟨h1, h2⟩ := (guardAtype_ok_iff kw _ s').mp h
    exact ⟨⟨s', h1⟩, h2⟩
  · rintro ⟨⟨s', h1⟩, h2⟩
    exact ⟨s', (guardAtype_ok_iff kw _ s').mpr ⟨h1, h2⟩⟩

/-- every clause of the property about ONE accepted insertion, collected. -/
theorem op_clauses (s s' : Sys K) (op : Op K) (hwf : WF s) (h : op.apply s = .ok s') :
    s'.box = s.box ∧ s'.pbc = s.pbc ∧ s'.keys = s.keys ∧
    (s'.atoms.length : Int) = (s.atoms.length : Int) + op.delta ∧
    WF s' ∧ s'.old.isSome ∧ (op.prov s).length = s'.atoms.length ∧
    (∀ j k, (op.prov s)[j]? = some (some k) → k < s.atoms.length ∧ oldAt s' j = oldAt s k) ∧
    s.nsym ≤ s'.nsym ∧ (∀ i, i < s.masses.length → s'.masses[i]? = s.masses[i]?) := by
  obtain ⟨h1, h2, h3⟩ := same_cell s s' op h
  obtain ⟨g1, g2, g3, g4⟩ := old_id_correct s s' op hwf h
  obtain ⟨m1, _, _, m4⟩ := symbols_masses_kept s s' op h
  exact ⟨h1, h2, h3, count_change s s' op h, g1, g2, g3, g4, m1, m4⟩

/-- **END TO END.**  For every call `point(system, ptd_type, pos, ptd_id, db_vect, scale, atol, **kwargs)` of the
    dispatcher AS WRITTEN in point.py that returns a system: same cell and property keys, the documented change
    in atom count, an `old_id` entry for every atom, the input's old index recorded for every surviving atom,
    symbols and masses kept. -/
theorem source_point_clauses (d : K) (s s' : Sys K) (hv : ValidTypes s) (hwf : WF s) (t : String)
    (pos : Option (V3 K)) (ptd : Option Int) (db : Option (V3 K)) (scale : Bool) (atol : Option K) (kw : Kw K)
    (h : PointSource.point d s t pos ptd db scale atol kw = .ok s') :
    ∃ op : Op K, op.apply s = .ok s' ∧
      s'.box = s.box ∧ s'.pbc = s.pbc ∧ s'.keys = s.keys ∧
      (s'.atoms.length : Int) = (s.atoms.length : Int) + op.delta ∧
      (t = "v" → op.delta = -1) ∧ (t = "i" → op.delta = 1) ∧ (t = "s" → op.delta = 0) ∧ (t = "db" → op.delta = 1) ∧
      WF s' ∧ s'.old.isSome ∧
      (∀ j k, (op.prov s)[j]? = some (some k) → k < s.atoms.length ∧ oldAt s' j = oldAt s k) ∧
      s.nsym ≤ s'.nsym ∧ (∀ i, i < s.masses.length → s'.masses[i]? = s.masses[i]?) := by
  obtain ⟨op, hop, _, hkind⟩ := source_point_is_op d s s' hv t pos ptd db scale atol kw h
  obtain ⟨c1, c2, c3, c4, c5, c6, _, c8, c9, c10⟩ := op_clauses s s' op hwf hop
  refine ⟨op, hop, c1, c2, c3, c4, ?_, ?_, ?_, ?_, c5, c6, c8, c9, c10⟩
  all_goals
    intro ht
    rcases hkind with ⟨h0, ho, _⟩ | ⟨h0, p, _, ho, _⟩ | ⟨h0, ho, _⟩ | ⟨h0, v, _, ho⟩ <;>
      first
      | (subst ho; rfl)
      | (rw [h0] at ht; exact absurd ht (by decide))

end any


/-! ### non-vacuity of the new theorems -/
example : ValidTypes exSys := by
  intro a ha
  simp [exSys] at ha
  rcases ha with rfl | rfl <;> decide
example : WF exSys := by simp [WF, exSys]
-- an accepted call of the dispatcher as written (hypothesis of `source_point_clauses` / `source_point_is_op`)
example : (PointSource.point (1/100) exSys "db" none (some 0) (some ⟨1/8, 0, 0⟩) true none {}).isOk = true := by
  decide +kernel
example : (PointSource.point (1/100) exSys "v" (some ⟨-3, 0, 0⟩) none none false none {}).isOk = true := by
  decide +kernel
example : (PointSource.point (1/100) exSys "i" (some ⟨1/4, 1/2, 1/2⟩) none none true (some 0) { atype := some 3 }).isOk = true := by
  decide +kernel
example : (PointSource.point (1/100) exSys "s" none (some (-1)) none false none { atype := some 1 }).isOk = true := by
  decide +kernel
-- the generated functions agree with the model on concrete refusals too
example : PointSource.point (1/100) exSys "v" none (some 0) (some ⟨1/8, 0, 0⟩) false none {} = .error .assert := by
  decide +kernel
example : PointSource.vacancy (1/100) exSys (some ⟨1 + 1/128, 0, 0⟩) none false (some (1/256)) = .error .value := by
  decide +kernel
-- `within_iff_isclose`: the exact distance of the position 1/128 off atom 0 is r = 1/128
example : (1/128 : Rat) * (1/128) = dist2 exSys ⟨1 + 1/128, 0, 0⟩ { atype := 1, pos := ⟨1, 0, 0⟩, props := [[1/2]] } := by
  decide +kernel
-- `interstitial_vacancy_roundtrip`: both steps are accepted on `exSys`
example : ((interstitial exSys ⟨1/4, 1/2, 1/2⟩ true (1/100) {}).toOption.bind
    fun s1 => (vacancy s1 none (some (-1)) false (1/100)).toOption).map (·.atoms) = some exSys.atoms := by decide +kernel
-- `keyword_order_irrelevant` / `unknown_keyword_ignored`
example : overrideProps ["charge", "tag"] [[(1 : Rat)], [2]] [("tag", [7]), ("charge", [9])] id
    = overrideProps ["charge", "tag"] [[(1 : Rat)], [2]] [("charge", [9]), ("tag", [7])] id := by decide +kernel
example : overrideProps ["charge"] [[(1 : Rat)]] [("nosuch", [7]), ("charge", [9])] id = [[9]] := by decide +kernel
-- `run_count`: vacancy (-1), interstitial (+1), a refused step, dumbbell (+1) on a 2-atom system: 3 atoms
example : (run exSys (idProv exSys) [.vac none (some 0) false (1/100), .int ⟨1/4, 1/4, 1/4⟩ true (1/100) {},
    .vac none (some 7) false (1/100), .db none (some 0) ⟨1/8, 0, 0⟩ false (1/100) {}]).1.atoms.length = 3 := by decide +kernel



/-! ### the per-property loop, index objects that are not integers -/

section any
variable {K : Type} [Add K] [Sub K] [Mul K] [Zero K] [IntCast K] [LT K] [DecidableLT K] [DecidableEq K]

theorem setLast_setLast {α : Type} (l : List α) (f g : α → α) :
    setLast (setLast l f) g = setLast l (fun a => g (f a)) := by
  rcases List.eq_nil_or_concat l with rfl | ⟨L, b, rfl⟩
  · simp [setLast]
  · simp [setLast_append_single]

/-- **the iterations of the per-property loop commute**: each branch reads and writes only its own property of the
    last atom (`atype`, `pos`, `old_id`, the extra properties), so the order in which `atoms_prop()` lists the
    properties does not matter — whatever the functions assigned. -/
theorem loop_branches_commute (d : Sys K) (fa : Int → Int) (fp : V3 K → V3 K) (fo : List Int → Int → Int)
    (kw : Kw K) (dflt : List K → List K) :
    setLastAtype (setLastPos d fp) fa = setLastPos (setLastAtype d fa) fp ∧
    setLastAtype (setLastOld d fo) fa = setLastOld (setLastAtype d fa) fo ∧
    setLastAtype (setLastExtras d kw dflt) fa = setLastExtras (setLastAtype d fa) kw dflt ∧
    setLastPos (setLastOld d fo) fp = setLastOld (setLastPos d fp) fo ∧
    setLastPos (setLastExtras d kw dflt) fp = setLastExtras (setLastPos d fp) kw dflt ∧
    setLastOld (setLastExtras d kw dflt) fo = setLastExtras (setLastOld d fo) kw dflt := by
  refine ⟨?_, ?_, ?_, ?_, ?_, ?_⟩ <;>
    simp [setLastAtype, setLastPos, setLastOld, setLastExtras, setLast_setLast]

end any

section field
variable {K : Type} [Field K] [LinearOrder K] [IsStrictOrderedRing K]

/-- in range (`-natoms ≤ q < natoms`) the object reaches its first use as an index and fails there;
    out of range it is the ordinary 'invalid ptd_id'. -/
theorem float_index_class (n : Nat) (q : K) (after : Refusal) :
    floatIndex n q after = if -((n : Int) : K) ≤ q ∧ q < ((n : Int) : K) then after else .value := by
  unfold floatIndex
  have hn : (0 : K) ≤ ((n : Int) : K) := by exact_mod_cast Int.natCast_nonneg n
  generalize ((n : Int) : K) = N at hn ⊢
  by_cases hq : q < 0
  · simp only [hq, if_true]
    by_cases h1 : q + N < 0
    · have : ¬ (-N ≤ q) := by intro h; linarith
      simp [h1, this]
    · have h2 : q + N < N := by linarith
      have : -N ≤ q := by linarith
      have h3 : q < N := by linarith
      simp [h1, h2, this, h3]
  · simp only [hq, if_false]
    have : -N ≤ q := by linarith [not_lt.mp hq]
    by_cases h2 : q < N
    · simp [hq, h2, this]
    · simp [hq, h2]

/-- a whole-number float is refused with 'invalid ptd_id' exactly when the integer of the same value is. -/
theorem float_index_range_agrees (s : Sys K) (k : Int) (scale : Bool) (atol : K) (after : Refusal)
    (ha : after ≠ .value) :
    floatIndex s.atoms.length ((k : Int) : K) after = .value ↔
      resolveSite s none (some k) scale atol = .error .value := by
  rw [float_index_class]
  have hr : resolveSite s none (some k) scale atol = .error .value ↔
      (k ≥ (s.atoms.length : Int) ∨ k < -(s.atoms.length : Int)) := by
    constructor
    · intro h
      by_contra hc
      have h1 : ¬ (k ≥ (s.atoms.length : Int)) := fun h' => hc (Or.inl h')
      have h2 : ¬ (k < -(s.atoms.length : Int)) := fun h' => hc (Or.inr h')
      have : normIdx s.atoms.length k ≠ none := by
        unfold normIdx; simp only []; split <;> (split <;> first | omega | simp)
      simp only [resolveSite] at h
      cases hn : normIdx s.atoms.length k with
      | none => exact this hn
      | some j => rw [hn] at h; cases h
    · intro h; simp [resolveSite, normIdx_out _ _ h]
  rw [hr]
  have c1 : (-(((s.atoms.length : Nat) : Int) : K) ≤ ((k : Int) : K)) ↔ -((s.atoms.length : Nat) : Int) ≤ k := by
    rw [← Int.cast_neg]; exact Int.cast_le
  have c2 : (((k : Int) : K) < (((s.atoms.length : Nat) : Int) : K)) ↔ k < ((s.atoms.length : Nat) : Int) := Int.cast_lt
  by_cases hin : -((s.atoms.length : Nat) : Int) ≤ k ∧ k < ((s.atoms.length : Nat) : Int)
  · have : (-(((s.atoms.length : Nat) : Int) : K) ≤ ((k : Int) : K)) ∧ (((k : Int) : K) < (((s.atoms.length : Nat) : Int) : K)) :=
      ⟨c1.mpr hin.1, c2.mpr hin.2⟩
    simp only [this, and_self, if_true]
    constructor
    · intro h; exact absurd h ha
    · intro h; omega
  · have : ¬ ((-(((s.atoms.length : Nat) : Int) : K) ≤ ((k : Int) : K)) ∧ (((k : Int) : K) < (((s.atoms.length : Nat) : Int) : K))) := by
      intro h; exact hin ⟨c1.mp h.1, c2.mp h.2⟩
    simp only [this, if_false, true_iff]
    omega

/-- **an index that is not of integer type is never accepted and never truncated**: the three generators
    answer with a refusal class that depends only on the range of its value. -/
theorem float_index_refused (s : Sys K) (q : K) (hq : -((s.atoms.length : Int) : K) ≤ q ∧ q < ((s.atoms.length : Int) : K)) :
    vacancyF s none q = .type ∧ substitutionalF s none q = .index ∧ dumbbellF s none q = .type ∧
    (∀ p, vacancyF s (some p) q = .value ∧ substitutionalF s (some p) q = .value ∧ dumbbellF s (some p) q = .value) := by
  have h := fun a => float_index_class (K := K) s.atoms.length q a
  simp only [hq, and_self, if_true] at h
  refine ⟨?_, ?_, ?_, ?_⟩
  · simp only [vacancyF]; exact h _
  · simp only [substitutionalF]; exact h _
  · simp only [dumbbellF]; exact h _
  · intro p; simp [vacancyF, substitutionalF, dumbbellF]

end field

-- float index objects on `exSys` (2 atoms): whole numbers and fractions in range fail at their first use,
-- out of range is 'invalid ptd_id', with `pos` too it is the both-given refusal
example : vacancyF exSys none (1 : Rat) = .type ∧ substitutionalF exSys none (-1/2 : Rat) = .index ∧
    dumbbellF exSys none (-2 : Rat) = .type ∧ vacancyF exSys none (2 : Rat) = .value ∧
    dumbbellF exSys none (-9/4 : Rat) = .value ∧ substitutionalF exSys (some ⟨1, 0, 0⟩) (0 : Rat) = .value ∧
    pointF exSys "v" none (3/2 : Rat) false true = .type ∧ pointF exSys "i" none (0 : Rat) false true = .assert := by
  decide +kernel

/-! ### statement audit: non-vacuity, every hypothesis of the theorem instantiated on `exSys` -/

private def audA0 : Atom Rat := { atype := 1, pos := ⟨1, 0, 0⟩, props := [[1/2]] }
private def audA1 : Atom Rat := { atype := 2, pos := ⟨3, 2, 2⟩, props := [[3/2]] }

/-- a statement about every atom of `exSys` follows from its two instances. -/
private theorem exSys_all (P : Nat → Atom Rat → Prop) (h0 : P 0 audA0) (h1 : P 1 audA1) :
    ∀ (j : Nat) b, exSys.atoms[j]? = some b → P j b := by
  intro j b hb
  rcases j with _ | _ | j
  · have : b = audA0 := by simp [exSys] at hb; simpa [audA0, audA1] using hb.symm
    subst this; exact h0
  · have : b = audA1 := by simp [exSys] at hb; simpa [audA0, audA1] using hb.symm
    subst this; exact h1
  · simp [exSys] at hb

-- `old_id_composes` (WF, a provenance entry `some (some k)` after two accepted insertions)
example : oldAt (run exSys (idProv exSys) [.vac none (some 0) false (1/100), .int ⟨1/4, 1/4, 1/4⟩ true (1/100) {}]).1 0
    = oldAt exSys 1 :=
  (old_id_composes exSys (by simp [WF, exSys])
    [.vac none (some 0) false (1/100), .int ⟨1/4, 1/4, 1/4⟩ true (1/100) {}] 0 1 (by decide +kernel)).2
-- `old_id_composes_fresh`: its hypothesis
example : exSys.old = none := rfl
-- `site_of_image`: atom 0 seen one cell along -x and +y (both periodic), negative tolerance
example : within exSys ⟨-3, 4, 0⟩ (-1) audA0 = true :=
  site_of_image exSys audA0 ⟨-3, 4, 0⟩ (-1) (-1) 1 0 (by decide +kernel) (by decide +kernel) (by decide +kernel) (by decide +kernel)
-- `pos_eq_index_cartesian`
example : resolveSite exSys (some audA0.pos) none false (1/100) = resolveSite exSys none (some 0) false (1/100) :=
  pos_eq_index_cartesian exSys 0 audA0 (1/100) (by decide +kernel)
    (fun j b hne hb => exSys_all (fun j b => j ≠ 0 → within exSys audA0.pos (1/100) b = false)
      (fun h => absurd rfl h) (fun _ => by decide +kernel) j b hb hne)
-- `pos_eq_index_relative`: atom 1 (box-relative (1/2,1/2,1/2)) through the image one cell along +y
example : resolveSite exSys (some ⟨1/2 + (0 : Int), 1/2 + (1 : Int), 1/2 + (0 : Int)⟩) none true (1/100) =
    resolveSite exSys none (some ((1 : Nat) : Int)) true (1/100) :=
  pos_eq_index_relative exSys 1 audA1 ⟨1/2, 1/2, 1/2⟩ (1/100) 0 1 0 (by decide +kernel) (by decide +kernel)
    (by decide +kernel) (by decide +kernel) (by decide +kernel)
    (fun j b hne hb => exSys_all (fun j b => j ≠ 1 →
        within exSys (exSys.box.relToCart ⟨1/2 + (0 : Int), 1/2 + (1 : Int), 1/2 + (0 : Int)⟩) (1/100) b = false)
      (fun _ => by decide +kernel) (fun h => absurd rfl h) j b hb hne)
-- `refuse_absent_site`: a position 1/8 from atom 0, tolerance 1/100
example : resolveSite exSys (some ⟨1 + 1/8, 0, 0⟩) none false (1/100) = .error .value :=
  refuse_absent_site exSys ⟨1 + 1/8, 0, 0⟩ false (1/100)
    (exSys_all (fun _ b => within exSys (toCart exSys false ⟨1 + 1/8, 0, 0⟩) (1/100) b = false)
      (by decide +kernel) (by decide +kernel))
-- `refuse_ambiguous_site`: the midpoint of the two atoms with a tolerance reaching both
example : resolveSite exSys (some ⟨2, 1, 1⟩) none false 3 = .error .value :=
  refuse_ambiguous_site exSys ⟨2, 1, 1⟩ false 3 0 1 audA0 audA1 (by decide +kernel) (by decide +kernel) (by decide +kernel)
    (by decide +kernel) (by decide +kernel)
-- `refuse_occupied_interstitial`: 1/200 from atom 0
example : interstitial exSys ⟨1, 0, 1/200⟩ false (1/100) { atype := some 2 } = .error .value :=
  refuse_occupied_interstitial exSys ⟨1, 0, 1/200⟩ false (1/100) { atype := some 2 } 0 audA0 (by decide +kernel)
    (by decide +kernel)
-- `refuse_same_type`: atom 1 has type 2
example : substitutional exSys none (some (-1)) false (1/100) { atype := some 2 } = .error .value :=
  refuse_same_type exSys none (some (-1)) false (1/100) { atype := some 2 } 1 audA1 (by decide +kernel)
    (by decide +kernel) (by decide +kernel)
-- `refusals_propagate`
example : dumbbell exSys none (some 2) ⟨1/8, 0, 0⟩ false (1/100) {} = .error .value :=
  (refusals_propagate exSys none (some 2) false (1/100) .value (by decide +kernel) {} ⟨1/8, 0, 0⟩).2.2
-- `within_tie` / `within_mono` / `within_iff_isclose`: 1/128 off atom 0
example : within exSys ⟨1 + 1/128, 0, 0⟩ (1/128) audA0 = true :=
  within_tie exSys ⟨1 + 1/128, 0, 0⟩ (1/128) audA0 (by decide +kernel) (by decide +kernel)
example : within exSys ⟨1 + 1/128, 0, 0⟩ (1/64) audA0 = true :=
  within_mono exSys ⟨1 + 1/128, 0, 0⟩ (1/128) (1/64) audA0 (by decide +kernel) (by decide +kernel) (by decide +kernel)
example : within exSys ⟨1 + 1/128, 0, 0⟩ (1/256) audA0 = false := by
  have h := within_iff_isclose exSys ⟨1 + 1/128, 0, 0⟩ (1/256) audA0 (1/128) 7 (by decide +kernel) (by decide +kernel)
  cases hw : within exSys ⟨1 + 1/128, 0, 0⟩ (1/256) audA0
  · rfl
  · exact absurd (h.mp hw) (by decide +kernel)
-- `zero_tol_offsite`: no atom of `exSys` is exactly at (1 + 1/128, 0, 0)
example : vacancyC (1/100) exSys (some ⟨1 + 1/128, 0, 0⟩) none false (some 0) = .error .value :=
  (zero_tol_offsite (1/100) exSys ⟨1 + 1/128, 0, 0⟩ false {} ⟨0, 0, 0⟩
    (exSys_all (fun _ b => dist2 exSys (toCart exSys false ⟨1 + 1/128, 0, 0⟩) b ≠ 0)
      (by decide +kernel) (by decide +kernel))).1
-- `interstitial_ok_iff_free`, `source_interstitial_ok_iff`: `exSys` is not empty
example : exSys.atoms ≠ [] := by decide
-- `refuse_bad_atype`
example : (dumbbellC (1/100) exSys none (some 0) ⟨1/8, 0, 0⟩ false none { atype := some 0 }).isOk = false :=
  (refuse_bad_atype (1/100) exSys none (some 0) ⟨0, 0, 0⟩ ⟨1/8, 0, 0⟩ false none { atype := some 0 } 0 rfl
    (by decide +kernel)).2.2.1
-- `atol_resolution`, `point_atol_passthrough`, `guardAtype_ok`: a keyword set with an admissible type
example : ({ atype := some 3, extra := [("charge", [7])] } : Kw Rat).atypeOk = true := by decide
-- `unknown_keyword_ignored` / `keyword_order_irrelevant`: their side conditions
example : "nosuch" ∉ ["charge", "tag"] := by decide
example : overrideProps ["charge", "tag"] [[(1 : Rat)], [2]] [("tag", [7]), ("charge", [9])] id
    = overrideProps ["charge", "tag"] [[(1 : Rat)], [2]] [("charge", [9]), ("tag", [7])] id :=
  keyword_order_irrelevant _ _ _ _ id (List.Perm.swap _ _ _) (by decide +kernel)
-- `float_index_range_agrees` (after ≠ .value), `float_index_refused` (in range)
example : floatIndex exSys.atoms.length (((2 : Int) : Int) : Rat) .type = .value :=
  (float_index_range_agrees exSys 2 false (1/100) .type (by decide +kernel)).mpr (by decide +kernel)
example : substitutionalF exSys none (-1/2 : Rat) = .index :=
  (float_index_refused exSys (-1/2) (by decide +kernel)).2.1
-- `dvect_scale` / `within_scale` / `search_scale_invariant`: a scale that is not a power of two
example : resolveSite (exSys.scaled (3/7)) (some (V3.smul (3/7) ⟨1 + 1/128, 0, 0⟩)) none false ((3/7) * (1/128))
    = resolveSite exSys (some ⟨1 + 1/128, 0, 0⟩) none false (1/128) :=
  (search_scale_invariant (3/7) (by decide +kernel) exSys ⟨1 + 1/128, 0, 0⟩ none (1/128)).1

end Atomman.C15
