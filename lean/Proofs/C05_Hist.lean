/-
  C05 — the cached reciprocal vectors never show: the object-level model `CSys` (lean/Atomman/C05_Hist.lean)
  and the functional model `Sys` agree on every history, provided every write of the cell vectors goes
  through `CSys.setVects` (which drops the cache).  A stale cache, in contrast, breaks the
  reconstruction clause (last section).
-/
import Atomman.C05_Hist
import Proofs.C05_Lemmas

namespace Atomman.C05
open Atomman
set_option linter.unusedSimpArgs false
set_option linter.unusedSectionVars false
set_option linter.unusedVariables false

section core
variable {K : Type} [Add K] [Sub K] [Mul K] [Div K] [Neg K] [Zero K] [One K] [IntCast K]
  [LT K] [LE K] [DecidableLT K] [DecidableLE K]

/-- `wrap` is `wrapWith` fed with the true reciprocal vectors. -/
theorem wrapWith_recip (fl : K → Int) (pad : K) (b : Box K) (pbc : V3 Bool) (pos : List (V3 K)) :
    wrapWith fl pad b.recip b pbc pos = wrap fl pad b pbc pos := by
  simp only [wrapWith, wrap, List.map_map]
  rfl

/-- a freshly written box has no cache: coherent. -/
theorem coherent_setVects (tiny : K) (c : CSys K) (v : M3 K) : Coherent (c.setVects tiny v) := by
  intro r h
  simp [CSys.setVects] at h

/-- the origin setter keeps the cache, and the cache does not depend on the origin. -/
theorem coherent_setOrigin (c : CSys K) (o : V3 K) (h : Coherent c) : Coherent (c.setOrigin o) := by
  intro r hr
  exact h r hr

theorem coherent_setBox (tiny : K) (c : CSys K) (v : M3 K) (o : V3 K) : Coherent (c.setBox tiny v o) :=
  coherent_setOrigin _ o (coherent_setVects tiny c v)

theorem coherent_putSpos (c : CSys K) (sp : List (V3 K)) (h : Coherent c) : Coherent (c.putSpos sp) := by
  intro r hr
  exact h r hr

/-- reading the reciprocal vectors of a coherent object returns the true ones, changes nothing visible and
    leaves the object coherent. -/
theorem recip_spec (c : CSys K) (h : Coherent c) :
    c.recip.1 = c.box.recip ∧ c.recip.2.erase = c.erase ∧ c.recip.2.box = c.box ∧ c.recip.2.pbc = c.pbc ∧
    c.recip.2.pos = c.pos ∧ Coherent c.recip.2 := by
  unfold CSys.recip
  cases hc : c.cache with
  | none =>
    refine ⟨rfl, rfl, rfl, rfl, rfl, ?_⟩
    intro r hr
    simp at hr
    exact hr.symm
  | some r0 =>
    refine ⟨h r0 hc, rfl, rfl, rfl, rfl, h⟩

/-- reading scaled positions of a coherent object: the functional value, nothing visible changes. -/
theorem getSpos_spec (c : CSys K) (h : Coherent c) :
    c.getSpos.1 = c.erase.spos ∧ c.getSpos.2.box = c.box ∧ c.getSpos.2.pbc = c.pbc ∧
    c.getSpos.2.pos = c.pos ∧ Coherent c.getSpos.2 := by
  obtain ⟨h1, _, h3, h4, h5, h6⟩ := recip_spec c h
  refine ⟨?_, h3, h4, h5, h6⟩
  simp only [CSys.getSpos, Sys.spos, CSys.erase, h1, h3, h5]
  rfl

theorem boxSet_spec (tiny : K) (c : CSys K) (h : Coherent c) (scale : Bool) (v : M3 K) (o : V3 K) :
    (c.boxSet tiny scale v o).erase = c.erase.boxSet tiny scale v o ∧ Coherent (c.boxSet tiny scale v o) := by
  obtain ⟨g1, g2, g3, g4, g5⟩ := getSpos_spec c h
  cases scale with
  | false =>
    refine ⟨?_, ?_⟩
    · simp [CSys.boxSet, Sys.boxSet, CSys.erase, CSys.setBox, CSys.setVects, CSys.setOrigin, Sys.setBox]
    · simpa [CSys.boxSet] using coherent_setBox tiny c v o
  | true =>
    refine ⟨?_, ?_⟩
    · simp only [CSys.boxSet, Sys.boxSet, if_true, g1]
      simp [CSys.erase, CSys.putSpos, CSys.setBox, CSys.setVects, CSys.setOrigin, g3]
    · simp only [CSys.boxSet, if_true]
      exact coherent_putSpos _ _ (coherent_setBox tiny _ v o)

theorem wrapC_spec (P : Params K) (c : CSys K) (h : Coherent c) :
    (c.wrapC P).1 = (c.erase.wrapS P).1 ∧ (c.wrapC P).2.erase = (c.erase.wrapS P).2 ∧ Coherent (c.wrapC P).2 := by
  obtain ⟨g1, g2, g3, g4, g5⟩ := getSpos_spec c h
  refine ⟨?_, ?_, ?_⟩
  · simp only [CSys.wrapC, Sys.wrapS, g1, g3]
    simp [Sys.spos, CSys.erase, wrap, List.map_map]
    intro p _
    rfl
  · simp only [CSys.wrapC, Sys.wrapS, g1, g3]
    simp [Sys.spos, CSys.erase, wrap, List.map_map, CSys.putSpos, CSys.setBox, CSys.setVects, CSys.setOrigin, g2]
    exact ⟨g3, fun p _ => rfl⟩
  · simp only [CSys.wrapC]
    exact coherent_setBox _ _ _ _

theorem rebuild_spec (P : Params K) (c : CSys K) (h : Coherent c) :
    (c.rebuild P).map CSys.erase = c.erase.rebuild P ∧ ∀ c', c.rebuild P = some c' → Coherent c' := by
  obtain ⟨g1, g2, g3, g4, g5⟩ := getSpos_spec c h
  refine ⟨?_, ?_⟩
  · simp only [CSys.rebuild, Sys.rebuild, g2]
    have : c.erase.box = c.box := rfl
    rw [this]
    cases abcBox? P.sqrt c.box.vects with
    | none => rfl
    | some b2 =>
      simp [CSys.erase, CSys.putSpos, CSys.setBox, CSys.setVects, CSys.setOrigin, g1, g3, Sys.spos]
  · intro c' hc'
    simp only [CSys.rebuild] at hc'
    cases hb : abcBox? P.sqrt c.getSpos.2.box.vects with
    | none => simp [hb] at hc'
    | some b2 =>
      simp only [hb, Option.some.injEq] at hc'
      rw [← hc']
      exact coherent_putSpos _ _ (coherent_setBox _ _ _ _)

theorem normalizeC_spec (P : Params K) (c : CSys K) (h : Coherent c) :
    c.normalizeC P = c.erase.normalizeS P := by
  -- the copy after the (optional) flip
  have key : ∀ c1 : CSys K, Coherent c1 →
      (match c1.rebuild P with
        | none => none
        | some c2 =>
          let w := c2.wrapC P
          some (⟨w.2.box, w.2.pos, w.1, (M3.mul (M3.inv c1.box.vects) w.2.box.vects).transpose⟩ : Normalized K)) =
      (match c1.erase.rebuild P with
        | none => none
        | some s2 =>
          let w := s2.wrapS P
          some ⟨w.2.box, w.2.pos, w.1, (M3.mul (M3.inv c1.erase.box.vects) w.2.box.vects).transpose⟩) := by
    intro c1 h1
    obtain ⟨r1, r2⟩ := rebuild_spec P c1 h1
    cases hr : c1.rebuild P with
    | none =>
      rw [hr] at r1
      simp only [Option.map_none] at r1
      rw [← r1]
    | some c2 =>
      rw [hr] at r1
      simp only [Option.map_some] at r1
      rw [← r1]
      obtain ⟨w1, w2, _⟩ := wrapC_spec P c2 (r2 c2 hr)
      simp only [w1]
      have e1 : (c2.wrapC P).2.box = (c2.erase.wrapS P).2.box := by rw [← w2]; rfl
      have e2 : (c2.wrapC P).2.pos = (c2.erase.wrapS P).2.pos := by rw [← w2]; rfl
      rw [e1, e2]
      rfl
  unfold CSys.normalizeC Sys.normalizeS
  have hb : c.erase.box = c.box := rfl
  by_cases ht : triple c.box.vects < 0
  · simp only [hb, ht, if_true]
    exact key (c.setBox P.tiny (flipC c.box).vects (flipC c.box).origin) (coherent_setBox _ _ _ _)
  · simp only [hb, ht, if_false]
    exact key c h

/-- **stepC_erase**: one operation on a coherent object does what the functional model says (visible state
    and observation), and leaves the object coherent. -/
theorem stepC_erase (P : Params K) (c : CSys K) (h : Coherent c) (op : Op K) :
    (stepC P c op).1.erase = (step P c.erase op).1 ∧ (stepC P c op).2 = (step P c.erase op).2 ∧
    Coherent (stepC P c op).1 := by
  cases op with
  | spos =>
    obtain ⟨g1, g2, g3, g4, g5⟩ := getSpos_spec c h
    refine ⟨?_, ?_, g5⟩
    · simp [stepC, step, CSys.erase, g2, g3, g4]
    · simp [stepC, step, g1]
  | wrap =>
    obtain ⟨w1, w2, w3⟩ := wrapC_spec P c h
    exact ⟨by simpa [stepC, step] using w2, by simp [stepC, step, w1], by simpa [stepC] using w3⟩
  | rebuild =>
    obtain ⟨r1, r2⟩ := rebuild_spec P c h
    obtain ⟨g1, g2, g3, g4, g5⟩ := getSpos_spec c h
    cases hr : c.rebuild P with
    | none =>
      rw [hr] at r1
      simp only [Option.map_none] at r1
      simp only [stepC, step, hr, ← r1]
      exact ⟨by simp [CSys.erase, g2, g3, g4], by trivial, g5⟩
    | some c' =>
      rw [hr] at r1
      simp only [Option.map_some] at r1
      simp only [stepC, step, hr, ← r1]
      exact ⟨by trivial, by trivial, r2 c' hr⟩
  | normalize =>
    have hn := normalizeC_spec P c h
    cases hz : c.normalizeC P with
    | none =>
      rw [hz] at hn
      simp only [stepC, step, hz, ← hn]
      exact ⟨by trivial, by trivial, h⟩
    | some z =>
      rw [hz] at hn
      simp only [stepC, step, hz, ← hn]
      exact ⟨by trivial, by trivial, h⟩
  | boxSet scale v o =>
    obtain ⟨b1, b2⟩ := boxSet_spec P.tiny c h scale v o
    exact ⟨by simpa [stepC, step] using b1, rfl, by simpa [stepC] using b2⟩
  | setVects v =>
    refine ⟨?_, rfl, by simpa [stepC] using coherent_setVects P.tiny c v⟩
    simp [stepC, step, CSys.erase, CSys.setVects, Sys.setBox]
  | setOrigin o =>
    refine ⟨?_, rfl, by simpa [stepC] using coherent_setOrigin c o h⟩
    simp [stepC, step, CSys.erase, CSys.setOrigin]
  | setPbc p =>
    refine ⟨?_, rfl, ?_⟩
    · simp [stepC, step, CSys.erase]
    · intro r hr
      exact h r hr
  | editPbc k v =>
    refine ⟨?_, rfl, ?_⟩
    · simp [stepC, step, CSys.erase]
    · intro r hr
      exact h r hr
  | setPos p =>
    refine ⟨?_, rfl, ?_⟩
    · simp [stepC, step, CSys.erase]
    · intro r hr
      exact h r hr

/-- **runC_erase** (history independence): on a coherent object every history of operations yields the
    visible state and the observations of the functional model; whether and when scaled positions were
    looked at before (i.e. what the cache holds) cannot be seen. -/
theorem runC_erase (P : Params K) (ops : List (Op K)) (c : CSys K) (h : Coherent c) :
    (runC P c ops).1.erase = (run P c.erase ops).1 ∧ (runC P c ops).2 = (run P c.erase ops).2 ∧
    Coherent (runC P c ops).1 := by
  induction ops generalizing c with
  | nil => exact ⟨rfl, rfl, h⟩
  | cons op ops ih =>
    obtain ⟨s1, s2, s3⟩ := stepC_erase P c h op
    obtain ⟨i1, i2, i3⟩ := ih (stepC P c op).1 s3
    simp only [runC, run]
    rw [← s1, ← s2]
    exact ⟨i1, by rw [i2], i3⟩

/-- two coherent objects with the same visible state are indistinguishable by any history. -/
theorem runC_cache_irrelevant (P : Params K) (ops : List (Op K)) (c c' : CSys K) (h : Coherent c)
    (h' : Coherent c') (e : c.erase = c'.erase) :
    (runC P c ops).1.erase = (runC P c' ops).1.erase ∧ (runC P c ops).2 = (runC P c' ops).2 := by
  obtain ⟨a1, a2, _⟩ := runC_erase P ops c h
  obtain ⟨b1, b2, _⟩ := runC_erase P ops c' h'
  rw [a1, a2, b1, b2, e]
  exact ⟨rfl, rfl⟩

/-- a new object (cache empty) is coherent. -/
theorem coherent_fresh (b : Box K) (pbc : V3 Bool) (pos : List (V3 K)) : Coherent (⟨b, none, pbc, pos⟩ : CSys K) := by
  intro r hr
  simp at hr

end core

/-! ## the property clauses at any point of any history -/

section field
variable {K : Type} [Field K] [LinearOrder K] [IsStrictOrderedRing K]

theorem absK_eq_abs (x : K) : absK x = |x| := by
  unfold absK
  split_ifs with h
  · exact (abs_of_neg h).symm
  · exact (abs_of_nonneg (not_lt.mp h)).symm

theorem maxOf_mem (init : K) (l : List K) : maxOf init l = init ∨ maxOf init l ∈ l := by
  induction l generalizing init with
  | nil => exact Or.inl rfl
  | cons a t ih =>
    simp only [maxOf, List.foldl_cons] at ih ⊢
    split
    · rcases ih a with h | h
      · exact Or.inr (by rw [h]; exact List.mem_cons_self)
      · exact Or.inr (List.mem_cons_of_mem _ h)
    · rcases ih init with h | h
      · exact Or.inl h
      · exact Or.inr (List.mem_cons_of_mem _ h)

theorem maxOf_le (init b : K) (l : List K) (h0 : init ≤ b) (h : ∀ x ∈ l, x ≤ b) : maxOf init l ≤ b := by
  induction l generalizing init with
  | nil => exact h0
  | cons a t ih =>
    simp only [maxOf, List.foldl_cons] at ih ⊢
    split
    · exact ih a (h a List.mem_cons_self) (fun x hx => h x (List.mem_cons_of_mem _ hx))
    · exact ih init h0 (fun x hx => h x (List.mem_cons_of_mem _ hx))

theorem maxAbs_nonneg (v : M3 K) : 0 ≤ maxAbs v := maxOf_ge_init 0 _

theorem abs_le_maxAbs (v : M3 K) (x : K) (hx : x ∈ v.toList) : |x| ≤ maxAbs v := by
  rw [← absK_eq_abs]
  exact maxOf_ge_mem 0 _ _ (List.mem_map_of_mem hx)

theorem zeroSmall_toList (tiny : K) (v : M3 K) :
    (zeroSmall tiny v).toList = v.toList.map (zeroIfSmall tiny (maxAbs v)) := rfl

theorem zeroIfSmall_cases (tiny m x : K) :
    (zeroIfSmall tiny m x = 0 ∧ absK (x / m) ≤ tiny) ∨ (zeroIfSmall tiny m x = x ∧ tiny < absK (x / m)) := by
  unfold zeroIfSmall
  split_ifs with h
  · exact Or.inl ⟨rfl, h⟩
  · exact Or.inr ⟨rfl, not_le.mp h⟩

/-- the clean-up never changes the largest component. -/
theorem maxAbs_zeroSmall (tiny : K) (h1 : tiny < 1) (v : M3 K) : maxAbs (zeroSmall tiny v) = maxAbs v := by
  apply le_antisymm
  · -- entries only shrink
    unfold maxAbs
    rw [zeroSmall_toList]
    apply maxOf_le _ _ _ (maxAbs_nonneg v)
    intro y hy
    simp only [List.mem_map] at hy
    obtain ⟨z, ⟨x, hx, rfl⟩, rfl⟩ := hy
    rcases zeroIfSmall_cases tiny (maxAbs v) x with ⟨h, _⟩ | ⟨h, _⟩
    · rw [h, absK_eq_abs, abs_zero]; exact maxAbs_nonneg v
    · rw [h, absK_eq_abs]; exact abs_le_maxAbs v x hx
  · -- the largest component itself survives
    rcases maxOf_mem 0 (v.toList.map absK) with h | h
    · have : maxAbs v = 0 := h
      rw [this]; exact maxAbs_nonneg _
    · simp only [List.mem_map] at h
      obtain ⟨x, hx, hxm⟩ := h
      have hm : absK x = maxAbs v := hxm
      by_cases h0 : maxAbs v = 0
      · rw [h0]; exact maxAbs_nonneg _
      · have hpos : 0 < maxAbs v := lt_of_le_of_ne (maxAbs_nonneg v) (Ne.symm h0)
        have hone : absK (x / maxAbs v) = 1 := by
          rw [absK_eq_abs, abs_div, ← absK_eq_abs x, hm, abs_of_pos hpos, div_self h0]
        have hz : zeroIfSmall tiny (maxAbs v) x = x := by
          rcases zeroIfSmall_cases tiny (maxAbs v) x with ⟨_, h⟩ | ⟨h, _⟩
          · rw [hone] at h; exact absurd h (not_le.mpr h1)
          · exact h
        have hmem : x ∈ (zeroSmall tiny v).toList := by
          rw [zeroSmall_toList]
          exact List.mem_map.mpr ⟨x, hx, hz⟩
        calc maxAbs v = |x| := by rw [← hm, absK_eq_abs]
          _ ≤ maxAbs (zeroSmall tiny v) := abs_le_maxAbs _ x hmem

/-- **zeroSmall_idem**: the clean-up of the setter is idempotent (`0 ≤ tiny < 1`): a cell that went through the
    setter once is not changed by going through it again. -/
theorem zeroSmall_idem (tiny : K) (h0 : 0 ≤ tiny) (h1 : tiny < 1) (v : M3 K) :
    zeroSmall tiny (zeroSmall tiny v) = zeroSmall tiny v := by
  have key : ∀ x : K, zeroIfSmall tiny (maxAbs v) (zeroIfSmall tiny (maxAbs v) x) = zeroIfSmall tiny (maxAbs v) x := by
    intro x
    rcases zeroIfSmall_cases tiny (maxAbs v) x with ⟨h, _⟩ | ⟨h, hx⟩
    · rw [h]
      unfold zeroIfSmall
      rw [if_pos]
      rw [zero_div, absK_eq_abs, abs_zero]; exact h0
    · rw [h]
      unfold zeroIfSmall
      rw [if_neg (not_le.mpr hx)]
  show (⟨⟨_, _, _⟩, ⟨_, _, _⟩, ⟨_, _, _⟩⟩ : M3 K) = _
  simp only [maxAbs_zeroSmall tiny h1 v]
  unfold zeroSmall
  simp only [key]

/-- the clean-up of the setter leaves a matrix alone when no entry is small relative to the largest one. -/
theorem zeroSmall_eq_self (tiny : K) (v : M3 K)
    (h : ∀ x ∈ v.toList, x = 0 ∨ tiny < absK (x / maxAbs v)) : zeroSmall tiny v = v := by
  have z : ∀ x ∈ v.toList, zeroIfSmall tiny (maxAbs v) x = x := by
    intro x hx
    unfold zeroIfSmall
    rcases h x hx with h0 | h1
    · subst h0; simp
    · rw [if_neg (not_le.mpr h1)]
  simp only [M3.toList, V3.toList, List.cons_append, List.nil_append, List.mem_cons, List.mem_nil_iff, or_false] at z
  unfold zeroSmall
  ext <;> simp only [] <;> apply z <;> simp

/-- a cell is *clean* when the setter would not change it (every cell held by a `Box` is: it went through the setter). -/
def Clean (tiny : K) (c : CSys K) : Prop := zeroSmall tiny c.box.vects = c.box.vects

/-- **clean_stepC**: every operation keeps the cell of the object clean. -/
theorem clean_stepC (P : Params K) (h0 : 0 ≤ P.tiny) (h1 : P.tiny < 1) (c : CSys K) (hc : Clean P.tiny c) (op : Op K) :
    Clean P.tiny (stepC P c op).1 := by
  have hs : ∀ (c' : CSys K) (v : M3 K) (o : V3 K), Clean P.tiny (c'.setBox P.tiny v o) := by
    intro c' v o
    exact zeroSmall_idem P.tiny h0 h1 v
  have hr : Clean P.tiny c.recip.2 := by
    unfold Clean CSys.recip
    cases c.cache <;> exact hc
  cases op with
  | spos => exact hr
  | wrap => exact hs _ _ _
  | rebuild =>
    unfold stepC
    cases hb : c.rebuild P with
    | none => exact hr
    | some c' =>
      simp only []
      unfold CSys.rebuild at hb
      cases ha : abcBox? P.sqrt c.getSpos.2.box.vects with
      | none => simp [ha] at hb
      | some b2 =>
        simp only [ha, Option.some.injEq] at hb
        rw [← hb]
        exact hs _ _ _
  | normalize =>
    unfold stepC
    cases c.normalizeC P <;> exact hc
  | boxSet scale v o =>
    cases scale
    · exact hs _ _ _
    · exact hs _ _ _
  | setVects v => exact zeroSmall_idem P.tiny h0 h1 v
  | setOrigin o => exact hc
  | setPbc p => exact hc
  | editPbc k v => exact hc
  | setPos p => exact hc

theorem clean_runC (P : Params K) (h0 : 0 ≤ P.tiny) (h1 : P.tiny < 1) (ops : List (Op K)) (c : CSys K)
    (hc : Clean P.tiny c) : Clean P.tiny (runC P c ops).1 := by
  induction ops generalizing c with
  | nil => exact hc
  | cons op ops ih => exact ih _ (clean_stepC P h0 h1 c hc op)

theorem absK_neg (x : K) : absK (-x) = absK x := by rw [absK_eq_abs, absK_eq_abs, abs_neg]

theorem zeroIfSmall_neg (tiny m x : K) : zeroIfSmall tiny m (-x) = - zeroIfSmall tiny m x := by
  unfold zeroIfSmall
  rw [neg_div, absK_neg]
  split_ifs <;> simp

/-- reversing the third vector does not change the largest component. -/
theorem maxAbs_flipC (b : Box K) : maxAbs (flipC b).vects = maxAbs b.vects := by
  obtain ⟨⟨⟨a0, a1, a2⟩, ⟨a3, a4, a5⟩, ⟨a6, a7, a8⟩⟩, o⟩ := b
  simp only [maxAbs, flipC, M3.toList, V3.toList, V3.neg_def, List.cons_append, List.nil_append, List.map_cons,
    List.map_nil, absK_neg]

/-- **zeroSmall_flipC**: the reversed cell of a clean cell is clean: the first write of `normalize` (third vector
    of a left-handed cell reversed) is never altered by the clean-up of the setter. -/
theorem zeroSmall_flipC (tiny : K) (b : Box K) (h : zeroSmall tiny b.vects = b.vects) :
    zeroSmall tiny (flipC b).vects = (flipC b).vects := by
  have hm := maxAbs_flipC b
  obtain ⟨⟨⟨a0, a1, a2⟩, ⟨a3, a4, a5⟩, ⟨a6, a7, a8⟩⟩, o⟩ := b
  unfold zeroSmall at h ⊢
  rw [hm]
  simp only [flipC, V3.neg_def, zeroIfSmall_neg] at h ⊢
  simp only [M3.mk.injEq, V3.mk.injEq] at h ⊢
  obtain ⟨⟨h0, h1, h2⟩, ⟨h3, h4, h5⟩, ⟨h6, h7, h8⟩⟩ := h
  refine ⟨⟨h0, h1, h2⟩, ⟨h3, h4, h5⟩, ⟨?_, ?_, ?_⟩⟩
  · rw [h6]
  · rw [h7]
  · rw [h8]

end field

/-! ## what a stale cache does (non-vacuity of the coherence hypothesis) -/

section stale
open Atomman.C05

/-- cell `4·1`, one atom 100 cells out; the cache still holds the reciprocal vectors of the cell before a
    strain of `1/1000`. -/
def staleSys : CSys ℚ :=
  ⟨⟨⟨⟨4, 0, 0⟩, ⟨0, 4, 0⟩, ⟨0, 0, 4⟩⟩, ⟨0, 0, 0⟩⟩,
   some ⟨⟨1000/4004, 0, 0⟩, ⟨0, 1000/4004, 0⟩, ⟨0, 0, 1000/4004⟩⟩,
   ⟨true, true, true⟩, [⟨401, 1, 1⟩]⟩

def stalePar : Params ℚ := ⟨Rat.floor, 1/1000, 1/1000000000, fun x => x⟩

/-- the cache is not coherent … -/
example : ¬ Coherent staleSys := by
  intro h
  have := h _ rfl
  revert this
  decide +kernel

/-- … and `wrap` then moves the atom by something that is not a lattice vector: the image flags do not
    reconstruct the old position (they do for the same visible state with a coherent cache). -/
example : let w := staleSys.wrapC stalePar
    List.zipWith (fun p' f => p' + latticeVec staleSys.box.vects f) w.2.pos w.1 ≠ staleSys.pos := by
  decide +kernel

example : let c : CSys ℚ := { staleSys with cache := none }
    let w := c.wrapC stalePar
    List.zipWith (fun p' f => p' + latticeVec c.box.vects f) w.2.pos w.1 = c.pos := by
  decide +kernel

end stale

end Atomman.C05
