/-
  C07 — source tie of the writer code: every definition of `Atomman/Generated/WriterSource.lean` (regenerated with `ast`
  from atom_data/dump.py, atom_dump/dump.py, poscar/dump.py, table/dump.py, table/df_to_table.py on every run) is proved
  equal to the hand model the property theorems are about.  A source edit that changes a line layout, the order of
  the lines, a bounding-box formula, a default, a refusal or where the text goes either re-proves or breaks the
  obligation named after it.
-/
import Proofs.C07_Poscar
import Proofs.C07_DataFile
import Atomman.Generated.WriterSource
import Mathlib.Tactic.Linarith
namespace Atomman.C07
open Atomman Atomman.Gen.WriterSource

/-! ## data file (atomman/dump/atom_data/dump.py) -/

/-- `box_content` = `boxLines` of the box divided by the length unit: the three `lo hi` lines in the order x, y, z with
    their keywords, the tilt line exactly when a tilt is non-zero. -/
theorem gen_dataBoxLines_eq_model (f : Fmt) (lf : Option ℚ) (b : HiLo) :
    genDataBoxLines f lf b = boxLines f (b.map (divBy lf)) := rfl

/-- `info_content` = `infoDoc`. -/
theorem gen_infoDoc_eq_model (pbc : V3 Bool) (style units : String) (fname : Option String) :
    genInfoDoc pbc style units fname = infoDoc pbc style units fname := by
  cases fname <;> rfl

/-- the argument defaults at the head of `dump` = `resolveArgs`. -/
theorem gen_resolveArgs_eq_model : genResolveArgs = resolveArgs := by
  funext ua sa na pot n; cases pot <;> rfl

/-- the order in which `dump` concatenates counts, box lines, the `Atoms # style` section (`atoms_content`) and the
    `Velocities` section = `dataDocOf`. -/
theorem gen_dataDoc_eq_model (f : Fmt) (style : String) (p : DataParts) :
    genDataDoc p.natoms p.natypes (boxLines f p.hilo) (genAtomsSection style (rowsDoc f p.rows))
      (p.vel.map (rowsDoc f)) = dataDocOf f style p := by
  cases hv : p.vel <;> simp [genDataDoc, genAtomsSection, dataDocOf, hv, List.append_assoc]

/-- the extra columns of the atom table are the image flags along a, b, c in this order (what `flagCells` writes), and
    they are left out under the test the model's `flagCells` mirrors (all flags zero). -/
theorem gen_flagColumns_eq_model (fl : V3 Int) :
    genFlagColumns.map (fun c => Cell.int (v3get fl c.2)) = [.int fl.x, .int fl.y, .int fl.z] ∧
    genFlagColumns.map (·.1) = ["imageflag_a", "imageflag_b", "imageflag_c"] ∧
    genFlagsOmittedWhen = "np.allclose(imageflags, 0)" := ⟨rfl, rfl, rfl⟩

/-! ## where the text goes -/

theorem gen_dataDeliver_eq_model : genDataDeliver = deliver := by
  funext t w; cases t <;> rfl
theorem gen_dumpDeliver_eq_model : genDumpDeliver = deliver := by
  funext t w; cases t <;> rfl
theorem gen_tableDeliver_eq_model : genTableDeliver = deliver := by
  funext t w; cases t <;> rfl
theorem gen_poscarDeliver_eq_model (t : Target) (w : Bool) : genPoscarDeliver t w = deliver t false := by
  cases t <;> rfl

/-- every writer opens a file name for writing from scratch (`'w'`), and returns its optional second value exactly
    under the test `… is True`. -/
theorem gen_fileModes_eq_model :
    genDataFileMode = "w" ∧ genDumpFileMode = "w" ∧ genPoscarFileMode = "w" ∧ genTableFileMode = "w" ∧
    genDataExtraWhen = "return_info is True" ∧ genDumpExtraWhen = "return_prop_info is True" ∧
    genTableExtraWhen = "return_prop_info is True" := ⟨rfl, rfl, rfl, rfl, rfl, rfl, rfl⟩

/-- argument names, their order and their defaults (`units` / `atom_style` / `natypes` default to None — resolved by
    `resolveArgs` —, `'%.13f'` / `'%.13e'`, `return_info=True`, `safecopy=False`, `coordstyle='direct'`, `box_scale=1.0`,
    `header=False`, `lammps_units='metal'`). -/
theorem gen_signatures_eq_model :
    dataSignature = [("system", "<required>"), ("f", "None"), ("atom_style", "None"), ("units", "None"), ("natypes", "None"),
      ("potential", "None"), ("float_format", "'%.13f'"), ("return_info", "True"), ("prompt", "False"),
      ("comments", "True"), ("safecopy", "False")] ∧
    infoSignature = [("system", "<required>"), ("f", "<required>"), ("atom_style", "None"), ("units", "None")] ∧
    dumpSignature = [("system", "<required>"), ("f", "None"), ("lammps_units", "'metal'"), ("prop_name", "None"),
      ("table_name", "None"), ("shape", "None"), ("unit", "None"), ("dtype", "None"), ("prop_info", "None"),
      ("float_format", "'%.13f'"), ("return_prop_info", "False")] ∧
    poscarSignature = [("system", "<required>"), ("f", "None"), ("header", "''"), ("symbols", "None"),
      ("coordstyle", "'direct'"), ("box_scale", "1.0"), ("float_format", "'%.13e'")] ∧
    tableSignature = [("system", "<required>"), ("f", "None"), ("prop_name", "None"), ("table_name", "None"),
      ("shape", "None"), ("unit", "None"), ("dtype", "None"), ("prop_info", "None"), ("header", "False"),
      ("float_format", "'%.13f'"), ("return_prop_info", "False"), ("extra", "None")] := ⟨rfl, rfl, rfl, rfl, rfl⟩

/-! ## dump file (atomman/dump/atom_dump/dump.py) -/

theorem listMin4 (a b c : ℚ) : listMin 0 [0, a, b, c] = min4 0 a b c := by
  simp only [listMin, List.foldl, min4]
theorem listMax4 (a b c : ℚ) : listMax 0 [0, a, b, c] = max4 0 a b c := by
  simp only [listMax, List.foldl, max4]
theorem listMin2 (a : ℚ) : listMin 0 [0, a] = min4 0 a 0 0 := by
  simp only [listMin, List.foldl, min4]; split_ifs <;> first | rfl | linarith
theorem listMax2 (a : ℚ) : listMax 0 [0, a] = max4 0 a 0 0 := by
  simp only [listMax, List.foldl, max4]; split_ifs <;> first | rfl | linarith

/-- the text `atom_dump.dump` concatenates — TIMESTEP and NUMBER OF ATOMS items, the bounding box
    `xlo + min(0, xy, xz, xy + xz)`, `xhi + max(…)`, `ylo + min(0, yz)`, `yhi + max(0, yz)`, `zlo`, `zhi` of the
    converted box values, `xy xz yz` keyword and third column exactly for a tilted cell, `pp` / `fm` per direction
    in the order x y z, the ATOMS line — = `dumpDoc`. -/
theorem gen_dumpDoc_eq_model (f : Fmt) (lf : Option ℚ) (b : HiLo) (pbc : V3 Bool) (ts : Int) (n : Nat)
    (cols : List ColSpec) (rows : List (List Cell)) :
    genDumpDoc f lf b pbc ts n (nameLine cols) (rowsDoc f rows)
      = dumpDoc f ts n pbc (b.map (divBy lf)) cols rows := by
  unfold genDumpDoc dumpDoc
  simp only [listMin4, listMax4, listMin2, listMax2, bboxOf, HiLo.map, orthoH, bflagD]
  by_cases ho : divBy lf b.xy = 0 ∧ divBy lf b.xz = 0 ∧ divBy lf b.yz = 0
  · cases pbc.x <;> cases pbc.y <;> cases pbc.z <;> simp [ho]
  · cases pbc.x <;> cases pbc.y <;> cases pbc.z <;> simp [ho]

/-- the defaults of `atom_dump.dump`: `atom_id` first, then the system's properties without (the first) `atom_id`;
    shapes `()` for `atom_id`, `(3,)` for `spos` / `upos` / `supos`, the stored shape otherwise. -/
theorem gen_defaultDump_eq_model : genDefaultDumpNames = defaultDumpNames ∧ genDefaultDumpShape = defaultDumpShape :=
  ⟨rfl, rfl⟩

/-! ## POSCAR (atomman/dump/poscar/dump.py) -/

/-- the text `poscar.dump` builds — comment, factor, the three cell vectors divided by the factor, the symbols line
    when there are symbols, one count per type each followed by a blank, the mode line, one row per atom — =
    `poscarDoc`. -/
theorem gen_poscarDoc_eq_model (f : Fmt) (header : List String) (symbols : Option (List String)) (coordstyle : String)
    (scale : ℚ) (s : Sys) (cart : Bool) :
    genPoscarDoc f header scale s.box.vects symbols (poscarNums s cart scale).counts coordstyle
      (poscarNums s cart scale).coords
      = poscarDoc f header symbols coordstyle scale (poscarNums s cart scale) := by
  cases symbols <;> rfl

/-- the factor is refused exactly when it is not positive (`writePoscarDoc` throws for `scale ≤ 0`). -/
theorem gen_poscarRefuses_eq_model (scale : ℚ) : genPoscarRefuses scale ↔ scale ≤ 0 := by
  unfold genPoscarRefuses; exact not_lt

/-- Cartesian mode is selected by a first letter c, C, k, K (`isCartTok`); the comment and the mode line must not hold
    a line break. -/
theorem gen_cartesianChars_eq_model (c : Char) (r : List Char) :
    (isCartTok (c :: r) = true ↔ c ∈ genCartesianChars) ∧
    genPoscarAsserts = ["'\\n' not in header", "'\\n' not in coordstyle"] := by
  refine ⟨?_, rfl⟩
  simp [genCartesianChars, isCartTok, or_assoc]

/-! ## table (atomman/dump/table/dump.py, df_to_table.py) -/

/-- `a_id` runs from 1: `seqIds`. -/
theorem gen_tableIds_eq_model (n : Nat) : seqIds n = (List.range n).map fun (k : Nat) => (k : Int) + genTableFirstId := rfl

/-- a column is divided by its unit exactly when it has one that is not `'scaled'` (`convert`), and is box-relative
    exactly for `'scaled'`. -/
theorem gen_tableUnits_eq_model (u : Units) (q : ℚ) :
    genTableConvertsWhen = "prop['unit'] is not None and prop['unit'] != 'scaled'" ∧
    genTableScaledWhen = "prop['unit'] == 'scaled'" ∧
    convert u .none q = .ok q ∧ convert u .scaled q = .ok q := ⟨rfl, rfl, rfl, rfl⟩

/-- normalised-AST statement pins (code that is pandas / numpy plumbing, tied to the model by the correspondence
    runs): the default `prop_name` / `shape` handling of `atom_dump.dump`, `atom_dump.table_dump`, `table.dump`,
    `df_to_table`. -/
theorem gen_pins_eq_model :
    genDumpHeadPin = "0e1fad7ff8f36d4a" ∧ genDumpTablePin = "a90c88b9745377ba" ∧
    genTablePin = "f5084539e219dfe3" ∧ genDfToTablePin = "b70d7c6d1d1d646f" := ⟨rfl, rfl, rfl, rfl⟩

end Atomman.C07
