/-
  C07 — helper lemmas (file level): the independent LAMMPS data-file reader applied to what `atom_data.dump`
  writes.  Part 2: the whole file (`parseData ∘ writeData`), every style, with or without velocities.
-/
import Proofs.C07_AtomLine

namespace Atomman.C07
open Atomman
set_option linter.unusedSimpArgs false
set_option linter.unusedVariables false

/-- the system whose rows a data file carries: wrapped positions in the padded box. -/
def wrappedSys (s : Sys) : Sys :=
  { s with box := (wrap s.box s.pbc s.pos).box, pos := (wrap s.box s.pbc s.pos).pos }

theorem dataParts_ok (s : Sys) (style : String) (u : Units) (p : DataParts) (w : Wrapped)
    (h : dataParts s style u = .ok (p, w)) :
    w = wrap s.box s.pbc s.pos ∧ w.box.isLammpsNorm = true ∧
    ∃ lf cols, lengthFactor u = .ok lf ∧ atomCols style = some cols ∧ p.natoms = s.natoms ∧ p.natypes = s.natypes ∧
      p.hilo = (hiLoOf w.box).map (divBy lf) ∧
      tableRows (wrappedSys s) u (seqIds s.natoms) w.pos cols (flagCells w.flags) = .ok p.rows ∧
      (((s.prop? "velocity").isSome = true ∧ ∃ vc vr, velCols style = some vc ∧
          tableRows (wrappedSys s) u (seqIds s.natoms) w.pos vc [] = .ok vr ∧ p.vel = some vr) ∨
       ((s.prop? "velocity").isSome = false ∧ p.vel = none)) := by
  unfold dataParts at h
  simp only [bind, Except.bind, pure, Except.pure, throw, throwThe, MonadExceptOf.throw] at h
  split at h
  · cases h
  · rename_i hn
    split at h
    · cases h
    · rename_i lf hlf
      split at h
      · rename_i cols hcols
        split at h
        · cases h
        · rename_i rows hrows
          split at h
          · rename_i hvel
            split at h
            · rename_i vc hvc
              split at h
              · cases h
              · rename_i vr hvr
                simp only [Except.ok.injEq, Prod.mk.injEq] at h
                obtain ⟨rfl, rfl⟩ := h
                exact ⟨rfl, by simpa using hn, lf, cols, hlf, hcols, rfl, rfl, rfl, hrows,
                  Or.inl ⟨hvel, vc, vr, hvc, hvr, rfl⟩⟩
            · cases h
          · rename_i hvel
            simp only [Except.ok.injEq, Prod.mk.injEq] at h
            obtain ⟨rfl, rfl⟩ := h
            exact ⟨rfl, by simpa using hn, lf, cols, hlf, hcols, rfl, rfl, rfl, hrows,
              Or.inr ⟨by simpa using hvel, rfl⟩⟩
      · cases h

/-! ### one `Velocities` line -/

theorem readVelLine_cells (f : Fmt) (VL : Layout) (i : Int) (rest : List Cell) (hl : rest.length + 1 = VL.length) :
    readVelLine VL ((Cell.int i :: rest).map (Cell.tok f))
      = some { id := i, fields := (Cell.int i :: rest).map (Cell.val f) } := by
  unfold readVelLine
  simp only [List.map_cons, List.length_cons, List.length_map, hl, ne_eq, not_true_eq_false, if_false, Cell.tok,
    parseInt_intTok]
  have := mapM_parseNum_row f rest
  simp only [Option.bind_eq_bind, Option.bind_some, bind, pure, this, Cell.val]

theorem vel_int_units : ∀ e ∈ Gen.AtomStyles.velStyles, ∀ g ∈ e.2,
    ((ofGenCol g).prop ∈ intProps → (ofGenCol g).unit = .none) := by decide +kernel

theorem base_vel_head : ∀ e ∈ Gen.AtomStyles.velStyles, e.2 ≠ [] →
    ((e.2.map ofGenCol).head?.map (·.prop)) = some "a_id" := by decide +kernel

theorem velCols_head (style : String) (vc : List ColSpec) (h : velCols style = some vc) :
    ∃ c rest, vc = c :: rest ∧ c.prop = "a_id" := by
  have hb : ∀ e ∈ Gen.AtomStyles.velStyles, e.2 ≠ [] → ∃ c rest, e.2.map ofGenCol = c :: rest ∧ c.prop = "a_id" := by
    intro e he hne
    have := base_vel_head e he hne
    cases hm : e.2.map ofGenCol with
    | nil => rw [hm] at this; simp at this
    | cons c rest => rw [hm] at this; exact ⟨c, rest, rfl, by simpa using this⟩
  rcases styleCols_cases style vc h with ⟨w, hw⟩ | ⟨subs, base, hbs, hf⟩
  · obtain ⟨e, he, _, hne, rfl⟩ := lookupStyle_some hw
    exact hb e he hne
  · obtain ⟨e, he, _, hne, rfl⟩ := lookupStyle_some hbs
    obtain ⟨L0, _, hL0⟩ := vel_tables_agree e he hne
    obtain ⟨_, _, _, ext, hext⟩ := hybrid_fold_agree vel_tables_agree subs _ L0 hL0 vc hf
    obtain ⟨c, rest, hc, hp⟩ := hb e he hne
    exact ⟨c, rest ++ ext, by rw [hext, hc]; rfl, hp⟩

/-- one `Velocities` line read back: the id and every field of the row. -/
theorem vel_row (s : Sys) (u : Units) (ids : List Int) (pos : List (V3 ℚ)) (k : Nat) (f : Fmt) (hs : IntTyped s)
    (vc : List ColSpec) (VL : Layout) (hL : colsLayout vc = some VL)
    (hunit : ∀ c ∈ vc, c.prop ∈ intProps → c.unit = .none) (hhead : ∃ c rest, vc = c :: rest ∧ c.prop = "a_id")
    (cellss : List (List Cell))
    (h : List.Forall₂ (fun c cs => propCells s u ids pos c k = .ok cs) vc cellss) :
    ∃ i, ids[k]? = some i ∧
      readVelLine VL (cellss.flatten.map (Cell.tok f)) = some { id := i, fields := cellss.flatten.map (Cell.val f) } := by
  obtain ⟨hfit, _⟩ := fits_cols s u ids pos k hs vc VL hL hunit cellss h
  obtain ⟨c, rest, rfl, hp⟩ := hhead
  cases h with
  | @cons _ cs _ crest h1 h2 =>
    obtain ⟨i, hi, rfl⟩ := propCells_id s u ids pos c k (Or.inl hp) cs h1
    refine ⟨i, hi, ?_⟩
    have hl := hfit.length_eq
    simp only [List.flatten_cons, List.cons_append, List.nil_append, List.length_cons] at hl ⊢
    exact readVelLine_cells f VL i crest.flatten hl.symm

/-! ### all lines of a section -/

theorem mapM_indexed {α β : Type} (g : α → Option β) (l : List α) (P : Nat → β → Prop)
    (h : ∀ k (hk : k < l.length), ∃ b, g l[k] = some b ∧ P k b) :
    ∃ r, l.mapM g = some r ∧ r.length = l.length ∧ ∀ k (hk : k < r.length), P k r[k] := by
  induction l generalizing P with
  | nil => exact ⟨[], rfl, rfl, fun k hk => by simp at hk⟩
  | cons a as ih =>
    obtain ⟨b, hb, hPb⟩ := h 0 (by simp)
    obtain ⟨r, hr, hlen, hP⟩ := ih (fun k b => P (k + 1) b) (fun k hk => by
      have := h (k + 1) (by simpa using hk)
      simpa using this)
    refine ⟨b :: r, ?_, by simp [hlen], ?_⟩
    · rw [List.mapM_cons]
      simp only [List.getElem_cons_zero] at hb
      rw [hb, hr]; rfl
    · intro k hk
      cases k with
      | zero => simpa using hPb
      | succ k => simpa using hP k (by simpa using hk)

theorem flagCells_get (flags : List (V3 Int)) (k : Nat) (hk : k < flags.length) :
    ∃ o : Option (V3 Int), ((flagCells flags)[k]?).getD [] = flagToks o ∧ o.getD ⟨0, 0, 0⟩ = flags[k] := by
  unfold flagCells
  split
  · rename_i hall
    refine ⟨none, by simp [flagToks], ?_⟩
    have := List.all_eq_true.mp hall flags[k] (List.getElem_mem hk)
    simp only [decide_eq_true_eq] at this
    obtain ⟨h1, h2, h3⟩ := this
    cases hf : flags[k] with
    | mk a b c => rw [hf] at h1 h2 h3; simp at h1 h2 h3; simp [h1, h2, h3]
  · refine ⟨some flags[k], ?_, rfl⟩
    simp [flagToks, hk]

/-! ### the whole data file -/

theorem wrap_lengths (box : Box ℚ) (pbc : V3 Bool) (pos : List (V3 ℚ)) :
    (wrap box pbc pos).pos.length = pos.length ∧ (wrap box pbc pos).flags.length = pos.length := by
  simp [wrap]

theorem seqIds_get (n k : Nat) (hk : k < n) : (seqIds n)[k]? = some ((k : Int) + 1) := by
  simp [seqIds, hk]

theorem flatten_ne_nil_of_get {α : Type} (ll : List (List α)) (j : Nat) (l : List α) (h : ll[j]? = some l)
    (hl : l ≠ []) : ll.flatten ≠ [] := by
  intro hf
  have hm : l ∈ ll := List.mem_of_getElem? h
  have : l = [] := by
    have := List.flatten_eq_nil_iff.mp hf l hm
    exact this
  exact hl this

/-- what the independent reader must find for atom `k` of a data file. -/
structure AtomOk (f : Fmt) (s : Sys) (u : Units) (w : Wrapped) (lf : Option ℚ) (cols : List ColSpec) (k : Nat)
    (a : AtomRec) : Prop where
  id : a.id = (k : Int) + 1
  type : s.atype[k]? = some a.type
  pos : ∃ p, w.pos[k]? = some p ∧ a.pos = v3map (fmtVal f) (v3map (divBy lf) p)
  image : w.flags[k]? = some a.image
  fields : ∃ cellss, List.Forall₂ (fun c cs => propCells (wrappedSys s) u (seqIds s.natoms) w.pos c k = .ok cs) cols cellss ∧
    a.fields = cellss.flatten.map (Cell.val f)

structure VelOk (f : Fmt) (s : Sys) (u : Units) (w : Wrapped) (vc : List ColSpec) (k : Nat) (v : VelRec) : Prop where
  id : v.id = (k : Int) + 1
  fields : ∃ cellss, List.Forall₂ (fun c cs => propCells (wrappedSys s) u (seqIds s.natoms) w.pos c k = .ok cs) vc cellss ∧
    v.fields = cellss.flatten.map (Cell.val f)

theorem parseData_writeData (s : Sys) (style : String) (u : Units) (f : Fmt) (text : List Char)
    (h : writeData s style u f = .ok text) (hs : IntTyped s) :
    ∃ p w lf cols L pd, dataParts s style u = .ok (p, w) ∧ w = wrap s.box s.pbc s.pos ∧ w.box.isLammpsNorm = true ∧
      lengthFactor u = .ok lf ∧ atomCols style = some cols ∧ layoutOf lammpsAtomLayout style = some L ∧
      colsLayout cols = some L ∧ text = renderLines (dataDocOf f style p) ∧
      parseData text style = some pd ∧
      pd.natoms = s.natoms ∧ pd.ntypes = s.natypes ∧
      pd.hilo = ((hiLoOf w.box).map (divBy lf)).map (fmtVal f) ∧
      pd.styleHint = (styleWords style).map strTok ∧
      pd.atoms.length = s.natoms ∧ (∀ k (hk : k < pd.atoms.length), AtomOk f s u w lf cols k pd.atoms[k]) ∧
      (((s.prop? "velocity").isSome = false ∧ pd.velocities = none) ∨
       ((s.prop? "velocity").isSome = true ∧ ∃ vc vrecs, velCols style = some vc ∧ pd.velocities = some vrecs ∧
          vrecs.length = s.natoms ∧ ∀ k (hk : k < vrecs.length), VelOk f s u w vc k vrecs[k])) := by
  unfold writeData writeDataDoc at h
  cases hd : dataParts s style u with
  | error e => rw [hd] at h; cases h
  | ok pw =>
    obtain ⟨p, w⟩ := pw
    rw [hd] at h
    simp only [Except.map, Except.ok.injEq] at h
    obtain ⟨hw, hnorm, lf, cols, hlf, hcols, hna, hnt, hhilo, hrows, hvel⟩ := dataParts_ok s style u p w hd
    have hsW : IntTyped (wrappedSys s) := hs
    have hnaW : (wrappedSys s).natoms = s.natoms := by
      simp only [wrappedSys, Sys.natoms]; exact (wrap_lengths _ _ _).1
    have hwpos : w.pos.length = s.natoms := by rw [hw]; exact (wrap_lengths _ _ _).1
    have hwfl : w.flags.length = s.natoms := by rw [hw]; exact (wrap_lengths _ _ _).2
    obtain ⟨L, hL, hcL⟩ := layoutOf_styleCols atom_tables_agree style cols hcols
    have hunit := styleCols_from_table (fun c => c.prop ∈ intProps → c.unit = .none) atom_int_units style cols hcols
    have hcore := coreCols_of_atomCols style cols hcols
    have hst := styleOk_of_atomCols style cols hcols
    obtain ⟨hrl, hrk⟩ := tableRows_spec _ _ _ _ _ _ _ hrows
    rw [hnaW] at hrl
    -- every atom line
    have hline : ∀ k (hk : k < (rowsDoc f p.rows).length), ∃ a, readAtomLine L (rowsDoc f p.rows)[k] = some a ∧
        AtomOk f s u w lf cols k a := by
      intro k hk
      have hk' : k < p.rows.length := by simpa [rowsDoc] using hk
      obtain ⟨cellss, hcells, hrow⟩ := hrk k hk'
      obtain ⟨o, ho, hog⟩ := flagCells_get w.flags k (by omega)
      obtain ⟨i, t, pk, lf', hi, ht, hpk, hlf', hread⟩ :=
        atom_row (wrappedSys s) u (seqIds s.natoms) w.pos k f hsW cols L hcL hunit hcore cellss hcells o
      rw [seqIds_get _ _ (by omega)] at hi
      injection hi with hi
      have hlfeq : lf' = lf := by
        unfold lengthFactor at hlf
        rw [hlf'] at hlf
        simp only [pure, Except.pure, Except.ok.injEq] at hlf
        exact hlf
      subst hlfeq
      refine ⟨{ id := i, type := t, pos := v3map (fmtVal f) (v3map (divBy lf') pk),
                image := o.getD ⟨0, 0, 0⟩, fields := cellss.flatten.map (Cell.val f) }, ?_, ⟨?_, ?_, ?_, ?_, ?_⟩⟩
      · simp only [rowsDoc, List.getElem_map]
        rw [hrow, ho]
        exact hread
      · exact hi.symm
      · exact ht
      · exact ⟨pk, hpk, rfl⟩
      · simp only [hog]
        exact (List.getElem?_eq_getElem (by omega))
      · exact ⟨cellss, hcells, rfl⟩
    obtain ⟨atoms, hatoms, halen, hatomsP⟩ := mapM_indexed (readAtomLine L) (rowsDoc f p.rows) _ hline
    have hrne : ∀ r ∈ p.rows, r ≠ [] := by
      intro r hr
      obtain ⟨k, hk, rfl⟩ := List.getElem_of_mem hr
      obtain ⟨a, ha, _⟩ := hline k (by simpa [rowsDoc] using hk)
      intro he
      simp only [rowsDoc, List.getElem_map, he, List.map_nil] at ha
      obtain ⟨⟨c, hfc, hc⟩, _, _⟩ := hcore
      have hLne : L ≠ [] := by
        obtain ⟨fs, hfs, hsub⟩ := colLayout_of_mem hcL (c := c) (by
          obtain ⟨pre, post, hsplit, _⟩ := hfc; rw [hsplit]; simp)
        obtain ⟨rfl, _⟩ := colLayout_a_id hc hfs
        intro hLn
        have := hsub "atom-ID" (by simp)
        rw [hLn] at this; simp at this
      unfold readAtomLine at ha
      have hlen0 : ¬ (0 = L.length) := by
        intro h0; exact hLne (List.length_eq_zero_iff.mp h0.symm)
      simp [hlen0] at ha
    have hatomsLen : atoms.length = s.natoms := by rw [halen]; simp [rowsDoc, hrl]
    subst h
    rcases hvel with ⟨hv1, vc, vr, hvc, hvr, hpv⟩ | ⟨hv0, hpv⟩
    · -- with a Velocities section
      obtain ⟨VL, hVL, hcVL⟩ := layoutOf_styleCols vel_tables_agree style vc hvc
      have hvunit := styleCols_from_table (fun c => c.prop ∈ intProps → c.unit = .none) vel_int_units style vc hvc
      have hhead := velCols_head style vc hvc
      obtain ⟨hvl, hvk⟩ := tableRows_spec _ _ _ _ _ _ _ hvr
      rw [hnaW] at hvl
      have hvline : ∀ k (hk : k < (rowsDoc f vr).length), ∃ v, readVelLine VL (rowsDoc f vr)[k] = some v ∧
          VelOk f s u w vc k v := by
        intro k hk
        have hk' : k < vr.length := by simpa [rowsDoc] using hk
        obtain ⟨cellss, hcells, hrow⟩ := hvk k hk'
        obtain ⟨i, hi, hread⟩ := vel_row (wrappedSys s) u (seqIds s.natoms) w.pos k f hsW vc VL hcVL hvunit hhead cellss hcells
        rw [seqIds_get _ _ (by omega)] at hi
        injection hi with hi
        refine ⟨{ id := i, fields := cellss.flatten.map (Cell.val f) }, ?_, ⟨hi.symm, cellss, hcells, rfl⟩⟩
        simp only [rowsDoc, List.getElem_map]
        rw [hrow]
        simpa using hread
      obtain ⟨vrecs, hvrecs, hvlen, hvP⟩ := mapM_indexed (readVelLine VL) (rowsDoc f vr) _ hvline
      have hvne : ∀ r ∈ vr, r ≠ [] := by
        intro r hr
        obtain ⟨k, hk, rfl⟩ := List.getElem_of_mem hr
        obtain ⟨v, hv, _⟩ := hvline k (by simpa [rowsDoc] using hk)
        intro he
        simp only [rowsDoc, List.getElem_map, he, List.map_nil] at hv
        simp [readVelLine] at hv
      have hdf := readDataFile_dataDoc f style p hst (by rw [hrl, hna]) hrne
        (by intro vr' hvr'; rw [hpv] at hvr'; injection hvr' with hvr'; subst hvr'; exact ⟨by rw [hvl, hna], hvne⟩)
      refine ⟨p, w, lf, cols, L, (ParsedData.mk p.natoms p.natypes (p.hilo.map (fmtVal f))
        ((styleWords style).map strTok) atoms (some vrecs)),
        rfl, hw, hnorm, hlf, hcols, hL, hcL, rfl, ?_, hna, hnt, by rw [hhilo], rfl, hatomsLen, hatomsP, ?_⟩
      · unfold parseData
        rw [hdf]
        simp only [Option.bind_eq_bind, Option.bind_some, hL, hatoms, hpv, Option.map_some, hVL, hvrecs, bind, pure]
      · right
        refine ⟨hv1, vc, vrecs, hvc, rfl, ?_, hvP⟩
        rw [hvlen]; simp [rowsDoc, hvl]
    · have hdf := readDataFile_dataDoc f style p hst (by rw [hrl, hna]) hrne
        (by intro vr' hvr'; rw [hpv] at hvr'; cases hvr')
      refine ⟨p, w, lf, cols, L, (ParsedData.mk p.natoms p.natypes (p.hilo.map (fmtVal f))
        ((styleWords style).map strTok) atoms none),
        rfl, hw, hnorm, hlf, hcols, hL, hcL, rfl, ?_, hna, hnt, by rw [hhilo], rfl, hatomsLen, hatomsP,
        Or.inl ⟨hv0, rfl⟩⟩
      unfold parseData
      rw [hdf]
      simp only [Option.bind_eq_bind, Option.bind_some, hL, hatoms, hpv, Option.map_none, bind, pure]

end Atomman.C07
