/-
  C10 - helper lemmas: the argument handling at the top of `Atoms.model` (`resolveCall`): what each call form
  (prop_unit dictionary, prop_name + unit lists, unit list alone, prop_name alone, nothing) resolves to, and the
  documented refusals.
-/
import Proofs.C10_Lemmas

namespace Atomman.C10
open Atomman
variable {K : Type}

/-! ## the call forms of `Atoms.model` / `System.model` / `dump(system_model)`: argument handling (`resolveCall`) -/

theorem map_fst_zip_of_length (names : List String) (units : List (Option String)) (h : units.length = names.length) :
    (names.zip units).map Prod.fst = names := by
  rw [← List.unzip_fst, List.unzip_zip (by omega)]

/-- **resolveCall_lists**: `prop_name=names, unit=units` (distinct names, equal lengths) is the dictionary
    `zip(names, units)`, in the order of `names`. -/
theorem resolveCall_lists (own names : List String) (units : List (Option String)) (hn : names.Nodup)
    (hl : units.length = names.length) :
    resolveCall own (some names) (some units) none = some (names.zip units) := by
  have h := foldl_dictSet ([] : List (String × Option String)) (names.zip units)
    (by simpa [map_fst_zip_of_length names units hl] using hn)
  simp only [resolveCall, Option.getD_some, hl, if_true, h, List.nil_append]

/-- **resolveCall_unit_alone**: the `unit` list given WITHOUT `prop_name` is aligned with the object's own
    properties, in their own order - it is not ignored. -/
theorem resolveCall_unit_alone (own : List String) (units : List (Option String)) (hn : own.Nodup)
    (hl : units.length = own.length) :
    resolveCall own none (some units) none = some (own.zip units) := by
  have h := resolveCall_lists own own units hn hl
  simpa [resolveCall] using h

/-- `prop_name` alone: every named property, no unit (`pos` then gets the default angstrom, `effUnit`). -/
theorem resolveCall_names_alone (own names : List String) (hn : names.Nodup) :
    resolveCall own (some names) none none = some (names.map (fun n => (n, none))) := by
  have h := resolveCall_lists own names (names.map (fun _ => none)) hn (by simp)
  have hz : ∀ l : List String, l.zip (l.map (fun _ => (none : Option String))) = l.map (fun n => (n, none)) := by
    intro l
    induction l with
    | nil => rfl
    | cons a l ih => simp only [List.map_cons, List.zip_cons_cons, ih]
  rw [← hz names, ← h]
  simp [resolveCall]

/-- no argument at all: every property of the object, in its own order, no unit. -/
theorem resolveCall_default (own : List String) (hn : own.Nodup) :
    resolveCall own none none none = some (own.map (fun n => (n, none))) := by
  have h := resolveCall_names_alone own own hn
  simpa [resolveCall] using h

/-- the dictionary form is taken as it is. -/
theorem resolveCall_dict (own : List String) (pu : List (String × Option String)) :
    resolveCall own none none (some pu) = some pu := rfl

/-- **resolveCall_refuses**: the documented refusals - `prop_unit` together with `prop_name` or `unit`, and
    `prop_name` / `unit` lists of different lengths (also the bare `unit` list against the object's own names). -/
theorem resolveCall_refuses (own : List String) (pn : Option (List String)) (un : Option (List (Option String)))
    (pu : List (String × Option String)) (h : pn ≠ none ∨ un ≠ none) :
    resolveCall own pn un (some pu) = none := by
  cases pn <;> cases un <;> simp_all [resolveCall]

theorem resolveCall_refuses_length (own : List String) (pn : Option (List String)) (units : List (Option String))
    (h : units.length ≠ (pn.getD own).length) : resolveCall own pn (some units) none = none := by
  simp [resolveCall, h]

end Atomman.C10
