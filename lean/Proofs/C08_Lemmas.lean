/-
  C08 — helper lemmas: sorting by id, permutations through `mapM`, shapes and index names, lexing of rendered
  lines.
-/
import Atomman.C08
import Proofs.C07_Lemmas
import Mathlib.Tactic.Ring
import Mathlib.Tactic.Linarith
import Mathlib.Data.List.Basic
import Mathlib.Data.List.Range
import Mathlib.Data.List.Perm.Basic
import Mathlib.Algebra.Order.Field.Rat

namespace Atomman.C08
open Atomman Atomman.C07
set_option linter.unusedSimpArgs false

/-! ### insertion sort by a rational key -/

theorem insertBy_perm {α : Type} (key : α → Rat) (x : α) (l : List α) : (insertBy key x l).Perm (x :: l) := by
  induction l with
  | nil => simp [insertBy]
  | cons y ys ih =>
    unfold insertBy
    split
    · exact List.Perm.refl _
    · exact (List.Perm.cons y ih).trans (List.Perm.swap x y ys)

theorem sortBy_perm {α : Type} (key : α → Rat) (l : List α) : (sortBy key l).Perm l := by
  induction l with
  | nil => simp [sortBy]
  | cons x xs ih => exact (insertBy_perm key x _).trans (List.Perm.cons x ih)

theorem insertBy_sorted {α : Type} (key : α → Rat) (x : α) (l : List α)
    (h : l.Pairwise fun a b => key a ≤ key b) : (insertBy key x l).Pairwise fun a b => key a ≤ key b := by
  induction l with
  | nil => simp [insertBy]
  | cons y ys ih =>
    unfold insertBy
    have hy := List.pairwise_cons.mp h
    split
    · rename_i hxy
      refine List.pairwise_cons.mpr ⟨?_, h⟩
      intro b hb
      rcases List.mem_cons.mp hb with rfl | hb
      · exact hxy
      · exact le_trans hxy (hy.1 b hb)
    · rename_i hxy
      refine List.pairwise_cons.mpr ⟨?_, ih hy.2⟩
      intro b hb
      have hb' := (insertBy_perm key x ys).subset hb
      rcases List.mem_cons.mp hb' with rfl | hb'
      · exact le_of_lt (not_le.mp hxy)
      · exact hy.1 b hb'

theorem sortBy_sorted {α : Type} (key : α → Rat) (l : List α) : (sortBy key l).Pairwise fun a b => key a ≤ key b := by
  induction l with
  | nil => simp [sortBy]
  | cons x xs ih => exact insertBy_sorted key x _ ih

/-- sorting by distinct keys does not depend on the order of the input. -/
theorem sortBy_eq_of_perm {α : Type} (key : α → Rat) {l₁ l₂ : List α} (h : l₁.Perm l₂)
    (hk : (l₁.map key).Nodup) : sortBy key l₁ = sortBy key l₂ := by
  have p : (sortBy key l₁).Perm (sortBy key l₂) := (sortBy_perm key l₁).trans (h.trans (sortBy_perm key l₂).symm)
  have strict : ∀ l : List α, (l.map key).Nodup → (sortBy key l).Pairwise fun a b => key a < key b := by
    intro l hl
    have hn : ((sortBy key l).map key).Nodup := ((sortBy_perm key l).map key).nodup_iff.mpr hl
    have hne : (sortBy key l).Pairwise fun a b => key a ≠ key b := by
      rw [List.Nodup, List.pairwise_map] at hn
      exact hn
    exact ((sortBy_sorted key l).and hne).imp fun ⟨h1, h2⟩ => lt_of_le_of_ne h1 h2
  have hk2 : (l₂.map key).Nodup := (h.map key).nodup_iff.mp hk
  exact List.Perm.eq_of_pairwise (le := fun a b => key a < key b)
    (fun a b _ _ h1 h2 => absurd h1 (not_lt.mpr (le_of_lt h2))) (strict l₁ hk) (strict l₂ hk2) p

/-! ### shapes, index tuples, column names -/

theorem length_flatten_const {α β : Type} (l : List β) (f : β → List α) (k : Nat) (h : ∀ b ∈ l, (f b).length = k) :
    ((l.map f).flatten).length = l.length * k := by
  induction l with
  | nil => simp
  | cons b bs ih =>
    simp only [List.map_cons, List.flatten_cons, List.length_append, List.length_cons]
    rw [ih (fun b' hb' => h b' (List.mem_cons_of_mem _ hb')), h b List.mem_cons_self]
    ring

theorem shapeProd_cons (d : Nat) (ds : List Nat) : shapeProd (d :: ds) = d * shapeProd ds := rfl

theorem length_allIndices (shape : List Nat) : (allIndices shape).length = shapeProd shape := by
  induction shape with
  | nil => rfl
  | cons d ds ih =>
    unfold allIndices
    rw [length_flatten_const _ _ (shapeProd ds) (by intro b _; simp [ih]), List.length_range, shapeProd_cons]

/-- the column names the writer generates (`C07.indexNames`, i.e. `indexstr`) are `name[i][j]…` for the index tuples
    in `allIndices` order. -/
theorem indexNames_eq_map (name : String) (shape : List Nat) :
    indexNames name shape = (allIndices shape).map (indexName name) := by
  induction shape generalizing name with
  | nil => rfl
  | cons d ds ih =>
    unfold indexNames allIndices
    rw [List.map_flatten, List.map_map]
    congr 1
    apply List.map_congr_left
    intro i _
    simp only [Function.comp, List.map_map, ih]
    rfl

theorem flatten_range_blocks (d P : Nat) :
    ((List.range d).map fun i => (List.range P).map fun j => i * P + j).flatten = List.range (d * P) := by
  induction d with
  | zero => simp
  | succ d ih =>
    rw [List.range_succ, List.map_append, List.flatten_append, ih]
    simp only [List.map_cons, List.map_nil, List.flatten_cons, List.flatten_nil, List.append_nil]
    rw [Nat.succ_mul, List.range_add]

/-- **column ↔ index**: the `k`-th index tuple in `indexstr` order has row-major offset `k`. -/
theorem flatIndex_allIndices (shape : List Nat) :
    (allIndices shape).map (flatIndex shape) = List.range (shapeProd shape) := by
  induction shape with
  | nil => rfl
  | cons d ds ih =>
    unfold allIndices
    rw [List.map_flatten, List.map_map, shapeProd_cons, ← flatten_range_blocks]
    congr 1
    apply List.map_congr_left
    intro i _
    simp only [Function.comp, List.map_map]
    have : (fun is => flatIndex (d :: ds) (i :: is)) = fun is => i * shapeProd ds + flatIndex ds is := by
      funext is; rfl
    show List.map (fun is => flatIndex (d :: ds) (i :: is)) (allIndices ds) = _
    rw [this, ← ih, List.map_map]
    rfl

/-! ### `mapM` in `Except` -/


theorem mapM_ok_iff {α β : Type} (f : α → Except String β) (l : List α) (r : List β) :
    l.mapM f = .ok r ↔ List.Forall₂ (fun a b => f a = .ok b) l r := by
  induction l generalizing r with
  | nil =>
    simp only [List.mapM_nil, pure, Except.pure]
    constructor
    · intro h; injection h with h; subst h; exact List.Forall₂.nil
    · intro h; cases h; rfl
  | cons a as ih =>
    rw [List.mapM_cons]
    cases hfa : f a with
    | error e =>
      simp only [bind, Except.bind]
      constructor
      · intro h; cases h
      · intro h; cases h with | cons h1 _ => rw [hfa] at h1; cases h1
    | ok b =>
      cases hrest : as.mapM f with
      | error e =>
        simp only [bind, Except.bind, hrest]
        constructor
        · intro h; cases h
        · intro h
          cases h with
          | cons h1 h2 => rw [(ih _).mpr h2] at hrest; cases hrest
      | ok bs =>
        simp only [bind, Except.bind, hrest, pure, Except.pure]
        constructor
        · intro h; injection h with h; subst h
          exact List.Forall₂.cons hfa ((ih bs).mp hrest)
        · intro h
          cases h with
          | cons h1 h2 =>
            rw [hfa] at h1; injection h1 with h1; subst h1
            rw [(ih _).mpr h2] at hrest; injection hrest with hrest; subst hrest; rfl


theorem mapM_isOk_iff {α β : Type} (f : α → Except String β) (l : List α) :
    (∃ r, l.mapM f = .ok r) ↔ ∀ a ∈ l, ∃ b, f a = .ok b := by
  constructor
  · rintro ⟨r, h⟩
    have h2 := (mapM_ok_iff f l r).mp h
    clear h
    intro a ha
    induction h2 with
    | nil => cases ha
    | cons h1 _ ih =>
      rcases List.mem_cons.mp ha with rfl | ha
      · exact ⟨_, h1⟩
      · exact ih ha
  · intro h
    induction l with
    | nil => exact ⟨[], rfl⟩
    | cons a as ih =>
      obtain ⟨b, hb⟩ := h a List.mem_cons_self
      obtain ⟨bs, hbs⟩ := ih (fun x hx => h x (List.mem_cons_of_mem _ hx))
      exact ⟨b :: bs, (mapM_ok_iff f _ _).mpr (List.Forall₂.cons hb ((mapM_ok_iff f _ _).mp hbs))⟩

theorem mapM_error_const {α β : Type} (f : α → Except String β) (e0 : String)
    (hall : ∀ a e, f a = .error e → e = e0) (l : List α) (e : String) (h : l.mapM f = .error e) : e = e0 := by
  induction l with
  | nil => simp [List.mapM_nil, pure, Except.pure] at h
  | cons a as ih =>
    rw [List.mapM_cons] at h
    cases hfa : f a with
    | error e' =>
      simp only [hfa, bind, Except.bind] at h
      injection h with h; subst h; exact hall a _ hfa
    | ok b =>
      cases hrest : as.mapM f with
      | error e' =>
        simp only [hfa, hrest, bind, Except.bind] at h
        injection h with h; subst h; exact ih hrest
      | ok bs => simp [hfa, hrest, bind, Except.bind, pure, Except.pure] at h

/-- `mapM` of a function whose failures all carry the same error, over a permuted list. -/
theorem mapM_perm {α β : Type} (f : α → Except String β) (e0 : String)
    (hall : ∀ a e, f a = .error e → e = e0) {l₁ l₂ : List α} (hp : l₁.Perm l₂) :
    (∀ r₁, l₁.mapM f = .ok r₁ → ∃ r₂, l₂.mapM f = .ok r₂ ∧ r₁.Perm r₂) ∧
    (∀ e, l₁.mapM f = .error e → l₂.mapM f = .error e) := by
  constructor
  · intro r₁ h
    obtain ⟨r₂, h2, h3⟩ := List.perm_comp_forall₂ hp.symm ((mapM_ok_iff f _ _).mp h)
    exact ⟨r₂, (mapM_ok_iff f _ _).mpr h2, h3.symm⟩
  · intro e h
    have he := mapM_error_const f e0 hall l₁ e h
    cases h2 : l₂.mapM f with
    | error e' => rw [mapM_error_const f e0 hall l₂ e' h2, he]
    | ok r₂ =>
      have := (mapM_isOk_iff f l₂).mp ⟨r₂, h2⟩
      obtain ⟨r₁, hr₁⟩ := (mapM_isOk_iff f l₁).mpr (fun a ha => this a (hp.subset ha))
      rw [hr₁] at h; cases h

/-! ### the numeric table under a permutation of its rows -/

theorem parseVal_error (t : Tok) (e : String) (h : parseVal t = .error e) : e = "value" := by
  unfold parseVal at h
  split at h
  · cases h
  · injection h with h; exact h.symm

theorem parseRow_error (w : Nat) (r : Line) (e : String) (h : (r.take w).mapM parseVal = .error e) : e = "value" :=
  mapM_error_const parseVal "value" parseVal_error _ e h

theorem all_len_of_perm {rows₁ rows₂ : List Line} (hp : rows₁.Perm rows₂) (n : Nat)
    (h : ∀ r ∈ rows₁, r.length = n) : ∀ r ∈ rows₂, r.length = n :=
  fun r hr => h r (hp.symm.subset hr)

theorem readTable_cases (rows : List Line) (w : Nat) (u : Bool) :
    (rows = [] ∧ readTable rows w u = .error "value") ∨
    (∃ n, rows ≠ [] ∧ (∀ r ∈ rows, r.length = n) ∧
      readTable rows w u =
        (if u = true ∧ n < w then .error "value" else if u = false ∧ n ≠ w then .error "value"
         else rows.mapM fun r => (r.take w).mapM parseVal)) ∨
    (rows ≠ [] ∧ (¬ ∃ n, ∀ r ∈ rows, r.length = n) ∧ readTable rows w u = .error "value") := by
  cases rows with
  | nil => left; exact ⟨rfl, rfl⟩
  | cons r0 rs =>
    right
    by_cases hall : ((r0 :: rs).all fun r => r.length = r0.length) = true
    · left
      refine ⟨r0.length, by simp, ?_, ?_⟩
      · intro r hr
        have := List.all_eq_true.mp hall r hr
        simpa using this
      · unfold readTable
        simp only [hall, Bool.not_true]
        cases u <;> simp <;> rfl
    · right
      refine ⟨by simp, ?_, ?_⟩
      · rintro ⟨n, hn⟩
        apply hall
        apply List.all_eq_true.mpr
        intro r hr
        have h0 := hn r0 List.mem_cons_self
        simp [hn r hr, h0]
      · unfold readTable
        simp only [Bool.not_eq_true] at hall
        simp [hall]
        rfl

theorem readTable_perm {rows₁ rows₂ : List Line} (hp : rows₁.Perm rows₂) (w : Nat) (u : Bool) :
    (∀ t₁, readTable rows₁ w u = .ok t₁ → ∃ t₂, readTable rows₂ w u = .ok t₂ ∧ t₁.Perm t₂) ∧
    (∀ e, readTable rows₁ w u = .error e → readTable rows₂ w u = .error e) := by
  rcases readTable_cases rows₁ w u with ⟨h1, h2⟩ | ⟨n, h1, h2, h3⟩ | ⟨h1, h2, h3⟩
  · subst h1
    have := hp.symm.eq_nil
    subst this
    exact ⟨fun t h => (by rw [h2] at h; cases h), fun e h => h⟩
  · have hne : rows₂ ≠ [] := fun h => h1 (by subst h; exact hp.eq_nil)
    rcases readTable_cases rows₂ w u with ⟨k1, _⟩ | ⟨m, k1, k2, k3⟩ | ⟨k1, k2, k3⟩
    · exact absurd k1 hne
    · have hm : m = n := by
        obtain ⟨r, rs, hr⟩ := List.exists_cons_of_ne_nil hne
        have a := k2 r (by rw [hr]; exact List.mem_cons_self)
        have b := all_len_of_perm hp n h2 r (by rw [hr]; exact List.mem_cons_self)
        omega
      subst hm
      rw [h3, k3]
      by_cases c1 : u = true ∧ m < w
      · simp only [c1, and_self, if_true]
        exact ⟨fun t h => (by cases h), fun e h => h⟩
      · rw [if_neg c1, if_neg c1]
        by_cases c2 : u = false ∧ m ≠ w
        · simp only [c2, and_self, if_true, ne_eq, not_false_eq_true]
          exact ⟨fun t h => (by cases h), fun e h => h⟩
        · rw [if_neg c2, if_neg c2]
          exact mapM_perm _ "value" (fun r e h => parseRow_error w r e h) hp
    · exact absurd ⟨n, all_len_of_perm hp n h2⟩ k2
  · rcases readTable_cases rows₂ w u with ⟨k1, k2⟩ | ⟨m, k1, k2, k3⟩ | ⟨k1, k2, k3⟩
    · subst k1; exact absurd hp.eq_nil h1
    · exact absurd ⟨m, all_len_of_perm hp.symm m k2⟩ h2
    · rw [h3, k3]
      exact ⟨fun t h => (by cases h), fun e h => h⟩

/-- **table level**: with an `id` column holding distinct ids, the loaded system does not depend on the order of
    the rows. -/
theorem tableLoad_perm (s : Loaded) {rows₁ rows₂ : List Line} (cols : List PCol) (usecols : Bool) (i : Nat)
    (hp : rows₁.Perm rows₂) (hid : idIndex cols = some i)
    (hd : ∀ t, readTable rows₁ (colsWidth cols) usecols = .ok t → (t.map (rowKey i)).Nodup) :
    tableLoad s rows₁ cols usecols = tableLoad s rows₂ cols usecols := by
  unfold tableLoad
  obtain ⟨hok, herr⟩ := readTable_perm hp (colsWidth cols) usecols
  cases h1 : readTable rows₁ (colsWidth cols) usecols with
  | error e => rw [herr e h1]
  | ok t₁ =>
    obtain ⟨t₂, h2, hperm⟩ := hok t₁ h1
    rw [h2]
    simp only [bind, Except.bind, sortRows, hid]
    rw [sortBy_eq_of_perm (rowKey i) hperm (hd t₁ h1)]

end Atomman.C08
