/-
  C05 — the source tie: every definition `harness/props/c05.py: translate()` regenerates from /repo's current source
  (`Atomman/Generated/WrapSource.lean`) is proved equal to the hand-written model the property theorems are about.
  A source edit that changes what wrap / box_set / normalize or the Box pieces under them compute changes the generated
  file and breaks the obligation named after the piece.
-/
import Atomman.Generated.WrapSource
import Mathlib.Tactic.Ring
import Mathlib.Tactic.FieldSimp
import Mathlib.Algebra.Order.Field.Basic
import Mathlib.Tactic.Linarith

namespace Atomman.C05
open Atomman
open Atomman.Generated

set_option linter.unusedSectionVars false

variable {K : Type}

/-! ### signatures, defaults, refusals, truth tests -/

/-- defaults of `wrap(return_imageflags)`, `box_set(scale)`, `System.normalize(style, return_transform)`,
    `lammps.normalize(return_transform)` and the accepted style. -/
theorem gen_defaults_eq_model :
    WrapSource.wrapFlagDefault = wrapFlagDefault ∧ WrapSource.boxSetScaleDefault = boxSetScaleDefault ∧
    WrapSource.normStyleDefault = normStyleDefault ∧ WrapSource.normFlagDefault = normFlagDefault ∧
    WrapSource.lmpFlagDefault = normFlagDefault ∧ WrapSource.normStyleAccepted = normStyleAccepted ∧
    WrapSource.wrapParams = wrapParams ∧ WrapSource.normParams = normParams ∧ WrapSource.lmpParams = lmpParams :=
  ⟨rfl, rfl, rfl, rfl, rfl, rfl, rfl, rfl, rfl⟩

/-- which test each entry point applies to its flag (`if flag:` = truthiness, `isinstance(scale, bool)`, `scale is True`)
    and which exception it refuses with. -/
theorem gen_flagTests_eq_model :
    WrapSource.wrapReturnsFlags = PyVal.truthy ∧ WrapSource.lmpReturnsTransform = PyVal.truthy ∧
    WrapSource.boxSetAccepts = PyVal.isBool ∧ WrapSource.boxSetScaledBranch = PyVal.isTrue ∧
    WrapSource.boxSetRefusal = Err.typeError ∧ WrapSource.normStyleRefusal = Err.valueError :=
  ⟨rfl, rfl, rfl, rfl, rfl, rfl⟩

/-- the literals: padding `0.001` (both sides), clean-up threshold `1e-9`, initial `mins` / `maxs`, tolerance and row pairs
    of the orthogonality self-checks; the row-norm self-check uses numpy's defaults (no keywords). -/
theorem gen_literals_eq_model :
    WrapSource.padLoLit = pad001 ∧ WrapSource.padHiLit = pad001 ∧ WrapSource.tinyLit = tiny1em9 ∧
    WrapSource.minsInit = [0, 0, 0] ∧ WrapSource.maxsInit = [1, 1, 1] ∧
    WrapSource.assertOrthoAtol = orthoTol ∧ WrapSource.assertOrthoPairs = orthoPairs ∧
    WrapSource.assertNormKeywords = [] := by
  refine ⟨rfl, rfl, rfl, ?_, ?_, rfl, rfl, rfl⟩ <;> decide +kernel

/-- the driver's `transformOK` is the self-check with exactly these tolerances and row pairs. -/
theorem transformOK_eq_with (t : M3 Rat) : transformOK t = transformOKWith normTol orthoTol orthoPairs t := by
  have h1 : normTol = (1001 : Rat) / 100000000 := by decide +kernel
  have h2 : orthoTol = (1 : Rat) / 100000 := by decide +kernel
  simp only [transformOK, transformOKWith, h1, h2, orthoPairs, List.all_cons, List.all_nil, Bool.and_true, M3.row]
  simp [Bool.and_assoc]

/-- write protocol of the two `Box` setters, dispatch of `Box.set`, rows of the lattice angles, the refusal of `set_abc`,
    and the two statement pins. -/
theorem gen_protocol_eq_model :
    WrapSource.vectsSetterSteps = setVectsSteps ∧ WrapSource.originSetterSteps = setOriginSteps ∧
    WrapSource.pbcGetterSteps = pbcGetterSteps ∧ WrapSource.pbcSetterSteps = pbcSetterSteps ∧
    WrapSource.boxSetDispatch = boxSetTargets ∧ WrapSource.boxSetDispatch.map Prod.fst = boxSetDispatch ∧
    WrapSource.angleGetters = angleRows ∧ WrapSource.abcGuard = abcGuardTests ∧
    WrapSource.atomsPropPin = atomsPropPin ∧ WrapSource.vectAngleTailPin = vectAngleTailPin := by
  decide

/-- `Atoms.__deepcopy__`: the keys copied explicitly and the names the loop's filter excludes (by exact match). -/
theorem gen_deepcopyKeys_eq_model :
    WrapSource.atomsCopyExplicit = atomsCopyExplicit ∧ WrapSource.atomsCopyReserved = atomsCopyReserved := ⟨rfl, rfl⟩

/-! ### formulas -/

section formulas
variable [Add K] [Sub K] [Mul K] [Div K] [Neg K] [Zero K] [One K] [IntCast K]
  [LT K] [LE K] [DecidableLT K] [DecidableLE K]

/-- `wrap`, one direction: the model's `axisBounds` is the generated pair of `if`s applied to the running minimum /
    maximum, starting from the initial `(0, 1)`; a periodic direction keeps `(0, 1)`. -/
theorem gen_axisBounds_eq_model (pad : K) (x : K) (xs : List K) :
    axisBounds pad false (x :: xs) = (WrapSource.axisLo pad 0 (minOf x xs), WrapSource.axisHi pad 1 (maxOf x xs)) ∧
    axisBounds pad true (x :: xs) = (0, 1) := ⟨rfl, rfl⟩

theorem gen_axisFlag_eq_model (fl : K → Int) (p : Bool) (s : K) : WrapSource.axisFlag fl p s = flagOf fl p s := rfl

/-- `wrap`: the box handed to the final `box_set`. -/
theorem gen_paddedBox_eq_model (b : Box K) (bd : V3 (K × K)) :
    paddedBox b bd =
      (let mins : V3 K := ⟨bd.x.1, bd.y.1, bd.z.1⟩
       let maxs : V3 K := ⟨bd.x.2, bd.y.2, bd.z.2⟩
       ⟨⟨WrapSource.newAvect b.vects b.origin mins maxs, WrapSource.newBvect b.vects b.origin mins maxs,
         WrapSource.newCvect b.vects b.origin mins maxs⟩, WrapSource.newOrigin b.vects b.origin mins maxs⟩) := rfl

/-- `normalize`: handedness test and the reversed cell. -/
theorem gen_flip_eq_model (b : Box K) :
    WrapSource.leftHanded b.vects = decide (triple b.vects < 0) ∧
    flipC b = ⟨WrapSource.flipVects b.vects b.origin, WrapSource.flipOrigin b.vects b.origin⟩ := ⟨rfl, rfl⟩

/-- `normalize`: the returned transformation. -/
theorem gen_transform_eq_model (saved v : M3 K) :
    WrapSource.transform saved v = (M3.mul (M3.inv saved) v).transpose := rfl

/-- `Box.vects` setter: one entry of the clean-up. -/
theorem gen_cleanEntry_eq_model (tiny m x : K) : WrapSource.cleanEntry tiny m x = zeroIfSmall tiny m x := rfl

/-- `reciprocal_vects`, `position_cartesian_to_relative`, `position_relative_to_cartesian`. -/
theorem gen_coords_eq_model (b : Box K) (r : M3 K) (p : V3 K) :
    WrapSource.recipFill b.vects = b.recip ∧ WrapSource.c2r b.origin r p = relWith r b.origin p ∧
    WrapSource.r2c b.vects b.origin p = b.relToCart p := ⟨rfl, rfl, rfl⟩

/-- `Box.a`, `Box.b`, `Box.c`. -/
theorem gen_lengths_eq_model (sqrt : K → K) (v : M3 K) :
    WrapSource.lenA sqrt v = lenA sqrt v ∧ WrapSource.lenB sqrt v = lenB sqrt v ∧ WrapSource.lenC sqrt v = lenC sqrt v :=
  ⟨rfl, rfl, rfl⟩

/-- `set_lengths`: assertion and matrix. -/
theorem gen_setLengths_eq_model (lx ly lz xy xz yz : K) (o : V3 K) :
    Box.ofLengths? lx ly lz xy xz yz o =
      if WrapSource.lengthsOk lx ly lz then some ⟨WrapSource.lengthsVects lx ly lz xy xz yz, o⟩ else none := by
  unfold Box.ofLengths? WrapSource.lengthsOk WrapSource.lengthsVects
  by_cases h1 : 0 < lx <;> by_cases h2 : 0 < ly <;> by_cases h3 : 0 < lz <;> simp [h1, h2, h3, GT.gt]

/-- `set_hi_los` (reached through `box_set(xlo=…)` / `Box.set(xlo=…)`): lengths `hi − lo`, origin at the `lo` corner, tilt
    factors handed on, then `set_lengths` — the shared `Box.ofHiLos?`. -/
theorem gen_setHiLos_eq_model (xlo xhi ylo yhi zlo zhi xy xz yz : K) :
    Box.ofHiLos? xlo xhi ylo yhi zlo zhi xy xz yz =
      Box.ofLengths? (WrapSource.hiLoLx xlo xhi ylo yhi zlo zhi) (WrapSource.hiLoLy xlo xhi ylo yhi zlo zhi)
        (WrapSource.hiLoLz xlo xhi ylo yhi zlo zhi) xy xz yz (WrapSource.hiLoOrigin xlo xhi ylo yhi zlo zhi) := rfl

/-- `set_abc` of the cell's own parameters (the rebuild of `normalize`): the six LAMMPS parameters. -/
theorem gen_abc_eq_model (sqrt : K → K) (v : M3 K) :
    abcBox? sqrt v =
      (let a := lenA sqrt v; let b := lenB sqrt v; let c := lenC sqrt v
       let ca := cosAlpha sqrt v; let cb := cosBeta sqrt v; let cg := cosGamma sqrt v
       Box.ofLengths? (WrapSource.abcLx sqrt a b c ca cb cg) (WrapSource.abcLy sqrt a b c ca cb cg)
         (WrapSource.abcLz sqrt a b c ca cb cg) (WrapSource.abcXy sqrt a b c ca cb cg)
         (WrapSource.abcXz sqrt a b c ca cb cg) (WrapSource.abcYz sqrt a b c ca cb cg) ⟨0, 0, 0⟩) := rfl

end formulas

/-- the cosines `vect_angle` forms for `alpha`, `beta`, `gamma` (unit vectors first, then their dot product) are the
    model's `dot / (|u| |v|)`, in every field and for every `sqrt`. -/
theorem gen_vectAngleCos_eq_model [Field K] (sqrt : K → K) (v : M3 K) :
    WrapSource.vectAngleCos sqrt v.r1 v.r2 = cosAlpha sqrt v ∧ WrapSource.vectAngleCos sqrt v.r0 v.r2 = cosBeta sqrt v ∧
    WrapSource.vectAngleCos sqrt v.r0 v.r1 = cosGamma sqrt v := by
  refine ⟨?_, ?_, ?_⟩ <;>
    simp only [WrapSource.vectAngleCos, cosAlpha, cosBeta, cosGamma, lenA, lenB, lenC, vdiv, V3.dot, div_mul_div_comm,
      add_div]

/-! ### the refusal of `set_abc` in terms of cosines -/

section guard
variable [Field K] [LinearOrder K] [IsStrictOrderedRing K]

/-- what is assumed of `180 * arccos(x) / pi`: strictly decreasing on [-1, 1], 0 at 1, 180 at -1. -/
structure ArccosDeg (acos : K → K) : Prop where
  anti : ∀ x y : K, -1 ≤ x → x < y → y ≤ 1 → acos y < acos x
  at_one : acos 1 = 0
  at_neg_one : acos (-1) = 180

/-- one angle: `vect_angle` (clamp, then `acos`) gives an angle `≤ 0` or `≥ 180` exactly when the cosine it formed is not
    strictly between -1 and 1. -/
theorem angle_rejected_iff (acos : K → K) (h : ArccosDeg acos) (c : K) :
    (acos (clampCos c) ≤ 0 ∨ acos (clampCos c) ≥ 180) ↔ ¬ (-1 < c ∧ c < 1) := by
  unfold clampCos
  by_cases h1 : c < -1
  · simp only [h1, if_true, h.at_neg_one]
    constructor
    · intro _ hc; linarith [hc.1]
    · intro _; right; exact le_refl _
  · simp only [h1, if_false]
    by_cases h2 : 1 < c
    · simp only [h2, if_true, h.at_one]
      constructor
      · intro _ hc; linarith [hc.2]
      · intro _; left; exact le_refl _
    · simp only [h2, if_false]
      have hc1 : -1 ≤ c := not_lt.mp h1
      have hc2 : c ≤ 1 := not_lt.mp h2
      constructor
      · rintro (hle | hge) ⟨ha, hb⟩
        · have := h.anti c 1 hc1 hb le_rfl
          rw [h.at_one] at this
          exact absurd hle (not_le.mpr this)
        · have := h.anti (-1) c le_rfl ha hc2
          rw [h.at_neg_one] at this
          exact absurd hge (not_le.mpr this)
      · intro hn
        by_cases ha : -1 < c
        · have hb : c = 1 := le_antisymm hc2 (not_lt.mp (fun hb => hn ⟨ha, hb⟩))
          left; rw [hb, h.at_one]
        · have hb : c = -1 := le_antisymm (not_lt.mp ha) hc1
          right; rw [hb, h.at_neg_one]

/-- **gen_abcGuard_eq_angleGuard**: the refusal at the head of `set_abc` as regenerated from the source, applied to the
    angles `vect_angle` returns (clamped cosine through ANY function with the three properties of `180·arccos/π`), is the
    negation of the model's test on the cosines; with `angleGuard` = that test on `cosAlpha`, `cosBeta`, `cosGamma`. -/
theorem gen_abcGuard_eq_angleGuard (acos : K → K) (h : ArccosDeg acos) (ca cb cg : K) :
    WrapSource.anglesRejected (acos (clampCos ca)) (acos (clampCos cb)) (acos (clampCos cg))
      = !(cosStrict ca && cosStrict cb && cosStrict cg) := by
  have ha := angle_rejected_iff acos h ca
  have hb := angle_rejected_iff acos h cb
  have hg := angle_rejected_iff acos h cg
  have e1 : ∀ A B G : K, WrapSource.anglesRejected A B G = true ↔
      ((A ≤ 0 ∨ A ≥ 180) ∨ (B ≤ 0 ∨ B ≥ 180) ∨ (G ≤ 0 ∨ G ≥ 180)) := by
    intro A B G
    simp only [WrapSource.anglesRejected, Bool.or_eq_true, decide_eq_true_eq, or_assoc]
  have e2 : ∀ c : K, cosStrict c = true ↔ (-1 < c ∧ c < 1) := by
    intro c; simp only [cosStrict, Bool.and_eq_true, decide_eq_true_eq]
  have e3 : (!(cosStrict ca && cosStrict cb && cosStrict cg)) = true ↔
      ¬ ((-1 < ca ∧ ca < 1) ∧ (-1 < cb ∧ cb < 1) ∧ (-1 < cg ∧ cg < 1)) := by
    rw [← e2 ca, ← e2 cb, ← e2 cg]
    cases cosStrict ca <;> cases cosStrict cb <;> cases cosStrict cg <;> simp
  rw [Bool.eq_iff_iff, e1, ha, hb, hg, e3]
  simp only [not_and_or, or_assoc]

end guard

/-! ### the bodies -/

section bodies
variable [Add K] [Sub K] [Mul K] [Div K] [Neg K] [Zero K] [One K] [IntCast K]
  [LT K] [LE K] [DecidableLT K] [DecidableLE K]

theorem zipWith_map_self {α β γ : Type} (f : α → β → γ) (g : α → β) (l : List α) :
    List.zipWith f l (l.map g) = l.map (fun x => f x (g x)) := by
  induction l with
  | nil => rfl
  | cons a l ih => simp [ih]

/-- `System.box_set`: default of `scale`, the `isinstance` refusal, the `is True` branch, and in each branch the statements
    in the order of the source — running them is the model's `boxSetApi`. -/
theorem gen_boxSetBody_eq_model (P : Params K) (c : CSys K) (scale : Option PyVal) (v : M3 K) (o : V3 K) :
    (let sc := scale.getD WrapSource.boxSetScaleDefault
     if WrapSource.boxSetAccepts sc then
       Except.ok (runStmts P (St.init c ⟨v, o⟩)
         (if WrapSource.boxSetScaledBranch sc then WrapSource.boxSetScaledBody else WrapSource.boxSetPlainBody)).c
     else Except.error WrapSource.boxSetRefusal) = c.boxSetApi P.tiny scale v o := by
  rcases scale with _ | (_ | b | n | s | b | b)
  · rfl
  · rfl
  · cases b <;> rfl
  · rfl
  · rfl
  · rfl
  · rfl

/-- `System.wrap`: the statements in the order of the source — running them is the model's `wrapC` (image flags and new
    object). -/
theorem gen_wrapBody_eq_model (P : Params K) (c : CSys K) (nb : Box K) :
    (let s := runStmts P (St.init c nb) WrapSource.wrapBody; (s.flags, s.c)) = c.wrapC P := by
  simp only [runStmts, WrapSource.wrapBody, List.foldl, exec, St.init, CSys.wrapC, zipWith_map_self]

/-- `System.wrap(<flag>)` as a whole. -/
theorem gen_wrapApi_eq_model (P : Params K) (c : CSys K) (flag : Option PyVal) (nb : Box K) :
    (let s := runStmts P (St.init c nb) WrapSource.wrapBody
     (if WrapSource.wrapReturnsFlags (flag.getD WrapSource.wrapFlagDefault) then some s.flags else none, s.c))
      = c.wrapApi P flag := by
  have h := gen_wrapBody_eq_model P c nb
  simp only [CSys.wrapApi, ← h]
  rfl

/-- `atomman.lammps.normalize`: the statements in the order of the source — running them is the model's `normalizeC`. -/
theorem gen_normalizeBody_eq_model (P : Params K) (c : CSys K) (nb : Box K) :
    (runStmts P (St.init c nb) WrapSource.normalizeBody).normalized = c.normalizeC P := by
  simp only [runStmts, WrapSource.normalizeBody, List.foldl, exec, St.init, CSys.normalizeC, St.normalized]
  split <;> (split <;> simp_all)

end bodies

end Atomman.C05
