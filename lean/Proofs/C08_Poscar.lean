/-
  C08 — load ∘ dump for POSCAR files: the lines the C07 writer lays out, read by the loader.
-/
import Proofs.C08_Dump
namespace Atomman.C08
open Atomman Atomman.C07
set_option linter.unusedSimpArgs false


/-! ### POSCAR: the lines the writer lays out, read by the loader -/

theorem splitLines_single (l : List Char) (hne : l ≠ []) (h : ∀ c ∈ l, c ≠ '\n') : splitLines l = [l] := by
  induction l with
  | nil => exact absurd rfl hne
  | cons c cs ih =>
    have hc : c ≠ '\n' := h c List.mem_cons_self
    rw [splitLines]
    simp only [hc, if_false]
    cases cs with
    | nil => simp [splitLines]
    | cons d ds =>
      rw [ih (by simp) (fun x hx => h x (List.mem_cons_of_mem _ hx))]

/-- the physical lines of a `'\n'.join`ed document whose last line is not empty. -/
theorem splitLines_renderJoin (doc : Doc) (h : ∀ l ∈ doc, ∀ t ∈ l, ∀ c ∈ t, c ≠ '\n')
    (hlast : ∀ l, doc.getLast? = some l → joinSp l ≠ []) : splitLines (renderJoin doc) = doc.map joinSp := by
  induction doc with
  | nil => rfl
  | cons l ls ih =>
    cases ls with
    | nil =>
      simp only [renderJoin, List.map_cons, List.map_nil]
      exact splitLines_single _ (hlast l rfl) (joinSp_no_newline l (h l List.mem_cons_self))
    | cons l2 ls2 =>
      simp only [renderJoin, List.map_cons]
      rw [splitLines_line _ _ (joinSp_no_newline l (h l List.mem_cons_self))]
      have := ih (fun x hx => h x (List.mem_cons_of_mem _ hx)) (by
        intro x hx; apply hlast; simpa [List.getLast?_cons_cons] using hx)
      simp only [List.map_cons] at this
      rw [this]

/-- a counts line: the numbers followed by the empty token the writer appends (`'%i ' % count`). -/
theorem lexLine_trailing_space (toks : Line) (h : ∀ t ∈ toks, CleanTok t) : lexLine (joinSp (toks ++ [[]])) = toks := by
  induction toks with
  | nil => rfl
  | cons t ts ih =>
    have ht := h t List.mem_cons_self
    cases ts with
    | nil =>
      simp only [List.cons_append, List.nil_append, joinSp, List.append_nil]
      have := lexLine_clean_append t [' '] ht (Or.inr ⟨[], rfl⟩)
      rw [this, lexLine_space]
      rfl
    | cons t2 ts2 =>
      have h2 := ih (fun x hx => h x (List.mem_cons_of_mem _ hx))
      simp only [List.cons_append, joinSp] at h2 ⊢
      rw [lexLine_clean_append t _ ht (Or.inr ⟨_, rfl⟩), lexLine_space, h2]

theorem vec3Line_v3line {f : Fmt} (hf : Readable f) (v : V3 ℚ) :
    vec3Line (joinSp (v3line f v)) = .ok ⟨fmtVal f v.x, fmtVal f v.y, fmtVal f v.z⟩ := by
  unfold vec3Line v3line
  rw [lexLine_joinSp _ (by
    intro t ht
    simp only [List.mem_cons, List.not_mem_nil, or_false] at ht
    rcases ht with rfl | rfl | rfl <;> exact hf.clean _)]
  simp [pyFloat_fmt hf, bind, Except.bind, pure, Except.pure]

theorem coordLine_v3line {f : Fmt} (hf : Readable f) (v : V3 ℚ) :
    coordLine (joinSp (v3line f v)) = .ok ⟨fmtVal f v.x, fmtVal f v.y, fmtVal f v.z⟩ := by
  unfold coordLine v3line
  rw [lexLine_joinSp _ (by
    intro t ht
    simp only [List.mem_cons, List.not_mem_nil, or_false] at ht
    rcases ht with rfl | rfl | rfl <;> exact hf.clean _)]
  simp [pyFloat_fmt hf, bind, Except.bind, pure, Except.pure]

/-- the printed value of a vector. -/
def fmtV3 (f : Fmt) (v : V3 ℚ) : V3 ℚ := ⟨fmtVal f v.x, fmtVal f v.y, fmtVal f v.z⟩

theorem mapM_coordLine {f : Fmt} (hf : Readable f) (coords : List (V3 ℚ)) :
    ((coords.map (v3line f)).map joinSp).mapM coordLine = .ok (coords.map (fmtV3 f)) := by
  induction coords with
  | nil => rfl
  | cons v vs ih =>
    simp only [List.map_cons, List.mapM_cons, coordLine_v3line hf, ih]
    rfl

theorem parseInt_natTok (m : Nat) : parseInt? (natTok m) = some (m : Int) := by
  have := pyInt_natTok m
  unfold pyInt at this
  cases h : parseInt? (natTok m) with
  | none => rw [h] at this; cases this
  | some i => rw [h] at this; injection this with this; rw [this]

theorem mapM_parseInt_natToks (counts : List Nat) :
    (counts.map natTok).mapM parseInt? = some (counts.map fun (c : Nat) => (c : Int)) := by
  induction counts with
  | nil => rfl
  | cons c cs ih => simp [List.mapM_cons, parseInt_natTok, ih]



/-- what the POSCAR loader returns for a file with the given printed numbers. -/
def poscarLoaded (f : Fmt) (scale : ℚ) (lat : M3 ℚ) (counts : List Nat) (coords : List (V3 ℚ)) (cart : Bool)
    (symbols : List (Option String)) : Loaded :=
  let sc := fmtVal f scale
  let box : Box ℚ := ⟨⟨V3.smul sc (fmtV3 f lat.r0), V3.smul sc (fmtV3 f lat.r1), V3.smul sc (fmtV3 f lat.r2)⟩, ⟨0, 0, 0⟩⟩
  let pos := (coords.map (fmtV3 f)).map fun v => if cart then V3.smul sc v else box.relToCart v
  { (Loaded.init box ⟨true, true, true⟩ (counts.foldr (· + ·) 0) symbols []) with
    props := [{ name := "atype", shape := [], isInt := true, vals := (atypeOfCounts counts).map fun (t : Int) => [(t : ℚ)] },
              { name := "pos", shape := [3], isInt := false, vals := pos.map fun p => [p.x, p.y, p.z] }] }

theorem countsOf_natToks (counts : List Nat) : countsOf (counts.map natTok) = some counts := by
  unfold countsOf
  rw [mapM_parseInt_natToks]
  simp only [Option.bind_some, List.all_map]
  have : (counts.all ((fun x => decide (0 ≤ x)) ∘ fun (c : Nat) => (c : Int))) = true := by
    apply List.all_eq_true.mpr
    intro c _
    simp
  have hid : (Int.toNat ∘ fun (c : Nat) => (c : Int)) = id := by funext c; simp
  simp [this, hid]

theorem isCartesianLine_strTok (w : String) :
    isCartesianLine (joinSp [strTok w]) =
      (match w.toList with | c :: _ => c = 'c' || c = 'C' || c = 'k' || c = 'K' | [] => false) := by
  unfold isCartesianLine joinSp strTok
  cases w.toList <;> rfl

/-- the loader on the lines of a POSCAR file without a symbols line. -/
theorem loadPoscarLines_nosym {f : Fmt} (hf : Readable f) (l0 : RawLine) (scale : ℚ) (lat : M3 ℚ) (counts : List Nat)
    (style : String) (coords : List (V3 ℚ)) (hlen : coords.length = counts.foldr (· + ·) 0)
    (symbols : Option (List (Option String))) :
    loadPoscarLines ([l0, joinSp [fmtNum f scale], joinSp (v3line f lat.r0), joinSp (v3line f lat.r1),
        joinSp (v3line f lat.r2), joinSp (counts.map natTok ++ [[]]), joinSp [strTok style]] ++
        (coords.map (v3line f)).map joinSp) symbols =
      .ok (poscarLoaded f scale lat counts coords (isCartesianLine (joinSp [strTok style]))
        (symbols.getD (counts.map fun _ => none))) := by
  unfold loadPoscarLines
  have hsc : lexLine (joinSp [fmtNum f scale]) = [fmtNum f scale] :=
    lexLine_joinSp _ (by intro t ht; simp at ht; subst ht; exact hf.clean _)
  have hcl : lexLine (joinSp (counts.map natTok ++ [[]])) = counts.map natTok :=
    lexLine_trailing_space _ (by
      intro t ht; simp only [List.mem_map] at ht; obtain ⟨c, _, rfl⟩ := ht; exact cleanTok_natTok c)
  simp only [nthLine, List.cons_append, List.nil_append, List.getElem?_cons_zero, List.getElem?_cons_succ, bind,
    Except.bind, pure, Except.pure, hsc, pyFloat_fmt hf, vec3Line_v3line hf, hcl, mapM_parseInt_natToks]
  have hall : ((counts.map fun (c : Nat) => (c : Int)).all fun x => decide (0 ≤ x)) = true := by
    apply List.all_eq_true.mpr
    intro x hx
    simp only [List.mem_map] at hx
    obtain ⟨c, _, rfl⟩ := hx
    simp
  simp only [hall, if_true, List.drop_succ_cons, List.drop_zero]
  have hmap : List.map Int.toNat (List.map (fun (c : Nat) => (c : Int)) counts) = counts := by
    rw [List.map_map]
    have : (Int.toNat ∘ fun (c : Nat) => (c : Int)) = id := by funext c; simp
    rw [this, List.map_id]
  rw [hmap]
  have htake : (List.map joinSp (List.map (v3line f) coords)).take (counts.foldr (· + ·) 0) =
      List.map joinSp (List.map (v3line f) coords) := by
    apply List.take_of_length_le
    simp [hlen]
  rw [htake]
  simp only [List.length_map, hlen, ne_eq, not_true_eq_false, if_false, mapM_coordLine hf]
  unfold poscarLoaded
  simp only [List.map_map, Function.comp]
  rfl


/-- the loader on the lines of a POSCAR file with a symbols line (which must not consist of integers only). -/
theorem loadPoscarLines_sym {f : Fmt} (hf : Readable f) (l0 : RawLine) (scale : ℚ) (lat : M3 ℚ) (syms : List String)
    (counts : List Nat) (style : String) (coords : List (V3 ℚ)) (hlen : coords.length = counts.foldr (· + ·) 0)
    (hsyms : ∀ w ∈ syms, CleanTok (strTok w)) (hnotint : (syms.map strTok).mapM parseInt? = none)
    (symbols : Option (List (Option String))) :
    loadPoscarLines ([l0, joinSp [fmtNum f scale], joinSp (v3line f lat.r0), joinSp (v3line f lat.r1),
        joinSp (v3line f lat.r2), joinSp (syms.map strTok), joinSp (counts.map natTok ++ [[]]), joinSp [strTok style]] ++
        (coords.map (v3line f)).map joinSp) symbols =
      .ok (poscarLoaded f scale lat counts coords (isCartesianLine (joinSp [strTok style]))
        (symbols.getD (syms.map some))) := by
  unfold loadPoscarLines
  have hsc : lexLine (joinSp [fmtNum f scale]) = [fmtNum f scale] :=
    lexLine_joinSp _ (by intro t ht; simp at ht; subst ht; exact hf.clean _)
  have hcl : lexLine (joinSp (counts.map natTok ++ [[]])) = counts.map natTok :=
    lexLine_trailing_space _ (by
      intro t ht; simp only [List.mem_map] at ht; obtain ⟨c, _, rfl⟩ := ht; exact cleanTok_natTok c)
  have hsy : lexLine (joinSp (syms.map strTok)) = syms.map strTok :=
    lexLine_joinSp _ (by intro t ht; simp only [List.mem_map] at ht; obtain ⟨w, hw, rfl⟩ := ht; exact hsyms w hw)
  simp only [nthLine, List.cons_append, List.nil_append, List.getElem?_cons_zero, List.getElem?_cons_succ, bind,
    Except.bind, pure, Except.pure, hsc, pyFloat_fmt hf, vec3Line_v3line hf, hcl, hsy, hnotint, countsOf_natToks]
  simp only [List.drop_succ_cons, List.drop_zero]
  have htake : (List.map joinSp (List.map (v3line f) coords)).take (counts.foldr (· + ·) 0) =
      List.map joinSp (List.map (v3line f) coords) := by
    apply List.take_of_length_le
    simp [hlen]
  rw [htake]
  simp only [List.length_map, hlen, ne_eq, not_true_eq_false, if_false, mapM_coordLine hf]
  unfold poscarLoaded
  have hstr : List.map (fun t => some (String.ofList t)) (List.map strTok syms) = syms.map some := by
    rw [List.map_map]
    apply List.map_congr_left
    intro w _
    simp [strTok, Function.comp]
  simp only [hstr, List.map_map, Function.comp]
  rfl


/-- Cartesian mode as the writer decides it from `coordstyle`. -/
def isCartStyle (coordstyle : String) : Bool :=
  match coordstyle.toList with
  | c :: _ => c = 'c' || c = 'C' || c = 'k' || c = 'K'
  | [] => false

/-- `C07.writePoscarDoc` with the Cartesian decision named. -/
def writePoscarDoc' (s : Sys) (header : List String) (symbols : Option (List String)) (coordstyle : String)
    (scale : ℚ) (f : Fmt) : Res Doc := do
  if scale ≤ 0 then throw "value"
  if s.natoms = 0 then throw "value"
  if coordstyle.toList = [] then throw "value"
  let p := poscarNums s (isCartStyle coordstyle) scale
  let sym : Doc ← match symbols with
    | some l => if l.length ≠ s.natypes then throw "value" else pure [l.map strTok]
    | none => pure []
  pure ([header.map strTok, [fmtNum f scale], v3line f p.lattice.r0, v3line f p.lattice.r1, v3line f p.lattice.r2]
    ++ sym ++ [p.counts.map natTok ++ [[]], [strTok coordstyle]] ++ p.coords.map (v3line f))

theorem writePoscarDoc_eq (s : Sys) (header : List String) (symbols : Option (List String)) (coordstyle : String)
    (scale : ℚ) (f : Fmt) :
    writePoscarDoc s header symbols coordstyle scale f = writePoscarDoc' s header symbols coordstyle scale f := by
  unfold writePoscarDoc writePoscarDoc' isCartStyle
  rfl

/-- the symbols a written POSCAR file carries: those of its symbols line, or none per counted type. -/
def writtenSymbols (symbols : Option (List String)) (counts : List Nat) : List (Option String) :=
  match symbols with
  | some l => l.map some
  | none => counts.map fun _ => none

/-- **load ∘ dump for POSCAR**: for every POSCAR file the C07 writer emits, the loader returns the cell
    `scale × printed lattice rows` (origin 0), the atom types `1, 2, …` repeated by the printed counts, the symbols of
    the symbols line (or the caller's), and the positions `scale × printed row` (Cartesian) or
    `printed row · cell` (Direct) — `poscarLoaded`. -/
theorem loadPoscar_writePoscar {f : Fmt} (hf : Readable f) (s : Sys) (header : List String)
    (symbols : Option (List String)) (coordstyle : String) (scale : ℚ) (text : List Char)
    (hw : writePoscar s header symbols coordstyle scale f = .ok text)
    (hh : ∀ w ∈ header, ∀ c ∈ strTok w, c ≠ '\n')
    (hsy : ∀ l, symbols = some l → (∀ w ∈ l, CleanTok (strTok w)) ∧ (l.map strTok).mapM parseInt? = none)
    (hcs : CleanTok (strTok coordstyle))
    (hlen : (poscarNums s (isCartStyle coordstyle) scale).coords.length =
      (poscarNums s (isCartStyle coordstyle) scale).counts.foldr (· + ·) 0)
    (hne : (poscarNums s (isCartStyle coordstyle) scale).coords ≠ [])
    (symArg : Option (List (Option String))) :
    loadPoscar text symArg =
      .ok (poscarLoaded f scale (poscarNums s (isCartStyle coordstyle) scale).lattice
        (poscarNums s (isCartStyle coordstyle) scale).counts (poscarNums s (isCartStyle coordstyle) scale).coords
        (isCartStyle coordstyle)
        (symArg.getD (writtenSymbols symbols (poscarNums s (isCartStyle coordstyle) scale).counts))) := by
  unfold writePoscar at hw
  rw [writePoscarDoc_eq] at hw
  unfold writePoscarDoc' at hw
  by_cases h0 : scale ≤ 0
  · simp [h0, bind, Except.bind, throw, throwThe, MonadExceptOf.throw, Except.map] at hw
  by_cases h1 : s.natoms = 0
  · simp [h0, h1, bind, Except.bind, throw, throwThe, MonadExceptOf.throw, Except.map] at hw
  by_cases h2 : coordstyle.toList = []
  · simp [h0, h1, h2, bind, Except.bind, throw, throwThe, MonadExceptOf.throw, Except.map, pure, Except.pure] at hw
  simp only [h0, h1, h2, if_false, bind, Except.bind, pure, Except.pure] at hw
  set p := poscarNums s (isCartStyle coordstyle) scale with hp
  have hnumnl : ∀ q, ∀ c ∈ fmtNum f q, c ≠ '\n' := fun q c hc => ((hf.clean q).2 c hc).2
  have hv3nl : ∀ v : V3 ℚ, ∀ t ∈ v3line f v, ∀ c ∈ t, c ≠ '\n' := by
    intro v t ht
    simp only [v3line, List.mem_cons, List.not_mem_nil, or_false] at ht
    rcases ht with rfl | rfl | rfl <;> exact hnumnl _
  have hcountnl : ∀ t ∈ p.counts.map natTok ++ [[]], ∀ c ∈ t, c ≠ '\n' := by
    intro t ht c hc
    rcases List.mem_append.mp ht with h | h
    · simp only [List.mem_map] at h
      obtain ⟨m, _, rfl⟩ := h
      exact ((cleanTok_natTok m).2 c hc).2
    · simp at h; subst h; cases hc
  have hlastne : ∀ l, (p.coords.map (v3line f)).getLast? = some l → joinSp l ≠ [] := by
    intro l hl
    have hm := List.mem_of_getLast? hl
    simp only [List.mem_map] at hm
    obtain ⟨v, _, rfl⟩ := hm
    have := (hf.clean v.x).1
    simp only [v3line, joinSp]
    intro h
    exact this (List.append_eq_nil_iff.mp h).1
  have hiscart : isCartesianLine (joinSp [strTok coordstyle]) = isCartStyle coordstyle := isCartesianLine_strTok _
  cases symbols with
  | none =>
    simp only [Except.map, Except.ok.injEq] at hw
    subst hw
    unfold loadPoscar
    rw [splitLines_renderJoin]
    · simp only [List.map_cons, List.map_append, List.map_nil, List.nil_append, List.cons_append]
      have := loadPoscarLines_nosym hf (joinSp (header.map strTok)) scale p.lattice p.counts coordstyle p.coords hlen symArg
      simp only [List.cons_append, List.nil_append] at this
      rw [this, hiscart]
      rfl
    · intro l hl t ht
      simp only [List.cons_append, List.nil_append, List.mem_cons, List.mem_append, List.mem_map] at hl
      rcases hl with rfl | rfl | rfl | rfl | rfl | rfl | rfl | ⟨v, _, rfl⟩
      · simp only [List.mem_map] at ht; obtain ⟨w, hw', rfl⟩ := ht; exact hh w hw'
      · simp at ht; subst ht; exact hnumnl _
      · exact hv3nl _ t ht
      · exact hv3nl _ t ht
      · exact hv3nl _ t ht
      · exact hcountnl t ht
      · simp at ht; subst ht; exact fun c hc => (hcs.2 c hc).2
      · exact hv3nl _ t ht
    · intro l hl
      apply hlastne l
      have hcne : p.coords.map (v3line f) ≠ [] := by simpa using hne
      rw [List.getLast?_append_of_ne_nil _ hcne] at hl
      exact hl
  | some l =>
    obtain ⟨hs1, hs2⟩ := hsy l rfl
    simp only [] at hw
    by_cases hl : l.length ≠ s.natypes
    · simp [hl, Except.map, throw, throwThe, MonadExceptOf.throw] at hw
    · simp only [hl, if_false, Except.map, Except.ok.injEq] at hw
      subst hw
      unfold loadPoscar
      rw [splitLines_renderJoin]
      · simp only [List.map_cons, List.map_append, List.map_nil, List.nil_append, List.cons_append]
        have := loadPoscarLines_sym hf (joinSp (header.map strTok)) scale p.lattice l p.counts coordstyle p.coords hlen
          hs1 hs2 symArg
        simp only [List.cons_append, List.nil_append] at this
        rw [this, hiscart]
        rfl
      · intro l' hl' t ht
        simp only [List.cons_append, List.nil_append, List.mem_cons, List.mem_append, List.mem_map] at hl'
        rcases hl' with rfl | rfl | rfl | rfl | rfl | rfl | rfl | rfl | ⟨v, _, rfl⟩
        · simp only [List.mem_map] at ht; obtain ⟨w, hw', rfl⟩ := ht; exact hh w hw'
        · simp at ht; subst ht; exact hnumnl _
        · exact hv3nl _ t ht
        · exact hv3nl _ t ht
        · exact hv3nl _ t ht
        · simp only [List.mem_map] at ht; obtain ⟨w, hw', rfl⟩ := ht; exact fun c hc => ((hs1 w hw').2 c hc).2
        · exact hcountnl t ht
        · simp at ht; subst ht; exact fun c hc => (hcs.2 c hc).2
        · exact hv3nl _ t ht
      · intro l' hl'
        apply hlastne l'
        have hcne : p.coords.map (v3line f) ≠ [] := by simpa using hne
        rw [List.getLast?_append_of_ne_nil _ hcne] at hl'
        exact hl'

end Atomman.C08
