/-
  C05 helper lemmas: componentwise forms, inverse cancellation for a non-singular cell, floor,
  running min/max, and the little 3x3 matrix algebra needed for the rotation theorem.
  (Deliberately independent of Proofs/C01_Lemmas.lean.)
-/
import Atomman.C05
import Mathlib.Tactic.Ring
import Mathlib.Tactic.FieldSimp
import Mathlib.Tactic.Linarith
import Mathlib.Tactic.LinearCombination
import Mathlib.Tactic.Positivity
import Mathlib.Algebra.Order.Field.Basic
import Mathlib.Algebra.Order.Ring.Cast

namespace Atomman.C05
open Atomman
set_option linter.unusedSimpArgs false
set_option linter.unusedSectionVars false
set_option linter.unusedVariables false

/-! ### componentwise forms -/
section comp
variable {K : Type}

theorem V3.add_def [Add K] (a b : V3 K) : a + b = ⟨a.x + b.x, a.y + b.y, a.z + b.z⟩ := rfl
theorem V3.sub_def [Sub K] (a b : V3 K) : a - b = ⟨a.x - b.x, a.y - b.y, a.z - b.z⟩ := rfl
theorem V3.neg_def [Neg K] (a : V3 K) : -a = ⟨-a.x, -a.y, -a.z⟩ := rfl

end comp

/-! ### inverse cancellation for a non-singular cell -/
section field
variable {K : Type} [Field K]

theorem cartToRel_relToCart (b : Box K) (h : M3.det b.vects ≠ 0) (s : V3 K) :
    b.cartToRel (b.relToCart s) = s := by
  obtain ⟨⟨⟨a0, a1, a2⟩, ⟨b0, b1, b2⟩, ⟨c0, c1, c2⟩⟩, ⟨o0, o1, o2⟩⟩ := b
  obtain ⟨x, y, z⟩ := s
  simp only [M3.det, V3.dot, V3.cross] at h
  simp only [Box.cartToRel, Box.relToCart, Box.recip, M3.inv, M3.transpose, M3.mulVec, M3.vecMul, M3.det,
    V3.dot, V3.cross, V3.add_def, V3.sub_def, V3.mk.injEq]
  generalize hd : a0 * (b1 * c2 - b2 * c1) + a1 * (b2 * c0 - b0 * c2) + a2 * (b0 * c1 - b1 * c0) = d at h ⊢
  refine ⟨?_, ?_, ?_⟩ <;> field_simp <;> rw [← hd] <;> ring

theorem relToCart_cartToRel (b : Box K) (h : M3.det b.vects ≠ 0) (p : V3 K) :
    b.relToCart (b.cartToRel p) = p := by
  obtain ⟨⟨⟨a0, a1, a2⟩, ⟨b0, b1, b2⟩, ⟨c0, c1, c2⟩⟩, ⟨o0, o1, o2⟩⟩ := b
  obtain ⟨x, y, z⟩ := p
  simp only [M3.det, V3.dot, V3.cross] at h
  simp only [Box.cartToRel, Box.relToCart, Box.recip, M3.inv, M3.transpose, M3.mulVec, M3.vecMul, M3.det,
    V3.dot, V3.cross, V3.add_def, V3.sub_def, V3.mk.injEq]
  generalize hd : a0 * (b1 * c2 - b2 * c1) + a1 * (b2 * c0 - b0 * c2) + a2 * (b0 * c1 - b1 * c0) = d at h ⊢
  refine ⟨?_, ?_, ?_⟩ <;> field_simp <;> rw [← hd] <;> ring

/-- two relative descriptions of the same Cartesian point coincide. -/
theorem relToCart_inj (b : Box K) (h : M3.det b.vects ≠ 0) (s t : V3 K)
    (e : b.relToCart s = b.relToCart t) : s = t := by
  rw [← cartToRel_relToCart b h s, ← cartToRel_relToCart b h t, e]

/-- determinant of the padded cell. -/
theorem det_paddedBox (b : Box K) (bd : V3 (K × K)) :
    M3.det (paddedBox b bd).vects
      = (bd.x.2 - bd.x.1) * (bd.y.2 - bd.y.1) * (bd.z.2 - bd.z.1) * M3.det b.vects := by
  simp only [paddedBox, M3.det, V3.dot, V3.cross, V3.smul]
  ring

/-- the padded box describes the point with old relative coordinates `s` by `(s - mins)/(maxs - mins)`. -/
theorem relToCart_paddedBox (b : Box K) (bd : V3 (K × K)) (s : V3 K)
    (hx : bd.x.2 - bd.x.1 ≠ 0) (hy : bd.y.2 - bd.y.1 ≠ 0) (hz : bd.z.2 - bd.z.1 ≠ 0) :
    (paddedBox b bd).relToCart
        ⟨(s.x - bd.x.1) / (bd.x.2 - bd.x.1), (s.y - bd.y.1) / (bd.y.2 - bd.y.1),
         (s.z - bd.z.1) / (bd.z.2 - bd.z.1)⟩
      = b.relToCart s := by
  obtain ⟨⟨⟨a0, a1, a2⟩, ⟨b0, b1, b2⟩, ⟨c0, c1, c2⟩⟩, ⟨o0, o1, o2⟩⟩ := b
  obtain ⟨x, y, z⟩ := s
  obtain ⟨⟨x1, x2⟩, ⟨y1, y2⟩, ⟨z1, z2⟩⟩ := bd
  simp only [paddedBox, Box.relToCart, M3.vecMul, V3.smul, V3.add_def, V3.mk.injEq] at *
  refine ⟨?_, ?_, ?_⟩ <;> field_simp <;> ring

end field

/-! ### floor -/
section floor
variable {K : Type} [Field K] [LinearOrder K] [IsStrictOrderedRing K]

/-- what is assumed of `numpy.floor` + cast: `fl s ≤ s < fl s + 1`. -/
def IsFloor (fl : K → Int) : Prop := ∀ s : K, ((fl s : Int) : K) ≤ s ∧ s < ((fl s : Int) : K) + 1

theorem IsFloor.eq_zero {fl : K → Int} (h : IsFloor fl) {t : K} (h0 : 0 ≤ t) (h1 : t < 1) : fl t = 0 := by
  obtain ⟨ha, hb⟩ := h t
  have h2 : ((fl t : Int) : K) < ((1 : Int) : K) := by
    rw [Int.cast_one]; exact lt_of_le_of_lt ha h1
  have h3 : (((-1 : Int)) : K) < ((fl t : Int) : K) := by
    rw [Int.cast_neg, Int.cast_one]; linarith
  have h4 : fl t < 1 := Int.cast_lt.mp h2
  have h5 : -1 < fl t := Int.cast_lt.mp h3
  omega

end floor

/-! ### running minimum / maximum -/
section minmax
variable {K : Type} [LinearOrder K]

theorem minOf_le_init (init : K) (l : List K) : minOf init l ≤ init := by
  induction l generalizing init with
  | nil => exact le_refl _
  | cons a t ih =>
    simp only [minOf, List.foldl_cons] at ih ⊢
    split
    · exact le_trans (ih a) (le_of_lt ‹_›)
    · exact ih init

theorem minOf_le_mem (init : K) (l : List K) : ∀ x ∈ l, minOf init l ≤ x := by
  induction l generalizing init with
  | nil => intro x hx; cases hx
  | cons a t ih =>
    intro x hx
    simp only [minOf, List.foldl_cons] at ih ⊢
    rcases List.mem_cons.mp hx with rfl | hx
    · split
      · exact minOf_le_init _ t
      · exact le_trans (minOf_le_init _ t) (not_lt.mp ‹_›)
    · exact ih _ x hx

theorem maxOf_ge_init (init : K) (l : List K) : init ≤ maxOf init l := by
  induction l generalizing init with
  | nil => exact le_refl _
  | cons a t ih =>
    simp only [maxOf, List.foldl_cons] at ih ⊢
    split
    · exact le_trans (le_of_lt ‹_›) (ih a)
    · exact ih init

theorem maxOf_ge_mem (init : K) (l : List K) : ∀ x ∈ l, x ≤ maxOf init l := by
  induction l generalizing init with
  | nil => intro x hx; cases hx
  | cons a t ih =>
    intro x hx
    simp only [maxOf, List.foldl_cons] at ih ⊢
    rcases List.mem_cons.mp hx with rfl | hx
    · split
      · exact maxOf_ge_init _ t
      · exact le_trans (not_lt.mp ‹_›) (maxOf_ge_init _ t)
    · exact ih _ x hx

/-- the running minimum is one of the values (so a strict bound on all values bounds it). -/
theorem lt_minOf (c init : K) (l : List K) (h0 : c < init) (h : ∀ x ∈ l, c < x) : c < minOf init l := by
  induction l generalizing init with
  | nil => exact h0
  | cons a t ih =>
    simp only [minOf, List.foldl_cons] at ih ⊢
    split
    · exact ih a (h a List.mem_cons_self) (fun x hx => h x (List.mem_cons_of_mem _ hx))
    · exact ih init h0 (fun x hx => h x (List.mem_cons_of_mem _ hx))

theorem maxOf_lt (c init : K) (l : List K) (h0 : init < c) (h : ∀ x ∈ l, x < c) : maxOf init l < c := by
  induction l generalizing init with
  | nil => exact h0
  | cons a t ih =>
    simp only [maxOf, List.foldl_cons] at ih ⊢
    split
    · exact ih a (h a List.mem_cons_self) (fun x hx => h x (List.mem_cons_of_mem _ hx))
    · exact ih init h0 (fun x hx => h x (List.mem_cons_of_mem _ hx))

end minmax

/-! ### bounds of one axis -/
section axis
variable {K : Type} [Field K] [LinearOrder K] [IsStrictOrderedRing K]

theorem axisBounds_periodic (pad : K) (ss : List K) : axisBounds pad true ss = (0, 1) := by
  simp [axisBounds]

/-- bounds always contain `[0,1]`; on a non-periodic axis every coordinate is strictly between them. -/
theorem axisBounds_spec (pad : K) (hpad : 0 < pad) (p : Bool) (ss : List K) :
    (axisBounds pad p ss).1 ≤ 0 ∧ 1 ≤ (axisBounds pad p ss).2 ∧
    (p = false → ∀ x ∈ ss, (axisBounds pad p ss).1 < x ∧ x < (axisBounds pad p ss).2) := by
  cases p with
  | true => simp [axisBounds]
  | false =>
    cases ss with
    | nil => simp [axisBounds]
    | cons a t =>
      have hmin : ∀ x ∈ a :: t, minOf a t ≤ x := by
        intro x hx
        rcases List.mem_cons.mp hx with rfl | hx
        · exact minOf_le_init _ _
        · exact minOf_le_mem _ _ x hx
      have hmax : ∀ x ∈ a :: t, x ≤ maxOf a t := by
        intro x hx
        rcases List.mem_cons.mp hx with rfl | hx
        · exact maxOf_ge_init _ _
        · exact maxOf_ge_mem _ _ x hx
      simp only [axisBounds, Bool.false_eq_true, if_false]
      refine ⟨?_, ?_, fun _ x hx => ⟨?_, ?_⟩⟩
      · split <;> linarith
      · split <;> linarith
      · have := hmin x hx
        split
        · linarith
        · linarith
      · have := hmax x hx
        split
        · linarith
        · linarith

end axis

/-! ### one atom, one axis -/
section atom
variable {K : Type} [Field K] [LinearOrder K] [IsStrictOrderedRing K]

theorem relToCart_subFlags (b : Box K) (s : V3 K) (f : V3 Int) :
    b.relToCart (subFlags s f) + latticeVec b.vects f = b.relToCart s := by
  simp only [Box.relToCart, subFlags, latticeVec, M3.vecMul, V3.add_def, V3.mk.injEq]
  refine ⟨?_, ?_, ?_⟩ <;> ring

/-- one atom: new position plus image flags times the OLD cell vectors is the old position. -/
theorem atom_reconstruct (fl : K → Int) (b : Box K) (hdet : M3.det b.vects ≠ 0) (pbc : V3 Bool) (p : V3 K) :
    atomPos fl b pbc p + latticeVec b.vects (atomFlags fl b pbc p) = p := by
  rw [atomPos, relToCart_subFlags, relToCart_cartToRel b hdet]

theorem atomFlags_nonperiodic (fl : K → Int) (b : Box K) (pbc : V3 Bool) (p : V3 K) :
    (pbc.x = false → (atomFlags fl b pbc p).x = 0) ∧ (pbc.y = false → (atomFlags fl b pbc p).y = 0) ∧
    (pbc.z = false → (atomFlags fl b pbc p).z = 0) := by
  refine ⟨?_, ?_, ?_⟩ <;> intro h <;> simp [atomFlags, flagsOf, flagOf, h]

theorem axis_facts (fl : K → Int) (hfl : IsFloor fl) (pad : K) (hpad : 0 < pad) (p : Bool) (ss : List K)
    (s : K) (hs : s ∈ ss) :
    (p = true → axisBounds pad p ss = (0, 1) ∧ 0 ≤ s - ((flagOf fl p s : Int) : K) ∧
        s - ((flagOf fl p s : Int) : K) < 1) ∧
    (p = false → flagOf fl p s = 0 ∧ (axisBounds pad p ss).1 < s ∧ s < (axisBounds pad p ss).2) := by
  constructor
  · intro hp; subst hp
    obtain ⟨h1, h2⟩ := hfl s
    refine ⟨axisBounds_periodic pad ss, ?_, ?_⟩ <;> simp only [flagOf, if_true] <;> linarith
  · intro hp; subst hp
    obtain ⟨_, _, h⟩ := axisBounds_spec pad hpad false ss
    exact ⟨by simp [flagOf], h rfl s hs⟩

theorem axis_unit (fl : K → Int) (hfl : IsFloor fl) (pad : K) (hpad : 0 < pad) (p : Bool) (ss : List K)
    (s : K) (hs : s ∈ ss) :
    let lo := (axisBounds pad p ss).1
    let hi := (axisBounds pad p ss).2
    let t := (s - ((flagOf fl p s : Int) : K) - lo) / (hi - lo)
    1 ≤ hi - lo ∧ 0 ≤ t ∧ t < 1 ∧ (p = false → 0 < t) := by
  intro lo hi t
  obtain ⟨hlo, hhi, _⟩ := axisBounds_spec pad hpad p ss
  have hw : 1 ≤ hi - lo := by simp only [lo, hi]; linarith
  have hwp : 0 < hi - lo := by linarith
  obtain ⟨hT, hF⟩ := axis_facts fl hfl pad hpad p ss s hs
  cases p with
  | true =>
    obtain ⟨hb, h0, h1⟩ := hT rfl
    have e1 : lo = 0 := by simp only [lo, hb]
    have e2 : hi = 1 := by simp only [hi, hb]
    refine ⟨hw, ?_, ?_, by simp⟩
    · exact div_nonneg (by rw [e1]; linarith) hwp.le
    · rw [div_lt_one hwp, e1, e2]; linarith
  | false =>
    obtain ⟨hf, h0, h1⟩ := hF rfl
    have h0' : lo < s := h0
    have h1' : s < hi := h1
    have ht : 0 < t := by
      apply div_pos _ hwp
      rw [hf, Int.cast_zero]; linarith
    refine ⟨hw, ht.le, ?_, fun _ => ht⟩
    rw [div_lt_one hwp, hf, Int.cast_zero]; linarith

/-- relative coordinates, in the NEW box, of the new position of an atom of the system. -/
def newRel (fl : K → Int) (pad : K) (b : Box K) (pbc : V3 Bool) (pos : List (V3 K)) (p : V3 K) : V3 K :=
  let s := b.cartToRel p
  let bd := bounds pad pbc (pos.map b.cartToRel)
  ⟨(s.x - ((flagOf fl pbc.x s.x : Int) : K) - bd.x.1) / (bd.x.2 - bd.x.1),
   (s.y - ((flagOf fl pbc.y s.y : Int) : K) - bd.y.1) / (bd.y.2 - bd.y.1),
   (s.z - ((flagOf fl pbc.z s.z : Int) : K) - bd.z.1) / (bd.z.2 - bd.z.1)⟩

theorem bounds_width (pad : K) (hpad : 0 < pad) (pbc : V3 Bool) (spos : List (V3 K)) :
    1 ≤ (bounds pad pbc spos).x.2 - (bounds pad pbc spos).x.1 ∧
    1 ≤ (bounds pad pbc spos).y.2 - (bounds pad pbc spos).y.1 ∧
    1 ≤ (bounds pad pbc spos).z.2 - (bounds pad pbc spos).z.1 := by
  simp only [bounds]
  obtain ⟨a1, a2, _⟩ := axisBounds_spec pad hpad pbc.x (spos.map (·.x))
  obtain ⟨b1, b2, _⟩ := axisBounds_spec pad hpad pbc.y (spos.map (·.y))
  obtain ⟨c1, c2, _⟩ := axisBounds_spec pad hpad pbc.z (spos.map (·.z))
  refine ⟨?_, ?_, ?_⟩ <;> linarith

theorem det_wrap_ne_zero (fl : K → Int) (pad : K) (hpad : 0 < pad) (b : Box K) (hdet : M3.det b.vects ≠ 0)
    (pbc : V3 Bool) (pos : List (V3 K)) : M3.det (wrap fl pad b pbc pos).box.vects ≠ 0 := by
  obtain ⟨hx, hy, hz⟩ := bounds_width pad hpad pbc (pos.map b.cartToRel)
  simp only [wrap, det_paddedBox]
  have hx' : (bounds pad pbc (pos.map b.cartToRel)).x.2 - (bounds pad pbc (pos.map b.cartToRel)).x.1 ≠ 0 := by
    intro h; rw [h] at hx; linarith
  have hy' : (bounds pad pbc (pos.map b.cartToRel)).y.2 - (bounds pad pbc (pos.map b.cartToRel)).y.1 ≠ 0 := by
    intro h; rw [h] at hy; linarith
  have hz' : (bounds pad pbc (pos.map b.cartToRel)).z.2 - (bounds pad pbc (pos.map b.cartToRel)).z.1 ≠ 0 := by
    intro h; rw [h] at hz; linarith
  exact mul_ne_zero (mul_ne_zero (mul_ne_zero hx' hy') hz') hdet

/-- the new box sees the new position of every atom at `newRel`. -/
theorem wrap_cartToRel (fl : K → Int) (pad : K) (hpad : 0 < pad) (b : Box K) (hdet : M3.det b.vects ≠ 0)
    (pbc : V3 Bool) (pos : List (V3 K)) (p : V3 K) :
    (wrap fl pad b pbc pos).box.cartToRel (atomPos fl b pbc p) = newRel fl pad b pbc pos p := by
  obtain ⟨hx, hy, hz⟩ := bounds_width pad hpad pbc (pos.map b.cartToRel)
  have hd := det_wrap_ne_zero fl pad hpad b hdet pbc pos
  have e := relToCart_paddedBox b (bounds pad pbc (pos.map b.cartToRel))
    (subFlags (b.cartToRel p) (atomFlags fl b pbc p))
    (by intro h; rw [h] at hx; linarith) (by intro h; rw [h] at hy; linarith) (by intro h; rw [h] at hz; linarith)
  rw [atomPos, ← e]
  exact cartToRel_relToCart _ hd _

theorem smul_one_sub_zero (v : V3 K) : V3.smul ((1 : K) - 0) v = v := by
  obtain ⟨x, y, z⟩ := v
  simp only [V3.smul, sub_zero, one_mul]

theorem axisBounds_of_strict (pad : K) (p : Bool) (ss : List K)
    (h : p = false → ∀ x ∈ ss, 0 < x ∧ x < 1) : axisBounds pad p ss = (0, 1) := by
  cases p with
  | true => exact axisBounds_periodic pad ss
  | false =>
    cases ss with
    | nil => simp [axisBounds]
    | cons a t =>
      have ha := h rfl a List.mem_cons_self
      have h1 : 0 < minOf a t := lt_minOf 0 a t ha.1 (fun x hx => (h rfl x (List.mem_cons_of_mem _ hx)).1)
      have h2 : maxOf a t < 1 := maxOf_lt 1 a t ha.2 (fun x hx => (h rfl x (List.mem_cons_of_mem _ hx)).2)
      simp only [axisBounds, Bool.false_eq_true, if_false, not_le.mpr h1, not_le.mpr h2]

theorem paddedBox_unit (b : Box K) : paddedBox b ⟨(0, 1), (0, 1), (0, 1)⟩ = b := by
  obtain ⟨⟨r0, r1, r2⟩, ⟨o0, o1, o2⟩⟩ := b
  simp only [paddedBox, smul_one_sub_zero, M3.vecMul, V3.add_def, zero_mul, add_zero]

theorem subFlags_zero (s : V3 K) : subFlags s ⟨0, 0, 0⟩ = s := by
  obtain ⟨x, y, z⟩ := s
  simp only [subFlags, Int.cast_zero, sub_zero]

/-- components of `newRel` for an atom of the system: in `[0,1)`, positive on non-periodic axes. -/
theorem newRel_facts (fl : K → Int) (hfl : IsFloor fl) (pad : K) (hpad : 0 < pad) (b : Box K) (pbc : V3 Bool)
    (pos : List (V3 K)) (p : V3 K) (hp : p ∈ pos) :
    (0 ≤ (newRel fl pad b pbc pos p).x ∧ (newRel fl pad b pbc pos p).x < 1 ∧
      (pbc.x = false → 0 < (newRel fl pad b pbc pos p).x)) ∧
    (0 ≤ (newRel fl pad b pbc pos p).y ∧ (newRel fl pad b pbc pos p).y < 1 ∧
      (pbc.y = false → 0 < (newRel fl pad b pbc pos p).y)) ∧
    (0 ≤ (newRel fl pad b pbc pos p).z ∧ (newRel fl pad b pbc pos p).z < 1 ∧
      (pbc.z = false → 0 < (newRel fl pad b pbc pos p).z)) := by
  have mx : (b.cartToRel p).x ∈ (pos.map b.cartToRel).map (·.x) :=
    List.mem_map.mpr ⟨_, List.mem_map.mpr ⟨p, hp, rfl⟩, rfl⟩
  have my : (b.cartToRel p).y ∈ (pos.map b.cartToRel).map (·.y) :=
    List.mem_map.mpr ⟨_, List.mem_map.mpr ⟨p, hp, rfl⟩, rfl⟩
  have mz : (b.cartToRel p).z ∈ (pos.map b.cartToRel).map (·.z) :=
    List.mem_map.mpr ⟨_, List.mem_map.mpr ⟨p, hp, rfl⟩, rfl⟩
  obtain ⟨_, x0, x1, x2⟩ := axis_unit fl hfl pad hpad pbc.x _ _ mx
  obtain ⟨_, y0, y1, y2⟩ := axis_unit fl hfl pad hpad pbc.y _ _ my
  obtain ⟨_, z0, z1, z2⟩ := axis_unit fl hfl pad hpad pbc.z _ _ mz
  exact ⟨⟨x0, x1, x2⟩, ⟨y0, y1, y2⟩, ⟨z0, z1, z2⟩⟩

theorem flagOf_unit (fl : K → Int) (hfl : IsFloor fl) (p : Bool) (t : K) (h0 : 0 ≤ t) (h1 : t < 1) :
    flagOf fl p t = 0 := by
  cases p with
  | true => simp only [flagOf, if_true]; exact hfl.eq_zero h0 h1
  | false => simp [flagOf]

/-- a fully periodic box is returned unchanged. -/
theorem wrap_box_full (fl : K → Int) (pad : K) (b : Box K) (pos : List (V3 K)) :
    (wrap fl pad b ⟨true, true, true⟩ pos).box = b := by
  simp only [wrap, bounds, axisBounds_periodic, paddedBox_unit]

end atom

/-! ### 3x3 matrix algebra -/
section m3
variable {K : Type} [Field K]

theorem M3.mul_assoc' (A B C : M3 K) : M3.mul (M3.mul A B) C = M3.mul A (M3.mul B C) := by
  obtain ⟨⟨a0, a1, a2⟩, ⟨a3, a4, a5⟩, ⟨a6, a7, a8⟩⟩ := A
  obtain ⟨⟨b0, b1, b2⟩, ⟨b3, b4, b5⟩, ⟨b6, b7, b8⟩⟩ := B
  obtain ⟨⟨c0, c1, c2⟩, ⟨c3, c4, c5⟩, ⟨c6, c7, c8⟩⟩ := C
  simp only [M3.mul, M3.vecMul, M3.mk.injEq, V3.mk.injEq]
  refine ⟨⟨?_, ?_, ?_⟩, ⟨?_, ?_, ?_⟩, ⟨?_, ?_, ?_⟩⟩ <;> ring

theorem M3.transpose_mul (A B : M3 K) : (M3.mul A B).transpose = M3.mul B.transpose A.transpose := by
  obtain ⟨⟨a0, a1, a2⟩, ⟨a3, a4, a5⟩, ⟨a6, a7, a8⟩⟩ := A
  obtain ⟨⟨b0, b1, b2⟩, ⟨b3, b4, b5⟩, ⟨b6, b7, b8⟩⟩ := B
  simp only [M3.mul, M3.vecMul, M3.transpose, M3.mk.injEq, V3.mk.injEq]
  refine ⟨⟨?_, ?_, ?_⟩, ⟨?_, ?_, ?_⟩, ⟨?_, ?_, ?_⟩⟩ <;> ring

theorem M3.transpose_transpose (A : M3 K) : A.transpose.transpose = A := rfl

theorem M3.mul_one' (A : M3 K) : M3.mul A M3.one = A := by
  obtain ⟨⟨a0, a1, a2⟩, ⟨a3, a4, a5⟩, ⟨a6, a7, a8⟩⟩ := A
  simp only [M3.mul, M3.vecMul, M3.one, M3.mk.injEq, V3.mk.injEq]
  refine ⟨⟨?_, ?_, ?_⟩, ⟨?_, ?_, ?_⟩, ⟨?_, ?_, ?_⟩⟩ <;> ring

theorem M3.one_mul' (A : M3 K) : M3.mul M3.one A = A := by
  obtain ⟨⟨a0, a1, a2⟩, ⟨a3, a4, a5⟩, ⟨a6, a7, a8⟩⟩ := A
  simp only [M3.mul, M3.vecMul, M3.one, M3.mk.injEq, V3.mk.injEq]
  refine ⟨⟨?_, ?_, ?_⟩, ⟨?_, ?_, ?_⟩, ⟨?_, ?_, ?_⟩⟩ <;> ring

theorem M3.transpose_one : (M3.one : M3 K).transpose = M3.one := rfl

theorem M3.det_mul (A B : M3 K) : M3.det (M3.mul A B) = M3.det A * M3.det B := by
  obtain ⟨⟨a0, a1, a2⟩, ⟨a3, a4, a5⟩, ⟨a6, a7, a8⟩⟩ := A
  obtain ⟨⟨b0, b1, b2⟩, ⟨b3, b4, b5⟩, ⟨b6, b7, b8⟩⟩ := B
  simp only [M3.mul, M3.vecMul, M3.det, V3.dot, V3.cross]
  ring

theorem M3.det_transpose (A : M3 K) : M3.det A.transpose = M3.det A := by
  obtain ⟨⟨a0, a1, a2⟩, ⟨a3, a4, a5⟩, ⟨a6, a7, a8⟩⟩ := A
  simp only [M3.transpose, M3.det, V3.dot, V3.cross]
  ring

theorem M3.det_one : M3.det (M3.one : M3 K) = 1 := by
  simp only [M3.one, M3.det, V3.dot, V3.cross]; ring

theorem M3.inv_mul_cancel (A : M3 K) (h : M3.det A ≠ 0) : M3.mul (M3.inv A) A = M3.one := by
  obtain ⟨⟨a0, a1, a2⟩, ⟨a3, a4, a5⟩, ⟨a6, a7, a8⟩⟩ := A
  simp only [M3.det, V3.dot, V3.cross] at h
  simp only [M3.mul, M3.vecMul, M3.inv, M3.one, M3.det, V3.dot, V3.cross, M3.mk.injEq, V3.mk.injEq]
  generalize hd : a0 * (a4 * a8 - a5 * a7) + a1 * (a5 * a6 - a3 * a8) + a2 * (a3 * a7 - a4 * a6) = d at h ⊢
  refine ⟨⟨?_, ?_, ?_⟩, ⟨?_, ?_, ?_⟩, ⟨?_, ?_, ?_⟩⟩ <;> field_simp <;> rw [← hd] <;> ring

theorem M3.mul_inv_cancel (A : M3 K) (h : M3.det A ≠ 0) : M3.mul A (M3.inv A) = M3.one := by
  obtain ⟨⟨a0, a1, a2⟩, ⟨a3, a4, a5⟩, ⟨a6, a7, a8⟩⟩ := A
  simp only [M3.det, V3.dot, V3.cross] at h
  simp only [M3.mul, M3.vecMul, M3.inv, M3.one, M3.det, V3.dot, V3.cross, M3.mk.injEq, V3.mk.injEq]
  generalize hd : a0 * (a4 * a8 - a5 * a7) + a1 * (a5 * a6 - a3 * a8) + a2 * (a3 * a7 - a4 * a6) = d at h ⊢
  refine ⟨⟨?_, ?_, ?_⟩, ⟨?_, ?_, ?_⟩, ⟨?_, ?_, ?_⟩⟩ <;> field_simp <;> rw [← hd] <;> ring

theorem M3.det_inv (A : M3 K) (h : M3.det A ≠ 0) : M3.det (M3.inv A) * M3.det A = 1 := by
  rw [← M3.det_mul, M3.inv_mul_cancel A h, M3.det_one]

theorem M3.transpose_inv (A : M3 K) : (M3.inv A).transpose = M3.inv A.transpose := by
  obtain ⟨⟨a0, a1, a2⟩, ⟨a3, a4, a5⟩, ⟨a6, a7, a8⟩⟩ := A
  simp only [M3.inv, M3.transpose, M3.det, V3.dot, V3.cross, M3.mk.injEq, V3.mk.injEq]
  have e : a0 * (a4 * a8 - a7 * a5) + a3 * (a7 * a2 - a1 * a8) + a6 * (a1 * a5 - a4 * a2)
      = a0 * (a4 * a8 - a5 * a7) + a1 * (a5 * a6 - a3 * a8) + a2 * (a3 * a7 - a4 * a6) := by ring
  rw [e]
  refine ⟨⟨?_, ?_, ?_⟩, ⟨?_, ?_, ?_⟩, ⟨?_, ?_, ?_⟩⟩ <;> ring

/-- **gram_eq_rotation** (algebraic core of the rotation clause): two non-singular cells with the same
    Gram matrix `V Vᵀ` are related by `R = M⁻¹ N` with `R Rᵀ = 1`, `Rᵀ R = 1` and `M R = N`. -/
theorem gram_eq_rotation (M N : M3 K) (hM : M3.det M ≠ 0) (hg : gram N = gram M) :
    let R := M3.mul (M3.inv M) N
    M3.mul M R = N ∧ M3.mul R R.transpose = M3.one ∧ M3.mul R.transpose R = M3.one ∧
    M3.det R * M3.det R = 1 := by
  intro R
  have hMT : M3.det M.transpose ≠ 0 := by rw [M3.det_transpose]; exact hM
  have e1 : M3.mul M R = N := by
    simp only [R]
    rw [← M3.mul_assoc', M3.mul_inv_cancel M hM, M3.one_mul']
  have e2 : M3.mul R R.transpose = M3.one := by
    simp only [R]
    rw [M3.transpose_mul, M3.mul_assoc', ← M3.mul_assoc' N, ]
    have : M3.mul N N.transpose = M3.mul M M.transpose := hg
    rw [this, M3.transpose_inv, M3.mul_assoc' M, M3.mul_inv_cancel _ hMT, M3.mul_one', M3.inv_mul_cancel M hM]
  have e4 : M3.det R * M3.det R = 1 := by
    have := congrArg M3.det e2
    rwa [M3.det_mul, M3.det_transpose, M3.det_one] at this
  have hR : M3.det R ≠ 0 := by
    intro h; rw [h, zero_mul] at e4; exact zero_ne_one e4
  refine ⟨e1, e2, ?_, e4⟩
  -- left inverse from right inverse
  calc M3.mul R.transpose R
      = M3.mul (M3.mul (M3.inv R) R) (M3.mul R.transpose R) := by rw [M3.inv_mul_cancel R hR, M3.one_mul']
    _ = M3.mul (M3.inv R) (M3.mul (M3.mul R R.transpose) R) := by simp only [M3.mul_assoc']
    _ = M3.one := by rw [e2, M3.one_mul', M3.inv_mul_cancel R hR]

end m3

/-! ### the cell rebuilt from lengths and cosines -/
section abc
variable {K : Type} [Field K] [LinearOrder K] [IsStrictOrderedRing K]

/-- what is assumed of `x**0.5` at one argument. -/
def SqrtAt (sqrt : K → K) (x : K) : Prop := sqrt x * sqrt x = x ∧ 0 < sqrt x

/-- the five square roots `set_abc`/`Box.a,b,c` take for the cell `v`. -/
structure SqrtOK (sqrt : K → K) (v : M3 K) : Prop where
  a : SqrtAt sqrt (V3.normSq v.r0)
  b : SqrtAt sqrt (V3.normSq v.r1)
  c : SqrtAt sqrt (V3.normSq v.r2)
  ly : SqrtAt sqrt (lyArg sqrt v)
  lz : SqrtAt sqrt (lzArg sqrt v)

theorem triple_eq_det (v : M3 K) : triple v = M3.det v := by
  obtain ⟨⟨a0, a1, a2⟩, ⟨a3, a4, a5⟩, ⟨a6, a7, a8⟩⟩ := v
  simp only [triple, M3.det, V3.dot, V3.cross]; ring

theorem gram_entries (v : M3 K) :
    gram v = ⟨⟨V3.normSq v.r0, V3.dot v.r0 v.r1, V3.dot v.r0 v.r2⟩,
              ⟨V3.dot v.r0 v.r1, V3.normSq v.r1, V3.dot v.r1 v.r2⟩,
              ⟨V3.dot v.r0 v.r2, V3.dot v.r1 v.r2, V3.normSq v.r2⟩⟩ := by
  obtain ⟨⟨a0, a1, a2⟩, ⟨a3, a4, a5⟩, ⟨a6, a7, a8⟩⟩ := v
  apply M3.ext <;> apply V3.ext <;>
    simp only [gram, M3.mul, M3.vecMul, M3.transpose, V3.normSq, V3.dot] <;> ring

theorem det_gram (v : M3 K) : M3.det (gram v) = M3.det v * M3.det v := by
  rw [gram, M3.det_mul, M3.det_transpose]

/-- the cell rebuilt from lengths and cosines: defined, LAMMPS-normal, origin 0, same Gram matrix,
    positive determinant. -/
theorem abcBox_spec (sqrt : K → K) (v : M3 K) (hs : SqrtOK sqrt v) :
    ∃ b2 : Box K, abcBox? sqrt v = some b2 ∧ b2.origin = ⟨0, 0, 0⟩ ∧ Box.isLammpsNorm b2 = true ∧
      gram b2.vects = gram v ∧ 0 < M3.det b2.vects := by
  obtain ⟨⟨hA2, hA⟩, ⟨hB2, hB⟩, ⟨hC2, hC⟩, ⟨hLY2, hLY⟩, ⟨hLZ2, hLZ⟩⟩ := hs
  have hA' : 0 < lenA sqrt v := hA
  have hB' : 0 < lenB sqrt v := hB
  have hC' : 0 < lenC sqrt v := hC
  have hLY' : 0 < lenLy sqrt v := hLY
  have hLZ' : 0 < lenLz sqrt v := hLZ
  have eA : lenA sqrt v * lenA sqrt v = V3.normSq v.r0 := hA2
  have eB : lenB sqrt v * lenB sqrt v = V3.normSq v.r1 := hB2
  have eC : lenC sqrt v * lenC sqrt v = V3.normSq v.r2 := hC2
  have eLY : lenLy sqrt v * lenLy sqrt v = lenB sqrt v * lenB sqrt v - tiltXY sqrt v * tiltXY sqrt v := hLY2
  have eLZ : lenLz sqrt v * lenLz sqrt v
      = lenC sqrt v * lenC sqrt v - tiltXZ sqrt v * tiltXZ sqrt v - tiltYZ sqrt v * tiltYZ sqrt v := hLZ2
  have exy : lenA sqrt v * tiltXY sqrt v = V3.dot v.r0 v.r1 := by
    simp only [tiltXY, cosGamma]; field_simp
  have exz : lenA sqrt v * tiltXZ sqrt v = V3.dot v.r0 v.r2 := by
    simp only [tiltXZ, cosBeta]; field_simp
  have eyz : lenLy sqrt v * tiltYZ sqrt v = V3.dot v.r1 v.r2 - tiltXY sqrt v * tiltXZ sqrt v := by
    simp only [tiltYZ, cosAlpha]; field_simp
  refine ⟨⟨⟨⟨lenA sqrt v, 0, 0⟩, ⟨tiltXY sqrt v, lenLy sqrt v, 0⟩, ⟨tiltXZ sqrt v, tiltYZ sqrt v, lenLz sqrt v⟩⟩,
    ⟨0, 0, 0⟩⟩, ?_, rfl, ?_, ?_, ?_⟩
  · simp only [abcBox?, Box.ofLengths?, hA', hLY', hLZ', and_self, if_true]
  · simp only [Box.isLammpsNorm, hA', hLY', hLZ', decide_true, Bool.and_self]
  · rw [gram_entries, gram_entries]
    generalize lenA sqrt v = A at *
    generalize lenB sqrt v = B at *
    generalize lenC sqrt v = C at *
    generalize lenLy sqrt v = LY at *
    generalize lenLz sqrt v = LZ at *
    generalize tiltXY sqrt v = XY at *
    generalize tiltXZ sqrt v = XZ at *
    generalize tiltYZ sqrt v = YZ at *
    simp only [V3.normSq, V3.dot, M3.mk.injEq, V3.mk.injEq] at *
    refine ⟨⟨?_, ?_, ?_⟩, ⟨?_, ?_, ?_⟩, ⟨?_, ?_, ?_⟩⟩
    · linear_combination eA
    · linear_combination exy
    · linear_combination exz
    · linear_combination exy
    · linear_combination eLY + eB
    · linear_combination eyz
    · linear_combination exz
    · linear_combination eyz
    · linear_combination eLZ + eC
  · simp only [M3.det, V3.dot, V3.cross]
    have : 0 < lenA sqrt v * (lenLy sqrt v * lenLz sqrt v) := mul_pos hA' (mul_pos hLY' hLZ')
    linarith

end abc

/-! ### flip and the shape of normalize -/
section norm
variable {K : Type} [Field K] [LinearOrder K] [IsStrictOrderedRing K]

theorem det_flipC (b : Box K) : M3.det (flipC b).vects = - M3.det b.vects := by
  obtain ⟨⟨⟨a0, a1, a2⟩, ⟨a3, a4, a5⟩, ⟨a6, a7, a8⟩⟩, o⟩ := b
  simp only [flipC, M3.det, V3.dot, V3.cross, V3.neg_def]; ring

theorem flip_det_pos (b : Box K) (hdet : M3.det b.vects ≠ 0) : 0 < M3.det (flip b).vects := by
  simp only [flip]
  split
  · rename_i h; rw [triple_eq_det] at h; rw [det_flipC]; linarith
  · rename_i h; rw [triple_eq_det] at h
    exact lt_of_le_of_ne (not_lt.mp h) (Ne.symm hdet)

theorem relToCart_flipC (b : Box K) (s : V3 K) : (flipC b).relToCart ⟨s.x, s.y, 1 - s.z⟩ = b.relToCart s := by
  obtain ⟨⟨⟨a0, a1, a2⟩, ⟨a3, a4, a5⟩, ⟨a6, a7, a8⟩⟩, ⟨o0, o1, o2⟩⟩ := b
  simp only [flipC, Box.relToCart, M3.vecMul, V3.add_def, V3.neg_def, V3.mk.injEq]
  refine ⟨?_, ?_, ?_⟩ <;> ring

theorem latticeVec_flipC (b : Box K) (f : V3 Int) :
    latticeVec (flipC b).vects f = latticeVec b.vects ⟨f.x, f.y, -f.z⟩ := by
  obtain ⟨⟨⟨a0, a1, a2⟩, ⟨a3, a4, a5⟩, ⟨a6, a7, a8⟩⟩, ⟨o0, o1, o2⟩⟩ := b
  simp only [flipC, latticeVec, M3.vecMul, V3.neg_def, V3.mk.injEq, Int.cast_neg]
  refine ⟨?_, ?_, ?_⟩ <;> ring

theorem normalize_eq (fl : K → Int) (pad : K) (sqrt : K → K) (b : Box K) (pbc : V3 Bool) (pos : List (V3 K))
    (b2 : Box K) (h2 : abcBox? sqrt (flip b).vects = some b2) :
    normalize? fl pad sqrt b pbc pos =
      some ⟨(wrap fl pad b2 pbc (pos.map (fun p => b2.relToCart ((flip b).cartToRel p)))).box,
            (wrap fl pad b2 pbc (pos.map (fun p => b2.relToCart ((flip b).cartToRel p)))).pos,
            (wrap fl pad b2 pbc (pos.map (fun p => b2.relToCart ((flip b).cartToRel p)))).flags,
            (M3.mul (M3.inv (flip b).vects)
              (wrap fl pad b2 pbc (pos.map (fun p => b2.relToCart ((flip b).cartToRel p)))).box.vects).transpose⟩ := by
  simp only [normalize?, h2]

/-- new position and image flags of one atom under `normalize` of a fully periodic system whose cell
    is rebuilt as `b2`. -/
def normPos (fl : K → Int) (b1 b2 : Box K) (p : V3 K) : V3 K :=
  atomPos fl b2 ⟨true, true, true⟩ (b2.relToCart (b1.cartToRel p))
def normFlags (fl : K → Int) (b1 b2 : Box K) (p : V3 K) : V3 Int :=
  atomFlags fl b2 ⟨true, true, true⟩ (b2.relToCart (b1.cartToRel p))

/-- shape of the result for a fully periodic system. -/
theorem normalize_full_form (fl : K → Int) (pad : K) (sqrt : K → K) (b : Box K)
    (hs : SqrtOK sqrt (flip b).vects) (pos : List (V3 K)) :
    ∃ b2 : Box K, abcBox? sqrt (flip b).vects = some b2 ∧ b2.origin = ⟨0, 0, 0⟩ ∧ Box.isLammpsNorm b2 = true ∧
      gram b2.vects = gram (flip b).vects ∧ 0 < M3.det b2.vects ∧
      normalize? fl pad sqrt b ⟨true, true, true⟩ pos =
        some ⟨b2, pos.map (normPos fl (flip b) b2), pos.map (normFlags fl (flip b) b2),
              (M3.mul (M3.inv (flip b).vects) b2.vects).transpose⟩ := by
  obtain ⟨b2, h2, ho, hn, hg, hd⟩ := abcBox_spec sqrt (flip b).vects hs
  refine ⟨b2, h2, ho, hn, hg, hd, ?_⟩
  rw [normalize_eq fl pad sqrt b _ pos b2 h2]
  rw [wrap_box_full]
  simp only [wrap, List.map_map, Function.comp_def]
  rfl

end norm

/-! ### closed forms, separations -/
section misc
variable {K : Type} [Field K] [LinearOrder K] [IsStrictOrderedRing K]

theorem ly_identity (a b : V3 K) (h : V3.normSq a ≠ 0) :
    V3.normSq b - V3.dot a b * V3.dot a b / V3.normSq a = V3.normSq (V3.cross a b) / V3.normSq a := by
  obtain ⟨n, hn⟩ : ∃ n, n = V3.normSq a := ⟨_, rfl⟩
  rw [← hn] at h ⊢
  field_simp
  rw [hn]
  obtain ⟨a0, a1, a2⟩ := a
  obtain ⟨a3, a4, a5⟩ := b
  simp only [V3.normSq, V3.dot, V3.cross]
  ring

theorem lz_identity (v : M3 K) (h : V3.normSq v.r0 ≠ 0) (hW : V3.normSq (V3.cross v.r0 v.r1) ≠ 0) :
    V3.normSq v.r2 - V3.dot v.r0 v.r2 * V3.dot v.r0 v.r2 / V3.normSq v.r0
      - (V3.dot v.r1 v.r2 - V3.dot v.r0 v.r1 * V3.dot v.r0 v.r2 / V3.normSq v.r0)
        * (V3.dot v.r1 v.r2 - V3.dot v.r0 v.r1 * V3.dot v.r0 v.r2 / V3.normSq v.r0)
        / (V3.normSq (V3.cross v.r0 v.r1) / V3.normSq v.r0)
      = M3.det v * M3.det v / V3.normSq (V3.cross v.r0 v.r1) := by
  obtain ⟨n, hn⟩ : ∃ n, n = V3.normSq v.r0 := ⟨_, rfl⟩
  obtain ⟨w, hw⟩ : ∃ w, w = V3.normSq (V3.cross v.r0 v.r1) := ⟨_, rfl⟩
  rw [← hn] at h ⊢
  rw [← hw] at hW ⊢
  field_simp
  rw [hn, hw]
  obtain ⟨⟨a0, a1, a2⟩, ⟨a3, a4, a5⟩, ⟨a6, a7, a8⟩⟩ := v
  simp only [V3.normSq, V3.dot, V3.cross, M3.det]
  ring

theorem normSq_cross_pos (v : M3 K) (hdet : M3.det v ≠ 0) : 0 < V3.normSq (V3.cross v.r0 v.r1) := by
  obtain ⟨⟨a0, a1, a2⟩, ⟨a3, a4, a5⟩, ⟨a6, a7, a8⟩⟩ := v
  rw [← triple_eq_det] at hdet
  simp only [triple, V3.normSq, V3.dot, V3.cross] at *
  by_contra hcon
  have h0 := not_lt.mp hcon
  have s1 := mul_self_nonneg (a1 * a5 - a2 * a4)
  have s2 := mul_self_nonneg (a2 * a3 - a0 * a5)
  have s3 := mul_self_nonneg (a0 * a4 - a1 * a3)
  have e1 : (a1 * a5 - a2 * a4) * (a1 * a5 - a2 * a4) = 0 := by linarith
  have e2 : (a2 * a3 - a0 * a5) * (a2 * a3 - a0 * a5) = 0 := by linarith
  have e3 : (a0 * a4 - a1 * a3) * (a0 * a4 - a1 * a3) = 0 := by linarith
  have z1 := mul_self_eq_zero.mp e1
  have z2 := mul_self_eq_zero.mp e2
  have z3 := mul_self_eq_zero.mp e3
  apply hdet
  rw [z1, z2, z3]; ring

/-- separation of two atoms plus a lattice vector, written in relative coordinates. -/
theorem sep_rel (B : Box K) (s t : V3 K) (n : V3 Int) :
    B.relToCart t - B.relToCart s + latticeVec B.vects n
      = M3.vecMul ⟨t.x - s.x + (n.x : K), t.y - s.y + (n.y : K), t.z - s.z + (n.z : K)⟩ B.vects := by
  obtain ⟨⟨⟨a0, a1, a2⟩, ⟨a3, a4, a5⟩, ⟨a6, a7, a8⟩⟩, ⟨o0, o1, o2⟩⟩ := B
  simp only [Box.relToCart, latticeVec, M3.vecMul, V3.add_def, V3.sub_def, V3.mk.injEq]
  refine ⟨?_, ?_, ?_⟩ <;> ring

theorem normSq_pos_of_ne (a : V3 K)
    (h : a ≠ ⟨0, 0, 0⟩) : 0 < V3.normSq a := by
  obtain ⟨x, y, z⟩ := a
  simp only [V3.normSq, V3.dot]
  by_contra hcon
  have h0 := not_lt.mp hcon
  have s1 := mul_self_nonneg x
  have s2 := mul_self_nonneg y
  have s3 := mul_self_nonneg z
  have z1 := mul_self_eq_zero.mp (show x * x = 0 by linarith)
  have z2 := mul_self_eq_zero.mp (show y * y = 0 by linarith)
  have z3 := mul_self_eq_zero.mp (show z * z = 0 by linarith)
  exact h (by rw [z1, z2, z3])

theorem rows_normSq_pos (v : M3 K)
    (hdet : M3.det v ≠ 0) : 0 < V3.normSq v.r0 ∧ 0 < V3.normSq v.r1 ∧ 0 < V3.normSq v.r2 := by
  obtain ⟨a, b, c⟩ := v
  refine ⟨normSq_pos_of_ne a ?_, normSq_pos_of_ne b ?_, normSq_pos_of_ne c ?_⟩ <;>
  · rintro rfl
    apply hdet
    simp only [M3.det, V3.dot, V3.cross]
    ring

/-- Lagrange's identity. -/
theorem lagrange (u v : V3 K) :
    V3.normSq u * V3.normSq v - V3.dot u v * V3.dot u v = V3.normSq (V3.cross u v) := by
  obtain ⟨a0, a1, a2⟩ := u
  obtain ⟨a3, a4, a5⟩ := v
  simp only [V3.normSq, V3.dot, V3.cross]
  ring

/-- two vectors that span a volume with a third one are not parallel. -/
theorem cross_pos_of_triple (u v w : V3 K) (h : V3.dot (V3.cross u v) w ≠ 0) : 0 < V3.normSq (V3.cross u v) := by
  obtain ⟨a0, a1, a2⟩ := u
  obtain ⟨a3, a4, a5⟩ := v
  obtain ⟨a6, a7, a8⟩ := w
  simp only [V3.normSq, V3.dot, V3.cross] at *
  by_contra hcon
  have h0 := not_lt.mp hcon
  have s1 := mul_self_nonneg (a1 * a5 - a2 * a4)
  have s2 := mul_self_nonneg (a2 * a3 - a0 * a5)
  have s3 := mul_self_nonneg (a0 * a4 - a1 * a3)
  have z1 := mul_self_eq_zero.mp (show (a1 * a5 - a2 * a4) * (a1 * a5 - a2 * a4) = 0 by linarith)
  have z2 := mul_self_eq_zero.mp (show (a2 * a3 - a0 * a5) * (a2 * a3 - a0 * a5) = 0 by linarith)
  have z3 := mul_self_eq_zero.mp (show (a0 * a4 - a1 * a3) * (a0 * a4 - a1 * a3) = 0 by linarith)
  apply h
  rw [z1, z2, z3]; ring

/-- strict Cauchy-Schwarz in the form `set_abc` needs it: the cosine `vect_angle` forms for two non-parallel vectors
    is strictly between -1 and 1 (so the angle is strictly between 0 and 180 degrees and is not refused). -/
theorem cos_strict (sqrt : K → K) (u v : V3 K) (hu : SqrtAt sqrt (V3.normSq u)) (hv : SqrtAt sqrt (V3.normSq v))
    (hx : 0 < V3.normSq (V3.cross u v)) :
    cosStrict (V3.dot u v / (sqrt (V3.normSq u) * sqrt (V3.normSq v))) = true := by
  obtain ⟨hu2, hu0⟩ := hu
  obtain ⟨hv2, hv0⟩ := hv
  have hs : 0 < sqrt (V3.normSq u) * sqrt (V3.normSq v) := mul_pos hu0 hv0
  have hl := lagrange u v
  generalize sqrt (V3.normSq u) = su at *
  generalize sqrt (V3.normSq v) = sv at *
  generalize V3.dot u v = d at *
  have hsq : d * d < (su * sv) * (su * sv) := by
    have : (su * sv) * (su * sv) = V3.normSq u * V3.normSq v := by rw [← hu2, ← hv2]; ring
    rw [this]; linarith
  have h1 : d < su * sv := by
    by_contra hc
    have hle : su * sv ≤ d := not_lt.mp hc
    have := mul_self_le_mul_self (le_of_lt hs) hle
    linarith
  have h2 : -(su * sv) < d := by
    by_contra hc
    have hle : d ≤ -(su * sv) := not_lt.mp hc
    have hneg : su * sv ≤ -d := by linarith
    have := mul_self_le_mul_self (le_of_lt hs) hneg
    have e : -d * -d = d * d := by ring
    linarith
  have c1 : -1 < d / (su * sv) := by
    rw [lt_div_iff₀ hs]; linarith
  have c2 : d / (su * sv) < 1 := by
    rw [div_lt_one hs]; exact h1
  simp only [cosStrict, c1, c2, decide_true, Bool.and_self]

/-- the converse: where `set_abc` accepts the angle between two vectors, they are not parallel (two parallel cell
    vectors — an exactly singular cell — are refused). -/
theorem cross_pos_of_cos_strict (sqrt : K → K) (u v : V3 K) (hu : SqrtAt sqrt (V3.normSq u))
    (hv : SqrtAt sqrt (V3.normSq v))
    (h : cosStrict (V3.dot u v / (sqrt (V3.normSq u) * sqrt (V3.normSq v))) = true) :
    0 < V3.normSq (V3.cross u v) := by
  obtain ⟨hu2, hu0⟩ := hu
  obtain ⟨hv2, hv0⟩ := hv
  have hs : 0 < sqrt (V3.normSq u) * sqrt (V3.normSq v) := mul_pos hu0 hv0
  have hl := lagrange u v
  simp only [cosStrict, Bool.and_eq_true, decide_eq_true_eq] at h
  obtain ⟨c1, c2⟩ := h
  rw [lt_div_iff₀ hs] at c1
  rw [div_lt_one hs] at c2
  generalize sqrt (V3.normSq u) = su at *
  generalize sqrt (V3.normSq v) = sv at *
  generalize V3.dot u v = d at *
  have e : V3.normSq u * V3.normSq v = (su * sv) * (su * sv) := by rw [← hu2, ← hv2]; ring
  have hp : 0 < (su * sv - d) * (su * sv + d) := mul_pos (by linarith) (by linarith)
  rw [← hl, e]
  linarith

/-- **angleGuard_of_det_ne_zero**: the lattice angles of a non-singular cell pass the check of `set_abc`. -/
theorem angleGuard_of_det_ne_zero (sqrt : K → K) (v : M3 K) (hdet : M3.det v ≠ 0)
    (ha : SqrtAt sqrt (V3.normSq v.r0)) (hb : SqrtAt sqrt (V3.normSq v.r1)) (hc : SqrtAt sqrt (V3.normSq v.r2)) :
    angleGuard sqrt v = true := by
  have h01 : 0 < V3.normSq (V3.cross v.r0 v.r1) := normSq_cross_pos v hdet
  have h12 : 0 < V3.normSq (V3.cross v.r1 v.r2) := by
    apply cross_pos_of_triple v.r1 v.r2 v.r0
    intro h; apply hdet
    obtain ⟨⟨a0, a1, a2⟩, ⟨a3, a4, a5⟩, ⟨a6, a7, a8⟩⟩ := v
    simp only [M3.det, V3.dot, V3.cross] at *
    linear_combination h
  have h02 : 0 < V3.normSq (V3.cross v.r0 v.r2) := by
    apply cross_pos_of_triple v.r0 v.r2 v.r1
    intro h; apply hdet
    obtain ⟨⟨a0, a1, a2⟩, ⟨a3, a4, a5⟩, ⟨a6, a7, a8⟩⟩ := v
    simp only [M3.det, V3.dot, V3.cross] at *
    linear_combination -h
  have g1 := cos_strict sqrt v.r1 v.r2 hb hc h12
  have g2 := cos_strict sqrt v.r0 v.r2 ha hc h02
  have g3 := cos_strict sqrt v.r0 v.r1 ha hb h01
  simp only [angleGuard, cosAlpha, cosBeta, cosGamma, lenA, lenB, lenC, g1, g2, g3, Bool.and_self]

end misc

end Atomman.C05
