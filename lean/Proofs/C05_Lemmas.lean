/-
  C05 helper lemmas: componentwise forms, inverse cancellation for a non-singular cell, floor,
  running min/max, and the little 3x3 matrix algebra needed for the rotation theorem.
  (Deliberately independent of Proofs/C01_Lemmas.lean.)
-/
import Atomman.C05
import Mathlib.Tactic.Ring
import Mathlib.Tactic.FieldSimp
import Mathlib.Tactic.Linarith
import Mathlib.Tactic.Positivity
import Mathlib.Algebra.Order.Field.Basic
import Mathlib.Algebra.Order.Ring.Cast

namespace Atomman.C05
open Atomman
set_option linter.unusedSimpArgs false
set_option linter.unusedSectionVars false
set_option linter.unusedVariables false

/-! ### componentwise forms -/
section comp
variable {K : Type}

theorem V3.add_def [Add K] (a b : V3 K) : a + b = ⟨a.x + b.x, a.y + b.y, a.z + b.z⟩ := rfl
theorem V3.sub_def [Sub K] (a b : V3 K) : a - b = ⟨a.x - b.x, a.y - b.y, a.z - b.z⟩ := rfl
theorem V3.neg_def [Neg K] (a : V3 K) : -a = ⟨-a.x, -a.y, -a.z⟩ := rfl

end comp

/-! ### inverse cancellation for a non-singular cell -/
section field
variable {K : Type} [Field K]

theorem cartToRel_relToCart (b : Box K) (h : M3.det b.vects ≠ 0) (s : V3 K) :
    b.cartToRel (b.relToCart s) = s := by
  obtain ⟨⟨⟨a0, a1, a2⟩, ⟨b0, b1, b2⟩, ⟨c0, c1, c2⟩⟩, ⟨o0, o1, o2⟩⟩ := b
  obtain ⟨x, y, z⟩ := s
  simp only [M3.det, V3.dot, V3.cross] at h
  simp only [Box.cartToRel, Box.relToCart, Box.recip, M3.inv, M3.transpose, M3.mulVec, M3.vecMul, M3.det,
    V3.dot, V3.cross, V3.add_def, V3.sub_def, V3.mk.injEq]
  generalize hd : a0 * (b1 * c2 - b2 * c1) + a1 * (b2 * c0 - b0 * c2) + a2 * (b0 * c1 - b1 * c0) = d at h ⊢
  refine ⟨?_, ?_, ?_⟩ <;> field_simp <;> rw [← hd] <;> ring

theorem relToCart_cartToRel (b : Box K) (h : M3.det b.vects ≠ 0) (p : V3 K) :
    b.relToCart (b.cartToRel p) = p := by
  obtain ⟨⟨⟨a0, a1, a2⟩, ⟨b0, b1, b2⟩, ⟨c0, c1, c2⟩⟩, ⟨o0, o1, o2⟩⟩ := b
  obtain ⟨x, y, z⟩ := p
  simp only [M3.det, V3.dot, V3.cross] at h
  simp only [Box.cartToRel, Box.relToCart, Box.recip, M3.inv, M3.transpose, M3.mulVec, M3.vecMul, M3.det,
    V3.dot, V3.cross, V3.add_def, V3.sub_def, V3.mk.injEq]
  generalize hd : a0 * (b1 * c2 - b2 * c1) + a1 * (b2 * c0 - b0 * c2) + a2 * (b0 * c1 - b1 * c0) = d at h ⊢
  refine ⟨?_, ?_, ?_⟩ <;> field_simp <;> rw [← hd] <;> ring

/-- two relative descriptions of the same Cartesian point coincide. -/
theorem relToCart_inj (b : Box K) (h : M3.det b.vects ≠ 0) (s t : V3 K)
    (e : b.relToCart s = b.relToCart t) : s = t := by
  rw [← cartToRel_relToCart b h s, ← cartToRel_relToCart b h t, e]

/-- determinant of the padded cell. -/
theorem det_paddedBox (b : Box K) (bd : V3 (K × K)) :
    M3.det (paddedBox b bd).vects
      = (bd.x.2 - bd.x.1) * (bd.y.2 - bd.y.1) * (bd.z.2 - bd.z.1) * M3.det b.vects := by
  simp only [paddedBox, M3.det, V3.dot, V3.cross, V3.smul]
  ring

/-- the padded box describes the point with old relative coordinates `s` by `(s - mins)/(maxs - mins)`. -/
theorem relToCart_paddedBox (b : Box K) (bd : V3 (K × K)) (s : V3 K)
    (hx : bd.x.2 - bd.x.1 ≠ 0) (hy : bd.y.2 - bd.y.1 ≠ 0) (hz : bd.z.2 - bd.z.1 ≠ 0) :
    (paddedBox b bd).relToCart
        ⟨(s.x - bd.x.1) / (bd.x.2 - bd.x.1), (s.y - bd.y.1) / (bd.y.2 - bd.y.1),
         (s.z - bd.z.1) / (bd.z.2 - bd.z.1)⟩
      = b.relToCart s := by
  obtain ⟨⟨⟨a0, a1, a2⟩, ⟨b0, b1, b2⟩, ⟨c0, c1, c2⟩⟩, ⟨o0, o1, o2⟩⟩ := b
  obtain ⟨x, y, z⟩ := s
  obtain ⟨⟨x1, x2⟩, ⟨y1, y2⟩, ⟨z1, z2⟩⟩ := bd
  simp only [paddedBox, Box.relToCart, M3.vecMul, V3.smul, V3.add_def, V3.mk.injEq] at *
  refine ⟨?_, ?_, ?_⟩ <;> field_simp <;> ring

end field

/-! ### floor -/
section floor
variable {K : Type} [Field K] [LinearOrder K] [IsStrictOrderedRing K]

/-- what is assumed of `numpy.floor` + cast: `fl s ≤ s < fl s + 1`. -/
def IsFloor (fl : K → Int) : Prop := ∀ s : K, ((fl s : Int) : K) ≤ s ∧ s < ((fl s : Int) : K) + 1

theorem IsFloor.eq_zero {fl : K → Int} (h : IsFloor fl) {t : K} (h0 : 0 ≤ t) (h1 : t < 1) : fl t = 0 := by
  obtain ⟨ha, hb⟩ := h t
  have h2 : ((fl t : Int) : K) < ((1 : Int) : K) := by
    rw [Int.cast_one]; exact lt_of_le_of_lt ha h1
  have h3 : (((-1 : Int)) : K) < ((fl t : Int) : K) := by
    rw [Int.cast_neg, Int.cast_one]; linarith
  have h4 : fl t < 1 := Int.cast_lt.mp h2
  have h5 : -1 < fl t := Int.cast_lt.mp h3
  omega

end floor

/-! ### running minimum / maximum -/
section minmax
variable {K : Type} [LinearOrder K]

theorem minOf_le_init (init : K) (l : List K) : minOf init l ≤ init := by
  induction l generalizing init with
  | nil => exact le_refl _
  | cons a t ih =>
    simp only [minOf, List.foldl_cons] at ih ⊢
    split
    · exact le_trans (ih a) (le_of_lt ‹_›)
    · exact ih init

theorem minOf_le_mem (init : K) (l : List K) : ∀ x ∈ l, minOf init l ≤ x := by
  induction l generalizing init with
  | nil => intro x hx; cases hx
  | cons a t ih =>
    intro x hx
    simp only [minOf, List.foldl_cons] at ih ⊢
    rcases List.mem_cons.mp hx with rfl | hx
    · split
      · exact minOf_le_init _ t
      · exact le_trans (minOf_le_init _ t) (not_lt.mp ‹_›)
    · exact ih _ x hx

theorem maxOf_ge_init (init : K) (l : List K) : init ≤ maxOf init l := by
  induction l generalizing init with
  | nil => exact le_refl _
  | cons a t ih =>
    simp only [maxOf, List.foldl_cons] at ih ⊢
    split
    · exact le_trans (le_of_lt ‹_›) (ih a)
    · exact ih init

theorem maxOf_ge_mem (init : K) (l : List K) : ∀ x ∈ l, x ≤ maxOf init l := by
  induction l generalizing init with
  | nil => intro x hx; cases hx
  | cons a t ih =>
    intro x hx
    simp only [maxOf, List.foldl_cons] at ih ⊢
    rcases List.mem_cons.mp hx with rfl | hx
    · split
      · exact maxOf_ge_init _ t
      · exact le_trans (not_lt.mp ‹_›) (maxOf_ge_init _ t)
    · exact ih _ x hx

/-- the running minimum is one of the values (so a strict bound on all values bounds it). -/
theorem lt_minOf (c init : K) (l : List K) (h0 : c < init) (h : ∀ x ∈ l, c < x) : c < minOf init l := by
  induction l generalizing init with
  | nil => exact h0
  | cons a t ih =>
    simp only [minOf, List.foldl_cons] at ih ⊢
    split
    · exact ih a (h a List.mem_cons_self) (fun x hx => h x (List.mem_cons_of_mem _ hx))
    · exact ih init h0 (fun x hx => h x (List.mem_cons_of_mem _ hx))

theorem maxOf_lt (c init : K) (l : List K) (h0 : init < c) (h : ∀ x ∈ l, x < c) : maxOf init l < c := by
  induction l generalizing init with
  | nil => exact h0
  | cons a t ih =>
    simp only [maxOf, List.foldl_cons] at ih ⊢
    split
    · exact ih a (h a List.mem_cons_self) (fun x hx => h x (List.mem_cons_of_mem _ hx))
    · exact ih init h0 (fun x hx => h x (List.mem_cons_of_mem _ hx))

end minmax

/-! ### bounds of one axis -/
section axis
variable {K : Type} [Field K] [LinearOrder K] [IsStrictOrderedRing K]

theorem axisBounds_periodic (pad : K) (ss : List K) : axisBounds pad true ss = (0, 1) := by
  simp [axisBounds]

/-- bounds always contain `[0,1]`; on a non-periodic axis every coordinate is strictly between them. -/
theorem axisBounds_spec (pad : K) (hpad : 0 < pad) (p : Bool) (ss : List K) :
    (axisBounds pad p ss).1 ≤ 0 ∧ 1 ≤ (axisBounds pad p ss).2 ∧
    (p = false → ∀ x ∈ ss, (axisBounds pad p ss).1 < x ∧ x < (axisBounds pad p ss).2) := by
  cases p with
  | true => simp [axisBounds]
  | false =>
    cases ss with
    | nil => simp [axisBounds]
    | cons a t =>
      have hmin : ∀ x ∈ a :: t, minOf a t ≤ x := by
        intro x hx
        rcases List.mem_cons.mp hx with rfl | hx
        · exact minOf_le_init _ _
        · exact minOf_le_mem _ _ x hx
      have hmax : ∀ x ∈ a :: t, x ≤ maxOf a t := by
        intro x hx
        rcases List.mem_cons.mp hx with rfl | hx
        · exact maxOf_ge_init _ _
        · exact maxOf_ge_mem _ _ x hx
      simp only [axisBounds, Bool.false_eq_true, if_false]
      refine ⟨?_, ?_, fun _ x hx => ⟨?_, ?_⟩⟩
      · split <;> linarith
      · split <;> linarith
      · have := hmin x hx
        split
        · linarith
        · linarith
      · have := hmax x hx
        split
        · linarith
        · linarith

end axis

/-! ### one atom, one axis -/
section atom
variable {K : Type} [Field K] [LinearOrder K] [IsStrictOrderedRing K]

theorem relToCart_subFlags (b : Box K) (s : V3 K) (f : V3 Int) :
    b.relToCart (subFlags s f) + latticeVec b.vects f = b.relToCart s := by
  simp only [Box.relToCart, subFlags, latticeVec, M3.vecMul, V3.add_def, V3.mk.injEq]
  refine ⟨?_, ?_, ?_⟩ <;> ring

/-- one atom: new position plus image flags times the OLD cell vectors is the old position. -/
theorem atom_reconstruct (fl : K → Int) (b : Box K) (hdet : M3.det b.vects ≠ 0) (pbc : V3 Bool) (p : V3 K) :
    atomPos fl b pbc p + latticeVec b.vects (atomFlags fl b pbc p) = p := by
  rw [atomPos, relToCart_subFlags, relToCart_cartToRel b hdet]

theorem atomFlags_nonperiodic (fl : K → Int) (b : Box K) (pbc : V3 Bool) (p : V3 K) :
    (pbc.x = false → (atomFlags fl b pbc p).x = 0) ∧ (pbc.y = false → (atomFlags fl b pbc p).y = 0) ∧
    (pbc.z = false → (atomFlags fl b pbc p).z = 0) := by
  refine ⟨?_, ?_, ?_⟩ <;> intro h <;> simp [atomFlags, flagsOf, flagOf, h]

theorem axis_facts (fl : K → Int) (hfl : IsFloor fl) (pad : K) (hpad : 0 < pad) (p : Bool) (ss : List K)
    (s : K) (hs : s ∈ ss) :
    (p = true → axisBounds pad p ss = (0, 1) ∧ 0 ≤ s - ((flagOf fl p s : Int) : K) ∧
        s - ((flagOf fl p s : Int) : K) < 1) ∧
    (p = false → flagOf fl p s = 0 ∧ (axisBounds pad p ss).1 < s ∧ s < (axisBounds pad p ss).2) := by
  constructor
  · intro hp; subst hp
    obtain ⟨h1, h2⟩ := hfl s
    refine ⟨axisBounds_periodic pad ss, ?_, ?_⟩ <;> simp only [flagOf, if_true] <;> linarith
  · intro hp; subst hp
    obtain ⟨_, _, h⟩ := axisBounds_spec pad hpad false ss
    exact ⟨by simp [flagOf], h rfl s hs⟩

theorem axis_unit (fl : K → Int) (hfl : IsFloor fl) (pad : K) (hpad : 0 < pad) (p : Bool) (ss : List K)
    (s : K) (hs : s ∈ ss) :
    let lo := (axisBounds pad p ss).1
    let hi := (axisBounds pad p ss).2
    let t := (s - ((flagOf fl p s : Int) : K) - lo) / (hi - lo)
    1 ≤ hi - lo ∧ 0 ≤ t ∧ t < 1 ∧ (p = false → 0 < t) := by
  intro lo hi t
  obtain ⟨hlo, hhi, _⟩ := axisBounds_spec pad hpad p ss
  have hw : 1 ≤ hi - lo := by simp only [lo, hi]; linarith
  have hwp : 0 < hi - lo := by linarith
  obtain ⟨hT, hF⟩ := axis_facts fl hfl pad hpad p ss s hs
  cases p with
  | true =>
    obtain ⟨hb, h0, h1⟩ := hT rfl
    have e1 : lo = 0 := by simp only [lo, hb]
    have e2 : hi = 1 := by simp only [hi, hb]
    refine ⟨hw, ?_, ?_, by simp⟩
    · exact div_nonneg (by rw [e1]; linarith) hwp.le
    · rw [div_lt_one hwp, e1, e2]; linarith
  | false =>
    obtain ⟨hf, h0, h1⟩ := hF rfl
    have h0' : lo < s := h0
    have h1' : s < hi := h1
    have ht : 0 < t := by
      apply div_pos _ hwp
      rw [hf, Int.cast_zero]; linarith
    refine ⟨hw, ht.le, ?_, fun _ => ht⟩
    rw [div_lt_one hwp, hf, Int.cast_zero]; linarith

/-- relative coordinates, in the NEW box, of the new position of an atom of the system. -/
def newRel (fl : K → Int) (pad : K) (b : Box K) (pbc : V3 Bool) (pos : List (V3 K)) (p : V3 K) : V3 K :=
  let s := b.cartToRel p
  let bd := bounds pad pbc (pos.map b.cartToRel)
  ⟨(s.x - ((flagOf fl pbc.x s.x : Int) : K) - bd.x.1) / (bd.x.2 - bd.x.1),
   (s.y - ((flagOf fl pbc.y s.y : Int) : K) - bd.y.1) / (bd.y.2 - bd.y.1),
   (s.z - ((flagOf fl pbc.z s.z : Int) : K) - bd.z.1) / (bd.z.2 - bd.z.1)⟩

theorem bounds_width (pad : K) (hpad : 0 < pad) (pbc : V3 Bool) (spos : List (V3 K)) :
    1 ≤ (bounds pad pbc spos).x.2 - (bounds pad pbc spos).x.1 ∧
    1 ≤ (bounds pad pbc spos).y.2 - (bounds pad pbc spos).y.1 ∧
    1 ≤ (bounds pad pbc spos).z.2 - (bounds pad pbc spos).z.1 := by
  simp only [bounds]
  obtain ⟨a1, a2, _⟩ := axisBounds_spec pad hpad pbc.x (spos.map (·.x))
  obtain ⟨b1, b2, _⟩ := axisBounds_spec pad hpad pbc.y (spos.map (·.y))
  obtain ⟨c1, c2, _⟩ := axisBounds_spec pad hpad pbc.z (spos.map (·.z))
  refine ⟨?_, ?_, ?_⟩ <;> linarith

theorem det_wrap_ne_zero (fl : K → Int) (pad : K) (hpad : 0 < pad) (b : Box K) (hdet : M3.det b.vects ≠ 0)
    (pbc : V3 Bool) (pos : List (V3 K)) : M3.det (wrap fl pad b pbc pos).box.vects ≠ 0 := by
  obtain ⟨hx, hy, hz⟩ := bounds_width pad hpad pbc (pos.map b.cartToRel)
  simp only [wrap, det_paddedBox]
  have hx' : (bounds pad pbc (pos.map b.cartToRel)).x.2 - (bounds pad pbc (pos.map b.cartToRel)).x.1 ≠ 0 := by
    intro h; rw [h] at hx; linarith
  have hy' : (bounds pad pbc (pos.map b.cartToRel)).y.2 - (bounds pad pbc (pos.map b.cartToRel)).y.1 ≠ 0 := by
    intro h; rw [h] at hy; linarith
  have hz' : (bounds pad pbc (pos.map b.cartToRel)).z.2 - (bounds pad pbc (pos.map b.cartToRel)).z.1 ≠ 0 := by
    intro h; rw [h] at hz; linarith
  exact mul_ne_zero (mul_ne_zero (mul_ne_zero hx' hy') hz') hdet

/-- the new box sees the new position of every atom at `newRel`. -/
theorem wrap_cartToRel (fl : K → Int) (pad : K) (hpad : 0 < pad) (b : Box K) (hdet : M3.det b.vects ≠ 0)
    (pbc : V3 Bool) (pos : List (V3 K)) (p : V3 K) :
    (wrap fl pad b pbc pos).box.cartToRel (atomPos fl b pbc p) = newRel fl pad b pbc pos p := by
  obtain ⟨hx, hy, hz⟩ := bounds_width pad hpad pbc (pos.map b.cartToRel)
  have hd := det_wrap_ne_zero fl pad hpad b hdet pbc pos
  have e := relToCart_paddedBox b (bounds pad pbc (pos.map b.cartToRel))
    (subFlags (b.cartToRel p) (atomFlags fl b pbc p))
    (by intro h; rw [h] at hx; linarith) (by intro h; rw [h] at hy; linarith) (by intro h; rw [h] at hz; linarith)
  rw [atomPos, ← e]
  exact cartToRel_relToCart _ hd _

theorem smul_one_sub_zero (v : V3 K) : V3.smul ((1 : K) - 0) v = v := by
  obtain ⟨x, y, z⟩ := v
  simp only [V3.smul, sub_zero, one_mul]

theorem axisBounds_of_strict (pad : K) (p : Bool) (ss : List K)
    (h : p = false → ∀ x ∈ ss, 0 < x ∧ x < 1) : axisBounds pad p ss = (0, 1) := by
  cases p with
  | true => exact axisBounds_periodic pad ss
  | false =>
    cases ss with
    | nil => simp [axisBounds]
    | cons a t =>
      have ha := h rfl a List.mem_cons_self
      have h1 : 0 < minOf a t := lt_minOf 0 a t ha.1 (fun x hx => (h rfl x (List.mem_cons_of_mem _ hx)).1)
      have h2 : maxOf a t < 1 := maxOf_lt 1 a t ha.2 (fun x hx => (h rfl x (List.mem_cons_of_mem _ hx)).2)
      simp only [axisBounds, Bool.false_eq_true, if_false, not_le.mpr h1, not_le.mpr h2]

theorem paddedBox_unit (b : Box K) : paddedBox b ⟨(0, 1), (0, 1), (0, 1)⟩ = b := by
  obtain ⟨⟨r0, r1, r2⟩, ⟨o0, o1, o2⟩⟩ := b
  simp only [paddedBox, smul_one_sub_zero, M3.vecMul, V3.add_def, zero_mul, add_zero]

theorem subFlags_zero (s : V3 K) : subFlags s ⟨0, 0, 0⟩ = s := by
  obtain ⟨x, y, z⟩ := s
  simp only [subFlags, Int.cast_zero, sub_zero]

/-- components of `newRel` for an atom of the system: in `[0,1)`, positive on non-periodic axes. -/
theorem newRel_facts (fl : K → Int) (hfl : IsFloor fl) (pad : K) (hpad : 0 < pad) (b : Box K) (pbc : V3 Bool)
    (pos : List (V3 K)) (p : V3 K) (hp : p ∈ pos) :
    (0 ≤ (newRel fl pad b pbc pos p).x ∧ (newRel fl pad b pbc pos p).x < 1 ∧
      (pbc.x = false → 0 < (newRel fl pad b pbc pos p).x)) ∧
    (0 ≤ (newRel fl pad b pbc pos p).y ∧ (newRel fl pad b pbc pos p).y < 1 ∧
      (pbc.y = false → 0 < (newRel fl pad b pbc pos p).y)) ∧
    (0 ≤ (newRel fl pad b pbc pos p).z ∧ (newRel fl pad b pbc pos p).z < 1 ∧
      (pbc.z = false → 0 < (newRel fl pad b pbc pos p).z)) := by
  have mx : (b.cartToRel p).x ∈ (pos.map b.cartToRel).map (·.x) :=
    List.mem_map.mpr ⟨_, List.mem_map.mpr ⟨p, hp, rfl⟩, rfl⟩
  have my : (b.cartToRel p).y ∈ (pos.map b.cartToRel).map (·.y) :=
    List.mem_map.mpr ⟨_, List.mem_map.mpr ⟨p, hp, rfl⟩, rfl⟩
  have mz : (b.cartToRel p).z ∈ (pos.map b.cartToRel).map (·.z) :=
    List.mem_map.mpr ⟨_, List.mem_map.mpr ⟨p, hp, rfl⟩, rfl⟩
  obtain ⟨_, x0, x1, x2⟩ := axis_unit fl hfl pad hpad pbc.x _ _ mx
  obtain ⟨_, y0, y1, y2⟩ := axis_unit fl hfl pad hpad pbc.y _ _ my
  obtain ⟨_, z0, z1, z2⟩ := axis_unit fl hfl pad hpad pbc.z _ _ mz
  exact ⟨⟨x0, x1, x2⟩, ⟨y0, y1, y2⟩, ⟨z0, z1, z2⟩⟩

theorem flagOf_unit (fl : K → Int) (hfl : IsFloor fl) (p : Bool) (t : K) (h0 : 0 ≤ t) (h1 : t < 1) :
    flagOf fl p t = 0 := by
  cases p with
  | true => simp only [flagOf, if_true]; exact hfl.eq_zero h0 h1
  | false => simp [flagOf]

end atom

end Atomman.C05
