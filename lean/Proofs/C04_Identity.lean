/-
  C04 — the "no rotation" shortcut of `rotate` (uvws = identity) agrees with the general path
  (bounding supercell + filter): for atoms inside the box the only kept image of an atom is the atom
  itself moved by whole cell vectors into the cell at the Cartesian origin.
-/
import Proofs.C04_Count
namespace Atomman.C04
open Atomman
set_option linter.unusedSectionVars false
variable {K : Type} [Field K] [LinearOrder K] [IsStrictOrderedRing K] [FloorRing K]

theorem newVects_one (V : M3 K) : newVects (M3.one : M3 Int) V = V := by
  ext <;> simp [newVects, M3.one, M3.mul, M3.vecMul, V3.map]

theorem det_one : M3.det (M3.one : M3 Int) = 1 := by decide

/-- for the identity the only kept image of an atom inside the box is the atom wrapped into the cell at the
    Cartesian origin. -/
theorem imagesOf_one (fl : K → Int) (hfl : ∀ x, fl x = ⌊x⌋) (b : Box K) (hV : M3.det b.vects ≠ 0)
    (a : Atom K) (ha : InBox (b.cartToRel a.pos)) :
    imagesOf fl b M3.one a = [wrapAtom fl b a] := by
  have hU : M3.det (M3.one : M3 Int) ≠ 0 := by rw [det_one]; exact one_ne_zero
  have hlen := imagesOf_length fl hfl b hV M3.one hU a ha
  rw [det_one] at hlen
  set s := (⟨b.vects, ⟨0, 0, 0⟩⟩ : Box K).cartToRel a.pos with hs
  set n : V3 Int := ⟨-⌊s.x⌋, -⌊s.y⌋, -⌊s.z⌋⟩ with hn
  have hpos : a.pos + M3.vecMul (castV n) b.vects = (wrapAtom fl b a).pos := by
    simp only [wrapAtom, hfl, ← hs]
    ext <;> simp only [V3.add_def, V3.sub_def, M3.vecMul, castV, hn, Int.cast_neg] <;> ring
  have hq : InCell ((⟨newVects M3.one b.vects, ⟨0, 0, 0⟩⟩ : Box K).cartToRel (a.pos + M3.vecMul (castV n) b.vects)) := by
    rw [newVects_one]
    have e : (⟨b.vects, ⟨0, 0, 0⟩⟩ : Box K).cartToRel (a.pos + M3.vecMul (castV n) b.vects) = s + castV n := by
      rw [hs, cartToRel_eq, cartToRel_eq]
      have e1 : a.pos + M3.vecMul (castV n) b.vects - (⟨b.vects, ⟨0, 0, 0⟩⟩ : Box K).origin
          = a.pos + M3.vecMul (castV n) b.vects := by ext <;> simp
      have e2 : a.pos - (⟨b.vects, ⟨0, 0, 0⟩⟩ : Box K).origin = a.pos := by ext <;> simp
      rw [e1, e2]
      have lin : ∀ u v : V3 K, M3.vecMul (u + v) (M3.inv b.vects)
          = M3.vecMul u (M3.inv b.vects) + M3.vecMul v (M3.inv b.vects) := by
        intro u v; ext <;> simp only [M3.vecMul, V3.add_def] <;> ring
      rw [lin, vecMul_inv_cancel _ hV]
    rw [e]
    simp only [InCell, V3.add_def, castV, hn, Int.cast_neg]
    refine ⟨?_, ?_, ?_, ?_, ?_, ?_⟩
    · linarith [Int.floor_le s.x]
    · linarith [Int.lt_floor_add_one s.x]
    · linarith [Int.floor_le s.y]
    · linarith [Int.lt_floor_add_one s.y]
    · linarith [Int.floor_le s.z]
    · linarith [Int.lt_floor_add_one s.z]
  obtain ⟨a', hmem, hp, ht, he⟩ := imagesOf_complete fl hfl b hV M3.one hU a ha n hq
  have ha' : a' = wrapAtom fl b a := by
    obtain ⟨t, p, e⟩ := a'
    simp only at hp ht he
    rw [hpos] at hp
    subst hp ht he
    rfl
  match hl : imagesOf fl b M3.one a, hlen with
  | [x], _ =>
    rw [hl] at hmem
    rw [List.mem_singleton] at hmem
    rw [← hmem, ha']

/-- **identity shortcut = general path**: for atoms inside the box `rotateRaw` with `U = 1` keeps, up to order,
    exactly the atoms of `rotateIdentity`. -/
theorem rotateRaw_one (fl : K → Int) (hfl : ∀ x, fl x = ⌊x⌋) (b : Box K) (hV : M3.det b.vects ≠ 0)
    (atoms : List (Atom K)) (hin : ∀ a ∈ atoms, InBox (b.cartToRel a.pos)) :
    ∃ kept, rotateRaw fl b M3.one atoms = some ((rotateIdentity fl b atoms).1, kept) ∧
      kept.Perm (rotateIdentity fl b atoms).2 := by
  have hU : M3.det (M3.one : M3 Int) ≠ 0 := by rw [det_one]; exact one_ne_zero
  have h := rotateRaw_eq fl b M3.one atoms hU
  rw [newVects_one] at h
  refine ⟨_, h, ?_⟩
  have hp := rotateRaw_perm fl b M3.one atoms _ _ h
  rw [List.flatMap_congr (fun a ha => imagesOf_one fl hfl b hV a (hin a ha)), flatMap_singleton_eq_map] at hp
  exact hp

end Atomman.C04
