import Atomman.C05
namespace Atomman.C05
end Atomman.C05
