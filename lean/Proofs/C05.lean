/-
  C05 — property theorems for the model of `System.wrap` / `atomman.lammps.normalize`
  (lean/Atomman/C05.lean).  `K` is any linearly ordered field (ℚ, ℝ, …).
-/
import Proofs.C05_Lemmas
import Proofs.C05_Hist
import Proofs.C05_Source
import Proofs.C05_Clean
import Proofs.C05_Heap
import Mathlib.Analysis.Real.Sqrt
import Mathlib.Analysis.SpecialFunctions.Trigonometric.Inverse
import Mathlib.Data.Rat.Floor

namespace Atomman.C05
open Atomman
set_option linter.unusedSimpArgs false
set_option linter.unusedSectionVars false
set_option linter.unusedVariables false

variable {K : Type} [Field K] [LinearOrder K] [IsStrictOrderedRing K]

/-! ## wrap -/

/-- **wrap_reconstruct**: the returned image flags reconstruct the original positions with the original
    cell vectors, and are zero along non-periodic directions (atoms are not moved there). -/
theorem wrap_reconstruct (fl : K → Int) (pad : K) (b : Box K) (hdet : M3.det b.vects ≠ 0) (pbc : V3 Bool)
    (pos : List (V3 K)) :
    List.zipWith (fun p' f => p' + latticeVec b.vects f) (wrap fl pad b pbc pos).pos (wrap fl pad b pbc pos).flags
      = pos ∧
    (wrap fl pad b pbc pos).pos.length = pos.length ∧ (wrap fl pad b pbc pos).flags.length = pos.length ∧
    ∀ f ∈ (wrap fl pad b pbc pos).flags,
      (pbc.x = false → f.x = 0) ∧ (pbc.y = false → f.y = 0) ∧ (pbc.z = false → f.z = 0) := by
  refine ⟨?_, by simp [wrap], by simp [wrap], ?_⟩
  · simp only [wrap, List.zipWith_map_left, List.zipWith_map_right, List.zipWith_self]
    conv_rhs => rw [← List.map_id pos]
    apply List.map_congr_left
    intro p _
    exact atom_reconstruct fl b hdet pbc p
  · intro f hf
    simp only [wrap, List.mem_map] at hf
    obtain ⟨p, _, rfl⟩ := hf
    exact atomFlags_nonperiodic fl b pbc p

/-- **wrap_inside**: after `wrap` every atom is inside the new box (faces included). -/
theorem wrap_inside (fl : K → Int) (hfl : IsFloor fl) (pad : K) (hpad : 0 < pad) (b : Box K)
    (hdet : M3.det b.vects ≠ 0) (pbc : V3 Bool) (pos : List (V3 K)) :
    ∀ p' ∈ (wrap fl pad b pbc pos).pos, insideRel ((wrap fl pad b pbc pos).box.cartToRel p') := by
  intro p' hp'
  simp only [wrap, List.mem_map] at hp'
  obtain ⟨p, hp, rfl⟩ := hp'
  have e := wrap_cartToRel fl pad hpad b hdet pbc pos p
  rw [e]
  have mx : (b.cartToRel p).x ∈ (pos.map b.cartToRel).map (·.x) :=
    List.mem_map.mpr ⟨_, List.mem_map.mpr ⟨p, hp, rfl⟩, rfl⟩
  have my : (b.cartToRel p).y ∈ (pos.map b.cartToRel).map (·.y) :=
    List.mem_map.mpr ⟨_, List.mem_map.mpr ⟨p, hp, rfl⟩, rfl⟩
  have mz : (b.cartToRel p).z ∈ (pos.map b.cartToRel).map (·.z) :=
    List.mem_map.mpr ⟨_, List.mem_map.mpr ⟨p, hp, rfl⟩, rfl⟩
  obtain ⟨_, x0, x1, _⟩ := axis_unit fl hfl pad hpad pbc.x _ _ mx
  obtain ⟨_, y0, y1, _⟩ := axis_unit fl hfl pad hpad pbc.y _ _ my
  obtain ⟨_, z0, z1, _⟩ := axis_unit fl hfl pad hpad pbc.z _ _ mz
  exact ⟨x0, x1.le, y0, y1.le, z0, z1.le⟩

/-- **wrap_periodic_axes_fixed**: periodic cell vectors are untouched; every new cell vector is the old
    one times a factor `≥ 1` (non-periodic ones are only lengthened); the origin moves only along
    non-periodic directions and only backwards; a fully periodic box is returned unchanged; the old
    cell is contained in the new one. -/
theorem wrap_periodic_axes_fixed (fl : K → Int) (pad : K) (hpad : 0 < pad) (b : Box K) (pbc : V3 Bool)
    (pos : List (V3 K)) :
    ((pbc.x = true → (wrap fl pad b pbc pos).box.vects.r0 = b.vects.r0) ∧
     (pbc.y = true → (wrap fl pad b pbc pos).box.vects.r1 = b.vects.r1) ∧
     (pbc.z = true → (wrap fl pad b pbc pos).box.vects.r2 = b.vects.r2)) ∧
    (∃ kx ky kz : K, 1 ≤ kx ∧ 1 ≤ ky ∧ 1 ≤ kz ∧
      (wrap fl pad b pbc pos).box.vects = ⟨V3.smul kx b.vects.r0, V3.smul ky b.vects.r1, V3.smul kz b.vects.r2⟩) ∧
    (∃ m : V3 K, m.x ≤ 0 ∧ m.y ≤ 0 ∧ m.z ≤ 0 ∧ (pbc.x = true → m.x = 0) ∧ (pbc.y = true → m.y = 0) ∧
      (pbc.z = true → m.z = 0) ∧ (wrap fl pad b pbc pos).box.origin = b.origin + M3.vecMul m b.vects) ∧
    (pbc = ⟨true, true, true⟩ → (wrap fl pad b pbc pos).box = b) ∧
    (M3.det b.vects ≠ 0 → ∀ t : V3 K, insideRel t →
      insideRel ((wrap fl pad b pbc pos).box.cartToRel (b.relToCart t))) := by
  obtain ⟨wx, wy, wz⟩ := bounds_width pad hpad pbc (pos.map b.cartToRel)
  obtain ⟨x1, x2, _⟩ := axisBounds_spec pad hpad pbc.x ((pos.map b.cartToRel).map (·.x))
  obtain ⟨y1, y2, _⟩ := axisBounds_spec pad hpad pbc.y ((pos.map b.cartToRel).map (·.y))
  obtain ⟨z1, z2, _⟩ := axisBounds_spec pad hpad pbc.z ((pos.map b.cartToRel).map (·.z))
  refine ⟨⟨?_, ?_, ?_⟩, ?_, ?_, ?_, ?_⟩
  · intro h; simp only [wrap, paddedBox, bounds, h, axisBounds_periodic, smul_one_sub_zero]
  · intro h; simp only [wrap, paddedBox, bounds, h, axisBounds_periodic, smul_one_sub_zero]
  · intro h; simp only [wrap, paddedBox, bounds, h, axisBounds_periodic, smul_one_sub_zero]
  · exact ⟨_, _, _, wx, wy, wz, rfl⟩
  · refine ⟨⟨(bounds pad pbc (pos.map b.cartToRel)).x.1, (bounds pad pbc (pos.map b.cartToRel)).y.1,
      (bounds pad pbc (pos.map b.cartToRel)).z.1⟩, x1, y1, z1, ?_, ?_, ?_, rfl⟩
    · intro h; simp only [bounds, h, axisBounds_periodic]
    · intro h; simp only [bounds, h, axisBounds_periodic]
    · intro h; simp only [bounds, h, axisBounds_periodic]
  · intro h
    obtain ⟨⟨r0, r1, r2⟩, ⟨o0, o1, o2⟩⟩ := b
    subst h
    simp only [wrap, paddedBox, bounds, axisBounds_periodic, smul_one_sub_zero, M3.vecMul, V3.add_def,
      zero_mul, add_zero]
  · intro hdet t ht
    have hd := det_wrap_ne_zero fl pad hpad b hdet pbc pos
    have e := relToCart_paddedBox b (bounds pad pbc (pos.map b.cartToRel)) t
      (by intro h; rw [h] at wx; linarith) (by intro h; rw [h] at wy; linarith) (by intro h; rw [h] at wz; linarith)
    have e2 : (wrap fl pad b pbc pos).box = paddedBox b (bounds pad pbc (pos.map b.cartToRel)) := rfl
    rw [e2, ← e, cartToRel_relToCart _ (by rw [← e2]; exact hd)]
    obtain ⟨t0, t1, t2, t3, t4, t5⟩ := ht
    have px : 0 < (bounds pad pbc (pos.map b.cartToRel)).x.2 - (bounds pad pbc (pos.map b.cartToRel)).x.1 := by linarith
    have py : 0 < (bounds pad pbc (pos.map b.cartToRel)).y.2 - (bounds pad pbc (pos.map b.cartToRel)).y.1 := by linarith
    have pz : 0 < (bounds pad pbc (pos.map b.cartToRel)).z.2 - (bounds pad pbc (pos.map b.cartToRel)).z.1 := by linarith
    have x1' : (bounds pad pbc (pos.map b.cartToRel)).x.1 ≤ 0 := x1
    have x2' : 1 ≤ (bounds pad pbc (pos.map b.cartToRel)).x.2 := x2
    have y1' : (bounds pad pbc (pos.map b.cartToRel)).y.1 ≤ 0 := y1
    have y2' : 1 ≤ (bounds pad pbc (pos.map b.cartToRel)).y.2 := y2
    have z1' : (bounds pad pbc (pos.map b.cartToRel)).z.1 ≤ 0 := z1
    have z2' : 1 ≤ (bounds pad pbc (pos.map b.cartToRel)).z.2 := z2
    refine ⟨div_nonneg (by linarith) px.le, (div_le_one px).mpr (by linarith),
      div_nonneg (by linarith) py.le, (div_le_one py).mpr (by linarith),
      div_nonneg (by linarith) pz.le, (div_le_one pz).mpr (by linarith)⟩

/-- **wrap_idem**: wrapping a wrapped system changes nothing: same box, same positions, all flags zero. -/
theorem wrap_idem (fl : K → Int) (hfl : IsFloor fl) (pad : K) (hpad : 0 < pad) (b : Box K)
    (hdet : M3.det b.vects ≠ 0) (pbc : V3 Bool) (pos : List (V3 K)) :
    (wrap fl pad (wrap fl pad b pbc pos).box pbc (wrap fl pad b pbc pos).pos).box = (wrap fl pad b pbc pos).box ∧
    (wrap fl pad (wrap fl pad b pbc pos).box pbc (wrap fl pad b pbc pos).pos).pos = (wrap fl pad b pbc pos).pos ∧
    ∀ f ∈ (wrap fl pad (wrap fl pad b pbc pos).box pbc (wrap fl pad b pbc pos).pos).flags, f = ⟨0, 0, 0⟩ := by
  have hd := det_wrap_ne_zero fl pad hpad b hdet pbc pos
  -- every new position is seen by the new box at `newRel`
  have key : ∀ p' ∈ (wrap fl pad b pbc pos).pos, ∃ p ∈ pos, p' = atomPos fl b pbc p ∧
      (wrap fl pad b pbc pos).box.cartToRel p' = newRel fl pad b pbc pos p := by
    intro p' hp'
    simp only [wrap, List.mem_map] at hp'
    obtain ⟨p, hp, rfl⟩ := hp'
    exact ⟨p, hp, rfl, wrap_cartToRel fl pad hpad b hdet pbc pos p⟩
  have hflags : ∀ p' ∈ (wrap fl pad b pbc pos).pos,
      atomFlags fl (wrap fl pad b pbc pos).box pbc p' = ⟨0, 0, 0⟩ := by
    intro p' hp'
    obtain ⟨p, hp, _, e⟩ := key p' hp'
    obtain ⟨⟨x0, x1, _⟩, ⟨y0, y1, _⟩, ⟨z0, z1, _⟩⟩ := newRel_facts fl hfl pad hpad b pbc pos p hp
    simp only [atomFlags, flagsOf, e, flagOf_unit fl hfl _ _ x0 x1, flagOf_unit fl hfl _ _ y0 y1,
      flagOf_unit fl hfl _ _ z0 z1]
  refine ⟨?_, ?_, ?_⟩
  · -- box
    have hb : bounds pad pbc ((wrap fl pad b pbc pos).pos.map (wrap fl pad b pbc pos).box.cartToRel)
        = ⟨(0, 1), (0, 1), (0, 1)⟩ := by
      simp only [bounds]
      congr 1
      · apply axisBounds_of_strict
        intro hpx x hx
        simp only [List.mem_map] at hx
        obtain ⟨s, ⟨p', hp', rfl⟩, rfl⟩ := hx
        obtain ⟨p, hp, _, e⟩ := key p' (by simpa [wrap] using hp')
        obtain ⟨⟨x0, x1, x2⟩, _, _⟩ := newRel_facts fl hfl pad hpad b pbc pos p hp
        rw [e]; exact ⟨x2 hpx, x1⟩
      · apply axisBounds_of_strict
        intro hpx x hx
        simp only [List.mem_map] at hx
        obtain ⟨s, ⟨p', hp', rfl⟩, rfl⟩ := hx
        obtain ⟨p, hp, _, e⟩ := key p' (by simpa [wrap] using hp')
        obtain ⟨_, ⟨x0, x1, x2⟩, _⟩ := newRel_facts fl hfl pad hpad b pbc pos p hp
        rw [e]; exact ⟨x2 hpx, x1⟩
      · apply axisBounds_of_strict
        intro hpx x hx
        simp only [List.mem_map] at hx
        obtain ⟨s, ⟨p', hp', rfl⟩, rfl⟩ := hx
        obtain ⟨p, hp, _, e⟩ := key p' (by simpa [wrap] using hp')
        obtain ⟨_, _, ⟨x0, x1, x2⟩⟩ := newRel_facts fl hfl pad hpad b pbc pos p hp
        rw [e]; exact ⟨x2 hpx, x1⟩
    show paddedBox _ (bounds pad pbc ((wrap fl pad b pbc pos).pos.map (wrap fl pad b pbc pos).box.cartToRel)) = _
    rw [hb, paddedBox_unit]
  · -- positions
    show (wrap fl pad b pbc pos).pos.map (atomPos fl (wrap fl pad b pbc pos).box pbc) = (wrap fl pad b pbc pos).pos
    conv_rhs => rw [← List.map_id (wrap fl pad b pbc pos).pos]
    apply List.map_congr_left
    intro p' hp'
    rw [atomPos, hflags p' hp', subFlags_zero, relToCart_cartToRel _ hd, id]
  · intro f hf
    have hf' : f ∈ (wrap fl pad b pbc pos).pos.map (atomFlags fl (wrap fl pad b pbc pos).box pbc) := hf
    obtain ⟨p', hp', rfl⟩ := List.mem_map.mp hf'
    exact hflags p' hp'

/-! ## normalize -/

/-- **flip_same_points**: reversing the third vector of a cell and moving the origin to its tip
    describes the same points (`s_c ↦ 1 - s_c`), the same parallelepiped, the same lattice, with the
    opposite handedness; `flip` therefore always yields a right-handed cell. -/
theorem flip_same_points (b : Box K) :
    (∀ s : V3 K, (flipC b).relToCart ⟨s.x, s.y, 1 - s.z⟩ = b.relToCart s) ∧
    (∀ s : V3 K, insideRel s ↔ insideRel (⟨s.x, s.y, 1 - s.z⟩ : V3 K)) ∧
    (∀ f : V3 Int, latticeVec (flipC b).vects f = latticeVec b.vects ⟨f.x, f.y, -f.z⟩) ∧
    M3.det (flipC b).vects = - M3.det b.vects ∧
    (M3.det b.vects ≠ 0 → 0 < M3.det (flip b).vects) ∧
    (M3.det b.vects ≠ 0 → ∀ p : V3 K, (flipC b).cartToRel p
        = ⟨(b.cartToRel p).x, (b.cartToRel p).y, 1 - (b.cartToRel p).z⟩) := by
  refine ⟨relToCart_flipC b, ?_, latticeVec_flipC b, det_flipC b, flip_det_pos b, ?_⟩
  · intro s
    simp only [insideRel]
    constructor <;> rintro ⟨h0, h1, h2, h3, h4, h5⟩ <;> refine ⟨h0, h1, h2, h3, ?_, ?_⟩ <;> linarith
  · intro hdet p
    have hd : M3.det (flipC b).vects ≠ 0 := by rw [det_flipC]; exact neg_ne_zero.mpr hdet
    apply relToCart_inj (flipC b) hd
    rw [relToCart_cartToRel _ hd, relToCart_flipC, relToCart_cartToRel _ hdet]

/-- **normalize_lammps_normal**: a fully periodic system is returned in a right-handed LAMMPS-compatible
    cell (`a ∥ x`, `b` in the xy plane, positive diagonal) at origin 0 — and `normalize` is defined. -/
theorem normalize_lammps_normal (fl : K → Int) (pad : K) (sqrt : K → K) (b : Box K)
    (hs : SqrtOK sqrt (flip b).vects) (pos : List (V3 K)) :
    ∃ r, normalize? fl pad sqrt b ⟨true, true, true⟩ pos = some r ∧
      Box.isLammpsNorm r.box = true ∧ 0 < M3.det r.box.vects ∧ r.box.origin = ⟨0, 0, 0⟩ ∧
      r.pos.length = pos.length := by
  obtain ⟨b2, _, ho, hn, _, hd, hr⟩ := normalize_full_form fl pad sqrt b hs pos
  exact ⟨_, hr, hn, hd, ho, by simp⟩

/-- **normalize_gram**: the new cell has the Gram matrix of the (reversed, if left-handed) old cell:
    the same squared lengths `a·a, b·b, c·c`, the same dot products (hence the same angles), and the
    same volume: `det new = |det old|`. -/
theorem normalize_gram (fl : K → Int) (pad : K) (sqrt : K → K) (b : Box K) (hdet : M3.det b.vects ≠ 0)
    (hs : SqrtOK sqrt (flip b).vects) (pos : List (V3 K)) (r : Normalized K)
    (hr : normalize? fl pad sqrt b ⟨true, true, true⟩ pos = some r) :
    gram r.box.vects = gram (flip b).vects ∧
    (V3.normSq r.box.vects.r0 = V3.normSq b.vects.r0 ∧ V3.normSq r.box.vects.r1 = V3.normSq b.vects.r1 ∧
      V3.normSq r.box.vects.r2 = V3.normSq b.vects.r2 ∧
      V3.dot r.box.vects.r0 r.box.vects.r1 = V3.dot b.vects.r0 b.vects.r1) ∧
    (0 < triple b.vects → V3.dot r.box.vects.r0 r.box.vects.r2 = V3.dot b.vects.r0 b.vects.r2 ∧
      V3.dot r.box.vects.r1 r.box.vects.r2 = V3.dot b.vects.r1 b.vects.r2) ∧
    (triple b.vects < 0 → V3.dot r.box.vects.r0 r.box.vects.r2 = - V3.dot b.vects.r0 b.vects.r2 ∧
      V3.dot r.box.vects.r1 r.box.vects.r2 = - V3.dot b.vects.r1 b.vects.r2) ∧
    M3.det r.box.vects = |M3.det b.vects| := by
  obtain ⟨b2, _, ho, hn, hg, hd, hr'⟩ := normalize_full_form fl pad sqrt b hs pos
  rw [hr'] at hr
  obtain rfl := Option.some.inj hr
  have hdet1 := flip_det_pos b hdet
  -- determinant: squares agree and both are positive
  have hsq : M3.det b2.vects * M3.det b2.vects = M3.det (flip b).vects * M3.det (flip b).vects := by
    rw [← det_gram, ← det_gram, hg]
  have hdd : M3.det b2.vects = M3.det (flip b).vects := by
    have h0 : (M3.det b2.vects - M3.det (flip b).vects) * (M3.det b2.vects + M3.det (flip b).vects) = 0 := by
      linear_combination hsq
    rcases mul_eq_zero.mp h0 with h | h
    · linarith
    · linarith
  have hge := hg
  rw [gram_entries, gram_entries] at hge
  simp only [M3.mk.injEq, V3.mk.injEq] at hge
  obtain ⟨⟨g00, g01, g02⟩, ⟨_, g11, g12⟩, ⟨_, _, g22⟩⟩ := hge
  by_cases hneg : triple b.vects < 0
  · have hf : flip b = flipC b := by simp only [flip, hneg, if_true]
    have hdn : M3.det b.vects < 0 := by rw [← triple_eq_det]; exact hneg
    refine ⟨hg, ?_, fun hp => absurd hneg (not_lt.mpr hp.le), fun _ => ?_, ?_⟩
    · rw [hf] at g00 g01 g11 g22
      simp only [flipC, V3.normSq, V3.dot, V3.neg_def] at g00 g01 g11 g22 ⊢
      exact ⟨g00, g11, by linear_combination g22, g01⟩
    · rw [hf] at g02 g12
      simp only [flipC, V3.dot, V3.neg_def] at g02 g12 ⊢
      exact ⟨by linear_combination g02, by linear_combination g12⟩
    · rw [hdd, hf, det_flipC, abs_of_neg hdn]
  · have hf : flip b = b := by simp only [flip, hneg, if_false]
    have hdn : 0 ≤ M3.det b.vects := by rw [← triple_eq_det]; exact not_lt.mp hneg
    rw [hf] at g00 g01 g02 g11 g12 g22
    refine ⟨hg, ⟨g00, g11, g22, g01⟩, fun _ => ⟨g02, g12⟩, fun h => absurd h hneg, ?_⟩
    rw [hdd, hf, abs_of_nonneg hdn]

/-- **normalize_proper_rotation**: the returned transformation `T` is a proper rotation
    (`T Tᵀ = 1 = Tᵀ T`, `det T = 1`) and takes every (reversed, if left-handed) old cell vector to the
    new one: `T · vᵢ = vᵢ'`  (row form: `V_old · Tᵀ = V_new`). -/
theorem normalize_proper_rotation (fl : K → Int) (pad : K) (sqrt : K → K) (b : Box K)
    (hdet : M3.det b.vects ≠ 0) (hs : SqrtOK sqrt (flip b).vects) (pos : List (V3 K)) (r : Normalized K)
    (hr : normalize? fl pad sqrt b ⟨true, true, true⟩ pos = some r) :
    M3.mul r.transform r.transform.transpose = M3.one ∧
    M3.mul r.transform.transpose r.transform = M3.one ∧
    M3.det r.transform = 1 ∧
    M3.mul (flip b).vects r.transform.transpose = r.box.vects ∧
    (M3.mulVec r.transform (flip b).vects.r0 = r.box.vects.r0 ∧
     M3.mulVec r.transform (flip b).vects.r1 = r.box.vects.r1 ∧
     M3.mulVec r.transform (flip b).vects.r2 = r.box.vects.r2) := by
  obtain ⟨b2, _, ho, hn, hg, hd, hr'⟩ := normalize_full_form fl pad sqrt b hs pos
  rw [hr'] at hr
  obtain rfl := Option.some.inj hr
  have hdet1 := flip_det_pos b hdet
  obtain ⟨e1, e2, e3, e4⟩ := gram_eq_rotation (flip b).vects b2.vects (ne_of_gt hdet1) hg
  simp only [M3.transpose_transpose]
  have hdR : M3.det (M3.mul (M3.inv (flip b).vects) b2.vects) = 1 := by
    have hm := congrArg M3.det e1
    rw [M3.det_mul] at hm
    -- det V1 * det R = det b2 and det R² = 1, all determinants positive
    have hRpos : 0 < M3.det (M3.mul (M3.inv (flip b).vects) b2.vects) := by
      by_contra hcon
      have hle := not_lt.mp hcon
      have : M3.det (flip b).vects * M3.det (M3.mul (M3.inv (flip b).vects) b2.vects) ≤ 0 :=
        mul_nonpos_of_nonneg_of_nonpos hdet1.le hle
      linarith
    have h0 : (M3.det (M3.mul (M3.inv (flip b).vects) b2.vects) - 1)
        * (M3.det (M3.mul (M3.inv (flip b).vects) b2.vects) + 1) = 0 := by linear_combination e4
    rcases mul_eq_zero.mp h0 with h | h <;> linarith
  refine ⟨e3, e2, by rw [M3.det_transpose]; exact hdR, e1, ?_⟩
  -- row form ⇒ column form
  generalize M3.mul (M3.inv (flip b).vects) b2.vects = R at e1
  generalize (flip b).vects = V1 at e1
  obtain ⟨⟨a0, a1, a2⟩, ⟨a3, a4, a5⟩, ⟨a6, a7, a8⟩⟩ := V1
  obtain ⟨⟨r0, r1, r2⟩, ⟨r3, r4, r5⟩, ⟨r6, r7, r8⟩⟩ := R
  rw [← e1]
  simp only [M3.mul, M3.vecMul, M3.mulVec, M3.transpose, V3.dot, V3.mk.injEq]
  refine ⟨⟨?_, ?_, ?_⟩, ⟨?_, ?_, ?_⟩, ⟨?_, ?_, ?_⟩⟩ <;> ring

/-- **normalize_inside**: every atom of the normalized (fully periodic) system is inside the new cell. -/
theorem normalize_inside (fl : K → Int) (hfl : IsFloor fl) (pad : K) (hpad : 0 < pad) (sqrt : K → K) (b : Box K)
    (hs : SqrtOK sqrt (flip b).vects) (pos : List (V3 K)) (r : Normalized K)
    (hr : normalize? fl pad sqrt b ⟨true, true, true⟩ pos = some r) :
    ∀ p' ∈ r.pos, insideRel (r.box.cartToRel p') := by
  obtain ⟨b2, h2, ho, hn, hg, hd, _⟩ := normalize_full_form fl pad sqrt b hs pos
  rw [normalize_eq fl pad sqrt b _ pos b2 h2] at hr
  obtain rfl := Option.some.inj hr
  exact wrap_inside fl hfl pad hpad b2 (ne_of_gt hd) _ _

/-- **dist_depends_on_gram**: `|c·V|² = cᵀ (V Vᵀ) c`; so two cells with the same Gram matrix give the same
    length to every (real-valued) combination of their vectors. -/
theorem dist_depends_on_gram (V : M3 K) (c : V3 K) :
    V3.normSq (M3.vecMul c V) = V3.dot c (M3.mulVec (gram V) c) := by
  obtain ⟨⟨a0, a1, a2⟩, ⟨a3, a4, a5⟩, ⟨a6, a7, a8⟩⟩ := V
  obtain ⟨x, y, z⟩ := c
  simp only [gram, M3.mul, M3.vecMul, M3.mulVec, M3.transpose, V3.normSq, V3.dot]
  ring

theorem normSq_eq_of_gram_eq (V N : M3 K) (h : gram N = gram V) (c : V3 K) :
    V3.normSq (M3.vecMul c N) = V3.normSq (M3.vecMul c V) := by
  rw [dist_depends_on_gram, dist_depends_on_gram, h]

/-- **normalize_rel_mod_one**: in a fully periodic system the relative coordinates of every atom in the
    new cell are its relative coordinates in the (reversed, if left-handed) old cell minus its integer
    image flags; atoms, flags and positions correspond one to one. -/
theorem normalize_rel_mod_one (fl : K → Int) (pad : K) (sqrt : K → K) (b : Box K)
    (hs : SqrtOK sqrt (flip b).vects) (pos : List (V3 K)) (r : Normalized K)
    (hr : normalize? fl pad sqrt b ⟨true, true, true⟩ pos = some r) :
    r.pos = pos.map (normPos fl (flip b) r.box) ∧ r.flags = pos.map (normFlags fl (flip b) r.box) ∧
    ∀ p : V3 K, r.box.cartToRel (normPos fl (flip b) r.box p)
      = subFlags ((flip b).cartToRel p) (normFlags fl (flip b) r.box p) := by
  obtain ⟨b2, _, ho, hn, hg, hd, hr'⟩ := normalize_full_form fl pad sqrt b hs pos
  rw [hr'] at hr
  obtain rfl := Option.some.inj hr
  refine ⟨rfl, rfl, fun p => ?_⟩
  simp only [normPos, normFlags, atomPos, atomFlags]
  rw [cartToRel_relToCart b2 (ne_of_gt hd), cartToRel_relToCart b2 (ne_of_gt hd)]

/-- **normalize_image_distances**: for any two atoms `p`, `q` and any image shift `n ∈ ℤ³`, the squared
    distance between the new positions shifted by `n` new cell vectors equals the squared distance
    between the old positions shifted by `n - f_q + f_p` old cell vectors.  As `n ↦ n - f_q + f_p` is a
    bijection of `ℤ³`, the whole spectrum of image distances of every pair — in particular the true
    nearest-image distance — is unchanged. -/
theorem normalize_image_distances (fl : K → Int) (pad : K) (sqrt : K → K) (b : Box K)
    (hdet : M3.det b.vects ≠ 0) (hs : SqrtOK sqrt (flip b).vects) (pos : List (V3 K)) (r : Normalized K)
    (hr : normalize? fl pad sqrt b ⟨true, true, true⟩ pos = some r) (p q : V3 K) (n : V3 Int) :
    V3.normSq (normPos fl (flip b) r.box q - normPos fl (flip b) r.box p + latticeVec r.box.vects n)
      = V3.normSq (q - p + latticeVec (flip b).vects
          ⟨n.x - (normFlags fl (flip b) r.box q).x + (normFlags fl (flip b) r.box p).x,
           n.y - (normFlags fl (flip b) r.box q).y + (normFlags fl (flip b) r.box p).y,
           n.z - (normFlags fl (flip b) r.box q).z + (normFlags fl (flip b) r.box p).z⟩) := by
  obtain ⟨b2, _, ho, hn, hg, hd, hr'⟩ := normalize_full_form fl pad sqrt b hs pos
  rw [hr'] at hr
  obtain rfl := Option.some.inj hr
  have hd1 := ne_of_gt (flip_det_pos b hdet)
  -- old positions in relative terms
  have hold := fun m : V3 Int => sep_rel (flip b) ((flip b).cartToRel p) ((flip b).cartToRel q) m
  simp only [relToCart_cartToRel (flip b) hd1] at hold
  rw [hold]
  -- new positions in relative terms
  have hp : ∀ x : V3 K, normPos fl (flip b) b2 x
      = b2.relToCart (subFlags ((flip b).cartToRel x) (normFlags fl (flip b) b2 x)) := by
    intro x
    simp only [normPos, normFlags, atomPos, atomFlags]
    rw [cartToRel_relToCart b2 (ne_of_gt hd)]
  rw [hp q, hp p, sep_rel, ← normSq_eq_of_gram_eq (flip b).vects b2.vects hg]
  congr 2
  simp only [subFlags, V3.mk.injEq, Int.cast_add, Int.cast_sub]
  refine ⟨?_, ?_, ?_⟩ <;> ring

/-- **normalize_distance_spectrum**: the set of squared image distances of any pair of atoms is the same
    before and after (both inclusions; the old lattice may equally be taken unreversed, see
    `flip_same_points`). -/
theorem normalize_distance_spectrum (fl : K → Int) (pad : K) (sqrt : K → K) (b : Box K)
    (hdet : M3.det b.vects ≠ 0) (hs : SqrtOK sqrt (flip b).vects) (pos : List (V3 K)) (r : Normalized K)
    (hr : normalize? fl pad sqrt b ⟨true, true, true⟩ pos = some r) (p q : V3 K) (d : K) :
    (∃ n : V3 Int, d = V3.normSq (normPos fl (flip b) r.box q - normPos fl (flip b) r.box p
        + latticeVec r.box.vects n)) ↔
    (∃ m : V3 Int, d = V3.normSq (q - p + latticeVec (flip b).vects m)) := by
  constructor
  · rintro ⟨n, rfl⟩
    exact ⟨_, normalize_image_distances fl pad sqrt b hdet hs pos r hr p q n⟩
  · rintro ⟨m, rfl⟩
    refine ⟨⟨m.x + (normFlags fl (flip b) r.box q).x - (normFlags fl (flip b) r.box p).x,
             m.y + (normFlags fl (flip b) r.box q).y - (normFlags fl (flip b) r.box p).y,
             m.z + (normFlags fl (flip b) r.box q).z - (normFlags fl (flip b) r.box p).z⟩, ?_⟩
    rw [normalize_image_distances fl pad sqrt b hdet hs pos r hr p q]
    congr 3
    obtain ⟨mx, my, mz⟩ := m
    simp only [V3.mk.injEq]
    refine ⟨?_, ?_, ?_⟩ <;> omega

/-! ## the hypotheses are satisfiable -/

/-- the two inner square-root arguments of `set_abc` in closed form:
    `b² - xy² = |a×b|²/|a|²` and `c² - xz² - yz² = det²/|a×b|²`: positive for every non-singular cell,
    so that `SqrtOK` only asks for square roots of positive numbers. -/
theorem sqrt_args_closed_form (sqrt : K → K) (v : M3 K) (hdet : M3.det v ≠ 0)
    (ha : SqrtAt sqrt (V3.normSq v.r0)) (hb : SqrtAt sqrt (V3.normSq v.r1)) (hc : SqrtAt sqrt (V3.normSq v.r2)) :
    lyArg sqrt v = V3.normSq (V3.cross v.r0 v.r1) / V3.normSq v.r0 ∧ 0 < lyArg sqrt v ∧
    (SqrtAt sqrt (lyArg sqrt v) →
      lzArg sqrt v = M3.det v * M3.det v / V3.normSq (V3.cross v.r0 v.r1) ∧ 0 < lzArg sqrt v) := by
  obtain ⟨eA, hA⟩ := ha
  obtain ⟨eB, hB⟩ := hb
  obtain ⟨eC, hC⟩ := hc
  have hW := normSq_cross_pos v hdet
  have hA' : 0 < lenA sqrt v := hA
  have hB' : 0 < lenB sqrt v := hB
  have hC' : 0 < lenC sqrt v := hC
  have eA' : lenA sqrt v * lenA sqrt v = V3.normSq v.r0 := eA
  have eB' : lenB sqrt v * lenB sqrt v = V3.normSq v.r1 := eB
  have eC' : lenC sqrt v * lenC sqrt v = V3.normSq v.r2 := eC
  have hnaa : 0 < V3.normSq v.r0 := by rw [← eA']; exact mul_pos hA' hA'
  have exy : tiltXY sqrt v = V3.dot v.r0 v.r1 / lenA sqrt v := by
    simp only [tiltXY, cosGamma]; field_simp
  have exz : tiltXZ sqrt v = V3.dot v.r0 v.r2 / lenA sqrt v := by
    simp only [tiltXZ, cosBeta]; field_simp
  have exy2 : tiltXY sqrt v * tiltXY sqrt v = V3.dot v.r0 v.r1 * V3.dot v.r0 v.r1 / V3.normSq v.r0 := by
    rw [exy, ← eA']; field_simp
  have exz2 : tiltXZ sqrt v * tiltXZ sqrt v = V3.dot v.r0 v.r2 * V3.dot v.r0 v.r2 / V3.normSq v.r0 := by
    rw [exz, ← eA']; field_simp
  have exyz : tiltXY sqrt v * tiltXZ sqrt v = V3.dot v.r0 v.r1 * V3.dot v.r0 v.r2 / V3.normSq v.r0 := by
    rw [exy, exz, ← eA']; field_simp
  have ely : lyArg sqrt v = V3.normSq (V3.cross v.r0 v.r1) / V3.normSq v.r0 := by
    have : lyArg sqrt v = lenB sqrt v * lenB sqrt v - tiltXY sqrt v * tiltXY sqrt v := rfl
    rw [this, eB', exy2]
    exact ly_identity v.r0 v.r1 (ne_of_gt hnaa)
  have hly : 0 < lyArg sqrt v := by rw [ely]; exact div_pos hW hnaa
  refine ⟨ely, hly, fun hs => ?_⟩
  obtain ⟨eLY, hLY⟩ := hs
  have hLY' : 0 < lenLy sqrt v := hLY
  have eLY' : lenLy sqrt v * lenLy sqrt v = lyArg sqrt v := eLY
  have eyz2 : tiltYZ sqrt v * tiltYZ sqrt v
      = (V3.dot v.r1 v.r2 - tiltXY sqrt v * tiltXZ sqrt v) * (V3.dot v.r1 v.r2 - tiltXY sqrt v * tiltXZ sqrt v)
        / lyArg sqrt v := by
    have : tiltYZ sqrt v = (V3.dot v.r1 v.r2 - tiltXY sqrt v * tiltXZ sqrt v) / lenLy sqrt v := by
      simp only [tiltYZ, cosAlpha]; field_simp
    rw [this, ← eLY']; field_simp
  have elz : lzArg sqrt v = M3.det v * M3.det v / V3.normSq (V3.cross v.r0 v.r1) := by
    have : lzArg sqrt v = lenC sqrt v * lenC sqrt v - tiltXZ sqrt v * tiltXZ sqrt v
        - tiltYZ sqrt v * tiltYZ sqrt v := rfl
    rw [this, eC', exz2, eyz2, exyz, ely]
    exact lz_identity v (ne_of_gt hnaa) (ne_of_gt hW)
  refine ⟨elz, ?_⟩
  rw [elz]
  exact div_pos (mul_self_pos.mpr hdet) hW

/-- the driver's floor (`Rat.floor`) is a floor in the sense the theorems assume. -/
theorem isFloor_ratFloor : IsFloor (K := ℚ) Rat.floor :=
  fun s => ⟨Int.floor_le s, Int.lt_floor_add_one s⟩

/-- over ℝ with the real square root the hypothesis `SqrtOK` holds for every non-singular cell. -/
theorem sqrtOK_real (v : M3 ℝ) (hdet : M3.det v ≠ 0) : SqrtOK Real.sqrt v := by
  have hs : ∀ x : ℝ, 0 < x → SqrtAt Real.sqrt x :=
    fun x hx => ⟨Real.mul_self_sqrt hx.le, Real.sqrt_pos.mpr hx⟩
  obtain ⟨h0, h1, h2⟩ := rows_normSq_pos v hdet
  obtain ⟨_, hly, hlz⟩ := sqrt_args_closed_form Real.sqrt v hdet (hs _ h0) (hs _ h1) (hs _ h2)
  exact ⟨hs _ h0, hs _ h1, hs _ h2, hs _ hly, hs _ (hlz (hs _ hly)).2⟩

/-- over ℝ the function `vect_angle` applies to the clamped cosine, `180 · arccos(x) / π`, has the three properties
    `gen_abcGuard_eq_angleGuard` asks for: the arccos assumption of the model holds for the real function. -/
theorem arccosDeg_real : ArccosDeg (fun x : ℝ => 180 * Real.arccos x / Real.pi) := by
  refine ⟨?_, by simp, ?_⟩
  · intro x y hx hxy hy
    have h := Real.strictAntiOn_arccos ⟨hx, le_trans hxy.le hy⟩ ⟨le_trans hx hxy.le, hy⟩ hxy
    have hp := Real.pi_pos
    apply div_lt_div_of_pos_right _ hp
    linarith
  · show 180 * Real.arccos (-1) / Real.pi = 180
    rw [Real.arccos_neg_one]; field_simp

/-! ## histories on one object (model of lean/Atomman/C05_Hist.lean; cache coherence in Proofs/C05_Hist.lean) -/

/-- **hist_wrap_reconstruct**: a `wrap` issued at any point of any history on a coherent object returns image
    flags that reconstruct the positions held just before it, with the cell vectors held just before it, and
    vanish along non-periodic directions. -/
theorem hist_wrap_reconstruct (P : Params K) (ops : List (Op K)) (c0 : CSys K) (h0 : Coherent c0)
    (hdet : M3.det (runC P c0 ops).1.box.vects ≠ 0) :
    let c := (runC P c0 ops).1
    let w := c.wrapC P
    List.zipWith (fun p' f => p' + latticeVec c.box.vects f) w.2.pos w.1 = c.pos ∧
    ∀ f ∈ w.1, (c.pbc.x = false → f.x = 0) ∧ (c.pbc.y = false → f.y = 0) ∧ (c.pbc.z = false → f.z = 0) := by
  intro c w
  obtain ⟨_, _, hc⟩ := runC_erase P ops c0 h0
  obtain ⟨w1, w2, _⟩ := wrapC_spec P c hc
  have e2 : w.2.pos = (c.erase.wrapS P).2.pos := by
    show (c.wrapC P).2.pos = _
    rw [← w2]; rfl
  have e1 : w.1 = (c.erase.wrapS P).1 := w1
  obtain ⟨r1, _, _, r4⟩ := wrap_reconstruct P.fl P.pad c.box hdet c.pbc c.pos
  rw [e1, e2]
  exact ⟨r1, r4⟩

theorem runC_snoc (P : Params K) (ops : List (Op K)) (c : CSys K) (op : Op K) :
    (runC P c (ops ++ [op])).1 = (stepC P (runC P c ops).1 op).1 := by
  induction ops generalizing c with
  | nil => rfl
  | cons o os ih => simp only [List.cons_append, runC]; exact ih _

/-- **hist_wrap_pbc_edited**: the periodicity setting edited IN PLACE (`system.pbc[k] = False`, no setter runs) at any
    point of any history — whatever the setting was when the object was created or last assigned — is what the next
    `wrap` follows: the edit itself touches neither the box nor the positions, and the wrap then moves no atom along
    direction `k` (image flag 0) while its flags still reconstruct the positions held before it.  (That the atoms end
    up inside the enlarged cell is `hist_wrap_inside` for the history `ops ++ [editPbc k false]`.) -/
theorem hist_wrap_pbc_edited (P : Params K) (ops : List (Op K)) (c0 : CSys K) (h0 : Coherent c0) (k : Nat)
    (hdet : M3.det (runC P c0 ops).1.box.vects ≠ 0) :
    let c := (runC P c0 (ops ++ [.editPbc k false])).1
    let w := c.wrapC P
    c.box = (runC P c0 ops).1.box ∧ c.pos = (runC P c0 ops).1.pos ∧
    c.pbc = setAxis (runC P c0 ops).1.pbc k false ∧
    List.zipWith (fun p' f => p' + latticeVec c.box.vects f) w.2.pos w.1 = c.pos ∧
    ∀ f ∈ w.1, (k = 0 → f.x = 0) ∧ (k = 1 → f.y = 0) ∧ (k = 2 → f.z = 0) := by
  intro c w
  have hc : c = { (runC P c0 ops).1 with pbc := setAxis (runC P c0 ops).1.pbc k false } := by
    show (runC P c0 (ops ++ [.editPbc k false])).1 = _
    rw [runC_snoc]; rfl
  have hb : c.box = (runC P c0 ops).1.box := by rw [hc]
  have hdet' : M3.det (runC P c0 (ops ++ [.editPbc k false])).1.box.vects ≠ 0 := by
    show M3.det c.box.vects ≠ 0
    rw [hb]; exact hdet
  obtain ⟨r1, r2⟩ := hist_wrap_reconstruct P (ops ++ [.editPbc k false]) c0 h0 hdet'
  have hp : c.pbc = setAxis (runC P c0 ops).1.pbc k false := by rw [hc]
  refine ⟨hb, by rw [hc], hp, r1, ?_⟩
  intro f hf
  obtain ⟨fx, fy, fz⟩ := r2 f hf
  have px : c.pbc = setAxis (runC P c0 ops).1.pbc k false := hp
  refine ⟨?_, ?_, ?_⟩
  · intro hk; subst hk; apply fx; show c.pbc.x = false; rw [px]; rfl
  · intro hk; subst hk; apply fy; show c.pbc.y = false; rw [px]; rfl
  · intro hk; subst hk; apply fz; show c.pbc.z = false; rw [px]; rfl

/-- **hist_wrap_inside**: a `wrap` issued at any point of any history leaves every atom inside the cell the
    object then has — unless the clean-up of the `vects` setter removes a component of the lengthened cell
    (`hclean`; it never does for a fully periodic system whose cell is already clean). -/
theorem hist_wrap_inside (P : Params K) (hfl : IsFloor P.fl) (hpad : 0 < P.pad) (ops : List (Op K)) (c0 : CSys K)
    (h0 : Coherent c0) (hdet : M3.det (runC P c0 ops).1.box.vects ≠ 0)
    (hclean : let c := (runC P c0 ops).1
      zeroSmall P.tiny (wrap P.fl P.pad c.box c.pbc c.pos).box.vects = (wrap P.fl P.pad c.box c.pbc c.pos).box.vects) :
    let c := (runC P c0 ops).1
    let w := c.wrapC P
    ∀ p' ∈ w.2.pos, insideRel (w.2.box.cartToRel p') := by
  intro c w
  obtain ⟨_, _, hc⟩ := runC_erase P ops c0 h0
  obtain ⟨_, w2, _⟩ := wrapC_spec P c hc
  have e2 : w.2.pos = (wrap P.fl P.pad c.box c.pbc c.pos).pos := by
    show (c.wrapC P).2.pos = _
    have : (c.wrapC P).2.pos = (c.erase.wrapS P).2.pos := by rw [← w2]; rfl
    rw [this]; rfl
  have e3 : w.2.box = (wrap P.fl P.pad c.box c.pbc c.pos).box := by
    show (c.wrapC P).2.box = _
    have : (c.wrapC P).2.box = (c.erase.wrapS P).2.box := by rw [← w2]; rfl
    rw [this]
    show (⟨zeroSmall P.tiny (wrap P.fl P.pad c.box c.pbc c.pos).box.vects, _⟩ : Box K) = _
    rw [hclean]
    rfl
  rw [e2, e3]
  exact wrap_inside P.fl hfl P.pad hpad c.box hdet c.pbc c.pos

/-- **hist_wrap_full**: on an object whose cell went through the setter (`Clean`, true for every `Box`), a `wrap`
    of a fully periodic system at any point of any history leaves the box exactly as it was, every atom inside it,
    and the flags reconstruct the old positions — no clean-up hypothesis needed (`zeroSmall_idem`). -/
theorem hist_wrap_full (P : Params K) (hfl : IsFloor P.fl) (hpad : 0 < P.pad) (ht0 : 0 ≤ P.tiny) (ht1 : P.tiny < 1)
    (ops : List (Op K)) (c0 : CSys K) (h0 : Coherent c0) (hc0 : Clean P.tiny c0)
    (hdet : M3.det (runC P c0 ops).1.box.vects ≠ 0) (hp : (runC P c0 ops).1.pbc = ⟨true, true, true⟩) :
    let c := (runC P c0 ops).1
    let w := c.wrapC P
    w.2.box = c.box ∧ (∀ p' ∈ w.2.pos, insideRel (c.box.cartToRel p')) ∧
    List.zipWith (fun p' f => p' + latticeVec c.box.vects f) w.2.pos w.1 = c.pos := by
  intro c w
  have hclean : Clean P.tiny c := clean_runC P ht0 ht1 ops c0 hc0
  have hb : (wrap P.fl P.pad c.box c.pbc c.pos).box = c.box := by
    have : c.pbc = ⟨true, true, true⟩ := hp
    rw [this]; exact wrap_box_full _ _ _ _
  have hcl : zeroSmall P.tiny (wrap P.fl P.pad c.box c.pbc c.pos).box.vects
      = (wrap P.fl P.pad c.box c.pbc c.pos).box.vects := by rw [hb]; exact hclean
  have hin := hist_wrap_inside P hfl hpad ops c0 h0 hdet hcl
  have hrec := (hist_wrap_reconstruct P ops c0 h0 hdet).1
  obtain ⟨_, _, hc⟩ := runC_erase P ops c0 h0
  obtain ⟨_, w2, _⟩ := wrapC_spec P c hc
  have e3 : w.2.box = c.box := by
    show (c.wrapC P).2.box = _
    have : (c.wrapC P).2.box = (c.erase.wrapS P).2.box := by rw [← w2]; rfl
    rw [this]
    show (⟨zeroSmall P.tiny (wrap P.fl P.pad c.box c.pbc c.pos).box.vects,
      (wrap P.fl P.pad c.box c.pbc c.pos).box.origin⟩ : Box K) = _
    rw [hcl, hb]
  refine ⟨e3, ?_, hrec⟩
  intro p' hp'
  have := hin p' hp'
  rw [e3] at this
  exact this

/-- **normalizeS_eq_normalize**: `normalize` on the object is the function `normalize?` of the visible state
    whenever the clean-up of the `vects` setter is inactive at its three writes (reversed cell, rebuilt cell,
    wrapped cell): every `normalize_*` theorem then holds for the object at any point of any history. -/
theorem normalizeS_eq_normalize (P : Params K) (s : Sys K)
    (hc1 : triple s.box.vects < 0 → zeroSmall P.tiny (flipC s.box).vects = (flipC s.box).vects)
    (hc2 : ∀ b2, abcBox? P.sqrt (flip s.box).vects = some b2 → zeroSmall P.tiny b2.vects = b2.vects)
    (hc3 : ∀ b2, abcBox? P.sqrt (flip s.box).vects = some b2 →
      zeroSmall P.tiny (wrap P.fl P.pad b2 s.pbc (s.pos.map (fun p => b2.relToCart ((flip s.box).cartToRel p)))).box.vects
        = (wrap P.fl P.pad b2 s.pbc (s.pos.map (fun p => b2.relToCart ((flip s.box).cartToRel p)))).box.vects) :
    s.normalizeS P = normalize? P.fl P.pad P.sqrt s.box s.pbc s.pos := by
  -- the system after the optional reversal has the box `flip s.box`
  have hs1 : (if triple s.box.vects < 0 then s.setBox P.tiny (flipC s.box).vects (flipC s.box).origin else s)
      = (⟨flip s.box, s.pbc, s.pos⟩ : Sys K) := by
    by_cases ht : triple s.box.vects < 0
    · simp only [ht, if_true, Sys.setBox, flip, hc1 ht]
    · simp only [ht, if_false, flip]
  unfold Sys.normalizeS normalize?
  rw [hs1]
  simp only [Sys.rebuild]
  cases hb : abcBox? P.sqrt (flip s.box).vects with
  | none => rfl
  | some b2 =>
    have e2 : (⟨zeroSmall P.tiny b2.vects, b2.origin⟩ : Box K) = b2 := by rw [hc2 b2 hb]
    simp only [e2, Sys.spos, List.map_map, Sys.wrapS]
    have hw := hc3 b2 hb
    simp only [Function.comp_def] at hw ⊢
    rw [hw]

/-- **hist_normalize**: at any point of any history on a coherent object, `normalize` returns what the
    function `normalize?` returns for the visible state (clean-up inactive), and leaves the object as it was. -/
theorem hist_normalize (P : Params K) (ops : List (Op K)) (c0 : CSys K) (h0 : Coherent c0)
    (hc1 : let s := (runC P c0 ops).1.erase
      triple s.box.vects < 0 → zeroSmall P.tiny (flipC s.box).vects = (flipC s.box).vects)
    (hc2 : let s := (runC P c0 ops).1.erase
      ∀ b2, abcBox? P.sqrt (flip s.box).vects = some b2 → zeroSmall P.tiny b2.vects = b2.vects)
    (hc3 : let s := (runC P c0 ops).1.erase
      ∀ b2, abcBox? P.sqrt (flip s.box).vects = some b2 →
      zeroSmall P.tiny (wrap P.fl P.pad b2 s.pbc (s.pos.map (fun p => b2.relToCart ((flip s.box).cartToRel p)))).box.vects
        = (wrap P.fl P.pad b2 s.pbc (s.pos.map (fun p => b2.relToCart ((flip s.box).cartToRel p)))).box.vects) :
    let c := (runC P c0 ops).1
    c.normalizeC P = normalize? P.fl P.pad P.sqrt c.box c.pbc c.pos ∧ (stepC P c .normalize).1 = c := by
  intro c
  obtain ⟨_, _, hc⟩ := runC_erase P ops c0 h0
  refine ⟨?_, ?_⟩
  · rw [normalizeC_spec P c hc]
    exact normalizeS_eq_normalize P c.erase hc1 hc2 hc3
  · show (stepC P c Op.normalize).1 = c
    unfold stepC
    cases c.normalizeC P <;> rfl

/-- **hist_normalize_full**: `normalize` of a FULLY PERIODIC system at any point of any history on an object whose
    cell went through the setter (`Clean`, true for every `Box`): of the three writes of the cell vectors only the
    rebuilt cell (`hc2`: no tilt factor of the LAMMPS cell below `tiny` of its largest component) can be altered by
    the clean-up of the setter — the reversal of a left-handed cell never is (`zeroSmall_flipC`), the wrap of a
    fully periodic system does not change the cell (`wrap_box_full`). -/
theorem hist_normalize_full (P : Params K) (ht0 : 0 ≤ P.tiny) (ht1 : P.tiny < 1)
    (ops : List (Op K)) (c0 : CSys K) (h0 : Coherent c0) (hc0 : Clean P.tiny c0)
    (hp : (runC P c0 ops).1.pbc = ⟨true, true, true⟩)
    (hc2 : let s := (runC P c0 ops).1.erase
      ∀ b2, abcBox? P.sqrt (flip s.box).vects = some b2 → zeroSmall P.tiny b2.vects = b2.vects) :
    let c := (runC P c0 ops).1
    c.normalizeC P = normalize? P.fl P.pad P.sqrt c.box c.pbc c.pos ∧ (stepC P c .normalize).1 = c := by
  have hclean : Clean P.tiny (runC P c0 ops).1 := clean_runC P ht0 ht1 ops c0 hc0
  apply hist_normalize P ops c0 h0
  · intro s _
    exact zeroSmall_flipC P.tiny s.box hclean
  · exact hc2
  · intro s b2 hb
    have hpb : s.pbc = ⟨true, true, true⟩ := hp
    rw [hpb, wrap_box_full]
    exact hc2 b2 hb

/-! ### the remaining clean-up hypotheses `hclean` / `hc2`: exactly when they hold, and when they are discharged -/

/-- **hclean_iff**: the hypothesis `hclean` of `hist_wrap_inside` holds exactly when every component of the cell `wrap`
    installs (the old cell with its non-periodic vectors lengthened) is zero or exceeds `tiny` times the largest one. -/
theorem hclean_iff (P : Params K) (c : CSys K) :
    zeroSmall P.tiny (wrap P.fl P.pad c.box c.pbc c.pos).box.vects = (wrap P.fl P.pad c.box c.pbc c.pos).box.vects ↔
    ∀ x ∈ (wrap P.fl P.pad c.box c.pbc c.pos).box.vects.toList,
      x = 0 ∨ P.tiny * maxAbs (wrap P.fl P.pad c.box c.pbc c.pos).box.vects < |x| :=
  zeroSmall_eq_self_iff _ _

/-- **wrap_clean_of_margin**: `hclean` in terms of the cell BEFORE the wrap: if no direction is lengthened by more than
    the factor `kmax` (`maxs[i] - mins[i] ≤ kmax`, e.g. the atoms stick out by at most `kmax - 1` cells) and every
    non-zero component of the old cell exceeds `tiny · kmax` times its largest component, the clean-up of the setter does
    not alter the lengthened cell (with `tiny = 1e-9`: components above `1e-6` of the largest and `kmax ≤ 1000`). -/
theorem wrap_clean_of_margin (fl : K → Int) (pad tiny : K) (hpad : 0 < pad) (ht : 0 ≤ tiny) (b : Box K) (pbc : V3 Bool)
    (pos : List (V3 K)) (kmax : K)
    (hk : let bd := bounds pad pbc (pos.map b.cartToRel)
      bd.x.2 - bd.x.1 ≤ kmax ∧ bd.y.2 - bd.y.1 ≤ kmax ∧ bd.z.2 - bd.z.1 ≤ kmax)
    (hmargin : ∀ x ∈ b.vects.toList, x = 0 ∨ tiny * kmax * maxAbs b.vects < |x|) :
    zeroSmall tiny (wrap fl pad b pbc pos).box.vects = (wrap fl pad b pbc pos).box.vects := by
  obtain ⟨wx, wy, wz⟩ := bounds_width pad hpad pbc (pos.map b.cartToRel)
  obtain ⟨kx, ky, kz⟩ := hk
  exact zeroSmall_stretched tiny ht b.vects _ _ _ kmax wx wy wz kx ky kz hmargin

/-- **hist_wrap_inside_margin**: `hist_wrap_inside` with `hclean` discharged by the margin condition: at any point of
    any history, a `wrap` of a system with ANY periodicity leaves every atom inside the cell the object then has, provided
    the cell it had before has no component within `tiny · kmax` of zero (relative to its largest) and no direction needs
    to be lengthened by more than `kmax`. -/
theorem hist_wrap_inside_margin (P : Params K) (hfl : IsFloor P.fl) (hpad : 0 < P.pad) (ht : 0 ≤ P.tiny)
    (ops : List (Op K)) (c0 : CSys K) (h0 : Coherent c0) (hdet : M3.det (runC P c0 ops).1.box.vects ≠ 0) (kmax : K)
    (hk : let c := (runC P c0 ops).1
      let bd := bounds P.pad c.pbc (c.pos.map c.box.cartToRel)
      bd.x.2 - bd.x.1 ≤ kmax ∧ bd.y.2 - bd.y.1 ≤ kmax ∧ bd.z.2 - bd.z.1 ≤ kmax)
    (hmargin : let c := (runC P c0 ops).1
      ∀ x ∈ c.box.vects.toList, x = 0 ∨ P.tiny * kmax * maxAbs c.box.vects < |x|) :
    let c := (runC P c0 ops).1
    let w := c.wrapC P
    ∀ p' ∈ w.2.pos, insideRel (w.2.box.cartToRel p') :=
  hist_wrap_inside P hfl hpad ops c0 h0 hdet
    (wrap_clean_of_margin P.fl P.pad P.tiny hpad ht _ _ _ kmax hk hmargin)

/-- **hc2_iff**: the hypothesis `hc2` of `hist_normalize_full` / `api_normalize_never_refuses` holds exactly when every
    component of the rebuilt LAMMPS cell (three edge lengths along the axes, three tilt factors, three structural zeros)
    is zero or exceeds `tiny` times the largest one (`clean_lammps_iff` gives the same in the six parameters). -/
theorem hc2_iff (P : Params K) (s : Sys K) :
    (∀ b2, abcBox? P.sqrt (flip s.box).vects = some b2 → zeroSmall P.tiny b2.vects = b2.vects) ↔
    (∀ b2, abcBox? P.sqrt (flip s.box).vects = some b2 →
      ∀ x ∈ b2.vects.toList, x = 0 ∨ P.tiny * maxAbs b2.vects < |x|) := by
  constructor
  · intro h b2 hb; exact (zeroSmall_eq_self_iff _ _).mp (h b2 hb)
  · intro h b2 hb; exact (zeroSmall_eq_self_iff _ _).mpr (h b2 hb)

/-- **hist_normalize_full_explicit**: `hist_normalize_full` with the clean-up hypothesis spelled out on the numbers of
    the rebuilt cell. -/
theorem hist_normalize_full_explicit (P : Params K) (ht0 : 0 ≤ P.tiny) (ht1 : P.tiny < 1)
    (ops : List (Op K)) (c0 : CSys K) (h0 : Coherent c0) (hc0 : Clean P.tiny c0)
    (hp : (runC P c0 ops).1.pbc = ⟨true, true, true⟩)
    (hc2 : let s := (runC P c0 ops).1.erase
      ∀ b2, abcBox? P.sqrt (flip s.box).vects = some b2 →
        ∀ x ∈ b2.vects.toList, x = 0 ∨ P.tiny * maxAbs b2.vects < |x|) :
    let c := (runC P c0 ops).1
    c.normalizeC P = normalize? P.fl P.pad P.sqrt c.box c.pbc c.pos ∧ (stepC P c .normalize).1 = c :=
  hist_normalize_full P ht0 ht1 ops c0 h0 hc0 hp ((hc2_iff P _).mpr hc2)

/-- lengths, cosines and angles are functions of the Gram matrix alone — whatever `sqrt` and `arccos` are. -/
theorem lengths_angles_of_gram (sqrt arccos : K → K) (v w : M3 K) (h : gram w = gram v) :
    lenA sqrt w = lenA sqrt v ∧ lenB sqrt w = lenB sqrt v ∧ lenC sqrt w = lenC sqrt v ∧
    cosAlpha sqrt w = cosAlpha sqrt v ∧ cosBeta sqrt w = cosBeta sqrt v ∧ cosGamma sqrt w = cosGamma sqrt v ∧
    arccos (cosAlpha sqrt w) = arccos (cosAlpha sqrt v) ∧ arccos (cosBeta sqrt w) = arccos (cosBeta sqrt v) ∧
    arccos (cosGamma sqrt w) = arccos (cosGamma sqrt v) := by
  rw [gram_entries, gram_entries] at h
  simp only [M3.mk.injEq, V3.mk.injEq] at h
  obtain ⟨⟨g00, g01, g02⟩, ⟨_, g11, g12⟩, ⟨_, _, g22⟩⟩ := h
  simp only [lenA, lenB, lenC, cosAlpha, cosBeta, cosGamma, g00, g01, g02, g11, g12, g22, and_self]

/-- **normalize_lengths_angles**: "the same lengths, angles and volume" in the code's own terms: `Box.a/b/c`
    (`sqrt` of the squared norms) and `Box.alpha/beta/gamma` (`arccos` of the cosines `vect_angle` forms) of the new
    cell are those of the (reversed, if left-handed) old cell, for EVERY pair of functions `sqrt`, `arccos`; in terms
    of the cell handed in: `a, b, c, gamma` are kept, `alpha, beta` are kept for a right-handed cell and their
    cosines change sign for a left-handed one (third vector reversed); the volume is `|det|`. -/
theorem normalize_lengths_angles (fl : K → Int) (pad : K) (sqrt arccos : K → K) (b : Box K) (hdet : M3.det b.vects ≠ 0)
    (hs : SqrtOK sqrt (flip b).vects) (pos : List (V3 K)) (r : Normalized K)
    (hr : normalize? fl pad sqrt b ⟨true, true, true⟩ pos = some r) :
    lenA sqrt r.box.vects = lenA sqrt (flip b).vects ∧ lenB sqrt r.box.vects = lenB sqrt (flip b).vects ∧
    lenC sqrt r.box.vects = lenC sqrt (flip b).vects ∧
    arccos (cosAlpha sqrt r.box.vects) = arccos (cosAlpha sqrt (flip b).vects) ∧
    arccos (cosBeta sqrt r.box.vects) = arccos (cosBeta sqrt (flip b).vects) ∧
    arccos (cosGamma sqrt r.box.vects) = arccos (cosGamma sqrt (flip b).vects) ∧
    lenA sqrt r.box.vects = lenA sqrt b.vects ∧ lenB sqrt r.box.vects = lenB sqrt b.vects ∧
    lenC sqrt r.box.vects = lenC sqrt b.vects ∧ cosGamma sqrt r.box.vects = cosGamma sqrt b.vects ∧
    (0 < triple b.vects → cosAlpha sqrt r.box.vects = cosAlpha sqrt b.vects ∧
      cosBeta sqrt r.box.vects = cosBeta sqrt b.vects) ∧
    (triple b.vects < 0 → cosAlpha sqrt r.box.vects = - cosAlpha sqrt b.vects ∧
      cosBeta sqrt r.box.vects = - cosBeta sqrt b.vects) ∧
    M3.det r.box.vects = |M3.det b.vects| := by
  obtain ⟨hg, ⟨n0, n1, n2, d01⟩, hpos, hneg, hvol⟩ := normalize_gram fl pad sqrt b hdet hs pos r hr
  obtain ⟨l1, l2, l3, _, _, _, a1, a2, a3⟩ := lengths_angles_of_gram sqrt arccos _ _ hg
  refine ⟨l1, l2, l3, a1, a2, a3, ?_, ?_, ?_, ?_, ?_, ?_, hvol⟩
  · simp only [lenA, n0]
  · simp only [lenB, n1]
  · simp only [lenC, n2]
  · simp only [cosGamma, lenA, lenB, n0, n1, d01]
  · intro h
    obtain ⟨d02, d12⟩ := hpos h
    simp only [cosAlpha, cosBeta, lenA, lenB, lenC, n0, n1, n2, d02, d12, and_self]
  · intro h
    obtain ⟨d02, d12⟩ := hneg h
    simp only [cosAlpha, cosBeta, lenA, lenB, lenC, n0, n1, n2, d02, d12, neg_div, and_self]

/-- **normalize_never_refuses**: a non-singular cell — however strongly tilted (a lattice angle a fraction of a degree
    from 0 or 180), of either handedness, in any orientation — is never refused by `normalize`: neither the angle check
    of `set_abc` (`ValueError('lattice angles must be between 0 and 180 degrees')`) nor the `lx, ly, lz > 0` assertion
    of `set_lengths` fires, for every periodicity setting and every list of positions.  (`SqrtOK` is what is assumed of
    `x**0.5` at the five arguments met; it holds at `ℝ` for every non-singular cell: `sqrtOK_real`.) -/
theorem normalize_never_refuses (fl : K → Int) (pad : K) (sqrt : K → K) (b : Box K) (hdet : M3.det b.vects ≠ 0)
    (hs : SqrtOK sqrt (flip b).vects) (pbc : V3 Bool) (pos : List (V3 K)) :
    angleGuard sqrt (flip b).vects = true ∧
    ∃ r, normalize? fl pad sqrt b pbc pos = some r ∧ normalizeG? fl pad sqrt b pbc pos = some r := by
  have hd : M3.det (flip b).vects ≠ 0 := ne_of_gt (flip_det_pos b hdet)
  have hg := angleGuard_of_det_ne_zero sqrt (flip b).vects hd hs.a hs.b hs.c
  obtain ⟨b2, h2, _⟩ := abcBox_spec sqrt (flip b).vects hs
  refine ⟨hg, _, normalize_eq fl pad sqrt b pbc pos b2 h2, ?_⟩
  simp only [normalizeG?, hg, if_true]
  exact normalize_eq fl pad sqrt b pbc pos b2 h2

/-- **angleGuard_refuses_parallel**: the refusal is not vacuous — a cell two of whose vectors are parallel (the angle
    between them is exactly 0 or 180 degrees) is refused by the angle check, whatever the third vector is. -/
theorem angleGuard_refuses_parallel (sqrt : K → K) (v : M3 K)
    (ha : SqrtAt sqrt (V3.normSq v.r0)) (hb : SqrtAt sqrt (V3.normSq v.r1)) (hc : SqrtAt sqrt (V3.normSq v.r2))
    (hpar : V3.normSq (V3.cross v.r1 v.r2) = 0 ∨ V3.normSq (V3.cross v.r0 v.r2) = 0 ∨
      V3.normSq (V3.cross v.r0 v.r1) = 0) :
    angleGuard sqrt v = false := by
  by_contra hcon
  have ht : angleGuard sqrt v = true := by simpa using hcon
  simp only [angleGuard, Bool.and_eq_true, cosAlpha, cosBeta, cosGamma, lenA, lenB, lenC] at ht
  obtain ⟨⟨g1, g2⟩, g3⟩ := ht
  have p1 := cross_pos_of_cos_strict sqrt v.r1 v.r2 hb hc g1
  have p2 := cross_pos_of_cos_strict sqrt v.r0 v.r2 ha hc g2
  have p3 := cross_pos_of_cos_strict sqrt v.r0 v.r1 ha hb g3
  rcases hpar with h | h | h
  · rw [h] at p1; exact lt_irrefl _ p1
  · rw [h] at p2; exact lt_irrefl _ p2
  · rw [h] at p3; exact lt_irrefl _ p3

/-- **boxSet_scale_spec**: `box_set(…, scale=True)` holds the relative coordinates fixed (the same list with respect to
    the new box as with respect to the old one, whenever the new cell — after the clean-up of the setter — is
    non-singular); `box_set(…, scale=False)` holds the Cartesian positions fixed. Either way the box is the one asked
    for (after the clean-up) and pbc is untouched. -/
theorem boxSet_scale_spec (tiny : K) (s : Sys K) (v : M3 K) (o : V3 K) :
    (M3.det (zeroSmall tiny v) ≠ 0 → (s.boxSet tiny true v o).spos = s.spos) ∧
    (s.boxSet tiny false v o).pos = s.pos ∧
    (∀ sc, (s.boxSet tiny sc v o).box = ⟨zeroSmall tiny v, o⟩ ∧ (s.boxSet tiny sc v o).pbc = s.pbc) := by
  refine ⟨?_, rfl, ?_⟩
  · intro hdet
    simp only [Sys.boxSet, if_true, Sys.spos, List.map_map]
    apply List.map_congr_left
    intro p _
    simp only [Function.comp]
    exact cartToRel_relToCart (⟨zeroSmall tiny v, o⟩ : Box K) hdet _
  · intro sc
    cases sc <;> simp [Sys.boxSet, Sys.setBox]

/-- **hist_boxSet_scale**: on the object with its cache, at any point of any history: reading the scaled positions
    after `box_set(vects=v, origin=o, scale=True)` gives what reading them before it gave. -/
theorem hist_boxSet_scale (P : Params K) (ops : List (Op K)) (c0 : CSys K) (h0 : Coherent c0) (v : M3 K) (o : V3 K)
    (hdet : M3.det (zeroSmall P.tiny v) ≠ 0) :
    let c := (runC P c0 ops).1
    (stepC P (stepC P c (.boxSet true v o)).1 .spos).2 = (stepC P c .spos).2 := by
  intro c
  obtain ⟨_, _, hc⟩ := runC_erase P ops c0 h0
  obtain ⟨e1, _, hc1⟩ := stepC_erase P c hc (.boxSet true v o)
  obtain ⟨_, o2, _⟩ := stepC_erase P _ hc1 .spos
  obtain ⟨_, o3, _⟩ := stepC_erase P c hc .spos
  rw [o2, o3, e1]
  simp only [step]
  rw [(boxSet_scale_spec P.tiny c.erase v o).1 hdet]

/-! ## uniqueness: the image flags are the ONLY whole-cell shift that brings an atom into the cell -/

/-- floor is unique: the only integer `n` with `0 ≤ s - n < 1` is `fl s`. -/
theorem IsFloor.unique {fl : K → Int} (h : IsFloor fl) {s : K} {n : Int} (h0 : 0 ≤ s - (n : K)) (h1 : s - (n : K) < 1) :
    n = fl s := by
  obtain ⟨ha, hb⟩ := h s
  have h2 : ((n : Int) : K) < ((fl s + 1 : Int) : K) := by
    rw [Int.cast_add, Int.cast_one]; linarith
  have h3 : ((fl s : Int) : K) < ((n + 1 : Int) : K) := by
    rw [Int.cast_add, Int.cast_one]; linarith
  have h4 := Int.cast_lt.mp h2
  have h5 := Int.cast_lt.mp h3
  omega

theorem relToCart_add_lattice (b : Box K) (s : V3 K) (f : V3 Int) :
    b.relToCart ⟨s.x + (f.x : K), s.y + (f.y : K), s.z + (f.z : K)⟩ = b.relToCart s + latticeVec b.vects f := by
  simp only [Box.relToCart, latticeVec, M3.vecMul, V3.add_def, V3.mk.injEq]
  refine ⟨?_, ?_, ?_⟩ <;> ring

/-- **wrap_flags_unique** ("moves each atom by whole cell vectors along periodic directions only … leaves every atom inside",
    read as *exactly*): if `q` differs from the atom's position `p` by whole cell vectors `f` along periodic directions only
    and lies in the half-open cell `0 ≤ s < 1` along every periodic direction, then `f` are the image flags `wrap` returns
    and `q` is the position `wrap` stores.  So the result of `wrap` is determined by the clauses of the property. -/
theorem wrap_flags_unique (fl : K → Int) (hfl : IsFloor fl) (b : Box K) (hdet : M3.det b.vects ≠ 0) (pbc : V3 Bool)
    (p q : V3 K) (f : V3 Int) (hq : q + latticeVec b.vects f = p)
    (hnp : (pbc.x = false → f.x = 0) ∧ (pbc.y = false → f.y = 0) ∧ (pbc.z = false → f.z = 0))
    (hin : (pbc.x = true → 0 ≤ (b.cartToRel q).x ∧ (b.cartToRel q).x < 1) ∧
           (pbc.y = true → 0 ≤ (b.cartToRel q).y ∧ (b.cartToRel q).y < 1) ∧
           (pbc.z = true → 0 ≤ (b.cartToRel q).z ∧ (b.cartToRel q).z < 1)) :
    f = atomFlags fl b pbc p ∧ q = atomPos fl b pbc p := by
  -- relative coordinates of p are those of q plus f
  have hp : b.cartToRel p = ⟨(b.cartToRel q).x + (f.x : K), (b.cartToRel q).y + (f.y : K), (b.cartToRel q).z + (f.z : K)⟩ := by
    rw [← hq]
    conv_lhs => rw [← relToCart_cartToRel b hdet q]
    rw [← relToCart_add_lattice, cartToRel_relToCart b hdet]
  have hf : f = atomFlags fl b pbc p := by
    obtain ⟨fx, fy, fz⟩ := f
    simp only [atomFlags, flagsOf, flagOf, hp, V3.mk.injEq]
    refine ⟨?_, ?_, ?_⟩
    · cases hx : pbc.x
      · simpa using hnp.1 hx
      · obtain ⟨a0, a1⟩ := hin.1 hx
        simp only [if_true]
        apply hfl.unique <;> simp only [add_sub_cancel_right] <;> assumption
    · cases hy : pbc.y
      · simpa using hnp.2.1 hy
      · obtain ⟨a0, a1⟩ := hin.2.1 hy
        simp only [if_true]
        apply hfl.unique <;> simp only [add_sub_cancel_right] <;> assumption
    · cases hz : pbc.z
      · simpa using hnp.2.2 hz
      · obtain ⟨a0, a1⟩ := hin.2.2 hz
        simp only [if_true]
        apply hfl.unique <;> simp only [add_sub_cancel_right] <;> assumption
  refine ⟨hf, ?_⟩
  have h1 := atom_reconstruct fl b hdet pbc p
  rw [← hf] at h1
  have h2 : q + latticeVec b.vects f = atomPos fl b pbc p + latticeVec b.vects f := by rw [hq, h1]
  simp only [V3.add_def, V3.mk.injEq] at h2
  obtain ⟨e1, e2, e3⟩ := h2
  ext
  · exact add_right_cancel e1
  · exact add_right_cancel e2
  · exact add_right_cancel e3

/-! ## uniqueness of the normalised cell -/

theorem sq_inj_pos {a b : K} (ha : 0 < a) (hb : 0 < b) (h : a * a = b * b) : a = b := by
  have h0 : (a - b) * (a + b) = 0 := by linear_combination h
  rcases mul_eq_zero.mp h0 with h1 | h1 <;> linarith

/-- **lammps_normal_unique** (uniqueness of the Cholesky factor): two LAMMPS-compatible cells (`a` along +x, `b` in the xy
    plane with positive y, `c` with positive z) with the same lengths and angles (Gram matrix) are the same cell. -/
theorem lammps_normal_unique (L M : Box K) (hL : Box.isLammpsNorm L = true) (hM : Box.isLammpsNorm M = true)
    (hg : gram L.vects = gram M.vects) : L.vects = M.vects := by
  obtain ⟨⟨⟨l00, l01, l02⟩, ⟨l10, l11, l12⟩, ⟨l20, l21, l22⟩⟩, lo⟩ := L
  obtain ⟨⟨⟨m00, m01, m02⟩, ⟨m10, m11, m12⟩, ⟨m20, m21, m22⟩⟩, mo⟩ := M
  simp only [Box.isLammpsNorm, Bool.and_eq_true, decide_eq_true_eq] at hL hM
  obtain ⟨⟨⟨⟨⟨rfl, rfl⟩, rfl⟩, hl0⟩, hl1⟩, hl2⟩ := hL
  obtain ⟨⟨⟨⟨⟨rfl, rfl⟩, rfl⟩, hm0⟩, hm1⟩, hm2⟩ := hM
  rw [gram_entries, gram_entries] at hg
  simp only [M3.mk.injEq, V3.mk.injEq, V3.normSq, V3.dot, mul_zero, add_zero, zero_mul] at hg
  obtain ⟨⟨g00, g01, g02⟩, ⟨_, g11, g12⟩, ⟨_, _, g22⟩⟩ := hg
  have e00 : l00 = m00 := sq_inj_pos hl0 hm0 g00
  subst e00
  have e10 : l10 = m10 := by
    have : l00 * (l10 - m10) = 0 := by linear_combination g01
    rcases mul_eq_zero.mp this with h | h
    · exact absurd h (ne_of_gt hl0)
    · linarith
  subst e10
  have e20 : l20 = m20 := by
    have : l00 * (l20 - m20) = 0 := by linear_combination g02
    rcases mul_eq_zero.mp this with h | h
    · exact absurd h (ne_of_gt hl0)
    · linarith
  subst e20
  have e11 : l11 = m11 := sq_inj_pos hl1 hm1 (by linear_combination g11)
  subst e11
  have e21 : l21 = m21 := by
    have : l11 * (l21 - m21) = 0 := by linear_combination g12
    rcases mul_eq_zero.mp this with h | h
    · exact absurd h (ne_of_gt hl1)
    · linarith
  subst e21
  have e22 : l22 = m22 := sq_inj_pos hl2 hm2 (by linear_combination g22)
  subst e22
  rfl

/-- **normalize_cell_unique** ("a new right-handed LAMMPS-compatible cell with the same lengths, angles", read as *the*):
    the cell `normalize` returns for a fully periodic system is the ONLY LAMMPS-compatible cell with the lengths and angles
    of the (reversed, if left-handed) input cell. -/
theorem normalize_cell_unique (fl : K → Int) (pad : K) (sqrt : K → K) (b : Box K) (hdet : M3.det b.vects ≠ 0)
    (hs : SqrtOK sqrt (flip b).vects) (pos : List (V3 K)) (r : Normalized K)
    (hr : normalize? fl pad sqrt b ⟨true, true, true⟩ pos = some r)
    (N : Box K) (hN : Box.isLammpsNorm N = true) (hg : gram N.vects = gram (flip b).vects) :
    r.box.vects = N.vects := by
  obtain ⟨r', hr', hn, _, _, _⟩ := normalize_lammps_normal fl pad sqrt b hs pos
  rw [hr] at hr'
  obtain rfl := Option.some.inj hr'
  have hg' := (normalize_gram fl pad sqrt b hdet hs pos r hr).1
  exact lammps_normal_unique r.box N hn hN (by rw [hg', hg])

/-- **normalize_of_lammps_normal** (idempotence on the cell): a fully periodic system whose cell is already
    LAMMPS-compatible keeps its cell vectors, gets origin 0, and the returned transformation is the identity. -/
theorem normalize_of_lammps_normal (fl : K → Int) (pad : K) (sqrt : K → K) (b : Box K)
    (hn : Box.isLammpsNorm b = true) (hs : SqrtOK sqrt b.vects) (pos : List (V3 K)) :
    ∃ r, normalize? fl pad sqrt b ⟨true, true, true⟩ pos = some r ∧ r.box.vects = b.vects ∧
      r.box.origin = ⟨0, 0, 0⟩ ∧ r.transform = M3.one := by
  have hdpos : 0 < M3.det b.vects := by
    obtain ⟨⟨⟨l00, l01, l02⟩, ⟨l10, l11, l12⟩, ⟨l20, l21, l22⟩⟩, lo⟩ := b
    simp only [Box.isLammpsNorm, Bool.and_eq_true, decide_eq_true_eq] at hn
    obtain ⟨⟨⟨⟨⟨rfl, rfl⟩, rfl⟩, h0⟩, h1⟩, h2⟩ := hn
    simp only [M3.det, V3.dot, V3.cross]
    have := mul_pos (mul_pos h0 h1) h2
    linarith
  have hdet : M3.det b.vects ≠ 0 := ne_of_gt hdpos
  have hf : flip b = b := by
    have : ¬ triple b.vects < 0 := by rw [triple_eq_det]; exact not_lt.mpr hdpos.le
    simp only [flip, this, if_false]
  have hs' : SqrtOK sqrt (flip b).vects := by rw [hf]; exact hs
  obtain ⟨b2, _, ho, _, _, _, hr⟩ := normalize_full_form fl pad sqrt b hs' pos
  have e : b2.vects = b.vects := normalize_cell_unique fl pad sqrt b hdet hs' pos _ hr b hn (by rw [hf])
  refine ⟨_, hr, e, ho, ?_⟩
  show (M3.mul (M3.inv (flip b).vects) b2.vects).transpose = M3.one
  rw [hf, e, M3.inv_mul_cancel _ hdet, M3.transpose_one]

/-! ## carried per-atom properties: which keys the copy made by `normalize` has (`Atoms.__deepcopy__`) -/

/-- **copyKeys_complete**: the copy of the atoms that `normalize` works on has exactly the keys of the original — `atype`
    and `pos` copied explicitly, every other key (whatever its name: a substring or superstring of a reserved one, not an
    identifier, empty) through the loop with its EXACT-match filter. -/
theorem copyKeys_complete (keys : List String) (h1 : "atype" ∈ keys) (h2 : "pos" ∈ keys) (k : String) :
    k ∈ copyKeys atomsCopyExplicit atomsCopyReserved keys ↔ k ∈ keys := by
  simp only [copyKeys, atomsCopyExplicit, atomsCopyReserved, List.mem_append, List.mem_filter, List.mem_cons,
    List.not_mem_nil, or_false, Bool.not_eq_true', List.contains_eq_mem, decide_eq_false_iff_not, not_or]
  constructor
  · rintro ((rfl | rfl) | ⟨h, _⟩)
    · exact h1
    · exact h2
    · exact h
  · intro h
    by_cases ha : k = "atype"
    · exact Or.inl (Or.inl ha)
    · by_cases hp : k = "pos"
      · exact Or.inl (Or.inr hp)
      · exact Or.inr ⟨h, ha, hp⟩

/-- no key is carried twice (for a key list without duplicates). -/
theorem copyKeys_nodup (keys : List String) (hk : keys.Nodup) : (copyKeys atomsCopyExplicit atomsCopyReserved keys).Nodup := by
  simp only [copyKeys, atomsCopyExplicit, atomsCopyReserved]
  rw [List.nodup_append]
  refine ⟨by decide, hk.filter _, ?_⟩
  intro a ha b hb
  simp only [List.mem_filter, Bool.not_eq_true', List.contains_eq_mem, decide_eq_false_iff_not] at hb
  intro hab
  subst hab
  exact hb.2 ha

/-! ## the public entry points with their option handling (model of lean/Atomman/C05_Src.lean; the defaults, tests and
    refusals are tied to the source by `gen_defaults_eq_model` / `gen_flagTests_eq_model` / `gen_*Body_eq_model`) -/

/-- **boxSetApi_refuses_iff**: `box_set(…, scale=x)` refuses exactly when `x` is given and is not a Python `bool` (an `int`,
    a numpy bool, a string, `None`, a float), always with `TypeError`; omitted it is `False`; `True` holds the relative
    coordinates, `False` the Cartesian ones. -/
theorem boxSetApi_refuses_iff (tiny : K) (c : CSys K) (scale : Option PyVal) (v : M3 K) (o : V3 K) :
    (c.boxSetApi tiny scale v o = .error .typeError ↔ ∃ x, scale = some x ∧ x.isBool = false) ∧
    (∀ e, c.boxSetApi tiny scale v o = .error e → e = .typeError) ∧
    (∀ b, scale = some (.bool b) → c.boxSetApi tiny scale v o = .ok (c.boxSet tiny b v o)) ∧
    (scale = none → c.boxSetApi tiny scale v o = .ok (c.boxSet tiny false v o)) := by
  refine ⟨?_, ?_, ?_, ?_⟩
  · rcases scale with _ | (_ | b | n | s | b | b) <;>
      simp [CSys.boxSetApi, boxSetScaleDefault, PyVal.isBool]
  · intro e
    rcases scale with _ | (_ | b | n | s | b | b) <;>
      simp [CSys.boxSetApi, boxSetScaleDefault, PyVal.isBool] <;> intro h <;> exact h.symm
  · rintro b rfl
    cases b <;> rfl
  · rintro rfl
    rfl

/-- **api_boxSet_scale** (end to end, anchor mechanism 3 with its option handling): at any point of any history on one
    object, `box_set(vects=v, origin=o, scale=True)` is accepted and reading the scaled positions afterwards gives what
    reading them before gave; with `scale=False` or no `scale` it is accepted and the Cartesian positions are untouched;
    any non-`bool` scale is refused with `TypeError` (and, the call being refused, nothing is written). -/
theorem api_boxSet_scale (P : Params K) (ops : List (Op K)) (c0 : CSys K) (h0 : Coherent c0) (v : M3 K) (o : V3 K)
    (hdet : M3.det (zeroSmall P.tiny v) ≠ 0) (scale : Option PyVal) :
    let c := (runC P c0 ops).1
    (scale = some (.bool true) →
      ∃ c', c.boxSetApi P.tiny scale v o = .ok c' ∧ (stepC P c' .spos).2 = (stepC P c .spos).2) ∧
    ((scale = none ∨ scale = some (.bool false)) →
      ∃ c', c.boxSetApi P.tiny scale v o = .ok c' ∧ c'.pos = c.pos ∧ c'.box = ⟨zeroSmall P.tiny v, o⟩) ∧
    ((∃ x, scale = some x ∧ x.isBool = false) → c.boxSetApi P.tiny scale v o = .error .typeError) := by
  intro c
  obtain ⟨hr, _, hb, hn⟩ := boxSetApi_refuses_iff P.tiny c scale v o
  refine ⟨?_, ?_, fun h => hr.mpr h⟩
  · intro hs
    refine ⟨_, hb true hs, ?_⟩
    exact hist_boxSet_scale P ops c0 h0 v o hdet
  · rintro (hs | hs)
    · exact ⟨_, hn hs, rfl, rfl⟩
    · exact ⟨_, hb false hs, rfl, rfl⟩

/-- **wrapApi_spec**: `wrap(<flag>)` does the same work whatever is passed; the image flags are handed back exactly when
    the flag is truthy (so `1` and `numpy.True_` count, `0`, `None`, `''` and an omitted flag do not). -/
theorem wrapApi_spec (P : Params K) (c : CSys K) (flag : Option PyVal) :
    (c.wrapApi P flag).2 = (c.wrapC P).2 ∧
    ((flag.getD (.bool false)).truthy = true → (c.wrapApi P flag).1 = some (c.wrapC P).1) ∧
    ((flag.getD (.bool false)).truthy = false → (c.wrapApi P flag).1 = none) := by
  refine ⟨rfl, ?_, ?_⟩ <;> intro h <;> simp [CSys.wrapApi, wrapFlagDefault, h]

/-- **api_wrap_reconstruct** (end to end): at any point of any history on one object, `system.wrap(<anything>)` moves every
    atom by whole old cell vectors (zero along non-periodic directions) whether or not the image flags are asked for, and
    whenever flags are returned they reconstruct the positions held before the call. -/
theorem api_wrap_reconstruct (P : Params K) (ops : List (Op K)) (c0 : CSys K) (h0 : Coherent c0)
    (hdet : M3.det (runC P c0 ops).1.box.vects ≠ 0) (flag : Option PyVal) :
    let c := (runC P c0 ops).1
    let r := c.wrapApi P flag
    (∃ f : List (V3 Int), List.zipWith (fun p' g => p' + latticeVec c.box.vects g) r.2.pos f = c.pos ∧
      ∀ g ∈ f, (c.pbc.x = false → g.x = 0) ∧ (c.pbc.y = false → g.y = 0) ∧ (c.pbc.z = false → g.z = 0)) ∧
    (∀ f, r.1 = some f → List.zipWith (fun p' g => p' + latticeVec c.box.vects g) r.2.pos f = c.pos) ∧
    (r.1.isSome = (flag.getD (.bool false)).truthy) := by
  intro c r
  obtain ⟨h1, h2⟩ := hist_wrap_reconstruct P ops c0 h0 hdet
  obtain ⟨e2, e1, e0⟩ := wrapApi_spec P c flag
  refine ⟨⟨(c.wrapC P).1, ?_, h2⟩, ?_, ?_⟩
  · show List.zipWith _ (c.wrapApi P flag).2.pos _ = _
    rw [e2]; exact h1
  · intro f hf
    show List.zipWith _ (c.wrapApi P flag).2.pos _ = _
    rw [e2]
    cases ht : (flag.getD (.bool false)).truthy
    · have := e0 ht
      rw [show r.1 = (c.wrapApi P flag).1 from rfl, this] at hf
      exact absurd hf (by simp)
    · have := e1 ht
      rw [show r.1 = (c.wrapApi P flag).1 from rfl, this] at hf
      cases hf
      exact h1
  · show (c.wrapApi P flag).1.isSome = _
    cases ht : (flag.getD (.bool false)).truthy
    · rw [e0 ht]; rfl
    · rw [e1 ht]; rfl

/-- **normalizeApi_style_iff**: `System.normalize(style, …)` goes on to `atomman.lammps.normalize` exactly when `style` is
    omitted or is the string `'lammps'`; every other value (another string, `None`, a number, a bool) is refused with
    `ValueError` before anything is computed. -/
theorem normalizeApi_style_iff (P : Params K) (c : CSys K) (style flag : Option PyVal) :
    ((style = none ∨ style = some (.str "lammps")) → c.normalizeApi P style flag = c.lmpNormalizeApi P flag) ∧
    (¬ (style = none ∨ style = some (.str "lammps")) → c.normalizeApi P style flag = .error .valueError) := by
  refine ⟨?_, ?_⟩
  · rintro (rfl | rfl) <;> rfl
  · intro h
    have hne : style.getD normStyleDefault ≠ normStyleAccepted := by
      rcases style with _ | x
      · exact absurd (Or.inl rfl) h
      · intro hx
        apply h; right
        simp only [Option.getD_some, normStyleAccepted] at hx
        rw [hx]
    simp [CSys.normalizeApi, hne]

/-- **api_normalize_never_refuses** (end to end): at any point of any history on one object whose cell went through the
    setter, a fully periodic system with a non-singular cell is accepted by `system.normalize()` /
    `system.normalize('lammps', <any flag>)` / `lammps.normalize(system, <any flag>)`: no `ValueError` from the style test
    or the angle check, no assertion; the system handed back is `normalize?` of the visible state (to which all
    `normalize_*` clauses apply) whatever the flag, and the transformation is part of the result exactly when the flag is
    truthy.  `hc2` is the remaining clean-up hypothesis of `hist_normalize_full`. -/
theorem api_normalize_never_refuses (P : Params K) (ht0 : 0 ≤ P.tiny) (ht1 : P.tiny < 1)
    (ops : List (Op K)) (c0 : CSys K) (h0 : Coherent c0) (hc0 : Clean P.tiny c0)
    (hp : (runC P c0 ops).1.pbc = ⟨true, true, true⟩)
    (hdet : M3.det (runC P c0 ops).1.box.vects ≠ 0)
    (hs : SqrtOK P.sqrt (flip (runC P c0 ops).1.box).vects)
    (hc2 : let s := (runC P c0 ops).1.erase
      ∀ b2, abcBox? P.sqrt (flip s.box).vects = some b2 → zeroSmall P.tiny b2.vects = b2.vects)
    (style flag : Option PyVal) (hstyle : style = none ∨ style = some (.str "lammps")) :
    let c := (runC P c0 ops).1
    ∃ z, normalize? P.fl P.pad P.sqrt c.box c.pbc c.pos = some z ∧
      c.normalizeApi P style flag = .ok (z, (flag.getD (.bool false)).truthy) ∧
      c.lmpNormalizeApi P flag = .ok (z, (flag.getD (.bool false)).truthy) := by
  intro c
  have hclean : Clean P.tiny c := clean_runC P ht0 ht1 ops c0 hc0
  obtain ⟨hn, _⟩ := hist_normalize_full P ht0 ht1 ops c0 h0 hc0 hp hc2
  obtain ⟨hg, z, hz, _⟩ := normalize_never_refuses P.fl P.pad P.sqrt c.box hdet hs c.pbc c.pos
  have hfl : (c.flipped P).box.vects = (flip c.box).vects := by
    unfold CSys.flipped flip
    by_cases ht : triple c.box.vects < 0
    · simp only [ht, if_true, CSys.setBox, CSys.setVects, CSys.setOrigin]
      exact zeroSmall_flipC P.tiny c.box hclean
    · simp only [ht, if_false]
  have hl : c.lmpNormalizeApi P flag = .ok (z, (flag.getD (.bool false)).truthy) := by
    unfold CSys.lmpNormalizeApi
    rw [hfl, hg, if_pos rfl]
    have : c.normalizeC P = some z := by rw [show c.normalizeC P = _ from hn]; exact hz
    rw [this]; rfl
  exact ⟨z, hz, by rw [(normalizeApi_style_iff P c style flag).1 hstyle]; exact hl, hl⟩

/-! ## non-vacuity: concrete states meeting the hypotheses -/

/-- a rational square root good enough for the 3-4-5 example cell. -/
def sqrtQ (x : ℚ) : ℚ := if x = 9 then 3 else if x = 16 then 4 else if x = 25 then 5 else 0

/-- left-handed cell (det = -60), non-zero origin. -/
def exBox : Box ℚ := ⟨⟨⟨0, 3, 0⟩, ⟨4, 0, 0⟩, ⟨0, 0, 5⟩⟩, ⟨1, 1, 1⟩⟩
def exPos : List (V3 ℚ) := [⟨1, 1, 1⟩, ⟨-7, 9/2, 23/2⟩, ⟨3, 2, 7/2⟩]

example : M3.det exBox.vects = -60 := by decide +kernel
example : SqrtOK sqrtQ (flip exBox).vects := by
  refine ⟨⟨?_, ?_⟩, ⟨?_, ?_⟩, ⟨?_, ?_⟩, ⟨?_, ?_⟩, ⟨?_, ?_⟩⟩ <;> decide +kernel
example : (normalize? Rat.floor (1/1000) sqrtQ exBox ⟨true, true, true⟩ exPos).isSome = true := by decide +kernel
example : (normalizeG? Rat.floor (1/1000) sqrtQ exBox ⟨true, false, true⟩ exPos).isSome = true := by decide +kernel
example : angleGuard sqrtQ (⟨⟨3, 0, 0⟩, ⟨-4, 0, 0⟩, ⟨0, 0, 5⟩⟩ : M3 ℚ) = false := by decide +kernel
example : (wrap Rat.floor (1/1000) exBox ⟨true, false, true⟩ exPos).flags = [⟨0, 0, 0⟩, ⟨1, 0, 2⟩, ⟨0, 0, 0⟩] := by
  decide +kernel

/-- a history on one object: look at the scaled positions, strain the cell slightly with the atoms following,
    wrap, normalize, wrap again. -/
def exPar : Params ℚ := ⟨Rat.floor, 1/1000, 1/1000000000, sqrtQ⟩
def exHist : List (Op ℚ) :=
  [.spos, .boxSet true ⟨⟨0, 3, 0⟩, ⟨4, 0, 0⟩, ⟨0, 0, 5⟩⟩ ⟨1, 1, 1001/1000⟩, .wrap, .normalize, .setPbc ⟨true, false, true⟩, .wrap]
def exSys : CSys ℚ := ⟨exBox, none, ⟨true, true, true⟩, exPos⟩

example : Coherent exSys := coherent_fresh _ _ _
example : (runC exPar exSys exHist).2.length = 6 := by decide +kernel
example : M3.det (runC exPar exSys exHist).1.box.vects ≠ 0 := by decide +kernel
/-- the clean-up hypothesis of `hist_wrap_inside` holds on this history … -/
example : let c := (runC exPar exSys exHist).1
    zeroSmall exPar.tiny (wrap exPar.fl exPar.pad c.box c.pbc c.pos).box.vects
      = (wrap exPar.fl exPar.pad c.box c.pbc c.pos).box.vects := by decide +kernel
/-- … and fails where a component is below `tiny` of the largest one: the setter does remove it. -/
example : zeroSmall exPar.tiny ⟨⟨4, 0, 0⟩, ⟨1/1000000000, 4, 0⟩, ⟨0, 0, 4⟩⟩ = (⟨⟨4, 0, 0⟩, ⟨0, 4, 0⟩, ⟨0, 0, 4⟩⟩ : M3 ℚ) := by
  decide +kernel
example : (runC exPar exSys (exHist ++ [.editPbc 2 false])).1.pbc = ⟨true, false, false⟩ := by decide +kernel
example : ((runC exPar exSys [.editPbc 2 false]).1.wrapC exPar).1 = [⟨0, 0, 0⟩, ⟨1, -2, 0⟩, ⟨0, 0, 0⟩] := by
  decide +kernel
example : Clean exPar.tiny exSys := by unfold Clean; decide +kernel
example : (0 : ℚ) ≤ exPar.tiny ∧ exPar.tiny < 1 := by decide +kernel
/-- the normalize observed in the history is the function `normalize?` of the visible state. -/
example : (exSys.normalizeC exPar).map (fun z => (z.box, z.pos, z.flags, z.transform)) =
    (normalize? exPar.fl exPar.pad exPar.sqrt exSys.box exSys.pbc exSys.pos).map
      (fun z => (z.box, z.pos, z.flags, z.transform)) := by
  decide +kernel
example : (exSys.normalizeC exPar).isSome = true := by decide +kernel

/-- a history with an edit of the positions, ending fully periodic: the hypotheses of `hist_normalize_full` hold. -/
def exHist2 : List (Op ℚ) := [.spos, .setPos [⟨1, 1, 1⟩, ⟨-7, 9/2, 23/2⟩], .wrap, .setOrigin ⟨0, 1/2, 0⟩]
example : (runC exPar exSys exHist2).1.pbc = ⟨true, true, true⟩ := by decide +kernel
example : (runC exPar exSys exHist2).1.pos.length = 2 := by decide +kernel
example : triple (runC exPar exSys exHist2).1.box.vects < 0 := by decide +kernel
example : ((abcBox? exPar.sqrt (flip (runC exPar exSys exHist2).1.erase.box).vects).map
    (fun b2 => decide (zeroSmall exPar.tiny b2.vects = b2.vects))) = some true := by decide +kernel

example : M3.det (zeroSmall exPar.tiny (⟨⟨0, 3, 0⟩, ⟨4, 0, 0⟩, ⟨0, 0, 5⟩⟩ : M3 ℚ)) ≠ 0 := by decide +kernel

/-- at ℝ (real floor, real square root) every non-singular cell meets all hypotheses: normalize is
    defined and yields a right-handed LAMMPS cell. -/
-- normalize_of_lammps_normal: a LAMMPS-compatible cell with every hypothesis true; copyKeys on awkward names
example : Box.isLammpsNorm (⟨⟨⟨3, 0, 0⟩, ⟨0, 4, 0⟩, ⟨0, 0, 5⟩⟩, ⟨1, 2, 3⟩⟩ : Box ℚ) = true := by decide +kernel
example : SqrtOK sqrtQ (⟨⟨3, 0, 0⟩, ⟨0, 4, 0⟩, ⟨0, 0, 5⟩⟩ : M3 ℚ) := by
  refine ⟨⟨?_, ?_⟩, ⟨?_, ?_⟩, ⟨?_, ?_⟩, ⟨?_, ?_⟩, ⟨?_, ?_⟩⟩ <;> decide +kernel
example : copyKeys atomsCopyExplicit atomsCopyReserved ["atype", "pos", "type", "p", "", "atype pos", "position"]
    = ["atype", "pos", "type", "p", "", "atype pos", "position"] := by decide
-- ArccosDeg is satisfiable in ℚ too (a linear stand-in), and the guard is not vacuous: cosine 1 is refused, 1/2 is not
example : ArccosDeg (fun x : ℚ => 90 * (1 - x)) := ⟨fun x y _ h _ => by linarith, by ring, by ring⟩
example : Atomman.Generated.WrapSource.anglesRejected (90 : ℚ) 90 0 = true ∧
    Atomman.Generated.WrapSource.anglesRejected (90 : ℚ) 60 120 = false := by decide +kernel
-- wrap_flags_unique: the second atom of `exPos`, pbc (T, F, T): q = p - (1 a + 2 c) meets every hypothesis
example : (⟨-7, 3/2, 3/2⟩ : V3 ℚ) + latticeVec exBox.vects ⟨1, 0, 2⟩ = ⟨-7, 9/2, 23/2⟩ := by decide +kernel
example : let s := exBox.cartToRel (⟨-7, 3/2, 3/2⟩ : V3 ℚ); 0 ≤ s.x ∧ s.x < 1 ∧ 0 ≤ s.z ∧ s.z < 1 := by decide +kernel
example : atomFlags Rat.floor exBox ⟨true, false, true⟩ (⟨-7, 9/2, 23/2⟩ : V3 ℚ) = ⟨1, 0, 2⟩ := by decide +kernel
-- the entry points: flag / scale / style values that are not Python bools
example : (exSys.wrapApi exPar (some (.int 1))).1 = some [⟨0, 0, 0⟩, ⟨1, -2, 2⟩, ⟨0, 0, 0⟩] := by decide +kernel
example : (exSys.wrapApi exPar (some (.npbool true))).1.isSome = true ∧ (exSys.wrapApi exPar (some (.int 0))).1 = none ∧
    (exSys.wrapApi exPar none).1 = none := by decide +kernel
example : (match exSys.boxSetApi exPar.tiny (some (.int 1)) exBox.vects exBox.origin with
    | .error .typeError => true | _ => false) = true := by decide +kernel
example : (match exSys.boxSetApi exPar.tiny (some (.npbool true)) exBox.vects exBox.origin with
    | .error .typeError => true | _ => false) = true := by decide +kernel
example : (match exSys.normalizeApi exPar (some (.str "LAMMPS")) none with
    | .error .valueError => true | _ => false) = true := by decide +kernel
example : (match exSys.normalizeApi exPar none (some (.int 1)) with | .ok (_, true) => true | _ => false) = true := by
  decide +kernel
example : (match exSys.normalizeApi exPar (some (.str "lammps")) none with | .ok (_, false) => true | _ => false) = true := by
  decide +kernel
-- api_normalize_never_refuses: its hypotheses on `exSys` after `exHist2` (left-handed, fully periodic, clean)
example : SqrtOK exPar.sqrt (flip (runC exPar exSys exHist2).1.box).vects := by
  refine ⟨⟨?_, ?_⟩, ⟨?_, ?_⟩, ⟨?_, ?_⟩, ⟨?_, ?_⟩, ⟨?_, ?_⟩⟩ <;> decide +kernel

example (b : Box ℝ) (hdet : M3.det b.vects ≠ 0) (pos : List (V3 ℝ)) :
    ∃ r, normalize? (fun s => ⌊s⌋) (1 / 1000) Real.sqrt b ⟨true, true, true⟩ pos = some r ∧
      Box.isLammpsNorm r.box = true ∧ 0 < M3.det r.box.vects ∧ r.box.origin = ⟨0, 0, 0⟩ ∧
      r.pos.length = pos.length :=
  normalize_lammps_normal _ _ _ b (sqrtOK_real _ (ne_of_gt (flip_det_pos b hdet))) pos

example : IsFloor (K := ℝ) (fun s => ⌊s⌋) := fun s => ⟨Int.floor_le s, Int.lt_floor_add_one s⟩

example (b : Box ℚ) (hdet : M3.det b.vects ≠ 0) (pbc : V3 Bool) (pos : List (V3 ℚ)) :
    ∀ p' ∈ (wrap Rat.floor (1 / 1000) b pbc pos).pos,
      insideRel ((wrap Rat.floor (1 / 1000) b pbc pos).box.cartToRel p') :=
  wrap_inside Rat.floor isFloor_ratFloor _ (by norm_num) b hdet pbc pos

/-- (statement audit) the hypotheses of `lammps_normal_unique` / `normalize_cell_unique` are met by two DIFFERENT boxes
    (a tilted LAMMPS-normal cell at two origins; the conclusion is about the vectors only), and a cell with the same
    lengths and angles that is NOT LAMMPS-normal (the same cell turned a quarter about z) has the same Gram matrix and
    other vectors — so `isLammpsNorm` cannot be dropped. -/
example :
    let L : Box ℚ := ⟨⟨⟨3, 0, 0⟩, ⟨1, 4, 0⟩, ⟨-1, 1/2, 5⟩⟩, ⟨0, 0, 0⟩⟩
    let M : Box ℚ := ⟨⟨⟨3, 0, 0⟩, ⟨1, 4, 0⟩, ⟨-1, 1/2, 5⟩⟩, ⟨7, -2, 1/3⟩⟩
    let R : Box ℚ := ⟨⟨⟨0, 3, 0⟩, ⟨-4, 1, 0⟩, ⟨-1/2, -1, 5⟩⟩, ⟨0, 0, 0⟩⟩
    Box.isLammpsNorm L = true ∧ Box.isLammpsNorm M = true ∧ L ≠ M ∧ gram L.vects = gram M.vects ∧
    gram R.vects = gram L.vects ∧ Box.isLammpsNorm R = false ∧ R.vects ≠ L.vects := by
  decide +kernel

/-- (statement audit) the hypothesis of `zeroSmall_eq_self` is a real restriction: a cell with a component `1e-9` of the
    largest one is changed by the setter's clean-up, one with `2e-9` is not. -/
example :
    zeroSmall (1/1000000000 : ℚ) ⟨⟨4, 0, 0⟩, ⟨1/250000000, 4, 0⟩, ⟨0, 0, 4⟩⟩ ≠ ⟨⟨4, 0, 0⟩, ⟨1/250000000, 4, 0⟩, ⟨0, 0, 4⟩⟩ ∧
    zeroSmall (1/1000000000 : ℚ) ⟨⟨4, 0, 0⟩, ⟨1/125000000, 4, 0⟩, ⟨0, 0, 4⟩⟩ = ⟨⟨4, 0, 0⟩, ⟨1/125000000, 4, 0⟩, ⟨0, 0, 4⟩⟩ := by
  decide +kernel

-- wrap_clean_of_margin / hist_wrap_inside_margin: a partially periodic system whose atom sticks out 1.25 cells along the
-- non-periodic direction; both hypotheses hold with kmax = 3 and tiny = 1e-9 (and the conclusion is not trivial: the cell grew)
example : let b : Box ℚ := ⟨⟨⟨3, 0, 0⟩, ⟨1/1000, 4, 0⟩, ⟨0, 0, 5⟩⟩, ⟨0, 0, 0⟩⟩
    let pbc : V3 Bool := ⟨true, false, true⟩
    let pos : List (V3 ℚ) := [⟨1, 9, 1⟩, ⟨-2, 1, 7⟩]
    let bd := bounds (1/1000) pbc (pos.map b.cartToRel)
    (bd.x.2 - bd.x.1 ≤ 3 ∧ bd.y.2 - bd.y.1 ≤ 3 ∧ bd.z.2 - bd.z.1 ≤ 3) ∧
    (∀ x ∈ b.vects.toList, x = 0 ∨ (1/1000000000 : ℚ) * 3 * maxAbs b.vects < |x|) ∧
    (wrap Rat.floor (1/1000) b pbc pos).box.vects ≠ b.vects := by
  decide +kernel

end Atomman.C05
