/-
  C05 — property theorems for the model of `System.wrap` / `atomman.lammps.normalize`
  (lean/Atomman/C05.lean).  `K` is any linearly ordered field (ℚ, ℝ, …).
-/
import Proofs.C05_Lemmas

namespace Atomman.C05
open Atomman
set_option linter.unusedSimpArgs false
set_option linter.unusedSectionVars false
set_option linter.unusedVariables false

variable {K : Type} [Field K] [LinearOrder K] [IsStrictOrderedRing K]

/-! ## wrap -/

/-- **wrap_reconstruct**: the returned image flags reconstruct the original positions with the original
    cell vectors, and are zero along non-periodic directions (atoms are not moved there). -/
theorem wrap_reconstruct (fl : K → Int) (pad : K) (b : Box K) (hdet : M3.det b.vects ≠ 0) (pbc : V3 Bool)
    (pos : List (V3 K)) :
    List.zipWith (fun p' f => p' + latticeVec b.vects f) (wrap fl pad b pbc pos).pos (wrap fl pad b pbc pos).flags
      = pos ∧
    (wrap fl pad b pbc pos).pos.length = pos.length ∧ (wrap fl pad b pbc pos).flags.length = pos.length ∧
    ∀ f ∈ (wrap fl pad b pbc pos).flags,
      (pbc.x = false → f.x = 0) ∧ (pbc.y = false → f.y = 0) ∧ (pbc.z = false → f.z = 0) := by
  refine ⟨?_, by simp [wrap], by simp [wrap], ?_⟩
  · simp only [wrap, List.zipWith_map_left, List.zipWith_map_right, List.zipWith_self]
    conv_rhs => rw [← List.map_id pos]
    apply List.map_congr_left
    intro p _
    exact atom_reconstruct fl b hdet pbc p
  · intro f hf
    simp only [wrap, List.mem_map] at hf
    obtain ⟨p, _, rfl⟩ := hf
    exact atomFlags_nonperiodic fl b pbc p

/-- **wrap_inside**: after `wrap` every atom is inside the new box (faces included). -/
theorem wrap_inside (fl : K → Int) (hfl : IsFloor fl) (pad : K) (hpad : 0 < pad) (b : Box K)
    (hdet : M3.det b.vects ≠ 0) (pbc : V3 Bool) (pos : List (V3 K)) :
    ∀ p' ∈ (wrap fl pad b pbc pos).pos, insideRel ((wrap fl pad b pbc pos).box.cartToRel p') := by
  intro p' hp'
  simp only [wrap, List.mem_map] at hp'
  obtain ⟨p, hp, rfl⟩ := hp'
  have e := wrap_cartToRel fl pad hpad b hdet pbc pos p
  rw [e]
  have mx : (b.cartToRel p).x ∈ (pos.map b.cartToRel).map (·.x) :=
    List.mem_map.mpr ⟨_, List.mem_map.mpr ⟨p, hp, rfl⟩, rfl⟩
  have my : (b.cartToRel p).y ∈ (pos.map b.cartToRel).map (·.y) :=
    List.mem_map.mpr ⟨_, List.mem_map.mpr ⟨p, hp, rfl⟩, rfl⟩
  have mz : (b.cartToRel p).z ∈ (pos.map b.cartToRel).map (·.z) :=
    List.mem_map.mpr ⟨_, List.mem_map.mpr ⟨p, hp, rfl⟩, rfl⟩
  obtain ⟨_, x0, x1, _⟩ := axis_unit fl hfl pad hpad pbc.x _ _ mx
  obtain ⟨_, y0, y1, _⟩ := axis_unit fl hfl pad hpad pbc.y _ _ my
  obtain ⟨_, z0, z1, _⟩ := axis_unit fl hfl pad hpad pbc.z _ _ mz
  exact ⟨x0, x1.le, y0, y1.le, z0, z1.le⟩

end Atomman.C05
