/-
  C05 — property theorems for the model of `System.wrap` / `atomman.lammps.normalize`
  (lean/Atomman/C05.lean).  `K` is any linearly ordered field (ℚ, ℝ, …).
-/
import Proofs.C05_Lemmas

namespace Atomman.C05
open Atomman
set_option linter.unusedSimpArgs false
set_option linter.unusedSectionVars false
set_option linter.unusedVariables false

variable {K : Type} [Field K] [LinearOrder K] [IsStrictOrderedRing K]

/-! ## wrap -/

/-- **wrap_reconstruct**: the returned image flags reconstruct the original positions with the original
    cell vectors, and are zero along non-periodic directions (atoms are not moved there). -/
theorem wrap_reconstruct (fl : K → Int) (pad : K) (b : Box K) (hdet : M3.det b.vects ≠ 0) (pbc : V3 Bool)
    (pos : List (V3 K)) :
    List.zipWith (fun p' f => p' + latticeVec b.vects f) (wrap fl pad b pbc pos).pos (wrap fl pad b pbc pos).flags
      = pos ∧
    (wrap fl pad b pbc pos).pos.length = pos.length ∧ (wrap fl pad b pbc pos).flags.length = pos.length ∧
    ∀ f ∈ (wrap fl pad b pbc pos).flags,
      (pbc.x = false → f.x = 0) ∧ (pbc.y = false → f.y = 0) ∧ (pbc.z = false → f.z = 0) := by
  refine ⟨?_, by simp [wrap], by simp [wrap], ?_⟩
  · simp only [wrap, List.zipWith_map_left, List.zipWith_map_right, List.zipWith_self]
    conv_rhs => rw [← List.map_id pos]
    apply List.map_congr_left
    intro p _
    exact atom_reconstruct fl b hdet pbc p
  · intro f hf
    simp only [wrap, List.mem_map] at hf
    obtain ⟨p, _, rfl⟩ := hf
    exact atomFlags_nonperiodic fl b pbc p

/-- **wrap_inside**: after `wrap` every atom is inside the new box (faces included). -/
theorem wrap_inside (fl : K → Int) (hfl : IsFloor fl) (pad : K) (hpad : 0 < pad) (b : Box K)
    (hdet : M3.det b.vects ≠ 0) (pbc : V3 Bool) (pos : List (V3 K)) :
    ∀ p' ∈ (wrap fl pad b pbc pos).pos, insideRel ((wrap fl pad b pbc pos).box.cartToRel p') := by
  intro p' hp'
  simp only [wrap, List.mem_map] at hp'
  obtain ⟨p, hp, rfl⟩ := hp'
  have e := wrap_cartToRel fl pad hpad b hdet pbc pos p
  rw [e]
  have mx : (b.cartToRel p).x ∈ (pos.map b.cartToRel).map (·.x) :=
    List.mem_map.mpr ⟨_, List.mem_map.mpr ⟨p, hp, rfl⟩, rfl⟩
  have my : (b.cartToRel p).y ∈ (pos.map b.cartToRel).map (·.y) :=
    List.mem_map.mpr ⟨_, List.mem_map.mpr ⟨p, hp, rfl⟩, rfl⟩
  have mz : (b.cartToRel p).z ∈ (pos.map b.cartToRel).map (·.z) :=
    List.mem_map.mpr ⟨_, List.mem_map.mpr ⟨p, hp, rfl⟩, rfl⟩
  obtain ⟨_, x0, x1, _⟩ := axis_unit fl hfl pad hpad pbc.x _ _ mx
  obtain ⟨_, y0, y1, _⟩ := axis_unit fl hfl pad hpad pbc.y _ _ my
  obtain ⟨_, z0, z1, _⟩ := axis_unit fl hfl pad hpad pbc.z _ _ mz
  exact ⟨x0, x1.le, y0, y1.le, z0, z1.le⟩

/-- **wrap_periodic_axes_fixed**: periodic cell vectors are untouched; every new cell vector is the old
    one times a factor `≥ 1` (non-periodic ones are only lengthened); the origin moves only along
    non-periodic directions and only backwards; a fully periodic box is returned unchanged; the old
    cell is contained in the new one. -/
theorem wrap_periodic_axes_fixed (fl : K → Int) (pad : K) (hpad : 0 < pad) (b : Box K) (pbc : V3 Bool)
    (pos : List (V3 K)) :
    ((pbc.x = true → (wrap fl pad b pbc pos).box.vects.r0 = b.vects.r0) ∧
     (pbc.y = true → (wrap fl pad b pbc pos).box.vects.r1 = b.vects.r1) ∧
     (pbc.z = true → (wrap fl pad b pbc pos).box.vects.r2 = b.vects.r2)) ∧
    (∃ kx ky kz : K, 1 ≤ kx ∧ 1 ≤ ky ∧ 1 ≤ kz ∧
      (wrap fl pad b pbc pos).box.vects = ⟨V3.smul kx b.vects.r0, V3.smul ky b.vects.r1, V3.smul kz b.vects.r2⟩) ∧
    (∃ m : V3 K, m.x ≤ 0 ∧ m.y ≤ 0 ∧ m.z ≤ 0 ∧ (pbc.x = true → m.x = 0) ∧ (pbc.y = true → m.y = 0) ∧
      (pbc.z = true → m.z = 0) ∧ (wrap fl pad b pbc pos).box.origin = b.origin + M3.vecMul m b.vects) ∧
    (pbc = ⟨true, true, true⟩ → (wrap fl pad b pbc pos).box = b) ∧
    (M3.det b.vects ≠ 0 → ∀ t : V3 K, insideRel t →
      insideRel ((wrap fl pad b pbc pos).box.cartToRel (b.relToCart t))) := by
  obtain ⟨wx, wy, wz⟩ := bounds_width pad hpad pbc (pos.map b.cartToRel)
  obtain ⟨x1, x2, _⟩ := axisBounds_spec pad hpad pbc.x ((pos.map b.cartToRel).map (·.x))
  obtain ⟨y1, y2, _⟩ := axisBounds_spec pad hpad pbc.y ((pos.map b.cartToRel).map (·.y))
  obtain ⟨z1, z2, _⟩ := axisBounds_spec pad hpad pbc.z ((pos.map b.cartToRel).map (·.z))
  refine ⟨⟨?_, ?_, ?_⟩, ?_, ?_, ?_, ?_⟩
  · intro h; simp only [wrap, paddedBox, bounds, h, axisBounds_periodic, smul_one_sub_zero]
  · intro h; simp only [wrap, paddedBox, bounds, h, axisBounds_periodic, smul_one_sub_zero]
  · intro h; simp only [wrap, paddedBox, bounds, h, axisBounds_periodic, smul_one_sub_zero]
  · exact ⟨_, _, _, wx, wy, wz, rfl⟩
  · refine ⟨⟨(bounds pad pbc (pos.map b.cartToRel)).x.1, (bounds pad pbc (pos.map b.cartToRel)).y.1,
      (bounds pad pbc (pos.map b.cartToRel)).z.1⟩, x1, y1, z1, ?_, ?_, ?_, rfl⟩
    · intro h; simp only [bounds, h, axisBounds_periodic]
    · intro h; simp only [bounds, h, axisBounds_periodic]
    · intro h; simp only [bounds, h, axisBounds_periodic]
  · intro h
    obtain ⟨⟨r0, r1, r2⟩, ⟨o0, o1, o2⟩⟩ := b
    subst h
    simp only [wrap, paddedBox, bounds, axisBounds_periodic, smul_one_sub_zero, M3.vecMul, V3.add_def,
      zero_mul, add_zero]
  · intro hdet t ht
    have hd := det_wrap_ne_zero fl pad hpad b hdet pbc pos
    have e := relToCart_paddedBox b (bounds pad pbc (pos.map b.cartToRel)) t
      (by intro h; rw [h] at wx; linarith) (by intro h; rw [h] at wy; linarith) (by intro h; rw [h] at wz; linarith)
    have e2 : (wrap fl pad b pbc pos).box = paddedBox b (bounds pad pbc (pos.map b.cartToRel)) := rfl
    rw [e2, ← e, cartToRel_relToCart _ (by rw [← e2]; exact hd)]
    obtain ⟨t0, t1, t2, t3, t4, t5⟩ := ht
    have px : 0 < (bounds pad pbc (pos.map b.cartToRel)).x.2 - (bounds pad pbc (pos.map b.cartToRel)).x.1 := by linarith
    have py : 0 < (bounds pad pbc (pos.map b.cartToRel)).y.2 - (bounds pad pbc (pos.map b.cartToRel)).y.1 := by linarith
    have pz : 0 < (bounds pad pbc (pos.map b.cartToRel)).z.2 - (bounds pad pbc (pos.map b.cartToRel)).z.1 := by linarith
    have x1' : (bounds pad pbc (pos.map b.cartToRel)).x.1 ≤ 0 := x1
    have x2' : 1 ≤ (bounds pad pbc (pos.map b.cartToRel)).x.2 := x2
    have y1' : (bounds pad pbc (pos.map b.cartToRel)).y.1 ≤ 0 := y1
    have y2' : 1 ≤ (bounds pad pbc (pos.map b.cartToRel)).y.2 := y2
    have z1' : (bounds pad pbc (pos.map b.cartToRel)).z.1 ≤ 0 := z1
    have z2' : 1 ≤ (bounds pad pbc (pos.map b.cartToRel)).z.2 := z2
    refine ⟨div_nonneg (by linarith) px.le, (div_le_one px).mpr (by linarith),
      div_nonneg (by linarith) py.le, (div_le_one py).mpr (by linarith),
      div_nonneg (by linarith) pz.le, (div_le_one pz).mpr (by linarith)⟩

/-- **wrap_idem**: wrapping a wrapped system changes nothing: same box, same positions, all flags zero. -/
theorem wrap_idem (fl : K → Int) (hfl : IsFloor fl) (pad : K) (hpad : 0 < pad) (b : Box K)
    (hdet : M3.det b.vects ≠ 0) (pbc : V3 Bool) (pos : List (V3 K)) :
    (wrap fl pad (wrap fl pad b pbc pos).box pbc (wrap fl pad b pbc pos).pos).box = (wrap fl pad b pbc pos).box ∧
    (wrap fl pad (wrap fl pad b pbc pos).box pbc (wrap fl pad b pbc pos).pos).pos = (wrap fl pad b pbc pos).pos ∧
    ∀ f ∈ (wrap fl pad (wrap fl pad b pbc pos).box pbc (wrap fl pad b pbc pos).pos).flags, f = ⟨0, 0, 0⟩ := by
  have hd := det_wrap_ne_zero fl pad hpad b hdet pbc pos
  -- every new position is seen by the new box at `newRel`
  have key : ∀ p' ∈ (wrap fl pad b pbc pos).pos, ∃ p ∈ pos, p' = atomPos fl b pbc p ∧
      (wrap fl pad b pbc pos).box.cartToRel p' = newRel fl pad b pbc pos p := by
    intro p' hp'
    simp only [wrap, List.mem_map] at hp'
    obtain ⟨p, hp, rfl⟩ := hp'
    exact ⟨p, hp, rfl, wrap_cartToRel fl pad hpad b hdet pbc pos p⟩
  have hflags : ∀ p' ∈ (wrap fl pad b pbc pos).pos,
      atomFlags fl (wrap fl pad b pbc pos).box pbc p' = ⟨0, 0, 0⟩ := by
    intro p' hp'
    obtain ⟨p, hp, _, e⟩ := key p' hp'
    obtain ⟨⟨x0, x1, _⟩, ⟨y0, y1, _⟩, ⟨z0, z1, _⟩⟩ := newRel_facts fl hfl pad hpad b pbc pos p hp
    simp only [atomFlags, flagsOf, e, flagOf_unit fl hfl _ _ x0 x1, flagOf_unit fl hfl _ _ y0 y1,
      flagOf_unit fl hfl _ _ z0 z1]
  refine ⟨?_, ?_, ?_⟩
  · -- box
    have hb : bounds pad pbc ((wrap fl pad b pbc pos).pos.map (wrap fl pad b pbc pos).box.cartToRel)
        = ⟨(0, 1), (0, 1), (0, 1)⟩ := by
      simp only [bounds]
      congr 1
      · apply axisBounds_of_strict
        intro hpx x hx
        simp only [List.mem_map] at hx
        obtain ⟨s, ⟨p', hp', rfl⟩, rfl⟩ := hx
        obtain ⟨p, hp, _, e⟩ := key p' (by simpa [wrap] using hp')
        obtain ⟨⟨x0, x1, x2⟩, _, _⟩ := newRel_facts fl hfl pad hpad b pbc pos p hp
        rw [e]; exact ⟨x2 hpx, x1⟩
      · apply axisBounds_of_strict
        intro hpx x hx
        simp only [List.mem_map] at hx
        obtain ⟨s, ⟨p', hp', rfl⟩, rfl⟩ := hx
        obtain ⟨p, hp, _, e⟩ := key p' (by simpa [wrap] using hp')
        obtain ⟨_, ⟨x0, x1, x2⟩, _⟩ := newRel_facts fl hfl pad hpad b pbc pos p hp
        rw [e]; exact ⟨x2 hpx, x1⟩
      · apply axisBounds_of_strict
        intro hpx x hx
        simp only [List.mem_map] at hx
        obtain ⟨s, ⟨p', hp', rfl⟩, rfl⟩ := hx
        obtain ⟨p, hp, _, e⟩ := key p' (by simpa [wrap] using hp')
        obtain ⟨_, _, ⟨x0, x1, x2⟩⟩ := newRel_facts fl hfl pad hpad b pbc pos p hp
        rw [e]; exact ⟨x2 hpx, x1⟩
    show paddedBox _ (bounds pad pbc ((wrap fl pad b pbc pos).pos.map (wrap fl pad b pbc pos).box.cartToRel)) = _
    rw [hb, paddedBox_unit]
  · -- positions
    show (wrap fl pad b pbc pos).pos.map (atomPos fl (wrap fl pad b pbc pos).box pbc) = (wrap fl pad b pbc pos).pos
    conv_rhs => rw [← List.map_id (wrap fl pad b pbc pos).pos]
    apply List.map_congr_left
    intro p' hp'
    rw [atomPos, hflags p' hp', subFlags_zero, relToCart_cartToRel _ hd, id]
  · intro f hf
    have hf' : f ∈ (wrap fl pad b pbc pos).pos.map (atomFlags fl (wrap fl pad b pbc pos).box pbc) := hf
    obtain ⟨p', hp', rfl⟩ := List.mem_map.mp hf'
    exact hflags p' hp'

end Atomman.C05
