/-
  C17 — helper lemmas of round 6: `numpy.unique` / column means / the whole `disregistry` model do not depend on the order
  in which the atoms are listed (consistent renumbering); with `rtol = 0` the model is covariant under a joint translation
  (so the relative tolerance of `numpy.isclose` is the ONLY obstruction, cf. PARTIAL `disregistry_translation`);
  `displacementCall` under joint translation and renumbering.
-/
import Proofs.C17_Lemmas

namespace Atomman.C17
open Atomman
set_option linter.unusedSectionVars false
variable {K : Type} [Field K] [LinearOrder K] [IsStrictOrderedRing K]

theorem perm_insertSorted (a : K) : ∀ l : List K, (insertSorted a l).Perm (a :: l)
  | [] => List.Perm.refl _
  | b :: l => by
    unfold insertSorted
    split
    · exact List.Perm.refl _
    · exact ((perm_insertSorted a l).cons b).trans (List.Perm.swap a b l)

theorem perm_sortK : ∀ l : List K, (sortK l).Perm l
  | [] => List.Perm.refl _
  | a :: l => by
    show (insertSorted a (sortK l)).Perm (a :: l)
    exact (perm_insertSorted a _).trans ((perm_sortK l).cons a)

theorem sortK_perm (l l' : List K) (h : l.Perm l') : sortK l = sortK l' := by
  apply List.Perm.eq_of_pairwise (le := (· ≤ ·)) (fun a b _ _ h1 h2 => le_antisymm h1 h2) (sorted_sortK l) (sorted_sortK l')
  exact (perm_sortK l).trans (h.trans (perm_sortK l').symm)

theorem unique_perm (l l' : List K) (h : l.Perm l') : unique l = unique l' := by
  unfold unique; rw [sortK_perm l l' h]

theorem sumV_perm (l l' : List (V3 K)) (h : l.Perm l') : sumV l = sumV l' := by
  unfold sumV
  apply h.foldl_eq'
  intro x _ y _ z
  ext <;> simp <;> ring

theorem meanV_perm (l l' : List (V3 K)) (h : l.Perm l') : meanV l = meanV l' := by
  unfold meanV; rw [sumV_perm l l' h, h.length_eq]

theorem planeMeans_perm (atol rtol : K) (p p' : List (K × V3 K)) (h : p.Perm p') (ux : List K) :
    planeMeans atol rtol p ux = planeMeans atol rtol p' ux := by
  unfold planeMeans
  apply List.map_congr_left
  intro ix _
  exact meanV_perm _ _ ((h.filter _).map _)

theorem planeAtoms_perm (atol rtol : K) (a a' : List (K × K × V3 K)) (h : a.Perm a') (y : K) :
    (planeAtoms atol rtol a y).Perm (planeAtoms atol rtol a' y) := (h.filter _).map _

theorem disregistry_perm_aux (atol rtol : K) (atoms atoms' : List (K × K × V3 K)) (h : atoms.Perm atoms') (midy : K) :
    disregistry atol rtol atoms midy = disregistry atol rtol atoms' midy := by
  have hy : unique (atoms.map (·.2.1)) = unique (atoms'.map (·.2.1)) := unique_perm _ _ (h.map _)
  have hat : ∀ ya yb, disregistryAt atol rtol atoms ya yb = disregistryAt atol rtol atoms' ya yb := by
    intro ya yb
    unfold disregistryAt
    have ha := planeAtoms_perm atol rtol atoms atoms' h ya
    have hb := planeAtoms_perm atol rtol atoms atoms' h yb
    simp only
    rw [unique_perm _ _ (ha.map (·.1)), unique_perm _ _ (hb.map (·.1)),
      planeMeans_perm atol rtol _ _ ha, planeMeans_perm atol rtol _ _ hb]
  unfold disregistry
  simp only [hy, hat]


theorem isclose_shift (atol a b t : K) : isclose atol 0 (a + t) (b + t) = isclose atol 0 a b := by
  unfold isclose
  simp only [add_sub_add_right_eq_sub, zero_mul]

theorem insertSorted_shift (t a : K) : ∀ l : List K,
    insertSorted (a + t) (l.map (· + t)) = (insertSorted a l).map (· + t)
  | [] => rfl
  | b :: l => by
    simp only [List.map_cons, insertSorted, add_le_add_iff_right]
    split
    · rfl
    · simp only [List.map_cons, insertSorted_shift t a l]

theorem sortK_shift (t : K) : ∀ l : List K, sortK (l.map (· + t)) = (sortK l).map (· + t)
  | [] => rfl
  | a :: l => by
    show insertSorted (a + t) (sortK (l.map (· + t))) = (insertSorted a (sortK l)).map (· + t)
    rw [sortK_shift t l, insertSorted_shift]

theorem dedupSorted_shift (t : K) : ∀ l : List K, dedupSorted (l.map (· + t)) = (dedupSorted l).map (· + t)
  | [] => rfl
  | [a] => rfl
  | a :: b :: rest => by
    have ih := dedupSorted_shift t (b :: rest)
    simp only [List.map_cons] at ih ⊢
    simp only [dedupSorted, add_left_inj]
    split
    · exact ih
    · simp only [List.map_cons, ih]

theorem unique_shift (t : K) (l : List K) : unique (l.map (· + t)) = (unique l).map (· + t) := by
  unfold unique; rw [sortK_shift, dedupSorted_shift]

theorem foldl_min_shift (t : K) : ∀ (l : List K) (a : K),
    (l.map (· + t)).foldl (fun m x => if x < m then x else m) (a + t) = l.foldl (fun m x => if x < m then x else m) a + t
  | [], a => rfl
  | b :: l, a => by
    simp only [List.map_cons, List.foldl_cons, add_lt_add_iff_right]
    split
    · exact foldl_min_shift t l b
    · exact foldl_min_shift t l a

theorem foldl_max_shift (t : K) : ∀ (l : List K) (a : K),
    (l.map (· + t)).foldl (fun m x => if m < x then x else m) (a + t) = l.foldl (fun m x => if m < x then x else m) a + t
  | [], a => rfl
  | b :: l, a => by
    simp only [List.map_cons, List.foldl_cons, add_lt_add_iff_right]
    split
    · exact foldl_max_shift t l b
    · exact foldl_max_shift t l a

theorem minL_shift (t : K) (l : List K) : minL (l.map (· + t)) = (minL l).map (· + t) := by
  cases l with
  | nil => rfl
  | cons a l => simp only [List.map_cons, minL, Option.map_some, foldl_min_shift]

theorem maxL_shift (t : K) (l : List K) : maxL (l.map (· + t)) = (maxL l).map (· + t) := by
  cases l with
  | nil => rfl
  | cons a l => simp only [List.map_cons, maxL, Option.map_some, foldl_max_shift]

theorem interp_shift (t : K) : ∀ (pts : List (K × K)) (x : K),
    interp (pts.map fun p => (p.1 + t, p.2)) (x + t) = interp pts x
  | [], _ => rfl
  | [_], _ => rfl
  | (x0, f0) :: (x1, f1) :: rest, x => by
    have ih := interp_shift t ((x1, f1) :: rest) x
    simp only [List.map_cons] at ih ⊢
    simp only [interp, add_lt_add_iff_right, add_le_add_iff_right, add_sub_add_right_eq_sub]
    split
    · rfl
    · exact ih

theorem zip_shift (t : K) (xs fs : List K) :
    (xs.map (· + t)).zip fs = (xs.zip fs).map fun p => (p.1 + t, p.2) := by
  induction xs generalizing fs with
  | nil => rfl
  | cons a xs ih =>
    cases fs with
    | nil => rfl
    | cons f fs => simp only [List.map_cons, List.zip_cons_cons, ih]

theorem interpV_shift (t : K) (xs : List K) (fs : List (V3 K)) (x : K) :
    interpV (xs.map (· + t)) fs (x + t) = interpV xs fs x := by
  unfold interpV
  simp only [zip_shift, interp_shift]

theorem planeAtoms_shift (atol tx ty : K) (atoms : List (K × K × V3 K)) (y : K) :
    planeAtoms atol 0 (atoms.map fun a => (a.1 + tx, a.2.1 + ty, a.2.2)) (y + ty)
      = (planeAtoms atol 0 atoms y).map fun a => (a.1 + tx, a.2) := by
  unfold planeAtoms
  rw [List.filter_map, List.map_map, List.map_map]
  congr 1
  apply List.filter_congr
  intro a _
  simp only [Function.comp, isclose_shift]

theorem planeMeans_shift (atol tx : K) (plane : List (K × V3 K)) (ux : List K) :
    planeMeans atol 0 (plane.map fun a => (a.1 + tx, a.2)) (ux.map (· + tx)) = planeMeans atol 0 plane ux := by
  unfold planeMeans
  rw [List.map_map]
  apply List.map_congr_left
  intro ix _
  simp only [Function.comp]
  rw [List.filter_map, List.map_map]
  have h : List.filter ((fun a => isclose atol 0 a.1 (ix + tx)) ∘ fun a : K × V3 K => (a.1 + tx, a.2)) plane
      = List.filter (fun a => isclose atol 0 a.1 ix) plane := by
    apply List.filter_congr
    intro a _
    simp only [Function.comp, isclose_shift]
  rw [h]
  rfl

theorem filter_gt_shift (t m : K) (l : List K) :
    (l.map (· + t)).filter (fun y => decide (m + t < y)) = (l.filter fun y => decide (m < y)).map (· + t) := by
  rw [List.filter_map]
  congr 1
  apply List.filter_congr
  intro a _
  simp only [Function.comp, add_lt_add_iff_right]

theorem filter_lt_shift (t m : K) (l : List K) :
    (l.map (· + t)).filter (fun y => decide (y < m + t)) = (l.filter fun y => decide (y < m)).map (· + t) := by
  rw [List.filter_map]
  congr 1
  apply List.filter_congr
  intro a _
  simp only [Function.comp, add_lt_add_iff_right]

theorem disregistryAt_shift (atol : K) (atoms : List (K × K × V3 K)) (ya yb tx ty : K) :
    disregistryAt atol 0 (atoms.map fun a => (a.1 + tx, a.2.1 + ty, a.2.2)) (ya + ty) (yb + ty)
      = (disregistryAt atol 0 atoms ya yb).map fun e => (e.1 + tx, e.2) := by
  unfold disregistryAt
  rw [planeAtoms_shift, planeAtoms_shift]
  generalize planeAtoms atol 0 atoms ya = A
  generalize planeAtoms atol 0 atoms yb = B
  have h1 : ∀ pl : List (K × V3 K), (pl.map fun a => (a.1 + tx, a.2)).map (·.1) = (pl.map (·.1)).map (· + tx) := by
    intro pl; rw [List.map_map, List.map_map]; rfl
  simp only []
  rw [h1 A, h1 B, unique_shift, unique_shift, ← List.map_append, unique_shift, planeMeans_shift, planeMeans_shift,
    List.map_map, List.map_map]
  apply List.map_congr_left
  intro x _
  simp only [Function.comp, interpV_shift]

theorem disregistry_shift_aux (atol : K) (atoms : List (K × K × V3 K)) (midy tx ty : K) :
    disregistry atol 0 (atoms.map fun a => (a.1 + tx, a.2.1 + ty, a.2.2)) (midy + ty)
      = (disregistry atol 0 atoms midy).map (fun prof => prof.map fun e => (e.1 + tx, e.2)) := by
  unfold disregistry
  have hy : (atoms.map fun a => (a.1 + tx, a.2.1 + ty, a.2.2)).map (·.2.1) = (atoms.map (·.2.1)).map (· + ty) := by
    rw [List.map_map, List.map_map]; rfl
  simp only [hy, unique_shift, filter_gt_shift, filter_lt_shift, minL_shift, maxL_shift]
  cases minL (List.filter (fun y => decide (midy < y)) (unique (atoms.map (·.2.1)))) with
  | none => rfl
  | some ya =>
    cases maxL (List.filter (fun y => decide (y < midy)) (unique (atoms.map (·.2.1)))) with
    | none => rfl
    | some yb =>
      simp only [Option.map_some, isclose_shift, disregistryAt_shift]
      split <;> rfl


/-- translated together -/
theorem displacementCall_translated_aux (n0 n1 : Nat) (c0 c1 : Cell K) (ref : BoxRef) (pos0 pos1 : Nat → V3 K) (t : V3 K) :
    displacementCall n0 n1 c0 c1 ref (fun i => pos0 i + t) (fun i => pos1 i + t)
      = displacementCall n0 n1 c0 c1 ref pos0 pos1 := by
  unfold displacementCall
  split
  · rfl
  · have hd : ∀ c : Cell K, displacement c (fun i => pos0 i + t) (fun i => pos1 i + t) = displacement c pos0 pos1 := by
      intro c; funext i; simp only [displacement, dv_translate]
    have hn : (fun i => (pos1 i + t) - (pos0 i + t)) = fun i => pos1 i - pos0 i := by
      funext i; ext <;> simp
    cases ref <;> simp only [hd, hn]

/-- renumbered consistently -/
theorem displacementCall_renumbered_aux (n0 n1 : Nat) (c0 c1 : Cell K) (ref : BoxRef) (pos0 pos1 : Nat → V3 K) (σ : Nat → Nat) :
    displacementCall n0 n1 c0 c1 ref (fun i => pos0 (σ i)) (fun i => pos1 (σ i))
      = (displacementCall n0 n1 c0 c1 ref pos0 pos1).map (fun d i => d (σ i)) := by
  unfold displacementCall
  split
  · rfl
  · cases ref <;> rfl

end Atomman.C17
