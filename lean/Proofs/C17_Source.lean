/-
  C17 — the checked source tie: every definition of `Atomman/Generated/DeformSource.lean` (regenerated from /repo's
  current source by `translate()` of harness/props/c17.py on every run) is proved equal to the hand model of
  `Atomman/C17.lean`, or — for code that is sequencing of numpy calls / attribute bookkeeping — to the literal it was
  when the model was written (`gen_pin_…`: normalised statement text from `ast.unparse`).  A source edit that changes a
  formula, a comparison operator, the order of a branch chain or the arguments of a call breaks the obligation of
  that name.
-/
import Proofs.C17_Lemmas
import Atomman.Generated.DeformSource

namespace Atomman.C17
open Atomman
set_option linter.unusedSectionVars false

section core
variable {K : Type} [Add K] [Sub K] [Mul K] [Div K] [Neg K] [Zero K] [One K] [IntCast K] [NatCast K]
  [LT K] [DecidableLT K] [LE K] [DecidableLE K] [DecidableEq K]

/-! ### Strain.pyx: straight-line tensor formulas (definitional equalities over the core classes) -/
theorem gen_strain_eq_model (G : M3 K) : Gen.strain G = strain G := rfl
theorem gen_rotation_eq_model (G : M3 K) : Gen.rotation G = rotation G := rfl
theorem gen_invariant1_eq_model (s : M3 K) : Gen.invariant1 s = invariant1 s := rfl
theorem gen_invariant2_eq_model (s : M3 K) : Gen.invariant2 s = invariant2 s := rfl
theorem gen_invariant3_eq_model (s : M3 K) : Gen.invariant3 s = invariant3 s := rfl
theorem gen_angularVelocitySq_eq_model (r : M3 K) : Gen.angularVelocitySq r = angularVelocitySq r := rfl
/-- `dG_c`: neighbour's tensor minus the atom's own (the list `nbrs.map fun j => subM (G j) (G i)` of `nye`). -/
theorem gen_dG_eq_model (Gn Gi : M3 K) : Gen.dG Gn Gi = subM Gn Gi := rfl
/-- `nye_c` composed with the way `solve_nye` fills `gradG` from the three least-squares solutions. -/
theorem gen_nyeOf_eq_model (g : M3 K × M3 K × M3 K) : Gen.nyeOf g = nyeOf g := rfl
/-- the right-hand side of the `x`-th problem is `dG[:, x, :]` (row `x` of every `dG`: `gradG` of the model). -/
theorem gen_lstsqRhsAxis_eq_model : Gen.lstsqRhsAxis = 1 := rfl

/-! ### Strain.pyx: match_pq -/
theorem gen_magSq_eq_model (v : V3 K) : Gen.qmagSq v = V3.normSq v ∧ Gen.pmagSq v = V3.normSq v := ⟨rfl, rfl⟩
theorem gen_r1Init_eq_model : (Gen.r1Init : K) = bigR1 := rfl
theorem gen_shortest_eq_model (mag : V3 K → K) (big : K) (ps : List (V3 K)) :
    ps.foldl (fun r p => Gen.shortestStep r (mag p)) big = shortest mag big ps := rfl
theorem gen_cosTheta_eq_model (mag : V3 K → K) (q p : V3 K) : Gen.cosTheta mag q p = cosTheta mag q p := rfl
/-- the best-angle loop: strict `>` against the running maximum that starts at `cos θ_max`, first wins. -/
theorem gen_bestStep_eq_model (mag : V3 K → K) (q : V3 K) (st : K × Option Nat × Nat) (p : V3 K) :
    Gen.bestStep mag q st p = bestStep mag q st p := rfl
theorem gen_bestP_eq_model (mag : V3 K → K) (cosMax : K) (q : V3 K) (ps : List (V3 K)) :
    Gen.bestP mag cosMax q ps = bestP mag cosMax q ps := by
  unfold Gen.bestP bestP
  have : Gen.bestStep mag q = bestStep mag q := by funext st p; rfl
  rw [this]
/-- the conflict rule: same `p` ⇒ the later `q` wins iff STRICTLY closer to `r1`, else the earlier keeps it. -/
theorem gen_dedupeStep_eq_model (mag : V3 K → K) (r1 : K) (qj : V3 K)
    (st : List (V3 K × Option Nat) × Option Nat) (e : V3 K × Option Nat) :
    Gen.dedupeStep mag r1 qj st e = dedupeStep mag r1 qj st e := by
  unfold Gen.dedupeStep dedupeStep
  rcases st with ⟨l, _ | a⟩ <;> rcases e with ⟨v, _ | b⟩ <;> rfl

/-! ### where the neighbour list comes from: the five copies of the block -/
theorem gen_pick_slipVector_eq_model {L : Type} (n c a : Option L) : Gen.pick_slipVector n c a = pickNeighbors n c a := by
  cases n <;> cases c <;> cases a <;> rfl
theorem gen_pick_strainInit_eq_model {L : Type} (n c a : Option L) : Gen.pick_strainInit n c a = pickNeighbors n c a := by
  cases n <;> cases c <;> cases a <;> rfl
theorem gen_pick_buildP_eq_model {L : Type} (n c a : Option L) : Gen.pick_buildP n c a = pickNeighbors n c a := by
  cases n <;> cases c <;> cases a <;> rfl
theorem gen_pick_nyeTensor_eq_model {L : Type} (n c a : Option L) : Gen.pick_nyeTensor n c a = pickNeighbors n c a := by
  cases n <;> cases c <;> cases a <;> rfl
theorem gen_pick_ddFunction_eq_model {L : Type} (n c a : Option L) : Gen.pick_ddFunction n c a = pickNeighbors n c a := by
  cases n <;> cases c <;> cases a <;> rfl
/-- the system whose list is built (`NeighborList(system=…)`) and whose attribute is read: the reference `system_0` for
    the slip vector and the dd function, the analysed `system` for Strain / nye_tensor, `basesystem` for the p vectors. -/
theorem gen_pickSystem_eq_model :
    Gen.pickSystem_slipVector = "system_0" ∧ Gen.pickSystem_strainInit = "system" ∧ Gen.pickSystem_buildP = "basesystem" ∧
    Gen.pickSystem_nyeTensor = "system" ∧ Gen.pickSystem_ddFunction = "system_0" := ⟨rfl, rfl, rfl, rfl, rfl⟩

/-- `slip_vector`: the atom-count `ValueError` comes before the neighbour block. -/
theorem gen_slipVectorRefusals_eq_model {L : Type} (n0 n1 : Nat) (n c a : Option L) :
    Gen.slipVectorRefusals n0 n1 n c a = slipVectorRefusals n0 n1 n c a := by
  unfold Gen.slipVectorRefusals slipVectorRefusals
  rw [gen_pick_slipVector_eq_model]
/-- `asdict` and `save_to_system`: the accepted and the default property names. -/
theorem gen_asdictKeys_eq_model :
    Gen.asdictDefault = defaultKeyNames ∧ Gen.asdictAll = allKeyNames ∧ Gen.saveDefault = defaultKeyNames ∧
    Gen.saveAll = allKeyNames := ⟨rfl, rfl, rfl, rfl⟩

/-! ### slip_vector.pyx, displacement.py, DifferentialDisplacement.solve -/
theorem gen_slipStep_eq_model (c : Cell K) (pos0 pos1 : Nat → V3 K) (i : Nat) (acc : V3 K) (j : Nat) :
    Gen.slipStep c pos0 pos1 i acc j = slipStep c pos0 pos1 i acc j := rfl
theorem gen_displacementCall_eq_model (n0 n1 : Nat) (c0 c1 : Cell K) (ref : BoxRef) (pos0 pos1 : Nat → V3 K) :
    Gen.displacementCall n0 n1 c0 c1 ref pos0 pos1 = displacementCall n0 n1 c0 c1 ref pos0 pos1 := by
  unfold Gen.displacementCall displacementCall
  by_cases h : n0 = n1 <;> cases ref <;> simp [h] <;> rfl
theorem gen_ddvector_eq_model (c0 c1 : Cell K) (pos0 pos1 : Nat → V3 K) (i j : Nat) :
    Gen.ddvector c0 c1 pos0 pos1 i j = ddvector c0 c1 pos0 pos1 i j := rfl

/-! ### DifferentialDisplacement.solve: the argument handling as executed from the source (second pass) -/
/-- what `DObj.solve` does once the argument handling has produced the stored state and the list, or the refusal: all
    lists empty → the `ValueError` of `np.concatenate`, else the vectors of the systems now stored. -/
def DObj.finish (o : DObj K) (r : (Sys K × Sys K × Nat × Option (List (List Nat))) × Except DErr (List (List Nat))) :
    DObj K × Option DErr :=
  let o' : DObj K := { o with sys0 := r.1.1, sys1 := r.1.2.1, reference := r.1.2.2.1, nlist := r.1.2.2.2 }
  match r.2 with
  | .error e => (o', some e)
  | .ok nl =>
    if nl.all (·.isEmpty) then (o', some .value)
    else ({ o' with dd := some (ddvectors r.1.1.cell r.1.2.1.cell r.1.1.pos r.1.2.1.pos nl) }, none)

/-- `DObj.solve` IS the statement sequence of `DifferentialDisplacement.solve` before its loop (systems stored first, the
    atom-count assertion, `reference` through its setter, the reference system, the list: given > cutoff list of the
    reference system > stored > ValueError; what is stored at the moment of each refusal), followed by `finish`. -/
theorem gen_ddSolveArgs_eq_model (o : DObj K) (a : DArgs K) :
    DObj.solve o a = DObj.finish o
      (Gen.ddSolveArgs Sys.n o.sys0 o.sys1 o.reference o.nlist a.sys0 a.sys1 a.neighbors a.cutoff a.reference) := by
  rcases o with ⟨o0, o1, oref, onl, odd⟩
  rcases a with ⟨a0, a1, anb, acut, aref⟩
  unfold DObj.solve Gen.ddSolveArgs DObj.finish
  cases a0 <;> cases a1 <;> simp only [Option.getD_none, Option.getD_some, ne_eq] <;>
    (split
     · simp_all
     · rcases aref with _ | r
       · cases anb <;> cases acut <;> cases onl <;> simp_all
       · by_cases hr : r = 0 ∨ r = 1
         · cases anb <;> cases acut <;> cases onl <;> simp_all
         · simp_all)
/-- the constructor solves exactly when a list or a cutoff is given (the test of `DObj.init`). -/
theorem gen_ddInitSolves_eq_model {L C : Type} (nb : Option L) (cu : Option C) :
    Gen.ddInitSolves nb cu = (nb.isSome || cu.isSome) := rfl

/-! ### set_p_vectors / nye_tensor: the broadcasting chain and the axes step; disregistry: its inputs (second pass) -/
/-- both copies of the chain test `len == 1` first, then `len != natoms`, and broadcast what the model says. -/
theorem gen_dispatchKind_eq_model (len natoms : Nat) :
    Gen.dispatchKind_setP len natoms = dispatchKind len natoms ∧ Gen.dispatchKind_nyeTensor len natoms = dispatchKind len natoms :=
  ⟨rfl, rfl⟩
/-- `np.inner(p_vectors, axes_check(axes))` maps every vector `p` to `T p` (`transformP`), in both functions. -/
theorem gen_axesStep_eq_model (T : M3 K) (ps : List (V3 K)) :
    ps.map (Gen.axesStep_setP T) = transformP T ps ∧ ps.map (Gen.axesStep_nyeTensor T) = transformP T ps := ⟨rfl, rfl⟩
/-- `disregistry`: displacement of (base, disl) under the default reference, `allx = basepos·m`, `ally = basepos·n`,
    `midy = planepos·n`. -/
theorem gen_disregistryInputs_eq_model (n0 n1 : Nat) (c0 c1 : Cell K) (pos0 pos1 : Nat → V3 K) (m n planepos : V3 K) :
    Gen.disregistryInputs n0 n1 c0 c1 pos0 pos1 m n planepos = disregistryInputs n0 n1 c0 c1 pos0 pos1 m n planepos := by
  unfold Gen.disregistryInputs disregistryInputs
  rw [gen_displacementCall_eq_model]
  cases displacementCall n0 n1 c0 c1 BoxRef.final pos0 pos1 <;> rfl

/-! ### the Strain object: getters, clear_properties -/
/-- every getter fills its attribute from the property the model's `SObj.read` takes it from. -/
theorem gen_getters_eq_model : Gen.getters =
    [("G", "self.solve_G()", ""), ("strain", "strain_c", "self.G"), ("invariant1", "invariant1_c", "self.strain"),
     ("invariant2", "invariant2_c", "self.strain"), ("invariant3", "invariant3_c", "self.strain"),
     ("rotation", "rotation_c", "self.G"), ("angularvelocity", "angularvelocity_c", "self.rotation"),
     ("nye", "self.solve_nye()", "")] := rfl
/-- `clear_properties` resets all eight cached quantities (`SObj.clear`, and the clearing inside `SObj.solve`). -/
theorem gen_cleared_eq_model :
    ∀ p ∈ ["G", "strain", "invariant1", "invariant2", "invariant3", "rotation", "angularvelocity", "nye"], p ∈ Gen.cleared := by
  decide

/-! ### statement pins (sequencing of numpy calls and attribute bookkeeping; see docs/C17.md "Source tie") -/
/-- solve_nye: the q vectors, the dG call, the least-squares call, the nye_c call -/
theorem gen_pin_solveNye : Gen.pin_solveNye =
  ["Q[:c] = system.dvect(i, nlist[i, 1:c + 1])",
   "dG_c(G_view, nlist_view, dG_view, i)",
   "nye_c(gradG_view, nye_view, i)",
   "Q[:c]",
   "dG[:c, x, :]"] := rfl

/-- match_pq: guard and range of the conflict loop, the final copy loop, the value returned -/
theorem gen_pin_matchLoops : Gen.pin_matchLoops =
  ["qp_pairs[j] >= 0",
   "range(j)",
   "for j in range(qnum):",
   "    if qp_pairs[j] >= 0:",
   "        for x in range(3):",
   "            Q[n, x] = q[j, x]",
   "            P[n, x] = p[qp_pairs[j], x]",
   "        n += 1",
   "return n"] := rfl

/-- solve_G: every statement before the loop over atoms, then the loop body -/
theorem gen_pin_solveG : Gen.pin_solveG =
  ["p_vectors = self.p_vectors",
   "if p_vectors is None:",
   "    raise ValueError('Cannot solve until p_vectors are set')",
   "if theta_max is not None:",
   "    self.theta_max = theta_max",
   "cos_theta_max = cos(self.theta_max * pi / 180.0)",
   "system = self.system",
   "neighbors = self.neighbors",
   "maxcoord = neighbors.coord.max()",
   "natoms = system.natoms",
   "self.clear_properties()",
   "G = np.empty((natoms, 3, 3))",
   "P = np.empty((maxcoord, 3))",
   "Q = np.empty((maxcoord, 3))",
   "for i in range(natoms):",
   "    p = np.array(p_vectors[i], dtype=float, ndmin=2)",
   "    q = np.atleast_2d(system.dvect(i, neighbors[i]))",
   "    n = match_pq(p, q, cos_theta_max, P, Q)",
   "    if n == 0:",
   "        G[i] = np.identity(3)",
   "        warnings.warn('An atom lacks pair sets. Check neighbor list')",
   "    else:",
   "        G[i] = np.linalg.lstsq(Q[:n], P[:n], rcond=None)[0]",
   "self.__G = G"] := rfl

/-- set_p_vectors: the broadcasting rule and the axes transformation -/
theorem gen_pin_setP : Gen.pin_setP =
  ["system = self.system",
   "if len(p_vectors) == 1:",
   "    p_vectors = np.broadcast_to(p_vectors, (system.natoms, len(p_vectors[0]), 3))",
   "elif len(p_vectors) != system.natoms:",
   "    p_vectors = np.broadcast_to(p_vectors, (system.natoms, len(p_vectors), 3))",
   "else:",
   "    for i in range(len(p_vectors)):",
   "        p_vectors[i] = np.asarray(p_vectors[i])",
   "        if p_vectors[i].ndim == 1:",
   "            p_vectors[i] = np.array([p_vectors[i]])",
   "    p_vectors = np.asarray(p_vectors)",
   "if axes is not None:",
   "    p_vectors = np.inner(p_vectors, axes_check(axes))",
   "self.__p_vectors = p_vectors"] := rfl

/-- Strain.__init__: after the neighbour block -/
theorem gen_pin_strainInit : Gen.pin_strainInit =
  ["if basesystem is not None:",
   "    assert p_vectors is None, 'basesystem and p_vectors cannot both be given'",
   "    self.build_p_vectors(basesystem, neighbors=baseneighbors, cutoff=cutoff)",
   "elif p_vectors is not None:",
   "    self.set_p_vectors(p_vectors, axes=axes)",
   "else:",
   "    self.__p_vectors = None",
   "self.theta_max = theta_max",
   "self.clear_properties()"] := rfl

/-- build_p_vectors: after the neighbour block -/
theorem gen_pin_buildP : Gen.pin_buildP =
  ["p = []",
   "for i in range(basesystem.natoms):",
   "    p.append(basesystem.dvect(i, neighbors[i]))",
   "self.__p_vectors = np.asarray(p, dtype=object)"] := rfl

/-- slip_vector: the arguments handed to slip_vector_c, names resolved -/
theorem gen_pin_slipCall : Gen.pin_slipCall =
  ["system_0.atoms.pos",
   "system_1.atoms.pos",
   "system_0.box.vects",
   "neighbors.nlist",
   "system_0.pbc[0]",
   "system_0.pbc[1]",
   "system_0.pbc[2]"] := rfl

/-- DifferentialDisplacement.solve: argument handling before the loop; neighbours of an atom; the skip; what is stored -/
theorem gen_pin_ddSolve : Gen.pin_ddSolve =
  ["if system0 is not None:",
   "    self.__system0 = system0",
   "else:",
   "    system0 = self.system0",
   "if system1 is not None:",
   "    self.__system1 = system1",
   "else:",
   "    system1 = self.system1",
   "assert system0.natoms == system1.natoms",
   "if reference is None:",
   "    reference = self.reference",
   "else:",
   "    self.reference = reference",
   "if reference == 0:",
   "    refsystem = system0",
   "else:",
   "    refsystem = system1",
   "if neighbors is None:",
   "    if cutoff is not None:",
   "        self.__neighbors = neighbors = refsystem.neighborlist(cutoff=cutoff)",
   "    elif self.neighbors is not None:",
   "        neighbors = self.neighbors",
   "    else:",
   "        raise ValueError('Either neighbors or cutoff must be given')",
   "else:",
   "    self.__neighbors = neighbors",
   "np.arange(refsystem.natoms)",
   "neighs = neighbors[i]",
   "if len(neighs) == 0:",
   "    continue",
   "self.__ddvectors = np.concatenate(all_ddvectors)"] := rfl

/-- DifferentialDisplacement.__init__ -/
theorem gen_pin_ddInit : Gen.pin_ddInit =
  ["if neighbors is not None or cutoff is not None:",
   "    self.solve(system0, system1, neighbors=neighbors, cutoff=cutoff, reference=reference)",
   "else:",
   "    assert system0.natoms == system1.natoms",
   "    self.__system0 = system0",
   "    self.__system1 = system1",
   "    self.reference = reference",
   "    self.__neighbors = None",
   "    self.__ddvectors = None",
   "    self.__arrowcenters = None",
   "    self.__arrowuvectors = None"] := rfl

/-- the reference setter -/
theorem gen_pin_ddReference : Gen.pin_ddReference =
  ["assert value == 0 or value == 1, 'reference must be 0 or 1'",
   "self.__reference = value"] := rfl

/-- nye_tensor: pairing decisions, conflict loop, G, strain measures, gradG -/
theorem gen_pin_nyeTensorLoop : Gen.pin_nyeTensorLoop =
  ["for i in range(system.natoms):",
   "    p = np.asarray(p_vectors[i])",
   "    if p.ndim == 1:",
   "        p = np.array([p])",
   "    p_mags = np.linalg.norm(p, axis=1)",
   "    r1 = p_mags.min()",
   "    q = system.dvect(i, neighbors[i])",
   "    if q.ndim == 1:",
   "        q = np.array([q])",
   "    q_mags = np.linalg.norm(q, axis=1)",
   "    cos_thetas = (np.dot(p, q.T) / q_mags).T / p_mags",
   "    index_pairing = cos_thetas.argmax(1)",
   "    index_pairing[cos_thetas.max(1) < cos_theta_max] = -1",
   "    for n in range(len(q)):",
   "        if index_pairing[n] >= 0:",
   "            for k in range(n):",
   "                if index_pairing[n] == index_pairing[k]:",
   "                    nrad = abs(r1 - q_mags[n])",
   "                    krad = abs(r1 - q_mags[k])",
   "                    if nrad < krad:",
   "                        index_pairing[k] = -1",
   "                    else:",
   "                        index_pairing[n] = -1",
   "    c = 0",
   "    for n in range(len(q)):",
   "        if index_pairing[n] >= 0:",
   "            Q[c] = q[n]",
   "            P[c] = p[index_pairing[n]]",
   "            c += 1",
   "    if c == 0:",
   "        G[i] = np.identity(3)",
   "        warnings.warn('An atom lacks pair sets. Check neighbor list')",
   "    else:",
   "        G[i] = np.linalg.lstsq(Q[:c], P[:c], rcond=None)[0]",
   "    strain[i] = (np.identity(3) - G[i] + (np.identity(3) - G[i]).T) / 2.0",
   "    inv1[i] = strain[i, 0, 0] + strain[i, 1, 1] + strain[i, 2, 2]",
   "    inv2[i] = strain[i, 0, 0] * strain[i, 1, 1] + strain[i, 0, 0] * strain[i, 2, 2] + strain[i, 1, 1] * strain[i, 2, 2] - strain[i, 0, 1] ** 2 - strain[i, 0, 2] ** 2 - strain[i, 1, 2] ** 2",
   "    inv3[i] = np.linalg.det(strain[i])",
   "    rot = (np.identity(3) - G[i] - (np.identity(3) - G[i]).T) / 2.0",
   "    ang_vel[i] = (rot[0, 1] ** 2 + rot[0, 2] ** 2 + rot[1, 2] ** 2) ** 0.5",
   "for i in range(system.natoms):",
   "    Q = system.dvect(i, neighbors[i])",
   "    if Q.ndim == 1:",
   "        Q = np.array([Q])",
   "    dG = G[neighbors[i]] - G[i]",
   "    for x in range(3):",
   "        gradG[x, :] = np.linalg.lstsq(Q, dG[:, x, :], rcond=None)[0].T",
   "    nye[i] = -1 * np.einsum('ijm,ikm->jk', eps, gradG)"] := rfl

/-- nye_tensor: p-vector broadcasting, axes, cos -/
theorem gen_pin_nyeTensorPre : Gen.pin_nyeTensorPre =
  ["if len(p_vectors) == 1:",
   "    p_vectors = np.broadcast_to(p_vectors, (system.natoms, len(p_vectors[0]), 3))",
   "elif len(p_vectors) != system.natoms:",
   "    p_vectors = np.broadcast_to(p_vectors, (system.natoms, len(p_vectors), 3))",
   "if axes is not None:",
   "    p_vectors = np.inner(p_vectors, axes_check(axes))",
   "cos_theta_max = np.cos(theta_max * np.pi / 180)"] := rfl

/-- disregistry: every statement (numpy calls: unique, isclose, interp, union1d, mean) -/
theorem gen_pin_disregistry : Gen.pin_disregistry =
  ["basesystem: System, dislsystem: System, m: npt.ArrayLike=[1.0, 0.0, 0.0], n: npt.ArrayLike=[0.0, 1.0, 0.0], planepos: npt.ArrayLike=[0.0, 0.0, 0.0]",
   "m = np.asarray(m, dtype=float)",
   "n = np.asarray(n, dtype=float)",
   "planepos = np.asarray(planepos, dtype=float)",
   "basepos = basesystem.atoms.pos",
   "disp = displacement(basesystem, dislsystem)",
   "allx = np.dot(basepos, m)",
   "ally = np.dot(basepos, n)",
   "midy = np.dot(planepos, n)",
   "uniquey = np.unique(ally)",
   "abovey = uniquey[uniquey > midy].min()",
   "belowy = uniquey[uniquey < midy].max()",
   "if np.isclose(abovey, belowy):",
   "    raise ValueError('planepos must fall between atomic planes')",
   "abovex = allx[np.isclose(ally, abovey)]",
   "belowx = allx[np.isclose(ally, belowy)]",
   "uabovex = np.unique(abovex)",
   "ubelowx = np.unique(belowx)",
   "coord = np.union1d(uabovex, ubelowx)",
   "abovedisp = disp[np.isclose(ally, abovey)]",
   "belowdisp = disp[np.isclose(ally, belowy)]",
   "abovedispmean = np.empty((len(uabovex), 3))",
   "for i, ix in enumerate(uabovex):",
   "    abovedispmean[i] = abovedisp[np.isclose(abovex, ix)].mean(axis=0)",
   "belowdispmean = np.empty((len(ubelowx), 3))",
   "for i, ix in enumerate(ubelowx):",
   "    belowdispmean[i] = belowdisp[np.isclose(belowx, ix)].mean(axis=0)",
   "abovedispinterp = np.vstack([np.interp(coord, uabovex, abovedispmean[:, 0]), np.interp(coord, uabovex, abovedispmean[:, 1]), np.interp(coord, uabovex, abovedispmean[:, 2])]).T",
   "belowdispinterp = np.vstack([np.interp(coord, ubelowx, belowdispmean[:, 0]), np.interp(coord, ubelowx, belowdispmean[:, 1]), np.interp(coord, ubelowx, belowdispmean[:, 2])]).T",
   "disregistry = abovedispinterp - belowdispinterp",
   "return (coord, disregistry)"] := rfl

/-- differential_displacement: the plotting frame T, the two separations in that frame, their difference -/
theorem gen_pin_ddFunctionBody : Gen.pin_ddFunctionBody =
  ["T = axes_check([plotxaxis, plotyaxis, np.cross(plotxaxis, plotyaxis)])",
   "T = axes_check(axes)",
   "dvectors_0 = np.inner(np.atleast_2d(system_0.dvect(int(i), neighbors[i])), T)",
   "dvectors_1 = np.inner(np.atleast_2d(system_1.dvect(int(i), neighbors[i])), T)",
   "dd_vectors = dvectors_1 - dvectors_0"] := rfl

/-- Strain.asdict: default handling and the loop over the keys -/
theorem gen_pin_asdictLoop : Gen.pin_asdictLoop =
  ["if properties is None:",
   "    properties = defaultkeys",
   "else:",
   "    properties = aslist(properties)",
   "for p in properties:",
   "    assert p in allkeys, 'unknown property ' + p",
   "    results[p] = getattr(self, p)",
   "return results"] := rfl

/-- Strain.save_to_system: default handling and the loop over the keys -/
theorem gen_pin_saveLoop : Gen.pin_saveLoop =
  ["if properties is None:",
   "    properties = defaultkeys",
   "else:",
   "    properties = aslist(properties)",
   "for p in properties:",
   "    assert p in allkeys, 'unknown property ' + p",
   "    self.system.atoms.view[p] = getattr(self, p)"] := rfl

end core

section field
variable {K : Type} [Field K] [LinearOrder K] [IsStrictOrderedRing K]

/-- the `theta_max` setter accepts exactly the values `SObj.setTheta` accepts. -/
theorem gen_thetaAccept_eq_model (v : K) : Gen.thetaAccept v = decide (v ≤ ((180 : Nat) : K) ∧ 0 < v) := by
  simp [Gen.thetaAccept]

/-- sign of the permutation `(i, j, m)` of `(0, 1, 2)`, `0` when two indices coincide. -/
def leviCivita (i j m : Nat) : Int := (((j : Int) - i) * ((m : Int) - i) * ((m : Int) - j)) / 2

/-- the table `eps` of `nye_tensor.py` is the Levi-Civita symbol. -/
theorem gen_eps_eq_leviCivita : ∀ i ∈ [0, 1, 2], ∀ j ∈ [0, 1, 2], ∀ m ∈ [0, 1, 2], Gen.eps i j m = leviCivita i j m := by
  decide

/-- `nye_c` of Strain.pyx (nine hand-expanded differences) is the contraction `-einsum('ijm,ikm->jk', eps, gradG)` of
    `nye_tensor.py`: `α_jk = -ε_ijm ∂_m G_ik`. -/
theorem gen_nye_c_eq_einsum (g : Nat → Nat → Nat → K) : Gen.nyeOfGrad g = Gen.nyeEinsum g := by
  simp only [Gen.nyeOfGrad, Gen.nyeEinsum, matOf, Gen.eps, List.getD_cons_zero, List.getD_cons_succ]
  ext <;> simp <;> ring

end field
end Atomman.C17
