/-
  C01_Lemmas — general algebra of the shared `V3` / `M3` model (rows = cell vectors) over a field,
  reusable by other properties:

    M3.mul_assoc, M3.one_mul, M3.mul_one, M3.transpose_transpose, M3.transpose_mul,
    M3.det_mul, M3.det_transpose, M3.det_one,
    M3.inv_mul_cancel, M3.mul_inv_cancel, M3.det_inv, M3.inv_transpose,
    M3.vecMul_vecMul, M3.vecMul_one, M3.vecMul_inv_cancel, M3.vecMul_inv_cancel',
    M3.mulVec_transpose, M3.mulVec_mulVec,
    V3.add_sub_cancel', V3.sub_add_cancel', V3.dot_comm, V3.dot_cross_left, V3.dot_cross_right,
    V3.cross_anticomm,
    absK_eq_abs, maxK_eq_max, minK_eq_min
-/
import Atomman.Prelude
import Atomman.Box
import Atomman.C01
import Mathlib.Tactic.Ring
import Mathlib.Tactic.FieldSimp
import Mathlib.Tactic.Linarith
import Mathlib.Algebra.Order.Field.Basic
import Mathlib.Algebra.Order.AbsoluteValue.Basic

namespace Atomman
set_option linter.unusedSimpArgs false
set_option linter.unusedSectionVars false
set_option linter.unusedVariables false

/-! ### vectors -/
namespace V3
variable {K : Type} [Field K]

@[simp] theorem add_def (a b : V3 K) : a + b = ⟨a.x + b.x, a.y + b.y, a.z + b.z⟩ := rfl
@[simp] theorem sub_def (a b : V3 K) : a - b = ⟨a.x - b.x, a.y - b.y, a.z - b.z⟩ := rfl
@[simp] theorem neg_def (a : V3 K) : -a = ⟨-a.x, -a.y, -a.z⟩ := rfl

theorem add_sub_cancel' (a b : V3 K) : (a + b) - b = a := by
  ext <;> simp
theorem sub_add_cancel' (a b : V3 K) : (a - b) + b = a := by
  ext <;> simp

theorem dot_comm (a b : V3 K) : dot a b = dot b a := by
  simp only [dot]; ring
theorem dot_cross_left (a b : V3 K) : dot a (cross a b) = 0 := by
  simp only [dot, cross]; ring
theorem dot_cross_right (a b : V3 K) : dot b (cross a b) = 0 := by
  simp only [dot, cross]; ring
theorem cross_anticomm (a b : V3 K) : cross a b = -(cross b a) := by
  ext <;> simp only [cross, neg_def] <;> ring
theorem dot_sub (n p q : V3 K) : dot n (p - q) = dot n p - dot n q := by
  simp only [dot, sub_def]; ring
theorem dot_add (n p q : V3 K) : dot n (p + q) = dot n p + dot n q := by
  simp only [dot, add_def]; ring
end V3

/-! ### 3x3 matrices -/
namespace M3
variable {K : Type} [Field K]

theorem mul_assoc (a b c : M3 K) : (a.mul b).mul c = a.mul (b.mul c) := by
  ext <;> simp only [mul, vecMul] <;> ring

theorem one_mul (a : M3 K) : (one : M3 K).mul a = a := by
  ext <;> simp [mul, vecMul, one]
theorem mul_one (a : M3 K) : a.mul (one : M3 K) = a := by
  ext <;> simp [mul, vecMul, one]

theorem transpose_transpose (a : M3 K) : a.transpose.transpose = a := rfl

theorem transpose_mul (a b : M3 K) : (a.mul b).transpose = b.transpose.mul a.transpose := by
  ext <;> simp only [mul, vecMul, transpose] <;> ring

theorem transpose_one : (one : M3 K).transpose = one := rfl

theorem det_mul (a b : M3 K) : det (a.mul b) = det a * det b := by
  simp only [det, mul, vecMul, V3.dot, V3.cross]; ring

theorem det_transpose (a : M3 K) : det a.transpose = det a := by
  simp only [det, transpose, V3.dot, V3.cross]; ring

theorem det_one : det (one : M3 K) = 1 := by
  simp [det, one, V3.dot, V3.cross]

/-- expanded determinant (rows). -/
theorem det_def' (m : M3 K) : det m =
    m.r0.x * (m.r1.y * m.r2.z - m.r1.z * m.r2.y) + m.r0.y * (m.r1.z * m.r2.x - m.r1.x * m.r2.z)
      + m.r0.z * (m.r1.x * m.r2.y - m.r1.y * m.r2.x) := rfl

theorem inv_mul_cancel (m : M3 K) (h : det m ≠ 0) : (inv m).mul m = one := by
  obtain ⟨d, hd⟩ : ∃ d, d = det m := ⟨_, rfl⟩
  have hne : d ≠ 0 := hd ▸ h
  have hexp : d = m.r0.x * (m.r1.y * m.r2.z - m.r1.z * m.r2.y)
      + m.r0.y * (m.r1.z * m.r2.x - m.r1.x * m.r2.z) + m.r0.z * (m.r1.x * m.r2.y - m.r1.y * m.r2.x) := hd
  ext <;> simp only [inv, mul, vecMul, one, ← hd, V3.cross] <;> field_simp <;>
    (try simp only [hexp]) <;> ring

theorem mul_inv_cancel (m : M3 K) (h : det m ≠ 0) : m.mul (inv m) = one := by
  obtain ⟨d, hd⟩ : ∃ d, d = det m := ⟨_, rfl⟩
  have hne : d ≠ 0 := hd ▸ h
  have hexp : d = m.r0.x * (m.r1.y * m.r2.z - m.r1.z * m.r2.y)
      + m.r0.y * (m.r1.z * m.r2.x - m.r1.x * m.r2.z) + m.r0.z * (m.r1.x * m.r2.y - m.r1.y * m.r2.x) := hd
  ext <;> simp only [inv, mul, vecMul, one, ← hd, V3.cross] <;> field_simp <;>
    (try simp only [hexp]) <;> ring

theorem det_inv (m : M3 K) (h : det m ≠ 0) : det (inv m) = (det m)⁻¹ := by
  have e : det (inv m) * det m = 1 := by rw [← det_mul, inv_mul_cancel m h, det_one]
  exact eq_inv_of_mul_eq_one_left e

theorem inv_transpose (m : M3 K) : inv m.transpose = (inv m).transpose := by
  have hd : det m.transpose = det m := det_transpose m
  ext <;> simp only [inv, hd] <;> simp only [transpose, V3.cross] <;> ring

theorem vecMul_vecMul (s : V3 K) (a b : M3 K) : vecMul (vecMul s a) b = vecMul s (a.mul b) := by
  ext <;> simp only [mul, vecMul] <;> ring

theorem vecMul_one (s : V3 K) : vecMul s (one : M3 K) = s := by
  ext <;> simp [vecMul, one]

/-- `(s V) V⁻¹ = s`. -/
theorem vecMul_inv_cancel (s : V3 K) (m : M3 K) (h : det m ≠ 0) : vecMul (vecMul s m) (inv m) = s := by
  rw [vecMul_vecMul, mul_inv_cancel m h, vecMul_one]

/-- `(p V⁻¹) V = p`. -/
theorem vecMul_inv_cancel' (p : V3 K) (m : M3 K) (h : det m ≠ 0) : vecMul (vecMul p (inv m)) m = p := by
  rw [vecMul_vecMul, inv_mul_cancel m h, vecMul_one]

/-- `Mᵀ v` as a column product is `v M` as a row product. -/
theorem mulVec_transpose (m : M3 K) (v : V3 K) : mulVec m.transpose v = vecMul v m := by
  ext <;> simp only [mulVec, vecMul, transpose, V3.dot] <;> ring

theorem mulVec_mulVec (a b : M3 K) (v : V3 K) : mulVec a (mulVec b v) = mulVec (a.mul b) v := by
  ext <;> simp only [mulVec, mul, vecMul, V3.dot] <;> ring

end M3

/-! ### the core-class helpers are the usual lattice operations in a linear order -/
namespace C01
variable {K : Type} [Field K] [LinearOrder K] [IsStrictOrderedRing K]

theorem absK_eq_abs (x : K) : absK x = |x| := by
  unfold absK
  split
  · rename_i h; exact (abs_of_neg h).symm
  · rename_i h; exact (abs_of_nonneg (not_lt.mp h)).symm

theorem maxK_eq_max (a b : K) : maxK a b = max a b := by
  unfold maxK
  split
  · rename_i h; exact (max_eq_right (le_of_lt h)).symm
  · rename_i h; exact (max_eq_left (not_lt.mp h)).symm

theorem minK_eq_min (a b : K) : minK a b = min a b := by
  unfold minK
  split
  · rename_i h; exact (min_eq_right (le_of_lt h)).symm
  · rename_i h; exact (min_eq_left (not_lt.mp h)).symm

end C01
end Atomman
