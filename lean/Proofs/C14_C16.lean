/-
  C14: the two facts about C16's plane-normal model that the C14 theorems use (`idx_cross_parallel`, `normal_is_reciprocal`,
  with `normalOf_eq`), proved here from the model file `Atomman/C16.lean` only — the same statements and proofs as in
  `Proofs/C16.lean`.  Importing `Proofs/C16.lean` would make every C14 build depend on C16's regenerated source tie
  (`Proofs/C16_Source.lean`), which is rewritten while C16's owner tests mutations.
-/
import Atomman.C16
import Mathlib.Tactic.Ring
import Mathlib.Tactic.Linarith
import Mathlib.Tactic.LinearCombination
import Mathlib.Tactic.FieldSimp
import Mathlib.Tactic.NormNum
import Mathlib.Tactic.Positivity
import Mathlib.Algebra.Order.Field.Basic
import Mathlib.Algebra.Order.Ring.Abs
import Mathlib.Algebra.Group.Int.Units
import Mathlib.Data.Int.GCD

namespace Atomman.C14
open Atomman Atomman.C16 Atomman.Gen
set_option linter.unusedSectionVars false
set_option linter.unusedSimpArgs false
set_option linter.unusedVariables false

macro "c16pip" : tactic => `(tactic| (simp only [planeInPlane, ne_eq, *, not_true_eq_false, not_false_eq_true, if_true, if_false, ite_true, ite_false] <;> rfl))

/-- `s·(a ×ᵢ b)` is a positive rational multiple `num/den` of `(h,k,l)`, in every branch. -/
theorem c16_idx_cross_parallel (h k l : ℤ) (hne : ¬(h = 0 ∧ k = 0 ∧ l = 0)) :
    ∃ a b s, planeInPlane h k l = .ok (a, b, s) ∧
      ∃ num den : ℤ, 0 < num ∧ 0 < den ∧
        V3.smul den (V3.smul s (V3.cross a b)) = V3.smul num ⟨h, k, l⟩ := by
  by_cases hh : h = 0 <;> by_cases hk : k = 0 <;> by_cases hl : l = 0
  · exact absurd ⟨hh, hk, hl⟩ hne
  · -- 00l
    subst hh hk
    refine ⟨_, _, _, by c16pip, 1, l.natAbs, by norm_num, by omega, ?_⟩
    simp only [V3.smul, V3.cross, V3.mk.injEq]
    have := Int.sign_mul_natAbs l
    refine ⟨by ring, by ring, ?_⟩
    linear_combination this
  · -- 0k0
    subst hh hl
    refine ⟨_, _, _, by c16pip, 1, k.natAbs, by norm_num, by omega, ?_⟩
    simp only [V3.smul, V3.cross, V3.mk.injEq]
    have := Int.sign_mul_natAbs k
    refine ⟨by ring, ?_, by ring⟩
    linear_combination this
  · -- 0kl
    subst hh
    have hm : (0 : ℤ) < (Int.lcm k l : ℕ) := by exact_mod_cast Int.lcm_pos hk hl
    have h1 := Int.mul_tdiv_cancel_of_dvd (Int.dvd_lcm_left k l)
    have h2 := Int.mul_tdiv_cancel_of_dvd (Int.dvd_lcm_right k l)
    have hs := Int.sign_mul_natAbs (k * l)
    refine ⟨_, _, _, by c16pip, (Int.lcm k l : ℕ), (k * l).natAbs, hm,
      by have := mul_ne_zero hk hl; omega, ?_⟩
    simp only [V3.smul, V3.cross, V3.mk.injEq, Int.neg_tdiv]
    generalize ((Int.lcm k l : ℕ) : ℤ) = m at *
    generalize m.tdiv k = q at *
    generalize m.tdiv l = r at *
    generalize ((k * l).natAbs : ℤ) = n at *
    generalize (k * l).sign = s at *
    refine ⟨by ring, ?_, ?_⟩
    · linear_combination r * hs + k * h2
    · linear_combination q * hs + l * h1
  · -- h00
    subst hk hl
    refine ⟨_, _, _, by c16pip, 1, h.natAbs, by norm_num, by omega, ?_⟩
    simp only [V3.smul, V3.cross, V3.mk.injEq]
    have := Int.sign_mul_natAbs h
    refine ⟨?_, by ring, by ring⟩
    linear_combination this
  · -- h0l
    subst hk
    have hm : (0 : ℤ) < (Int.lcm h l : ℕ) := by exact_mod_cast Int.lcm_pos hh hl
    have h1 := Int.mul_tdiv_cancel_of_dvd (Int.dvd_lcm_left h l)
    have h2 := Int.mul_tdiv_cancel_of_dvd (Int.dvd_lcm_right h l)
    have hs := Int.sign_mul_natAbs (h * l)
    refine ⟨_, _, _, by c16pip, (Int.lcm h l : ℕ), (h * l).natAbs, hm,
      by have := mul_ne_zero hh hl; omega, ?_⟩
    simp only [V3.smul, V3.cross, V3.mk.injEq, Int.neg_tdiv]
    generalize ((Int.lcm h l : ℕ) : ℤ) = m at *
    generalize m.tdiv h = p at *
    generalize m.tdiv l = r at *
    generalize ((h * l).natAbs : ℤ) = n at *
    generalize (h * l).sign = s at *
    refine ⟨?_, by ring, ?_⟩
    · linear_combination r * hs + h * h2
    · linear_combination p * hs + l * h1
  · -- hk0
    subst hl
    have hm : (0 : ℤ) < (Int.lcm h k : ℕ) := by exact_mod_cast Int.lcm_pos hh hk
    have h1 := Int.mul_tdiv_cancel_of_dvd (Int.dvd_lcm_left h k)
    have h2 := Int.mul_tdiv_cancel_of_dvd (Int.dvd_lcm_right h k)
    have hs := Int.sign_mul_natAbs (h * k)
    refine ⟨_, _, _, by c16pip, (Int.lcm h k : ℕ), (h * k).natAbs, hm,
      by have := mul_ne_zero hh hk; omega, ?_⟩
    simp only [V3.smul, V3.cross, V3.mk.injEq, Int.neg_tdiv]
    generalize ((Int.lcm h k : ℕ) : ℤ) = m at *
    generalize m.tdiv h = p at *
    generalize m.tdiv k = q at *
    generalize ((h * k).natAbs : ℤ) = n at *
    generalize (h * k).sign = s at *
    refine ⟨?_, ?_, by ring⟩
    · linear_combination q * hs + h * h2
    · linear_combination p * hs + k * h1
  · -- hkl
    have hhk : ((Int.lcm h k : ℕ) : ℤ) ≠ 0 := by exact_mod_cast Int.lcm_ne_zero hh hk
    have hm : (0 : ℤ) < (Int.lcm ((Int.lcm h k : ℕ) : ℤ) l : ℕ) := by exact_mod_cast Int.lcm_pos hhk hl
    have h1 := Int.mul_tdiv_cancel_of_dvd
      (dvd_trans (Int.dvd_lcm_left h k) (Int.dvd_lcm_left ((Int.lcm h k : ℕ) : ℤ) l))
    have h2 := Int.mul_tdiv_cancel_of_dvd
      (dvd_trans (Int.dvd_lcm_right h k) (Int.dvd_lcm_left ((Int.lcm h k : ℕ) : ℤ) l))
    have h3 := Int.mul_tdiv_cancel_of_dvd (Int.dvd_lcm_right ((Int.lcm h k : ℕ) : ℤ) l)
    have hs := Int.sign_mul_natAbs (h * k * l)
    refine ⟨_, _, _, by c16pip, (Int.lcm ((Int.lcm h k : ℕ) : ℤ) l : ℕ) * (Int.lcm ((Int.lcm h k : ℕ) : ℤ) l : ℕ),
      (h * k * l).natAbs, by positivity,
      by have := mul_ne_zero (mul_ne_zero hh hk) hl; omega, ?_⟩
    simp only [V3.smul, V3.cross, V3.mk.injEq, Int.neg_tdiv]
    generalize ((Int.lcm ((Int.lcm h k : ℕ) : ℤ) l : ℕ) : ℤ) = m at *
    generalize m.tdiv h = p at *
    generalize m.tdiv k = q at *
    generalize m.tdiv l = r at *
    generalize ((h * k * l).natAbs : ℤ) = n at *
    generalize (h * k * l).sign = s at *
    refine ⟨?_, ?_, ?_⟩
    · linear_combination q * r * hs + h * l * r * h2 + h * m * h3
    · linear_combination p * r * hs + k * l * r * h1 + k * m * h3
    · linear_combination p * q * hs + l * k * q * h1 + l * m * h2


section field
variable {K : Type} [Field K]

theorem c16_normalOf_eq (V : M3 K) (a b : V3 ℤ) (s num den h k l : ℤ) (hden : (den : K) ≠ 0) (hdet : M3.det V ≠ 0)
    (he : V3.smul den (V3.smul s (V3.cross a b)) = V3.smul num ⟨h, k, l⟩) :
    normalOf V a b s = V3.smul ((num : K) / den * M3.det V) (recipVector V h k l) := by
  simp only [V3.smul, V3.cross, V3.mk.injEq] at he
  obtain ⟨e1, e2, e3⟩ := he
  have e1' := congrArg (Int.cast (R := K)) e1
  have e2' := congrArg (Int.cast (R := K)) e2
  have e3' := congrArg (Int.cast (R := K)) e3
  push_cast at e1' e2' e3'
  simp only [normalOf, recipVector, castV, V3.smul, V3.cross, M3.vecMul, M3.inv, M3.transpose, V3.mk.injEq]
  refine ⟨?_, ?_, ?_⟩
  · field_simp
    linear_combination (V.r1.y * V.r2.z - V.r1.z * V.r2.y) * e1' + (V.r2.y * V.r0.z - V.r2.z * V.r0.y) * e2'
      + (V.r0.y * V.r1.z - V.r0.z * V.r1.y) * e3'
  · field_simp
    linear_combination (V.r1.z * V.r2.x - V.r1.x * V.r2.z) * e1' + (V.r2.z * V.r0.x - V.r2.x * V.r0.z) * e2'
      + (V.r0.z * V.r1.x - V.r0.x * V.r1.z) * e3'
  · field_simp
    linear_combination (V.r1.x * V.r2.y - V.r1.y * V.r2.x) * e1' + (V.r2.x * V.r0.y - V.r2.y * V.r0.x) * e2'
      + (V.r0.x * V.r1.y - V.r0.y * V.r1.x) * e3'


end field

section ordered
variable {K : Type} [Field K] [LinearOrder K] [IsStrictOrderedRing K]

/-- the (unnormalised) normal computed by the code is `c · det V · (h a* + k b* + l c*)` with `c > 0`. -/
theorem c16_normal_is_reciprocal (V : M3 K) (hdet : M3.det V ≠ 0) (h k l : ℤ) (hne : ¬(h = 0 ∧ k = 0 ∧ l = 0)) :
    ∃ n, planeNormalUnnorm V h k l = .ok n ∧
      ∃ c : K, 0 < c ∧ n = V3.smul (c * M3.det V) (recipVector V h k l) := by
  obtain ⟨a, b, s, hp, num, den, hnum, hden, he⟩ := c16_idx_cross_parallel h k l hne
  have hdenK : (0 : K) < (den : K) := by exact_mod_cast hden
  have hnumK : (0 : K) < (num : K) := by exact_mod_cast hnum
  refine ⟨normalOf V a b s, by simp only [planeNormalUnnorm, hp], (num : K) / den, by positivity, ?_⟩
  exact c16_normalOf_eq V a b s num den h k l hdenK.ne' hdet he

end ordered

end Atomman.C14
