/-
  C07 — helper lemmas (text level): rendering a document and lexing it again.
  `lexLine ∘ joinSp`, `splitLines ∘ renderLines`, `splitLines ∘ renderJoin`, comment stripping, and the
  character classes of the tokens the writers emit (digits, sign, point, exponent letter).
-/
import Proofs.C07_Lemmas
import Mathlib.Data.List.Basic

namespace Atomman.C07
open Atomman
set_option linter.unusedSimpArgs false
set_option linter.unusedVariables false

/-! ### character classes -/

/-- a character that can be part of a token of a LAMMPS/VASP text file: no blank, no newline, no `#`. -/
def okChar (c : Char) : Prop := isSpace c = false ∧ c ≠ '\n' ∧ c ≠ '#'

instance (c : Char) : Decidable (okChar c) := by unfold okChar; infer_instance

/-- all characters of a token are plain (the token may be empty). -/
def okChars (t : Tok) : Prop := ∀ c ∈ t, okChar c

/-- a non-empty token of plain characters. -/
def okTok (t : Tok) : Prop := t ≠ [] ∧ okChars t

theorem okChars_nil : okChars [] := by intro c hc; simp at hc

theorem okChars_cons {c : Char} {t : Tok} : okChars (c :: t) ↔ okChar c ∧ okChars t := by
  simp [okChars]

theorem okChars_append {a b : Tok} : okChars (a ++ b) ↔ okChars a ∧ okChars b := by
  simp only [okChars, List.mem_append]
  constructor
  · intro h; exact ⟨fun c hc => h c (Or.inl hc), fun c hc => h c (Or.inr hc)⟩
  · rintro ⟨h1, h2⟩ c (hc | hc)
    · exact h1 c hc
    · exact h2 c hc

theorem okChar_of_isDigit {c : Char} (h : isDigit c = true) : okChar c := by
  have h1 : 48 ≤ c.toNat ∧ c.toNat ≤ 57 := by simpa [isDigit] using h
  have hne : ∀ d : Char, (d.toNat < 48 ∨ 57 < d.toNat) → c ≠ d := by
    intro d hd e; subst e; omega
  refine ⟨?_, hne '\n' (by decide), hne '#' (by decide)⟩
  simp only [isSpace, Bool.or_eq_false_iff, decide_eq_false_iff_not]
  exact ⟨⟨⟨⟨hne ' ' (by decide), hne '\t' (by decide)⟩, hne '\r' (by decide)⟩, hne '\x0c' (by decide)⟩,
    hne '\x0b' (by decide)⟩

theorem okChars_of_all_isDigit {t : Tok} (h : t.all isDigit = true) : okChars t := by
  intro c hc
  exact okChar_of_isDigit (List.all_eq_true.mp h c hc)

theorem okChars_padDigits (w m : Nat) : okChars (padDigits w m) :=
  okChars_of_all_isDigit (all_isDigit_padDigits w m)

theorem okChars_natTok (m : Nat) : okChars (natTok m) := okChars_of_all_isDigit (all_isDigit_natTok m)

theorem okTok_natTok (m : Nat) : okTok (natTok m) := ⟨natTok_ne_nil m, okChars_natTok m⟩

theorem okTok_intTok (i : Int) : okTok (intTok i) := by
  unfold intTok
  split
  · exact ⟨by simp, okChars_cons.mpr ⟨by decide, okChars_natTok _⟩⟩
  · exact okTok_natTok _

theorem okTok_fmtFixed (q : ℚ) (n : Nat) : okTok (fmtFixed q n) := by
  unfold fmtFixed
  constructor
  · intro h
    have := natTok_ne_nil ((fixedScaled q n).natAbs / 10 ^ n)
    simp only [List.append_eq_nil_iff] at h
    exact this h.1.2
  · refine okChars_append.mpr ⟨okChars_append.mpr ⟨?_, okChars_natTok _⟩, ?_⟩
    · split
      · exact okChars_cons.mpr ⟨by decide, okChars_nil⟩
      · exact okChars_nil
    · split
      · exact okChars_nil
      · exact okChars_cons.mpr ⟨by decide, okChars_padDigits _ _⟩

theorem okChars_expTok (e : Int) : okChars (expTok e) := by
  unfold expTok
  refine okChars_cons.mpr ⟨?_, ?_⟩
  · split <;> decide
  · split
    · exact okChars_cons.mpr ⟨by decide, okChars_natTok _⟩
    · exact okChars_natTok _

theorem okTok_fmtExp (q : ℚ) (n : Nat) : okTok (fmtExp q n) := by
  have hs : okChars (if q < 0 then ['-'] else ([] : Tok)) := by
    split
    · exact okChars_cons.mpr ⟨by decide, okChars_nil⟩
    · exact okChars_nil
  have hfr : ∀ m : Nat, okChars (if n = 0 then ([] : Tok) else '.' :: padDigits n m) := by
    intro m
    split
    · exact okChars_nil
    · exact okChars_cons.mpr ⟨by decide, okChars_padDigits _ _⟩
  have he : ∀ e : Int, okChars ('e' :: expTok e) := fun e => okChars_cons.mpr ⟨by decide, okChars_expTok e⟩
  unfold fmtExp
  simp only
  split
  · constructor
    · simp
    · exact okChars_append.mpr ⟨okChars_append.mpr ⟨hs, okChars_cons.mpr ⟨by decide, hfr 0⟩⟩, he 0⟩
  · constructor
    · simp
    · exact okChars_append.mpr ⟨okChars_append.mpr ⟨okChars_append.mpr ⟨hs, okChars_padDigits _ _⟩, hfr _⟩, he _⟩

theorem okTok_fmtNum (f : Fmt) (q : ℚ) : okTok (fmtNum f q) := by
  cases f with
  | fixed n => exact okTok_fmtFixed q n
  | exp n => exact okTok_fmtExp q n

theorem okTok_cellTok (f : Fmt) (c : Cell) : okTok (c.tok f) := by
  cases c with
  | int i => exact okTok_intTok i
  | num q => exact okTok_fmtNum f q

/-! ### joining and lexing one line -/

theorem joinSp_cons_cons (t u : Tok) (ts : Line) : joinSp (t :: u :: ts) = t ++ ' ' :: joinSp (u :: ts) := rfl

theorem lexLine_space (cs : List Char) : lexLine (' ' :: cs) = lexLine cs := by
  simp [lexLine, isSpace]

/-- lexing `t ++ rest` where `t` is a non-empty plain token and `rest` is empty or starts with a blank. -/
theorem lexLine_tok_append (t : Tok) (ht : okTok t) (rest : List Char)
    (hr : rest = [] ∨ ∃ r, rest = ' ' :: r) : lexLine (t ++ rest) = t :: lexLine rest := by
  obtain ⟨hne, hok⟩ := ht
  induction t with
  | nil => exact absurd rfl hne
  | cons c t ih =>
    have hc : isSpace c = false := (hok c (by simp)).1
    cases t with
    | nil =>
      rcases hr with rfl | ⟨r, rfl⟩
      · simp [lexLine, hc]
      · simp only [List.cons_append, List.nil_append]
        rw [lexLine]
        simp only [hc, Bool.false_eq_true, if_false]
        have : isSpace ' ' = true := by decide
        simp [this]
    | cons d t' =>
      have hd : isSpace d = false := (hok d (by simp)).1
      have ih' := ih (by simp) (fun x hx => hok x (List.mem_cons_of_mem _ hx))
      simp only [List.cons_append] at ih' ⊢
      rw [lexLine]
      simp only [hc, hd, Bool.false_eq_true, if_false, ih']

/-- lexing a rendered line gives back its non-empty tokens. -/
theorem lexLine_joinSp (l : Line) (h : ∀ t ∈ l, okChars t) : lexLine (joinSp l) = l.filter (· ≠ []) := by
  induction l with
  | nil => simp [joinSp, lexLine]
  | cons t ts ih =>
    have ht : okChars t := h t (by simp)
    have ih' := ih (fun u hu => h u (List.mem_cons_of_mem _ hu))
    cases ts with
    | nil =>
      by_cases he : t = []
      · subst he; simp [joinSp, lexLine]
      · have := lexLine_tok_append t ⟨he, ht⟩ [] (Or.inl rfl)
        simp only [List.append_nil] at this
        simp [joinSp, this, he, lexLine]
    | cons u us =>
      rw [joinSp_cons_cons]
      by_cases he : t = []
      · subst he
        simp only [List.nil_append, lexLine_space, ih']
        simp
      · rw [lexLine_tok_append t ⟨he, ht⟩ _ (Or.inr ⟨_, rfl⟩), lexLine_space, ih']
        simp [he]

theorem lexLine_joinSp_ok (l : Line) (h : ∀ t ∈ l, okTok t) : lexLine (joinSp l) = l := by
  rw [lexLine_joinSp l (fun t ht => (h t ht).2)]
  apply List.filter_eq_self.mpr
  intro t ht
  simpa using (h t ht).1

theorem mem_joinSp {c : Char} {l : Line} (h : c ∈ joinSp l) : c = ' ' ∨ ∃ t ∈ l, c ∈ t := by
  induction l with
  | nil => simp [joinSp] at h
  | cons t ts ih =>
    cases ts with
    | nil => right; exact ⟨t, by simp, by simpa [joinSp] using h⟩
    | cons u us =>
      rw [joinSp_cons_cons] at h
      rcases List.mem_append.mp h with h | h
      · right; exact ⟨t, by simp, h⟩
      · rcases List.mem_cons.mp h with h | h
        · left; exact h
        · rcases ih h with h | ⟨v, hv, hc⟩
          · left; exact h
          · right; exact ⟨v, List.mem_cons_of_mem _ hv, hc⟩

theorem newline_not_mem_joinSp (l : Line) (h : ∀ t ∈ l, ∀ c ∈ t, c ≠ '\n') : '\n' ∉ joinSp l := by
  intro hm
  rcases mem_joinSp hm with h1 | ⟨t, ht, hc⟩
  · exact absurd h1 (by decide)
  · exact h t ht _ hc rfl

theorem hash_not_mem_joinSp (l : Line) (h : ∀ t ∈ l, okChars t) : '#' ∉ joinSp l := by
  intro hm
  rcases mem_joinSp hm with h1 | ⟨t, ht, hc⟩
  · exact absurd h1 (by decide)
  · exact (h t ht _ hc).2.2 rfl

/-! ### splitting a text into lines -/

theorem splitLines_line_nl (l : List Char) (hl : '\n' ∉ l) (rest : List Char) :
    splitLines (l ++ '\n' :: rest) = l :: splitLines rest := by
  induction l with
  | nil => simp [splitLines]
  | cons c cs ih =>
    have hc : c ≠ '\n' := fun e => hl (by simp [e])
    have := ih (fun h => hl (List.mem_cons_of_mem _ h))
    simp only [List.cons_append]
    rw [splitLines, if_neg hc, this]

theorem splitLines_renderLines (d : Doc) (h : ∀ l ∈ d, '\n' ∉ joinSp l) :
    splitLines (renderLines d) = d.map joinSp := by
  induction d with
  | nil => rfl
  | cons l ls ih =>
    rw [renderLines, splitLines_line_nl _ (h l (by simp)), ih (fun m hm => h m (List.mem_cons_of_mem _ hm))]
    rfl

theorem splitLines_last (l : List Char) (hl : '\n' ∉ l) (hne : l ≠ []) : splitLines l = [l] := by
  induction l with
  | nil => exact absurd rfl hne
  | cons c cs ih =>
    have hc : c ≠ '\n' := fun e => hl (by simp [e])
    rw [splitLines, if_neg hc]
    cases cs with
    | nil => simp [splitLines]
    | cons d ds =>
      rw [ih (fun h => hl (List.mem_cons_of_mem _ h)) (by simp)]

/-- `'\n'.join(lines)`: the lines come back provided the last one is not empty. -/
theorem splitLines_renderJoin (d : Doc) (h : ∀ l ∈ d, '\n' ∉ joinSp l) (hlast : ∀ l, d.getLast? = some l → joinSp l ≠ []) :
    splitLines (renderJoin d) = d.map joinSp := by
  induction d with
  | nil => rfl
  | cons l ls ih =>
    cases ls with
    | nil =>
      simp only [renderJoin, List.map_cons, List.map_nil]
      exact splitLines_last _ (h l (by simp)) (hlast l (by simp))
    | cons m ms =>
      have e : renderJoin (l :: m :: ms) = joinSp l ++ '\n' :: renderJoin (m :: ms) := rfl
      rw [e, splitLines_line_nl _ (h l (by simp)),
        ih (fun x hx => h x (List.mem_cons_of_mem _ hx)) (fun x hx => hlast x (by simpa using hx))]
      rfl

/-! ### comments -/

theorem stripComment_of_no_hash (l : List Char) (h : '#' ∉ l) : stripComment l = l := by
  unfold stripComment
  induction l with
  | nil => rfl
  | cons c cs ih =>
    have hc : c ≠ '#' := fun e => h (by simp [e])
    simp only [List.takeWhile_cons, ne_eq, hc, not_false_eq_true, decide_true, if_true]
    rw [ih (fun hm => h (List.mem_cons_of_mem _ hm))]

theorem stripComment_hash (a b : List Char) (h : '#' ∉ a) : stripComment (a ++ '#' :: b) = a := by
  unfold stripComment
  induction a with
  | nil => simp [List.takeWhile_cons]
  | cons c cs ih =>
    have hc : c ≠ '#' := fun e => h (by simp [e])
    simp only [List.cons_append, List.takeWhile_cons, ne_eq, hc, not_false_eq_true, decide_true, if_true]
    rw [ih (fun hm => h (List.mem_cons_of_mem _ hm))]

theorem commentOf_hash (a b : List Char) (h : '#' ∉ a) : commentOf (a ++ '#' :: b) = b := by
  unfold commentOf
  induction a with
  | nil => simp [List.dropWhile_cons]
  | cons c cs ih =>
    have hc : c ≠ '#' := fun e => h (by simp [e])
    simp only [List.cons_append, List.dropWhile_cons, ne_eq, hc, not_false_eq_true, decide_true, if_true]
    exact ih (fun hm => h (List.mem_cons_of_mem _ hm))

/-- a rendered line without `#`: the comment rule leaves it alone and lexing returns the non-empty tokens. -/
theorem lex_strip_joinSp (l : Line) (h : ∀ t ∈ l, okChars t) :
    lexLine (stripComment (joinSp l)) = l.filter (· ≠ []) := by
  rw [stripComment_of_no_hash _ (hash_not_mem_joinSp l h), lexLine_joinSp l h]

theorem lex_strip_joinSp_ok (l : Line) (h : ∀ t ∈ l, okTok t) : lexLine (stripComment (joinSp l)) = l := by
  rw [stripComment_of_no_hash _ (hash_not_mem_joinSp l (fun t ht => (h t ht).2)), lexLine_joinSp_ok l h]

/-- lexing a whole rendered document. -/
theorem lexDoc_renderLines (d : Doc) (h : ∀ l ∈ d, ∀ t ∈ l, okTok t) : lexDoc (renderLines d) = d := by
  unfold lexDoc
  rw [splitLines_renderLines d (fun l hl => newline_not_mem_joinSp l (fun t ht c hc => ((h l hl t ht).2 c hc).2.1)),
    List.map_map]
  conv_rhs => rw [← List.map_id d]
  apply List.map_congr_left
  intro l hl
  exact lexLine_joinSp_ok l (h l hl)

end Atomman.C07
