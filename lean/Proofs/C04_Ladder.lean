/-
  C04 round 6 — the pieces of the code brought into the model in this round:
  * the multiplier arguments of `supersize` as the caller writes them (`SizeArg`): which are refused, with which error;
  * the face-rounding ladder of `rotate` (`roundFaces`, `ladderKeep`, `ladderLoop`, `rotateLadder`): one rung keeps exactly
    the atoms of the half-open cell shifted by `atol` along every axis — again a complete set of representatives;
  * the integer matrices the two conversions hand to `rotate` (`c2pUvws`, `p2cUvws`): inverse of one another up to the
    factor `multip`, determinant = number of lattice sites of the setting, the sites = the primitive lattice points of the
    conventional cell; hence the conversions undo one another on the cell vectors.
-/
import Proofs.C04_Source
import Mathlib.Tactic.Ring
import Mathlib.Tactic.Linarith
import Mathlib.Tactic.NormNum
import Mathlib.Tactic.FieldSimp
import Mathlib.Algebra.Order.Field.Basic
import Mathlib.Data.Int.Cast.Lemmas

namespace Atomman.C04
open Atomman
set_option linter.unusedSectionVars false

/-! ### multiplier arguments -/

/-- the arguments `supersize` accepts: a non-zero integer, a pair `lo ≤ 0 ≤ hi` with `lo < hi`. -/
def SizeArg.Accepted : SizeArg → Prop
  | .int n => n ≠ 0
  | .pair lo hi => lo ≤ 0 ∧ 0 ≤ hi ∧ lo < hi
  | .other => False

/-- **refusal theorem, one axis**: the argument is accepted exactly when it is a non-zero integer or a two-sided range
    around 0 that is not empty; the multiplier then is `|n|` resp. `hi - lo`, a positive number. -/
theorem resolve_ok_iff (a : SizeArg) : (∃ s, a.resolve = .ok s) ↔ a.Accepted := by
  cases a with
  | int n =>
    simp only [SizeArg.resolve, SizeArg.Accepted, Size.ofInt?]
    by_cases h1 : 0 < n
    · simp [h1]; omega
    · by_cases h2 : n < 0
      · simp [h1, h2]; omega
      · simp [h1, h2]; omega
  | pair lo hi =>
    simp only [SizeArg.resolve, SizeArg.Accepted]
    by_cases h : lo ≤ 0 ∧ 0 ≤ hi
    · by_cases hz : hi - lo = 0
      · simp [h, hz]; omega
      · simp [h, hz]; omega
    · simp [h]; omega
  | other => simp [SizeArg.resolve, SizeArg.Accepted]

/-- what an accepted argument resolves to, and that its multiplier is positive. -/
theorem resolve_spec (a : SizeArg) (s : Size) (h : a.resolve = .ok s) :
    0 < s.mult ∧ s.lo ≤ 0 ∧ 0 ≤ s.hi ∧
    (∀ n, a = .int n → s.mult = |n| ∧ (0 < n → s = ⟨0, n⟩) ∧ (n < 0 → s = ⟨n, 0⟩)) ∧
    (∀ lo hi, a = .pair lo hi → s = ⟨lo, hi⟩) := by
  cases a with
  | int n =>
    simp only [SizeArg.resolve, Size.ofInt?] at h
    by_cases h1 : 0 < n
    · simp only [h1, if_true, Except.ok.injEq] at h
      subst h
      refine ⟨by simp [Size.mult]; exact h1, le_refl _, le_of_lt h1, ?_, by intro lo hi h; cases h⟩
      intro m hm; cases hm
      exact ⟨by simp [Size.mult, abs_of_pos h1], fun _ => rfl, fun h => absurd h (by omega)⟩
    · by_cases h2 : n < 0
      · simp only [h1, h2, if_true, if_false, Except.ok.injEq] at h
        subst h
        refine ⟨by simp [Size.mult]; exact h2, le_of_lt h2, le_refl _, ?_, by intro lo hi h; cases h⟩
        intro m hm; cases hm
        exact ⟨by simp [Size.mult, abs_of_neg h2], fun h => absurd h (by omega), fun _ => rfl⟩
      · simp [h1, h2] at h
  | pair lo hi =>
    simp only [SizeArg.resolve] at h
    by_cases hc : lo ≤ 0 ∧ 0 ≤ hi
    · by_cases hz : hi - lo = 0
      · simp [hc, hz] at h
      · simp only [hc, hz, and_self, if_true, if_false, Except.ok.injEq] at h
        subst h
        refine ⟨by simp only [Size.mult]; omega, hc.1, hc.2, (by intro n h; cases h), ?_⟩
        intro l h' he; cases he; rfl
    · simp [hc] at h
  | other => simp [SizeArg.resolve] at h

/-- which error: zero (as an integer or as the empty range `(0, 0)`) is a `ValueError`, every other refused argument a
    `TypeError`. -/
theorem resolve_error_iff (a : SizeArg) (e : String) :
    a.resolve = .error e ↔
      (e = "value" ∧ (a = .int 0 ∨ a = .pair 0 0)) ∨
      (e = "type" ∧ (a = .other ∨ ∃ lo hi, a = .pair lo hi ∧ ¬ (lo ≤ 0 ∧ 0 ≤ hi))) := by
  cases a with
  | int n =>
    simp only [SizeArg.resolve, Size.ofInt?]
    by_cases h1 : 0 < n
    · simp [h1]; omega
    · by_cases h2 : n < 0
      · simp [h1, h2]; omega
      · have : n = 0 := by omega
        subst this
        simp; exact eq_comm
  | pair lo hi =>
    simp only [SizeArg.resolve]
    by_cases hc : lo ≤ 0 ∧ 0 ≤ hi
    · by_cases hz : hi - lo = 0
      · have h1 : lo = 0 := by omega
        have h2 : hi = 0 := by omega
        subst h1; subst h2
        simp; exact eq_comm
      · simp [hc, hz]; omega
    · simp only [hc, if_false, Except.error.injEq]
      constructor
      · intro h; exact Or.inr ⟨h.symm, Or.inr ⟨lo, hi, rfl, hc⟩⟩
      · rintro (⟨_, h1 | h1⟩ | ⟨h, _⟩)
        · cases h1
        · cases h1; exact absurd ⟨le_refl _, le_refl _⟩ hc
        · exact h.symm
  | other => simp [SizeArg.resolve]; exact eq_comm

/-- **refusal theorem, the call**: `supersize` returns iff all three arguments are accepted; otherwise the first
    refused axis decides the error. -/
theorem resolveSizes_ok_iff (a0 a1 a2 : SizeArg) :
    (∃ r, resolveSizes a0 a1 a2 = .ok r) ↔ a0.Accepted ∧ a1.Accepted ∧ a2.Accepted := by
  rw [← resolve_ok_iff, ← resolve_ok_iff, ← resolve_ok_iff]
  unfold resolveSizes
  cases h0 : a0.resolve <;> cases h1 : a1.resolve <;> cases h2 : a2.resolve <;> simp

theorem resolveSizes_ok (a0 a1 a2 : SizeArg) (sa sb sc : Size) :
    resolveSizes a0 a1 a2 = .ok (sa, sb, sc) ↔ a0.resolve = .ok sa ∧ a1.resolve = .ok sb ∧ a2.resolve = .ok sc := by
  unfold resolveSizes
  cases h0 : a0.resolve <;> cases h1 : a1.resolve <;> cases h2 : a2.resolve <;> simp

theorem resolveSizes_first_error (a0 a1 a2 : SizeArg) (e : String) :
    resolveSizes a0 a1 a2 = .error e ↔
      a0.resolve = .error e ∨ ((∃ s, a0.resolve = .ok s) ∧ a1.resolve = .error e) ∨
      ((∃ s, a0.resolve = .ok s) ∧ (∃ s, a1.resolve = .ok s) ∧ a2.resolve = .error e) := by
  unfold resolveSizes
  cases h0 : a0.resolve <;> cases h1 : a1.resolve <;> cases h2 : a2.resolve <;> simp

example : resolveSizes (.int (-2)) (.pair (-1) 2) (.int 3) = .ok (⟨-2, 0⟩, ⟨-1, 2⟩, ⟨0, 3⟩) := by decide
example : resolveSizes (.int 2) (.pair 1 2) (.int 0) = .error "type" := by decide
example : resolveSizes (.int 2) (.pair 0 0) .other = .error "value" := by decide

/-! ### the face-rounding ladder of `rotate` -/

section
variable {K : Type} [Field K] [LinearOrder K] [IsStrictOrderedRing K]

theorem closeK_zero_rtol (atol x y : K) : closeK 0 atol x y = decide (|x - y| ≤ atol) := by
  unfold closeK; rw [absK_eq_abs]; simp

/-- **one coordinate through one rung**: after the two rounding statements the coordinate passes `0 ≤ s < 1` exactly
    when `-atol ≤ s < 1 - atol` — the rung keeps the half-open interval shifted DOWN by `atol` (for `0 ≤ atol < 1/2`). -/
theorem roundFaces_keep_iff (atol s : K) (h0 : 0 ≤ atol) (h1 : 2 * atol < 1) :
    (0 ≤ roundFaces atol s ∧ roundFaces atol s < 1) ↔ (-atol ≤ s ∧ s < 1 - atol) := by
  unfold roundFaces
  simp only [closeK_zero_rtol, sub_zero, decide_eq_true_eq]
  by_cases hA : |s| ≤ atol
  · have hs := abs_le.mp hA
    have hB : ¬ |(0 : K) - 1| ≤ atol := by
      rw [abs_sub_comm, sub_zero, abs_one]; linarith
    simp only [hA, if_true, hB, if_false]
    constructor
    · intro _; constructor <;> linarith [hs.1, hs.2]
    · intro _; exact ⟨le_refl _, zero_lt_one⟩
  · simp only [hA, if_false]
    by_cases hB : |s - 1| ≤ atol
    · have hb := abs_le.mp hB
      simp only [hB, if_true]
      constructor
      · intro h; exact absurd h.2 (lt_irrefl _)
      · intro h; linarith [hb.1, h.2]
    · simp only [hB, if_false]
      have hA' : atol < |s| := not_le.mp hA
      have hB' : atol < |s - 1| := not_le.mp hB
      constructor
      · rintro ⟨h1', h2'⟩
        rw [abs_of_nonneg h1'] at hA'
        rw [abs_of_neg (by linarith)] at hB'
        constructor <;> linarith
      · rintro ⟨h1', h2'⟩
        have hs0 : 0 ≤ s := by
          by_contra hneg
          rw [abs_of_neg (not_le.mp hneg)] at hA'
          linarith
        exact ⟨hs0, by linarith⟩

/-- **one rung of the ladder is the exact filter on the crystal shifted by `atol` along each new cell vector.** -/
theorem ladderKeep_eq_shift (atol : K) (s : V3 K) (h0 : 0 ≤ atol) (h1 : 2 * atol < 1) :
    ladderKeep atol s = inHalfOpen ⟨s.x + atol, s.y + atol, s.z + atol⟩ := by
  have hx := roundFaces_keep_iff atol s.x h0 h1
  have hy := roundFaces_keep_iff atol s.y h0 h1
  have hz := roundFaces_keep_iff atol s.z h0 h1
  rw [Bool.eq_iff_iff]
  simp only [ladderKeep, inHalfOpen, Bool.and_eq_true, decide_eq_true_eq]
  constructor
  · rintro ⟨⟨⟨⟨⟨a, b⟩, c⟩, d⟩, e⟩, f⟩
    have := hx.mp ⟨a, b⟩; have := hy.mp ⟨c, d⟩; have := hz.mp ⟨e, f⟩
    refine ⟨⟨⟨⟨⟨?_, ?_⟩, ?_⟩, ?_⟩, ?_⟩, ?_⟩ <;> linarith [this.1, this.2]
  · rintro ⟨⟨⟨⟨⟨a, b⟩, c⟩, d⟩, e⟩, f⟩
    have kx := hx.mpr ⟨by linarith, by linarith⟩
    have ky := hy.mpr ⟨by linarith, by linarith⟩
    have kz := hz.mpr ⟨by linarith, by linarith⟩
    exact ⟨⟨⟨⟨⟨kx.1, kx.2⟩, ky.1⟩, ky.2⟩, kz.1⟩, kz.2⟩

/-- at tolerance 0 the rung is the exact half-open test (the reading "the ladder is the identity in exact arithmetic"). -/
theorem ladderKeep_zero (s : V3 K) : ladderKeep 0 s = inHalfOpen s := by
  rw [ladderKeep_eq_shift 0 s (le_refl _) (by norm_num)]
  simp

/-- an atom farther than `atol` from every face of the new cell is decided by the rung as by the exact test. -/
theorem ladderKeep_away (atol : K) (s : V3 K) (h0 : 0 ≤ atol) (h1 : 2 * atol < 1)
    (hx : atol < |s.x| ∧ atol < |s.x - 1|) (hy : atol < |s.y| ∧ atol < |s.y - 1|)
    (hz : atol < |s.z| ∧ atol < |s.z - 1|) :
    ladderKeep atol s = inHalfOpen s := by
  rw [ladderKeep_eq_shift atol s h0 h1, Bool.eq_iff_iff]
  simp only [inHalfOpen, Bool.and_eq_true, decide_eq_true_eq]
  have key : ∀ t : K, atol < |t| → atol < |t - 1| → ((0 ≤ t + atol ∧ t + atol < 1) ↔ (0 ≤ t ∧ t < 1)) := by
    intro t ht1 ht2
    constructor
    · rintro ⟨a, b⟩
      have ht0 : 0 ≤ t := by
        by_contra hneg
        rw [abs_of_neg (not_le.mp hneg)] at ht1
        linarith
      exact ⟨ht0, by linarith⟩
    · rintro ⟨a, b⟩
      rw [abs_of_neg (by linarith)] at ht2
      exact ⟨by linarith, by linarith⟩
  have kx := key s.x hx.1 hx.2
  have ky := key s.y hy.1 hy.2
  have kz := key s.z hz.1 hz.2
  constructor
  · rintro ⟨⟨⟨⟨⟨a, b⟩, c⟩, d⟩, e⟩, f⟩
    have t1 := kx.mp ⟨a, b⟩; have t2 := ky.mp ⟨c, d⟩; have t3 := kz.mp ⟨e, f⟩
    exact ⟨⟨⟨⟨⟨t1.1, t1.2⟩, t2.1⟩, t2.2⟩, t3.1⟩, t3.2⟩
  · rintro ⟨⟨⟨⟨⟨a, b⟩, c⟩, d⟩, e⟩, f⟩
    have t1 := kx.mpr ⟨a, b⟩; have t2 := ky.mpr ⟨c, d⟩; have t3 := kz.mpr ⟨e, f⟩
    exact ⟨⟨⟨⟨⟨t1.1, t1.2⟩, t2.1⟩, t2.2⟩, t3.1⟩, t3.2⟩

/-- non-vacuity / the point of the theorem: an atom `3/100000` below the lower face is kept by the first rung of the
    default ladder and dropped by the exact test; its image `3/100000` below the upper face the other way round. -/
example : ladderKeep (1 / 10000 : Rat) ⟨-3 / 100000, 1 / 2, 1 / 2⟩ = true ∧
    inHalfOpen (⟨-3 / 100000, 1 / 2, 1 / 2⟩ : V3 Rat) = false ∧
    ladderKeep (1 / 10000 : Rat) ⟨1 - 3 / 100000, 1 / 2, 1 / 2⟩ = false ∧
    inHalfOpen (⟨1 - 3 / 100000, 1 / 2, 1 / 2⟩ : V3 Rat) = true := by decide +kernel

/-- **one rung is the exact filter of the crystal shifted by `atol` along each axis of the new cell**: the selection of a
    rung is the selection the exact half-open test makes on relative coordinates `s + atol` — so whatever holds for the
    exact selection of a crystal (one image of every class, `rep_unique` / `reduce_rep`) holds for the rung's. -/
theorem ladderFilter_eq_shift (atol : K) (nb : Box K) (sup : List (Atom K)) (h0 : 0 ≤ atol) (h1 : 2 * atol < 1) :
    ladderFilter atol nb sup =
      sup.filter fun a => inHalfOpen ⟨(nb.cartToRel a.pos).x + atol, (nb.cartToRel a.pos).y + atol,
        (nb.cartToRel a.pos).z + atol⟩ := by
  unfold ladderFilter
  apply List.filter_congr
  intro a _
  exact ladderKeep_eq_shift atol _ h0 h1

/-- the loop: it returns the selection of the FIRST rung with the expected count. -/
theorem ladderLoop_first (want : Nat) (nb : Box K) (sup : List (Atom K)) (t : K) (ts : List K)
    (h : (ladderFilter t nb sup).length = want) :
    ladderLoop want nb sup (t :: ts) = some (ladderFilter t nb sup) := by
  simp [ladderLoop, h]

theorem ladderLoop_skip (want : Nat) (nb : Box K) (sup : List (Atom K)) (t : K) (ts : List K)
    (h : (ladderFilter t nb sup).length ≠ want) :
    ladderLoop want nb sup (t :: ts) = ladderLoop want nb sup ts := by
  simp [ladderLoop, h]

/-- whatever the loop returns has the expected count and is the selection of one of the rungs (soundness of the
    expected-count test for any ladder). -/
theorem ladderLoop_sound (want : Nat) (nb : Box K) (sup : List (Atom K)) (ts : List K) (kept : List (Atom K))
    (h : ladderLoop want nb sup ts = some kept) :
    kept.length = want ∧ ∃ t ∈ ts, kept = ladderFilter t nb sup := by
  induction ts with
  | nil => simp [ladderLoop] at h
  | cons t ts ih =>
    by_cases hc : (ladderFilter t nb sup).length = want
    · rw [ladderLoop_first want nb sup t ts hc] at h
      cases h
      exact ⟨hc, t, by simp, rfl⟩
    · rw [ladderLoop_skip want nb sup t ts hc] at h
      obtain ⟨h1, t', ht', h2⟩ := ih h
      exact ⟨h1, t', by simp [ht'], h2⟩

/-- the loop fails only if every rung miscounts. -/
theorem ladderLoop_none_iff (want : Nat) (nb : Box K) (sup : List (Atom K)) (ts : List K) :
    ladderLoop want nb sup ts = none ↔ ∀ t ∈ ts, (ladderFilter t nb sup).length ≠ want := by
  induction ts with
  | nil => simp [ladderLoop]
  | cons t ts ih =>
    by_cases hc : (ladderFilter t nb sup).length = want
    · rw [ladderLoop_first want nb sup t ts hc]; simp [hc]
    · rw [ladderLoop_skip want nb sup t ts hc, ih]; simp [hc]

end

/-! ### the matrices of the conversions -/

/-- (statement audit) non-vacuity of `ladderLoop_first` / `_skip` / `_sound` / `_none_iff`: a two-atom list in the unit cell,
    one atom `3/100000` below the far face.  Wanting 1 atom: the rung `1/10000` rounds it onto the face and keeps 1 (first rung
    wins); wanting 2 atoms: the rung `1/10000` is skipped, the rung `1/100000` keeps both; wanting 3: no rung, `none`. -/
example :
    let nb : Box ℚ := ⟨M3.one, ⟨0, 0, 0⟩⟩
    let sup : List (Atom ℚ) := [⟨1, ⟨1/2, 1/2, 1/2⟩, []⟩, ⟨2, ⟨1 - 3/100000, 1/2, 1/2⟩, [7]⟩]
    (ladderFilter (1/10000) nb sup).length = 1 ∧ (ladderFilter (1/100000) nb sup).length = 2 ∧
    ladderLoop 1 nb sup [1/10000, 1/100000] = some [⟨1, ⟨1/2, 1/2, 1/2⟩, []⟩] ∧
    ladderLoop 2 nb sup [1/10000, 1/100000] = some sup ∧
    ladderLoop 3 nb sup [1/10000, 1/100000] = none := by
  decide +kernel

/-- the settings with a table. -/
def convSettings : List String := ["p", "i", "f", "a", "b", "c", "t1", "t2"]

/-- `n` times the identity. -/
def scal (n : Int) : M3 Int := ⟨⟨n, 0, 0⟩, ⟨0, n, 0⟩, ⟨0, 0, n⟩⟩

/-- everything the tables have to satisfy for one setting (evaluated by the kernel on the eight settings). -/
def convOkB (s : String) : Bool :=
  match c2pUvws s, p2cUvws s, settingSitesInt s, p2cTable s with
  | some M, some C, some (den, sites), some (d, N) =>
    decide (M3.mul M C = scal (multip s)) && decide (M3.mul C M = scal (multip s)) &&
    decide (M3.mul N C = scal d) && decide (M3.mul C N = scal d) &&
    decide (M3.det C = sites.length) && decide (0 < M3.det C) &&
    decide (M3.det M * sites.length = ((multip s : Nat) : Int) ^ 3) &&
    decide sites.Nodup && decide (0 < den) &&
    sites.all (fun v => decide (0 ≤ v.x ∧ v.x < den ∧ 0 ≤ v.y ∧ v.y < den ∧ 0 ≤ v.z ∧ v.z < den) &&
      decide ((M3.vecMul v C).x % den = 0 ∧ (M3.vecMul v C).y % den = 0 ∧ (M3.vecMul v C).z % den = 0))
  | _, _, _, _ => false

theorem conv_tables_ok : ∀ s ∈ convSettings, convOkB s = true := by decide +kernel

/-- exactly the eight settings have a table (`'t'` itself, handed on with `check_basis=False`, has none: the model
    refuses as `miller` does with "Unknown lattice setting"). -/
theorem p2cTable_some_iff (s : String) : (p2cTable s).isSome ↔ s ∈ convSettings := by
  unfold p2cTable convSettings
  split <;> simp_all

theorem c2pUvws_t_none : c2pUvws "t" = none ∧ p2cUvws "t" = none := by decide

/-- **the two conversions use matrices that undo one another**: for every setting, the integer vectors
    `conventional_to_primitive` hands to `rotate` (`M`, the `multip`-fold primitive supercell) and those of
    `primitive_to_conventional` (`C`) satisfy `M·C = C·M = multip·1`; `det C` is the number of lattice sites the
    setting's basis test looks at, `det M · sites = multip³` (atom counts: × sites one way, × multip³ / sites the other,
    then the cut to `1/multip³`). -/
theorem conv_uvws_inverse (s : String) (hs : s ∈ convSettings) :
    ∃ M C den sites, c2pUvws s = some M ∧ p2cUvws s = some C ∧ settingSitesInt s = some (den, sites) ∧
      M3.mul M C = scal (multip s) ∧ M3.mul C M = scal (multip s) ∧
      M3.det C = sites.length ∧ 0 < M3.det C ∧ M3.det M * sites.length = ((multip s : Nat) : Int) ^ 3 := by
  have h := conv_tables_ok s hs
  unfold convOkB at h
  split at h
  · rename_i M C den sites d N h1 h2 h3 h4
    simp only [Bool.and_eq_true, decide_eq_true_eq] at h
    obtain ⟨⟨⟨⟨⟨⟨⟨⟨⟨a, b⟩, _⟩, _⟩, e⟩, f⟩, g⟩, _⟩, _⟩, _⟩ := h
    exact ⟨M, C, den, sites, h1, h2, h3, a, b, e, f, g⟩
  · exact absurd h (by simp)

/-- **the lattice sites of a setting are the primitive lattice points of the conventional cell**: each site (relative
    coordinates `v / den` of the conventional cell) has integer coordinates `v·C / den` in the primitive cell, the sites
    lie in the half-open conventional cell, are pairwise different, and there are `det C` of them — a complete set. -/
theorem sites_are_lattice_points (s : String) (hs : s ∈ convSettings) :
    ∃ C den sites, p2cUvws s = some C ∧ settingSitesInt s = some (den, sites) ∧ 0 < den ∧ sites.Nodup ∧
      (sites.length : Int) = M3.det C ∧
      ∀ v ∈ sites, (0 ≤ v.x ∧ v.x < den ∧ 0 ≤ v.y ∧ v.y < den ∧ 0 ≤ v.z ∧ v.z < den) ∧
        den ∣ (M3.vecMul v C).x ∧ den ∣ (M3.vecMul v C).y ∧ den ∣ (M3.vecMul v C).z := by
  have h := conv_tables_ok s hs
  unfold convOkB at h
  split at h
  · rename_i M C den sites d N h1 h2 h3 h4
    simp only [Bool.and_eq_true, decide_eq_true_eq, List.all_eq_true] at h
    obtain ⟨⟨⟨⟨⟨⟨⟨⟨⟨_, _⟩, _⟩, _⟩, e⟩, _⟩, _⟩, nd⟩, dp⟩, al⟩ := h
    refine ⟨C, den, sites, h2, h3, dp, nd, e.symm, ?_⟩
    intro v hv
    obtain ⟨r, m⟩ := al v hv
    exact ⟨r, Int.dvd_of_emod_eq_zero m.1, Int.dvd_of_emod_eq_zero m.2.1, Int.dvd_of_emod_eq_zero m.2.2⟩
  · exact absurd h (by simp)

section
variable {K : Type} [Field K] [LinearOrder K] [IsStrictOrderedRing K]

/-- re-expressing twice is re-expressing along the product. -/
theorem newVects_mul (A B : M3 Int) (V : M3 K) : newVects A (newVects B V) = newVects (M3.mul A B) V := by
  obtain ⟨⟨a0, a1, a2⟩, ⟨a3, a4, a5⟩, ⟨a6, a7, a8⟩⟩ := A
  obtain ⟨⟨b0, b1, b2⟩, ⟨b3, b4, b5⟩, ⟨b6, b7, b8⟩⟩ := B
  obtain ⟨⟨v0, v1, v2⟩, ⟨v3, v4, v5⟩, ⟨v6, v7, v8⟩⟩ := V
  simp only [newVects, M3.mul, M3.vecMul, V3.map, M3.mk.injEq, V3.mk.injEq]
  push_cast
  refine ⟨⟨?_, ?_, ?_⟩, ⟨?_, ?_, ?_⟩, ⟨?_, ?_, ?_⟩⟩ <;> ring

/-- the cell scaled by `c`. -/
def scaleCell (c : K) (V : M3 K) : M3 K := ⟨V3.smul c V.r0, V3.smul c V.r1, V3.smul c V.r2⟩

theorem newVects_scal (n : Int) (V : M3 K) : newVects (scal n) V = scaleCell (n : K) V := by
  obtain ⟨⟨v0, v1, v2⟩, ⟨v3, v4, v5⟩, ⟨v6, v7, v8⟩⟩ := V
  simp only [newVects, scal, scaleCell, M3.mul, M3.vecMul, V3.map, V3.smul, M3.mk.injEq, V3.mk.injEq]
  push_cast
  refine ⟨⟨?_, ?_, ?_⟩, ⟨?_, ?_, ?_⟩, ⟨?_, ?_, ?_⟩⟩ <;> ring

theorem newVects_scaleCell (A : M3 Int) (c : K) (V : M3 K) : newVects A (scaleCell c V) = scaleCell c (newVects A V) := by
  obtain ⟨⟨a0, a1, a2⟩, ⟨a3, a4, a5⟩, ⟨a6, a7, a8⟩⟩ := A
  obtain ⟨⟨v0, v1, v2⟩, ⟨v3, v4, v5⟩, ⟨v6, v7, v8⟩⟩ := V
  simp only [newVects, scaleCell, M3.mul, M3.vecMul, V3.map, V3.smul, M3.mk.injEq, V3.mk.injEq]
  refine ⟨⟨?_, ?_, ?_⟩, ⟨?_, ?_, ?_⟩, ⟨?_, ?_, ?_⟩⟩ <;> ring

theorem scaleCell_scaleCell (c d : K) (V : M3 K) (h : c * d = 1) : scaleCell c (scaleCell d V) = V := by
  obtain ⟨⟨v0, v1, v2⟩, ⟨v3, v4, v5⟩, ⟨v6, v7, v8⟩⟩ := V
  simp only [scaleCell, V3.smul, M3.mk.injEq, V3.mk.injEq]
  refine ⟨⟨?_, ?_, ?_⟩, ⟨?_, ?_, ?_⟩, ⟨?_, ?_, ?_⟩⟩ <;> rw [← mul_assoc, h, one_mul]

theorem multip_pos (s : String) : 0 < multip s := by
  unfold multip; split <;> norm_num

/-- **"conversions … undo one another", the cell vectors** (before `normalize`, which only turns the frame — C05):
    * primitive → conventional → primitive: the supercell `conventional_to_primitive` builds from the conventional cell
      `C·V` is `multip·V`, so the cell `Box(vects / multip)` it cuts out is the primitive cell `V` it started from;
    * conventional → primitive → conventional: `primitive_to_conventional` of the cut cell `(M·V) / multip` is `V`. -/
theorem conversions_undo_cell (s : String) (hs : s ∈ convSettings) (V : M3 K) :
    ∃ M C, c2pUvws s = some M ∧ p2cUvws s = some C ∧
      scaleCell (1 / (multip s : K)) (newVects M (newVects C V)) = V ∧
      newVects C (scaleCell (1 / (multip s : K)) (newVects M V)) = V := by
  obtain ⟨M, C, den, sites, h1, h2, _, hMC, hCM, _⟩ := conv_uvws_inverse s hs
  have hm : ((multip s : Nat) : K) ≠ 0 := by
    have := multip_pos s
    exact_mod_cast (Nat.pos_iff_ne_zero.mp this)
  have hinv : (1 / (multip s : K)) * (((multip s : Nat) : Int) : K) = 1 := by
    push_cast; field_simp
  refine ⟨M, C, h1, h2, ?_, ?_⟩
  · rw [newVects_mul, hMC, newVects_scal]
    exact scaleCell_scaleCell _ _ V hinv
  · rw [newVects_scaleCell, newVects_mul, hCM, newVects_scal]
    exact scaleCell_scaleCell _ _ V hinv

/-- volumes: the conventional cell is `sites` primitive cells (with `newVects_det`). -/
example : c2pUvws "f" = some ⟨⟨1, 1, 0⟩, ⟨0, 1, 1⟩, ⟨1, 0, 1⟩⟩ ∧ p2cUvws "f" = some ⟨⟨1, -1, 1⟩, ⟨1, 1, -1⟩, ⟨-1, 1, 1⟩⟩ ∧
    c2pUvws "t2" = some ⟨⟨-2, -1, 1⟩, ⟨1, -1, 1⟩, ⟨1, 2, 1⟩⟩ := by decide

end

end Atomman.C04
