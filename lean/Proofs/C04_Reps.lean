/-
  C04 — "each original atom is represented equally often" at the level of the infinite crystal:
  for an integer matrix `U` with `det U ≠ 0` the half-open cell of the sublattice `ℤ³·U` contains,
  for every offset `s`, one representative of every coset of `ℤ³ / ℤ³·U`; the representatives
  for two offsets `s`, `s'` are in explicit bijection (by translations of the new lattice).
-/
import Proofs.C04_Lemmas
import Mathlib.Algebra.Order.Floor.Ring
import Mathlib.Algebra.Order.Floor.Defs
import Mathlib.Tactic.Ring
import Mathlib.Tactic.Linarith
import Mathlib.Data.Int.Cast.Lemmas
import Mathlib.Algebra.Order.Ring.Cast

namespace Atomman.C04
open Atomman
set_option linter.unusedSectionVars false

theorem V3.sub_x' {α : Type} [Sub α] (a b : V3 α) : (a - b).x = a.x - b.x := rfl
theorem V3.sub_y' {α : Type} [Sub α] (a b : V3 α) : (a - b).y = a.y - b.y := rfl
theorem V3.sub_z' {α : Type} [Sub α] (a b : V3 α) : (a - b).z = a.z - b.z := rfl
theorem V3.add_x' {α : Type} [Add α] (a b : V3 α) : (a + b).x = a.x + b.x := rfl
theorem V3.add_y' {α : Type} [Add α] (a b : V3 α) : (a + b).y = a.y + b.y := rfl
theorem V3.add_z' {α : Type} [Add α] (a b : V3 α) : (a + b).z = a.z + b.z := rfl

variable {K : Type} [Field K] [LinearOrder K] [IsStrictOrderedRing K] [FloorRing K]

/-- cast of an integer vector / matrix. -/
def castV (n : V3 Int) : V3 K := ⟨(n.x : K), (n.y : K), (n.z : K)⟩
def castM (U : M3 Int) : M3 K := ⟨castV U.r0, castV U.r1, castV U.r2⟩

/-- relative coordinates, in the new cell, of the point with old relative coordinates `x`. -/
def newRel (U : M3 Int) (x : V3 K) : V3 K := M3.vecMul x (M3.inv (castM U : M3 K))

def InCell (t : V3 K) : Prop := 0 ≤ t.x ∧ t.x < 1 ∧ 0 ≤ t.y ∧ t.y < 1 ∧ 0 ≤ t.z ∧ t.z < 1

/-- inside the cell, faces on both sides included (`0 ≤ s ≤ 1`): where an atom of the *input* may be stored (an atom
    on a face may be listed on the far face, relative coordinate 1). -/
def InBox (t : V3 K) : Prop := 0 ≤ t.x ∧ t.x ≤ 1 ∧ 0 ≤ t.y ∧ t.y ≤ 1 ∧ 0 ≤ t.z ∧ t.z ≤ 1

theorem InCell.inBox {t : V3 K} (h : InCell t) : InBox t :=
  ⟨h.1, le_of_lt h.2.1, h.2.2.1, le_of_lt h.2.2.2.1, h.2.2.2.2.1, le_of_lt h.2.2.2.2.2⟩

/-- `n` is the lattice shift of an image, of the atom with relative coordinates `s`, that lies in the new cell. -/
def Rep (U : M3 Int) (s : V3 K) (n : V3 Int) : Prop := InCell (newRel U (s + castV n))

/-- integer row vector times integer matrix. -/
def mulU (m : V3 Int) (U : M3 Int) : V3 Int := M3.vecMul m U

/-- move `n` by the new-lattice vector that brings the image of the atom at `s` into the new cell. -/
noncomputable def reduce (U : M3 Int) (s : V3 K) (n : V3 Int) : V3 Int :=
  let t := newRel U (s + castV n)
  n - mulU ⟨⌊t.x⌋, ⌊t.y⌋, ⌊t.z⌋⟩ U

theorem castM_det (U : M3 Int) : M3.det (castM U : M3 K) = ((M3.det U : Int) : K) := by
  obtain ⟨⟨a, b, c⟩, ⟨d, e, f⟩, ⟨g, h, i⟩⟩ := U
  simp only [castM, castV, M3.det, V3.dot, V3.cross]; push_cast; ring

theorem castM_det_ne (U : M3 Int) (h : M3.det U ≠ 0) : M3.det (castM U : M3 K) ≠ 0 := by
  rw [castM_det]; exact_mod_cast h

theorem castV_mulU (m : V3 Int) (U : M3 Int) : (castV (mulU m U) : V3 K) = M3.vecMul (castV m) (castM U) := by
  ext <;> simp only [castV, mulU, castM, M3.vecMul] <;> push_cast <;> ring

theorem newRel_add (U : M3 Int) (x y : V3 K) : newRel U (x + y) = newRel U x + newRel U y := by
  ext <;> simp only [newRel, M3.vecMul, V3.add_def] <;> ring

theorem newRel_sub (U : M3 Int) (x y : V3 K) : newRel U (x - y) = newRel U x - newRel U y := by
  ext <;> simp only [newRel, M3.vecMul, V3.sub_def] <;> ring

theorem newRel_mulU (U : M3 Int) (h : M3.det U ≠ 0) (m : V3 Int) :
    newRel U (castV (mulU m U) : V3 K) = castV m := by
  rw [castV_mulU, newRel, vecMul_inv_cancel _ (castM_det_ne U h)]

theorem castV_sub (a b : V3 Int) : (castV (a - b) : V3 K) = castV a - castV b := by
  ext <;> simp only [castV, V3.sub_x', V3.sub_y', V3.sub_z'] <;> push_cast <;> ring

/-- reducing lands in the cell … -/
theorem reduce_rep (U : M3 Int) (h : M3.det U ≠ 0) (s : V3 K) (n : V3 Int) : Rep U s (reduce U s n) := by
  unfold Rep reduce
  set t := newRel U (s + castV n) with ht
  have e : newRel U (s + castV (n - mulU ⟨⌊t.x⌋, ⌊t.y⌋, ⌊t.z⌋⟩ U))
      = t - castV ⟨⌊t.x⌋, ⌊t.y⌋, ⌊t.z⌋⟩ := by
    rw [castV_sub]
    have : s + (castV n - castV (mulU ⟨⌊t.x⌋, ⌊t.y⌋, ⌊t.z⌋⟩ U)) = (s + castV n) - castV (mulU ⟨⌊t.x⌋, ⌊t.y⌋, ⌊t.z⌋⟩ U) := by
      ext <;> simp only [V3.add_def, V3.sub_def] <;> ring
    rw [this, newRel_sub, newRel_mulU U h]
  rw [e]
  simp only [InCell, V3.sub_def, castV]
  refine ⟨?_, ?_, ?_, ?_, ?_, ?_⟩
  · linarith [Int.floor_le t.x]
  · linarith [Int.lt_floor_add_one t.x]
  · linarith [Int.floor_le t.y]
  · linarith [Int.lt_floor_add_one t.y]
  · linarith [Int.floor_le t.z]
  · linarith [Int.lt_floor_add_one t.z]

/-- … by a vector of the new lattice. -/
theorem reduce_congr (U : M3 Int) (s : V3 K) (n : V3 Int) : ∃ m : V3 Int, reduce U s n = n - mulU m U :=
  ⟨_, rfl⟩

/-- two representatives (same offset) that differ by a new-lattice vector are equal. -/
theorem rep_unique (U : M3 Int) (h : M3.det U ≠ 0) (s : V3 K) (n n' m : V3 Int)
    (hn : Rep U s n) (hn' : Rep U s n') (hd : n = n' - mulU m U) : n = n' := by
  have e : newRel U (s + castV n) = newRel U (s + castV n') - castV m := by
    rw [hd, castV_sub]
    have : s + (castV n' - castV (mulU m U)) = (s + castV n') - castV (mulU m U) := by
      ext <;> simp only [V3.add_def, V3.sub_def] <;> ring
    rw [this, newRel_sub, newRel_mulU U h]
  unfold Rep at hn hn'
  rw [e] at hn
  simp only [InCell, V3.sub_def, castV] at hn hn'
  obtain ⟨a1, a2, a3, a4, a5, a6⟩ := hn
  obtain ⟨b1, b2, b3, b4, b5, b6⟩ := hn'
  have zx : m.x = 0 := by
    have h1 : (-1 : K) < (m.x : K) := by linarith
    have h2 : (m.x : K) < 1 := by linarith
    have h1' : (-1 : Int) < m.x := by exact_mod_cast h1
    have h2' : m.x < (1 : Int) := by exact_mod_cast h2
    omega
  have zy : m.y = 0 := by
    have h1 : (-1 : K) < (m.y : K) := by linarith
    have h2 : (m.y : K) < 1 := by linarith
    have h1' : (-1 : Int) < m.y := by exact_mod_cast h1
    have h2' : m.y < (1 : Int) := by exact_mod_cast h2
    omega
  have zz : m.z = 0 := by
    have h1 : (-1 : K) < (m.z : K) := by linarith
    have h2 : (m.z : K) < 1 := by linarith
    have h1' : (-1 : Int) < m.z := by exact_mod_cast h1
    have h2' : m.z < (1 : Int) := by exact_mod_cast h2
    omega
  rw [hd]
  have : mulU m U = ⟨0, 0, 0⟩ := by
    obtain ⟨mx, my, mz⟩ := m
    simp only at zx zy zz
    subst zx zy zz
    ext <;> simp [mulU, M3.vecMul]
  rw [this]
  ext <;> simp only [V3.sub_x', V3.sub_y', V3.sub_z'] <;> omega

/-- **Equal representation.**  For any two offsets `s`, `s'` (two original atoms) the lattice shifts whose
    images lie in the new cell are in bijection: `reduce U s'` maps the representatives of `s` onto those
    of `s'`, with inverse `reduce U s`.  Hence every original atom has the same number of images in the
    re-oriented cell (the index of the sublattice `ℤ³·U`). -/
theorem rotate_equal_representation (U : M3 Int) (h : M3.det U ≠ 0) (s s' : V3 K) :
    (∀ n, Rep U s n → Rep U s' (reduce U s' n) ∧ reduce U s (reduce U s' n) = n) ∧
    (∀ n, Rep U s' n → Rep U s (reduce U s n) ∧ reduce U s' (reduce U s n) = n) := by
  have key : ∀ (a b : V3 K) (n : V3 Int), Rep U a n → Rep U b (reduce U b n) ∧ reduce U a (reduce U b n) = n := by
    intro a b n hn
    refine ⟨reduce_rep U h b n, ?_⟩
    obtain ⟨m1, e1⟩ := reduce_congr U b n
    obtain ⟨m2, e2⟩ := reduce_congr U a (reduce U b n)
    apply rep_unique U h a _ n (m1 + m2) (reduce_rep U h a _) hn
    rw [e2, e1]
    ext <;> simp only [mulU, M3.vecMul, V3.sub_x', V3.sub_y', V3.sub_z', V3.add_x', V3.add_y', V3.add_z'] <;> ring
  exact ⟨fun n hn => key s s' n hn, fun n hn => key s' s n hn⟩

/-- non-vacuity: representatives exist for every offset (reduce any shift). -/
theorem rep_exists (U : M3 Int) (h : M3.det U ≠ 0) (s : V3 K) : ∃ n, Rep U s n :=
  ⟨_, reduce_rep U h s ⟨0, 0, 0⟩⟩

end Atomman.C04
