/-
  C07 — helper lemmas (file level): the independent POSCAR reader applied to what `poscar.dump` writes.
-/
import Proofs.C07_Files

namespace Atomman.C07
open Atomman
set_option linter.unusedSimpArgs false
set_option linter.unusedVariables false

/-! ### counting atoms per type -/

theorem countType_cons (a : Int) (as : List Int) (t : Int) :
    countType (a :: as) t = (if a = t then 1 else 0) + countType as t := by
  unfold countType
  rw [List.filter_cons]
  by_cases h : a = t <;> simp [h, Nat.add_comm]

theorem sum_indicator (a : Int) (n : Nat) :
    ((List.range n).map fun (i : Nat) => if a = (i : Int) + 1 then 1 else 0).sum = if 1 ≤ a ∧ a ≤ n then 1 else 0 := by
  induction n with
  | zero => simp; omega
  | succ n ih =>
    rw [List.range_succ, List.map_append, List.sum_append, ih]
    simp only [List.map_cons, List.map_nil, List.sum_cons, List.sum_nil, Nat.add_zero]
    by_cases h1 : 1 ≤ a ∧ a ≤ (n : Int)
    · have : ¬ a = (n : Int) + 1 := by omega
      have h2 : 1 ≤ a ∧ a ≤ ((n + 1 : Nat) : Int) := by push_cast; omega
      rw [if_pos h1, if_neg this, if_pos h2]
    · by_cases h3 : a = (n : Int) + 1
      · have h2 : 1 ≤ a ∧ a ≤ ((n + 1 : Nat) : Int) := by push_cast; omega
        rw [if_neg h1, if_pos h3, if_pos h2]
      · have h2 : ¬ (1 ≤ a ∧ a ≤ ((n + 1 : Nat) : Int)) := by push_cast; omega
        rw [if_neg h1, if_neg h3, if_neg h2]

/-- every atom has a type in `1..n` ⇒ the per-type counts add up to the number of atoms. -/
theorem sum_counts (atype : List Int) (n : Nat) (h : ∀ t ∈ atype, 1 ≤ t ∧ t ≤ (n : Int)) :
    ((List.range n).map fun (i : Nat) => countType atype ((i : Int) + 1)).sum = atype.length := by
  induction atype with
  | nil => simp [countType]
  | cons a as ih =>
    have e : (fun (i : Nat) => countType (a :: as) ((i : Int) + 1))
        = fun (i : Nat) => (if a = (i : Int) + 1 then 1 else 0) + countType as ((i : Int) + 1) := by
      funext i; exact countType_cons a as _
    rw [e, List.sum_map_add, sum_indicator, ih (fun t ht => h t (List.mem_cons_of_mem _ ht))]
    have := h a (by simp)
    simp [this]; omega

theorem foldl_add_eq_sum (l : List Nat) (a : Nat) : l.foldl (· + ·) a = a + l.sum := by
  induction l generalizing a with
  | nil => simp
  | cons x xs ih => simp [ih]; omega

theorem length_group {α : Type} (atype : List Int) (xs : List α) (hl : atype.length = xs.length) (t : Int) :
    (((List.zip atype xs).filter (fun e => decide (e.1 = t))).map (·.2)).length = countType atype t := by
  induction atype generalizing xs with
  | nil => simp [countType]
  | cons a as ih =>
    cases xs with
    | nil => simp at hl
    | cons x xs =>
      simp only [List.length_cons, Nat.add_right_cancel_iff] at hl
      rw [countType_cons, List.zip_cons_cons, List.filter_cons]
      by_cases h : a = t
      · simp only [h, decide_true, if_true, List.map_cons, List.length_cons, ih xs hl]; omega
      · simp only [h, decide_false, Bool.false_eq_true, if_false, ih xs hl]; omega

theorem length_groupByType {α : Type} (atype : List Int) (xs : List α) (hl : atype.length = xs.length) (n : Nat) :
    (groupByType atype xs n).length = ((List.range n).map fun (i : Nat) => countType atype ((i : Int) + 1)).sum := by
  unfold groupByType
  rw [List.length_flatten, List.map_map]
  congr 1
  apply List.map_congr_left
  intro i _
  exact length_group atype xs hl _

theorem le_foldl_max (l : List Int) (a : Int) : a ≤ l.foldl (fun a b => if a < b then b else a) a ∧
    ∀ t ∈ l, t ≤ l.foldl (fun a b => if a < b then b else a) a := by
  induction l generalizing a with
  | nil => simp
  | cons x xs ih =>
    simp only [List.foldl_cons, List.mem_cons, forall_eq_or_imp]
    obtain ⟨h1, h2⟩ := ih (if a < x then x else a)
    have h3 : a ≤ (if a < x then x else a) ∧ x ≤ (if a < x then x else a) := by split <;> omega
    exact ⟨le_trans h3.1 h1, le_trans h3.2 h1, h2⟩

theorem le_maxType (l : List Int) : 0 ≤ maxType l ∧ ∀ t ∈ l, t ≤ maxType l := le_foldl_max l 0

/-! ### POSCAR -/

def isCartTok (t : Tok) : Bool :=
  match t with
  | c :: _ => c = 'c' || c = 'C' || c = 'k' || c = 'K'
  | [] => false

def symDoc (symbols : Option (List String)) : Doc :=
  match symbols with
  | some l => [l.map strTok]
  | none => []

/-- the text layout of a POSCAR file. -/
def poscarDoc (f : Fmt) (header : List String) (symbols : Option (List String)) (coordstyle : String) (scale : ℚ)
    (p : PoscarNums) : Doc :=
  [header.map strTok, [fmtNum f scale], v3line f p.lattice.r0, v3line f p.lattice.r1, v3line f p.lattice.r2]
    ++ symDoc symbols ++ [p.counts.map natTok ++ [[]], [strTok coordstyle]] ++ p.coords.map (v3line f)

theorem writePoscarDoc_ok (s : Sys) (header : List String) (symbols : Option (List String)) (coordstyle : String)
    (scale : ℚ) (f : Fmt) (doc : Doc) (h : writePoscarDoc s header symbols coordstyle scale f = .ok doc) :
    0 < scale ∧ s.natoms ≠ 0 ∧ coordstyle.toList ≠ [] ∧ (∀ l, symbols = some l → l.length = s.natypes) ∧
    doc = poscarDoc f header symbols coordstyle scale (poscarNums s (isCartTok (strTok coordstyle)) scale) := by
  unfold writePoscarDoc at h
  cases hcs : coordstyle.toList with
  | nil =>
    simp only [hcs, bind, Except.bind, pure, Except.pure, throw, throwThe, MonadExceptOf.throw] at h
    split at h
    · cases h
    · split at h
      · cases h
      · simp only [if_true, reduceCtorEq] at h
  | cons c cs =>
    have hct : isCartTok (strTok coordstyle) = (c = 'c' || c = 'C' || c = 'k' || c = 'K') := by
      simp only [isCartTok, strTok, hcs]
    rw [hct]
    cases symbols with
    | none =>
      simp only [hcs, bind, Except.bind, pure, Except.pure, throw, throwThe, MonadExceptOf.throw] at h
      split at h
      · cases h
      · rename_i hsc
        split at h
        · cases h
        · rename_i hna
          simp only [List.cons_ne_nil, if_false, reduceCtorEq, Except.ok.injEq] at h
          exact ⟨lt_of_not_ge hsc, hna, by simp, by simp, h.symm⟩
    | some l =>
      simp only [hcs, bind, Except.bind, pure, Except.pure, throw, throwThe, MonadExceptOf.throw] at h
      split at h
      · cases h
      · rename_i hsc
        split at h
        · cases h
        · rename_i hna
          simp only [List.cons_ne_nil, if_false, reduceCtorEq] at h
          split at h
          · cases h
          · rename_i hl
            simp only [Except.ok.injEq] at h
            refine ⟨lt_of_not_ge hsc, hna, by simp, ?_, h.symm⟩
            intro l' hl'; injection hl' with hl'; subst hl'
            simpa using hl

theorem line3_v3line (f : Fmt) (v : V3 ℚ) : line3 (v3line f v) = some (v3map (fmtVal f) v) := by
  simp [line3, v3line, parseNum_fmtNum, v3map]

theorem okTok_v3line (f : Fmt) (v : V3 ℚ) : ∀ t ∈ v3line f v, okTok t := by
  intro t ht
  simp only [v3line, List.mem_cons, List.not_mem_nil, or_false] at ht
  rcases ht with rfl | rfl | rfl <;> exact okTok_fmtNum _ _

theorem lex_counts (counts : List Nat) : lexLine (joinSp (counts.map natTok ++ [[]])) = counts.map natTok := by
  rw [lexLine_joinSp]
  · rw [List.filter_append]
    have : (counts.map natTok).filter (· ≠ []) = counts.map natTok := by
      apply List.filter_eq_self.mpr
      intro t ht
      obtain ⟨c, _, rfl⟩ := List.mem_map.mp ht
      simpa using natTok_ne_nil c
    rw [this]; simp
  · intro t ht
    rcases List.mem_append.mp ht with ht | ht
    · obtain ⟨c, _, rfl⟩ := List.mem_map.mp ht
      exact okChars_natTok c
    · simp at ht; subst ht; exact okChars_nil

theorem mapM_parseNat_counts (counts : List Nat) : (counts.map natTok).mapM parseNat? = some counts := by
  rw [List.mapM_map]
  have := mapM_option_of_forall (parseNat? ∘ natTok) id counts (fun c _ => parseNat_natTok c)
  simpa using this

theorem mapM_line3 (f : Fmt) (coords : List (V3 ℚ)) :
    (coords.map (v3line f)).mapM line3 = some (coords.map (v3map (fmtVal f))) := by
  rw [List.mapM_map]
  exact mapM_option_of_forall _ _ coords (fun v _ => line3_v3line f v)

/-- hypotheses on the strings handed to the POSCAR writer. -/
structure PoscarStringsOk (header : List String) (symbols : Option (List String)) (coordstyle : String) : Prop where
  header : ∀ w ∈ header, '\n' ∉ w.toList
  style : okTok (strTok coordstyle)
  /-- a line starting with `S`/`s` at this place is VASP's "Selective dynamics" switch -/
  notSelective : ∀ c r, coordstyle.toList = c :: r → c ≠ 'S' ∧ c ≠ 's'
  symbols : ∀ l, symbols = some l → (∀ w ∈ l, okTok (strTok w)) ∧ ∃ w r, l = w :: r ∧ parseNat? (strTok w) = none

/-- the result an independent POSCAR reader must produce. -/
def poscarExpected (f : Fmt) (header : List String) (symbols : Option (List String)) (coordstyle : String)
    (scale : ℚ) (p : PoscarNums) : ParsedPoscar :=
  let sc := fmtVal f scale
  let lat : M3 ℚ := ⟨V3.smul sc (v3map (fmtVal f) p.lattice.r0), V3.smul sc (v3map (fmtVal f) p.lattice.r1),
    V3.smul sc (v3map (fmtVal f) p.lattice.r2)⟩
  let cart := isCartTok (strTok coordstyle)
  let raw := p.coords.map (v3map (fmtVal f))
  { comment := joinSp (header.map strTok), scale := sc, lattice := lat,
    symbols := symbols.map (·.map strTok), counts := p.counts, cartesian := cart, raw := raw,
    pos := raw.map fun v => if cart then V3.smul sc v else M3.vecMul v lat }

theorem splitLines_poscarDoc (f : Fmt) (header : List String) (symbols : Option (List String)) (coordstyle : String)
    (scale : ℚ) (p : PoscarNums) (hs : PoscarStringsOk header symbols coordstyle) :
    splitLines (renderJoin (poscarDoc f header symbols coordstyle scale p))
      = (poscarDoc f header symbols coordstyle scale p).map joinSp := by
  have hcsne : joinSp [strTok coordstyle] ≠ [] := hs.style.1
  apply splitLines_renderJoin
  · intro l hl
    apply newline_not_mem_joinSp
    intro t ht c hc
    have hok : ∀ t' : Tok, okChars t' → ∀ c ∈ t', c ≠ '\n' := fun t' h c hc => (h c hc).2.1
    simp only [poscarDoc, List.cons_append, List.nil_append, List.mem_cons, List.mem_append, List.append_assoc] at hl
    rcases hl with rfl | rfl | rfl | rfl | rfl | hl | rfl | rfl | hl
    · obtain ⟨w, hw, rfl⟩ := List.mem_map.mp ht
      intro e; subst e; exact hs.header w hw hc
    · simp at ht; subst ht; exact hok _ (okTok_fmtNum _ _).2 c hc
    · exact hok _ (okTok_v3line f _ t ht).2 c hc
    · exact hok _ (okTok_v3line f _ t ht).2 c hc
    · exact hok _ (okTok_v3line f _ t ht).2 c hc
    · cases symbols with
      | none => simp [symDoc] at hl
      | some sy =>
        simp only [symDoc, List.mem_cons, List.not_mem_nil, or_false] at hl
        subst hl
        obtain ⟨w, hw, rfl⟩ := List.mem_map.mp ht
        exact hok _ ((hs.symbols sy rfl).1 w hw).2 c hc
    · rcases List.mem_append.mp ht with ht | ht
      · obtain ⟨k, _, rfl⟩ := List.mem_map.mp ht
        exact hok _ (okChars_natTok k) c hc
      · simp at ht; subst ht; simp at hc
    · simp at ht; subst ht; exact hok _ hs.style.2 c hc
    · obtain ⟨v, _, rfl⟩ := List.mem_map.mp hl
      exact hok _ (okTok_v3line f _ t ht).2 c hc
  · intro l hl
    have : l = [strTok coordstyle] ∨ ∃ v, l = v3line f v := by
      simp only [poscarDoc] at hl
      by_cases hc : p.coords = []
      · left
        rw [hc, List.map_nil, List.append_nil, List.getLast?_append_of_ne_nil _ (by simp)] at hl
        simpa using hl.symm
      · right
        rw [List.getLast?_append_of_ne_nil _ (by simpa using hc)] at hl
        have := List.mem_of_getLast? hl
        obtain ⟨v, _, rfl⟩ := List.mem_map.mp this
        exact ⟨v, rfl⟩
    rcases this with rfl | ⟨v, rfl⟩
    · exact hcsne
    · simp only [v3line, joinSp]
      intro e
      have := (okTok_fmtNum f v.x).1
      simp only [List.append_eq_nil_iff] at e
      exact this e.1

theorem lex_coords (f : Fmt) (coords : List (V3 ℚ)) :
    coords.map (lexLine ∘ joinSp ∘ v3line f) = coords.map (v3line f) := by
  apply List.map_congr_left
  intro v _
  exact lexLine_joinSp_ok _ (okTok_v3line f v)

theorem parsePoscar_poscarDoc (f : Fmt) (header : List String) (symbols : Option (List String)) (coordstyle : String)
    (scale : ℚ) (p : PoscarNums) (hs : PoscarStringsOk header symbols coordstyle)
    (hcounts : p.counts ≠ []) (hn : p.counts.foldl (· + ·) 0 = p.coords.length) (hscale : 0 < fmtVal f scale) :
    parsePoscar (renderJoin (poscarDoc f header symbols coordstyle scale p))
      = some (poscarExpected f header symbols coordstyle scale p) := by
  unfold parsePoscar
  rw [splitLines_poscarDoc f header symbols coordstyle scale p hs]
  have h1 : ∀ q, lexLine (joinSp [fmtNum f q]) = [fmtNum f q] := fun q =>
    lexLine_joinSp_ok _ (by intro t ht; simp at ht; subst ht; exact okTok_fmtNum f q)
  have h3 : ∀ v, lexLine (joinSp (v3line f v)) = v3line f v := fun v => lexLine_joinSp_ok _ (okTok_v3line f v)
  have hcs : lexLine (joinSp [strTok coordstyle]) = [strTok coordstyle] :=
    lexLine_joinSp_ok _ (by intro t ht; simp at ht; subst ht; exact hs.style)
  have htake : (p.coords.map (v3line f)).take p.coords.length = p.coords.map (v3line f) := by
    apply List.take_of_length_le; simp
  have hsle : ¬ fmtVal f scale ≤ 0 := not_le.mpr hscale
  obtain ⟨c0, cr, hc0⟩ : ∃ c r, coordstyle.toList = c :: r := by
    have := hs.style.1
    cases h : coordstyle.toList with
    | nil => exact absurd h this
    | cons c r => exact ⟨c, r, rfl⟩
  obtain ⟨hS, hs'⟩ := hs.notSelective c0 cr hc0
  cases symbols with
  | none =>
    obtain ⟨k0, kr, hk⟩ : ∃ k r, p.counts = k :: r := by
      cases h : p.counts with
      | nil => exact absurd h hcounts
      | cons k r => exact ⟨k, r, rfl⟩
    simp only [poscarDoc, symDoc, List.cons_append, List.nil_append, List.map_cons, List.map_append, List.map_map,
      h1, h3, hcs, lex_counts, lex_coords, List.append_nil]
    have hst : strTok coordstyle = c0 :: cr := hc0
    simp only [parseNum_fmtNum, line3_v3line, hk, List.map_cons, parseNat_natTok, Option.isNone_some,
      Bool.false_eq_true, if_false, hsle, Option.bind_eq_bind, Option.bind_some, bind, pure]
    have hmc := mapM_parseNat_counts (k0 :: kr)
    simp only [List.map_cons] at hmc
    rw [hmc]
    simp only [Option.bind_some, ← hk, hn, hcounts, if_false]
    split
    · rename_i mode body hm
      split at hm
      · rename_i heq
        simp only [hst, List.cons.injEq] at heq
        exact absurd heq.1.1.1 hS
      · rename_i heq
        simp only [hst, List.cons.injEq] at heq
        exact absurd heq.1.1.1 hs'
      · simp only [List.cons.injEq] at hm
        obtain ⟨rfl, rfl⟩ := hm
        simp only [htake, List.length_map, ne_eq, not_true_eq_false, if_false, mapM_line3, Option.bind_some, hst]
        simp only [poscarExpected, Option.map_none, isCartTok, hst]
    · rename_i hm
      split at hm
      · rename_i heq
        simp only [hst, List.cons.injEq] at heq
        exact absurd heq.1.1.1 hS
      · rename_i heq
        simp only [hst, List.cons.injEq] at heq
        exact absurd heq.1.1.1 hs'
      · cases hm
  | some sy =>
    obtain ⟨k0, kr, hk⟩ : ∃ k r, p.counts = k :: r := by
      cases h : p.counts with
      | nil => exact absurd h hcounts
      | cons k r => exact ⟨k, r, rfl⟩
    obtain ⟨hsyok, w, wr, rfl, hw⟩ := hs.symbols sy rfl
    have hsy : lexLine (joinSp ((w :: wr).map strTok)) = (w :: wr).map strTok :=
      lexLine_joinSp_ok _ (by intro t ht; obtain ⟨x, hx, rfl⟩ := List.mem_map.mp ht; exact hsyok x hx)
    simp only [poscarDoc, symDoc, List.cons_append, List.nil_append, List.map_cons, List.map_append, List.map_map,
      h1, h3, hcs, lex_counts, lex_coords, List.append_nil] at hsy ⊢
    simp only [hsy]
    have hst : strTok coordstyle = c0 :: cr := hc0
    simp only [parseNum_fmtNum, line3_v3line, hk, List.map_cons, hw, Option.isNone_none,
      if_true, hsle, if_false, Option.bind_eq_bind, Option.bind_some, bind, pure]
    have hmc := mapM_parseNat_counts (k0 :: kr)
    simp only [List.map_cons] at hmc
    rw [hmc]
    simp only [Option.bind_some, ← hk, hn, hcounts, if_false]
    split
    · rename_i mode body hm
      split at hm
      · rename_i heq
        simp only [hst, List.cons.injEq] at heq
        exact absurd heq.1.1.1 hS
      · rename_i heq
        simp only [hst, List.cons.injEq] at heq
        exact absurd heq.1.1.1 hs'
      · simp only [List.cons.injEq] at hm
        obtain ⟨rfl, rfl⟩ := hm
        simp only [htake, List.length_map, ne_eq, not_true_eq_false, if_false, mapM_line3, Option.bind_some, hst]
        simp only [poscarExpected, Option.map_some, isCartTok, hst, List.map_cons]
    · rename_i hm
      split at hm
      · rename_i heq
        simp only [hst, List.cons.injEq] at heq
        exact absurd heq.1.1.1 hS
      · rename_i heq
        simp only [hst, List.cons.injEq] at heq
        exact absurd heq.1.1.1 hs'
      · cases hm

theorem poscarNums_counts (s : Sys) (cart : Bool) (scale : ℚ) (hna : s.natoms ≠ 0)
    (hlen : s.atype.length = s.pos.length) (hty : ∀ t ∈ s.atype, 1 ≤ t ∧ t ≤ (s.natypes : Int)) :
    (poscarNums s cart scale).counts ≠ [] ∧
    (poscarNums s cart scale).counts.foldl (· + ·) 0 = (poscarNums s cart scale).coords.length ∧
    (poscarNums s cart scale).coords.length = s.natoms := by
  have hne : s.atype ≠ [] := by
    intro h; rw [h] at hlen; exact hna (by simp [Sys.natoms, ← hlen])
  obtain ⟨t0, tr, ht0⟩ : ∃ t r, s.atype = t :: r := by
    cases h : s.atype with
    | nil => exact absurd h hne
    | cons t r => exact ⟨t, r, rfl⟩
  have ht0m : t0 ∈ s.atype := by rw [ht0]; simp
  have hNpos : 0 < s.natypes := by
    have := hty t0 ht0m; omega
  have hc0 : ∀ {α : Type} (xs : List α), xs.length = s.pos.length →
      (groupByType s.atype xs s.natypes).length = s.natoms := by
    intro α xs hx
    rw [length_groupByType s.atype xs (by rw [hlen, hx]), sum_counts s.atype s.natypes hty, hlen]; rfl
  have hcl : (poscarNums s cart scale).coords.length = s.natoms := by
    unfold poscarNums
    simp only
    split
    · exact hc0 _ (by simp)
    · exact hc0 _ (by simp)
  refine ⟨?_, ?_, hcl⟩
  · unfold poscarNums
    simp only
    intro h
    have := congrArg List.length h
    simp at this
    omega
  · rw [hcl, foldl_add_eq_sum, Nat.zero_add]
    unfold poscarNums
    simp only
    rw [sum_counts s.atype _ hty, hlen]; rfl

/-- the counts line has one entry per atom type of the system. -/
theorem poscarNums_counts_length (s : Sys) (cart : Bool) (scale : ℚ) :
    (poscarNums s cart scale).counts.length = s.natypes := by
  simp [poscarNums]

/-- **POSCAR**: the independent reader applied to the written text. -/
theorem parsePoscar_writePoscar (s : Sys) (header : List String) (symbols : Option (List String)) (coordstyle : String)
    (scale : ℚ) (f : Fmt) (text : List Char) (h : writePoscar s header symbols coordstyle scale f = .ok text)
    (hs : PoscarStringsOk header symbols coordstyle) (hscale : 0 < fmtVal f scale)
    (hlen : s.atype.length = s.pos.length) (hty : ∀ t ∈ s.atype, 1 ≤ t ∧ t ≤ (s.natypes : Int)) :
    0 < scale ∧ s.natoms ≠ 0 ∧ (∀ l, symbols = some l → l.length = s.natypes) ∧
    parsePoscar text = some (poscarExpected f header symbols coordstyle scale
      (poscarNums s (isCartTok (strTok coordstyle)) scale)) := by
  unfold writePoscar at h
  cases hd : writePoscarDoc s header symbols coordstyle scale f with
  | error e => rw [hd] at h; cases h
  | ok doc =>
    rw [hd] at h
    simp only [Except.map, Except.ok.injEq] at h
    obtain ⟨hsc, hna, _, hsym, rfl⟩ := writePoscarDoc_ok s header symbols coordstyle scale f doc hd
    obtain ⟨c1, c2, _⟩ := poscarNums_counts s (isCartTok (strTok coordstyle)) scale hna hlen hty
    refine ⟨hsc, hna, hsym, ?_⟩
    rw [← h]
    exact parsePoscar_poscarDoc f header symbols coordstyle scale _ hs c1 c2 hscale

end Atomman.C07
