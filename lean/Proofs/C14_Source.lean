/-
  C14, the checked source tie.  `Atomman/Generated/SurfaceSource.lean` is regenerated on every run from /repo's
  current `free_surface_basis.py`, `FreeSurface.py`, `StackingFault.py` (python `ast`, harness/props/c14.py
  `translate`).  Here every generated definition is proved equal to the hand model the property theorems are about
  (`gen_..._eq_model`): a source edit that changes a branch, a sign, an order, a default or a formula changes the
  generated definition and breaks the named obligation below (or, when the reader no longer recognises the
  statement, raises TranslationError in the harness).
-/
import Atomman.Generated.SurfaceSource
import Proofs.C14_Lemmas
import Proofs.C14_Search
import Mathlib.Tactic.SplitIfs
import Mathlib.Tactic.LinearCombination
import Mathlib.Tactic.Linarith
import Mathlib.Tactic.Ring
import Mathlib.Algebra.Order.Field.Basic

namespace Atomman.C14
open Atomman
set_option linter.unusedSectionVars false
set_option linter.unusedSimpArgs false
set_option linter.unusedVariables false
set_option linter.unusedTactic false
set_option linter.unreachableTactic false

/-! ## `free_surface_basis` -/

/-- the generated zero-pattern branches (with the truncating integer casts of the source) are the model's. -/
theorem gen_initVectors_eq_model (hkl : IV) : Gen.C14.initVectors hkl = initVectors hkl := by
  obtain ⟨h, k, l⟩ := hkl
  have d1 := Int.dvd_lcm_left h k
  have d2 := Int.dvd_lcm_right h k
  have d3 := Int.dvd_lcm_left h l
  have d4 := Int.dvd_lcm_right h l
  have d5 := Int.dvd_lcm_left k l
  have d6 := Int.dvd_lcm_right k l
  have d7 := dvd_trans (Int.dvd_lcm_left h k) (Int.dvd_lcm_left ((Int.lcm h k : ℕ) : ℤ) l)
  have d8 := dvd_trans (Int.dvd_lcm_right h k) (Int.dvd_lcm_left ((Int.lcm h k : ℕ) : ℤ) l)
  have d9 := Int.dvd_lcm_right ((Int.lcm h k : ℕ) : ℤ) l
  by_cases hh : h = 0 <;> by_cases hk : k = 0 <;> by_cases hl : l = 0 <;>
    simp only [Gen.C14.initVectors, initVectors, ilcm, hh, hk, hl, ne_eq, not_true_eq_false, not_false_eq_true,
      if_true, if_false, neg_ediv_eq_tdiv _ _ d1, neg_ediv_eq_tdiv _ _ d3, neg_ediv_eq_tdiv _ _ d4,
      neg_ediv_eq_tdiv _ _ d5, neg_ediv_eq_tdiv _ _ d7, ediv_eq_tdiv _ _ d2, ediv_eq_tdiv _ _ d3,
      ediv_eq_tdiv _ _ d6, ediv_eq_tdiv _ _ d8, ediv_eq_tdiv _ _ d9]

/-- every division of the starting-vector branches is exact (so the truncating cast `dtype=int` loses nothing):
    `h·a₀ₓ = -m` etc. follow from `h ∣ m`; stated as: truncating and flooring division agree on all of them. -/
theorem initVectors_div_exact (h k l : ℤ) :
    let m := ilcm (ilcm h k) l
    Int.tdiv (-m) h = -(m / h) ∧ Int.tdiv m k = m / k ∧ Int.tdiv m l = m / l ∧
      h * (m / h) = m ∧ k * (m / k) = m ∧ l * (m / l) = m := by
  have d7 := dvd_trans (Int.dvd_lcm_left h k) (Int.dvd_lcm_left ((Int.lcm h k : ℕ) : ℤ) l)
  have d8 := dvd_trans (Int.dvd_lcm_right h k) (Int.dvd_lcm_left ((Int.lcm h k : ℕ) : ℤ) l)
  have d9 := Int.dvd_lcm_right ((Int.lcm h k : ℕ) : ℤ) l
  simp only [ilcm]
  exact ⟨(neg_ediv_eq_tdiv _ _ d7).symm, (ediv_eq_tdiv _ _ d8).symm, (ediv_eq_tdiv _ _ d9).symm,
    Int.mul_ediv_cancel' d7, Int.mul_ediv_cancel' d8, Int.mul_ediv_cancel' d9⟩

theorem gen_convertStart_eq_model (L : M3 Int) (a b : IV) :
    Gen.C14.convertStart L a b = (M3.vecMul a L, M3.vecMul b L) := rfl

theorem gen_defaultMaxIndex_eq_model (a b hkl : IV) :
    Gen.C14.defaultMaxIndex a b hkl = defaultMaxIndex a b hkl := rfl

theorem gen_reduceC_eq_model (v : IV) : Gen.C14.reduceC v = reduceGcd v := rfl

theorem signedRange_flatMap {α : Type} (n : ℤ) (f : ℤ → List α) :
    (signedRange n).flatMap f =
      (List.range (n + 1).toNat).flatMap fun (q : ℕ) => ([1, -1] : List ℤ).flatMap fun s => f (s * (q : ℤ)) := by
  unfold signedRange
  rw [List.flatMap_assoc]
  congr 1
  funext q
  simp only [List.flatMap_cons, List.flatMap_nil, List.append_nil, one_mul, neg_one_mul, neg_mul]

theorem filterMap_ite_eq_flatMap {α β : Type} (l : List α) (c : α → Prop) [DecidablePred c] (g : α → β) :
    l.filterMap (fun i => if c i then none else some (g i)) = l.flatMap (fun i => if c i then [] else [g i]) := by
  induction l with
  | nil => rfl
  | cons x t ih =>
    simp only [List.filterMap_cons, List.flatMap_cons]
    by_cases hx : c x
    · simp only [hx, if_true, List.nil_append]; exact ih
    · simp only [hx, if_false, List.singleton_append]; rw [ih]

/-- `gen_vector(n)` as coded (loop nesting `k, j, i`, signs `[1, -1]`, the zero vector skipped, `[i, j, k]`) is the
    model's enumeration, in the same order with the same repetitions. -/
theorem gen_genVectors_eq_model (n : ℤ) : Gen.C14.genVectors n = genVectors n := by
  unfold Gen.C14.genVectors genVectors
  simp only [filterMap_ite_eq_flatMap, signedRange_flatMap]

section fsb
variable {K : Type} [CommRing K] [LinearOrder K] [IsStrictOrderedRing K]

theorem gen_planeNormal_eq_model (V : M3 K) (s : ℤ) (a b : IV) :
    Gen.C14.planeNormal V s a b = planeNormal V s a b := rfl

/-- body of the first search loop: branch order (`isclose(dot, 0)` first, `elif angle < c_angle`), strictness of
    both comparisons and the assignments of each branch are the model's. -/
theorem gen_step1_eq_model (V : M3 K) (pn : V3 K) (st : S1 K) (v : IV) :
    Gen.C14.step1 V pn st v = step1 V pn st v := by
  unfold Gen.C14.step1 step1 Gen.C14.angleLt
  simp only []
  by_cases hd : V3.dot (cart V v) pn = 0
  · simp only [hd, if_true]
  · simp only [hd, if_false]
    by_cases hp : 0 < V3.dot (cart V v) pn
    · rcases hc : st.c with _ | cb
      · simp only [hp, true_and, if_true]
      · simp only [hp, true_and, if_true]
    · simp only [hp, false_and, if_false]

theorem gen_init1_eq_model (V : M3 K) (n : ℤ) : Gen.C14.init1 V n = init1 V n := rfl
theorem gen_init2_eq_model (V : M3 K) (n : ℤ) : Gen.C14.init2 V n = init2 V n := rfl

theorem gen_search1_eq_model (V : M3 K) (pn : V3 K) (n : ℤ) : Gen.C14.search1 V pn n = search1 V pn n := by
  unfold Gen.C14.search1 search1
  rw [gen_genVectors_eq_model, gen_init1_eq_model]
  congr 1
  funext st v
  exact gen_step1_eq_model V pn st v

/-- parallel integer vectors have parallel Cartesian images (whatever the cell). -/
theorem cart_cross_of_icross_zero (V : M3 K) (a v : IV) (h : V3.cross a v = ⟨0, 0, 0⟩) :
    V3.cross (cart V a) (cart V v) = ⟨0, 0, 0⟩ := by
  have e1 : ((a.y : K) * v.z - a.z * v.y) = 0 := by
    have := congrArg V3.x h; simp only [V3.cross] at this; exact_mod_cast this
  have e2 : ((a.z : K) * v.x - a.x * v.z) = 0 := by
    have := congrArg V3.y h; simp only [V3.cross] at this; exact_mod_cast this
  have e3 : ((a.x : K) * v.y - a.y * v.x) = 0 := by
    have := congrArg V3.z h; simp only [V3.cross] at this; exact_mod_cast this
  simp only [cart, toK, M3.vecMul, V3.cross, V3.mk.injEq]
  refine ⟨?_, ?_, ?_⟩
  · linear_combination e3 * (V.r0.y * V.r1.z - V.r0.z * V.r1.y) - e2 * (V.r0.y * V.r2.z - V.r0.z * V.r2.y)
      + e1 * (V.r1.y * V.r2.z - V.r1.z * V.r2.y)
  · linear_combination e3 * (V.r0.z * V.r1.x - V.r0.x * V.r1.z) - e2 * (V.r0.z * V.r2.x - V.r0.x * V.r2.z)
      + e1 * (V.r1.z * V.r2.x - V.r1.x * V.r2.z)
  · linear_combination e3 * (V.r0.x * V.r1.y - V.r0.y * V.r1.x) - e2 * (V.r0.x * V.r2.y - V.r0.y * V.r2.x)
      + e1 * (V.r1.x * V.r2.y - V.r1.y * V.r2.x)

theorem dot_zero_left (p : V3 K) : V3.dot (⟨0, 0, 0⟩ : V3 K) p = 0 := by
  simp only [V3.dot]; ring

/-- body of the second search loop.  The four coded guards (`in plane`, `angle ≠ 0`, `angle ≠ 180`, integer cross
    product non-zero) followed by the right-handedness test select exactly the model's `bFilter`: the last three guards
    are implied by `(a×v)·n > 0`; the tie rule (`equal length and smaller angle, or shorter`) is the model's. -/
theorem gen_step2_eq_model (V : M3 K) (pn : V3 K) (a : IV) (st : S2 K) (v : IV) :
    Gen.C14.step2 V pn a st v = step2 V pn (cart V a) st v := by
  unfold Gen.C14.step2 step2 bFilter Gen.C14.Parallel Gen.C14.AntiParallel
  simp only []
  by_cases hd : V3.dot (cart V v) pn = 0
  · by_cases hr : 0 < V3.dot (V3.cross (cart V a) (cart V v)) pn
    · have hc : V3.cross (cart V a) (cart V v) ≠ (⟨0, 0, 0⟩ : V3 K) := by
        intro h0; rw [h0, dot_zero_left] at hr; exact lt_irrefl _ hr
      have hi : V3.cross a v ≠ (⟨0, 0, 0⟩ : IV) := fun h0 => hc (cart_cross_of_icross_zero V a v h0)
      have hc' : V3.cross (cart V a) (cart V v) ≠ (zeroV : V3 K) := hc
      simp only [hd, hr, hc, hc', hi, ne_eq, not_false_eq_true, false_and, true_and, and_self, if_true, gt_iff_lt]
    · have : ¬ (V3.dot (V3.cross (cart V a) (cart V v)) pn > 0) := hr
      simp only [hd, hr, this, and_false, if_false, ite_self]
  · simp only [hd, false_and, if_false]

theorem gen_search2_eq_model (V : M3 K) (pn : V3 K) (a : IV) (n : ℤ) :
    Gen.C14.search2 V pn a n = search2 V pn (cart V a) n := by
  unfold Gen.C14.search2 search2
  rw [gen_genVectors_eq_model, gen_init2_eq_model]
  congr 1
  funext st v
  exact gen_step2_eq_model V pn a st v

/-- **the generated routine is the model**: the stages regenerated from the source, composed in the source order the
    translator checks, compute `basisABC` for every cell, plane, centring matrix and `maxindex`. -/
theorem gen_basisABC_eq_model (V : M3 K) (hkl : IV) (L : M3 Int) (nOpt : Option Int) :
    Gen.C14.basisABC V hkl L nOpt = basisABC V hkl L nOpt := by
  unfold Gen.C14.basisABC basisABC
  rw [gen_initVectors_eq_model]
  cases initVectors hkl with
  | none => rfl
  | some ini =>
    simp only [gen_convertStart_eq_model, gen_defaultMaxIndex_eq_model, gen_planeNormal_eq_model,
      gen_search1_eq_model, gen_search2_eq_model, gen_reduceC_eq_model]
    rfl

end fsb

/-- the `cutboxvector` chain: each name selects the model's row order; any other string selects nothing. -/
theorem gen_orderRows_eq_model (s : String) (a b c : IV) :
    Gen.C14.orderRows? s a b c = (Cut.ofString? s).map fun cut => orderRows cut a b c := by
  unfold Gen.C14.orderRows?
  by_cases h1 : s = "c"
  · subst h1; rfl
  · by_cases h2 : s = "b"
    · subst h2; rfl
    · by_cases h3 : s = "a"
      · subst h3; rfl
      · simp only [h1, h2, h3, if_false]
        have : Cut.ofString? s = none := by
          unfold Cut.ofString?
          split <;> simp_all
        rw [this]; rfl

/-- the head of `free_surface_basis` (number of indices, hexagonal box, `return_hexagonal`) as coded is `hklForm`. -/
theorem gen_hklForm_eq_model (len : ℕ) (hex : Bool) (rh : Option Bool) :
    Gen.C14.hklForm len hex rh = hklForm len hex rh := by
  unfold Gen.C14.hklForm hklForm
  rcases rh with _ | _ | _ <;> cases hex <;> by_cases h4 : len = 4 <;> by_cases h3 : len = 3 <;>
    simp_all

/-- `hklForm` refuses exactly: four indices with a non-hexagonal box, Miller-Bravais output requested for a
    non-hexagonal box, or a number of indices other than 3 or 4; the refusal is a ValueError. -/
theorem hklForm_refuses_iff (len : ℕ) (hex : Bool) (rh : Option Bool) (e : String) :
    hklForm len hex rh = .error e ↔
      e = "value" ∧ ((len = 4 ∧ hex = false) ∨ (len = 3 ∧ rh = some true ∧ hex = false) ∨ (len ≠ 3 ∧ len ≠ 4)) := by
  unfold hklForm
  rcases rh with _ | _ | _ <;> cases hex <;> by_cases h4 : len = 4 <;> by_cases h3 : len = 3 <;>
    simp_all <;> exact eq_comm

/-- without `return_hexagonal` the output form follows the input form; an explicit value wins on a hexagonal box. -/
theorem hklForm_default (hex : Bool) (rh : Option Bool) :
    hklForm 3 hex none = .ok (false, false) ∧ hklForm 4 true none = .ok (true, true) ∧
    hklForm 4 true rh = .ok (rh.getD true, true) ∧ hklForm 3 true rh = .ok (rh.getD false, false) := by
  rcases rh with _ | _ | _ <;> cases hex <;> simp [hklForm]

theorem gen_fsb_signature :
    Gen.C14.fsbSignature = [("hkl", "<required>"), ("box", "None"), ("cutboxvector", "'c'"), ("maxindex", "None"),
      ("return_hexagonal", "None"), ("return_planenormal", "False"), ("conventional_setting", "None")] ∧
    Gen.C14.asserts = ["a_uvw is not None", "c_uvw is not None", "b_uvw is not None"] ∧
    Gen.C14.fsbStages = ["form", "start", "convert", "maxindex", "normal", "gen_vector", "search1", "reduce",
      "search2", "order"] := ⟨rfl, rfl, rfl⟩

/-! ## `FreeSurface` -/

theorem gen_cutIndex_eq_model (cut : Cut) : Gen.C14.cutIndex cut = cutIndex cut := by
  cases cut <;> rfl

/-- the coded refusal of `FreeSurface.__init__` is the component test `cutCompatible_iff_normalized` speaks about. -/
theorem gen_cutRefuses_iff {K : Type} [Zero K] (cut : Cut) (n : M3 K) :
    ¬ Gen.C14.cutRefuses cut n ↔
      (match cut with
        | .a => n.r1.x = 0 ∧ n.r2.x = 0
        | .b => n.r0.y = 0 ∧ n.r2.y = 0
        | .c => n.r0.z = 0 ∧ n.r1.z = 0) := by
  cases cut <;> simp only [Gen.C14.cutRefuses, not_or, not_not, ne_eq]

section fs
variable {K : Type} [Field K] [LinearOrder K] [IsStrictOrderedRing K]

theorem gen_withReplica_eq_model (coords : List K) (W tol : K) :
    Gen.C14.withReplica coords W tol = withReplica coords W tol := rfl

/-- the two masked updates applied one after the other to `W - (q + p) / 2` give the model's folded shift. -/
theorem gen_relShift_eq_model (W : K) (pq : K × K) :
    Gen.C14.foldRel W (Gen.C14.rawRel W pq) = relShift W (mid pq) := by
  unfold Gen.C14.foldRel Gen.C14.rawRel relShift mid
  simp only [gt_iff_lt]
  rw [add_comm pq.2 pq.1]
  split_ifs <;> first | rfl | (exfalso; linarith)

theorem gen_shifts_eq_model (coords : List K) (W tol : K) :
    Gen.C14.shifts coords W tol = shifts coords W tol := by
  unfold Gen.C14.shifts shifts rawShifts
  rw [gen_withReplica_eq_model]
  congr 2
  funext pq
  exact gen_relShift_eq_model W pq

theorem gen_vacuumRefuses_iff (vac : K) : Gen.C14.vacuumRefuses vac ↔ vac < 0 := Iff.rfl

theorem gen_vacuumBox_eq_model (cut : Cut) (box : Box K) (vac : K) :
    Gen.C14.vacuumBox cut box vac = vacuumBox cut box vac := by
  unfold Gen.C14.vacuumBox vacuumBox
  rw [gen_cutIndex_eq_model]
  congr 1
  cases cut <;>
    simp only [cutIndex, unitV, Gen.C14.vdiv, V3.smul, Int.cast_one, Int.cast_zero, Int.cast_ofNat, mul_one, mul_zero,
      zero_div, if_true, if_false, Nat.zero_ne_one, Nat.one_ne_zero, OfNat.ofNat_ne_zero, OfNat.ofNat_ne_one,
      OfNat.zero_ne_ofNat, OfNat.one_ne_ofNat, Nat.succ_ne_zero, reduceCtorEq] <;> rfl

end fs

/-- the `minwidth` and `even` blocks of `surface()` as coded (larger of the two counts with the sign of the given
    multiplier; an odd count moved away from zero) are the model's `cutMult`. -/
theorem gen_cutMult_eq_model (m : ℤ) (ceilq : Option ℤ) (even : Bool) :
    Gen.C14.cutMult m ceilq even = cutMult m ceilq even := by
  unfold Gen.C14.cutMult cutMult
  rcases ceilq with _ | q <;> cases even <;> simp only [Bool.false_eq_true, false_and, if_false, true_and,
    Bool.false_and, Bool.true_and, decide_eq_true_eq, gt_iff_lt] <;> split_ifs <;> rfl

theorem gen_surfacePbc_eq_model (cut : Cut) : Gen.C14.surfacePbc cut = surfacePbc cut := by
  cases cut <;> decide

theorem gen_freeSurface_signatures :
    Gen.C14.freeSurfaceInitSignature = [("hkl", "<required>"), ("ucell", "<required>"), ("cutboxvector", "'c'"),
      ("maxindex", "None"), ("conventional_setting", "'p'"), ("shift", "None"), ("shiftindex", "None"),
      ("shiftscale", "False"), ("tol", "1e-07")] ∧
    Gen.C14.freeSurfaceSurfaceSignature = [("shift", "None"), ("shiftindex", "None"), ("shiftscale", "None"),
      ("vacuumwidth", "None"), ("minwidth", "None"), ("sizemults", "None"), ("even", "False")] ∧
    Gen.C14.setShiftSignature = [("shift", "None"), ("shiftindex", "None"), ("shiftscale", "False")] :=
  ⟨rfl, rfl, rfl⟩

/-! ## `StackingFault` -/

/-- the rows of the rotated cell used as shift vectors are the two after the cut index, cyclically (`sfNew`). -/
theorem gen_aIndex_eq_model (cut : Cut) :
    Gen.C14.aIndex cut = ((cutIndex cut + 1) % 3, (cutIndex cut + 2) % 3) := by
  cases cut <;> rfl

section sf
variable {K : Type} [Field K] [LinearOrder K] [IsStrictOrderedRing K]

/-- the two `faultpos` setters: closed range `[0, 1]` (both ends accepted), the two conversions, the strict mask, and
    the default `1/2` of `surface()` are what `setFpRel` / `setFpCart` / `surfaceSF` / `isAbove` compute. -/
theorem gen_faultpos_setters_eq_model (cut : Cut) (org w r c fp : K) (p : V3 K) :
    (Gen.C14.relOutside r ↔ (r < 0 ∨ ((1 : ℤ) : K) < r)) ∧
    (Gen.C14.cartOutside r ↔ (r < 0 ∨ ((1 : ℤ) : K) < r)) ∧
    Gen.C14.cartOfRel org w r = org + r * w ∧
    Gen.C14.relOfCart org w c = (c - org) / w ∧
    (Gen.C14.above fp (p.get (Gen.C14.cutIndex cut)) ↔ isAbove cut fp p = true) ∧
    (Gen.C14.defaultFaultposRel : K) = ((1 : ℤ) : K) / ((2 : ℤ) : K) := by
  refine ⟨Iff.rfl, Iff.rfl, rfl, rfl, ?_, rfl⟩
  rw [gen_cutIndex_eq_model]
  simp only [Gen.C14.above, isAbove, decide_eq_true_eq, gt_iff_lt]

/-- `fault()`'s reading of `a1, a2, outofplane, faultshift` and its shift formula are `resolveFShift ∘ ofOptions`. -/
theorem gen_resolveFShift_eq_model (cut : Cut) (o : SFState K) (a1 a2 oop : Option K) (fs : Option (V3 K)) :
    Gen.C14.resolveFShift a1 a2 oop fs o.a1c o.a2c cut =
      resolveFShift cut o (FShiftArg.ofOptions a1 a2 oop fs) := by
  unfold Gen.C14.resolveFShift FShiftArg.ofOptions
  rw [gen_cutIndex_eq_model]
  rcases a1 with _ | a1 <;> rcases a2 with _ | a2 <;> rcases oop with _ | oop <;> rcases fs with _ | fs <;>
    simp [resolveFShift, faultShift, zeroV3]

theorem gen_push_eq_model (cut : Cut) (r sq : K) (d : V3 K) :
    Gen.C14.pushRadicand cut r d = pushRadicand cut r d ∧ Gen.C14.pushAmount cut sq d = pushAmount cut sq d := by
  cases cut <;> exact ⟨rfl, rfl⟩

end sf

theorem gen_stackingFault_signatures :
    Gen.C14.stackingFaultInitSignature = [("hkl", "<required>"), ("ucell", "<required>"), ("cutboxvector", "'c'"),
      ("maxindex", "None"), ("a1vect_uvw", "None"), ("a2vect_uvw", "None"), ("conventional_setting", "'p'"),
      ("shift", "None"), ("shiftindex", "None"), ("shiftscale", "False"), ("tol", "1e-08")] ∧
    Gen.C14.faultSignature = [("a1", "None"), ("a2", "None"), ("outofplane", "None"), ("faultshift", "None"),
      ("minimum_r", "None"), ("a1vect_uvw", "None"), ("a2vect_uvw", "None"), ("faultpos_cart", "None"),
      ("faultpos_rel", "None")] ∧
    Gen.C14.iterfaultmapSignature = [("num_a1", "None"), ("num_a2", "None"), ("outofplane", "None"),
      ("minimum_r", "None"), ("a1vect_uvw", "None"), ("a2vect_uvw", "None"), ("faultpos_cart", "None"),
      ("faultpos_rel", "None")] ∧
    Gen.C14.faultPreludeOrder = ["a1vect_uvw is not None", "a2vect_uvw is not None", "faultpos_cart is not None"] ∧
    Gen.C14.faultCoreSteps = ["sfsystem = deepcopy(self.system)", "sfsystem.atoms.pos[self.abovefault] += faultshift",
      "sfsystem.wrap()"] ∧
    Gen.C14.mapDefaults = (1, 1) := ⟨rfl, rfl, rfl, rfl, rfl, rfl⟩

end Atomman.C14
