/-
  C15 — helper lemmas: list plumbing of the index lists (`gather`, `setLast`, `setLast2`), the
  site-search filter, index normalisation, and minimality of the shared `dvect` fold.
-/
import Atomman.C15
import Mathlib.Tactic.Ring
import Mathlib.Tactic.Linarith
import Mathlib.Tactic.Positivity
import Mathlib.Algebra.Order.Field.Basic

namespace Atomman.C15
set_option linter.unusedSimpArgs false
set_option linter.unusedSectionVars false

/-! ### index lists -/

theorem gather_append {α : Type} (l : List α) (a b : List Nat) :
    gather l (a ++ b) = gather l a ++ gather l b := by
  simp [gather, List.filterMap_append]

theorem gather_getElem? {α : Type} (l : List α) (idx : List Nat) (h : ∀ x ∈ idx, x < l.length) (j : Nat) :
    (gather l idx)[j]? = (idx[j]?).bind (l[·]?) := by
  induction idx generalizing j with
  | nil => simp [gather]
  | cons x t ih =>
    have hx : x < l.length := h x (by simp)
    have ht : ∀ y ∈ t, y < l.length := fun y hy => h y (by simp [hy])
    have : gather l (x :: t) = l[x] :: gather l t := by
      simp [gather, List.filterMap_cons, List.getElem?_eq_getElem hx]
    rw [this]
    cases j with
    | zero => simp [List.getElem?_eq_getElem hx]
    | succ j => simpa using ih ht j

theorem gather_range {α : Type} (l : List α) : gather l (List.range l.length) = l := by
  apply List.ext_getElem?
  intro j
  rw [gather_getElem? l _ (by intro x hx; simpa using hx)]
  by_cases hj : j < l.length
  · simp [hj]
  · simp [hj]

theorem gather_eraseIdx_range {α : Type} (l : List α) (i : Nat) :
    gather l ((List.range l.length).eraseIdx i) = l.eraseIdx i := by
  apply List.ext_getElem?
  intro j
  rw [gather_getElem? l _ (by intro x hx; have := List.mem_of_mem_eraseIdx hx; simpa using this)]
  rw [List.getElem?_eraseIdx, List.getElem?_eraseIdx]
  split
  · by_cases hj : j < l.length
    · simp [hj]
    · simp [hj]
  · by_cases hj : j + 1 < l.length
    · simp [hj]
    · simp [hj]

theorem gather_single {α : Type} (l : List α) (i : Nat) (a : α) (h : l[i]? = some a) : gather l [i] = [a] := by
  simp [gather, h]

theorem setLast_append_single {α : Type} (l : List α) (a : α) (f : α → α) :
    setLast (l ++ [a]) f = l ++ [f a] := by
  induction l with
  | nil => simp [setLast]
  | cons x t ih =>
    cases t with
    | nil => simp [setLast]
    | cons y u => simpa [setLast] using ih

theorem setLast2_cons {α : Type} (x : α) (t : List α) (f : α → α) (h : 2 ≤ t.length) :
    setLast2 (x :: t) f = x :: setLast2 t f := by
  match t, h with
  | [_, _], _ => simp [setLast2]
  | _ :: _ :: _ :: _, _ => simp [setLast2]

theorem setLast2_append_pair {α : Type} (l : List α) (a b : α) (f : α → α) :
    setLast2 (l ++ [a, b]) f = l ++ [f a, b] := by
  induction l with
  | nil => simp [setLast2]
  | cons x t ih =>
    rw [List.cons_append, setLast2_cons _ _ _ (by simp), ih]
    simp

/-! ### site-search filter and index normalisation -/

theorem filter_range_eq_nil (n : Nat) (p : Nat → Bool) (h : ∀ j, j < n → p j = false) :
    (List.range n).filter p = [] := by
  rw [List.filter_eq_nil_iff]
  intro a ha
  simp [h a (by simpa using ha)]

theorem filter_range_eq_singleton (n i : Nat) (p : Nat → Bool) (hi : i < n) (hp : p i = true)
    (hq : ∀ j, j < n → j ≠ i → p j = false) : (List.range n).filter p = [i] := by
  induction n with
  | zero => omega
  | succ n ih =>
    rw [List.range_succ, List.filter_append]
    by_cases hin : i = n
    · subst hin
      rw [filter_range_eq_nil i p (fun j hj => hq j (by omega) (by omega))]
      simp [hp]
    · have hi' : i < n := by omega
      rw [ih hi' (fun j hj hne => hq j (by omega) hne)]
      have : p n = false := hq n (by omega) (by omega)
      simp [this]

theorem normIdx_nonneg (n i : Nat) (h : i < n) : normIdx n (i : Int) = some i := by
  unfold normIdx
  simp only []
  have h1 : ¬ ((i : Int) < 0) := by omega
  rw [if_neg h1]
  have h2 : ¬ ((i : Int) < 0 ∨ (i : Int) ≥ (n : Int)) := by omega
  rw [if_neg h2]
  simp

theorem normIdx_neg (n i : Nat) (h : i < n) : normIdx n ((i : Int) - (n : Int)) = some i := by
  unfold normIdx
  simp only []
  have h1 : ((i : Int) - (n : Int) < 0) := by omega
  rw [if_pos h1]
  have h2 : ¬ ((i : Int) - (n : Int) + (n : Int) < 0 ∨ (i : Int) - (n : Int) + (n : Int) ≥ (n : Int)) := by omega
  rw [if_neg h2]
  congr 1
  omega

theorem normIdx_out (n : Nat) (k : Int) (h : k ≥ (n : Int) ∨ k < -(n : Int)) : normIdx n k = none := by
  unfold normIdx
  simp only []
  split <;> rename_i h1
  · rw [if_pos (by omega)]
  · rw [if_pos (by omega)]

theorem normIdx_some_lt (n : Nat) (k : Int) (j : Nat) (h : normIdx n k = some j) : j < n := by
  unfold normIdx at h
  simp only [] at h
  split at h <;> rename_i h1
  · split at h <;> rename_i h2
    · cases h
    · cases h; omega
  · split at h <;> rename_i h2
    · cases h
    · cases h; omega

/-! ### the shared `dvect` fold returns a shortest candidate -/

section field
variable {K : Type} [Field K] [LinearOrder K] [IsStrictOrderedRing K]

theorem normSq_nonneg (a : V3 K) : 0 ≤ V3.normSq a := by
  simp only [V3.normSq, V3.dot]
  nlinarith [mul_self_nonneg a.x, mul_self_nonneg a.y, mul_self_nonneg a.z]

theorem fold_dvectStep_le (vects : M3 K) (d0 : V3 K) (l : List (Int × Int × Int)) (d : V3 K) :
    V3.normSq (l.foldl (dvectStep vects d0) d) ≤ V3.normSq d ∧
    ∀ s ∈ l, V3.normSq (l.foldl (dvectStep vects d0) d) ≤ V3.normSq (shiftBy vects d0 s) := by
  induction l generalizing d with
  | nil => simp
  | cons s t ih =>
    simp only [List.foldl_cons]
    have hstep : V3.normSq (dvectStep vects d0 d s) ≤ V3.normSq d ∧
        V3.normSq (dvectStep vects d0 d s) ≤ V3.normSq (shiftBy vects d0 s) := by
      simp only [dvectStep]
      split
      · rename_i h; exact ⟨le_of_lt h, le_refl _⟩
      · rename_i h; exact ⟨le_refl _, not_lt.mp h⟩
    obtain ⟨h1, h2⟩ := ih (dvectStep vects d0 d s)
    refine ⟨le_trans h1 hstep.1, ?_⟩
    intro s' hs'
    rcases List.mem_cons.mp hs' with rfl | hs'
    · exact le_trans h1 hstep.2
    · exact h2 s' hs'

theorem mem_imageShifts (px py pz : Bool) (x y z : Int) (hx : x ∈ pbcRange px) (hy : y ∈ pbcRange py)
    (hz : z ∈ pbcRange pz) (hne : ¬ (x = 0 ∧ y = 0 ∧ z = 0)) : (x, y, z) ∈ imageShifts px py pz := by
  simp only [imageShifts, List.mem_filter, List.mem_flatMap, List.mem_map]
  refine ⟨⟨x, hx, y, hy, z, hz, rfl⟩, ?_⟩
  simp only [Bool.not_eq_true', Bool.and_eq_false_iff, beq_eq_false_iff_ne, ne_eq]
  by_contra hc
  apply hne
  refine ⟨?_, ?_, ?_⟩ <;> (by_contra hh; apply hc; simp [hh])

/-- the position of an atom seen through an adjacent periodic image has periodic distance 0. -/
theorem dvect_image_zero (vects : M3 K) (px py pz : Bool) (q : V3 K) (x y z : Int)
    (hx : x ∈ pbcRange px) (hy : y ∈ pbcRange py) (hz : z ∈ pbcRange pz) :
    V3.normSq (dvect vects px py pz (shiftBy vects q (x, y, z)) q) = 0 := by
  apply le_antisymm _ (normSq_nonneg _)
  simp only [dvect]
  obtain ⟨h1, h2⟩ := fold_dvectStep_le vects (q - shiftBy vects q (x, y, z)) (imageShifts px py pz)
    (q - shiftBy vects q (x, y, z))
  by_cases h0 : x = 0 ∧ y = 0 ∧ z = 0
  · obtain ⟨rfl, rfl, rfl⟩ := h0
    refine le_trans h1 (le_of_eq ?_)
    show V3.normSq (V3.sub q (shiftBy vects q (0, 0, 0))) = 0
    simp only [V3.normSq, V3.dot, V3.sub, shiftBy, Int.cast_zero]
    ring
  · refine le_trans (h2 _ (mem_imageShifts px py pz x y z hx hy hz h0)) (le_of_eq ?_)
    show V3.normSq (shiftBy vects (V3.sub q (shiftBy vects q (x, y, z))) (x, y, z)) = 0
    simp only [V3.normSq, V3.dot, V3.sub, shiftBy]
    ring

end field

/-! ### site resolution, pointwise reading of the index lists, the `old_id` column -/

section any
variable {K : Type} [Add K] [Sub K] [Mul K] [Zero K] [IntCast K] [LT K] [DecidableLT K] [DecidableEq K]

theorem mem_siteMatches (s : Sys K) (p : V3 K) (atol : K) (i : Nat) :
    i ∈ siteMatches s p atol ↔ ∃ a, s.atoms[i]? = some a ∧ within s p atol a = true := by
  simp only [siteMatches, List.mem_filter, List.mem_range]
  constructor
  · rintro ⟨hi, h⟩
    cases ha : s.atoms[i]? with
    | none => simp [ha] at h
    | some a => exact ⟨a, rfl, by simpa [ha] using h⟩
  · rintro ⟨a, ha, hw⟩
    refine ⟨?_, by simp [ha, hw]⟩
    exact (List.getElem?_eq_some_iff.mp ha).1

theorem resolveSite_lt (s : Sys K) (pos : Option (V3 K)) (ptd : Option Int) (scale : Bool) (atol : K) (i : Nat)
    (h : resolveSite s pos ptd scale atol = .ok i) : i < s.atoms.length := by
  unfold resolveSite at h
  split at h
  · cases h
  · split at h
    · rename_i j hm
      cases h
      have hmem := (mem_siteMatches _ _ _ i).mp (by rw [hm]; simp)
      obtain ⟨a, ha, _⟩ := hmem
      exact (List.getElem?_eq_some_iff.mp ha).1
    · cases h
  · split at h
    · rename_i j hj
      cases h
      exact normIdx_some_lt _ _ _ hj
    · cases h
  · cases h

@[simp] theorem fixSym_atoms (s : Sys K) : (fixSym s).atoms = s.atoms := rfl
@[simp] theorem fixSym_old (s : Sys K) : (fixSym s).old = s.old := rfl
@[simp] theorem fixSym_box (s : Sys K) : (fixSym s).box = s.box := rfl
@[simp] theorem fixSym_pbc (s : Sys K) : (fixSym s).pbc = s.pbc := rfl
@[simp] theorem fixSym_keys (s : Sys K) : (fixSym s).keys = s.keys := rfl

/-- pointwise reading of `l.eraseIdx i ++ tail`: the atoms before the site keep their index, the
    atoms after it move up by one, nothing else changes. -/
theorem others_unchanged {α : Type} (l tail : List α) (i j : Nat) (hj : j + 1 < l.length) (hi : i < l.length) :
    (l.eraseIdx i ++ tail)[j]? = if j < i then l[j]? else l[j + 1]? := by
  have hlen : (l.eraseIdx i).length = l.length - 1 := by simp [List.length_eraseIdx, hi]
  rw [List.getElem?_append_left (by omega), List.getElem?_eraseIdx]

theorem oldColumn_append (s : Sys K) (a b : List Nat) :
    oldColumn s (a ++ b) = oldColumn s a ++ oldColumn s b := by
  unfold oldColumn
  cases s.old with
  | none => simp
  | some col => simp [gather_append]

theorem oldAt_lt (s : Sys K) (hwf : WF s) (k : Nat) (hk : k < s.atoms.length) : ∃ v, oldAt s k = some v := by
  unfold oldAt
  unfold WF at hwf
  cases ho : s.old with
  | none => simp [hk]
  | some col =>
    simp only [ho] at hwf
    exact ⟨col[k]'(by omega), by simp [List.getElem?_eq_getElem (show k < col.length by omega)]⟩

theorem oldColumn_getElem? (s : Sys K) (hwf : WF s) (idx : List Nat) (h : ∀ x ∈ idx, x < s.atoms.length) (j : Nat) :
    (oldColumn s idx)[j]? = (idx[j]?).bind (oldAt s) := by
  unfold oldColumn oldAt
  unfold WF at hwf
  cases ho : s.old with
  | none =>
    simp only [List.getElem?_map]
    cases hj : idx[j]? with
    | none => simp
    | some k =>
      have : k < s.atoms.length := h k (List.mem_of_getElem? hj)
      simp [this]
  | some col =>
    simp only [ho] at hwf
    simp only []
    rw [gather_getElem? col idx (by intro x hx; have := h x hx; omega)]

theorem oldColumn_length (s : Sys K) (hwf : WF s) (idx : List Nat) (h : ∀ x ∈ idx, x < s.atoms.length) :
    (oldColumn s idx).length = idx.length := by
  unfold oldColumn
  unfold WF at hwf
  cases ho : s.old with
  | none => simp
  | some col =>
    simp only [ho] at hwf
    simp only []
    induction idx with
    | nil => simp [gather]
    | cons x t ih =>
      have hx : x < col.length := by have := h x (by simp); omega
      have : gather col (x :: t) = col[x] :: gather col t := by
        simp [gather, List.getElem?_eq_getElem hx]
      rw [this]
      simp [ih (fun y hy => h y (by simp [hy]))]

theorem oldColumn_single (s : Sys K) (hwf : WF s) (i : Nat) (v : Int) (hv : oldAt s i = some v)
    (hi : i < s.atoms.length) : oldColumn s [i] = [v] := by
  apply List.ext_getElem?
  intro j
  rw [oldColumn_getElem? s hwf [i] (by simpa using hi)]
  cases j with
  | zero => simp [hv]
  | succ j => simp

theorem mem_front_lt (n i x : Nat) (hx : x ∈ (List.range n).eraseIdx i) : x < n := by
  have := List.mem_of_mem_eraseIdx hx
  simpa using this

theorem oldAt_some (s : Sys K) (col : List Int) (h : s.old = some col) (j : Nat) : oldAt s j = col[j]? := by
  simp [oldAt, h]

theorem front_lookup (s : Sys K) (hwf : WF s) (front : List Nat) (hf : ∀ x ∈ front, x < s.atoms.length)
    (T : List Int) (P : List (Option Nat)) (j k : Nat) (hj : j < front.length)
    (hp : (front.map some ++ P)[j]? = some (some k)) :
    k < s.atoms.length ∧ (oldColumn s front ++ T)[j]? = oldAt s k := by
  rw [List.getElem?_append_left (by simpa using hj)] at hp
  have hk : front[j]? = some k := by
    simp only [List.getElem?_map] at hp
    cases hfj : front[j]? with
    | none => simp [hfj] at hp
    | some m => simp [hfj] at hp; simp [hp]
  refine ⟨hf k (List.mem_of_getElem? hk), ?_⟩
  rw [List.getElem?_append_left (by rw [oldColumn_length s hwf front hf]; exact hj)]
  rw [oldColumn_getElem? s hwf front hf, hk]
  simp

/-- a unique match of the site search is the resolved site. -/
theorem site_unique (s : Sys K) (cart : V3 K) (atol : K) (i : Nat) (a : Atom K) (ha : s.atoms[i]? = some a)
    (hw : within s cart atol a = true)
    (huniq : ∀ j b, j ≠ i → s.atoms[j]? = some b → within s cart atol b = false) :
    siteMatches s cart atol = [i] := by
  have hi : i < s.atoms.length := (List.getElem?_eq_some_iff.mp ha).1
  apply filter_range_eq_singleton _ _ _ hi
  · simp [ha, hw]
  · intro j hj hne
    have hb : s.atoms[j]? = some s.atoms[j] := List.getElem?_eq_getElem hj
    simp [hb, huniq j _ hne hb]

theorem v3_add_x {K : Type} [Add K] (a b : V3 K) : (a + b).x = a.x + b.x := rfl
theorem v3_add_y {K : Type} [Add K] (a b : V3 K) : (a + b).y = a.y + b.y := rfl
theorem v3_add_z {K : Type} [Add K] (a b : V3 K) : (a + b).z = a.z + b.z := rfl

end any

end Atomman.C15
