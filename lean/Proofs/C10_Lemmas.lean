/-
  C10_Lemmas — helper lemmas for the data-model round trip:
  row-major chunking, `mapOpt`, parsing of written value lists, the 3x3 inverse on rows.
-/
import Atomman.C10
import Mathlib.Tactic.Ring
import Mathlib.Tactic.FieldSimp
import Mathlib.Tactic.Linarith
import Mathlib.Algebra.Order.Field.Basic

namespace Atomman.C10
set_option linter.unusedSimpArgs false
set_option linter.unusedVariables false
variable {α : Type}

theorem prodNat_cons (n : Nat) (s : List Nat) : prodNat (n :: s) = n * prodNat s := rfl

theorem chunks_flatten (k : Nat) (ls : List (List α)) (h : ∀ l ∈ ls, l.length = k) :
    chunks k ls.length ls.flatten = ls := by
  induction ls with
  | nil => rfl
  | cons l r ih =>
    have hl : l.length = k := h l (by simp)
    simp only [List.length_cons, List.flatten_cons, chunks]
    rw [List.take_left' hl, List.drop_left' hl, ih (fun x hx => h x (by simp [hx]))]

theorem length_flatten_const (k : Nat) (ls : List (List α)) (h : ∀ l ∈ ls, l.length = k) :
    ls.flatten.length = ls.length * k := by
  induction ls with
  | nil => simp
  | cons l r ih =>
    have hl : l.length = k := h l (by simp)
    simp only [List.flatten_cons, List.length_append, List.length_cons, hl,
      ih (fun x hx => h x (by simp [hx]))]
    ring

theorem length_flatten_of_shape (s : List Nat) : ∀ (t : Nest α), t.HasShape s → (t.flatten s).length = prodNat s := by
  induction s with
  | nil => intro t h; cases t <;> simp_all [Nest.HasShape, Nest.flatten, prodNat]
  | cons n s ih =>
    intro t h
    cases t with
    | val a => simp [Nest.HasShape] at h
    | arr l =>
      obtain ⟨hn, hall⟩ := h
      simp only [Nest.flatten, prodNat_cons]
      rw [length_flatten_const (prodNat s)]
      · simp [hn]
      · intro x hx
        obtain ⟨y, hy, rfl⟩ := List.mem_map.mp hx
        exact ih y (hall y hy)

theorem chunks_spec (k : Nat) : ∀ (n : Nat) (d : List α), d.length = n * k →
    (chunks k n d).flatten = d ∧ (chunks k n d).length = n ∧ ∀ c ∈ chunks k n d, c.length = k := by
  intro n
  induction n with
  | zero => intro d h; simp at h; simp [chunks, h]
  | succ n ih =>
    intro d h
    have hk : k ≤ d.length := by rw [h]; nlinarith
    obtain ⟨h1, h2, h3⟩ := ih (d.drop k) (by simp [h]; ring_nf; omega)
    refine ⟨?_, ?_, ?_⟩
    · simp only [chunks, List.flatten_cons, h1, List.take_append_drop]
    · simp [chunks, h2]
    · intro c hc
      simp only [chunks, List.mem_cons] at hc
      rcases hc with rfl | hc
      · simp [hk]
      · exact h3 c hc

theorem flatten_unflatten (s : List Nat) : ∀ (d : List α), d.length = prodNat s →
    (unflatten s d).HasShape s ∧ (unflatten s d).flatten s = d := by
  induction s with
  | nil =>
    intro d h
    match d, h with
    | [x], _ => simp [unflatten, Nest.HasShape, Nest.flatten]
  | cons n s ih =>
    intro d h
    obtain ⟨h1, h2, h3⟩ := chunks_spec (prodNat s) n d (by rw [h, prodNat_cons])
    refine ⟨⟨by simp [h2], ?_⟩, ?_⟩
    · intro x hx
      obtain ⟨c, hc, rfl⟩ := List.mem_map.mp hx
      exact (ih c (h3 c hc)).1
    · simp only [unflatten, Nest.flatten, List.map_map]
      have : (chunks (prodNat s) n d).map (Nest.flatten s ∘ unflatten s) = chunks (prodNat s) n d := by
        conv_rhs => rw [← List.map_id (chunks (prodNat s) n d)]
        exact List.map_congr_left (fun c hc => (ih c (h3 c hc)).2)
      rw [this, h1]
variable {α β : Type} {K : Type}

theorem mapOpt_map_some (f : α → Option β) (g : α → β) (l : List α) (h : ∀ x ∈ l, f x = some (g x)) :
    mapOpt f l = some (l.map g) := by
  induction l with
  | nil => rfl
  | cons a l ih =>
    simp only [mapOpt, h a (by simp), ih (fun x hx => h x (by simp [hx])), List.map_cons]

theorem mapOpt_cons_none (f : α → Option β) (a : α) (l : List α) (h : f a = none) : mapOpt f (a :: l) = none := by
  simp [mapOpt, h]

theorem leaves?_map_leaf (l : List (Sc K)) : leaves? (l.map DM.leaf) = some l := by
  induction l with
  | nil => rfl
  | cons a l ih => simp [leaves?, ih]

theorem natList?_ofNat (sh : List Nat) :
    natList? (sh.map (fun (k : Nat) => (Sc.int (Int.ofNat k) : Sc K))) = some sh := by
  induction sh with
  | nil => rfl
  | cons a l ih =>
    simp only [List.map_cons, natList?, ih]
    simp

section
variable [IntCast K]

theorem ofScs_flt (l : List K) : Data.ofScs (l.map Sc.flt) = some (Data.flt l) := by
  cases l with
  | nil => rfl
  | cons a l =>
    simp only [Data.ofScs, List.map_cons]
    rw [mapOpt_cons_none _ _ _ (by rfl)]
    simp only []
    have := mapOpt_map_some (Sc.num? (K := K)) (fun s => match s with | Sc.flt x => x | _ => a) ((a :: l).map Sc.flt)
      (by intro x hx; obtain ⟨y, _, rfl⟩ := List.mem_map.mp hx; rfl)
    simp only [List.map_cons, List.map_map] at this
    rw [this]
    simp [Function.comp_def]

theorem ofScs_int (l : List Int) (h : l ≠ []) : Data.ofScs (l.map (Sc.int (K := K))) = some (Data.int l) := by
  cases l with
  | nil => exact absurd rfl h
  | cons a l =>
    simp only [Data.ofScs, List.map_cons]
    have := mapOpt_map_some (Sc.int? (K := K)) (fun s => match s with | Sc.int x => x | _ => a) ((a :: l).map Sc.int)
      (by intro x hx; obtain ⟨y, _, rfl⟩ := List.mem_map.mp hx; rfl)
    simp only [List.map_cons, List.map_map] at this
    rw [this]
    simp [Function.comp_def]

theorem ofScs_str (l : List String) (h : l ≠ []) : Data.ofScs (l.map (Sc.str (K := K))) = some (Data.str l) := by
  cases l with
  | nil => exact absurd rfl h
  | cons a l =>
    simp only [Data.ofScs, List.map_cons]
    rw [mapOpt_cons_none _ _ _ (by rfl), mapOpt_cons_none _ _ _ (by rfl)]
    simp only []
    have := mapOpt_map_some (Sc.str? (K := K)) (fun s => match s with | Sc.str x => x | _ => a) ((a :: l).map Sc.str)
      (by intro x hx; obtain ⟨y, _, rfl⟩ := List.mem_map.mp hx; rfl)
    simp only [List.map_cons, List.map_map] at this
    rw [this]
    simp [Function.comp_def]

/-- a flat list written by `tolist()` parses back to the same buffer (an empty list parses as float). -/
theorem ofScs_toScs (d : Data K) (h : d.length ≠ 0 ∨ ∃ l, d = Data.flt l) : Data.ofScs d.toScs = some d := by
  cases d with
  | flt l => exact ofScs_flt l
  | int l =>
    refine ofScs_int l ?_
    rintro rfl
    rcases h with h | ⟨l, h⟩
    · exact h rfl
    · cases h
  | str l =>
    refine ofScs_str l ?_
    rintro rfl
    rcases h with h | ⟨l, h⟩
    · exact h rfl
    · cases h
end
/-- dtype class after a write/read with a unit: `get_in_units` is a true division, integers become floats. -/
def Data.castU [IntCast K] (units : Option String) : Data K → Data K
  | .int l => match units with
    | none => .int l
    | some _ => .flt (l.map (fun (i : Int) => (i : K)))
  | d => d

/-- value written under `fac1` with `units` and read under `fac2`: `x / f₁ * f₂`. -/
def scaleFn [Div K] [Mul K] [One K] (fac1 fac2 : String → K) : Option String → K → K
  | none, x => x
  | some u, x => x / factor fac1 u * factor fac2 u

theorem scaleFn_none [Div K] [Mul K] [One K] (fac1 fac2 : String → K) :
    scaleFn fac1 fac2 none = fun x => x := funext (fun _ => rfl)
theorem scaleFn_some [Div K] [Mul K] [One K] (fac1 fac2 : String → K) (u : String) :
    scaleFn fac1 fac2 (some u) = fun x => x / factor fac1 u * factor fac2 u := funext (fun _ => rfl)

def Data.rescale [Div K] [Mul K] [One K] [IntCast K] (fac1 fac2 : String → K) (units : Option String) : Data K → Data K
  | .flt l => .flt (l.map (scaleFn fac1 fac2 units))
  | .int l => match units with
    | none => .int l
    | some u => .flt (l.map (fun (i : Int) => scaleFn fac1 fac2 (some u) (i : K)))
  | .str l => .str l

theorem toScs_length (d : Data K) : d.toScs.length = d.length := by
  cases d <;> simp [Data.toScs, Data.length]

section node
variable (v : DM K) (sh : List Nat) (units : Option String)

theorem node_get_value : (DM.node (("value", v) :: (shapeEntry sh ++ unitEntry units))).get? "value" = some v := by
  simp [DM.get?, List.lookup]

theorem node_unitOf : unitOf? (DM.node (("value", v) :: (shapeEntry (K := K) sh ++ unitEntry units))) = some units := by
  rcases sh with _ | ⟨n, _ | ⟨m, r⟩⟩ <;> cases units <;>
    simp [unitOf?, DM.get?, List.lookup, shapeEntry, unitEntry]

theorem node_get_shape : (DM.node (("value", v) :: (shapeEntry (K := K) sh ++ unitEntry units))).get? "shape" =
    (match sh with
     | [] => none
     | [_] => none
     | n :: m :: r => some (DM.list (((n :: m :: r).map (fun (k : Nat) => (Sc.int (Int.ofNat k) : Sc K))).map DM.leaf))) := by
  rcases sh with _ | ⟨n, _ | ⟨m, r⟩⟩ <;> cases units <;>
    simp [DM.get?, List.lookup, shapeEntry, unitEntry]
end node

section
variable [Field K]

theorem applyUnit_length (fac : String → K) (units : Option String) (d d' : Data K)
    (h : applyUnit fac units d = some d') : d'.length = d.length := by
  cases units with
  | none => simp [applyUnit] at h; subst h; rfl
  | some u =>
    by_cases hu : u = "scaled"
    · cases d <;> simp [applyUnit, hu, Data.mulOne] at h <;> subst h <;> rfl
    · cases d <;> simp [applyUnit, hu, Data.mulBy] at h <;> subst h <;> simp [Data.length]

/-- reading a node of the written form. -/
theorem valueUnit_node (fac : String → K) (sh : List Nat) (units : Option String) (d d' : Data K) (v : DM K)
    (hd : d.length = prodNat sh) (hne : d.length ≠ 0 ∨ ∃ l, d = Data.flt l)
    (hv : valueNode sh d.toScs = some v) (hu : applyUnit fac units d = some d') :
    valueUnit fac (DM.node (("value", v) :: (shapeEntry sh ++ unitEntry units))) = some ⟨sh, d'⟩ := by
  have hscs := ofScs_toScs d hne
  have hlen := applyUnit_length fac units d d' hu
  unfold valueUnit
  rw [node_get_value, node_unitOf, node_get_shape]
  rcases sh with _ | ⟨n, _ | ⟨m, r⟩⟩
  · -- rank 0
    have h1 : d.toScs.length = 1 := by rw [toScs_length, hd]; rfl
    obtain ⟨x, hx⟩ := List.length_eq_one_iff.mp h1
    rw [hx] at hv hscs
    simp only [valueNode, Option.some.injEq] at hv
    subst hv
    simp only [hscs, Option.map_some, hu]
  · simp only [valueNode, Option.some.injEq] at hv
    subst hv
    have hn : d.length = n := by simpa [prodNat] using hd
    simp only [leaves?_map_leaf, hscs, Option.map_some, hu, toScs_length, hn]
  · simp only [valueNode, Option.some.injEq] at hv
    subst hv
    simp only [leaves?_map_leaf, hscs, Option.map_some, hu, Option.bind_some, natList?_ofNat, hlen, hd, if_true]

/-- the written buffer (configuration `fac1`) and what `fac2` reads from it. -/
theorem writeData_applyUnit (fac1 fac2 : String → K) (units : Option String) (d : Data K)
    (hs : ∀ l, d = Data.str l → units = none) :
    ∃ dw, writeData fac1 units d = some dw ∧ dw.length = d.length ∧
      applyUnit fac2 units dw = some (d.rescale fac1 fac2 units) := by
  cases units with
  | none =>
    refine ⟨d, rfl, rfl, ?_⟩
    cases d <;> simp [applyUnit, Data.rescale, scaleFn_none]
  | some u =>
    cases d with
    | str l => exact absurd (hs l rfl) (by simp)
    | flt l =>
      refine ⟨_, rfl, by simp [Data.length], ?_⟩
      by_cases hu : u = "scaled"
      · simp [applyUnit, hu, Data.mulOne, Data.rescale, scaleFn_some, factor]
      · simp [applyUnit, hu, Data.mulBy, Data.rescale, scaleFn_some, factor, List.map_map, Function.comp_def]
    | int l =>
      refine ⟨_, rfl, by simp [Data.length], ?_⟩
      by_cases hu : u = "scaled"
      · simp [applyUnit, hu, Data.mulOne, Data.rescale, scaleFn_some, factor]
      · simp [applyUnit, hu, Data.mulBy, Data.rescale, scaleFn_some, factor, List.map_map, Function.comp_def]

theorem scaleFn_self (fac : String → K) (units : Option String)
    (hf : ∀ u, units = some u → factor fac u ≠ 0) (x : K) : scaleFn fac fac units x = x := by
  cases units with
  | none => rfl
  | some u => simp [scaleFn, div_mul_cancel₀ _ (hf u rfl)]

theorem rescale_self (fac : String → K) (units : Option String)
    (hf : ∀ u, units = some u → factor fac u ≠ 0) (d : Data K) : d.rescale fac fac units = d.castU units := by
  have h := scaleFn_self fac units hf
  cases d with
  | flt l =>
    have : scaleFn fac fac units = fun x => x := funext h
    simp [Data.rescale, Data.castU, this]
  | int l => cases units <;> simp_all [Data.rescale, Data.castU]
  | str l => rfl

omit [Field K] in
theorem valueNode_isSome (sh : List Nat) (d : Data K) (hd : d.length = prodNat sh) :
    ∃ v, valueNode sh d.toScs = some v := by
  rcases sh with _ | ⟨n, r⟩
  · have h1 : d.toScs.length = 1 := by rw [toScs_length, hd]; rfl
    obtain ⟨x, hx⟩ := List.length_eq_one_iff.mp h1
    exact ⟨_, by rw [hx]; rfl⟩
  · exact ⟨_, rfl⟩

/-- write under configuration `fac1`, read under `fac2`. -/
theorem valueUnit_model_two (fac1 fac2 : String → K) (units : Option String) (a : Arr K)
    (hw : a.data.length = prodNat a.shape) (hne : prodNat a.shape ≠ 0)
    (hs : ∀ l, a.data = Data.str l → units = none) :
    ∃ t, ucModel fac1 units a = some t ∧ valueUnit fac2 t = some ⟨a.shape, a.data.rescale fac1 fac2 units⟩ := by
  obtain ⟨dw, h1, h2, h5⟩ := writeData_applyUnit fac1 fac2 units a.data hs
  obtain ⟨v, hv⟩ := valueNode_isSome a.shape dw (by rw [h2, hw])
  refine ⟨DM.node (("value", v) :: (shapeEntry a.shape ++ unitEntry units)), by simp only [ucModel, h1, hv], ?_⟩
  exact valueUnit_node fac2 a.shape units dw _ v (by rw [h2, hw]) (Or.inl (by rw [h2, hw]; exact hne)) hv h5

end
section box
variable {K : Type} [Field K]
def mapM3 (g : K → K) (m : M3 K) : M3 K := ⟨m.r0.map g, m.r1.map g, m.r2.map g⟩

theorem vec_two (fac1 fac2 : String → K) (u : Option String) (v : V3 K) :
    ∃ t, ucModel fac1 u (vecArr v) = some t ∧
      (valueUnit fac2 t).bind arrV3? = some (v.map (scaleFn fac1 fac2 u)) := by
  obtain ⟨t, h1, h2⟩ := valueUnit_model_two fac1 fac2 u (vecArr v) (by rfl) (by simp [vecArr, prodNat]) (by intro l h; cases h)
  refine ⟨t, h1, ?_⟩
  rw [h2]
  simp [vecArr, Data.rescale, V3.toList, arrV3?, Data.toFlt, V3.map]

/-- Box written under `fac1` with length unit `u`, read under `fac2`. -/
theorem box_model_two (fac1 fac2 : String → K) (eps : K) [LT K] [DecidableLT K] (u : Option String) (b : Box K) :
    ∃ t, boxModel fac1 u b = some t ∧
      boxRead fac2 eps t = some ⟨cleanVects eps (mapM3 (scaleFn fac1 fac2 u) b.vects), b.origin.map (scaleFn fac1 fac2 u)⟩ := by
  obtain ⟨ta, ha1, ha2⟩ := vec_two fac1 fac2 u b.vects.r0
  obtain ⟨tb, hb1, hb2⟩ := vec_two fac1 fac2 u b.vects.r1
  obtain ⟨tc, hc1, hc2⟩ := vec_two fac1 fac2 u b.vects.r2
  obtain ⟨tor, ho1, ho2⟩ := vec_two fac1 fac2 u b.origin
  refine ⟨DM.node [("box", DM.node [("avect", ta), ("bvect", tb), ("cvect", tc), ("origin", tor)])],
    by simp only [boxModel, ha1, hb1, hc1, ho1], ?_⟩
  simp [boxRead, DM.get?, List.lookup, ha2, hb2, hc2, ho2, mapM3]
end box
section lists
variable {α β γ : Type} {K : Type}

theorem mapOpt_exists (f : α → Option β) (P : α → β → Prop) (l : List α)
    (h : ∀ x ∈ l, ∃ y, f x = some y ∧ P x y) : ∃ ys, mapOpt f l = some ys ∧ List.Forall₂ P l ys := by
  induction l with
  | nil => exact ⟨[], rfl, List.Forall₂.nil⟩
  | cons a l ih =>
    obtain ⟨y, hy, hp⟩ := h a (by simp)
    obtain ⟨ys, hys, hf⟩ := ih (fun x hx => h x (by simp [hx]))
    exact ⟨y :: ys, by simp [mapOpt, hy, hys], List.Forall₂.cons hp hf⟩

theorem mapOpt_forall2 (f : β → Option γ) (g : α → γ) (l : List α) (ys : List β)
    (h : List.Forall₂ (fun x y => f y = some (g x)) l ys) : mapOpt f ys = some (l.map g) := by
  induction h with
  | nil => rfl
  | cons h1 _ ih => simp [mapOpt, h1, ih]

theorem lookup_of_mem_nodup (l : List (String × α)) (h : (l.map Prod.fst).Nodup) (p : String × α) (hp : p ∈ l) :
    l.lookup p.1 = some p.2 := by
  induction l with
  | nil => simp at hp
  | cons a l ih =>
    simp only [List.map_cons, List.nodup_cons] at h
    rcases List.mem_cons.mp hp with rfl | hp'
    · simp [List.lookup]
    · have hne : p.1 ≠ a.1 := by
        rintro heq
        exact h.1 (by rw [← heq]; exact List.mem_map_of_mem hp')
      have : (p.1 == a.1) = false := by simpa using hne
      obtain ⟨k, v⟩ := a
      simp only [List.lookup, this]
      exact ih h.2 hp'

theorem dictSet_append (d : List (String × α)) (k : String) (v : α) (h : k ∉ d.map Prod.fst) :
    dictSet d k v = d ++ [(k, v)] := by
  have : d.any (fun e => e.1 == k) = false := by
    rw [List.any_eq_false]
    intro e he heq
    exact h (by rw [← (by simpa using heq : e.1 = k)]; exact List.mem_map_of_mem he)
  simp [dictSet, this]

theorem foldl_dictSet (acc l : List (String × α)) (h : ((acc ++ l).map Prod.fst).Nodup) :
    l.foldl (fun d e => dictSet d e.1 e.2) acc = acc ++ l := by
  induction l generalizing acc with
  | nil => simp
  | cons a l ih =>
    simp only [List.foldl_cons]
    have hk : a.1 ∉ acc.map Prod.fst := by
      intro hmem
      simp only [List.map_append, List.map_cons] at h
      exact (List.nodup_append.mp h).2.2 _ hmem _ (by simp) rfl
    rw [dictSet_append acc a.1 a.2 hk]
    have := ih (acc ++ [(a.1, a.2)]) (by simpa using h)
    simpa using this

theorem rep_one (d : Data K) : d.rep 1 = d := by
  cases d <;> simp [Data.rep]

theorem bcast_self (natoms : Nat) (a : Arr K) (t : List Nat) (h : a.shape = natoms :: t) : bcast natoms a = some a := by
  obtain ⟨sh, d⟩ := a
  simp only at h
  subst h
  by_cases h1 : natoms = 1
  · subst h1; simp [bcast, rep_one]
  · simp [bcast, h1]

theorem foldl_min_ge (l : List Int) (i : Int) (hi : 1 ≤ i) (h : ∀ j ∈ l, 1 ≤ j) : 1 ≤ l.foldl min i := by
  induction l generalizing i with
  | nil => simpa
  | cons a l ih =>
    simp only [List.foldl_cons]
    exact ih (min i a) (by have := h a (by simp); omega) (fun j hj => h j (by simp [hj]))
end lists
section atoms
variable {K : Type}

/-- a per-atom property array: leading dimension `natoms`, buffer of the right non-zero size. -/
def PropOk (natoms : Nat) (a : Arr K) : Prop :=
  (∃ t, a.shape = natoms :: t) ∧ a.data.length = prodNat a.shape ∧ prodNat a.shape ≠ 0

/-- invariants of an `Atoms` object: `atype` (integers ≥ 1) and `pos` ((natoms,3) floats) first,
    distinct property names, every property has `natoms` rows. -/
structure AtomsM.Wf (a : AtomsM K) : Prop where
  head : ∃ (la : List Int) (lp : List K) (rest : List (String × Arr K)),
    a.props = ("atype", ⟨[a.natoms], .int la⟩) :: ("pos", ⟨[a.natoms, 3], .flt lp⟩) :: rest ∧ ∀ i ∈ la, 1 ≤ i
  nodup : (a.props.map Prod.fst).Nodup
  ok : ∀ p ∈ a.props, PropOk a.natoms p.2

/-- a unit assignment is admissible: `atype` carries no unit, string data carry no unit. -/
def UnitsOk (a : AtomsM K) (un : String → Option String) : Prop :=
  un "atype" = none ∧ ∀ p ∈ a.props, ∀ l, p.2.data = .str l → effUnit p.1 (un p.1) = none

variable [Field K]

omit [Field K] in
theorem node_getStr_unit (v : DM K) (sh : List Nat) (units : Option String) :
    (DM.node (("value", v) :: (shapeEntry (K := K) sh ++ unitEntry units))).getStr? "unit" = units := by
  rcases sh with _ | ⟨n, _ | ⟨m, r⟩⟩ <;> cases units <;>
    simp [DM.getStr?, DM.get?, List.lookup, shapeEntry, unitEntry]

theorem ucModel_unit (fac : String → K) (units : Option String) (a : Arr K) (t : DM K)
    (h : ucModel fac units a = some t) : t.getStr? "unit" = units := by
  unfold ucModel at h
  split at h
  · cases h
  · split at h
    · cases h
    · cases h
      exact node_getStr_unit _ _ _

/-- the value of property `p` after writing under `fac1` and reading under `fac2`. -/
def propTwo (fac1 fac2 : String → K) (un : String → Option String) (p : String × Arr K) : String × Arr K :=
  (p.1, ⟨p.2.shape, p.2.data.rescale fac1 fac2 (effUnit p.1 (un p.1))⟩)

theorem prop_two (fac1 fac2 : String → K) (a : AtomsM K) (hw : a.Wf) (un : String → Option String)
    (hu : UnitsOk a un) (p : String × Arr K) (hp : p ∈ a.props) :
    ∃ t, propModel fac1 a (p.1, un p.1) = some t ∧ propRead fac2 t = some (propTwo fac1 fac2 un p) ∧
      (t.getStr? "name" = some p.1 ∧ ∃ d, t.get? "data" = some d ∧ d.getStr? "unit" = effUnit p.1 (un p.1)) := by
  obtain ⟨_, h2, h3⟩ := hw.ok p hp
  obtain ⟨t, ht1, ht2⟩ := valueUnit_model_two fac1 fac2 (effUnit p.1 (un p.1)) p.2 h2 h3 (hu.2 p hp)
  refine ⟨DM.node [("name", DM.leaf (Sc.str p.1)), ("data", t)], ?_, ?_, ?_⟩
  · simp only [propModel, lookup_of_mem_nodup a.props hw.nodup p hp, ht1]
  · simp [propRead, DM.getStr?, DM.get?, List.lookup, ht2, propTwo]
  · refine ⟨by simp [DM.getStr?, DM.get?, List.lookup], t, by simp [DM.get?, List.lookup], ?_⟩
    exact ucModel_unit fac1 _ p.2 t ht1

omit [Field K] in
theorem mapOpt_map {α β γ : Type} (f : β → Option γ) (g : α → β) (l : List α) :
    mapOpt f (l.map g) = mapOpt (fun x => f (g x)) l := by
  induction l with
  | nil => rfl
  | cons a l ih => simp [mapOpt, ih]

theorem atomsOfProps_wf (n : Nat) (la : List Int) (lp : List K) (rest : List (String × Arr K))
    (hla : ∀ i ∈ la, 1 ≤ i) (hne : la ≠ [])
    (hnd : ((("atype", (⟨[n], .int la⟩ : Arr K)) :: ("pos", ⟨[n, 3], .flt lp⟩) :: rest).map Prod.fst).Nodup)
    (hsh : ∀ p ∈ rest, ∃ t, p.2.shape = n :: t) :
    atomsOfProps n (("atype", ⟨[n], .int la⟩) :: ("pos", ⟨[n, 3], .flt lp⟩) :: rest)
      = some ⟨n, ("atype", ⟨[n], .int la⟩) :: ("pos", ⟨[n, 3], .flt lp⟩) :: rest⟩ := by
  simp only [List.map_cons, List.nodup_cons, List.mem_cons, not_or] at hnd
  have hfilter : rest.filter (fun e => e.1 != "atype" && e.1 != "pos") = rest := by
    rw [List.filter_eq_self]
    intro e he
    have h1 : e.1 ≠ "atype" := fun h => hnd.1.2 (by rw [← h]; exact List.mem_map_of_mem he)
    have h2 : e.1 ≠ "pos" := fun h => hnd.2.1 (by rw [← h]; exact List.mem_map_of_mem he)
    simp [h1, h2]
  have hrest : mapOpt (fun e => (bcast n e.2).map (fun a => (e.1, a))) rest = some rest := by
    have := mapOpt_map_some (fun e : String × Arr K => (bcast n e.2).map (fun a => (e.1, a))) id rest (by
      intro e he
      obtain ⟨t, ht⟩ := hsh e he
      simp [bcast_self n e.2 t ht])
    simpa using this
  obtain ⟨i, l, rfl⟩ := List.exists_cons_of_ne_nil hne
  have hmin : ¬ (l.foldl min i < 1) := by
    have := foldl_min_ge l i (hla i (by simp)) (fun j hj => hla j (by simp [hj]))
    omega
  have hb1 := bcast_self n (⟨[n], .int (i :: l)⟩ : Arr K) [] rfl
  have hb2 := bcast_self n (⟨[n, 3], .flt lp⟩ : Arr K) [3] rfl
  simp [atomsOfProps, List.lookup, hfilter, hb1, hb2, hrest, Data.minInt?, hmin]


/-- `Atoms(model=t)` on a tree whose `"atoms"` entry lists property trees `ps` that read as `l`. -/
theorem atomsRead_of (fac2 : String → K) (t : DM K) (n : Nat) (ps : List (DM K)) (l : List (String × Arr K))
    (ht : t.get? "atoms" = some (DM.node (("natoms", DM.leaf (Sc.int n)) :: appendAll "property" ps)))
    (hfa : List.Forall₂ (fun p x => propRead fac2 x = some p) l ps)
    (la : List Int) (lp : List K) (rest : List (String × Arr K))
    (hl : l = ("atype", ⟨[n], .int la⟩) :: ("pos", ⟨[n, 3], .flt lp⟩) :: rest)
    (hla : ∀ i ∈ la, 1 ≤ i) (hlane : la ≠ []) (hnd : (l.map Prod.fst).Nodup)
    (hsh : ∀ p ∈ rest, ∃ t, p.2.shape = n :: t) :
    atomsRead fac2 t = some ⟨n, l⟩ := by
  have hread := mapOpt_forall2 (propRead fac2) id l ps (by simpa using hfa)
  have hfold := foldl_dictSet [] l (by simpa using hnd)
  have hfinal : atomsOfProps n l = some ⟨n, l⟩ := by
    subst hl
    exact atomsOfProps_wf n la lp rest hla hlane hnd hsh
  subst hl
  obtain ⟨ta, ps1, _, hfa1, rfl⟩ := List.forall₂_cons_left_iff.mp hfa
  obtain ⟨tp, trest, _, _, rfl⟩ := List.forall₂_cons_left_iff.mp hfa1
  simp only [List.map_id] at hread
  simp only [atomsRead, ht]
  simp [DM.get?, List.lookup, appendAll, DM.aslist, hread, hfold, hfinal]

omit [Field K] in
theorem atype_nonempty (a : AtomsM K) (hw : a.Wf) (la : List Int) (x' : String × Arr K) (rest : List (String × Arr K))
    (h : a.props = ("atype", ⟨[a.natoms], .int la⟩) :: x' :: rest) : la ≠ [] := by
  rintro rfl
  obtain ⟨_, h2, h3⟩ := hw.ok ("atype", ⟨[a.natoms], .int []⟩) (by rw [h]; simp)
  exact h3 (by rw [← h2]; rfl)

/-- what the writer puts under `"atoms"` and what the reader makes of it. -/
theorem atoms_model_two (fac1 fac2 : String → K) (a : AtomsM K) (hw : a.Wf) (un : String → Option String)
    (hu : UnitsOk a un) :
    ∃ t, atomsModel fac1 (a.props.map (fun p => (p.1, un p.1))) a = some t ∧
      atomsRead fac2 t = some ⟨a.natoms, a.props.map (propTwo fac1 fac2 un)⟩ := by
  obtain ⟨ps, hps, hfa⟩ := mapOpt_exists (fun p : String × Arr K => propModel fac1 a (p.1, un p.1))
    (fun p t => propRead fac2 t = some (propTwo fac1 fac2 un p)) a.props
    (fun p hp => by
      obtain ⟨t, h1, h2, _⟩ := prop_two fac1 fac2 a hw un hu p hp
      exact ⟨t, h1, h2⟩)
  obtain ⟨la, lp, rest, hprops, hla⟩ := hw.head
  refine ⟨DM.node [("atoms", DM.node (("natoms", DM.leaf (Sc.int a.natoms)) :: appendAll "property" ps))],
    by simp only [atomsModel, mapOpt_map, hps], ?_⟩
  have hat : effUnit "atype" (un "atype") = none := by rw [hu.1]; rfl
  refine atomsRead_of fac2 _ a.natoms ps _ (by simp [DM.get?, List.lookup])
    (List.forall₂_map_left_iff.mpr hfa) la (lp.map (scaleFn fac1 fac2 (effUnit "pos" (un "pos"))))
    (rest.map (propTwo fac1 fac2 un)) ?_ hla (atype_nonempty a hw la _ rest hprops) ?_ ?_
  · rw [hprops]; simp [propTwo, hat, Data.rescale]
  · have : (a.props.map (propTwo fac1 fac2 un)).map Prod.fst = a.props.map Prod.fst := by
      simp [List.map_map, Function.comp_def, propTwo]
    rw [this]; exact hw.nodup
  · intro p hp
    obtain ⟨q, hq, rfl⟩ := List.mem_map.mp hp
    exact (hw.ok q (by rw [hprops]; simp [hq])).1
end atoms
end Atomman.C10
