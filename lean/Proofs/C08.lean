/-
  C08 — property theorems: loading what was dumped returns the system.
  Model: Atomman/C08.lean (the loaders as coded) on top of Atomman/C07.lean (text layer, writers, independent
  parsers); loader tables: Atomman/Generated/LoadStyles.lean (regenerated from /repo on every run).
-/
import Proofs.C08_Data
import Proofs.C08_Formats
import Proofs.C08_Indep
import Proofs.C08_Shape
import Proofs.C08_Values
import Proofs.C08_Routes
import Proofs.C08_Source
import Proofs.C08_Compose
namespace Atomman.C08
open Atomman Atomman.C07
set_option linter.unusedSimpArgs false

/-! ## the loader reads the columns the writer writes -/

/-- **loader_tables_match_writer**: per atom_style the `Atoms` and `Velocities` columns the loader expects
    (regenerated from `atomman/load/atom_data/*_prop_info.py`) are the ones the writer emits (regenerated from
    `atomman/dump/atom_data/*_prop_info.py`), with the same unit kinds; the same for the standard dump-file columns;
    every loader table — the `hybrid` composition included — uses the unit style it is asked for, and the dump
    conversions exist for the unit-less style `lj`. -/
theorem loader_tables_match_writer :
    Gen.LoadStyles.atomStyles = Gen.AtomStyles.atomStyles ∧ Gen.LoadStyles.velStyles = Gen.AtomStyles.velStyles ∧
    Gen.LoadStyles.dumpStandard = Gen.AtomStyles.dumpStandard ∧ Gen.LoadStyles.forwardsUnits = true ∧
    Gen.LoadStyles.dumpStandardLjOk = true :=
  ⟨by decide +kernel, by decide +kernel, by decide +kernel, by decide +kernel, by decide +kernel⟩

/-! ## columns ↔ property shape -/

/-- **table_reshape_roundtrip**: for a per-atom property of shape `shape` the writer's column names are
    `name[i][j]…` over the index tuples in `indexstr` order (`C07.indexNames`, used by `dumpCol`), there are
    `∏ shape` of them, and the `k`-th column holds the component whose row-major (C-order) offset is `k` — which is
    where `values.reshape((natoms,) + shape)` of the loader reads component `[i][j]…` from.  So reshaping the cells
    of the columns written for a property gives the property back, component by component. -/
theorem table_reshape_roundtrip (name : String) (shape : List Nat) :
    indexNames name shape = (allIndices shape).map (indexName name) ∧
    (allIndices shape).length = shapeProd shape ∧
    (allIndices shape).map (flatIndex shape) = List.range (shapeProd shape) :=
  ⟨indexNames_eq_map name shape, length_allIndices shape, flatIndex_allIndices shape⟩

example : indexNames "stress" [2, 2] = ["stress[0][0]", "stress[0][1]", "stress[1][0]", "stress[1][1]"] := by decide +kernel
example : (allIndices [2, 3]).map (flatIndex [2, 3]) = [0, 1, 2, 3, 4, 5] := by decide +kernel

/-- **reshape_flatten_roundtrip**: on the values themselves, for every shape — the one-column shapes `()`, `(1,)`,
    `(1,1)`, `(1,1,1)` and the row / column shapes `(1,3)`, `(3,1)` are not special: the row-major cells of a value of
    shape `shape` reshape to that value; whatever `reshape shape cells` returns has exactly the shape `shape` and
    flattens back to the cells; and it exists exactly for `∏ shape` cells. -/
theorem reshape_flatten_roundtrip (shape : List Nat) :
    (∀ t : Tensor, t.hasShape shape = true → reshape shape t.flatten = some t) ∧
    (∀ (l : List Rat) (t : Tensor), reshape shape l = some t → t.hasShape shape = true ∧ t.flatten = l) ∧
    (∀ l : List Rat, (reshape shape l).isSome ↔ l.length = shapeProd shape) :=
  ⟨fun t h => reshape_flatten t shape h, reshape_hasShape_flatten shape, reshape_isSome_iff shape⟩

/-- **shape_told_apart**: a value has one shape only (no axis empty), so a property that comes back as `()` where
    `(1,)` or `(1,1)` was dumped is a different value even though its single number agrees. -/
theorem shape_told_apart (t : Tensor) (s₁ s₂ : List Nat) (h₁ : t.hasShape s₁ = true) (h₂ : t.hasShape s₂ = true)
    (hne : ∀ d ∈ s₁, d ≠ 0) : s₁ = s₂ :=
  hasShape_unique t s₁ s₂ h₁ h₂ hne

/-- one cell, reshaped to `()`, `(1,)`, `(1,1)`: the same number, three values of three different shapes; and the
    row `(1,3)` and the column `(3,1)` over the same three cells. -/
example :
    ([[], [1], [1, 1], [1, 1, 1]].map fun sh => (reshape sh [5]).map fun t =>
        (t.flatten, [[], [1], [1, 1], [1, 1, 1]].map t.hasShape)) =
      [some ([5], [true, false, false, false]), some ([5], [false, true, false, false]),
       some ([5], [false, false, true, false]), some ([5], [false, false, false, true])] ∧
    ([[3], [1, 3], [3, 1]].map fun sh => (reshape sh [1, 2, 3]).map fun t =>
        (t.flatten, [[3], [1, 3], [3, 1]].map t.hasShape, t.get? [0, 2], t.get? [2, 0])) =
      [some ([1, 2, 3], [true, false, false], none, none), some ([1, 2, 3], [false, true, false], some 3, none),
       some ([1, 2, 3], [false, false, true], none, some 3)] := by
  decide +kernel

/-- **tableLoad_prop_shape** ("every carried per-atom property with its shape"): after the table reader ran with a
    `prop_info` list naming each property once, every listed property (the atom id is not stored) is in the
    system with exactly the shape of its entry — never squeezed or flattened — and that shape accounts for all of
    its table columns.  Used by all three LAMMPS / table loaders (`loadTable`, `readAtoms`, `loadDumpCore`). -/
theorem tableLoad_prop_shape (s s' : Loaded) (rows : List Line) (cols : List PCol) (usecols : Bool)
    (hnd : (cols.map (·.prop)).Nodup) (h : tableLoad s rows cols usecols = .ok s') :
    ∀ c ∈ cols, c.prop ≠ "a_id" →
      ∃ q, s'.prop? c.prop = some q ∧ q.shape = c.shape ∧ shapeProd c.shape = c.names.length :=
  tableLoad_shape s s' rows cols usecols hnd h

/-- **tableLoad_prop_values** ("… every carried per-atom property … with unit conversions undone"): the table
    reader in closed form, property by property.  With one table row per atom, every listed property holds, in
    atom-id order (`sortRows`), the cells of its own column group (`groupCells`: the columns after those of the
    entries before it) exactly as read — or each times the unit factor of the entry — under the entry's shape. -/
theorem tableLoad_prop_values (s s' : Loaded) (rows : List Line) (cols : List PCol) (usecols : Bool)
    (hnd : (cols.map (·.prop)).Nodup) (h : tableLoad s rows cols usecols = .ok s') :
    ∃ tbl, readTable rows (colsWidth cols) usecols = .ok tbl ∧
      (tbl.length = s.natoms → ∀ (j : Nat) (hj : j < cols.length), cols[j].prop ≠ "a_id" →
        ∃ q, s'.prop? cols[j].prop = some q ∧ q.shape = cols[j].shape ∧
          (cols[j].unit = .none → q.vals = (sortRows cols tbl).map fun r => (groupCells cols j r).map Val.toRat) ∧
          (∀ f, cols[j].unit = .factor f →
            q.vals = (sortRows cols tbl).map fun r => (groupCells cols j r).map fun v => v.toRat * f)) :=
  tableLoad_vals s s' rows cols usecols hnd h

/-- a table with a scalar, a `(1,)`, a `(1,1)` and a `(1,3)` property: four different shapes come back. -/
example :
    ((loadTable "1 2.5 7 1 2 3\n2 3.5 8 4 5 6\n".toList ⟨⟨⟨1, 0, 0⟩, ⟨0, 1, 0⟩, ⟨0, 0, 1⟩⟩, ⟨0, 0, 0⟩⟩
        [⟨"atype", ["type"], [], .none⟩, ⟨"w", ["w[0]"], [1], .none⟩, ⟨"k", ["k[0][0]"], [1, 1], .none⟩,
         ⟨"r", ["r[0][0]", "r[0][1]", "r[0][2]"], [1, 3], .none⟩] false).toOption.map
      fun s => s.props.map fun p => (p.name, p.shape, p.isInt)) =
    some [("atype", [], true), ("pos", [3], false), ("w", [1], false), ("k", [1, 1], true), ("r", [1, 3], true)] := by
  decide +kernel

/-- rows out of id order, a `(1,)` column with a unit factor 1/2 and a boolean `(1,1)` column. -/
def exTable : Option Loaded :=
  (loadTable "2 3.5 False\n1 2.5 True\n".toList ⟨⟨⟨1, 0, 0⟩, ⟨0, 1, 0⟩, ⟨0, 0, 1⟩⟩, ⟨0, 0, 0⟩⟩
    [⟨"a_id", ["id"], [], .none⟩, ⟨"w", ["w[0]"], [1], .factor (1 / 2)⟩, ⟨"b", ["b[0][0]"], [1, 1], .none⟩] false).toOption

/-- … the values come back in id order, converted, under the shapes `(1,)` and `(1,1)`; the boolean column is boolean. -/
example : (exTable.map fun s => (s.props.drop 2).map fun p => p.vals) = some [[[5 / 4], [7 / 4]], [[1], [0]]] := by
  decide +kernel
example : (exTable.map fun s => (s.props.drop 2).map fun p => (p.name, p.shape)) = some [("w", [1]), ("b", [1, 1])] := by
  decide +kernel
example : (exTable.map fun s => (s.props.drop 2).map fun p => (p.isInt, p.isBool)) = some [(false, false), (false, true)] := by
  decide +kernel

/-! ## order of the atom lines -/

/-- **load_perm_invariant_table**: a table that has an `id` column with distinct ids loads to the same system for
    every order of its rows (the body of `load('table')`, used by every LAMMPS loader). -/
theorem load_perm_invariant_table (s : Loaded) {rows₁ rows₂ : List Line} (cols : List PCol) (usecols : Bool) (i : Nat)
    (hp : rows₁.Perm rows₂) (hid : idIndex cols = some i)
    (hd : ∀ t, readTable rows₁ (colsWidth cols) usecols = .ok t → (t.map (rowKey i)).Nodup) :
    tableLoad s rows₁ cols usecols = tableLoad s rows₂ cols usecols :=
  tableLoad_perm s cols usecols i hp hid hd

/-- the id is NOT the leading column (`type id w`, as LAMMPS `dump custom type id …` writes) … -/
def exTableIdSecond (text : String) : Option (List (String × List (List Rat))) :=
  (loadTable text.toList ⟨⟨⟨1, 0, 0⟩, ⟨0, 1, 0⟩, ⟨0, 0, 1⟩⟩, ⟨0, 0, 0⟩⟩
    [⟨"atype", ["type"], [], .none⟩, ⟨"a_id", ["id"], [], .none⟩, ⟨"w", ["w"], [], .none⟩] false).toOption.map
      fun s => s.props.map fun p => (p.name, p.vals)

/-- … the rows come back in id order whatever the order of the lines (non-vacuity of `load_perm_invariant_table` for
    `idIndex cols = some 1`). -/
example : exTableIdSecond "2 3 7.5\n1 1 2.5\n2 2 3.5\n" = exTableIdSecond "1 1 2.5\n2 2 3.5\n2 3 7.5\n" ∧
    exTableIdSecond "2 2 3.5\n2 3 7.5\n1 1 2.5\n" = exTableIdSecond "1 1 2.5\n2 2 3.5\n2 3 7.5\n" ∧
    idIndex [⟨"atype", ["type"], [], .none⟩, ⟨"a_id", ["id"], [], .none⟩, ⟨"w", ["w"], [], .none⟩] = some 1 := by
  decide +kernel
example : exTableIdSecond "2 3 7.5\n1 1 2.5\n2 2 3.5\n" =
    some [("atype", [[1], [2], [2]]), ("pos", [[0, 0, 0], [0, 0, 0], [0, 0, 0]]), ("w", [[5 / 2], [7 / 2], [15 / 2]])] := by
  decide +kernel

/-- in every atom_style the loader knows, the atom id is the first column (what the flag reader relies on). -/
theorem atom_styles_id_first :
    ∀ e ∈ Gen.LoadStyles.atomStyles, (e.2.head?).map (fun c => (c.1, c.2.1)) = some ("a_id", ["id"]) := by
  decide +kernel

/-! statement audit: `hid` (the id is the leading column of the column list of EVERY atom_style, hybrids included) was a
    hypothesis of `load_perm_invariant` / `load_perm_invariant_data_file`; it is a fact about the regenerated tables -/

theorem resolveCol_names {u : Units} {c : ColSpec} {p : PCol} (h : resolveCol u c = .ok p) : p.names = c.names := by
  unfold resolveCol at h
  cases hu : resolveUnit u c.unit with
  | error e => simp [hu, bind, Except.bind] at h
  | ok v =>
    simp only [hu, bind, Except.bind, pure, Except.pure, Except.ok.injEq] at h
    subst h; rfl

theorem lookupStyle_head {st : String} {cs : List ColSpec}
    (h : lookupStyle Gen.LoadStyles.atomStyles st = some cs) : ∃ c rest, cs = c :: rest ∧ c.names = ["id"] := by
  obtain ⟨e, he, _, hne, rfl⟩ := lookupStyle_some h
  have := atom_styles_id_first e he
  cases h2 : e.2 with
  | nil => exact absurd h2 hne
  | cons g rest =>
    rw [h2] at this
    simp only [List.head?_cons, Option.map_some, Option.some.injEq, Prod.mk.injEq] at this
    exact ⟨ofGenCol g, rest.map ofGenCol, by simp, this.2⟩

theorem hybridFold_head (tbl : List (String × List Gen.AtomStyles.Col)) (subs : List String) :
    ∀ (base acc : List ColSpec) (c : ColSpec) (rest : List ColSpec), base = c :: rest →
      subs.foldlM (fun acc sub => do
        let sc ← lookupStyle tbl sub
        pure (acc ++ sc.filter fun c => !(acc.any (·.prop = c.prop)))) base = some acc →
      ∃ rest', acc = c :: rest' := by
  induction subs with
  | nil => intro base acc c rest hb h; simp at h; subst h; exact ⟨rest, hb⟩
  | cons s ss ih =>
    intro base acc c rest hb h
    rw [List.foldlM_cons] at h
    cases hl : lookupStyle tbl s with
    | none => simp [hl] at h
    | some sc =>
      simp only [hl, Option.bind_eq_bind, Option.bind_some, Option.pure_def] at h
      subst hb
      exact ih _ acc c (rest ++ sc.filter fun c' => !((c :: rest).any (·.prop = c'.prop))) rfl h

/-- the id is the leading column of every column list the loader builds from an atom_style — plain or hybrid. -/
theorem lookupCols_id_first (st : String) (u : Units) (cols : List PCol)
    (h : lookupCols Gen.LoadStyles.atomStyles st u = .ok cols) : idIndex cols = some 0 := by
  unfold lookupCols at h
  cases hs : loadStyleCols Gen.LoadStyles.atomStyles st with
  | none => rw [hs] at h; cases h
  | some cs =>
    rw [hs] at h
    have hhead : ∃ c rest, cs = c :: rest ∧ c.names = ["id"] := by
      unfold loadStyleCols at hs
      split at hs
      · unfold hybridCols at hs
        cases hb : lookupStyle Gen.LoadStyles.atomStyles "atomic" with
        | none => simp [hb] at hs
        | some base =>
          obtain ⟨c, rest, rfl, hc⟩ := lookupStyle_head hb
          simp only [hb, Option.bind_eq_bind, Option.bind_some] at hs
          obtain ⟨rest', rfl⟩ := hybridFold_head _ _ _ cs c rest rfl hs
          exact ⟨c, rest', rfl, hc⟩
      · exact lookupStyle_head hs
    obtain ⟨c, rest, rfl, hc⟩ := hhead
    simp only [List.mapM_cons, bind, Except.bind, pure, Except.pure] at h
    cases h1 : resolveCol u c with
    | error e => simp [h1] at h
    | ok p =>
      cases h2 : List.mapM (resolveCol u) rest with
      | error e => simp [h1, h2] at h
      | ok ps =>
        simp only [h1, h2, Except.ok.injEq] at h
        subst h
        simp [idIndex, resolveCol_names h1, hc, List.findIdx_cons]

/-- **load_perm_invariant**: the `Atoms` section of a data file — the property table *and* the image-flag shifts,
    both ordered by atom id — loads to the same system for every order of its atom lines, when the ids are
    distinct.  (`load_perm_invariant_table` is the same for dump files, tables and the `Velocities` section.) -/
theorem load_perm_invariant {rows₁ rows₂ : List Line} (atomsColumns : Nat) (s : Loaded) (style : String) (u : Units)
    (hp : rows₁.Perm rows₂)
    (hd : ∀ cols t, lookupCols Gen.LoadStyles.atomStyles style u = .ok cols →
      readTable rows₁ (colsWidth cols) true = .ok t → (t.map (rowKey 0)).Nodup)
    (hdf : ∀ cols fl, lookupCols Gen.LoadStyles.atomStyles style u = .ok cols →
      rows₁.mapM (readFlagRow (colsWidth cols)) = .ok fl → (fl.map (·.1)).Nodup) :
    readAtoms rows₁ atomsColumns s style u = readAtoms rows₂ atomsColumns s style u :=
  readAtoms_perm atomsColumns s style u hp (fun cols h => lookupCols_id_first style u cols h) hd hdf

/-- **load_perm_invariant, file level**: two data files laid out like the writer's (header, `Atoms # style`, the atom
    lines, optional `Velocities`) that differ only in the order of their atom lines — all of one width, as many as the
    header says, with distinct ids — load identically, text to system. -/
theorem load_perm_invariant_data_file {f : Fmt} (hf : Readable f) (style : String) (p p' : DataParts) (u : Units)
    (hwords : (styleWords style).map strTok ≠ [] ∧ ∀ t ∈ (styleWords style).map strTok, CleanTok t)
    (hsame : p'.natoms = p.natoms ∧ p'.natypes = p.natypes ∧ p'.hilo = p.hilo ∧ p'.vel = p.vel)
    (hperm : p'.rows.Perm p.rows) (hn : p.natoms = p.rows.length) (m : Nat) (hm : ∀ r ∈ p.rows, r.length = m)
    (hne : p.rows ≠ []) (hm0 : m ≠ 0) (hv : ∀ vr, p.vel = some vr → ∀ r ∈ vr, r ≠ [])
    (pbc : V3 Bool) (symbols : Option (List (Option String))) (styleArg : Option String)
    (hd : ∀ st cols t, lookupCols Gen.LoadStyles.atomStyles st u = .ok cols →
      readTable (rowsDoc f p.rows) (colsWidth cols) true = .ok t → (t.map (rowKey 0)).Nodup)
    (hdf : ∀ st cols fl, lookupCols Gen.LoadStyles.atomStyles st u = .ok cols →
      (rowsDoc f p.rows).mapM (readFlagRow (colsWidth cols)) = .ok fl → (fl.map (·.1)).Nodup) :
    loadData (renderLines (dataDocOf f style p)) pbc symbols styleArg u =
      loadData (renderLines (dataDocOf f style p')) pbc symbols styleArg u :=
  data_file_rows_perm hf style p p' u hwords hsame hperm hn m hm hne hm0 hv pbc symbols styleArg (fun st cols h => lookupCols_id_first st u cols h) hd hdf


/-- two atom lines in either order: same system (the hypotheses of `load_perm_invariant` are satisfiable). -/
example :
    (loadData "\n2 atoms\n1 atom types\n0 4 xlo xhi\n0 4 ylo yhi\n0 4 zlo zhi\n\nAtoms\n\n2 1 1.5 0.5 0.5 1 0 0\n1 1 0.5 0.5 0.5 0 0 -1\n".toList
        ⟨true, true, true⟩ none none [("length", some 1)]) =
    (loadData "\n2 atoms\n1 atom types\n0 4 xlo xhi\n0 4 ylo yhi\n0 4 zlo zhi\n\nAtoms\n\n1 1 0.5 0.5 0.5 0 0 -1\n2 1 1.5 0.5 0.5 1 0 0\n".toList
        ⟨true, true, true⟩ none none [("length", some 1)]) := by
  decide +kernel

/-! ## comments and blank lines -/

/-- **load_comment_blank_invariant**: the data-file loader sees a file only through its significant lines — the
    terms left after cutting each line at `#`, and the comment of the `Atoms` line.  Two files with the same
    significant lines load identically (both error or both the same system). -/
theorem load_comment_blank_invariant (l₁ l₂ : List RawLine) (hs : sig l₁ = sig l₂)
    (hl : l₁.length ≤ 1 ↔ l₂.length ≤ 1) (pbc : V3 Bool) (symbols : Option (List (Option String)))
    (styleArg : Option String) (u : Units) :
    loadDataLines l₁ pbc symbols styleArg u = loadDataLines l₂ pbc symbols styleArg u := by
  rw [loadDataLines_eq_sig, loadDataLines_eq_sig, hs]
  congr 1
  exact decide_eq_decide.mpr hl

/-- a line without terms (blank, white space only, or a comment-only line, indented or not) can be inserted or
    removed anywhere. -/
theorem sig_insert_blank (a b : List RawLine) (l : RawLine) (h : termsC l = []) : sig (a ++ l :: b) = sig (a ++ b) := by
  unfold sig
  simp only [List.map_append, List.map_cons, List.filter_append, List.filter_cons]
  have : (sigOf l).terms = [] := h
  simp [this]

theorem lexLine_spaces (ws : List Char) (h : ws.all isSpace = true) : lexLine ws = [] := by
  induction ws with
  | nil => rfl
  | cons c cs ih =>
    simp only [List.all_cons, Bool.and_eq_true] at h
    unfold lexLine
    simp [h.1, ih h.2]

/-- white space followed by a comment has no terms. -/
theorem termsC_comment_only (ws c : List Char) (h : ws.all isSpace = true) : termsC (ws ++ '#' :: c) = [] := by
  unfold termsC stripComment
  have hw : ∀ x ∈ ws, x ≠ '#' := by
    intro x hx
    have := List.all_eq_true.mp h x hx
    intro hc; subst hc; revert this; decide
  have : List.takeWhile (fun x => decide (x ≠ '#')) (ws ++ '#' :: c) = ws := by
    rw [List.takeWhile_append_of_pos (by intro x hx; simpa using hw x hx)]
    simp
  rw [this]
  exact lexLine_spaces ws h

/-- a trailing comment on a line that has none changes nothing, except on the `Atoms` line, whose comment is the
    atom_style. -/
theorem sigOf_trailing_comment (l c : List Char) (hl : l.all (· ≠ '#') = true) (hk : classify (termsC l) ≠ .atoms) :
    sigOf (l ++ '#' :: c) = sigOf l := by
  have ht : termsC (l ++ '#' :: c) = termsC l := by
    unfold termsC stripComment
    have h1 : ∀ x ∈ l, x ≠ '#' := fun x hx => by simpa using List.all_eq_true.mp hl x hx
    have h2 : ∀ (m : List Char), (∀ x ∈ m, x ≠ '#') → List.takeWhile (fun x => decide (x ≠ '#')) m = m := by
      intro m hm
      have := List.takeWhile_append_of_pos (p := fun x => decide (x ≠ '#')) (l₁ := m) (l₂ := [])
        (by intro x hx; simpa using hm x hx)
      simpa using this
    rw [List.takeWhile_append_of_pos (by intro x hx; simpa using h1 x hx), h2 l h1]
    simp
  unfold sigOf
  rw [ht]
  simp [hk]

example : sig [cs!"  # 5 atoms", cs!"3 atoms # c", cs!"", cs!" \t"] = [⟨[cs!"3", cs!"atoms"], none⟩] := by decide +kernel

/-- **load_comment_blank_invariant (dump files)**: the dump-file loader sees a file only through its lines that have
    terms; blank and white-space-only lines can be inserted or removed anywhere. -/
theorem load_blank_invariant_dump (l₁ l₂ : List RawLine) (h : rowsOf false l₁ = rowsOf false l₂)
    (symbols : Option (List (Option String))) (given : Option (List PCol)) (u : Units) :
    loadDumpLines l₁ symbols given u = loadDumpLines l₂ symbols given u := by
  rw [loadDumpLines_eq_rows, loadDumpLines_eq_rows, h]

/-! ## a data file lacking a required item -/

/-- no significant line of the file is an atoms-count line, or none gives the x (y, z) bounds, or none is the
    `Atoms` section header. -/
def MissingRequired (sl : List SigLine) : Prop :=
  (∀ e ∈ sl, ∀ n, classify e.terms ≠ .natoms n) ∨ (∀ e ∈ sl, ∀ p q, classify e.terms ≠ .xb p q) ∨
  (∀ e ∈ sl, ∀ p q, classify e.terms ≠ .yb p q) ∨ (∀ e ∈ sl, ∀ p q, classify e.terms ≠ .zb p q) ∨
  (∀ e ∈ sl, classify e.terms ≠ .atoms)

theorem fpFinish_missing (s : FP)
    (h : s.natoms = none ∨ s.x = none ∨ s.y = none ∨ s.z = none ∨ s.atomsStart = none) :
    fpFinish s false = .error "format" := by
  unfold fpFinish
  cases hn : s.natoms <;> cases hx : s.x <;> cases hy : s.y <;> cases hz : s.z <;> cases ha : s.atomsStart <;>
    simp_all [bind, Except.bind, pure, Except.pure, throw, throwThe, MonadExceptOf.throw]

theorem fpFinish_short (s : FP) : fpFinish s true = .error "notfound" := by
  unfold fpFinish
  simp [bind, Except.bind, throw, throwThe, MonadExceptOf.throw]

/-- **missing_section_rejected**: a data file in which no line gives the number of atoms, or the x, y or z bounds,
    or which has no `Atoms` section line, is never loaded; and whenever the first pass gets through the lines that
    are there (no malformed number, no malformed Masses entry) and the content is more than one line, the result is
    exactly the format error. -/
theorem missing_section_rejected (lines : List RawLine) (pbc : V3 Bool) (symbols : Option (List (Option String)))
    (styleArg : Option String) (u : Units) (h : MissingRequired (sig lines)) :
    (∀ sys, loadDataLines lines pbc symbols styleArg u ≠ .ok sys) ∧
    (∀ lf s, lengthFactor u = .ok lf → fpLoop lf 0 lines {} = .ok s → 2 ≤ lines.length →
      loadDataLines lines pbc symbols styleArg u = .error "format") := by
  have key : ∀ lf a, fpLoopA lf (sig lines) FPA.init = .ok a →
      a.st.natoms = none ∨ a.st.x = none ∨ a.st.y = none ∨ a.st.z = none ∨ a.st.atomsStart = none := by
    intro lf a ha
    obtain ⟨f1, f2, f3, f4, f5⟩ := fpLoopA_frame lf (sig lines) FPA.init a ha
    rcases h with h | h | h | h | h
    · left; rw [f1 h]; rfl
    · right; left; rw [f2 h]; rfl
    · right; right; left; rw [f3 h]; rfl
    · right; right; right; left; rw [f4 h]; rfl
    · right; right; right; right; rw [f5 h]; rfl
  constructor
  · intro sys hsys
    rw [loadDataLines_eq_sig] at hsys
    unfold loadDataSig at hsys
    cases hlf : lengthFactor u with
    | error e => simp [hlf, bind, Except.bind] at hsys
    | ok lf =>
      cases ha : fpLoopA lf (sig lines) FPA.init with
      | error e => simp [hlf, ha, bind, Except.bind] at hsys
      | ok a =>
        have hm := key lf a ha
        cases hshort : decide (lines.length ≤ 1) with
        | true => simp [hlf, ha, hshort, fpFinish_short, bind, Except.bind] at hsys
        | false => simp [hlf, ha, hshort, fpFinish_missing a.st hm, bind, Except.bind] at hsys
  · intro lf s hlf hs hlen
    rw [loadDataLines_eq_sig]
    unfold loadDataSig
    obtain ⟨hok, _⟩ := sim lf lines [] {} FPA.init rel_init
    obtain ⟨a, ha, _⟩ := hok s hs
    have hshort : decide (lines.length ≤ 1) = false := by simp; omega
    simp [hlf, ha, hshort, fpFinish_missing a.st (key lf a ha), bind, Except.bind]

/-- a file without any `… atoms` line: the hypothesis is not vacuous and the verdict is the format error. -/
example : loadData "\n0 1 xlo xhi\n0 1 ylo yhi\n0 1 zlo zhi\n\nAtoms\n\n1 1 0.5 0.5 0.5\n".toList ⟨true, true, true⟩ none none
    [("length", some 1)] = .error "format" := by decide +kernel


/-! ## load ∘ dump per format, composed with the C07 writer model -/

/-- **load_dump_roundtrip_poscar**: loading any POSCAR file the writer emits returns `poscarLoaded`: the cell is
    `scale × printed lattice rows` with origin 0, the atom types are `1, 2, …` repeated by the printed per-type
    counts (the writer's grouping by type), the symbols are those of the symbols line (or the caller's), positions are
    `scale × printed row` in Cartesian mode and `printed row · cell` in Direct mode.  With `C07.poscar_scale` the
    scaled rows are the system's cell vectors and positions up to the printing of each number. -/
theorem load_dump_roundtrip_poscar {f : Fmt} (hf : Readable f) (s : Sys) (header : List String)
    (symbols : Option (List String)) (coordstyle : String) (scale : ℚ) (text : List Char)
    (hw : writePoscar s header symbols coordstyle scale f = .ok text)
    (hh : ∀ w ∈ header, ∀ c ∈ strTok w, c ≠ '\n')
    (hsy : ∀ l, symbols = some l → (∀ w ∈ l, CleanTok (strTok w)) ∧ (l.map strTok).mapM parseInt? = none)
    (hcs : CleanTok (strTok coordstyle))
    (hlen : (poscarNums s (isCartStyle coordstyle) scale).coords.length =
      (poscarNums s (isCartStyle coordstyle) scale).counts.foldr (· + ·) 0)
    (hne : (poscarNums s (isCartStyle coordstyle) scale).coords ≠ [])
    (symArg : Option (List (Option String))) :
    loadPoscar text symArg =
      .ok (poscarLoaded f scale (poscarNums s (isCartStyle coordstyle) scale).lattice
        (poscarNums s (isCartStyle coordstyle) scale).counts (poscarNums s (isCartStyle coordstyle) scale).coords
        (isCartStyle coordstyle)
        (symArg.getD (writtenSymbols symbols (poscarNums s (isCartStyle coordstyle) scale).counts))) :=
  loadPoscar_writePoscar hf s header symbols coordstyle scale text hw hh hsy hcs hlen hne symArg

def exSysP : Sys :=
  { box := ⟨⟨⟨4, 0, 0⟩, ⟨0, 8, 0⟩, ⟨0, 0, 2⟩⟩, ⟨0, 0, 0⟩⟩, pbc := ⟨true, true, true⟩, natypes := 2,
    atype := [2, 1], pos := [⟨1, 2, 1⟩, ⟨3, 6, 1/2⟩], props := [] }

def exP : Option Loaded :=
  ((writePoscar exSysP ["x"] (some ["Al", "Cu"]) "cartesian" 2 (.fixed 3)).toOption).bind fun t => (loadPoscar t none).toOption

/-- the hypotheses of `load_dump_roundtrip_poscar` are satisfiable and the conclusion is what the loader computes:
    a two-atom system written in Cartesian mode with scale 2 comes back with its cell, symbols and positions (grouped
    by type). -/
example : exP.map (·.symbols) = some [some "Al", some "Cu"] := by decide +kernel
example : exP.map (fun l => (l.prop? "pos").map (·.vals)) = some (some [[3, 6, 1/2], [1, 2, 1]]) := by decide +kernel
example : exP.map (·.box.vects) = some ⟨⟨4, 0, 0⟩, ⟨0, 8, 0⟩, ⟨0, 0, 2⟩⟩ := by decide +kernel

/-- **load_dump_roundtrip_dump_partial**: loading any dump file the writer emits ends the header loop in
    `dumpState` — `NUMBER OF ATOMS`, the `pp` flags as periodic flags, the bounds with the tilt extents removed
    (`dump_bounds_eq_independent`: the inversion of the LAMMPS manual), every number at its printed value times the
    length unit — and reads exactly the written rows.  (`tableLoad_rowsDoc_sorted` then gives the numeric table:
    printed values, sorted by atom id.) -/
theorem load_dump_roundtrip_dump_partial {f : Fmt} (hf : Readable f) (s : Sys) (props : List (String × List Nat))
    (u : Units) (ts : Int) (text : List Char) (hw : writeDump s props u f ts = .ok text)
    (hnames : ∀ t ∈ dumpNames props, CleanTok t)
    (symbols : Option (List (Option String))) (given : Option (List PCol)) :
    ∃ lf rows, lengthFactor u = .ok lf ∧ tableRows s u (dumpIds s) s.pos (dumpCols props) [] = .ok rows ∧
      hasDup (dumpIds s) = false ∧
      ((∀ r ∈ rows, r ≠ []) →
        loadDump text symbols given u = loadDumpCore (dumpState f lf s props) (some (rowsDoc f rows)) symbols given u) :=
  loadDump_writeDump hf s props u ts text hw hnames symbols given

/-- **load_dump_roundtrip_dump_values** (load ∘ dump of a dump file, END TO END, closed form per property): for the
    text `atom_dump.dump` writes (`C07.writeDump`; the rows `C07.tableRows` lays out for the system's atom ids, one per
    atom, **in any id order**), loaded with a column table `pcols` (the one the writer returns, or any other that names
    each property once and accounts for all columns): the loaded system has **the atom count** and **the periodic
    flags** of the dumped one, the caller's symbols, **the cell** built from the header bounds of `dumpState` (tilt
    extents removed: `dump_bounds_eq_independent`), and every listed property (a position variant as `pos`; the atom id
    is not stored) has **the shape of its entry** and holds, atom by atom **in id order**, **the printed values of its
    own column group** — as they stand for `unit = None`, times the unit factor otherwise (`unit_roundtrip_error`: to
    the printed precision with the conversion undone).  This closes `load_dump_roundtrip_dump_partial` for columns
    without conversion or with a unit factor. -/
theorem load_dump_roundtrip_dump_values {f : Fmt} (hf : Readable f) (s : Sys) (props : List (String × List Nat))
    (u : Units) (ts : Int) (text : List Char) (hw : writeDump s props u f ts = .ok text)
    (hnames : ∀ t ∈ dumpNames props, CleanTok t) :
    ∃ lf rows, lengthFactor u = .ok lf ∧ tableRows s u (dumpIds s) s.pos (dumpCols props) [] = .ok rows ∧
      rows.length = s.natoms ∧
      ∀ (symbols : Option (List (Option String))) (pcols : List PCol) (s' : Loaded) (i : Nat),
        rows ≠ [] → (∀ r ∈ rows, r.length = colsWidth pcols) → colsWidth pcols ≠ 0 →
        idIndex pcols = some i → (rows.map (cellKey f (colsWidth pcols) i)).Nodup →
        ((pcols.map renamePos).map (·.prop)).Nodup →
        loadDump text symbols (some pcols) u = .ok s' →
        s'.natoms = s.natoms ∧ s'.pbc = s.pbc ∧ s'.symbols = symbols.getD [] ∧
        (∃ xlo xhi ylo yhi zlo zhi, (dumpState f lf s props).xlo = some xlo ∧ (dumpState f lf s props).xhi = some xhi ∧
          (dumpState f lf s props).ylo = some ylo ∧ (dumpState f lf s props).yhi = some yhi ∧
          (dumpState f lf s props).zlo = some zlo ∧ (dumpState f lf s props).zhi = some zhi ∧
          Box.ofHiLos? xlo xhi ylo yhi zlo zhi (dumpState f lf s props).xy (dumpState f lf s props).xz
            (dumpState f lf s props).yz = some s'.box) ∧
        ∀ (j : Nat) (hj : j < pcols.length), (renamePos pcols[j]).prop ≠ "a_id" →
          ∃ q, s'.prop? (renamePos pcols[j]).prop = some q ∧ q.shape = pcols[j].shape ∧
            (pcols[j].unit = .none →
              q.vals = (sortBy (cellKey f (colsWidth pcols) i) rows).map fun r => groupG pcols j (r.map (cellRat f))) ∧
            (∀ v, pcols[j].unit = .factor v →
              q.vals = (sortBy (cellKey f (colsWidth pcols) i) rows).map fun r =>
                (groupG pcols j (r.map (cellRat f))).map (· * v)) :=
  dump_file_values hf s props u ts text hw hnames

/-- a dump file with its atom lines out of id order, a `(1,)` column with a unit factor, an unwrapped-position column
    group and a non-periodic direction, loaded with a column table. -/
def exDump : Option Loaded :=
  (loadDump "ITEM: TIMESTEP\n0\nITEM: NUMBER OF ATOMS\n2\nITEM: BOX BOUNDS pp pp fm\n0.0 4.0\n0.0 8.0\n0.0 2.0\nITEM: ATOMS id type x y z w[0]\n2 2 1.25 0.5 0.125 7.5\n1 1 0.5 1.25 1.0 2.5\n".toList
    none (some [⟨"a_id", ["id"], [], .none⟩, ⟨"atype", ["type"], [], .none⟩, ⟨"upos", ["x", "y", "z"], [3], .factor 1⟩,
      ⟨"w", ["w[0]"], [1], .factor (1 / 2)⟩]) [("length", some 1)]).toOption

/-- … atom count, flags, and the values in id order under the entry's shape (the conclusion of
    `load_dump_roundtrip_dump_values` on a concrete file). -/
example : exDump.map (fun l => (l.natoms, l.pbc)) = some (2, ⟨true, true, false⟩) := by decide +kernel
example : exDump.map (fun l => (l.prop? "w").map (fun p => (p.shape, p.vals))) = some (some ([1], [[5 / 4], [15 / 4]])) := by
  decide +kernel
example : exDump.map (fun l => (l.prop? "pos").map (·.vals)) = some (some [[1 / 2, 5 / 4, 1], [5 / 4, 1 / 2, 1 / 8]]) := by
  decide +kernel

/-- **load_dump_roundtrip_data_partial**: loading any data file the writer emits ends the first pass in `dataFP`
    (atom count, bounds and tilts at their printed values times the length unit, the atom_style of the `Atoms`
    comment, the width of the first atom line, the `Velocities` offset when there are velocities) and reads exactly
    the written `Atoms` and `Velocities` rows. -/
theorem load_dump_roundtrip_data_partial {f : Fmt} (hf : Readable f) (s : Sys) (style : String) (u : Units)
    (text : List Char) (hw : writeData s style u f = .ok text)
    (hwords : (styleWords style).map strTok ≠ [] ∧ ∀ t ∈ (styleWords style).map strTok, CleanTok t) :
    ∃ lf p w, lengthFactor u = .ok lf ∧ dataParts s style u = .ok (p, w) ∧
      (p.rows ≠ [] → (∀ r ∈ p.rows, r ≠ []) → (∀ vr, p.vel = some vr → ∀ r ∈ vr, r ≠ []) →
        ∀ pbc symbols styleArg, loadData text pbc symbols styleArg u =
          (fpFinish (dataFP f lf ((styleWords style).map strTok) p) false).bind fun fp =>
            loadDataCore fp (dataRowsA f p) (p.vel.map (rowsDoc f)) pbc symbols styleArg u) :=
  loadData_writeData hf s style u text hw hwords

/-- **load_dump_roundtrip_data_values** (load ∘ dump of a data file, END TO END, closed form per property): for the
    text `atom_data.dump` writes (`C07.writeData`: the wrapped system, one atom line per atom, image-flag columns, an
    optional `Velocities` section), loaded with any `pbc` / `symbols` / `atom_style` argument that `chooseStyle` accepts
    against the `Atoms` comment: the loaded system has **the atom count** of the dumped one, and every column group of the
    atom_style's `Atoms` table other than the id and the positions (atom types, charges, molecule ids, densities, … —
    whatever the regenerated loader table lists; not assigned again by the `Velocities` table) has **the shape of its
    entry** and holds, **in id order**, **the printed values of its own columns** — as they stand, or times the unit
    factor of the LAMMPS unit style.  (The positions are those printed values plus the image-flag shift `applyFlags`,
    which touches `pos` only: `applyFlags_other`.)  The first pass (`load_dump_roundtrip_data_partial`), the style
    decision, the table reader and the `Velocities` pass are composed into one statement; `exLoaded` below is a
    concrete instance (two atom lines out of id order, non-zero flags). -/
theorem load_dump_roundtrip_data_values {f : Fmt} (hf : Readable f) (s : Sys) (style : String) (u : Units)
    (text : List Char) (hw : writeData s style u f = .ok text)
    (hwords : (styleWords style).map strTok ≠ [] ∧ ∀ t ∈ (styleWords style).map strTok, CleanTok t) :
    ∃ lf p w, lengthFactor u = .ok lf ∧ dataParts s style u = .ok (p, w) ∧ p.rows.length = s.natoms ∧
      ∀ (pbc : V3 Bool) (symbols : Option (List (Option String))) (styleArg : Option String) (s' : Loaded)
        (style' : String) (cols : List PCol) (n i : Nat),
        p.rows ≠ [] → (∀ r ∈ p.rows, r.length = n) → n ≠ 0 → (∀ vr, p.vel = some vr → ∀ r ∈ vr, r ≠ []) →
        chooseStyle styleArg (some (joinSp ((styleWords style).map strTok))) = .ok style' →
        lookupCols Gen.LoadStyles.atomStyles style' u = .ok cols → colsWidth cols ≤ n →
        idIndex cols = some i → (p.rows.map (cellKey f (colsWidth cols) i)).Nodup → (cols.map (·.prop)).Nodup →
        loadData text pbc symbols styleArg u = .ok s' →
        s'.natoms = s.natoms ∧
        ∀ (j : Nat) (hj : j < cols.length), cols[j].prop ≠ "a_id" → cols[j].prop ≠ "pos" →
          (∀ vc, lookupCols Gen.LoadStyles.velStyles style' u = .ok vc → ∀ c ∈ vc, c.prop ≠ cols[j].prop) →
          ∃ q, s'.prop? cols[j].prop = some q ∧ q.shape = cols[j].shape ∧
            (cols[j].unit = .none →
              q.vals = (sortBy (cellKey f (colsWidth cols) i) p.rows).map fun r =>
                groupG cols j ((r.take (colsWidth cols)).map (cellRat f))) ∧
            (∀ v, cols[j].unit = .factor v →
              q.vals = (sortBy (cellKey f (colsWidth cols) i) p.rows).map fun r =>
                (groupG cols j ((r.take (colsWidth cols)).map (cellRat f))).map (· * v)) :=
  data_file_values hf s style u text hw hwords

/-- **load_dump_roundtrip_table_partial**: the text `table.dump` writes is read back as exactly the written rows,
    one atom per row; with `tableLoad_rowsDoc` (ids `1..N` are already in order) the numeric table is the printed
    values, assigned column group by column group. -/
theorem load_dump_roundtrip_table_partial {f : Fmt} (hf : Readable f) (s : Sys) (cols : List ColSpec) (u : Units)
    (header : Bool) (text : List Char) (hw : writeTable s cols u f header = .ok text)
    (hnames : ∀ t ∈ (cols.map fun c => c.names.map strTok).flatten, CleanTok t)
    (hn0 : (cols.map fun c => c.names.map strTok).flatten ≠ []) :
    ∃ rows, tableRows s u (seqIds s.natoms) s.pos cols [] = .ok rows ∧
      ((∀ r ∈ rows, r ≠ []) → ∀ box pcols,
        loadTable text box pcols header =
          tableLoad (Loaded.init box ⟨true, true, true⟩ rows.length [] []) (rowsDoc f rows) pcols false) :=
  loadTable_writeTable hf s cols u header text hw hnames hn0

/-- **load_dump_roundtrip_table_values** (load ∘ dump of the generic table, closed form per property): for the text
    `table.dump` writes (`C07.writeTable`, header line or not) with rows `rows` (the cells `C07.tableRows` lays
    out: one row per atom, ids ascending), loading with a `prop_info` list `pcols` that names each property once and
    accounts for all columns gives a system of `rows.length` atoms in which every listed property (≠ the atom id)
    has **the shape of its entry** and holds, atom by atom, **the printed values of its own column group**
    (`groupG`: the columns after those of the entries before it; `cellRat f` = the value the printed token denotes)
    — as they stand for `unit = None`, times the unit factor otherwise.  With `unit_roundtrip_error` this is
    "to the printed precision and with unit conversions undone". -/
theorem load_dump_roundtrip_table_values {f : Fmt} (hf : Readable f) (s : Sys) (cols : List ColSpec) (u : Units)
    (header : Bool) (text : List Char) (hw : writeTable s cols u f header = .ok text)
    (hnames : ∀ t ∈ (cols.map fun c => c.names.map strTok).flatten, CleanTok t)
    (hn0 : (cols.map fun c => c.names.map strTok).flatten ≠ []) :
    ∃ rows, tableRows s u (seqIds s.natoms) s.pos cols [] = .ok rows ∧
      ∀ (box : Box Rat) (pcols : List PCol) (s' : Loaded),
        rows ≠ [] → (∀ r ∈ rows, r.length = colsWidth pcols) → colsWidth pcols ≠ 0 →
        (∀ i, idIndex pcols = some i →
          (rows.map fun r => r.map (cellRat f)).Pairwise fun a b => (a[i]?).getD 0 ≤ (b[i]?).getD 0) →
        (pcols.map (·.prop)).Nodup → loadTable text box pcols header = .ok s' →
        s'.natoms = rows.length ∧
        ∀ (j : Nat) (hj : j < pcols.length), pcols[j].prop ≠ "a_id" →
          ∃ q, s'.prop? pcols[j].prop = some q ∧ q.shape = pcols[j].shape ∧
            (pcols[j].unit = .none → q.vals = rows.map fun r => groupG pcols j (r.map (cellRat f))) ∧
            (∀ v, pcols[j].unit = .factor v →
              q.vals = rows.map fun r => (groupG pcols j (r.map (cellRat f))).map (· * v)) :=
  table_file_values hf s cols u header text hw hnames hn0

/-- the column groups of a row for the entries `type | w[0] | r[0][0] r[0][1] r[0][2]`. -/
example : (List.range 3).map (fun j => groupG [⟨"atype", ["type"], [], .none⟩, ⟨"w", ["w[0]"], [1], .none⟩,
    ⟨"r", ["r[0][0]", "r[0][1]", "r[0][2]"], [1, 3], .none⟩] j [(1 : Rat), 7, 4, 5, 6]) = [[1], [7], [4, 5, 6]] := by
  decide +kernel

/-- every `%.nf` format is readable (C07: `parseNum_fmtFixed`), so the theorems above apply to the default
    `'%.13f'` and to every fixed-point `float_format`. -/
theorem fixed_formats_readable (n : Nat) : Readable (.fixed n) := readable_fixed n

/-- … and so is every `%.ne` format (C07: `parseNum_fmtExp`, `okTok_fmtExp`): the hypothesis `Readable f` of the
    round-trip theorems holds for every float format of the model. -/
theorem all_formats_readable (f : Fmt) : Readable f := readable_all f

/-- a data file as the writer lays it out, atom lines not in id order, one atom wrapped through the x and y faces. -/
def exText : List Char :=
  "\n2 atoms\n2 atom types\n0.0 4.0 xlo xhi\n0.0 8.0 ylo yhi\n0.0 2.0 zlo zhi\n\nAtoms # atomic\n\n2 2 1.25 0.5 0.125 1 -1 0\n1 1 0.5 1.25 1.0 0 0 0\n".toList

def exLoaded : Option Loaded := (loadData exText ⟨true, true, true⟩ none none [("length", some 1)]).toOption

/-- it loads, in id order, the wrapped atom back at its unwrapped position through the image flags. -/
example : exLoaded.map (·.natoms) = some 2 := by decide +kernel
example : exLoaded.map (fun l => (l.prop? "pos").map (·.vals)) = some (some [[1/2, 5/4, 1], [21/4, -15/2, 1/8]]) := by
  decide +kernel
example : exLoaded.map (fun l => (l.prop? "atype").map (·.vals)) = some (some [[1], [2]]) := by decide +kernel

/-! ## through every route -/

/-- **load_dump_roundtrip_poscar_any_route**: the POSCAR round trip through every route: the text the writer emits,
    dumped to a file named in any of the ways a file can be named (whatever the file held before) and loaded from that
    file named in any of the ways a source can be named, is the closed-form system of `load_dump_roundtrip_poscar`. -/
theorem load_dump_roundtrip_poscar_any_route {f : Fmt} (hf : Readable f) (s : Sys) (header : List String)
    (symbols : Option (List String)) (coordstyle : String) (scale : ℚ) (text : List Char)
    (hw : writePoscar s header symbols coordstyle scale f = .ok text)
    (hh : ∀ w ∈ header, ∀ c ∈ strTok w, c ≠ '\n')
    (hsy : ∀ l, symbols = some l → (∀ w ∈ l, CleanTok (strTok w)) ∧ (l.map strTok).mapM parseInt? = none)
    (hcs : CleanTok (strTok coordstyle))
    (hlen : (poscarNums s (isCartStyle coordstyle) scale).coords.length =
      (poscarNums s (isCartStyle coordstyle) scale).counts.foldr (· + ·) 0)
    (hne : (poscarNums s (isCartStyle coordstyle) scale).coords ≠ [])
    (symArg : Option (List (Option String)))
    (w : World) (k : Sink) (p : String) (hk : k.writesFile p) (src : Source) (hs : src.namesFile p) :
    ∃ w', dumpTo w k text = .ok (w', none) ∧
      loadVia (fun t => loadPoscar t symArg) w' src =
        .ok (poscarLoaded f scale (poscarNums s (isCartStyle coordstyle) scale).lattice
          (poscarNums s (isCartStyle coordstyle) scale).counts (poscarNums s (isCartStyle coordstyle) scale).coords
          (isCartStyle coordstyle)
          (symArg.getD (writtenSymbols symbols (poscarNums s (isCartStyle coordstyle) scale).counts))) := by
  obtain ⟨w', h1, h2⟩ := load_dump_roundtrip_any_route (fun t => loadPoscar t symArg) w k p text hk src hs
  exact ⟨w', h1, h2.trans (load_dump_roundtrip_poscar hf s header symbols coordstyle scale text hw hh hsy hcs hlen hne symArg)⟩

/-! ## statement audit: non-vacuity — theorems applied with every hypothesis discharged on concrete, non-trivial values
    (the `decide +kernel` examples above evaluate the model; these show the hypotheses of the theorems can be met) -/

section AuditExamples

def auBox : Box Rat := ⟨⟨⟨1, 0, 0⟩, ⟨0, 1, 0⟩, ⟨0, 0, 1⟩⟩, ⟨0, 0, 0⟩⟩
/-- `type id w` (id not leading), a `(1,)` column with a unit factor -/
def auCols : List PCol := [⟨"atype", ["type"], [], .none⟩, ⟨"a_id", ["id"], [], .none⟩, ⟨"w", ["w[0]"], [1], .factor (1 / 2)⟩]
def auRows : List Line := [[cs!"2", cs!"3", cs!"7.5"], [cs!"1", cs!"1", cs!"2.5"], [cs!"2", cs!"2", cs!"3.5"]]
def auRows' : List Line := [[cs!"1", cs!"1", cs!"2.5"], [cs!"2", cs!"2", cs!"3.5"], [cs!"2", cs!"3", cs!"7.5"]]

theorem auTable : readTable auRows (colsWidth auCols) false =
    .ok [[.int 2, .int 3, .num (15/2)], [.int 1, .int 1, .num (5/2)], [.int 2, .int 2, .num (7/2)]] := by decide +kernel

-- `load_perm_invariant_table`: id column second, three lines out of order vs in order; `hd` discharged.
example : tableLoad (Loaded.init auBox ⟨true, true, true⟩ 3 [] []) auRows auCols false =
    tableLoad (Loaded.init auBox ⟨true, true, true⟩ 3 [] []) auRows' auCols false :=
  load_perm_invariant_table _ auCols false 1 (by decide) (by decide +kernel)
    (fun t ht => by rw [auTable] at ht; cases ht; decide +kernel)

-- `tableLoad_prop_shape`, `tableLoad_prop_values`, `tableLoad_frame`, `tableLoad_other`: the load succeeds, names are distinct.
theorem auLoad : ∃ s', tableLoad (Loaded.init auBox ⟨true, true, true⟩ 3 [] []) auRows auCols false = .ok s' := by
  cases h : tableLoad (Loaded.init auBox ⟨true, true, true⟩ 3 [] []) auRows auCols false with
  | ok s' => exact ⟨s', rfl⟩
  | error e =>
    have : (tableLoad (Loaded.init auBox ⟨true, true, true⟩ 3 [] []) auRows auCols false).toOption.isSome = true := by
      decide +kernel
    rw [h] at this; cases this
example : ∃ s' q, tableLoad (Loaded.init auBox ⟨true, true, true⟩ 3 [] []) auRows auCols false = .ok s' ∧
    s'.prop? "w" = some q ∧ q.shape = [1] ∧ s'.natoms = 3 ∧ s'.prop? "pos" = (Loaded.init auBox ⟨true, true, true⟩ 3 [] []).prop? "pos" := by
  obtain ⟨s', h⟩ := auLoad
  obtain ⟨q, hq, hs, _⟩ := tableLoad_prop_shape _ s' auRows auCols false (by decide) h ⟨"w", ["w[0]"], [1], .factor (1 / 2)⟩
    (by unfold auCols; simp) (by decide)
  obtain ⟨tbl, _, _⟩ := tableLoad_prop_values _ s' auRows auCols false (by decide) h
  exact ⟨s', q, h, hq, hs, (tableLoad_frame _ s' auRows auCols false h).1,
    tableLoad_other _ s' auRows auCols false h "pos" (by decide)⟩

-- `shape_told_apart`, `sortBy_eq_of_perm`, `unit_roundtrip_error`
example : ([1, 3] : List Nat) = [1, 3] ∧ ∀ t, reshape [1, 3] [1, 2, 3] = some t → t.hasShape [3, 1] = true → False := by
  refine ⟨rfl, fun t ht h2 => ?_⟩
  have h1 := ((reshape_flatten_roundtrip [1, 3]).2.1 [1, 2, 3] t ht).1
  have := shape_told_apart t [1, 3] [3, 1] h1 h2 (by decide)
  cases this
example : sortBy (fun x : Rat × Nat => x.1) [(3, 0), (1, 1), (2, 2)] = sortBy (fun x : Rat × Nat => x.1) [(1, 1), (2, 2), (3, 0)] :=
  sortBy_eq_of_perm _ (by decide) (by decide +kernel)
example := unit_roundtrip_error (7 / 3) (1 / 10) 4 (by norm_num)

-- comments and blank lines: `termsC_comment_only`, `sig_insert_blank`, `sigOf_trailing_comment`,
-- `load_comment_blank_invariant`, `load_blank_invariant_dump`
example : termsC (cs!" \t" ++ '#' :: cs!" 5 atoms") = [] := termsC_comment_only _ _ (by decide)
example : sig ([cs!"3 atoms"] ++ cs!"  # 5 atoms" :: [cs!"Atoms # atomic"]) = sig ([cs!"3 atoms"] ++ [cs!"Atoms # atomic"]) :=
  sig_insert_blank _ _ _ (by decide +kernel)
example : sigOf (cs!"0 4 xlo xhi " ++ '#' :: cs!" 5 atoms") = sigOf (cs!"0 4 xlo xhi ") :=
  sigOf_trailing_comment _ _ (by decide) (by decide +kernel)
example (pbc : V3 Bool) (u : Units) :
    loadDataLines [cs!"title", cs!"", cs!"2 atoms # two", cs!"# c", cs!"0 4 xlo xhi"] pbc none none u =
      loadDataLines [cs!"title # other", cs!"2 atoms", cs!"0 4 xlo xhi", cs!"   "] pbc none none u :=
  load_comment_blank_invariant _ _ (by decide +kernel) (by decide) pbc none none u
example (u : Units) :
    loadDumpLines [cs!"ITEM: TIMESTEP", cs!"", cs!"0", cs!"  "] none none u =
      loadDumpLines [cs!"ITEM: TIMESTEP", cs!"0"] none none u :=
  load_blank_invariant_dump _ _ (by decide +kernel) none none u

-- `missing_section_rejected`: counts and bounds present, no `Atoms` line (last disjunct of `MissingRequired`).
example : ∀ sys, loadDataLines [cs!"", cs!"1 atoms", cs!"0 1 xlo xhi", cs!"0 1 ylo yhi", cs!"0 1 zlo zhi", cs!"", cs!"Masses", cs!"",
    cs!"1 26.98"] ⟨true, true, true⟩ none none [("length", some 1)] ≠ .ok sys :=
  (missing_section_rejected _ _ none none _ (Or.inr (Or.inr (Or.inr (Or.inr (by decide +kernel)))))).1

-- text layer: `lexLine_joinSp`, `splitLines_renderLines`, `readTable_rowsDoc`
example : lexLine (joinSp [cs!"ITEM:", cs!"ATOMS", cs!"id", cs!"c_pe[1]"]) = [cs!"ITEM:", cs!"ATOMS", cs!"id", cs!"c_pe[1]"] :=
  lexLine_joinSp _ (by
    intro t ht
    simp only [List.mem_cons, List.not_mem_nil, or_false] at ht
    rcases ht with rfl | rfl | rfl | rfl <;> (unfold CleanTok; decide))
example : splitLines (renderLines [[cs!"2", cs!"atoms"], [], [cs!"Atoms", cs!"#", cs!"atomic"]]) =
    [[cs!"2", cs!"atoms"], [], [cs!"Atoms", cs!"#", cs!"atomic"]].map joinSp :=
  splitLines_renderLines _ (by decide +kernel)
example : ∃ tbl, readTable (rowsDoc (.fixed 3) [[.int 2, .num (7 / 2), .num 1], [.int 1, .num (5 / 2), .num 0]]) 2 true = .ok tbl ∧
    tbl.map (·.map Val.toRat) = [[.int 2, .num (7 / 2), .num 1], [.int 1, .num (5 / 2), .num 0]].map
      fun r => (r.take 2).map (cellRat (.fixed 3)) :=
  readTable_rowsDoc (fixed_formats_readable 3) _ 3 2 true (by decide) (by decide) (by decide)

-- routes: a dump through a `pathlib.Path` over a file that held an earlier, longer dump, loaded back by name
example : ∃ w', dumpTo ⟨[("a.dat", cs!"old old old")], []⟩ (.pathObj "a.dat") (cs!"new") = .ok (w', none) ∧
    loadVia (fun t => (.ok t : Res (List Char))) w' (.str "a.dat".toList) = .ok (cs!"new") :=
  load_dump_roundtrip_any_route _ _ (.pathObj "a.dat") "a.dat" _ (Or.inr (Or.inl rfl)) _ (Or.inl rfl)
example := dump_target_holds_content ⟨[("a.dat", cs!"old old old")], []⟩ (.textFile "a.dat") "a.dat" (cs!"new")
  (Or.inr (Or.inr (Or.inr rfl)))
example := dump_twice_last_wins ⟨[], []⟩ (.path "a.dat") "a.dat" (cs!"first, long") (cs!"2nd") (Or.inl rfl)
example := sourceTextRead_eq ⟨[("a.dat", cs!"x")], []⟩ (.pathObj "a.dat") (by intro p h; cases h)
example : sourceTextRead ⟨[("a.dat", cs!"1 atoms")], []⟩ (.textFile "a.dat") = .ok (cs!"1 atoms") :=
  sourceTextRead_textFile _ _ _ (by decide +kernel) (by decide +kernel)

def auAtomic : List PCol := [⟨"a_id", ["id"], [], .none⟩, ⟨"atype", ["type"], [], .none⟩, ⟨"pos", ["x", "y", "z"], [3], .factor 1⟩]
def auU : Units := [("length", some 1)]
theorem auLookup : lookupCols Gen.LoadStyles.atomStyles "atomic" auU = .ok auAtomic := by decide +kernel
def auAtomRows : List Line :=
  [[cs!"2", cs!"1", cs!"1.5", cs!"0.5", cs!"0.5", cs!"1", cs!"0", cs!"0"], [cs!"1", cs!"1", cs!"0.5", cs!"0.5", cs!"0.5", cs!"0", cs!"0", cs!"-1"]]

-- `load_perm_invariant`: two `Atoms` lines of style `atomic` with image flags, either order; `hd`, `hdf` discharged (`hid` is now proved: `lookupCols_id_first`).
example (s : Loaded) : readAtoms auAtomRows 8 s "atomic" auU = readAtoms auAtomRows.reverse 8 s "atomic" auU :=
  load_perm_invariant 8 s "atomic" auU (by decide)
    (fun cols t h ht => by
      rw [auLookup] at h; cases h
      have : readTable auAtomRows (colsWidth auAtomic) true =
          .ok [[.int 2, .int 1, .num (3/2), .num (1/2), .num (1/2)], [.int 1, .int 1, .num (1/2), .num (1/2), .num (1/2)]] := by
        decide +kernel
      rw [this] at ht; cases ht; decide +kernel)
    (fun cols fl h hf => by
      rw [auLookup] at h; cases h
      have : auAtomRows.mapM (readFlagRow (colsWidth auAtomic)) = .ok [(2, ⟨1, 0, 0⟩), (1, ⟨0, 0, -1⟩)] := by decide +kernel
      rw [this] at hf; cases hf; decide +kernel)


/-! ### joint instantiations of the round-trip theorems: every premise discharged on ONE concrete system
    (tilted cell, origin off zero, a non-periodic direction, two or three atoms, a `(2,)` property `w` whose value 1/3 is
    not printable exactly, unit factors 2 / 3 / 5; dump file with ids 2, 1) -/

instance jDecClean (t : Tok) : Decidable (CleanTok t) := by unfold CleanTok; infer_instance
instance jDecOk (t : Tok) : Decidable (okTok t) := by unfold okTok okChars; infer_instance
theorem ok_of_toOption {α : Type} {r : Res α} {a : α} (h : r.toOption = some a) : r = .ok a := by
  cases r with
  | ok b => simp [Except.toOption] at h; rw [h]
  | error e => simp [Except.toOption] at h
theorem ok_of_isSome {α : Type} {r : Res α} (h : r.toOption.isSome = true) : ∃ a, r = .ok a := by
  cases r with
  | ok b => exact ⟨b, rfl⟩
  | error e => simp [Except.toOption] at h

def jSys : Sys :=
  { box := ⟨⟨⟨4, 0, 0⟩, ⟨1, 3, 0⟩, ⟨0, 0, 5⟩⟩, ⟨-1, 0, 0⟩⟩, pbc := ⟨true, true, false⟩, natypes := 2,
    atype := [1, 2], pos := [⟨0, 0, 0⟩, ⟨9/2, 1, 6⟩], props := [⟨"w", false, 2, [[7/2, -1/4], [5/2, 1/3]]⟩] }
def jU : Units := [("length", some 2)]
def jCols : List ColSpec := [⟨"a_id", ["id"], .none⟩, ⟨"atype", ["type"], .none⟩, ⟨"pos", ["x", "y", "z"], .kind "length"⟩, ⟨"w", ["w[0]", "w[1]"], .none⟩]
def jP : List PCol := [⟨"a_id", ["id"], [], .none⟩, ⟨"atype", ["type"], [], .none⟩, ⟨"pos", ["x", "y", "z"], [3], .factor 2⟩,
  ⟨"w", ["w[0]", "w[1]"], [2], .none⟩]
def jTableText : List Char := "id type x y z w[0] w[1]\n1 1 0.000 0.000 0.000 3.500 -0.250\n2 2 2.250 0.500 3.000 2.500 0.333\n".toList
def jRows : List (List Cell) := [[.int 1, .int 1, .num 0, .num 0, .num 0, .num (7/2), .num (-1/4)], [.int 2, .int 2, .num (9/4), .num (1/2), .num 3, .num (5/2), .num (1/3)]]

theorem jWriteTable : writeTable jSys jCols jU (.fixed 3) true = .ok jTableText := ok_of_toOption (by decide +kernel)
theorem jTableRows : tableRows jSys jU (seqIds jSys.natoms) jSys.pos jCols [] = .ok jRows := ok_of_toOption (by decide +kernel)
theorem jLoadTable : ∃ s', loadTable jTableText auBox jP true = .ok s' := ok_of_isSome (by decide +kernel)

example : ∃ s' qw qp, loadTable jTableText auBox jP true = .ok s' ∧ s'.natoms = 2 ∧
    s'.prop? "w" = some qw ∧ qw.shape = [2] ∧ qw.vals = [[7/2, -1/4], [5/2, 333/1000]] ∧
    s'.prop? "pos" = some qp ∧ qp.shape = [3] ∧ qp.vals = [[0, 0, 0], [9/2, 1, 6]] := by
  obtain ⟨s', hl⟩ := jLoadTable
  obtain ⟨rows, hr, H⟩ := load_dump_roundtrip_table_values (all_formats_readable (.fixed 3)) jSys jCols jU true jTableText
    jWriteTable (by decide +kernel) (by decide +kernel)
  rw [jTableRows] at hr; cases hr
  obtain ⟨hn, hv⟩ := H auBox jP s' (by decide) (by decide +kernel) (by decide)
    (fun i hi => by
      have : i = 0 := by
        have h0 : idIndex jP = some 0 := by decide +kernel
        rw [h0] at hi; cases hi; rfl
      subst this; decide +kernel)
    (by decide) hl
  obtain ⟨qw, hqw, hsw, hvw, _⟩ := hv 3 (by decide) (by decide)
  obtain ⟨qp, hqp, hsp, _, hvp⟩ := hv 2 (by decide) (by decide)
  refine ⟨s', qw, qp, hl, hn, hqw, hsw, ?_, hqp, hsp, ?_⟩
  · rw [hvw rfl]; decide +kernel
  · rw [hvp 2 rfl]; decide +kernel

def jSysD : Sys :=
  { box := ⟨⟨⟨4, 0, 0⟩, ⟨1, 3, 0⟩, ⟨0, 0, 5⟩⟩, ⟨-1, 0, 0⟩⟩, pbc := ⟨true, true, false⟩, natypes := 2,
    atype := [1, 2], pos := [⟨0, 0, 0⟩, ⟨9/2, 1, 6⟩],
    props := [⟨"atom_id", true, 1, [[2], [1]]⟩, ⟨"w", false, 2, [[7/2, -1/4], [5/2, 1/3]]⟩] }
def jProps : List (String × List Nat) := [("atom_id", []), ("atype", []), ("pos", [3]), ("w", [2])]
def jPU : List PCol := [⟨"a_id", ["id"], [], .none⟩, ⟨"atype", ["type"], [], .none⟩, ⟨"upos", ["x", "y", "z"], [3], .factor 2⟩,
  ⟨"w", ["w[0]", "w[1]"], [2], .none⟩]
def jDumpText : List Char := "ITEM: TIMESTEP\n7\nITEM: NUMBER OF ATOMS\n2\nITEM: BOX BOUNDS xy xz yz pp pp fm\n-0.500 2.000 0.500\n0.000 1.500 0.000\n0.000 2.500 0.000\nITEM: ATOMS id type x y z w[0] w[1]\n2 1 0.000 0.000 0.000 3.500 -0.250\n1 2 2.250 0.500 3.000 2.500 0.333\n".toList
def jRowsD : List (List Cell) := [[.int 2, .int 1, .num 0, .num 0, .num 0, .num (7/2), .num (-1/4)], [.int 1, .int 2, .num (9/4), .num (1/2), .num 3, .num (5/2), .num (1/3)]]
theorem jWriteDump : writeDump jSysD jProps jU (.fixed 3) 7 = .ok jDumpText := ok_of_toOption (by decide +kernel)
theorem jDumpRows : tableRows jSysD jU (dumpIds jSysD) jSysD.pos (dumpCols jProps) [] = .ok jRowsD := ok_of_toOption (by decide +kernel)
theorem jLoadDump : ∃ s', loadDump jDumpText none (some jPU) jU = .ok s' := ok_of_isSome (by decide +kernel)

example : ∃ s' qw qp, loadDump jDumpText none (some jPU) jU = .ok s' ∧ s'.natoms = 2 ∧ s'.pbc = ⟨true, true, false⟩ ∧
    s'.box = ⟨⟨⟨4, 0, 0⟩, ⟨1, 3, 0⟩, ⟨0, 0, 5⟩⟩, ⟨-1, 0, 0⟩⟩ ∧
    s'.prop? "w" = some qw ∧ qw.shape = [2] ∧ qw.vals = [[5/2, 333/1000], [7/2, -1/4]] ∧
    s'.prop? "pos" = some qp ∧ qp.shape = [3] ∧ qp.vals = [[9/2, 1, 6], [0, 0, 0]] := by
  obtain ⟨s', hl⟩ := jLoadDump
  obtain ⟨lf, rows, hlf, hr, hlen, H⟩ := load_dump_roundtrip_dump_values (all_formats_readable (.fixed 3)) jSysD jProps jU 7
    jDumpText jWriteDump (by decide +kernel)
  rw [jDumpRows] at hr; cases hr
  have : lf = some 2 := by
    have h2 : lengthFactor jU = .ok (some 2) := by decide +kernel
    rw [h2] at hlf; cases hlf; rfl
  subst this
  obtain ⟨hn, hp, _, ⟨xlo, xhi, ylo, yhi, zlo, zhi, h1, h2, h3, h4, h5, h6, hb⟩, hv⟩ :=
    H none jPU s' 0 (by decide) (by decide +kernel) (by decide) (by decide +kernel) (by decide +kernel) (by decide) hl
  obtain ⟨qw, hqw, hsw, hvw, _⟩ := hv 3 (by decide) (by decide)
  obtain ⟨qp, hqp, hsp, _, hvp⟩ := hv 2 (by decide) (by decide)
  have e1 : (dumpState (.fixed 3) (some 2) jSysD jProps).xlo = some (-1) := by decide +kernel
  have e2 : (dumpState (.fixed 3) (some 2) jSysD jProps).xhi = some 3 := by decide +kernel
  have e3 : (dumpState (.fixed 3) (some 2) jSysD jProps).ylo = some 0 := by decide +kernel
  have e4 : (dumpState (.fixed 3) (some 2) jSysD jProps).yhi = some 3 := by decide +kernel
  have e5 : (dumpState (.fixed 3) (some 2) jSysD jProps).zlo = some 0 := by decide +kernel
  have e6 : (dumpState (.fixed 3) (some 2) jSysD jProps).zhi = some 5 := by decide +kernel
  rw [e1] at h1; rw [e2] at h2; rw [e3] at h3; rw [e4] at h4; rw [e5] at h5; rw [e6] at h6
  cases h1; cases h2; cases h3; cases h4; cases h5; cases h6
  have hbox : Box.ofHiLos? (-1 : ℚ) 3 0 3 0 5 (dumpState (.fixed 3) (some 2) jSysD jProps).xy (dumpState (.fixed 3) (some 2) jSysD jProps).xz
      (dumpState (.fixed 3) (some 2) jSysD jProps).yz = some ⟨⟨⟨4, 0, 0⟩, ⟨1, 3, 0⟩, ⟨0, 0, 5⟩⟩, ⟨-1, 0, 0⟩⟩ := by decide +kernel
  rw [hbox] at hb
  refine ⟨s', qw, qp, hl, hn, hp, (Option.some.inj hb).symm, hqw, hsw, ?_, hqp, hsp, ?_⟩
  · rw [hvw rfl]; decide +kernel
  · rw [hvp 2 rfl]; decide +kernel

def jUQ : Units := [("length", some 2), ("charge", some 3), ("velocity", some 5)]
def jSysQ : Sys :=
  { box := ⟨⟨⟨4, 0, 0⟩, ⟨1, 3, 0⟩, ⟨0, 0, 5⟩⟩, ⟨-1, 0, 0⟩⟩, pbc := ⟨true, true, false⟩, natypes := 2,
    atype := [1, 2], pos := [⟨0, 0, 0⟩, ⟨9/2, 1, 6⟩],
    props := [⟨"charge", false, 1, [[7/2], [-1/3]]⟩, ⟨"velocity", false, 3, [[1, 2, 3], [-4, 5/2, 0]]⟩] }
def jDataText : List Char := "\n2 atoms\n2 atom types\n-0.500 1.500 xlo xhi\n0.000 1.500 ylo yhi\n-0.002 3.002 zlo zhi\n0.500 0.000 0.000 xy xz yz\n\nAtoms # charge\n\n1 1 1.167 0.000 0.000 0.000 0 0 0\n2 2 -0.111 0.250 0.500 3.000 1 0 0\n\nVelocities\n\n1 0.200 0.400 0.600\n2 -0.800 0.500 0.000\n".toList
def jCharge : List PCol := [⟨"a_id", ["id"], [], .none⟩, ⟨"atype", ["type"], [], .none⟩, ⟨"charge", ["q"], [], .factor 3⟩, ⟨"pos", ["x", "y", "z"], [3], .factor 2⟩]
def jChargeVel : List PCol := [⟨"a_id", ["id"], [], .none⟩, ⟨"velocity", ["vx", "vy", "vz"], [3], .factor 5⟩]
def jDataRows : List (List Cell) := [[.int 1, .int 1, .num (7/6), .num 0, .num 0, .num 0, .int 0, .int 0, .int 0],
  [.int 2, .int 2, .num (-1/9), .num (1/4), .num (1/2), .num 3, .int 1, .int 0, .int 0]]
def jVelRows : List (List Cell) := [[.int 1, .num (1/5), .num (2/5), .num (3/5)], [.int 2, .num (-4/5), .num (1/2), .num 0]]
theorem jSW : styleWords "charge" = ["charge"] := by
  simp [styleWords, String.splitOn]
  repeat (rw [String.splitOnAux]; simp (config := {decide := true}))
theorem jWriteData : writeData jSysQ "charge" jUQ (.fixed 3) = .ok jDataText := ok_of_toOption (by
  unfold writeData writeDataDoc dataParts atomCols velCols styleCols dataDocOf
  simp only [jSW]
  decide +kernel)
theorem jDataParts : ∃ p w, dataParts jSysQ "charge" jUQ = .ok (p, w) ∧ p.rows = jDataRows ∧ p.vel = some jVelRows := by
  obtain ⟨a, ha⟩ := ok_of_isSome (r := dataParts jSysQ "charge" jUQ) (by
    unfold dataParts atomCols velCols styleCols; simp only [jSW]; decide +kernel)
  have h1 : (dataParts jSysQ "charge" jUQ).toOption.map (·.1.rows) = some jDataRows := by
    unfold dataParts atomCols velCols styleCols; simp only [jSW]; decide +kernel
  have h2 : (dataParts jSysQ "charge" jUQ).toOption.map (·.1.vel) = some (some jVelRows) := by
    unfold dataParts atomCols velCols styleCols; simp only [jSW]; decide +kernel
  rw [ha] at h1 h2
  exact ⟨a.1, a.2, ha, by simpa [Except.toOption] using h1, by simpa [Except.toOption] using h2⟩
theorem jLookupQ : lookupCols Gen.LoadStyles.atomStyles "charge" jUQ = .ok jCharge := by decide +kernel
theorem jLookupQV : lookupCols Gen.LoadStyles.velStyles "charge" jUQ = .ok jChargeVel := by decide +kernel
theorem jLoadData : ∃ s', loadData jDataText ⟨true, true, false⟩ none none jUQ = .ok s' := ok_of_isSome (by decide +kernel)

example : ∃ s' qq qt, loadData jDataText ⟨true, true, false⟩ none none jUQ = .ok s' ∧ s'.natoms = 2 ∧
    s'.prop? "charge" = some qq ∧ qq.shape = [] ∧ qq.vals = [[3501/1000], [-333/1000]] ∧
    s'.prop? "atype" = some qt ∧ qt.shape = [] ∧ qt.vals = [[1], [2]] := by
  obtain ⟨s', hl⟩ := jLoadData
  obtain ⟨lf, p, w, hlf, hp, hlen, H⟩ := load_dump_roundtrip_data_values (all_formats_readable (.fixed 3)) jSysQ "charge" jUQ
    jDataText jWriteData ⟨by rw [jSW]; decide, by rw [jSW]; decide +kernel⟩
  obtain ⟨p', w', hp', hrows, hvel⟩ := jDataParts
  rw [hp'] at hp; cases hp
  obtain ⟨hn, hv⟩ := H ⟨true, true, false⟩ none none s' "charge" jCharge 9 0
    (by rw [hrows]; decide) (by rw [hrows]; decide +kernel) (by decide)
    (fun vr hvr => by rw [hvel] at hvr; cases hvr; decide +kernel)
    (by rw [jSW]; decide +kernel) jLookupQ (by decide +kernel) (by decide +kernel) (by rw [hrows]; decide +kernel) (by decide) hl
  have hvc : ∀ (nm : String), nm ≠ "a_id" → nm ≠ "velocity" →
      ∀ vc, lookupCols Gen.LoadStyles.velStyles "charge" jUQ = .ok vc → ∀ c ∈ vc, c.prop ≠ nm := by
    intro nm h1 h2 vc hvc c hc
    rw [jLookupQV] at hvc; cases hvc
    simp only [jChargeVel, List.mem_cons, List.not_mem_nil, or_false] at hc
    rcases hc with rfl | rfl
    · exact fun h => h1 h.symm
    · exact fun h => h2 h.symm
  obtain ⟨qq, hqq, hsq, _, hvq⟩ := hv 2 (by decide) (by decide) (by decide) (hvc _ (by decide) (by decide))
  obtain ⟨qt, hqt, hst, hvt, _⟩ := hv 1 (by decide) (by decide) (by decide) (hvc _ (by decide) (by decide))
  refine ⟨s', qq, qt, hl, hn, hqq, hsq, ?_, hqt, hst, ?_⟩
  · rw [hvq 3 rfl, hrows]; decide +kernel
  · rw [hvt rfl, hrows]; decide +kernel

def jSysP : Sys :=
  { box := ⟨⟨⟨4, 0, 0⟩, ⟨1, 3, 0⟩, ⟨0, 0, 5⟩⟩, ⟨0, 0, 0⟩⟩, pbc := ⟨true, true, true⟩, natypes := 2,
    atype := [2, 1, 2], pos := [⟨1, 2, 1⟩, ⟨9/2, 1, 6⟩, ⟨1/3, 1/3, 1/3⟩], props := [] }
def jPoscarText : List Char := "a title\n2.0000\n2.0000 0.0000 0.0000\n0.5000 1.5000 0.0000\n0.0000 0.0000 2.5000\nAl Cu\n1 2 \nDirect\n1.0417 0.3333 1.2000\n0.0833 0.6667 0.2000\n0.0556 0.1111 0.0667".toList
theorem jWritePoscar : writePoscar jSysP ["a", "title"] (some ["Al", "Cu"]) "Direct" 2 (.fixed 4) = .ok jPoscarText :=
  ok_of_toOption (by decide +kernel)
/-- what `load_dump_roundtrip_poscar` says the loader returns for `jPoscarText` -/
def jPoscarLoaded : Loaded :=
  poscarLoaded (.fixed 4) 2 (poscarNums jSysP (isCartStyle "Direct") 2).lattice (poscarNums jSysP (isCartStyle "Direct") 2).counts
    (poscarNums jSysP (isCartStyle "Direct") 2).coords (isCartStyle "Direct")
    ((none : Option (List (Option String))).getD (writtenSymbols (some ["Al", "Cu"]) (poscarNums jSysP (isCartStyle "Direct") 2).counts))

-- `load_dump_roundtrip_poscar`
theorem jPoscar : loadPoscar jPoscarText none = .ok jPoscarLoaded :=
  load_dump_roundtrip_poscar (all_formats_readable (.fixed 4)) jSysP ["a", "title"] (some ["Al", "Cu"]) "Direct" 2 jPoscarText
    jWritePoscar (by decide +kernel)
    (fun l hl => by cases hl; exact ⟨by decide +kernel, by decide +kernel⟩)
    (by decide +kernel) (by decide +kernel) (by decide +kernel) none
example : jPoscarLoaded.natoms = 3 ∧ jPoscarLoaded.symbols = [some "Al", some "Cu"] ∧
    jPoscarLoaded.box = ⟨⟨⟨4, 0, 0⟩, ⟨1, 3, 0⟩, ⟨0, 0, 5⟩⟩, ⟨0, 0, 0⟩⟩ ∧
    (jPoscarLoaded.prop? "atype").map (·.vals) = some [[1], [2], [2]] ∧
    (jPoscarLoaded.prop? "pos").map (·.vals) = some [[45001/10000, 9999/10000, 6], [9999/10000, 20001/10000, 1],
      [667/2000, 3333/10000, 667/2000]] := by decide +kernel

-- `load_dump_roundtrip_poscar_any_route`
example : ∃ w', dumpTo ⟨[("POSCAR", cs!"old old old")], []⟩ (.pathObj "POSCAR") jPoscarText = .ok (w', none) ∧
    loadVia (fun t => loadPoscar t none) w' (.str "POSCAR".toList) = .ok jPoscarLoaded :=
  load_dump_roundtrip_poscar_any_route (all_formats_readable (.fixed 4)) jSysP ["a", "title"] (some ["Al", "Cu"]) "Direct" 2 jPoscarText
    jWritePoscar (by decide +kernel)
    (fun l hl => by cases hl; exact ⟨by decide +kernel, by decide +kernel⟩)
    (by decide +kernel) (by decide +kernel) (by decide +kernel) none _ (.pathObj "POSCAR") "POSCAR" (Or.inr (Or.inl rfl)) _ (Or.inl rfl)

-- `load_eq_independent_parse_poscar`
example : ∃ pp, parsePoscar jPoscarText = some pp ∧ loadPoscar jPoscarText none = .ok (loadedOfParsed pp none) :=
  load_eq_independent_parse_poscar jSysP ["a", "title"] (some ["Al", "Cu"]) "Direct" 2 (.fixed 4) jPoscarText jWritePoscar
    ⟨by decide +kernel, by decide +kernel, fun c r h => by
        have : "Direct".toList = ['D', 'i', 'r', 'e', 'c', 't'] := by decide
        rw [this] at h; cases h; decide,
      fun l hl => by cases hl; exact ⟨by decide +kernel, "Al", ["Cu"], rfl, by decide +kernel⟩⟩
    (by decide +kernel) (by decide) (by decide +kernel)
    (fun l hl => by cases hl; decide +kernel) none

def jInit : Loaded := Loaded.init auBox ⟨true, true, false⟩ 2 [] []

-- `tableLoad_rowsDoc`, `table_values_of_rows`: written rows in id order (`jRows`), read without `usecols`
example : ∃ s' tbl q, tableLoad jInit (rowsDoc (.fixed 3) jRows) jP false = .ok s' ∧
    tableLoad jInit (rowsDoc (.fixed 3) jRows) jP false = assignCols jInit.box jP (columnCells jP tbl) jInit ∧
    s'.prop? "w" = some q ∧ q.shape = [2] ∧ q.vals = [[7/2, -1/4], [5/2, 333/1000]] := by
  obtain ⟨s', h⟩ := ok_of_isSome (r := tableLoad jInit (rowsDoc (.fixed 3) jRows) jP false) (by decide +kernel)
  have hs : ∀ i, idIndex jP = some i →
      (jRows.map fun r => (r.take (colsWidth jP)).map (cellRat (.fixed 3))).Pairwise fun a b => (a[i]?).getD 0 ≤ (b[i]?).getD 0 := by
    intro i hi
    have h0 : idIndex jP = some 0 := by decide +kernel
    rw [h0] at hi; cases hi; decide +kernel
  obtain ⟨tbl, ht, _⟩ := tableLoad_rowsDoc (all_formats_readable (.fixed 3)) jInit jRows jP 7 false (by decide) (by decide +kernel)
    (by decide +kernel) hs
  obtain ⟨q, hq, hsq, hv, _⟩ := table_values_of_rows (all_formats_readable (.fixed 3)) jInit s' jRows jP 7 false (by decide)
    (by decide +kernel) (by decide +kernel) hs (by decide) (by decide) h 3 (by decide) (by decide)
  exact ⟨s', tbl, q, h, ht, hq, hsq, by rw [hv rfl]; decide +kernel⟩

-- `tableLoad_rowsDoc_sorted`, `table_values_of_rows_sorted`: written rows with ids 2, 1 (`jRowsD`)
example : ∃ s' tbl q, tableLoad jInit (rowsDoc (.fixed 3) jRowsD) jP false = .ok s' ∧
    tableLoad jInit (rowsDoc (.fixed 3) jRowsD) jP false = assignCols jInit.box jP (columnCells jP tbl) jInit ∧
    s'.prop? "pos" = some q ∧ q.shape = [3] ∧ q.vals = [[9/2, 1, 6], [0, 0, 0]] := by
  obtain ⟨s', h⟩ := ok_of_isSome (r := tableLoad jInit (rowsDoc (.fixed 3) jRowsD) jP false) (by decide +kernel)
  obtain ⟨tbl, ht, _⟩ := tableLoad_rowsDoc_sorted (all_formats_readable (.fixed 3)) jInit jRowsD jP 7 false 0 (by decide)
    (by decide +kernel) (by decide +kernel) (by decide +kernel) (by decide +kernel)
  obtain ⟨q, hq, hsq, _, hv⟩ := table_values_of_rows_sorted (all_formats_readable (.fixed 3)) jInit s' jRowsD jP 7 false 0 (by decide)
    (by decide +kernel) (by decide +kernel) (by decide +kernel) (by decide +kernel) (by decide) (by decide) h 2 (by decide) (by decide)
  exact ⟨s', tbl, q, h, ht, hq, hsq, by rw [hv 2 rfl]; decide +kernel⟩

-- `loadDumpCore_given`: the header state of the written dump file, the written rows, the caller's column table
example : ∃ s' box s1, loadDumpCore (dumpState (.fixed 3) (some 2) jSysD jProps) (some (rowsDoc (.fixed 3) jRowsD)) none (some jPU) jU = .ok s' ∧
    Box.ofHiLos? (-1 : ℚ) 3 0 3 0 5 1 0 0 = some box ∧
    tableLoad (Loaded.init box ⟨true, true, false⟩ 2 [] []) ((rowsDoc (.fixed 3) jRowsD).take 2) (jPU.map renamePos) false = .ok s1 ∧
    s'.natoms = 2 ∧ s'.box = box ∧ s'.props = s1.props := by
  obtain ⟨s', h⟩ := ok_of_isSome
    (r := loadDumpCore (dumpState (.fixed 3) (some 2) jSysD jProps) (some (rowsDoc (.fixed 3) jRowsD)) none (some jPU) jU) (by decide +kernel)
  obtain ⟨box, s1, h1, h2, h3, _, h5, h6, _⟩ := loadDumpCore_given _ _ none jPU jU s' 2 ⟨true, true, false⟩ (-1) 3 0 3 0 5
    (by decide +kernel) (by decide +kernel) (by decide +kernel) h
  have e : (dumpState (.fixed 3) (some 2) jSysD jProps).xy = 1 ∧ (dumpState (.fixed 3) (some 2) jSysD jProps).xz = 0 ∧
      (dumpState (.fixed 3) (some 2) jSysD jProps).yz = 0 := by decide +kernel
  rw [e.1, e.2.1, e.2.2] at h1
  exact ⟨s', box, s1, h, h1, h2, h3, h5, h6⟩

-- `propOfColumn_shape`, `propOfColumn_vals`: a `(2,)` entry with a unit factor over an integer and a real cell
example : ∃ p, propOfColumn auBox ⟨"w", ["w[0]", "w[1]"], [2], .factor (1 / 2)⟩ [[.num (7/2), .int 1], [.num 1, .num 3]] = .ok p ∧
    p.name = "w" ∧ p.shape = [2] ∧ p.vals.length = 2 ∧ p.vals = [[7/4, 1/2], [1/2, 3/2]] := by
  obtain ⟨p, h⟩ := ok_of_isSome
    (r := propOfColumn auBox ⟨"w", ["w[0]", "w[1]"], [2], .factor (1 / 2)⟩ [[.num (7/2), .int 1], [.num 1, .num 3]]) (by decide +kernel)
  obtain ⟨h1, h2, _, h4⟩ := propOfColumn_shape _ _ _ p h
  exact ⟨p, h, h1, h2, h4, by rw [(propOfColumn_vals _ _ _ p h).2 (1 / 2) rfl]; decide +kernel⟩

def jInitQ : Loaded := Loaded.init ⟨⟨⟨4, 0, 0⟩, ⟨1, 3, 0⟩, ⟨0, 0, 5⟩⟩, ⟨-1, 0, 0⟩⟩ ⟨true, true, false⟩ 2 [] []

-- `dataParts_rows_length`
example : ∃ p w, dataParts jSysQ "charge" jUQ = .ok (p, w) ∧ p.rows.length = 2 ∧ p.natoms = 2 := by
  obtain ⟨p, w, hp, _, _⟩ := jDataParts
  exact ⟨p, w, hp, dataParts_rows_length jSysQ "charge" jUQ p w hp⟩

-- `atoms_section_values`, `applyFlags_other`: the written `Atoms` rows of `jSysQ` (9 cells: 6 columns + image flags)
example : ∃ s' q, readAtoms (rowsDoc (.fixed 3) jDataRows) 9 jInitQ "charge" jUQ = .ok s' ∧ s'.natoms = 2 ∧
    s'.prop? "charge" = some q ∧ q.shape = [] ∧ q.vals = [[3501/1000], [-333/1000]] := by
  obtain ⟨s', h⟩ := ok_of_isSome (r := readAtoms (rowsDoc (.fixed 3) jDataRows) 9 jInitQ "charge" jUQ) (by decide +kernel)
  obtain ⟨hn, hv⟩ := atoms_section_values (all_formats_readable (.fixed 3)) jInitQ s' jDataRows "charge" jUQ jCharge 9 9 0
    (by decide) (by decide +kernel) jLookupQ (by decide +kernel) (by decide +kernel) (by decide +kernel) (by decide) (by decide) h
  obtain ⟨q, hq, hs, _, hvq⟩ := hv 2 (by decide) (by decide) (by decide)
  exact ⟨s', q, h, hn, hq, hs, by rw [hvq 3 rfl]; decide +kernel⟩

def jTabled : Option Loaded := (tableLoad jInitQ (rowsDoc (.fixed 3) jDataRows) jCharge true).toOption
example : ∃ s1 s' q, jTabled = some s1 ∧ applyFlags s1 (rowsDoc (.fixed 3) jDataRows) 6 = .ok s' ∧
    s'.prop? "charge" = s1.prop? "charge" ∧ s1.prop? "charge" = some q ∧ s'.prop? "pos" ≠ s1.prop? "pos" := by
  have h : (jTabled.bind fun s1 => (applyFlags s1 (rowsDoc (.fixed 3) jDataRows) 6).toOption.map fun s' =>
      ((s1.prop? "charge").isSome, decide (s'.prop? "pos" ≠ s1.prop? "pos"))) = some (true, true) := by decide +kernel
  cases h1 : jTabled with
  | none => rw [h1] at h; cases h
  | some s1 =>
    rw [h1] at h
    simp only [Option.bind_some] at h
    cases h2 : applyFlags s1 (rowsDoc (.fixed 3) jDataRows) 6 with
    | error e => rw [h2] at h; cases h
    | ok s' =>
      rw [h2] at h
      simp only [Except.toOption, Option.map_some, Option.some.injEq, Prod.mk.injEq, decide_eq_true_eq] at h
      obtain ⟨q, hq⟩ := Option.isSome_iff_exists.mp h.1
      exact ⟨s1, s', q, rfl, h2, applyFlags_other s1 s' _ 6 h2 "charge" (by decide), hq, h.2⟩

-- `loadDataCore_values`: what the first pass hands on for the written file of `jSysQ`, the written `Atoms` rows followed by
-- the `Velocities` header line, and the `Velocities` rows
def jFP : FirstPass :=
  { natoms := 2, hilo := ⟨-1, 3, 0, 3, -1/250, 751/125, 1, 0, 0⟩,
    box := ⟨⟨⟨4, 0, 0⟩, ⟨1, 3, 0⟩, ⟨0, 0, 751/125⟩⟩, ⟨-1, 0, -1/250⟩⟩, atomsColumns := 9, hint := some (cs!"charge"), masses := [] }
example : ∃ s' q, loadDataCore jFP (rowsDoc (.fixed 3) jDataRows ++ [[cs!"Velocities"]]) (some (rowsDoc (.fixed 3) jVelRows))
      ⟨true, true, false⟩ none none jUQ = .ok s' ∧ s'.natoms = 2 ∧
    s'.prop? "charge" = some q ∧ q.shape = [] ∧ q.vals = [[3501/1000], [-333/1000]] := by
  obtain ⟨s', h⟩ := ok_of_isSome (r := loadDataCore jFP (rowsDoc (.fixed 3) jDataRows ++ [[cs!"Velocities"]])
    (some (rowsDoc (.fixed 3) jVelRows)) ⟨true, true, false⟩ none none jUQ) (by decide +kernel)
  obtain ⟨hn, hv⟩ := loadDataCore_values (all_formats_readable (.fixed 3)) jFP jDataRows [[cs!"Velocities"]]
    (some (rowsDoc (.fixed 3) jVelRows)) ⟨true, true, false⟩ none none jUQ s' "charge" jCharge 9 0
    (by decide) (by decide) (by decide +kernel) (by decide +kernel) jLookupQ (by decide +kernel) (by decide +kernel)
    (by decide +kernel) (by decide) h
  obtain ⟨q, hq, hs, _, hvq⟩ := hv 2 (by decide) (by decide) (by decide) (fun vc hvc c hc => by
    rw [jLookupQV] at hvc; cases hvc
    simp only [jChargeVel, List.mem_cons, List.not_mem_nil, or_false] at hc
    rcases hc with rfl | rfl <;> decide)
  exact ⟨s', q, h, hn, hq, hs, by rw [hvq 3 rfl]; decide +kernel⟩

-- `load_perm_invariant_data_file`: the written parts of `jSysQ` and the same with the two atom lines swapped
theorem readFlagRow_fst (n : Nat) (r : Line) (x : Rat × V3 Int) (h : readFlagRow n r = .ok x) :
    ∃ idt i, r.head? = some idt ∧ pyInt idt = .ok i ∧ x.1 = (i : Rat) := by
  unfold readFlagRow at h
  split at h
  · rename_i idt a b c hh ht
    simp only [bind, Except.bind, pure, Except.pure] at h
    cases h1 : pyInt idt with
    | error e => simp [h1] at h
    | ok i =>
      cases h2 : pyInt a <;> cases h3 : pyInt b <;> cases h4 : pyInt c <;> simp [h1, h2, h3, h4] at h
      subst h
      exact ⟨idt, i, hh, h1, rfl⟩
  · cases h
theorem colsWidth_eq_names (cols : List PCol) : colsWidth cols = ((cols.map (·.names)).flatten).length := by
  induction cols with
  | nil => rfl
  | cons c cs ih => simp [colsWidth] at ih ⊢; omega
def jParts : DataParts := ⟨2, 2, ⟨-1/2, 3/2, 0, 3/2, -1/400, 1201/400, 1/2, 0, 0⟩, jDataRows, some jVelRows⟩
def jParts' : DataParts := { jParts with rows := jDataRows.reverse }
example : loadData (renderLines (dataDocOf (.fixed 3) "charge" jParts)) ⟨true, true, false⟩ none none jUQ =
    loadData (renderLines (dataDocOf (.fixed 3) "charge" jParts')) ⟨true, true, false⟩ none none jUQ := by
  have hpos : ∀ st cols, lookupCols Gen.LoadStyles.atomStyles st jUQ = .ok cols → ∃ k, colsWidth cols = k + 1 := by
    intro st cols h
    have h0 := lookupCols_id_first st jUQ cols h
    rw [colsWidth_eq_names]
    unfold idIndex at h0
    simp only at h0
    split at h0
    · rename_i hlt; exact ⟨_, (Nat.succ_pred_eq_of_pos (by omega)).symm⟩
    · cases h0
  refine load_perm_invariant_data_file (all_formats_readable (.fixed 3)) "charge" jParts jParts' jUQ
    ⟨by rw [jSW]; decide, by rw [jSW]; decide +kernel⟩ ⟨rfl, rfl, rfl, rfl⟩ (List.reverse_perm jDataRows) (by decide) 9 (by decide +kernel)
    (by decide) (by decide) (fun vr hvr => by cases hvr; decide +kernel) _ none none ?_ ?_
  · intro st cols t hc ht
    obtain ⟨k, hk⟩ := hpos st cols hc
    rw [hk] at ht
    by_cases hle : k + 1 ≤ 9
    · obtain ⟨tbl, h1, h2⟩ := readTable_rowsDoc (all_formats_readable (.fixed 3)) jDataRows 9 (k + 1) true (by decide)
        (by decide +kernel) (by simpa using hle)
      have e : jParts.rows = jDataRows := rfl
      rw [e, h1] at ht; cases ht
      have : t.map (rowKey 0) = (t.map (·.map Val.toRat)).map (fun r => (r[0]?).getD 0) := by
        rw [List.map_map]; exact List.map_congr_left fun r _ => rowKey_toRat 0 r
      rw [this, h2]
      simp only [jDataRows, List.map, List.take_succ_cons, List.getElem?_cons_zero, Option.getD_some]
      decide +kernel
    · rcases readTable_cases (rowsDoc (.fixed 3) jParts.rows) (k + 1) true with h | ⟨n, _, hn, h⟩ | h
      · rw [h.2] at ht; cases ht
      · have : n = 9 := (hn _ (by decide +kernel : (rowsDoc (.fixed 3) jParts.rows).head! ∈ rowsDoc (.fixed 3) jParts.rows)).symm.trans (by decide +kernel)
        subst this
        rw [h, if_pos ⟨rfl, by omega⟩] at ht; cases ht
      · rw [h.2.2] at ht; cases ht
  · intro st cols fl hc hfl
    have e : rowsDoc (.fixed 3) jParts.rows =
        [[cs!"1", cs!"1", cs!"1.167", cs!"0.000", cs!"0.000", cs!"0.000", cs!"0", cs!"0", cs!"0"],
         [cs!"2", cs!"2", cs!"-0.111", cs!"0.250", cs!"0.500", cs!"3.000", cs!"1", cs!"0", cs!"0"]] := by decide +kernel
    rw [e] at hfl
    simp only [List.mapM_cons, List.mapM_nil, bind, Except.bind, pure, Except.pure] at hfl
    generalize colsWidth cols = n at hfl
    cases h1 : readFlagRow n [cs!"1", cs!"1", cs!"1.167", cs!"0.000", cs!"0.000", cs!"0.000", cs!"0", cs!"0", cs!"0"] with
    | error e1 => simp [h1] at hfl
    | ok x1 =>
      cases h2 : readFlagRow n [cs!"2", cs!"2", cs!"-0.111", cs!"0.250", cs!"0.500", cs!"3.000", cs!"1", cs!"0", cs!"0"] with
      | error e2 => simp [h1, h2] at hfl
      | ok x2 =>
        simp only [h1, h2, Except.ok.injEq] at hfl
        subst hfl
        obtain ⟨t1, i1, a1, b1, c1⟩ := readFlagRow_fst _ _ _ h1
        obtain ⟨t2, i2, a2, b2, c2⟩ := readFlagRow_fst _ _ _ h2
        simp only [List.head?_cons, Option.some.injEq] at a1 a2
        subst a1; subst a2
        have d1 : pyInt (cs!"1") = .ok 1 := by decide +kernel
        have d2 : pyInt (cs!"2") = .ok 2 := by decide +kernel
        rw [d1] at b1; rw [d2] at b2; cases b1; cases b2
        simp only [List.map_cons, List.map_nil, c1, c2]
        decide +kernel

end AuditExamples

end Atomman.C08
