/-
  C11 — the compliance path in closed form for the cubic system: the 6x6 inverse, which the model takes as a
  parameter, is written out for the cubic template and proved to be the two-sided inverse, so that the Voigt / Reuss /
  Hill estimates of `ElasticConstants(C11=, C12=, C44=)` are theorems without any assumption about `np.linalg.inv`.
-/
import Proofs.C11_Iso

namespace Atomman.C11
open Atomman.Gen Matrix
set_option linter.unusedSectionVars false
set_option linter.unusedSimpArgs false
set_option linter.unusedVariables false

variable {K : Type} [Field K] [CharZero K]

/-- compliance of the cubic stiffness: `S11 = (C11+C12)/((C11-C12)(C11+2C12))`, `S12 = -C12/((C11-C12)(C11+2C12))`,
    `S44 = 1/C44`. -/
def cubicS (c11 c12 c44 : K) : M6 K :=
  m6 (isoList ((c11 + c12) / ((c11 - c12) * (c11 + 2 * c12))) (-c12 / ((c11 - c12) * (c11 + 2 * c12))) (1 / c44))

theorem ctor_cubic_eq (c11 c12 c44 : K) : ctor_C11_C12_C44 c11 c12 c44 = isoList c11 c12 c44 := by
  simp [ctor_C11_C12_C44, isoList]

section
variable (c11 c12 c44 : K) (h1 : c11 - c12 ≠ 0) (h2 : c11 + 2 * c12 ≠ 0) (h4 : c44 ≠ 0)
include h1 h2 h4

/-- `C · S = 1` for the cubic template and the closed-form compliance. -/
theorem cubic_mul_cubicS (a d : Fin 6) :
    ∑ b, m6 (ctor_C11_C12_C44 c11 c12 c44) a b * cubicS c11 c12 c44 b d = if a = d then 1 else 0 := by
  have h2' : c11 + c12 * 2 ≠ 0 := by rwa [mul_comm c12 2]
  rw [ctor_cubic_eq, cubicS, isoList_mul, one_eq_isoList]
  congr 2 <;> (field_simp <;> ring)

/-- `S · C = 1`. -/
theorem cubicS_mul_cubic (a d : Fin 6) :
    ∑ b, cubicS c11 c12 c44 a b * m6 (ctor_C11_C12_C44 c11 c12 c44) b d = if a = d then 1 else 0 := by
  have h2' : c11 + c12 * 2 ≠ 0 := by rwa [mul_comm c12 2]
  rw [ctor_cubic_eq, cubicS, isoList_mul, one_eq_isoList]
  congr 2 <;> (field_simp <;> ring)

/-- **the compliance of a cubic crystal is the closed form**: whatever `np.linalg.inv` returns, if it is a right
    inverse of the stored cubic matrix it is `cubicS`. -/
theorem cubic_compliance_unique (s : M6 K)
    (hs : ∀ a d, ∑ b, m6 (ctor_C11_C12_C44 c11 c12 c44) a b * s b d = if a = d then 1 else 0) :
    s = cubicS c11 c12 c44 :=
  (inverse_unique _ _ _ (cubicS_mul_cubic c11 c12 c44 h1 h2 h4) hs).symm

/-- **Voigt / Reuss / Hill of a cubic crystal**: the three bulk estimates coincide with `(C11 + 2 C12)/3`; the shear
    estimates are `(C11 - C12 + 3 C44)/5` (Voigt) and `5 C44 (C11 - C12) / (4 C44 + 3 (C11 - C12))` (Reuss). -/
theorem cubic_moduli (h3 : 4 * c44 + 3 * (c11 - c12) ≠ 0) :
    let c := m6 (ctor_C11_C12_C44 c11 c12 c44)
    let s := cubicS c11 c12 c44
    bulkVoigt c = (c11 + 2 * c12) / 3 ∧ bulkReuss s = (c11 + 2 * c12) / 3 ∧ bulkHill c s = (c11 + 2 * c12) / 3 ∧
    shearVoigt c = (c11 - c12 + 3 * c44) / 5 ∧
    shearReuss s = 5 * c44 * (c11 - c12) / (4 * c44 + 3 * (c11 - c12)) := by
  obtain ⟨⟨a00, a01, a02, a03, a04, a05⟩, ⟨a10, a11, a12, a13, a14, a15⟩, ⟨a20, a21, a22, a23, a24, a25⟩,
    ⟨a30, a31, a32, a33, a34, a35⟩, ⟨a40, a41, a42, a43, a44, a45⟩, ⟨a50, a51, a52, a53, a54, a55⟩⟩ :=
    isoList_entries c11 c12 c44
  have h2' : c11 + c12 * 2 ≠ 0 := by rwa [mul_comm c12 2]
  have h3' : c44 * 4 + (c11 - c12) * 3 ≠ 0 := by rwa [mul_comm c44 4, mul_comm (c11 - c12) 3]
  obtain ⟨⟨b00, b01, b02, b03, b04, b05⟩, ⟨b10, b11, b12, b13, b14, b15⟩, ⟨b20, b21, b22, b23, b24, b25⟩,
    ⟨b30, b31, b32, b33, b34, b35⟩, ⟨b40, b41, b42, b43, b44, b45⟩, ⟨b50, b51, b52, b53, b54, b55⟩⟩ :=
    isoList_entries ((c11 + c12) / ((c11 - c12) * (c11 + 2 * c12))) (-c12 / ((c11 - c12) * (c11 + 2 * c12))) (1 / c44)
  have hR : bulkReuss (cubicS c11 c12 c44) = (c11 + 2 * c12) / 3 := by
    simp only [bulkReuss, cubicS, b00, b11, b22, b01, b12, b02, Nat.cast_ofNat, Nat.cast_one]
    have e : (c11 + c12) / ((c11 - c12) * (c11 + 2 * c12)) + (c11 + c12) / ((c11 - c12) * (c11 + 2 * c12))
        + (c11 + c12) / ((c11 - c12) * (c11 + 2 * c12))
        + 2 * (-c12 / ((c11 - c12) * (c11 + 2 * c12)) + -c12 / ((c11 - c12) * (c11 + 2 * c12))
          + -c12 / ((c11 - c12) * (c11 + 2 * c12))) = 3 / (c11 + 2 * c12) := by
      field_simp; ring
    rw [e]; field_simp
  have hV : bulkVoigt (m6 (ctor_C11_C12_C44 c11 c12 c44)) = (c11 + 2 * c12) / 3 := by
    rw [ctor_cubic_eq]
    simp only [bulkVoigt, a00, a11, a22, a01, a12, a02, Nat.cast_ofNat]
    ring
  refine ⟨hV, hR, ?_, ?_, ?_⟩
  · simp only [bulkHill, hV, hR, Nat.cast_ofNat]; ring
  · rw [ctor_cubic_eq]
    simp only [shearVoigt, a00, a11, a22, a01, a12, a02, a33, a44, a55, Nat.cast_ofNat]
    ring
  · simp only [shearReuss, cubicS, b00, b11, b22, b01, b12, b02, b33, b44, b55, Nat.cast_ofNat]
    have e : 4 * ((c11 + c12) / ((c11 - c12) * (c11 + 2 * c12)) + (c11 + c12) / ((c11 - c12) * (c11 + 2 * c12))
        + (c11 + c12) / ((c11 - c12) * (c11 + 2 * c12)))
        - 4 * (-c12 / ((c11 - c12) * (c11 + 2 * c12)) + -c12 / ((c11 - c12) * (c11 + 2 * c12))
          + -c12 / ((c11 - c12) * (c11 + 2 * c12))) + 3 * (1 / c44 + 1 / c44 + 1 / c44)
        = 3 * (4 * c44 + 3 * (c11 - c12)) / ((c11 - c12) * c44) := by
      field_simp; ring
    rw [e]; field_simp; norm_num

end

/-- non-vacuity: `C11 = 3, C12 = 1, C44 = 2`. -/
example : (3 : ℚ) - 1 ≠ 0 ∧ (3 : ℚ) + 2 * 1 ≠ 0 ∧ (2 : ℚ) ≠ 0 ∧ 4 * (2 : ℚ) + 3 * (3 - 1) ≠ 0 := by norm_num

end Atomman.C11
