/-
  C06 — invariant preservation, part 2: `addProp`, `allocVal`, `PropertyDict.__setitem__` (`viewSet`).
-/
import Proofs.C06_Inv

namespace Atomman.C06
set_option linter.unusedSimpArgs false
set_option linter.unusedVariables false

/-! ### values -/

/-- `Val.ok` as a proposition: flat data of the declared size, every cell of the declared dtype. -/
def ValOK (v : Val) : Prop := v.data.length = prod v.shape ∧ ∀ c ∈ v.data, c.hasType v.dt = true

theorem valOK_of_ok (v : Val) (h : v.ok = true) : ValOK v := by
  simp only [Val.ok, Bool.and_eq_true, beq_iff_eq, List.all_eq_true] at h
  exact ⟨h.1, h.2⟩

theorem flatten_length_const {α : Type} (l : List (List α)) (w : Nat) (h : ∀ r ∈ l, r.length = w) :
    l.flatten.length = l.length * w := by
  induction l with
  | nil => simp
  | cons x t ih =>
    simp only [List.flatten_cons, List.length_append, List.length_cons]
    rw [ih (fun r hr => h r (by simp [hr])), h x (by simp), Nat.add_mul]
    omega

theorem arrRows_mem {s : State} {a : Arr} (hv : ArrValid s a) (r : Row) (hr : r ∈ arrRows s a) :
    ∃ i ∈ a.idx, (s.buf a.buf).rows[i]? = some r ∧ r ∈ (s.buf a.buf).rows := by
  simp only [arrRows, List.mem_map] at hr
  obtain ⟨i, hi, rfl⟩ := hr
  have hlt := hv.2 i hi
  refine ⟨i, hi, ?_, ?_⟩
  · simp [List.getElem?_eq_getElem hlt]
  · simp [List.getElem?_eq_getElem hlt]

/-- an array of a well-formed state read as a value is rectangular and typed. -/
theorem arrVal_ok {κ : Nat → String} {s : State} (h : InvK κ s) {a : Arr} (hv : ArrValid s a) : ValOK (arrVal s a) := by
  have hb := h.buf_ok a.buf
  constructor
  · simp only [arrVal, prod, arrTrail]
    rw [flatten_length_const _ (prod (s.buf a.buf).trail)]
    · simp [arrRows]
    · intro r hr
      obtain ⟨i, _, _, hmem⟩ := arrRows_mem hv r hr
      exact hb.width r hmem
  · intro c hc
    simp only [arrVal, List.mem_flatten] at hc
    obtain ⟨r, hr, hcr⟩ := hc
    obtain ⟨i, _, _, hmem⟩ := arrRows_mem hv r hr
    exact hb.typed r hmem c hcr

theorem arrVal_ge1 {s : State} {a : Arr} (h : AtypeOK s a) : ∀ c ∈ (arrVal s a).data, CellGE1 c := by
  intro c hc
  simp only [arrVal, arrRows, List.mem_flatten, List.mem_map] at hc
  obtain ⟨r, ⟨i, hi, rfl⟩, hcr⟩ := hc
  exact h i hi c hcr

theorem atypeOK_of_arrVal {s : State} {a : Arr} (h : ∀ c ∈ (arrVal s a).data, CellGE1 c) : AtypeOK s a := by
  intro i hi c hc
  apply h c
  simp only [arrVal, arrRows, List.mem_flatten, List.mem_map]
  exact ⟨_, ⟨i, hi, rfl⟩, hc⟩

/-! ### `addProp` -/

theorem obj_set (s : State) (o o' : Nat) (x : AtomsObj) :
    ({ s with objs := s.objs.set o x } : State).obj o' = if o' = o ∧ o < s.objs.length then x else s.obj o' := by
  simp only [State.obj, List.getElem?_set]
  by_cases h : o = o'
  · subst h
    by_cases h2 : o < s.objs.length
    · simp [h2]
    · simp [h2]
  · have : ¬ o' = o := fun h' => h h'.symm
    simp [h, this]

theorem find_none_iff (ob : AtomsObj) (key : String) : ob.find key = none ↔ ∀ p ∈ ob.props, p.key ≠ key := by
  unfold AtomsObj.find
  simp [List.find?_eq_none]

theorem find_append_new (ob : AtomsObj) (key : String) (a : Arr) (k : String) (b : Arr)
    (h : ob.find k = some b) : ({ ob with props := ob.props ++ [⟨key, a⟩] } : AtomsObj).find k = some b := by
  unfold AtomsObj.find at h ⊢
  simp only [List.find?_append]
  cases hf : ob.props.find? (fun p => p.key == k) with
  | none => simp [hf] at h
  | some p => simp [hf] at h ⊢; exact h

theorem find_append_self (ob : AtomsObj) (key : String) (a : Arr) (h : ob.find key = none) :
    ({ ob with props := ob.props ++ [⟨key, a⟩] } : AtomsObj).find key = some a := by
  unfold AtomsObj.find at h ⊢
  simp only [List.find?_append]
  cases hf : ob.props.find? (fun p => p.key == key) with
  | none => simp
  | some p => simp [hf] at h

theorem PropOK.of_heap_eq {κ : Nat → String} {s s' : State} {n : Nat} {p : PropRef} (h : PropOK κ s n p)
    (hh : s'.heap = s.heap) : PropOK κ s' n p := by
  have hb : ∀ b, s'.buf b = s.buf b := by intro b; simp [State.buf, hh]
  refine ⟨⟨by rw [hh]; exact h.valid.1, by rw [hb]; exact h.valid.2⟩, h.len, h.key, ?_, h.nodup⟩
  intro hk i hi
  rw [hb]; exact h.atype hk i hi

/-- the state after `addProp o key a`. -/
def addedState (s : State) (o : Nat) (key : String) (a : Arr) : State :=
  { s with objs := s.objs.set o { s.obj o with props := (s.obj o).props ++ [⟨key, a⟩] } }

theorem addProp_eq (o : Nat) (key : String) (a : Arr) (s : State) :
    addProp o key a s = (.ok (), addedState s o key a) := rfl

theorem inv_addProp {κ : Nat → String} {s : State} (h : InvK κ s) (o : Nat) (key : String) (a : Arr)
    (hv : ArrValid s a) (hlen : a.idx.length = (s.obj o).natoms) (hk : κ a.buf = key)
    (hat : key = "atype" → AtypeOK s a) (hnew : (s.obj o).find key = none) (hnd : a.idx.Nodup) :
    InvK κ (addedState s o key a) ∧ Ext κ s κ (addedState s o key a) ∧
    (addedState s o key a).objs.length = s.objs.length ∧ (addedState s o key a).syss = s.syss ∧
    (addedState s o key a).heap = s.heap ∧
    (o < s.objs.length → ((addedState s o key a).obj o).find key = some a) := by
  have hle : Le s (addedState s o key a) := by
    refine ⟨Nat.le_refl _, fun _ _ => ⟨rfl, rfl, rfl⟩, by simp [addedState], ?_, Nat.le_refl _, fun _ _ => ⟨rfl, rfl⟩⟩
    intro o' ho'
    simp only [addedState, obj_set]
    split
    · rename_i hc
      rw [hc.1]
      exact ⟨rfl, fun k b hb => find_append_new _ _ _ _ _ hb⟩
    · exact ⟨rfl, fun _ _ hb => hb⟩
  refine ⟨⟨h.heap, ?_, ?_, ?_⟩, ⟨hle, fun _ _ => rfl⟩, by simp [addedState], rfl, rfl, ?_⟩
  · intro ob hob p hp
    rcases List.mem_or_eq_of_mem_set hob with h1 | h1
    · exact (h.props ob h1 p hp).of_heap_eq rfl
    · subst h1
      simp only [List.mem_append, List.mem_singleton] at hp
      rcases hp with hp | rfl
      · exact (h.obj_props o p hp).of_heap_eq rfl
      · exact (⟨hv, hlen, hk, hat, hnd⟩ : PropOK κ s _ _).of_heap_eq rfl
  · intro ob hob
    rcases List.mem_or_eq_of_mem_set hob with h1 | h1
    · exact h.nodup ob h1
    · subst h1
      simp only [List.map_append, List.map_cons, List.map_nil]
      rw [List.nodup_append]
      refine ⟨?_, by simp, ?_⟩
      · by_cases ho : o < s.objs.length
        · exact h.nodup _ (obj_mem s o ho)
        · rw [obj_ge s o (Nat.le_of_not_lt ho)]; simp [emptyObj]
      · intro k hk1 k2 hk2
        simp only [List.mem_singleton] at hk2
        subst hk2
        simp only [List.mem_map] at hk1
        obtain ⟨p, hp, rfl⟩ := hk1
        exact (find_none_iff _ _).mp hnew p hp
  · intro y hy
    have := h.syss y hy
    simpa [addedState] using this
  · intro ho
    simp only [addedState, obj_set, ho, and_self, if_true]
    exact find_append_self _ _ _ hnew

/-! ### `viewBcast`, `viewGuard` (pure) -/

/-- what `view[key] = value` may be handed: a well-formed literal, or an array of the heap that the
    ghost files under `key`. -/
def SrcOK (κ : Nat → String) (s : State) (key : String) : Src → Prop
  | .lit v => ValOK v
  | .arr a => ArrValid s a ∧ κ a.buf = key ∧ a.idx.Nodup

theorem SrcOK.mono {κ κ' : Nat → String} {s s' : State} {key : String} {src : Src} (h : SrcOK κ s key src)
    (hext : Ext κ s κ' s') : SrcOK κ' s' key src := by
  cases src with
  | lit v => exact h
  | arr a => exact ⟨h.1.mono hext.le, (hext.agree _ h.1.1).trans h.2.1, h.2.2⟩

theorem srcVal_ok {κ : Nat → String} {s : State} (h : InvK κ s) {key : String} {src : Src} (hs : SrcOK κ s key src) :
    ValOK (srcVal s src) := by
  cases src with
  | lit v => exact hs
  | arr a => exact arrVal_ok h hs.1

/-- result of the broadcast step: a (copied) literal with leading length `n`, or the very array. -/
def BcastRes (s : State) (n : Nat) (src src' : Src) : Prop :=
  (∃ lv t, src' = .lit lv ∧ lv.shape = n :: t ∧ (ValOK (srcVal s src) → ValOK lv) ∧
      (∀ c ∈ lv.data, c ∈ (srcVal s src).data) ∧ lv.dt = (srcVal s src).dt ∧ t = (srcVal s src).shape.tail) ∨
  (∃ a, src = .arr a ∧ src' = .arr a ∧ a.idx.length = n)

theorem viewBcast_cases (s : State) (n : Nat) (src : Src) :
    (∃ e, viewBcast s n src = fail e) ∨
    (∃ src', viewBcast s n src = pure src' ∧ BcastRes s n src src') := by
  unfold viewBcast
  simp only []
  split
  · rename_i hsh
    split
    · rename_i flat hflat
      right
      refine ⟨_, rfl, Or.inl ⟨_, [], rfl, rfl, ?_, bcast_mem _ _ _ hflat, rfl, by rw [hsh]; rfl⟩⟩
      exact fun hv => ⟨bcast_length _ _ _ hflat, fun c hc => hv.2 c (bcast_mem _ _ _ hflat c hc)⟩
    · left; exact ⟨_, rfl⟩
  · rename_i d t hshape
    split
    · split
      · rename_i flat hflat
        right
        refine ⟨_, rfl, Or.inl ⟨_, t, rfl, rfl, ?_, bcast_mem _ _ _ hflat, rfl, by rw [hshape]; rfl⟩⟩
        exact fun hv => ⟨bcast_length _ _ _ hflat, fun c hc => hv.2 c (bcast_mem _ _ _ hflat c hc)⟩
      · left; exact ⟨_, rfl⟩
    · split
      · left; exact ⟨_, rfl⟩
      · rename_i hd1 hdn
        have hdn : d = n := by simpa using hdn
        right
        refine ⟨src, rfl, ?_⟩
        cases src with
        | lit v =>
          left
          simp only [srcVal] at hshape
          exact ⟨v, t, rfl, by rw [hshape, hdn], fun hv => hv, fun c hc => hc, rfl, by simp only [srcVal]; rw [hshape]; rfl⟩
        | arr a =>
          right
          simp only [srcVal, arrVal] at hshape
          injection hshape with h1 h2
          exact ⟨a, rfl, rfl, by rw [h1, hdn]⟩

theorem viewGuard_cases (key : String) (n : Nat) (v' : Val) :
    (∃ e, viewGuard key n v' = fail e) ∨
    (viewGuard key n v' = pure () ∧ (key = "atype" → 0 < n → ∀ c ∈ v'.data, CellGE1 c)) := by
  unfold viewGuard
  split
  · rename_i hc
    split
    · left; exact ⟨_, rfl⟩
    · rename_i nums hnums
      split
      · rename_i m hm
        split
        · left; exact ⟨_, rfl⟩
        · rename_i hlt
          right
          exact ⟨rfl, fun _ _ => cells_ge1_of_min _ _ _ hnums hm hlt⟩
      · left; exact ⟨_, rfl⟩
  · rename_i hc
    right
    refine ⟨rfl, fun h1 h2 => absurd ⟨h1, h2⟩ hc⟩

/-! ### `allocVal` -/

theorem rows_of_val_ok {v : Val} (hv : ValOK v) {n : Nat} {trail : List Nat} (hs : v.shape = n :: trail) :
    BufOK ⟨v.dt, trail, rowsOf n (prod trail) v.data⟩ := by
  have hlen : v.data.length = n * prod trail := by rw [hv.1, hs]; rfl
  constructor
  · intro r hr; exact rowsOf_width _ _ _ r hr
  · intro r hr c hc
    exact hv.2 c (rowsOf_mem _ _ _ hlen r hr c hc)

theorem allocVal_eq (v : Val) (n : Nat) (trail : List Nat) (hs : v.shape = n :: trail) (s : State) :
    allocVal v s = (.ok ⟨s.heap.length, List.range n⟩,
      { s with heap := s.heap ++ [⟨v.dt, trail, rowsOf n (prod trail) v.data⟩] }) := by
  unfold allocVal
  rw [hs]
  simp only [alloc_eq, rowsOf_length]

/-! ### `viewSet` -/

/-- post-condition shared by the functions that do not create objects: invariant for an extended
    ghost, same number of objects, same systems. -/
def Kept (κ : Nat → String) (s : State) (s' : State) : Prop :=
  ∃ κ', InvK κ' s' ∧ Ext κ s κ' s' ∧ s'.objs.length = s.objs.length ∧ s'.syss = s.syss

theorem Kept.refl {κ : Nat → String} {s : State} (h : InvK κ s) : Kept κ s s := ⟨κ, h, Ext.refl κ s, rfl, rfl⟩

theorem allSel_ok (n : Nat) : SelOK (allSel n) := by intro h; simp [allSel] at h

/-- **`view[key] = value` keeps the invariant** (and binds `key` when it returns normally). -/
theorem inv_viewSet {κ : Nat → String} {s : State} (h : InvK κ s) (o : Nat) (key : String) (src : Src)
    (hsrc : SrcOK κ s key src) :
    Post (viewSet o key src) s (fun r s' => Kept κ s s' ∧
      (r = .ok () → o < s.objs.length → ((s'.obj o).find key).isSome)) := by
  unfold viewSet
  rw [post_bind_getS]
  simp only []
  have hvok := srcVal_ok h hsrc
  rcases viewBcast_cases s (s.obj o).natoms src with ⟨e, he⟩ | ⟨src', he, hres⟩
  · rw [he, post_bind_fail]
    exact ⟨Kept.refl h, by intro hc; cases hc⟩
  rw [he, post_bind_pure]
  rcases viewGuard_cases key (s.obj o).natoms (srcVal s src') with ⟨e, hg⟩ | ⟨hg, hguard⟩
  · rw [hg, post_bind_fail]
    exact ⟨Kept.refl h, by intro hc; cases hc⟩
  rw [hg, post_bind_pure]
  -- the cells of the value are among those of the original source
  split
  · -- existing key: write through
    rename_i a hfind
    have hp := h.find_ok o key a hfind
    apply Post.mono (inv_assign h a (allSel (s.obj o).natoms) (srcVal s src') (allSel_ok _) ?_)
    · intro r s' ⟨hinv, hext, hobjs, hsyss⟩
      refine ⟨⟨κ, hinv, hext, by rw [hobjs], hsyss⟩, ?_⟩
      intro _ ho
      have := (hext.le.obj o ho).2 key a hfind
      simp [this]
    · intro hκ
      have hka : key = "atype" := hp.key.symm.trans hκ
      by_cases hn : 0 < (s.obj o).natoms
      · right; exact hguard hka hn
      · left; simp [allSel]; omega
  · -- new key
    rename_i hfind
    rcases hres with ⟨lv, t, rfl, hshape, hlvok, hmem, _, _⟩ | ⟨a, rfl, rfl, hlen⟩
    · -- a literal (the caller's, or the materialised broadcast): fresh buffer
      simp only []
      rw [post_bind]
      apply Post.of_eq _ _ (allocVal_eq lv _ t hshape s)
      simp only []
      have hbuf := rows_of_val_ok (hlvok hvok) hshape
      obtain ⟨hinv1, hext1⟩ := inv_alloc h _ hbuf key
      apply Post.of_eq _ _ (addProp_eq _ _ _ _)
      have hvalid : ArrValid { s with heap := s.heap ++ [⟨lv.dt, t, rowsOf (s.obj o).natoms (prod t) lv.data⟩] }
          ⟨s.heap.length, List.range (s.obj o).natoms⟩ := by
        refine ⟨by simp, ?_⟩
        intro i hi
        rw [buf_append_eq]
        simpa [rowsOf_length] using hi
      have hobj : ∀ o', ({ s with heap := s.heap ++ [⟨lv.dt, t, rowsOf (s.obj o).natoms (prod t) lv.data⟩] } : State).obj o'
          = s.obj o' := fun _ => rfl
      have hat : key = "atype" → AtypeOK { s with heap := s.heap ++ [⟨lv.dt, t, rowsOf (s.obj o).natoms (prod t) lv.data⟩] }
          ⟨s.heap.length, List.range (s.obj o).natoms⟩ := by
        intro hka
        apply atypeOK_of_arrVal
        intro c hc
        by_cases hn : 0 < (s.obj o).natoms
        · apply hguard hka hn
          simp only [srcVal]
          simp only [arrVal, arrRows, List.mem_flatten, List.mem_map] at hc
          obtain ⟨r, ⟨i, hi, rfl⟩, hcr⟩ := hc
          rw [buf_append_eq] at hcr
          simp only [List.mem_range] at hi
          have hlen : lv.data.length = (s.obj o).natoms * prod t := by rw [(hlvok hvok).1, hshape]; rfl
          have hrow : (rowsOf (s.obj o).natoms (prod t) lv.data)[i]?.getD [] ∈ rowsOf (s.obj o).natoms (prod t) lv.data := by
            have : i < (rowsOf (s.obj o).natoms (prod t) lv.data).length := by simpa [rowsOf_length] using hi
            simp [List.getElem?_eq_getElem this]
          exact rowsOf_mem _ _ _ hlen _ hrow c hcr
        · simp only [arrVal, arrRows] at hc
          have : (s.obj o).natoms = 0 := by omega
          simp [this] at hc
      obtain ⟨hinv2, hext2, hlen2, hsys2, _, hfind2⟩ := inv_addProp hinv1 o key ⟨s.heap.length, List.range (s.obj o).natoms⟩
        hvalid (by simp [hobj]) (by simp [upd]) hat (by rw [hobj]; exact hfind) List.nodup_range
      exact ⟨⟨_, hinv2, hext1.trans hext2, hlen2, hsys2⟩, fun _ ho => by rw [hfind2 ho]; rfl⟩
    · -- the array itself is bound
      simp only []
      rw [post_bind_pure]
      apply Post.of_eq _ _ (addProp_eq _ _ _ _)
      have hat : key = "atype" → AtypeOK s a := by
        intro hka
        by_cases hn : 0 < (s.obj o).natoms
        · exact atypeOK_of_arrVal (hguard hka hn)
        · intro i hi
          have : a.idx = [] := by
            apply List.eq_nil_of_length_eq_zero; omega
          rw [this] at hi; simp at hi
      obtain ⟨hinv2, hext2, hlen2, hsys2, _, hfind2⟩ := inv_addProp h o key a hsrc.1 hlen hsrc.2.1 hat hfind hsrc.2.2
      exact ⟨⟨_, hinv2, hext2, hlen2, hsys2⟩, fun _ ho => by rw [hfind2 ho]; rfl⟩

end Atomman.C06
