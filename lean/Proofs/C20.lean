/-
  C20 — property theorems about the *generated* integrators / gradient / climbing rate
  (`Atomman/Generated/Integrators.lean`, regenerated from /repo on every run).
-/
import Atomman.Generated.Integrators
import Atomman.C20
import Mathlib.Tactic.Module
import Mathlib.Tactic.Ring
import Mathlib.Tactic.FieldSimp
import Mathlib.Tactic.Linarith
import Mathlib.Algebra.Module.LinearMap.End
import Mathlib.Analysis.SpecialFunctions.Exponential

namespace Atomman.C20
open Atomman.Gen
set_option linter.unusedSimpArgs false
set_option linter.unusedSectionVars false

variable {K V : Type} [Field K] [CharZero K] [AddCommGroup V] [Module K V]

/-- Euler step on a linear rate law. -/
theorem euler_linear (A : V →ₗ[K] V) (y : V) (h : K) :
    euler (fun v => A v) y h = y + h • A y := by
  simp only [euler]

/-- ... i.e. the degree-1 Taylor polynomial of `exp (hA)` applied to `y`. -/
theorem euler_taylor1 (A : Module.End K V) (y : V) (h : K) :
    euler (fun v => A v) y h = ((1 : Module.End K V) + h • A) y := by
  simp only [euler, LinearMap.add_apply, LinearMap.smul_apply, Module.End.one_apply]

/-- Runge–Kutta step on a linear rate law: the degree-4 Taylor polynomial of `exp (hA)`. -/
theorem rk4_linear (A : V →ₗ[K] V) (y : V) (h : K) :
    rungekutta (fun v => A v) y h
      = y + h • A y + (h^2/2) • A (A y) + (h^3/6) • A (A (A y)) + (h^4/24) • A (A (A (A y))) := by
  simp only [rungekutta, map_add, map_sub, map_neg, map_smul, Nat.cast_ofNat, Nat.cast_one]
  module

/-- scalar form: `y ↦ a*y`. -/
theorem rk4_taylor4_scalar (a y h : K) :
    rungekutta (fun v => a * v) y h
      = (1 + h*a + (h*a)^2/2 + (h*a)^3/6 + (h*a)^4/24) * y := by
  simp only [rungekutta, smul_eq_mul, Nat.cast_ofNat, Nat.cast_one]
  ring

/-- one-step error of Euler against the exact flow `exp (h a) y` (real scalar case): order 2. -/
theorem euler_one_step_error (a y h : ℝ) (hx : |h * a| ≤ 1) :
    |Real.exp (h * a) * y - euler (fun v => a * v) y h| ≤ |h * a| ^ 2 * |y| := by
  have e : euler (fun v => a * v) y h = (1 + h * a) * y := by
    simp only [euler, smul_eq_mul]; ring
  rw [e, ← sub_mul, abs_mul]
  have hb := Real.exp_bound hx (n := 2) (by norm_num)
  have hs : (∑ m ∈ Finset.range 2, (h * a) ^ m / (m.factorial : ℝ)) = 1 + h * a := by
    simp [Finset.sum_range_succ]
  rw [hs] at hb
  have hc : |h * a| ^ 2 * (((Nat.succ 2 : ℕ) : ℝ) / ((Nat.factorial 2 : ℝ) * (2 : ℕ))) ≤ |h * a| ^ 2 := by
    have : (((Nat.succ 2 : ℕ) : ℝ) / ((Nat.factorial 2 : ℝ) * (2 : ℕ))) ≤ 1 := by
      norm_num [Nat.factorial]
    have h2 : 0 ≤ |h * a| ^ 2 := by positivity
    nlinarith
  exact mul_le_mul_of_nonneg_right (le_trans hb hc) (abs_nonneg y)

/-- one-step error of Runge–Kutta against `exp (h a) y` (real scalar case): order 5. -/
theorem rk4_one_step_error_scalar (a y h : ℝ) (hx : |h * a| ≤ 1) :
    |Real.exp (h * a) * y - rungekutta (fun v => a * v) y h| ≤ |h * a| ^ 5 * (1 / 100) * |y| := by
  rw [rk4_taylor4_scalar, ← sub_mul, abs_mul]
  have hb := Real.exp_bound hx (n := 5) (by norm_num)
  have hs : (∑ m ∈ Finset.range 5, (h * a) ^ m / (m.factorial : ℝ))
      = 1 + h * a + (h * a) ^ 2 / 2 + (h * a) ^ 3 / 6 + (h * a) ^ 4 / 24 := by
    simp [Finset.sum_range_succ, Nat.factorial]
  rw [hs] at hb
  have hc : |h * a| ^ 5 * (((Nat.succ 5 : ℕ) : ℝ) / ((Nat.factorial 5 : ℝ) * (5 : ℕ))) = |h * a| ^ 5 * (1 / 100) := by
    norm_num [Nat.factorial]
  rw [hc] at hb
  exact mul_le_mul_of_nonneg_right hb (abs_nonneg y)

/-- central difference along `e` of a function that is a cubic along that line:
    the result is the exact derivative `c1` plus `c3 * shift²`. -/
theorem cd_cubic (f : V → K) (x e : V) (c0 c1 c2 c3 s : K) (hs : s ≠ 0)
    (hf : ∀ t : K, f (x + t • e) = c0 + c1 * t + c2 * t^2 + c3 * t^3) :
    cdComponent f x (s • e) s = c1 + c3 * s^2 := by
  have hm : x - s • e = x + (-s) • e := by rw [neg_smul, sub_eq_add_neg]
  simp only [cdComponent, hm, hf, Nat.cast_ofNat]
  field_simp
  ring

theorem cd_exact_quadratic (f : V → K) (x e : V) (c0 c1 c2 s : K) (hs : s ≠ 0)
    (hf : ∀ t : K, f (x + t • e) = c0 + c1 * t + c2 * t^2) :
    cdComponent f x (s • e) s = c1 := by
  have := cd_cubic f x e c0 c1 c2 0 s hs (by intro t; rw [hf t]; ring)
  simpa using this

/-- second order in the step: the error is exactly `c3 * s²` (`c3 = f‴/6`). -/
theorem cd_error_second_order {V : Type} [AddCommGroup V] [Module ℝ V] (f : V → ℝ) (x e : V) (c0 c1 c2 c3 s : ℝ) (hs : s ≠ 0)
    (hf : ∀ t : ℝ, f (x + t • e) = c0 + c1 * t + c2 * t^2 + c3 * t^3) :
    |cdComponent f x (s • e) s - c1| = |c3| * s^2 := by
  rw [cd_cubic f x e c0 c1 c2 c3 s hs hf]
  simp [abs_mul]

/-- a stationary ordinary image sits at a critical point. -/
theorem rate_zero_iff (gradE : V → V) (x : V) : rate gradE x = 0 ↔ gradE x = 0 := by
  simp only [rate, neg_eq_zero]

section climb
variable (dot : V → V → K)
  (hadd : ∀ a b c, dot (a + b) c = dot a c + dot b c)
  (hsmul : ∀ (k : K) a c, dot (k • a) c = k * dot a c)
  (hneg : ∀ a c, dot (-a) c = - dot a c)
include hadd hsmul hneg

/-- the climbing rate reverses the tangential component of `-grad E` ... -/
theorem climb_reverses_tangential (gradE : V → V) (x τ : V) (hτ : dot τ τ = 1) :
    dot (climbrate gradE dot x τ) τ = dot (gradE x) τ := by
  simp only [climbrate, hadd, hsmul, hneg, hτ, Nat.cast_ofNat]
  ring

/-- ... so a stationary climbing image sits at a critical point (the saddle). -/
theorem climb_fixed_point (gradE : V → V) (x τ : V) (hτ : dot τ τ = 1)
    (hz : climbrate gradE dot x τ = 0) (hdot0 : ∀ c, dot 0 c = 0) : gradE x = 0 := by
  have h1 := climb_reverses_tangential dot hadd hsmul hneg gradE x τ hτ
  rw [hz, hdot0] at h1
  have h2 : climbrate gradE dot x τ = -gradE x := by
    simp only [climbrate, ← h1, zero_smul, smul_zero, add_zero]
  rw [hz] at h2
  exact neg_eq_zero.mp h2.symm

end climb

/-! ### control flow of `relax` (hand-written model `phaseSteps`, tied by correspondence) -/

theorem phaseSteps_le {L : Type} [LT L] [DecidableLT L] (tol : L) (n : Nat) (ds : List L) :
    phaseSteps tol n ds ≤ n := by
  induction n generalizing ds with
  | zero => simp [phaseSteps]
  | succ n ih =>
    cases ds with
    | nil => simp [phaseSteps]
    | cons d ds =>
      simp only [phaseSteps]
      split
      · omega
      · have := ih ds; omega

/-- the climbing phase performs at least one step whenever climbing was requested — whatever the
    relaxation phase did (in particular also when relaxation stopped by reaching the tolerance). -/
theorem climb_runs_when_requested {L : Type} [LT L] [DecidableLT L] (tol : L) (r c : Nat) (dsR dsC : List L)
    (hc : 0 < c) (hds : dsC ≠ []) : 1 ≤ (relaxCounts tol r c dsR dsC).2 := by
  obtain ⟨c, rfl⟩ : ∃ k, c = k + 1 := ⟨c - 1, by omega⟩
  cases dsC with
  | nil => exact absurd rfl hds
  | cons d ds =>
    simp only [relaxCounts, phaseSteps]
    split <;> omega

/-- a phase stops right after the first step whose displacement is below the tolerance, and not before. -/
theorem phaseSteps_stops_at_first_small {L : Type} [LT L] [DecidableLT L] (tol : L) (n : Nat) (pre : List L) (d : L)
    (post : List L) (hpre : ∀ x ∈ pre, ¬ x < tol) (hd : d < tol) (hn : pre.length < n) :
    phaseSteps tol n (pre ++ d :: post) = pre.length + 1 := by
  induction pre generalizing n with
  | nil =>
    obtain ⟨n, rfl⟩ : ∃ k, n = k + 1 := ⟨n - 1, by simp at hn; omega⟩
    simp [phaseSteps, hd]
  | cons x xs ih =>
    obtain ⟨n, rfl⟩ : ∃ k, n = k + 1 := ⟨n - 1, by simp at hn; omega⟩
    have hx : ¬ x < tol := hpre x (by simp)
    simp only [List.cons_append, phaseSteps, hx, if_false, List.length_cons]
    rw [ih n (fun y hy => hpre y (by simp [hy])) (by simp at hn; omega)]
    omega

/-! non-vacuity: concrete instances of the hypotheses -/
example : (∀ t : ℚ, (fun v : ℚ => 1 + 2 * v + 3 * v^2 + 4 * v^3) (0 + t • (1:ℚ)) = 1 + 2 * t + 3 * t^2 + 4 * t^3) := by
  intro t; simp
example : rungekutta (K := ℚ) (fun v : ℚ => 1 * v) 1 (1/2 : ℚ) = 211/128 :=
  (rk4_taylor4_scalar (K := ℚ) 1 1 (1/2)).trans (by norm_num)

end Atomman.C20
