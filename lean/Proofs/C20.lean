/-
  C20 — property theorems about the *generated* integrators / gradient / climbing rate
  (`Atomman/Generated/Integrators.lean`, regenerated from /repo on every run).
-/
import Atomman.Generated.Integrators
import Atomman.C20
import Proofs.C20_Source
import Mathlib.Tactic.Module
import Mathlib.Tactic.Ring
import Mathlib.Tactic.FieldSimp
import Mathlib.Tactic.Linarith
import Mathlib.Tactic.Positivity
import Mathlib.Algebra.Order.Field.Basic
import Mathlib.Algebra.Module.LinearMap.End
import Mathlib.Analysis.SpecialFunctions.Exponential
import Mathlib.LinearAlgebra.Matrix.ToLin

namespace Atomman.C20
open Atomman.Gen
set_option linter.unusedSimpArgs false
set_option linter.unusedSectionVars false

variable {K V : Type} [Field K] [CharZero K] [AddCommGroup V] [Module K V]

/-- Euler step on a linear rate law. -/
theorem euler_linear (A : V →ₗ[K] V) (y : V) (h : K) :
    euler (fun v => A v) y h = y + h • A y := by
  simp only [euler]

/-- ... i.e. the degree-1 Taylor polynomial of `exp (hA)` applied to `y`. -/
theorem euler_taylor1 (A : Module.End K V) (y : V) (h : K) :
    euler (fun v => A v) y h = ((1 : Module.End K V) + h • A) y := by
  simp only [euler, LinearMap.add_apply, LinearMap.smul_apply, Module.End.one_apply]

/-- Runge–Kutta step on a linear rate law: the degree-4 Taylor polynomial of `exp (hA)`. -/
theorem rk4_linear (A : V →ₗ[K] V) (y : V) (h : K) :
    rungekutta (fun v => A v) y h
      = y + h • A y + (h^2/2) • A (A y) + (h^3/6) • A (A (A y)) + (h^4/24) • A (A (A (A y))) := by
  simp only [rungekutta, map_add, map_sub, map_neg, map_smul, Nat.cast_ofNat, Nat.cast_one]
  module

/-- scalar form: `y ↦ a*y`. -/
theorem rk4_taylor4_scalar (a y h : K) :
    rungekutta (fun v => a * v) y h
      = (1 + h*a + (h*a)^2/2 + (h*a)^3/6 + (h*a)^4/24) * y := by
  simp only [rungekutta, smul_eq_mul, Nat.cast_ofNat, Nat.cast_one]
  ring

/-! ### homogeneity: a step commutes with a change of the unit of `y` (no absolute scale enters an integrator);
    and with a change of the unit of time (`A·c`, `h/c`) -/

/-- for a rate law that is homogeneous of degree one (every linear law; `-grad E` of a quadratic energy) one
    step from `c·y` is `c` times the step from `y`: no absolute scale of the state enters. -/
theorem euler_homogeneous (f : V → V) (hf : ∀ (c : K) y, f (c • y) = c • f y) (c : K) (y : V) (h : K) :
    euler f (c • y) h = c • euler f y h := by
  simp only [euler, hf]
  module

/-- the same for all four stages of Runge–Kutta (a shortcut that looks at the absolute size of a stage breaks it). -/
theorem rk4_homogeneous (f : V → V) (hf : ∀ (c : K) y, f (c • y) = c • f y) (c : K) (y : V) (h : K) :
    rungekutta f (c • y) h = c • rungekutta f y h := by
  simp only [rungekutta, Nat.cast_ofNat, Nat.cast_one]
  have s1 : ∀ (a : K) (u w : V), c • u + a • h • c • w = c • (u + a • h • w) := by intros; module
  have s2 : ∀ (u w : V), c • u + h • c • w = c • (u + h • w) := by intros; module
  simp only [hf, s1, s2]

theorem rk4_linear_homogeneous (A : V →ₗ[K] V) (c : K) (y : V) (h : K) :
    rungekutta (fun v => A v) (c • y) h = c • rungekutta (fun v => A v) y h :=
  rk4_homogeneous _ (fun c y => map_smul A c y) c y h

/-- change of the unit of time: rate `c·f` with step `h/c` is rate `f` with step `h`. -/
theorem rk4_time_rescale (f : V → V) (c h : K) (hc : c ≠ 0) (y : V) :
    rungekutta (fun v => c • f v) y (h / c) = rungekutta f y h := by
  simp only [rungekutta, smul_smul, div_mul_cancel₀ _ hc]

theorem euler_time_rescale (f : V → V) (c h : K) (hc : c ≠ 0) (y : V) :
    euler (fun v => c • f v) y (h / c) = euler f y h := by
  simp only [euler, smul_smul, div_mul_cancel₀ _ hc]

/-- one-step error of Euler against the exact flow `exp (h a) y` (real SCALAR case only — renamed from
    `euler_one_step_error` by the statement audit, like its Runge–Kutta twin; the matrix case is covered by the exact
    Taylor-polynomial identities `euler_matrix` / `rk4_matrix`, the norm bound for matrices is `PARTIAL`): order 2. -/
theorem euler_one_step_error_scalar (a y h : ℝ) (hx : |h * a| ≤ 1) :
    |Real.exp (h * a) * y - euler (fun v => a * v) y h| ≤ |h * a| ^ 2 * |y| := by
  have e : euler (fun v => a * v) y h = (1 + h * a) * y := by
    simp only [euler, smul_eq_mul]; ring
  rw [e, ← sub_mul, abs_mul]
  have hb := Real.exp_bound hx (n := 2) (by norm_num)
  have hs : (∑ m ∈ Finset.range 2, (h * a) ^ m / (m.factorial : ℝ)) = 1 + h * a := by
    simp [Finset.sum_range_succ]
  rw [hs] at hb
  have hc : |h * a| ^ 2 * (((Nat.succ 2 : ℕ) : ℝ) / ((Nat.factorial 2 : ℝ) * (2 : ℕ))) ≤ |h * a| ^ 2 := by
    have : (((Nat.succ 2 : ℕ) : ℝ) / ((Nat.factorial 2 : ℝ) * (2 : ℕ))) ≤ 1 := by
      norm_num [Nat.factorial]
    have h2 : 0 ≤ |h * a| ^ 2 := by positivity
    nlinarith
  exact mul_le_mul_of_nonneg_right (le_trans hb hc) (abs_nonneg y)

/-- one-step error of Runge–Kutta against `exp (h a) y` (real scalar case): order 5. -/
theorem rk4_one_step_error_scalar (a y h : ℝ) (hx : |h * a| ≤ 1) :
    |Real.exp (h * a) * y - rungekutta (fun v => a * v) y h| ≤ |h * a| ^ 5 * (1 / 100) * |y| := by
  rw [rk4_taylor4_scalar, ← sub_mul, abs_mul]
  have hb := Real.exp_bound hx (n := 5) (by norm_num)
  have hs : (∑ m ∈ Finset.range 5, (h * a) ^ m / (m.factorial : ℝ))
      = 1 + h * a + (h * a) ^ 2 / 2 + (h * a) ^ 3 / 6 + (h * a) ^ 4 / 24 := by
    simp [Finset.sum_range_succ, Nat.factorial]
  rw [hs] at hb
  have hc : |h * a| ^ 5 * (((Nat.succ 5 : ℕ) : ℝ) / ((Nat.factorial 5 : ℝ) * (5 : ℕ))) = |h * a| ^ 5 * (1 / 100) := by
    norm_num [Nat.factorial]
  rw [hc] at hb
  exact mul_le_mul_of_nonneg_right hb (abs_nonneg y)

/-- central difference along `e` of a function that is a cubic along that line:
    the result is the exact derivative `c1` plus `c3 * shift²`. -/
theorem cd_cubic (f : V → K) (x e : V) (c0 c1 c2 c3 s : K) (hs : s ≠ 0)
    (hf : ∀ t : K, f (x + t • e) = c0 + c1 * t + c2 * t^2 + c3 * t^3) :
    cdComponent f x (s • e) s = c1 + c3 * s^2 := by
  have hm : x - s • e = x + (-s) • e := by rw [neg_smul, sub_eq_add_neg]
  simp only [cdComponent, hm, hf, Nat.cast_ofNat]
  field_simp
  ring

theorem cd_exact_quadratic (f : V → K) (x e : V) (c0 c1 c2 s : K) (hs : s ≠ 0)
    (hf : ∀ t : K, f (x + t • e) = c0 + c1 * t + c2 * t^2) :
    cdComponent f x (s • e) s = c1 := by
  have := cd_cubic f x e c0 c1 c2 0 s hs (by intro t; rw [hf t]; ring)
  simpa using this

/-- second order in the step: the error is exactly `c3 * s²` (`c3 = f‴/6`). -/
theorem cd_error_second_order {V : Type} [AddCommGroup V] [Module ℝ V] (f : V → ℝ) (x e : V) (c0 c1 c2 c3 s : ℝ) (hs : s ≠ 0)
    (hf : ∀ t : ℝ, f (x + t • e) = c0 + c1 * t + c2 * t^2 + c3 * t^3) :
    |cdComponent f x (s • e) s - c1| = |c3| * s^2 := by
  rw [cd_cubic f x e c0 c1 c2 c3 s hs hf]
  simp [abs_mul]

/-- a stationary ordinary image sits at a critical point. -/
theorem rate_zero_iff (gradE : V → V) (x : V) : rate gradE x = 0 ↔ gradE x = 0 := by
  simp only [rate, neg_eq_zero]

section climb
variable (dot : V → V → K)
  (hadd : ∀ a b c, dot (a + b) c = dot a c + dot b c)
  (hsmul : ∀ (k : K) a c, dot (k • a) c = k * dot a c)
  (hneg : ∀ a c, dot (-a) c = - dot a c)
include hadd hsmul hneg

/-- the climbing rate reverses the tangential component of `-grad E` ... -/
theorem climb_reverses_tangential (gradE : V → V) (x τ : V) (hτ : dot τ τ = 1) :
    dot (climbrate gradE dot x τ) τ = dot (gradE x) τ := by
  simp only [climbrate, hadd, hsmul, hneg, hτ, Nat.cast_ofNat]
  ring

/-- ... so a stationary climbing image sits at a critical point (the saddle). -/
theorem climb_fixed_point (gradE : V → V) (x τ : V) (hτ : dot τ τ = 1)
    (hz : climbrate gradE dot x τ = 0) (hdot0 : ∀ c, dot 0 c = 0) : gradE x = 0 := by
  have h1 := climb_reverses_tangential dot hadd hsmul hneg gradE x τ hτ
  rw [hz, hdot0] at h1
  have h2 : climbrate gradE dot x τ = -gradE x := by
    simp only [climbrate, ← h1, zero_smul, smul_zero, add_zero]
  rw [hz] at h2
  exact neg_eq_zero.mp h2.symm

end climb

/-! ### control flow of `relax` (hand-written model `phaseSteps`, tied by correspondence) -/

theorem phaseSteps_le {L : Type} [LT L] [DecidableLT L] (tol : L) (n : Nat) (ds : List L) :
    phaseSteps tol n ds ≤ n := by
  induction n generalizing ds with
  | zero => simp [phaseSteps]
  | succ n ih =>
    cases ds with
    | nil => simp [phaseSteps]
    | cons d ds =>
      simp only [phaseSteps]
      split
      · omega
      · have := ih ds; omega

/-- the climbing phase performs at least one step whenever climbing was requested — whatever the
    relaxation phase did (in particular also when relaxation stopped by reaching the tolerance). -/
theorem climb_runs_when_requested {L : Type} [LT L] [DecidableLT L] (tol : L) (r c : Nat) (dsR dsC : List L)
    (hc : 0 < c) (hds : dsC ≠ []) : 1 ≤ (relaxCounts tol r c dsR dsC).2 := by
  obtain ⟨c, rfl⟩ : ∃ k, c = k + 1 := ⟨c - 1, by omega⟩
  cases dsC with
  | nil => exact absurd rfl hds
  | cons d ds =>
    simp only [relaxCounts, phaseSteps]
    split <;> omega

/-- a phase stops right after the first step whose displacement is below the tolerance, and not before. -/
theorem phaseSteps_stops_at_first_small {L : Type} [LT L] [DecidableLT L] (tol : L) (n : Nat) (pre : List L) (d : L)
    (post : List L) (hpre : ∀ x ∈ pre, ¬ x < tol) (hd : d < tol) (hn : pre.length < n) :
    phaseSteps tol n (pre ++ d :: post) = pre.length + 1 := by
  induction pre generalizing n with
  | nil =>
    obtain ⟨n, rfl⟩ : ∃ k, n = k + 1 := ⟨n - 1, by simp at hn; omega⟩
    simp [phaseSteps, hd]
  | cons x xs ih =>
    obtain ⟨n, rfl⟩ : ∃ k, n = k + 1 := ⟨n - 1, by simp at hn; omega⟩
    have hx : ¬ x < tol := hpre x (by simp)
    simp only [List.cons_append, phaseSteps, hx, if_false, List.length_cons]
    rw [ih n (fun y hy => hpre y (by simp [hy])) (by simp at hn; omega)]
    omega

/-! non-vacuity: concrete instances of the hypotheses -/
example : (∀ t : ℚ, (fun v : ℚ => 1 + 2 * v + 3 * v^2 + 4 * v^3) (0 + t • (1:ℚ)) = 1 + 2 * t + 3 * t^2 + 4 * t^3) := by
  intro t; simp
example : rungekutta (K := ℚ) (fun v : ℚ => 1 * v) 1 (1/2 : ℚ) = 211/128 :=
  (rk4_taylor4_scalar (K := ℚ) 1 1 (1/2)).trans (by norm_num)


/-! ## the path object (`BasePath` / `ISMPath`) -/

/-! ### the path object: reads depend on the current field values only -/
section history
variable {V K : Type}

def Op.coordAfter (c : List V) : Op V K → List V
  | .setCoord c' => c'
  | .setRow i v => c.set i v
  | _ => c
def Op.gfAfter (g : (V → K) → V → Option K → V) : Op V K → ((V → K) → V → Option K → V)
  | .setGradientfxn g' => g'
  | _ => g
def Op.kwAfter (k : Option K) : Op V K → Option K
  | .setKwargs k' => k'
  | _ => k
def Op.igAfter (f : (V → V) → V → K → V) : Op V K → ((V → V) → V → K → V)
  | .setIntegratorfxn f' => f'
  | _ => f

/-- after any history of assignments the object is the object built from the last value of each
    field: nothing else is remembered. -/
theorem run_eq_fields (p : Path V K) (ops : List (Op V K)) :
    p.run ops = ⟨ops.foldl Op.coordAfter p.coord, p.energyfxn, ops.foldl Op.gfAfter p.gradientfxn,
                 ops.foldl Op.kwAfter p.gradientkwargs, ops.foldl Op.igAfter p.integratorfxn⟩ := by
  induction ops generalizing p with
  | nil => rfl
  | cons o os ih =>
    simp only [Path.run, List.foldl_cons] at ih ⊢
    rw [ih]
    cases o <;> rfl

theorem run_energyfxn (p : Path V K) (ops : List (Op V K)) : (p.run ops).energyfxn = p.energyfxn := by
  rw [run_eq_fields]

/-- `grad_energy()` right after `coord = c`, whatever was read or assigned before: the gradient
    function of the moment applied to the rows of `c`. -/
theorem gradEnergy_after_setCoord (p : Path V K) (ops : List (Op V K)) (c : List V) :
    ((p.run ops).apply (.setCoord c)).gradEnergy
      = c.map (fun x => (p.run ops).gradientfxn p.energyfxn x (p.run ops).gradientkwargs) := by
  simp only [Path.gradEnergy, Path.gradAt, Path.apply, run_energyfxn]
  rfl

theorem energy_after_setCoord (p : Path V K) (ops : List (Op V K)) (c : List V) :
    ((p.run ops).apply (.setCoord c)).energy = c.map p.energyfxn := by
  simp only [Path.energy, Path.energyAt, Path.apply, run_energyfxn]

/-- changing the settings or the gradient function is seen by the next read. -/
theorem gradEnergy_after_setKwargs (p : Path V K) (k : Option K) :
    (p.apply (.setKwargs k)).gradEnergy = p.coord.map (fun x => p.gradientfxn p.energyfxn x k) := rfl

theorem gradEnergy_after_setGradientfxn (p : Path V K) (g : (V → K) → V → Option K → V) :
    (p.apply (.setGradientfxn g)).gradEnergy = p.coord.map (fun x => g p.energyfxn x p.gradientkwargs) := rfl

end history

section geometry
variable {K V : Type} [Field K] [LinearOrder K] [IsStrictOrderedRing K] [AddCommGroup V] [Module K V]
variable (dot : V → V → K) (sqrt : K → K)

/-- `v / |v|` has unit length (`sqrt` is a square root on the value that occurs; `dot` is homogeneous). -/
theorem unitOf_unit (hl : ∀ (k : K) a c, dot (k • a) c = k * dot a c) (hr : ∀ (k : K) a c, dot a (k • c) = k * dot a c)
    (v : V) (hpos : 0 < dot v v) (hs : sqrt (dot v v) * sqrt (dot v v) = dot v v) :
    dot (Path.unitOf dot sqrt v) (Path.unitOf dot sqrt v) = 1 := by
  have hne : sqrt (dot v v) ≠ 0 := by
    intro h0; rw [h0, mul_zero] at hs; exact (ne_of_gt hpos) hs.symm
  simp only [Path.unitOf, hl, hr, Nat.cast_one]
  generalize sqrt (dot v v) = s at hs hne ⊢
  rw [← hs]
  field_simp

/-- every row of `unittangent` is a unit vector (the hypothesis `hτ` of `climb_fixed_point`), provided no
    un-normalised tangent vanishes. -/
theorem unitTangent_unit (hl : ∀ (k : K) a c, dot (k • a) c = k * dot a c) (hr : ∀ (k : K) a c, dot a (k • c) = k * dot a c)
    (hs : ∀ x : K, 0 ≤ x → sqrt x * sqrt x = x) (c : List V)
    (hpos : ∀ r ∈ Path.rawTangent ((Path.diffs c).map (Path.unitOf dot sqrt)), 0 < dot r r) :
    ∀ τ ∈ Path.unitTangentOf dot sqrt c, dot τ τ = 1 := by
  intro τ hτ
  simp only [Path.unitTangentOf, List.mem_map] at hτ
  obtain ⟨r, hr', rfl⟩ := hτ
  exact unitOf_unit dot sqrt hl hr r (hpos r hr') (hs _ (le_of_lt (hpos r hr')))

theorem diffs_length (c : List V) : (Path.diffs c).length = c.length - 1 := by
  induction c with
  | nil => rfl
  | cons a t ih =>
    cases t with
    | nil => rfl
    | cons b t' =>
      simp only [Path.diffs, List.length_cons] at ih ⊢
      omega

theorem cumsum_length (acc : K) (l : List K) : (Path.cumsum acc l).length = l.length + 1 := by
  induction l generalizing acc with
  | nil => rfl
  | cons x t ih => simp only [Path.cumsum, List.length_cons, ih]

/-- one arc coordinate per image, the first one zero. -/
theorem arccoord_length (c : List V) (hc : c ≠ []) : (Path.arccoordOf dot sqrt c).length = c.length := by
  have : 0 < c.length := List.length_pos_iff.mpr hc
  simp only [Path.arccoordOf, cumsum_length, List.length_map, diffs_length]
  omega

theorem arccoord_head (c : List V) : (Path.arccoordOf dot sqrt c).head? = some 0 := by
  simp only [Path.arccoordOf]
  cases (Path.diffs c).map (fun v => sqrt (dot v v)) <;> simp [Path.cumsum]

theorem cumsum_chain (acc : K) (l : List K) (hl : ∀ x ∈ l, 0 ≤ x) :
    List.IsChain (· ≤ ·) (Path.cumsum acc l) := by
  induction l generalizing acc with
  | nil => simp [Path.cumsum]
  | cons x t ih =>
    have h1 := ih (acc + x) (fun y hy => hl y (by simp [hy]))
    have hx : 0 ≤ x := hl x (by simp)
    cases t with
    | nil => simp [Path.cumsum]; exact hx
    | cons y t' =>
      simp only [Path.cumsum] at h1 ⊢
      exact List.IsChain.cons_cons (by linarith) h1

/-- arc coordinates never decrease along the path (`sqrt` non-negative). -/
theorem arccoord_mono (hs : ∀ x, 0 ≤ sqrt x) (c : List V) :
    List.IsChain (· ≤ ·) (Path.arccoordOf dot sqrt c) := by
  apply cumsum_chain
  intro x hx
  simp only [List.mem_map] at hx
  obtain ⟨v, _, rfl⟩ := hx
  exact hs _

/-- on a string of critical points every force vanishes. -/
theorem force_zero_of_critical (p : Path V K) (h0 : ∀ t, dot 0 t = 0) (hc : ∀ x ∈ p.coord, p.gradPoint x = 0) :
    ∀ f ∈ p.force dot sqrt, f = 0 := by
  intro f hf
  simp only [Path.force, Path.gradEnergy, Path.gradAt] at hf
  rw [List.zipWith_map_left] at hf
  obtain ⟨i, hi, rfl⟩ := List.mem_iff_getElem.mp hf
  simp only [List.getElem_zipWith]
  rw [hc _ (List.getElem_mem _), h0]

end geometry

section stepping
variable {K V : Type} [Field K] [CharZero K] [AddCommGroup V] [Module K V]

/-- an image moved by Euler stays where it is exactly when the gradient vanishes there. -/
theorem stepRow_euler_fixed_iff (p : Path V K) (hp : p.integratorfxn = fun r x h => euler r x h) (h : K) (hh : h ≠ 0)
    (x : V) : p.stepRow h x = x ↔ p.gradPoint x = 0 := by
  simp only [Path.stepRow, hp, euler, rate, add_eq_left, smul_eq_zero, hh, false_or, neg_eq_zero]

/-- a critical point (minimum, saddle) is a fixed point of the Runge–Kutta move as well. -/
theorem stepRow_rk_fixed_of_critical (p : Path V K) (hp : p.integratorfxn = fun r x h => rungekutta r x h) (h : K)
    (x : V) (hx : p.gradPoint x = 0) : p.stepRow h x = x := by
  simp only [Path.stepRow, hp, rungekutta, rate, hx, neg_zero, smul_zero, add_zero]

/-- the end images of a string that sit in minima stay there under any number of steps. -/
theorem iterateRows_critical (p : Path V K)
    (hp : p.integratorfxn = (fun r x h => euler r x h) ∨ p.integratorfxn = (fun r x h => rungekutta r x h))
    (h : K) (n : Nat) (c : List V) (hc : ∀ x ∈ c, p.gradPoint x = 0) : p.iterateRows h n c = c := by
  have hrow : ∀ x ∈ c, p.stepRow h x = x := by
    intro x hx
    rcases hp with hp | hp
    · simp only [Path.stepRow, hp, euler, rate, hc x hx, neg_zero, smul_zero, add_zero]
    · exact stepRow_rk_fixed_of_critical p hp h x (hc x hx)
  have hmap : c.map (p.stepRow h) = c := by
    conv_rhs => rw [← List.map_id c]
    exact List.map_congr_left hrow
  induction n with
  | zero => rfl
  | succ n ih => simp only [Path.iterateRows, hmap, ih]

/-- a climbing image that an Euler move leaves in place is a critical point: with `unitTangent_unit`,
    the highest image of a converged climbing string sits where the gradient vanishes. -/
theorem climbRow_euler_fixed_is_critical (p : Path V K) (hp : p.integratorfxn = fun r x h => euler r x h)
    (dot : V → V → K)
    (hadd : ∀ a b c, dot (a + b) c = dot a c + dot b c) (hsmul : ∀ (k : K) a c, dot (k • a) c = k * dot a c)
    (hneg : ∀ a c, dot (-a) c = - dot a c) (hdot0 : ∀ c, dot 0 c = 0)
    (h : K) (hh : h ≠ 0) (x τ : V) (hτ : dot τ τ = 1) (hfix : p.climbRow dot h x τ = x) : p.gradPoint x = 0 := by
  have hz : climbrate p.gradPoint dot x τ = 0 := by
    simpa only [Path.climbRow, hp, euler, add_eq_left, smul_eq_zero, hh, false_or] using hfix
  exact climb_fixed_point dot hadd hsmul hneg p.gradPoint x τ hτ hz hdot0

theorem icoordPlain_length (p : Path V K) (h : K) : (p.icoordPlain h).length = p.coord.length := by
  simp only [Path.icoordPlain, List.length_map]

/-- the path returned by a step keeps every function and setting of the path it came from. -/
theorem withCoord_fields (p : Path V K) (c : List V) :
    (p.withCoord c).energyfxn = p.energyfxn ∧ (p.withCoord c).gradientfxn = p.gradientfxn ∧
    (p.withCoord c).gradientkwargs = p.gradientkwargs ∧ (p.withCoord c).integratorfxn = p.integratorfxn ∧
    (p.withCoord c).coord = c := ⟨rfl, rfl, rfl, rfl, rfl⟩

end stepping

section cdarray
variable {K V : Type} [Field K] [CharZero K] [AddCommGroup V] [Module K V]

/-- the gradient array has one row per point, whatever the leading shape was … -/
theorem cdArray_length (mk : List K → V) (delta : Nat → K → V) (dim : Nat) (f : V → K) (pts : List V) (s : K) :
    (cdArray mk delta dim f pts s).length = pts.length := by
  simp only [cdArray, List.length_map]

/-- … and row `k` is the gradient at point `k` (no mixing of points). -/
theorem cdArray_getElem (mk : List K → V) (delta : Nat → K → V) (dim : Nat) (f : V → K) (pts : List V) (s : K)
    (k : Nat) (hk : k < pts.length) :
    (cdArray mk delta dim f pts s)[k]'(by simpa [cdArray] using hk) = cdPoint mk delta dim f pts[k] s := by
  simp only [cdArray, List.getElem_map]

/-- component `i` of the gradient at a point where `f` is a cubic along `eᵢ`: the derivative plus `c₃ s²`. -/
theorem cdPoint_components_cubic (e : Nat → V) (dim : Nat) (f : V → K) (x : V) (s : K) (hs : s ≠ 0)
    (c0 c1 c2 c3 : Nat → K)
    (hf : ∀ i < dim, ∀ t : K, f (x + t • e i) = c0 i + c1 i * t + c2 i * t ^ 2 + c3 i * t ^ 3) :
    (List.range dim).map (fun i => cdComponent f x ((fun i (s : K) => s • e i) i s) s)
      = (List.range dim).map (fun i => c1 i + c3 i * s ^ 2) := by
  apply List.map_congr_left
  intro i hi
  exact cd_cubic f x (e i) (c0 i) (c1 i) (c2 i) (c3 i) s hs (hf i (List.mem_range.mp hi))

end cdarray

section defaults
variable {K : Type} [Field K] [LinearOrder K] [IsStrictOrderedRing K]

theorem defaultTimestep_pos (n : Nat) (hn : 0 < n) : 0 < Path.defaultTimestep (K := K) n := by
  have hn' : (0 : K) < (n : K) := by exact_mod_cast hn
  simp only [Path.defaultTimestep]
  split <;> positivity

theorem defaultTimestep_le (n : Nat) : Path.defaultTimestep (K := K) n ≤ 1 / 100 := by
  simp only [Path.defaultTimestep]
  split
  · rename_i h
    have : (((1 : Nat) : K) / ((20 : Nat) : K)) * (((1 : Nat) : K) / (n : K)) ≤ (((1 : Nat) : K) / ((20 : Nat) : K)) * (((1 : Nat) : K) / ((5 : Nat) : K)) :=
      mul_le_mul_of_nonneg_left (le_of_lt h) (by positivity)
    refine le_trans this ?_
    norm_num
  · norm_num

theorem defaultTolerance_pos (n : Nat) : 0 < Path.defaultTolerance (K := K) n := by
  simp only [Path.defaultTolerance]
  split
  · positivity
  · rename_i h
    have hb : (0 : K) < ((1 : Nat) : K) / ((10000000000 : Nat) : K) := by positivity
    exact lt_of_lt_of_le hb (not_lt.mp h)

end defaults

/-! non-vacuity of the path-object theorems -/
section examples
/-- a one-dimensional path over `ℚ` with energy `x²`, exact gradient, Euler. -/
def exPath : Path ℚ ℚ := ⟨[-1, 0, 2], fun x => x * x, fun _ x _ => 2 * x, none, fun r x h => euler r x h⟩
example : exPath.integratorfxn = fun r x h => euler r x h := rfl
example : exPath.stepRow (1/4) 0 = 0 := (stepRow_euler_fixed_iff exPath rfl (1/4) (by norm_num) 0).mpr (by simp [Path.gradPoint, exPath])
example : (exPath.apply (.setCoord [3])).gradEnergy = [2 * 3] := by
  have := gradEnergy_after_setCoord exPath [] [3]
  simpa [Path.run, exPath] using this
-- `unitOf_unit`: `dot = (·*·)`, `v = 2`, `sqrt 4 = 2`
example : (fun a b : ℚ => a * b) (Path.unitOf (fun a b : ℚ => a * b) (fun _ => 2) (2 : ℚ))
    (Path.unitOf (fun a b : ℚ => a * b) (fun _ => 2) (2 : ℚ)) = 1 :=
  unitOf_unit (fun a b : ℚ => a * b) (fun _ => 2) (by intros; simp [mul_assoc]) (by intros; simp; ring) 2 (by norm_num) (by norm_num)
-- the square-root hypothesis of `unitTangent_unit` holds for the real square root
example : ∀ x : ℝ, 0 ≤ x → Real.sqrt x * Real.sqrt x = x := fun _ hx => Real.mul_self_sqrt hx
example : ∀ x : ℝ, 0 ≤ Real.sqrt x := Real.sqrt_nonneg
end examples

/-! ### the loop of `relax` on top of the real step (two-image paths: every image is kept by the re-spacing) -/
section relaxphase
variable {K V : Type} [Add V] [Sub V] [Neg V] [SMul K V] [Add K] [Sub K] [Mul K] [Div K] [Neg K] [NatCast K]
  [LT K] [DecidableLT K]

/-- a phase of `relax` performs as many steps as it records displacement measures, at most `n` … -/
theorem relaxPhase_steps_le (p : Path V K) (dot : V → V → K) (sqrt : K → K) (h tol : K) (n : Nat) (c : List V) :
    (p.relaxPhase dot sqrt h tol n c).2.length ≤ n := by
  induction n generalizing c with
  | zero => simp [Path.relaxPhase]
  | succ n ih =>
    simp only [Path.relaxPhase]
    split
    · simp
    · have := ih (c.map (p.stepRow h)); simp only [List.length_cons]; omega

/-- … its result is that many plain steps of the images … -/
theorem relaxPhase_eq_iterate (p : Path V K) (dot : V → V → K) (sqrt : K → K) (h tol : K) (n : Nat) (c : List V) :
    (p.relaxPhase dot sqrt h tol n c).1 = p.iterateRows h (p.relaxPhase dot sqrt h tol n c).2.length c := by
  induction n generalizing c with
  | zero => simp [Path.relaxPhase, Path.iterateRows]
  | succ n ih =>
    simp only [Path.relaxPhase]
    split
    · simp [Path.iterateRows]
    · simp only [List.length_cons, Path.iterateRows]; exact ih _

/-- … and the number of steps is the one the control-flow model `phaseSteps` gives for the recorded measures
    (the model that the scripted `relax` runs are compared with). -/
theorem relaxPhase_steps_eq_phaseSteps (p : Path V K) (dot : V → V → K) (sqrt : K → K) (h tol : K) (n : Nat) (c : List V) :
    (p.relaxPhase dot sqrt h tol n c).2.length = phaseSteps tol n (p.relaxPhase dot sqrt h tol n c).2 := by
  induction n generalizing c with
  | zero => simp [Path.relaxPhase, phaseSteps]
  | succ n ih =>
    simp only [Path.relaxPhase]
    split
    · rename_i hd; simp [phaseSteps, hd]
    · rename_i hd
      simp only [List.length_cons, phaseSteps, hd, if_false]
      have := ih (c.map (p.stepRow h))
      omega

end relaxphase

/-! ### choice of the climbing images in `relax` (hand-written model `climbIndices`, tied by correspondence) -/
section sel
variable {L : Type} [LT L] [DecidableLT L]

theorem localMaxima_mem (k : Nat) (E : List L) (i : Nat) (hi : i ∈ localMaxima k E) :
    ∃ j a b c, i = k + j + 1 ∧ E[j]? = some a ∧ E[j + 1]? = some b ∧ E[j + 2]? = some c ∧ a < b ∧ ¬ b < c := by
  fun_induction localMaxima k E with
  | case1 k a b c t hcond ih =>
    rcases List.mem_cons.mp hi with h | h
    · exact ⟨0, a, b, c, by omega, rfl, rfl, rfl, hcond.1, hcond.2⟩
    · obtain ⟨j, a', b', c', e, h0, h1, h2, hab, hcb⟩ := ih h
      exact ⟨j + 1, a', b', c', by omega, by simpa using h0, by simpa using h1, by simpa using h2, hab, hcb⟩
  | case2 k a b c t hcond ih =>
    obtain ⟨j, a', b', c', e, h0, h1, h2, hab, hcb⟩ := ih hi
    exact ⟨j + 1, a', b', c', by omega, by simpa using h0, by simpa using h1, by simpa using h2, hab, hcb⟩
  | case3 k E hne => simp at hi

theorem localMaxima_complete (k : Nat) (E : List L) (j : Nat) (a b c : L)
    (h0 : E[j]? = some a) (h1 : E[j + 1]? = some b) (h2 : E[j + 2]? = some c) (hab : a < b) (hcb : ¬ b < c) :
    k + j + 1 ∈ localMaxima k E := by
  induction E generalizing k j with
  | nil => simp at h0
  | cons x t ih =>
    match t, j with
    | [], _ => simp at h1
    | [_], _ => simp at h2
    | y :: z :: t', 0 =>
      simp at h0 h1 h2
      subst h0 h1 h2
      simp [localMaxima, hab, hcb]
    | y :: z :: t', j + 1 =>
      have := ih (k + 1) j (by simpa using h0) (by simpa using h1) (by simpa using h2)
      have e : k + (j + 1) + 1 = k + 1 + j + 1 := by omega
      rw [e]
      unfold localMaxima
      split
      · exact List.mem_cons_of_mem _ this
      · exact this

theorem localMaxima_gt (k : Nat) (E : List L) : ∀ i ∈ localMaxima k E, k < i := by
  intro i hi
  obtain ⟨j, _, _, _, e, _⟩ := localMaxima_mem k E i hi
  omega

theorem localMaxima_sorted (k : Nat) (E : List L) : (localMaxima k E).Pairwise (· < ·) := by
  fun_induction localMaxima k E with
  | case1 k a b c t hcond ih =>
    exact List.pairwise_cons.mpr ⟨fun i hi => localMaxima_gt _ _ i hi, ih⟩
  | case2 k a b c t hcond ih => exact ih
  | case3 k E hne => exact List.Pairwise.nil

theorem climbIndices_length_le (cp : Nat) (E : List L) : (climbIndices cp E).length ≤ cp := by
  simp only [climbIndices, List.length_take]; omega

/-- every chosen climbing image is an interior image whose energy is strictly above the previous and not below the
    next image's. -/
theorem climbIndices_interior_max (cp : Nat) (E : List L) (i : Nat) (hi : i ∈ climbIndices cp E) :
    0 < i ∧ i + 1 < E.length ∧
      ∃ a b c, E[i - 1]? = some a ∧ E[i]? = some b ∧ E[i + 1]? = some c ∧ a < b ∧ ¬ b < c := by
  obtain ⟨j, a, b, c, e, h0, h1, h2, hab, hcb⟩ := localMaxima_mem 0 E i (List.mem_of_mem_take hi)
  have hl : j + 2 < E.length := by
    by_contra hn
    rw [List.getElem?_eq_none (by omega)] at h2
    cases h2
  have e' : i = j + 1 := by omega
  subst e'
  exact ⟨by omega, by omega, a, b, c, by simpa using h0, h1, h2, hab, hcb⟩

/-- the chosen images are the *first* `cp` such maxima in path order. -/
theorem climbIndices_first (cp : Nat) (E : List L) (i i' : Nat) (hi : i ∈ climbIndices cp E) (hlt : i' < i)
    (a b c : L) (hpos : 0 < i') (h0 : E[i' - 1]? = some a) (h1 : E[i']? = some b) (h2 : E[i' + 1]? = some c)
    (hab : a < b) (hcb : ¬ b < c) : i' ∈ climbIndices cp E := by
  obtain ⟨j, rfl⟩ : ∃ j, i' = j + 1 := ⟨i' - 1, by omega⟩
  have hm : 0 + j + 1 ∈ localMaxima 0 E := localMaxima_complete 0 E j a b c (by simpa using h0) h1 h2 hab hcb
  have hs := localMaxima_sorted 0 E
  rw [← List.take_append_drop cp (localMaxima 0 E)] at hs hm
  rcases List.mem_append.mp hm with h | h
  · simpa [climbIndices] using h
  · have := (List.pairwise_append.mp hs).2.2 i hi (0 + j + 1) h
    omega

/-- with enough climbing points every interior strict maximum climbs. -/
theorem climbIndices_complete (cp : Nat) (E : List L) (hcp : E.length ≤ cp) (j : Nat) (a b c : L)
    (h0 : E[j]? = some a) (h1 : E[j + 1]? = some b) (h2 : E[j + 2]? = some c) (hab : a < b) (hcb : ¬ b < c) :
    j + 1 ∈ climbIndices cp E := by
  have hm := localMaxima_complete 0 E j a b c h0 h1 h2 hab hcb
  have hlen : (localMaxima 0 E).length ≤ E.length := by
    have : ∀ k (E : List L), (localMaxima k E).length ≤ E.length := by
      intro k E
      fun_induction localMaxima k E with
      | case1 k a b c t hcond ih => simp at ih ⊢; omega
      | case2 k a b c t hcond ih => simp at ih ⊢; omega
      | case3 k E hne => simp
    exact this 0 E
  simp only [climbIndices]
  rw [List.take_of_length_le (by omega)]
  simpa using hm

example : climbIndices 1 [0, 2, 1, 3, (0 : Int)] = [1] := by decide
example : climbIndices 2 [0, 2, 1, 3, (0 : Int)] = [1, 3] := by decide
example : climbIndices 1 [3, 1, 1, 2, 2, (0 : Int)] = [3] := by decide
example : climbIndices 3 [0, 1, 1, (0 : Int)] = [1] := by decide
example : climbIndices 3 [2, 1, 1, (3 : Int)] = [] := by decide
end sel

/-! ### units of length: tangents do not depend on them, arc coordinates scale, a step of an image commutes with the
    change of unit when the gradient is homogeneous (tied on the implementation by the two-unit runs of the search) -/
section units
variable {K V : Type} [Field K] [LinearOrder K] [IsStrictOrderedRing K] [AddCommGroup V] [Module K V]
variable (dot : V → V → K) (sqrt : K → K)

/-- the unit vector does not depend on the unit of length: `(c·v)/|c·v| = v/|v|` for `c > 0`. -/
theorem unitOf_scale_invariant (hl : ∀ (k : K) a c, dot (k • a) c = k * dot a c) (hr : ∀ (k : K) a c, dot a (k • c) = k * dot a c)
    (hsq : ∀ (c x : K), 0 < c → sqrt (c * c * x) = c * sqrt x)
    (c : K) (hc : 0 < c) (v : V) :
    Path.unitOf dot sqrt (c • v) = Path.unitOf dot sqrt v := by
  have e : dot (c • v) (c • v) = c * c * dot v v := by rw [hl, hr]; ring
  simp only [Path.unitOf, e, hsq c _ hc, Nat.cast_one, smul_smul]
  congr 1
  have : c ≠ 0 := ne_of_gt hc
  by_cases h0 : sqrt (dot v v) = 0
  · simp [h0]
  · field_simp

theorem diffs_smul (c : K) (l : List V) : Path.diffs (l.map (c • ·)) = (Path.diffs l).map (c • ·) := by
  induction l with
  | nil => rfl
  | cons a t ih =>
    cases t with
    | nil => rfl
    | cons b t' =>
      simp only [List.map_cons, Path.diffs] at ih ⊢
      rw [ih, smul_sub]

/-- `unittangent` of a string does not depend on the unit of length of its coordinates. -/
theorem unitTangent_scale_invariant (hl : ∀ (k : K) a c, dot (k • a) c = k * dot a c) (hr : ∀ (k : K) a c, dot a (k • c) = k * dot a c)
    (hsq : ∀ (c x : K), 0 < c → sqrt (c * c * x) = c * sqrt x)
    (c : K) (hc : 0 < c) (l : List V) :
    Path.unitTangentOf dot sqrt (l.map (c • ·)) = Path.unitTangentOf dot sqrt l := by
  simp only [Path.unitTangentOf, diffs_smul, List.map_map]
  congr 2
  apply List.map_congr_left
  intro v _
  exact unitOf_scale_invariant dot sqrt hl hr hsq c hc v

/-- arc coordinates scale with the unit of length. -/
theorem arccoord_scale (hl : ∀ (k : K) a c, dot (k • a) c = k * dot a c) (hr : ∀ (k : K) a c, dot a (k • c) = k * dot a c)
    (hsq : ∀ (c x : K), 0 < c → sqrt (c * c * x) = c * sqrt x)
    (c : K) (hc : 0 < c) (l : List V) :
    Path.arccoordOf dot sqrt (l.map (c • ·)) = (Path.arccoordOf dot sqrt l).map (c * ·) := by
  have hcs : ∀ (acc : K) (xs : List K), Path.cumsum (c * acc) (xs.map (c * ·)) = (Path.cumsum acc xs).map (c * ·) := by
    intro acc xs
    induction xs generalizing acc with
    | nil => simp [Path.cumsum]
    | cons x t ih => simp only [List.map_cons, Path.cumsum, ← mul_add, ih]
  simp only [Path.arccoordOf, diffs_smul, List.map_map]
  have e : ((fun v => sqrt (dot v v)) ∘ fun x : V => c • x) = (fun x => c * x) ∘ fun v => sqrt (dot v v) := by
    funext v
    simp only [Function.comp, hl, hr]
    rw [← hsq c _ hc]; congr 1; ring
  rw [e, ← List.map_map, ← hcs]
  simp
example : ∀ (c x : ℝ), 0 < c → Real.sqrt (c * c * x) = c * Real.sqrt x := fun c x hc => by
  rw [Real.sqrt_mul (mul_self_nonneg c), Real.sqrt_mul_self hc.le]
end units

section stepunits
variable {K V : Type} [Field K] [CharZero K] [AddCommGroup V] [Module K V]

/-- for an energy whose gradient is homogeneous of degree one (quadratic energies) a step of an image commutes with a
    change of the unit of length, for both integrators. -/
theorem stepRow_homogeneous (p : Path V K)
    (hp : p.integratorfxn = (fun r x h => euler r x h) ∨ p.integratorfxn = (fun r x h => rungekutta r x h))
    (hg : ∀ (c : K) x, p.gradPoint (c • x) = c • p.gradPoint x) (h c : K) (x : V) :
    p.stepRow h (c • x) = c • p.stepRow h x := by
  have hf : ∀ (c : K) y, rate p.gradPoint (c • y) = c • rate p.gradPoint y := by
    intro c y; simp only [rate, hg, smul_neg]
  rcases hp with hp | hp
  · simp only [Path.stepRow, hp]; exact euler_homogeneous _ hf c x h
  · simp only [Path.stepRow, hp]; exact rk4_homogeneous _ hf c x h
end stepunits
/-! ## round 3: what *is* proved about the fixed points and the stopping test of the relaxation

`relaxation_converges_to_saddle` stays partial (iterated floats + spline).  Proved: the climbing rate has the
length of the gradient; critical points are exactly the images an Euler move leaves in place (ordinary and
climbing), and both integrators leave them in place; a whole step (integration + any re-spacing that keeps the
pinned rows) that returns its string has its ends and climbing images at critical points; the stopping test of
`relax` bounds the gradient at every image kept by the re-spacing by the tolerance; a phase that stops early
stopped on that test and not later than it could. -/

section climb2
variable {K V : Type} [Field K] [CharZero K] [AddCommGroup V] [Module K V]
variable (dot : V → V → K)

/-- the climbing rate is the mirror image of `-grad E` in the plane normal to the unit tangent: it has the
    length of the gradient, so the convergence measure of `relax` (largest displacement / time step) bounds the
    gradient at the climbing image exactly as it does at an ordinary image. -/
theorem climbrate_norm_sq
    (hadd : ∀ a b c, dot (a + b) c = dot a c + dot b c) (hadd' : ∀ a b c, dot a (b + c) = dot a b + dot a c)
    (hsmul : ∀ (k : K) a c, dot (k • a) c = k * dot a c) (hsmul' : ∀ (k : K) a c, dot a (k • c) = k * dot a c)
    (hneg : ∀ a c, dot (-a) c = - dot a c) (hneg' : ∀ a c, dot a (-c) = - dot a c)
    (hsymm : ∀ a b, dot a b = dot b a)
    (gradE : V → V) (x τ : V) (hτ : dot τ τ = 1) :
    dot (climbrate gradE dot x τ) (climbrate gradE dot x τ) = dot (gradE x) (gradE x) := by
  simp only [climbrate, hadd, hadd', hsmul, hsmul', hneg, hneg', hτ, Nat.cast_ofNat, hsymm τ (gradE x)]
  ring

/-- a critical point is left in place by the climbing move of either integrator. -/
theorem climbRow_fixed_of_critical (p : Path V K)
    (hp : p.integratorfxn = (fun r x h => euler r x h) ∨ p.integratorfxn = (fun r x h => rungekutta r x h))
    (hdot0 : ∀ c, dot 0 c = 0) (h : K) (x τ : V) (hx : p.gradPoint x = 0) : p.climbRow dot h x τ = x := by
  rcases hp with hp | hp
  · simp only [Path.climbRow, hp, euler, climbrate, hx, hdot0, neg_zero, zero_smul, smul_zero, add_zero]
  · simp only [Path.climbRow, hp, rungekutta, climbrate, hx, hdot0, neg_zero, zero_smul, smul_zero, add_zero]

/-- Euler: a climbing image stays where it is exactly when the gradient vanishes there. -/
theorem climbRow_euler_fixed_iff (p : Path V K) (hp : p.integratorfxn = fun r x h => euler r x h)
    (hadd : ∀ a b c, dot (a + b) c = dot a c + dot b c) (hsmul : ∀ (k : K) a c, dot (k • a) c = k * dot a c)
    (hneg : ∀ a c, dot (-a) c = - dot a c) (hdot0 : ∀ c, dot 0 c = 0)
    (h : K) (hh : h ≠ 0) (x τ : V) (hτ : dot τ τ = 1) : p.climbRow dot h x τ = x ↔ p.gradPoint x = 0 :=
  ⟨climbRow_euler_fixed_is_critical p hp dot hadd hsmul hneg hdot0 h hh x τ hτ,
   climbRow_fixed_of_critical dot p (Or.inl hp) hdot0 h x τ⟩

end climb2

section aux
variable {K V : Type} [Field K] [CharZero K] [AddCommGroup V] [Module K V]
theorem stepRow_euler_fixed_iff' (p : Path V K) (hp : p.integratorfxn = fun r x h => euler r x h) (h : K)
    (x : V) : p.gradPoint x = 0 → p.stepRow h x = x := by
  intro hx
  simp only [Path.stepRow, hp, euler, rate, hx, neg_zero, smul_zero, add_zero]
end aux

section lengths
variable {K V : Type} [Field K] [AddCommGroup V] [Module K V]
variable (dot : V → V → K) (sqrt : K → K)

theorem tangentGo_length (prev : V) (l : List V) : (Path.tangentGo prev l).length = l.length + 1 := by
  induction l generalizing prev with
  | nil => rfl
  | cons u t ih => simp only [Path.tangentGo, List.length_cons, ih]

theorem rawTangent_length (l : List V) (hl : l ≠ []) : (Path.rawTangent l).length = l.length + 1 := by
  cases l with
  | nil => exact absurd rfl hl
  | cons u t => simp only [Path.rawTangent, List.length_cons, tangentGo_length]

/-- one unit tangent per image (two images at least). -/
theorem unitTangentOf_length (c : List V) (hc : 2 ≤ c.length) : (Path.unitTangentOf dot sqrt c).length = c.length := by
  have hd : (Path.diffs c).length = c.length - 1 := diffs_length c
  have hne : (Path.diffs c).map (Path.unitOf dot sqrt) ≠ [] := by
    intro h0
    have := congrArg List.length h0
    simp only [List.length_map, List.length_nil] at this
    omega
  simp only [Path.unitTangentOf, List.length_map, rawTangent_length _ hne, hd]
  omega

/-- one integrated row per image, with and without climbing images. -/
theorem icoord_length (p : Path V K) (h : K) (climb : List Nat) (hc : 2 ≤ p.coord.length) :
    (p.icoord dot sqrt h climb).length = p.coord.length := by
  simp only [Path.icoord, List.length_map, List.length_zip, List.length_range, Path.unitTangent,
    unitTangentOf_length dot sqrt p.coord hc, Nat.min_self]

/-- row `i` of the integrated coordinates: the climbing move with the tangent of the *initial* string if `i` is a
    climbing image, the ordinary move otherwise. -/
theorem icoord_getElem? (p : Path V K) (h : K) (climb : List Nat) (hc : 2 ≤ p.coord.length) (i : Nat) (hi : i < p.coord.length) :
    ∃ τ, (p.unitTangent dot sqrt)[i]? = some τ ∧
      (p.icoord dot sqrt h climb)[i]? =
        some (if climb.contains i then p.climbRow dot h p.coord[i] τ else p.stepRow h p.coord[i]) := by
  have hlen := unitTangentOf_length dot sqrt p.coord hc
  have hi' : i < (p.unitTangent dot sqrt).length := by simpa only [Path.unitTangent, hlen] using hi
  refine ⟨(p.unitTangent dot sqrt)[i], List.getElem?_eq_getElem hi', ?_⟩
  have hr : (List.range p.coord.length)[i]? = some i := by simp [hi]
  have hcx : p.coord[i]? = some p.coord[i] := List.getElem?_eq_getElem hi
  have ht : (p.unitTangent dot sqrt)[i]? = some (p.unitTangent dot sqrt)[i] := List.getElem?_eq_getElem hi'
  have hz : ((List.range p.coord.length).zip (p.coord.zip (p.unitTangent dot sqrt)))[i]?
      = some (i, p.coord[i], (p.unitTangent dot sqrt)[i]) := by
    rw [List.getElem?_zip_eq_some]
    refine ⟨hr, ?_⟩
    rw [List.getElem?_zip_eq_some]
    exact ⟨hcx, ht⟩
  simp only [Path.icoord, List.getElem?_map, hz, Option.map]

end lengths



section wholestep
variable {K V : Type} [Field K] [CharZero K] [AddCommGroup V] [Module K V]
variable (dot : V → V → K) (sqrt : K → K)

/-- **fixed points of a whole step** (Euler): if a step with climbing images `climb` returns the string it was
    given, then the first image, the last image and every climbing image sit at critical points of the energy —
    provided the re-spacing keeps these rows (they are knots of the spline whose arc coordinate is kept) and the
    tangents are unit vectors (`unitTangent_unit`). -/
theorem stringStep_fixed_pinned_critical (p : Path V K) (hp : p.integratorfxn = fun r x h => euler r x h)
    (hadd : ∀ a b c, dot (a + b) c = dot a c + dot b c) (hsmul : ∀ (k : K) a c, dot (k • a) c = k * dot a c)
    (hneg : ∀ a c, dot (-a) c = - dot a c) (hdot0 : ∀ c, dot 0 c = 0)
    (respace : List Nat → List V → List V) (h : K) (hh : h ≠ 0) (climb : List Nat)
    (hc : 2 ≤ p.coord.length)
    (hkeep : ∀ (rows : List V), rows.length = p.coord.length → ∀ (i : Nat), (i = 0 ∨ i + 1 = rows.length ∨ i ∈ climb) →
      (respace climb rows)[i]? = rows[i]?)
    (hunit : ∀ τ ∈ p.unitTangent dot sqrt, dot τ τ = 1)
    (hfix : (p.stringStep dot sqrt respace h climb).coord = p.coord)
    (i : Nat) (hi : i < p.coord.length) (hpin : i = 0 ∨ i + 1 = p.coord.length ∨ i ∈ climb) :
    p.gradPoint p.coord[i] = 0 := by
  have hlen := icoord_length dot sqrt p h climb hc
  obtain ⟨τ, hτ, hrow⟩ := icoord_getElem? dot sqrt p h climb hc i hi
  have h1 : (respace climb (p.icoord dot sqrt h climb))[i]? = (p.icoord dot sqrt h climb)[i]? :=
    hkeep _ hlen i (by rw [hlen]; exact hpin)
  have h2 : (respace climb (p.icoord dot sqrt h climb))[i]? = some p.coord[i] := by
    have : (p.stringStep dot sqrt respace h climb).coord[i]? = p.coord[i]? := by rw [hfix]
    simpa only [Path.stringStep, Path.withCoord, List.getElem?_eq_getElem hi] using this
  rw [h1, hrow] at h2
  have h3 := Option.some.inj h2
  by_cases hcl : climb.contains i = true
  · rw [if_pos hcl] at h3
    exact climbRow_euler_fixed_is_critical p hp dot hadd hsmul hneg hdot0 h hh _ τ
      (hunit τ (List.mem_of_getElem? hτ)) h3
  · rw [if_neg hcl] at h3
    exact (stepRow_euler_fixed_iff p hp h hh _).mp h3

/-- conversely (both integrators): the pinned images of a string that sit at critical points are not moved by a step. -/
theorem stringStep_critical_pinned_fixed (p : Path V K)
    (hp : p.integratorfxn = (fun r x h => euler r x h) ∨ p.integratorfxn = (fun r x h => rungekutta r x h))
    (hdot0 : ∀ c, dot 0 c = 0)
    (respace : List Nat → List V → List V) (h : K) (climb : List Nat) (hc : 2 ≤ p.coord.length)
    (hkeep : ∀ (rows : List V), rows.length = p.coord.length → ∀ (i : Nat), (i = 0 ∨ i + 1 = rows.length ∨ i ∈ climb) →
      (respace climb rows)[i]? = rows[i]?)
    (i : Nat) (hi : i < p.coord.length) (hpin : i = 0 ∨ i + 1 = p.coord.length ∨ i ∈ climb)
    (hcrit : p.gradPoint p.coord[i] = 0) :
    (p.stringStep dot sqrt respace h climb).coord[i]? = some p.coord[i] := by
  have hlen := icoord_length dot sqrt p h climb hc
  obtain ⟨τ, _, hrow⟩ := icoord_getElem? dot sqrt p h climb hc i hi
  have h1 : (respace climb (p.icoord dot sqrt h climb))[i]? = (p.icoord dot sqrt h climb)[i]? :=
    hkeep _ hlen i (by rw [hlen]; exact hpin)
  simp only [Path.stringStep, Path.withCoord, h1, hrow]
  by_cases hcl : climb.contains i = true
  · rw [if_pos hcl, climbRow_fixed_of_critical dot p hp hdot0 h _ τ hcrit]
  · rw [if_neg hcl]
    rcases hp with hp | hp
    · rw [stepRow_euler_fixed_iff' p hp h _ hcrit]
    · rw [stepRow_rk_fixed_of_critical p hp h _ hcrit]

end wholestep


section converged
variable {K V : Type} [Field K] [LinearOrder K] [IsStrictOrderedRing K] [AddCommGroup V] [Module K V]
variable (dot : V → V → K) (sqrt : K → K)

theorem foldl_max_ge_init (l : List K) (m : K) : m ≤ l.foldl (fun m x => if m < x then x else m) m := by
  induction l generalizing m with
  | nil => exact le_refl m
  | cons x t ih =>
    simp only [List.foldl_cons]
    split
    · rename_i hlt; exact le_trans (le_of_lt hlt) (ih x)
    · exact ih m

theorem foldl_max_ge_mem (l : List K) (m : K) : ∀ x ∈ l, x ≤ l.foldl (fun m x => if m < x then x else m) m := by
  induction l generalizing m with
  | nil => intro x hx; simp at hx
  | cons y t ih =>
    intro x hx
    simp only [List.foldl_cons]
    rcases List.mem_cons.mp hx with rfl | hx
    · split
      · exact foldl_max_ge_init t x
      · rename_i hlt; exact le_trans (not_lt.mp hlt) (foldl_max_ge_init t m)
    · exact ih _ x hx

/-- the convergence measure of `relax` below the tolerance means: every image moved by less than
    `tolerance · timestep` (Euclidean length `sqrt (dot d d)` of its displacement). -/
theorem displacement_lt_rows (h tol : K) (hh : 0 < h) (old new : List V)
    (hd : Path.displacement dot sqrt h old new < tol) :
    ∀ i (hi : i < old.length) (hj : i < new.length),
      sqrt (dot (new[i] - old[i]) (new[i] - old[i])) < tol * h := by
  intro i hi hj
  simp only [Path.displacement, Nat.cast_zero] at hd
  rw [div_lt_iff₀ hh] at hd
  refine lt_of_le_of_lt ?_ hd
  apply foldl_max_ge_mem
  refine List.mem_iff_getElem.mpr ⟨i, by simp [hi, hj], ?_⟩
  simp only [List.getElem_zipWith]

/-- **what "converged" means** (Euler): when a plain step of the images `c` has a convergence measure below the
    tolerance — the test on which each phase of `relax` stops — the gradient of the energy at every image of `c` is
    shorter than the tolerance. -/
theorem euler_converged_gradient_lt (p : Path V K) (hp : p.integratorfxn = fun r x h => euler r x h)
    (hl : ∀ (k : K) a c, dot (k • a) c = k * dot a c) (hr : ∀ (k : K) a c, dot a (k • c) = k * dot a c)
    (hscale : ∀ (k x : K), 0 < k → sqrt (k * k * x) = k * sqrt x)
    (h tol : K) (hh : 0 < h) (c : List V)
    (hd : Path.displacement dot sqrt h c (c.map (p.stepRow h)) < tol) :
    ∀ x ∈ c, sqrt (dot (p.gradPoint x) (p.gradPoint x)) < tol := by
  intro x hx
  obtain ⟨i, hi, rfl⟩ := List.mem_iff_getElem.mp hx
  have := displacement_lt_rows dot sqrt h tol hh c (c.map (p.stepRow h)) hd i hi (by simpa using hi)
  simp only [List.getElem_map, Path.stepRow, hp, euler, rate, add_sub_cancel_left, smul_neg, ← neg_smul, hl, hr] at this
  have e : -h * (-h * dot (p.gradPoint c[i]) (p.gradPoint c[i])) = h * h * dot (p.gradPoint c[i]) (p.gradPoint c[i]) := by ring
  rw [e, hscale h _ hh, mul_comm] at this
  exact lt_of_mul_lt_mul_right this (le_of_lt hh)


/-- the same at a climbing image (Euler): a climbing move shorter than `tolerance · timestep` means a gradient
    shorter than the tolerance, because the climbing rate has the length of the gradient. -/
theorem euler_climb_converged_gradient_lt (p : Path V K) (hp : p.integratorfxn = fun r x h => euler r x h)
    (hadd : ∀ a b c, dot (a + b) c = dot a c + dot b c) (hadd' : ∀ a b c, dot a (b + c) = dot a b + dot a c)
    (hl : ∀ (k : K) a c, dot (k • a) c = k * dot a c) (hr : ∀ (k : K) a c, dot a (k • c) = k * dot a c)
    (hneg : ∀ a c, dot (-a) c = - dot a c) (hneg' : ∀ a c, dot a (-c) = - dot a c)
    (hsymm : ∀ a b, dot a b = dot b a)
    (hscale : ∀ (k x : K), 0 < k → sqrt (k * k * x) = k * sqrt x)
    (h tol : K) (hh : 0 < h) (x τ : V) (hτ : dot τ τ = 1)
    (hd : sqrt (dot (p.climbRow dot h x τ - x) (p.climbRow dot h x τ - x)) < tol * h) :
    sqrt (dot (p.gradPoint x) (p.gradPoint x)) < tol := by
  have hn := climbrate_norm_sq dot hadd hadd' hl hr hneg hneg' hsymm p.gradPoint x τ hτ
  simp only [Path.climbRow, hp, euler, add_sub_cancel_left, hl, hr, hn] at hd
  have e : h * (h * dot (p.gradPoint x) (p.gradPoint x)) = h * h * dot (p.gradPoint x) (p.gradPoint x) := by ring
  rw [e, hscale h _ hh, mul_comm] at hd
  exact lt_of_mul_lt_mul_right hd (le_of_lt hh)

end converged

section phasestop
variable {K V : Type} [Add V] [Sub V] [Neg V] [SMul K V] [Add K] [Sub K] [Mul K] [Div K] [Neg K] [NatCast K]
  [LT K] [DecidableLT K]

/-- a phase of `relax` that performed fewer steps than allowed stopped on its convergence test: the last step it
    performed — from the images reached by the steps before — had a measure below the tolerance. -/
theorem relaxPhase_stopped_early (p : Path V K) (dot : V → V → K) (sqrt : K → K) (h tol : K) (n : Nat) (c : List V)
    (hlt : (p.relaxPhase dot sqrt h tol n c).2.length < n) :
    ∃ k, k + 1 = (p.relaxPhase dot sqrt h tol n c).2.length ∧
      Path.displacement dot sqrt h (p.iterateRows h k c) ((p.iterateRows h k c).map (p.stepRow h)) < tol := by
  induction n generalizing c with
  | zero => simp at hlt
  | succ n ih =>
    simp only [Path.relaxPhase] at hlt ⊢
    split
    · rename_i hd
      exact ⟨0, by simp, by simpa [Path.iterateRows] using hd⟩
    · rename_i hd
      rw [if_neg hd] at hlt
      simp only [List.length_cons] at hlt
      obtain ⟨k, hk, hdk⟩ := ih (c.map (p.stepRow h)) (by omega)
      exact ⟨k + 1, by simp only [List.length_cons]; omega, by simpa only [Path.iterateRows] using hdk⟩

/-- … and every earlier step of the phase had a measure not below the tolerance (the phase did not stop late). -/
theorem relaxPhase_measures_before_last (p : Path V K) (dot : V → V → K) (sqrt : K → K) (h tol : K) (n : Nat) (c : List V) :
    ∀ d ∈ (p.relaxPhase dot sqrt h tol n c).2.dropLast, ¬ d < tol := by
  induction n generalizing c with
  | zero => simp [Path.relaxPhase]
  | succ n ih =>
    simp only [Path.relaxPhase]
    split
    · simp
    · rename_i hd
      intro d hmem
      cases hrest : (p.relaxPhase dot sqrt h tol n (c.map (p.stepRow h))).2 with
      | nil => simp [hrest] at hmem
      | cons y t =>
        simp only [hrest, List.dropLast_cons_cons, List.mem_cons] at hmem
        rcases hmem with rfl | hmem
        · exact hd
        · exact ih (c.map (p.stepRow h)) d (by rw [hrest]; exact hmem)

end phasestop

/-! ### where the re-spacing puts the new images (`respaceTargets`), tied to the `newα` handed to `interpolate_path` -/

section thms
variable {K : Type} [Field K] [CharZero K]

theorem linspace_length (a b : K) (n : Nat) : (Path.linspace a b n).length = n := by
  simp [Path.linspace]

theorem linspace_getElem? (a b : K) (n i : Nat) (hi : i < n) :
    (Path.linspace a b n)[i]? = some (a + (i : K) * ((b - a) / ((n - 1 : Nat) : K))) := by
  simp [Path.linspace, hi]

/-- the first target of a segment is the arc coordinate of its first image … -/
theorem linspace_first (a b : K) (n : Nat) (hn : 0 < n) : (Path.linspace a b n)[0]? = some a := by
  rw [linspace_getElem? a b n 0 hn]; simp

/-- … the last one that of its last image (two images at least) … -/
theorem linspace_last (a b : K) (n : Nat) (hn : 2 ≤ n) : (Path.linspace a b n)[n - 1]? = some b := by
  rw [linspace_getElem? a b n (n - 1) (by omega)]
  have h : ((n - 1 : Nat) : K) ≠ 0 := by
    have : n - 1 ≠ 0 := by omega
    exact_mod_cast this
  congr 1
  field_simp
  ring

/-- … and consecutive targets are equally spaced. -/
theorem linspace_step (a b : K) (n i : Nat) (hi : i + 1 < n) :
    ∃ x y, (Path.linspace a b n)[i]? = some x ∧ (Path.linspace a b n)[i + 1]? = some y ∧
      y - x = (b - a) / ((n - 1 : Nat) : K) := by
  refine ⟨_, _, linspace_getElem? a b n i (by omega), linspace_getElem? a b n (i + 1) hi, ?_⟩
  push_cast
  ring


/-- one target per image … -/
theorem respaceGo_length (α : List K) (n s : Nat) (climb : List Nat) (hchain : List.Pairwise (· < ·) (s :: climb))
    (hint : ∀ c ∈ climb, c + 1 < n) (hs : s < n) : (Path.respaceGo α n s climb).length = n - s := by
  induction climb generalizing s with
  | nil => simp [Path.respaceGo, linspace_length]
  | cons c cs ih =>
    have hsc : s < c := (List.pairwise_cons.mp hchain).1 c (by simp)
    have hch' : List.Pairwise (· < ·) (c :: cs) := (List.pairwise_cons.mp hchain).2
    have hc : c + 1 < n := hint c (by simp)
    simp only [Path.respaceGo, List.length_append, List.length_take, linspace_length,
      ih c hch' (fun x hx => hint x (by simp [hx])) (by omega)]
    omega

/-- … and every pinned image (the first one, the climbing images, the last one) is sent to its own arc coordinate: the
    re-spacing evaluates the spline at a knot there. -/
theorem respaceGo_pinned (α : List K) (n s : Nat) (climb : List Nat) (hchain : List.Pairwise (· < ·) (s :: climb))
    (hint : ∀ c ∈ climb, c + 1 < n) (hs : s < n) (p : Nat) (hp : p = s ∨ p ∈ climb ∨ p + 1 = n) :
    (Path.respaceGo α n s climb)[p - s]? = some (α.getD p 0) := by
  induction climb generalizing s with
  | nil =>
    simp only [Path.respaceGo, Nat.cast_zero]
    rcases hp with rfl | hp | hp
    · simpa using linspace_first (α.getD p 0) (α.getD (n - 1) 0) (n - p) (by omega)
    · simp at hp
    · by_cases hps : p = s
      · subst hps
        simpa using linspace_first (α.getD p 0) (α.getD (n - 1) 0) (n - p) (by omega)
      · have h2 : 2 ≤ n - s := by omega
        have := linspace_last (α.getD s 0) (α.getD (n - 1) 0) (n - s) h2
        have hpn : p = n - 1 := by omega
        subst hpn
        have e1 : n - 1 - s = n - s - 1 := by omega
        rw [e1]
        exact this
  | cons c cs ih =>
    have hsc : s < c := (List.pairwise_cons.mp hchain).1 c (by simp)
    have hch' : List.Pairwise (· < ·) (c :: cs) := (List.pairwise_cons.mp hchain).2
    have hc : c + 1 < n := hint c (by simp)
    simp only [Path.respaceGo, Nat.cast_zero]
    by_cases hps : p = s
    · subst hps
      rw [List.getElem?_append_left (by simp [linspace_length]; omega)]
      rw [List.getElem?_take_of_lt (by omega)]
      simpa using linspace_first (α.getD p 0) (α.getD c 0) (c + 1 - p) (by omega)
    · have hp' : p = c ∨ p ∈ cs ∨ p + 1 = n := by
        rcases hp with h | h | h
        · exact absurd h hps
        · rcases List.mem_cons.mp h with h | h
          · exact Or.inl h
          · exact Or.inr (Or.inl h)
        · exact Or.inr (Or.inr h)
      have hcp : c ≤ p := by
        rcases hp' with h | h | h
        · omega
        · exact le_of_lt ((List.pairwise_cons.mp hch').1 p h)
        · omega
      have hlen : ((Path.linspace (α.getD s 0) (α.getD c 0) (c + 1 - s)).take (c - s)).length = c - s := by
        simp [linspace_length]; omega
      rw [List.getElem?_append_right (by rw [hlen]; omega), hlen]
      have e : p - s - (c - s) = p - c := by omega
      rw [e]
      exact ih c hch' (fun x hx => hint x (by simp [hx])) (by omega) hp'


theorem respaceTargets_length (climb : List Nat) (α : List K) (hne : α ≠ []) (hsorted : List.Pairwise (· < ·) (0 :: climb))
    (hint : ∀ c ∈ climb, c + 1 < α.length) : (Path.respaceTargets climb α).length = α.length := by
  have : 0 < α.length := List.length_pos_iff.mpr hne
  simpa [Path.respaceTargets] using respaceGo_length α α.length 0 climb hsorted hint this

/-- the new images with index `0`, `N−1` and the climbing indices are placed at their own arc coordinates. -/
theorem respaceTargets_pinned (climb : List Nat) (α : List K) (hne : α ≠ []) (hsorted : List.Pairwise (· < ·) (0 :: climb))
    (hint : ∀ c ∈ climb, c + 1 < α.length) (p : Nat) (hp : p = 0 ∨ p ∈ climb ∨ p + 1 = α.length) :
    (Path.respaceTargets climb α)[p]? = α[p]? := by
  have hpos : 0 < α.length := List.length_pos_iff.mpr hne
  have hlt : p < α.length := by
    rcases hp with rfl | h | h
    · exact hpos
    · have := hint p h; omega
    · omega
  have := respaceGo_pinned α α.length 0 climb hsorted hint hpos p hp
  simp only [Nat.sub_zero] at this
  rw [Path.respaceTargets, this, List.getElem?_eq_getElem hlt]
  simp [List.getD, List.getElem?_eq_getElem hlt]

end thms

section spline
variable {K V : Type} [Field K] [CharZero K] [LinearOrder K] [IsStrictOrderedRing K] [AddCommGroup V] [Module K V]
variable (dot : V → V → K) (sqrt : K → K)

/-- with an interpolant that returns the knots' values at the knots' arc coordinates (a spline interpolates), the
    re-spacing keeps the first, the last and the climbing images where the integrator put them: the hypothesis `hkeep`
    of the fixed-point theorems. -/
theorem splineRespace_keeps_pinned (interp : List K → List V → K → V) (climb : List Nat)
    (hsorted : List.Pairwise (· < ·) (0 :: climb)) (rows : List V) (hint : ∀ c ∈ climb, c + 1 < rows.length) (hne : rows ≠ [])
    (hknot : ∀ i (hi : i < rows.length) (a : K), (Path.arccoordOf dot sqrt rows)[i]? = some a →
      interp (Path.arccoordOf dot sqrt rows) rows a = rows[i])
    (i : Nat) (hp : i = 0 ∨ i + 1 = rows.length ∨ i ∈ climb) :
    (Path.splineRespace dot sqrt interp climb rows)[i]? = rows[i]? := by
  have hlen := arccoord_length dot sqrt rows hne
  have hne' : Path.arccoordOf dot sqrt rows ≠ [] := by
    intro h0; rw [h0] at hlen; exact hne (List.length_eq_zero_iff.mp hlen.symm)
  have hp' : i = 0 ∨ i ∈ climb ∨ i + 1 = (Path.arccoordOf dot sqrt rows).length := by
    rw [hlen]; tauto
  have hpin := respaceTargets_pinned climb (Path.arccoordOf dot sqrt rows) hne' hsorted (by rw [hlen]; exact hint) i hp'
  have hlt : i < rows.length := by
    rcases hp with rfl | h | h
    · exact List.length_pos_iff.mpr hne
    · omega
    · have := hint i h; omega
  have hα : (Path.arccoordOf dot sqrt rows)[i]? = some ((Path.arccoordOf dot sqrt rows)[i]'(by rw [hlen]; exact hlt)) :=
    List.getElem?_eq_getElem _
  simp only [Path.splineRespace, List.getElem?_map, hpin, hα, Option.map_some, List.getElem?_eq_getElem hlt]
  rw [hknot i hlt _ hα]

end spline

section splinestep
variable {K V : Type} [Field K] [CharZero K] [LinearOrder K] [IsStrictOrderedRing K] [AddCommGroup V] [Module K V]
variable (dot : V → V → K) (sqrt : K → K)

/-- the fixed-point theorem with the re-spacing of the code spelled out (`splineRespace`: targets `respaceTargets`,
    an interpolant that returns its knots): a step (Euler) that returns its string has its ends and climbing images at
    critical points.  The only thing assumed about scipy's spline is that it interpolates its knots. -/
theorem stringStep_spline_fixed_pinned_critical (p : Path V K) (hp : p.integratorfxn = fun r x h => euler r x h)
    (hadd : ∀ a b c, dot (a + b) c = dot a c + dot b c) (hsmul : ∀ (k : K) a c, dot (k • a) c = k * dot a c)
    (hneg : ∀ a c, dot (-a) c = - dot a c) (hdot0 : ∀ c, dot 0 c = 0)
    (interp : List K → List V → K → V) (h : K) (hh : h ≠ 0) (climb : List Nat)
    (hsorted : List.Pairwise (· < ·) (0 :: climb)) (hint : ∀ c ∈ climb, c + 1 < p.coord.length)
    (hc : 2 ≤ p.coord.length)
    (hknot : ∀ (rows : List V) i (hi : i < rows.length) (a : K), (Path.arccoordOf dot sqrt rows)[i]? = some a →
      interp (Path.arccoordOf dot sqrt rows) rows a = rows[i])
    (hunit : ∀ τ ∈ p.unitTangent dot sqrt, dot τ τ = 1)
    (hfix : (p.stringStep dot sqrt (Path.splineRespace dot sqrt interp) h climb).coord = p.coord)
    (i : Nat) (hi : i < p.coord.length) (hpin : i = 0 ∨ i + 1 = p.coord.length ∨ i ∈ climb) :
    p.gradPoint p.coord[i] = 0 := by
  refine stringStep_fixed_pinned_critical dot sqrt p hp hadd hsmul hneg hdot0 (Path.splineRespace dot sqrt interp) h hh climb hc
    ?_ hunit hfix i hi hpin
  intro rows hlen j hj
  have hne : rows ≠ [] := by
    intro h0; rw [h0] at hlen; simp at hlen; omega
  exact splineRespace_keeps_pinned dot sqrt interp climb hsorted rows (by rw [hlen]; exact hint) hne (hknot rows) j hj

end splinestep

section examples3
/-! non-vacuity of the round-3 hypotheses -/
-- a re-spacing that keeps the pinned rows exists (the identity; the spline keeps its knots)
example (climb : List Nat) (n : Nat) : ∀ (rows : List ℚ), rows.length = n → ∀ (i : Nat), (i = 0 ∨ i + 1 = rows.length ∨ i ∈ climb) →
    ((fun (_ : List Nat) (r : List ℚ) => r) climb rows)[i]? = rows[i]? := fun _ _ _ _ => rfl
-- the convergence measure of a concrete step: images 0 -> 1 and 1 -> 1 with time step 1/2
example : Path.displacement (fun a b : ℚ => a * b) (fun x : ℚ => x) (1/2) [0, 1] [1, 1] = 2 := by
  norm_num [Path.displacement]
-- a path at rest: both images critical, Euler; the whole step returns the string
example : (exPath.apply (.setCoord [0, 0])).stepRow (1/4) 0 = 0 :=
  (stepRow_euler_fixed_iff _ rfl (1/4) (by norm_num) 0).mpr (by simp [Path.gradPoint, Path.apply, exPath])
example : ∀ (k x : ℝ), 0 < k → Real.sqrt (k * k * x) = k * Real.sqrt x := fun k x hk => by
  rw [show k * k * x = k ^ 2 * x by ring, Real.sqrt_mul (sq_nonneg k), Real.sqrt_sq hk.le]
-- targets of a 5-image string with arc coordinates 0, 1, 3, 4, 8: no climbing image / image 2 climbing
example : Path.respaceTargets [] [0, 1, 3, 4, (8 : ℚ)] = [0, 2, 4, 6, 8] := by decide +kernel
example : Path.respaceTargets [2] [0, 1, 3, 4, (8 : ℚ)] = [0, 3/2, 3, 11/2, 8] := by decide +kernel
end examples3


/-! ## climbing images named from the end; the textbook form of the Runge-Kutta step -/

theorem pyIndex_nonneg (n i : Nat) (h : i < n) : pyIndex? n (i : Int) = some i := by
  unfold pyIndex?
  have h1 : (0 : Int) ≤ (i : Int) := Int.natCast_nonneg i
  have h2 : (i : Int) < (n : Int) := by exact_mod_cast h
  rw [if_pos h1, if_pos h2, Int.toNat_natCast]

/-- an image named from the end (`i - n`, i.e. `-1` for the last one) is the image `i`. -/
theorem pyIndex_neg_equiv (n i : Nat) (h : i < n) : pyIndex? n ((i : Int) - (n : Int)) = some i := by
  unfold pyIndex?
  have h2 : (i : Int) < (n : Int) := by exact_mod_cast h
  have h1 : ¬ (0 : Int) ≤ (i : Int) - (n : Int) := by omega
  have h3 : (0 : Int) ≤ (n : Int) + ((i : Int) - (n : Int)) := by omega
  have h4 : ((n : Int) + ((i : Int) - (n : Int))).toNat = i := by
    have : (n : Int) + ((i : Int) - (n : Int)) = (i : Int) := by ring
    rw [this]; exact Int.toNat_natCast i
  rw [if_neg h1, if_pos h3, h4]

/-- indices outside `-n … n-1` are refused, never silently dropped. -/
theorem pyIndex_out_of_range (n : Nat) (i : Int) (h : i < -(n : Int) ∨ (n : Int) ≤ i) : pyIndex? n i = none := by
  unfold pyIndex?
  rcases h with h | h
  · have h1 : ¬ (0 : Int) ≤ i := by omega
    have h2 : ¬ (0 : Int) ≤ (n : Int) + i := by omega
    rw [if_neg h1, if_neg h2]
  · have h1 : (0 : Int) ≤ i := by omega
    have h2 : ¬ i < (n : Int) := by omega
    rw [if_pos h1, if_neg h2]

/-- a list of climbing images named from the end is the list named from the front: `step(climbindex=[i - N, …])`
    is `step(climbindex=[i, …])`. -/
theorem climbImages_neg_equiv (n : Nat) (cs : List Nat) (h : ∀ i ∈ cs, i < n) :
    climbImages? n (cs.map (fun (i : Nat) => (i : Int) - (n : Int))) = some cs ∧
    climbImages? n (cs.map (fun (i : Nat) => (i : Int))) = some cs := by
  induction cs with
  | nil => exact ⟨rfl, rfl⟩
  | cons a t ih =>
    have ha : a < n := h a (List.mem_cons_self)
    have ht : ∀ i ∈ t, i < n := fun i hi => h i (List.mem_cons_of_mem a hi)
    obtain ⟨ih1, ih2⟩ := ih ht
    constructor
    · rw [List.map_cons, climbImages?, pyIndex_neg_equiv n a ha, ih1]
    · rw [List.map_cons, climbImages?, pyIndex_nonneg n a ha, ih2]

example : climbImages? 12 [-6] = some [6] ∧ climbImages? 12 [6] = some [6] ∧ climbImages? 12 [-13] = none := by decide


section textbook
variable {K V : Type} [Field K] [CharZero K] [AddCommGroup V] [Module K V]

/-- the textbook form of the Runge-Kutta step (stages NOT scaled by the step, `y + h (k1 + 2 k2 + 2 k3 + k4) / 6`) is the same
    function of `(f, y, h)` as the coded one (stages scaled when they are formed) -- for EVERY rate function, linear or not:
    the two differ only in which intermediate objects they keep alive. -/
theorem rk4_textbook_form (f : V → V) (y : V) (h : K) :
    rungekutta f y h =
      (let k1 := f y
       let k2 := f (y + ((1 : K) / 2 * h) • k1)
       let k3 := f (y + ((1 : K) / 2 * h) • k2)
       let k4 := f (y + h • k3)
       y + (h / 6) • (k1 + (2 : K) • k2 + (2 : K) • k3 + k4)) := by
  simp only [rungekutta, Nat.cast_ofNat, Nat.cast_one, smul_smul]
  module
end textbook

/-! ## the loops of `relax` over whole strings, and `relax` as a whole (`Path.relax`: the definition that
    `Generated/PathSource.lean` — regenerated from `ISMPath.relax` — is proved equal to, `gen_relax_eq_model`) -/
section relaxloop
variable {P L : Type} [LT L] [DecidableLT L]

theorem relaxLoop_zero (step : P → P) (measure : P → P → L) (tol : L) (p : P) :
    relaxLoop step measure tol 0 p = (p, []) := rfl

/-- (statement audit) a loop asked for at least one pass makes at least one: the first pass is unconditional. -/
theorem relaxLoop_runs_once (step : P → P) (measure : P → P → L) (tol : L) (n : Nat) (hn : 0 < n) (p : P) :
    1 ≤ (relaxLoop step measure tol n p).2.length := by
  cases n with
  | zero => omega
  | succ n =>
    simp only [relaxLoop]
    split <;> simp

/-- a loop makes at most the requested number of passes. -/
theorem relaxLoop_measures_length_le (step : P → P) (measure : P → P → L) (tol : L) (n : Nat) (p : P) :
    (relaxLoop step measure tol n p).2.length ≤ n := by
  induction n generalizing p with
  | zero => simp [relaxLoop]
  | succ n ih =>
    by_cases hd : measure p (step p) < tol
    · simp [relaxLoop, hd]
    · have := ih (step p)
      simp only [relaxLoop, if_neg hd, List.length_cons]
      omega

/-- whatever every step preserves holds for the string a loop returns. -/
theorem relaxLoop_invariant (step : P → P) (measure : P → P → L) (tol : L) (I : P → Prop)
    (hstep : ∀ q, I q → I (step q)) (n : Nat) (p : P) (hp : I p) : I (relaxLoop step measure tol n p).1 := by
  induction n generalizing p with
  | zero => exact hp
  | succ n ih =>
    by_cases hd : measure p (step p) < tol
    · simp only [relaxLoop, if_pos hd]; exact hstep p hp
    · simp only [relaxLoop, if_neg hd]; exact ih (step p) (hstep p hp)

/-- the string a loop returns is the start stepped once per recorded measure. -/
theorem relaxLoop_eq_iterate (step : P → P) (measure : P → P → L) (tol : L) (n : Nat) (p : P) :
    (relaxLoop step measure tol n p).1 = step^[(relaxLoop step measure tol n p).2.length] p := by
  induction n generalizing p with
  | zero => rfl
  | succ n ih =>
    by_cases hd : measure p (step p) < tol
    · simp [relaxLoop, hd]
    · simp only [relaxLoop, if_neg hd, List.length_cons, Function.iterate_succ_apply]
      exact ih (step p)

/-- a loop that made fewer passes than allowed stopped on the convergence test of its last pass. -/
theorem relaxLoop_stopped_early (step : P → P) (measure : P → P → L) (tol : L) (n : Nat) (p : P)
    (h : (relaxLoop step measure tol n p).2.length < n) :
    ∃ d, (relaxLoop step measure tol n p).2.getLast? = some d ∧ d < tol := by
  induction n generalizing p with
  | zero => simp at h
  | succ n ih =>
    by_cases hd : measure p (step p) < tol
    · simp only [relaxLoop, if_pos hd]; exact ⟨_, rfl, hd⟩
    · simp only [relaxLoop, if_neg hd, List.length_cons] at h ⊢
      obtain ⟨d, hd1, hd2⟩ := ih (step p) (by omega)
      refine ⟨d, ?_, hd2⟩
      cases hl : (relaxLoop step measure tol n (step p)).2 with
      | nil => rw [hl] at hd1; simp at hd1
      | cons y t => rw [hl] at hd1; simpa [List.getLast?_cons_cons] using hd1

/-- every pass before the last one failed the convergence test. -/
theorem relaxLoop_measures_before_last (step : P → P) (measure : P → P → L) (tol : L) (n : Nat) (p : P) :
    ∀ d ∈ (relaxLoop step measure tol n p).2.dropLast, ¬ d < tol := by
  induction n generalizing p with
  | zero => simp [relaxLoop]
  | succ n ih =>
    by_cases hd : measure p (step p) < tol
    · simp [relaxLoop, hd]
    · simp only [relaxLoop, if_neg hd]
      intro d hmem
      cases hl : (relaxLoop step measure tol n (step p)).2 with
      | nil => rw [hl] at hmem; simp at hmem
      | cons y t =>
        rw [hl, List.dropLast_cons_cons] at hmem
        rcases List.mem_cons.mp hmem with rfl | hm
        · exact hd
        · exact ih (step p) d (by rw [hl]; exact hm)

end relaxloop

section climbsorted
variable {L : Type} [LT L] [DecidableLT L]

/-- the climbing images `relax` chooses are increasing interior images: what the re-spacing of `step` needs. -/
theorem climbIndices_sorted_interior (cp : Nat) (E : List L) :
    List.Pairwise (· < ·) (0 :: climbIndices cp E) ∧ ∀ c ∈ climbIndices cp E, c + 1 < E.length := by
  refine ⟨List.pairwise_cons.mpr ⟨fun c hc => (climbIndices_interior_max cp E c hc).1, ?_⟩,
    fun c hc => (climbIndices_interior_max cp E c hc).2.1⟩
  exact List.Pairwise.sublist (List.take_sublist _ _) (localMaxima_sorted 0 E)

end climbsorted

section relaxwhole
variable {K V : Type} [Field K] [CharZero K] [LinearOrder K] [IsStrictOrderedRing K] [AddCommGroup V] [Module K V]
variable (dot : V → V → K) (sqrt : K → K)

/-- `relax()` without a time step / tolerance is `relax` with the defaults of the string it is called on. -/
theorem relax_default_options (p : Path V K) (respace : List Nat → List V → List V) (a : RelaxArgs K) :
    p.relax dot sqrt respace { a with timestep := none, tolerance := none }
      = p.relax dot sqrt respace { a with timestep := some (Path.defaultTimestep p.coord.length),
                                          tolerance := some (Path.defaultTolerance p.coord.length) } := rfl

/-- `relax(0, 0)` returns the string it was called on. -/
theorem relax_zero_steps (p : Path V K) (respace : List Nat → List V → List V) (a : RelaxArgs K)
    (h1 : a.relaxsteps = 0) (h2 : a.climbsteps = 0) : (p.relax dot sqrt respace a).path = p := by
  simp only [Path.relax, h1, h2, relaxLoop]

/-- each loop of `relax` makes at most the requested number of steps; at most `climbpoints` images climb. -/
theorem relax_steps_le (p : Path V K) (respace : List Nat → List V → List V) (a : RelaxArgs K) :
    (p.relax dot sqrt respace a).relaxMeasures.length ≤ a.relaxsteps ∧
    (p.relax dot sqrt respace a).climbMeasures.length ≤ a.climbsteps ∧
    (p.relax dot sqrt respace a).climb.length ≤ a.climbpoints :=
  ⟨relaxLoop_measures_length_le _ _ _ _ _, relaxLoop_measures_length_le _ _ _ _ _, climbIndices_length_le _ _⟩

/-- (statement audit) **the climbing phase runs whenever it is requested**, about `relax` ITSELF (the older
    `climb_runs_when_requested` is about `relaxCounts` over free lists of measures, which `relax` does not call): with
    `climbsteps > 0` at least one climbing step is made whatever the relaxation phase did — converged, exhausted, or
    `relaxsteps = 0` — and likewise the relaxation phase makes at least one step when `relaxsteps > 0`. -/
theorem relax_climb_runs_when_requested (p : Path V K) (respace : List Nat → List V → List V) (a : RelaxArgs K) :
    (0 < a.climbsteps → 1 ≤ (p.relax dot sqrt respace a).climbMeasures.length) ∧
    (0 < a.relaxsteps → 1 ≤ (p.relax dot sqrt respace a).relaxMeasures.length) :=
  ⟨fun h => relaxLoop_runs_once _ _ _ _ h _, fun h => relaxLoop_runs_once _ _ _ _ h _⟩

/-- the string `relax` returns is the string it was called on with other coordinates: energy function, gradient
    function, settings and integrator are those of the caller's path, for every re-spacing and all options. -/
theorem relax_fields (p : Path V K) (respace : List Nat → List V → List V) (a : RelaxArgs K) :
    ∃ c, (p.relax dot sqrt respace a).path = p.withCoord c := by
  have hstep : ∀ (h : K) (climb : List Nat) (q : Path V K), (∃ c, q = p.withCoord c) →
      ∃ c, q.stringStep dot sqrt respace h climb = p.withCoord c := by
    rintro h climb q ⟨c, rfl⟩
    exact ⟨_, rfl⟩
  simp only [Path.relax]
  apply relaxLoop_invariant _ _ _ (fun q => ∃ c, q = p.withCoord c) (hstep _ _)
  apply relaxLoop_invariant _ _ _ (fun q => ∃ c, q = p.withCoord c) (hstep _ _)
  exact ⟨p.coord, rfl⟩

/-- a step with the re-spacing of the code (`splineRespace`, any interpolant) keeps the number of images, for strings of
    every length ≥ 2 and every admissible set of climbing images. -/
theorem stringStep_spline_length (p : Path V K) (interp : List K → List V → K → V) (h : K) (climb : List Nat)
    (hsorted : List.Pairwise (· < ·) (0 :: climb)) (hint : ∀ c ∈ climb, c + 1 < p.coord.length)
    (hc : 2 ≤ p.coord.length) :
    (p.stringStep dot sqrt (Path.splineRespace dot sqrt interp) h climb).coord.length = p.coord.length := by
  have hlen := icoord_length dot sqrt p h climb hc
  have hne : p.icoord dot sqrt h climb ≠ [] := by
    intro h0; rw [h0] at hlen; simp at hlen; omega
  have hα := arccoord_length dot sqrt (p.icoord dot sqrt h climb) hne
  have hne' : Path.arccoordOf dot sqrt (p.icoord dot sqrt h climb) ≠ [] := by
    intro h0; rw [h0] at hα; simp at hα; omega
  simp only [Path.stringStep, Path.withCoord, Path.splineRespace, List.length_map]
  rw [respaceTargets_length climb _ hne' hsorted (by rw [hα, hlen]; exact hint), hα, hlen]

/-- a pinned image (first, last, climbing) sitting at a critical point is where it was after a step with the
    re-spacing of the code, for both integrators (the interpolant is only assumed to return its knots). -/
theorem stringStep_spline_keeps_critical_row (q : Path V K)
    (hq : q.integratorfxn = (fun r x h => euler r x h) ∨ q.integratorfxn = (fun r x h => rungekutta r x h))
    (hdot0 : ∀ c, dot 0 c = 0) (interp : List K → List V → K → V)
    (hknot : ∀ (rows : List V) i (hi : i < rows.length) (a : K), (Path.arccoordOf dot sqrt rows)[i]? = some a →
      interp (Path.arccoordOf dot sqrt rows) rows a = rows[i])
    (h : K) (climb : List Nat) (hsorted : List.Pairwise (· < ·) (0 :: climb))
    (hint : ∀ c ∈ climb, c + 1 < q.coord.length) (hc : 2 ≤ q.coord.length)
    (i : Nat) (hpin : i = 0 ∨ i + 1 = q.coord.length ∨ i ∈ climb) (x : V) (hx : q.coord[i]? = some x)
    (hcrit : q.gradPoint x = 0) :
    (q.stringStep dot sqrt (Path.splineRespace dot sqrt interp) h climb).coord[i]? = some x := by
  obtain ⟨hi, rfl⟩ := List.getElem?_eq_some_iff.mp hx
  refine stringStep_critical_pinned_fixed dot sqrt q hq hdot0 (Path.splineRespace dot sqrt interp) h climb hc ?_ i hi hpin hcrit
  intro rows hlen j hj
  have hne : rows ≠ [] := by
    intro h0; rw [h0] at hlen; simp at hlen; omega
  exact splineRespace_keeps_pinned dot sqrt interp climb hsorted rows (by rw [hlen]; exact hint) hne (hknot rows) j hj

/-- **end to end, ends in the minima stay there**: for a string of any number ≥ 2 of images whose two end images sit at
    critical points of the energy, `relax` — any numbers of relaxation and climbing steps, any time step and tolerance
    (given or default), any `climbpoints`, Euler or Runge–Kutta, the climbing images it chooses itself — returns a string
    with the same number of images and the same two end images.  Only assumption on scipy's spline: it returns its
    knots. -/
theorem relax_spline_critical_ends_fixed (p : Path V K)
    (hp : p.integratorfxn = (fun r x h => euler r x h) ∨ p.integratorfxn = (fun r x h => rungekutta r x h))
    (hdot0 : ∀ c, dot 0 c = 0) (interp : List K → List V → K → V)
    (hknot : ∀ (rows : List V) i (hi : i < rows.length) (a : K), (Path.arccoordOf dot sqrt rows)[i]? = some a →
      interp (Path.arccoordOf dot sqrt rows) rows a = rows[i])
    (a : RelaxArgs K) (hc : 2 ≤ p.coord.length) (x0 xl : V)
    (h0 : p.coord[0]? = some x0) (hl : p.coord[p.coord.length - 1]? = some xl)
    (hcrit0 : p.gradPoint x0 = 0) (hcritl : p.gradPoint xl = 0) :
    (p.relax dot sqrt (Path.splineRespace dot sqrt interp) a).path.coord.length = p.coord.length ∧
    (p.relax dot sqrt (Path.splineRespace dot sqrt interp) a).path.coord[0]? = some x0 ∧
    (p.relax dot sqrt (Path.splineRespace dot sqrt interp) a).path.coord[p.coord.length - 1]? = some xl := by
  -- the invariant of both loops
  let I : Path V K → Prop := fun q => (∃ c, q = p.withCoord c) ∧ q.coord.length = p.coord.length ∧
    q.coord[0]? = some x0 ∧ q.coord[p.coord.length - 1]? = some xl
  have hstep : ∀ (h : K) (climb : List Nat), List.Pairwise (· < ·) (0 :: climb) →
      (∀ c ∈ climb, c + 1 < p.coord.length) → ∀ q, I q →
      I (q.stringStep dot sqrt (Path.splineRespace dot sqrt interp) h climb) := by
    rintro h climb hsorted hint q ⟨⟨c, rfl⟩, hlen, hq0, hql⟩
    have hlen' : (p.withCoord c).coord.length = p.coord.length := hlen
    refine ⟨⟨_, rfl⟩, ?_, ?_, ?_⟩
    · rw [stringStep_spline_length dot sqrt (p.withCoord c) interp h climb hsorted (by rw [hlen']; exact hint)
        (by rw [hlen']; exact hc), hlen']
    · exact stringStep_spline_keeps_critical_row dot sqrt (p.withCoord c) hp hdot0 interp hknot h climb hsorted
        (by rw [hlen']; exact hint) (by rw [hlen']; exact hc) 0 (Or.inl rfl) x0 hq0 hcrit0
    · exact stringStep_spline_keeps_critical_row dot sqrt (p.withCoord c) hp hdot0 interp hknot h climb hsorted
        (by rw [hlen']; exact hint) (by rw [hlen']; exact hc) (p.coord.length - 1)
        (Or.inr (Or.inl (by rw [hlen']; omega))) xl hql hcritl
  have hI0 : I p := ⟨⟨p.coord, rfl⟩, rfl, h0, hl⟩
  -- first loop: no climbing image
  have h1 := relaxLoop_invariant
    (fun q : Path V K => q.stringStep dot sqrt (Path.splineRespace dot sqrt interp)
      (a.timestep.getD (Path.defaultTimestep p.coord.length)) [])
    (Path.measure dot sqrt (a.timestep.getD (Path.defaultTimestep p.coord.length)))
    (a.tolerance.getD (Path.defaultTolerance p.coord.length)) I
    (hstep _ [] (by simp) (by simp)) a.relaxsteps p hI0
  -- second loop: the climbing images chosen from the energies of the string reached
  obtain ⟨hs, hin⟩ := climbIndices_sorted_interior a.climbpoints
    (relaxLoop (fun q : Path V K => q.stringStep dot sqrt (Path.splineRespace dot sqrt interp)
      (a.timestep.getD (Path.defaultTimestep p.coord.length)) [])
      (Path.measure dot sqrt (a.timestep.getD (Path.defaultTimestep p.coord.length)))
      (a.tolerance.getD (Path.defaultTolerance p.coord.length)) a.relaxsteps p).1.energy
  have hElen : ∀ q : Path V K, q.energy.length = q.coord.length := fun q => by
    simp [Path.energy, Path.energyAt]
  rw [hElen, h1.2.1] at hin
  have h2 := relaxLoop_invariant _ (Path.measure dot sqrt (a.timestep.getD (Path.defaultTimestep p.coord.length)))
    (a.tolerance.getD (Path.defaultTolerance p.coord.length)) I
    (hstep (a.timestep.getD (Path.defaultTimestep p.coord.length)) _ hs hin) a.climbsteps _ h1
  exact h2.2

end relaxwhole

/-! ## construction: which arguments `create_path` / `BasePath.__init__` refuse, and what they select -/
section construct

theorem resolveGradientfxn_ok_iff (a : FxnArg) :
    (∃ g, resolveGradientfxn a = .ok g) ↔ a = .callable ∨ a = .name "central_difference" ∨ a = .name "cdiff" := by
  cases a with
  | name s =>
    simp only [resolveGradientfxn, gradientNames, List.lookup]
    by_cases h1 : s = "central_difference"
    · subst h1; simp
    · by_cases h2 : s = "cdiff"
      · subst h2; simp
      · have e1 : (s == "central_difference") = false := by simpa using h1
        have e2 : (s == "cdiff") = false := by simpa using h2
        simp [e1, e2, h1, h2]
  | callable => simp [resolveGradientfxn]
  | other => simp [resolveGradientfxn]

theorem resolveIntegratorfxn_ok_iff (a : FxnArg) :
    (∃ g, resolveIntegratorfxn a = .ok g) ↔
      a = .callable ∨ a = .name "rungekutta" ∨ a = .name "rk" ∨ a = .name "euler" := by
  cases a with
  | name s =>
    simp only [resolveIntegratorfxn, integratorNames, List.lookup]
    by_cases h1 : s = "rungekutta"
    · subst h1; simp
    · by_cases h2 : s = "rk"
      · subst h2; simp
      · by_cases h3 : s = "euler"
        · subst h3; simp
        · have e1 : (s == "rungekutta") = false := by simpa using h1
          have e2 : (s == "rk") = false := by simpa using h2
          have e3 : (s == "euler") = false := by simpa using h3
          simp [e1, e2, e3, h1, h2, h3]
  | callable => simp [resolveIntegratorfxn]
  | other => simp [resolveIntegratorfxn]

/-- a name is refused with `ValueError`, something that is neither a name nor callable with `TypeError`. -/
theorem resolve_error_class (a : FxnArg) :
    (resolveGradientfxn a = .error .type ↔ a = .other) ∧ (resolveIntegratorfxn a = .error .type ↔ a = .other) := by
  cases a with
  | name s =>
    refine ⟨⟨fun h => ?_, fun h => by cases h⟩, ⟨fun h => ?_, fun h => by cases h⟩⟩
    · simp only [resolveGradientfxn] at h; split at h <;> cases h
    · simp only [resolveIntegratorfxn] at h; split at h <;> cases h
  | callable => simp [resolveGradientfxn, resolveIntegratorfxn]
  | other => simp [resolveGradientfxn, resolveIntegratorfxn]

/-- **`create_path` accepts exactly** a known style, a callable energy function, a known name or a callable for the
    gradient function and the integrator, and `None` or a dictionary as settings. -/
theorem createPath_ok_iff (a : CtorArgs) :
    (∃ r, createPath a = .ok r) ↔
      (a.style.getD defaultStyle ∈ styleNames) ∧ a.energyCallable = true ∧
      (∃ g, resolveGradientfxn (a.gradientfxn.getD defaultGradientfxn) = .ok g) ∧
      (∃ i, resolveIntegratorfxn (a.integratorfxn.getD defaultIntegratorfxn) = .ok i) ∧
      a.gradientkwargs.getD defaultGradientkwargs ≠ .other := by
  simp only [createPath, initPath, List.contains_iff_mem]
  by_cases hs : a.style.getD defaultStyle ∈ styleNames
  · simp only [hs, if_true, true_and]
    by_cases he : a.energyCallable = true
    · simp only [he, not_true_eq_false, if_false, true_and]
      cases hg : resolveGradientfxn (a.gradientfxn.getD defaultGradientfxn) with
      | error e => simp [bind, Except.bind]
      | ok g =>
        cases hi : resolveIntegratorfxn (a.integratorfxn.getD defaultIntegratorfxn) with
        | error e => simp [bind, Except.bind]
        | ok i =>
          cases hk : a.gradientkwargs.getD defaultGradientkwargs <;>
            simp [bind, Except.bind, pure, Except.pure, throw, throwThe, MonadExceptOf.throw]
    · simp [he, bind, Except.bind, throw, throwThe, MonadExceptOf.throw]
  · simp [hs]

/-- left at their defaults the options select the central difference, Runge–Kutta and a settings dictionary of the
    path's own. -/
theorem createPath_defaults : createPath { energyCallable := true } = .ok (.centralDifference, .rungekutta, true) := by
  decide

/-- an unknown style is refused before anything else is looked at. -/
theorem createPath_style_first (a : CtorArgs) (h : a.style.getD defaultStyle ∉ styleNames) :
    createPath a = .error .value := by
  simp [createPath, List.contains_iff_mem, h]

/-- with a known style the first failing check of `__init__` decides: a non-callable energy function gives `TypeError`
    whatever the other arguments are. -/
theorem createPath_energy_first (a : CtorArgs) (hs : a.style.getD defaultStyle ∈ styleNames) (he : a.energyCallable = false) :
    createPath a = .error .type := by
  simp [createPath, initPath, List.contains_iff_mem, hs, he, bind, Except.bind, throw, throwThe, MonadExceptOf.throw]

end construct

/-! ## the Taylor clause spelled out for matrices of every dimension -/
section matrixform
variable {K : Type} [Field K] [CharZero K]

/-- **Euler, every dimension `n`**: one step on `y' = A y` with `A` an `n × n` matrix is `y + h·(A y)`. -/
theorem euler_matrix (n : Nat) (A : Matrix (Fin n) (Fin n) K) (y : Fin n → K) (h : K) :
    euler (fun v => A.mulVec v) y h = y + h • A.mulVec y := by
  simpa only [Matrix.mulVecLin_apply] using euler_linear (Matrix.mulVecLin A) y h

/-- **Runge–Kutta, every dimension `n`**: one step on `y' = A y` is the degree-four Taylor polynomial of `exp(hA)`
    applied to `y`, written with matrix powers: `(1 + hA + (hA)²/2 + (hA)³/6 + (hA)⁴/24) y`. -/
theorem rk4_matrix (n : Nat) (A : Matrix (Fin n) (Fin n) K) (y : Fin n → K) (h : K) :
    rungekutta (fun v => A.mulVec v) y h
      = ((1 : Matrix (Fin n) (Fin n) K) + h • A + (h ^ 2 / 2) • A ^ 2 + (h ^ 3 / 6) • A ^ 3 + (h ^ 4 / 24) • A ^ 4).mulVec y := by
  have := rk4_linear (Matrix.mulVecLin A) y h
  simp only [Matrix.mulVecLin_apply] at this
  rw [this]
  simp only [Matrix.add_mulVec, Matrix.smul_mulVec, Matrix.one_mulVec, pow_succ, pow_zero, one_mul,
    Matrix.mulVec_mulVec, mul_assoc]

example : rungekutta (fun v => (!![0, 1; -1, 0] : Matrix (Fin 2) (Fin 2) ℚ).mulVec v) (![1, 0] : Fin 2 → ℚ) (1 / 2 : ℚ)
    = ![337 / 384, -23 / 48] := by
  refine (rk4_matrix (K := ℚ) 2 _ _ _).trans ?_
  ext i; fin_cases i <;> norm_num [Matrix.mulVec, dotProduct, Fin.sum_univ_two, pow_succ, Matrix.mul_apply]

end matrixform

section interprange
variable {K : Type} [Field K] [LinearOrder K]

/-- **`interpolate_path` refuses exactly** when some requested arc coordinate is negative or beyond the last image's. -/
theorem interpRefuses_iff (α t : List K) :
    interpRefuses α t = true ↔ ∃ a ∈ t, a < 0 ∨ α.getLastD 0 < a := by
  simp only [interpRefuses, Bool.or_eq_true, List.any_eq_true, decide_eq_true_eq, Nat.cast_zero]
  constructor
  · rintro (⟨a, h, h'⟩ | ⟨a, h, h'⟩)
    · exact ⟨a, h, Or.inl h'⟩
    · exact ⟨a, h, Or.inr h'⟩
  · rintro ⟨a, h, h' | h'⟩
    · exact Or.inl ⟨a, h, h'⟩
    · exact Or.inr ⟨a, h, h'⟩

example : interpRefuses [0, 1, (3 : ℚ)] [0, 3] = false ∧ interpRefuses [0, 1, (3 : ℚ)] [0, 25 / 8] = true := by decide +kernel

end interprange

section examples5
/-! non-vacuity of the round-5 statements: a three-image string over `ℚ` on the double well `(x²−1)²`, ends in the minima -/
def exWell : Path ℚ ℚ :=
  ⟨[-1, 1/2, 1], fun x => (x * x - 1) * (x * x - 1), fun _ x _ => 4 * x * (x * x - 1), none, fun r x h => euler r x h⟩
-- hypotheses of `relax_spline_critical_ends_fixed` on this string
example : exWell.integratorfxn = (fun r x h => euler r x h) ∨ exWell.integratorfxn = (fun r x h => rungekutta r x h) := Or.inl rfl
example : exWell.coord[0]? = some (-1 : ℚ) ∧ exWell.coord[exWell.coord.length - 1]? = some 1 := ⟨rfl, rfl⟩
example : exWell.gradPoint (-1) = 0 ∧ exWell.gradPoint 1 = 0 := by constructor <;> norm_num [Path.gradPoint, exWell]
-- a whole `relax` run (identity re-spacing, `sqrt` replaced by the identity): two relaxation steps, one climbing step;
-- the middle image is the one that climbs, the ends stay in the minima
example : (exWell.relax (fun a b => a * b) (fun x => x) (fun _ r => r)
    { relaxsteps := 2, climbsteps := 1, timestep := some (1/8), tolerance := some 0 }).climb = [1] := by decide +kernel
example : ((exWell.relax (fun a b => a * b) (fun x => x) (fun _ r => r)
    { relaxsteps := 2, climbsteps := 1, timestep := some (1/8), tolerance := some 0 }).path.coord[0]?,
    (exWell.relax (fun a b => a * b) (fun x => x) (fun _ r => r)
    { relaxsteps := 2, climbsteps := 1, timestep := some (1/8), tolerance := some 0 }).path.coord[2]?) = (some (-1 : ℚ), some (1 : ℚ)) := by
  decide +kernel
-- construction: which exception comes first
example : createPath { energyCallable := true, integratorfxn := some (FxnArg.name "verlet") } = .error .value := by decide
example : createPath { energyCallable := false, gradientfxn := some (FxnArg.name "nonsense") } = .error .type := by decide
example : createPath { energyCallable := false, style := some "NEB" } = .error .value := by decide
example : createPath ⟨true, none, some FxnArg.callable, some KwArg.dict, some (FxnArg.name "euler")⟩
    = .ok (.user, .euler, false) := by decide
end examples5


/-! ### statement audit: further non-vacuity instances -/

/-- hypotheses of `phaseSteps_stops_at_first_small` (two measures at or above the tolerance, then one below, budget 5),
    of `climb_runs_when_requested`, and the budget cutting in first (`pre.length < n` fails). -/
example : phaseSteps (1/10 : ℚ) 5 ([1, 1/10] ++ 1/20 :: [3, 1/100]) = 3 ∧
    phaseSteps (1/10 : ℚ) 2 ([1, 1/10] ++ 1/20 :: [3, 1/100]) = 2 ∧
    (relaxCounts (1/10 : ℚ) 4 2 [1/100] [1, 1]).2 = 2 ∧ (relaxCounts (1/10 : ℚ) 0 2 [] [1/100, 1]).2 = 1 := by
  decide +kernel

/-- hypotheses of `relaxLoop_stopped_early` / `relaxLoop_measures_before_last` / `relaxLoop_runs_once` on a concrete loop
    (halving a rational, measure = the distance moved): tolerance `1/5` stops it after 3 of 10 passes, the measures before
    the last are not below the tolerance, the last is; with budget 2 it is cut off before converging. -/
example : relaxLoop (fun x : ℚ => x / 2) (fun x y => x - y) (1/5) 10 1 = (1/8, [1/2, 1/4, 1/8]) ∧
    relaxLoop (fun x : ℚ => x / 2) (fun x y => x - y) (1/5) 2 1 = (1/4, [1/2, 1/4]) := by
  decide +kernel

/-- hypotheses of `respaceGo_length` / `respaceGo_pinned` / `respaceTargets_pinned` with TWO climbing images (`[1, 3]`,
    increasing, interior of a 6-image string): pinned images 0, 1, 3, 5 keep their arc coordinate, 2 and 4 are centred. -/
example : Path.respaceTargets [1, 3] [0, 1, 2, 5, 6, (10 : ℚ)] = [0, 1, 3, 5, 15/2, 10] ∧
    List.Pairwise (· < ·) (0 :: [1, 3]) ∧ (∀ c ∈ [1, 3], c + 1 < 6) := by
  refine ⟨by decide +kernel, by decide, by decide⟩

/-- hypothesis `hknot` of `splineRespace_keeps_pinned` (the interpolant returns its knots) is met by the piecewise-linear
    interpolant on a concrete string, and the pinned rows are kept while the free row moves. -/
example : Path.splineRespace (fun a b : ℚ => a * b) (fun x : ℚ => if x = 1 then 1 else if x = 9 then 3 else 0)
    (fun _ rows a => if a = 0 then rows.getD 0 0 else if a = 1 then rows.getD 1 0 else if a = 4 then rows.getD 2 0 else a)
    [] [0, 1, (4 : ℚ)] = [0, 2, 4] := by
  decide +kernel

end Atomman.C20
