/-
  C09 — helper lemmas about powers with rational exponents: the assumed laws of the parameter `rpow`
  (`RpowLaws`: `x^(a+b) = x^a·x^b`, `(x·y)^a = x^a·y^a`, `x^1 = x` for positive bases) and what follows from them in an
  ordered field — positivity, agreement with the integer powers, `(x^n)^a = (x^a)^n`, the power-of-a-power law
  `(x^a)^b = x^(a·b)` (positive roots are unique) — and the scaling factor `m^a kg^b s^c C^d K^e` with rational
  exponents.
-/
import Atomman.C09
import Proofs.C09_Units
import Mathlib.Tactic.Ring
import Mathlib.Tactic.FieldSimp
import Mathlib.Tactic.Linarith
import Mathlib.Tactic.Positivity
import Mathlib.Algebra.Order.Field.Basic
import Mathlib.Algebra.Field.Rat
import Mathlib.Data.Rat.Cast.CharZero
import Mathlib.Data.Rat.Lemmas

namespace Atomman.C09
set_option linter.unusedSimpArgs false
set_option linter.unusedSectionVars false
set_option linter.unusedVariables false

variable {K : Type} [Field K] [LinearOrder K] [IsStrictOrderedRing K]

/-- the assumed laws of `float ** float` (exact real powers), for positive bases. -/
structure RpowLaws (rpow : K → Rat → K) : Prop where
  add : ∀ x, 0 < x → ∀ a b : Rat, rpow x (a + b) = rpow x a * rpow x b
  mul : ∀ x y, 0 < x → 0 < y → ∀ a : Rat, rpow (x * y) a = rpow x a * rpow y a
  one : ∀ x, 0 < x → rpow x 1 = x

variable {rpow : K → Rat → K} (L : RpowLaws rpow)
include L

theorem rpow_zero {x : K} (hx : 0 < x) : rpow x 0 = 1 := by
  have h := L.add x hx 1 0
  rw [add_zero, L.one x hx] at h
  have hx0 : x ≠ 0 := ne_of_gt hx
  exact (mul_left_cancel₀ hx0 (by rw [mul_one]; exact h)).symm

theorem rpow_mul_neg {x : K} (hx : 0 < x) (a : Rat) : rpow x a * rpow x (-a) = 1 := by
  rw [← L.add x hx, add_neg_cancel, rpow_zero L hx]

theorem rpow_ne_zero {x : K} (hx : 0 < x) (a : Rat) : rpow x a ≠ 0 := by
  intro h
  have := rpow_mul_neg L hx a
  rw [h, zero_mul] at this
  exact zero_ne_one this

theorem rpow_pos {x : K} (hx : 0 < x) (a : Rat) : 0 < rpow x a := by
  have h : rpow x a = rpow x (a / 2) * rpow x (a / 2) := by rw [← L.add x hx]; congr 1; ring
  have h0 := rpow_ne_zero L hx (a / 2)
  rw [h]
  exact mul_self_pos.mpr h0

theorem rpow_neg {x : K} (hx : 0 < x) (a : Rat) : rpow x (-a) = (rpow x a)⁻¹ :=
  eq_inv_of_mul_eq_one_right (rpow_mul_neg L hx a)

theorem rpow_natCast {x : K} (hx : 0 < x) (n : Nat) : rpow x (n : Rat) = x ^ n := by
  induction n with
  | zero => simpa using rpow_zero L hx
  | succ n ih => rw [Nat.cast_succ, L.add x hx, ih, L.one x hx, pow_succ]

theorem rpow_intCast {x : K} (hx : 0 < x) (n : Int) : rpow x (n : Rat) = x ^ n := by
  cases n with
  | ofNat n => simpa using rpow_natCast L hx n
  | negSucc n =>
    rw [Int.cast_negSucc, rpow_neg L hx, zpow_negSucc]
    congr 1
    exact_mod_cast rpow_natCast L hx (n + 1)

theorem rpow_nat_mul {x : K} (hx : 0 < x) (n : Nat) (a : Rat) : rpow x (n * a) = rpow x a ^ n := by
  induction n with
  | zero => simpa using rpow_zero L hx
  | succ n ih => rw [Nat.cast_succ, add_mul, one_mul, L.add x hx, ih, pow_succ]

theorem rpow_int_mul {x : K} (hx : 0 < x) (n : Int) (a : Rat) : rpow x (n * a) = rpow x a ^ n := by
  cases n with
  | ofNat n => simpa using rpow_nat_mul L hx n a
  | negSucc n =>
    rw [Int.cast_negSucc, neg_mul, rpow_neg L hx, zpow_negSucc]
    congr 1
    exact_mod_cast rpow_nat_mul L hx (n + 1) a

theorem rpow_one_base (a : Rat) : rpow (1 : K) a = 1 := by
  have h := L.mul 1 1 one_pos one_pos a
  rw [mul_one] at h
  have h0 := rpow_ne_zero L (one_pos (α := K)) a
  have : rpow (1 : K) a * 1 = rpow 1 a * rpow 1 a := by rw [mul_one]; exact h
  exact (mul_left_cancel₀ h0 this).symm

theorem rpow_pow_base {x : K} (hx : 0 < x) (n : Nat) (a : Rat) : rpow (x ^ n) a = rpow x a ^ n := by
  induction n with
  | zero => simpa using rpow_one_base L a
  | succ n ih => rw [pow_succ, L.mul _ _ (pow_pos hx n) hx, ih, pow_succ]

/-- the power-of-a-power law follows from the three assumed laws in an ordered field (positive `d`-th roots are
    unique). -/
theorem rpow_rpow {x : K} (hx : 0 < x) (a b : Rat) : rpow (rpow x a) b = rpow x (a * b) := by
  have hy := rpow_pos L hx a
  have hu := rpow_pos L hy b
  have hv := rpow_pos L hx (a * b)
  have hN : a.den * b.den ≠ 0 := Nat.mul_ne_zero a.den_nz b.den_nz
  refine (pow_left_inj₀ hu.le hv.le hN).mp ?_
  have hb : ((b.den : Nat) : Rat) * b = (b.num : Int) := by
    rw [mul_comm]; exact_mod_cast Rat.mul_den_eq_num b
  have ha : ((a.den : Nat) : Rat) * a = (a.num : Int) := by
    rw [mul_comm]; exact_mod_cast Rat.mul_den_eq_num a
  -- left: ((x^a)^b)^(da db) = x^(na nb)
  have h1 : rpow (rpow x a) b ^ (a.den * b.den) = x ^ (a.num * b.num) := by
    rw [mul_comm a.den, pow_mul, ← rpow_nat_mul L hy, hb, rpow_intCast L hy, ← zpow_natCast, ← zpow_mul, mul_comm b.num,
      zpow_mul, zpow_natCast, ← rpow_nat_mul L hx, ha, rpow_intCast L hx, ← zpow_mul]
  have h2 : rpow x (a * b) ^ (a.den * b.den) = x ^ (a.num * b.num) := by
    rw [← rpow_nat_mul L hx]
    have : ((a.den * b.den : Nat) : Rat) * (a * b) = ((a.num * b.num : Int) : Rat) := by
      push_cast
      calc (a.den : Rat) * b.den * (a * b) = ((a.den : Rat) * a) * ((b.den : Rat) * b) := by ring
        _ = a.num * b.num := by rw [ha, hb]
    rw [this, rpow_intCast L hx]
  rw [h1, h2]

/-- a law-abiding `rpow` has no freedom where the root exists: if `y > 0` and `y^den q = x^num q` then `rpow x q = y`. -/
theorem rpow_unique {x y : K} (hx : 0 < x) (hy : 0 < y) (q : Rat) (h : y ^ q.den = x ^ q.num) : rpow x q = y := by
  have hp := rpow_pos L hx q
  refine (pow_left_inj₀ hp.le hy.le q.den_nz).mp ?_
  have hq : ((q.den : Nat) : Rat) * q = (q.num : Int) := by
    rw [mul_comm]; exact_mod_cast Rat.mul_den_eq_num q
  rw [← rpow_nat_mul L hx, hq, rpow_intCast L hx, h]

omit L in
def Scales.Pos (sc : Scales K) : Prop := 0 < sc.m ∧ 0 < sc.kg ∧ 0 < sc.s ∧ 0 < sc.c ∧ 0 < sc.k

omit L in
theorem Scales.Pos.nonzero {sc : Scales K} (h : sc.Pos) : sc.Nonzero :=
  ⟨ne_of_gt h.1, ne_of_gt h.2.1, ne_of_gt h.2.2.1, ne_of_gt h.2.2.2.1, ne_of_gt h.2.2.2.2⟩

theorem factorR_pos {sc : Scales K} (h : sc.Pos) (d : Q5) : 0 < factorR rpow sc d := by
  obtain ⟨h1, h2, h3, h4, h5⟩ := h
  unfold factorR
  have := rpow_pos L h1 d.m; have := rpow_pos L h2 d.kg; have := rpow_pos L h3 d.s
  have := rpow_pos L h4 d.c; have := rpow_pos L h5 d.k
  positivity

theorem factorR_zero {sc : Scales K} (h : sc.Pos) : factorR rpow sc Q5.zero = 1 := by
  obtain ⟨h1, h2, h3, h4, h5⟩ := h
  simp [factorR, Q5.zero, rpow_zero L h1, rpow_zero L h2, rpow_zero L h3, rpow_zero L h4, rpow_zero L h5]

theorem factorR_add {sc : Scales K} (h : sc.Pos) (a b : Q5) :
    factorR rpow sc (Q5.add a b) = factorR rpow sc a * factorR rpow sc b := by
  obtain ⟨h1, h2, h3, h4, h5⟩ := h
  simp only [factorR, Q5.add, L.add _ h1, L.add _ h2, L.add _ h3, L.add _ h4, L.add _ h5]
  ring

theorem factorR_sub {sc : Scales K} (h : sc.Pos) (a b : Q5) :
    factorR rpow sc (Q5.sub a b) = factorR rpow sc a / factorR rpow sc b := by
  obtain ⟨h1, h2, h3, h4, h5⟩ := h
  simp only [factorR, Q5.sub, sub_eq_add_neg, L.add _ h1, L.add _ h2, L.add _ h3, L.add _ h4, L.add _ h5,
    rpow_neg L h1, rpow_neg L h2, rpow_neg L h3, rpow_neg L h4, rpow_neg L h5]
  field_simp

/-- `(m^a kg^b …)^q = m^(q a) kg^(q b) …`. -/
theorem factorR_rpow {sc : Scales K} (h : sc.Pos) (q : Rat) (d : Q5) :
    rpow (factorR rpow sc d) q = factorR rpow sc (Q5.smul q d) := by
  obtain ⟨h1, h2, h3, h4, h5⟩ := h
  have p1 := rpow_pos L h1 d.m; have p2 := rpow_pos L h2 d.kg; have p3 := rpow_pos L h3 d.s
  have p4 := rpow_pos L h4 d.c; have p5 := rpow_pos L h5 d.k
  simp only [factorR, Q5.smul]
  rw [L.mul _ _ (by positivity) p5, L.mul _ _ (by positivity) p4, L.mul _ _ (by positivity) p3, L.mul _ _ p1 p2,
    rpow_rpow L h1, rpow_rpow L h2, rpow_rpow L h3, rpow_rpow L h4, rpow_rpow L h5]
  simp only [mul_comm q]

theorem factorR_zpow {sc : Scales K} (h : sc.Pos) (n : Int) (d : Q5) :
    factorR rpow sc d ^ n = factorR rpow sc (Q5.smul n d) := by
  obtain ⟨h1, h2, h3, h4, h5⟩ := h
  simp only [factorR, Q5.smul, mul_zpow, rpow_int_mul L h1, rpow_int_mul L h2, rpow_int_mul L h3, rpow_int_mul L h4,
    rpow_int_mul L h5]

/-- on integer exponents the rational factor is the integer one. -/
theorem factorR_toQ {sc : Scales K} (h : sc.Pos) (d : D5) : factorR rpow sc d.toQ = factor sc d := by
  obtain ⟨h1, h2, h3, h4, h5⟩ := h
  simp only [factorR, D5.toQ, factor_eq, rpow_intCast L h1, rpow_intCast L h2, rpow_intCast L h3, rpow_intCast L h4,
    rpow_intCast L h5]

omit L in
/-- the driver's rational power, where it claims to be exact, is a positive `den q`-th root of `x^num q`. -/
theorem ratRpowE_exact (x q : Rat) (hx : 0 < x) (h : (ratRpowE x q).2 = true) :
    0 < (ratRpowE x q).1 ∧ (ratRpowE x q).1 ^ q.den = x ^ q.num := by
  have hy : 0 < powInt x q.num := by rw [powInt_eq]; exact zpow_pos hx _
  unfold ratRpowE at h ⊢
  simp only at h ⊢
  split at h
  · rename_i hc
    rw [if_pos hc]
    obtain ⟨h1, h2⟩ := hc
    simp only
    set y := powInt x q.num with hyd
    have hnum : 0 < y.num := Rat.num_pos.mpr hy
    have ha : (y.num.natAbs : Int) = y.num := Int.natAbs_of_nonneg hnum.le
    have hra : iroot q.den y.num.natAbs ≠ 0 := by
      intro h0
      rw [h0, zero_pow q.den_nz] at h1
      have : y.num.natAbs = 0 := h1.symm
      omega
    have hrb : iroot q.den y.den ≠ 0 := by
      intro h0
      rw [h0, zero_pow q.den_nz] at h2
      exact y.den_nz h2.symm
    have hdiv : mkRat (iroot q.den y.num.natAbs) (iroot q.den y.den)
        = (iroot q.den y.num.natAbs : Rat) / (iroot q.den y.den : Rat) := by
      rw [Rat.mkRat_eq_div]; push_cast; rfl
    rw [hdiv]
    constructor
    · have p1 : (0 : Rat) < (iroot q.den y.num.natAbs : Rat) := by exact_mod_cast Nat.pos_of_ne_zero hra
      have p2 : (0 : Rat) < (iroot q.den y.den : Rat) := by exact_mod_cast Nat.pos_of_ne_zero hrb
      positivity
    · rw [div_pow]
      have e1 : ((iroot q.den y.num.natAbs : Rat)) ^ q.den = (y.num : Rat) := by
        have : ((iroot q.den y.num.natAbs ^ q.den : Nat) : Rat) = ((y.num.natAbs : Nat) : Rat) := by rw [h1]
        push_cast at this
        rw [this]
        have h3 : ((y.num.natAbs : Int) : Rat) = (y.num : Rat) := by rw [ha]
        simpa using h3
      have e2 : ((iroot q.den y.den : Rat)) ^ q.den = (y.den : Rat) := by
        have : ((iroot q.den y.den ^ q.den : Nat) : Rat) = ((y.den : Nat) : Rat) := by rw [h2]
        push_cast at this
        exact this
      rw [e1, e2, Rat.num_div_den, hyd, powInt_eq]
  · split at h <;> simp at h


end Atomman.C09
